#!/usr/bin/env python3
"""Regenerate MANIFEST.json from tools/props.py (claimed) and properties.jsonl (the rest)."""
import json, os, sys
ROOT = os.path.dirname(os.path.dirname(os.path.abspath(__file__)))
sys.path.insert(0, os.path.join(ROOT, 'tools'))
import props
ids = [json.loads(l)['id'] for l in open(os.path.join(ROOT, 'properties.jsonl'))]
checks = []
TIE = {'C%02d' % i for i in range(1, 21)}
for pid in ids:
    if pid not in props.REGISTRY or not props.REGISTRY[pid].get('claimed', True):
        continue
    sp = props.REGISTRY[pid]
    checks.append({
        'property_id': pid,
        'quick_cmd': './check %s --tier quick' % pid,
        'thorough_cmd': './check %s --tier thorough' % pid,
        'evidence_file': 'evidence/%s.json' % pid,
        'replay_cmd_template': './check %s --replay {path}' % pid,
        'engine': 'lean4-model+correspondence',
        'level_claimed': {'category': 'proof', 'text': sp['level_text'], 'design_ref': sp.get('design_ref', 'DESIGN.md §7 ' + pid)},
        'level_note': sp['level_note'] + ' Since the static tie (DESIGN.md 0.7) the model definitions this property is stated about are additionally proved equal to a translation of the current source regenerated on every run (Tie.lean, TieTables.lean; headline theorems restated over the generated definitions in OnSource.lean), and every other item of src/ is pinned by the fingerprint of its token text; trusted for that: tools/rs2lean.py and its dictionary of Rust std readings. A source that no longer translates is reported (after a search for a failing input) as VIOLATION ... no-failing-input-found for the properties anchored in the changed file.',
        'technique': sp.get('technique', 'Lean 4 theorem over a hand-written model + differential correspondence check against the Rust crate (request streams with woven call histories)'
                            + (' + static tie: the model is proved equal (Tie.lean/TieTables.lean) to a translation of the current source regenerated on every run (tools/rs2lean.py)' if pid in TIE else '')),
    })
na = [{'property_id': pid, 'reason': props.NOT_CLAIMED.get(pid, 'check under construction (no claim yet)')}
      for pid in ids if pid not in [c['property_id'] for c in checks]]
m = {
    'version': 1,
    'setup_cmd': './setup.sh',
    'hooks': {'guard': 'ddnmea_find_parser_verif',
              'enable': "RUSTFLAGS='--cfg ddnmea_find_parser_verif' (set by ./check when it builds the harness); no hook is needed, the harness uses only the public API, so the flag changes nothing",
              'baseline_off_cmd': 'cd /repo && cargo test --workspace --no-fail-fast --offline',
              'source_commits': [], 'add_only': True},
    'engines': [{'name': 'lean4-model+correspondence', 'path': 'lean/ harness/ check tools/',
                 'serves_properties': [c['property_id'] for c in checks],
                 'kind_free_text': 'Lean 4 model (lean/FindVerif/Model), independent spec (lean/FindVerif/Spec), theorems (lean/FindVerif/Theorems), translator tools/rs2lean.py regenerating lean/FindVerif/Gen from the Rust source with equality proofs lean/FindVerif/Tie*.lean, Rust harness calling the real crate in-process, compiled Lean driver comparing model and implementation and evaluating the property predicates on the implementation'}],
    'checks': checks,
    'notes': 'see DESIGN.md; known findings in known_findings.json',
    'not_applicable': na,
}
json.dump(m, open(os.path.join(ROOT, 'MANIFEST.json'), 'w'), indent=1)
print('claimed:', [c['property_id'] for c in checks])
