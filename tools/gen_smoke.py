import random, sys
rnd = random.Random(int(sys.argv[1]) if len(sys.argv) > 1 else 1)
def hx(s): return 'x' + s.encode('utf-8').hex()
words = ['(', ')', '!', ',', '-a', '-and', '-o', '-or', '-true', '-false', '-name x', '-print', '-depth', '-threads 4',
 '-amin 5', '-amin +5m', '-atime -3', '-mmin 5d', '-ctime 7h', '-cmin 2s', '-size 5', '-size +5k', '-size -5M', '-size 5x', '-size 5G','-size 1T','-size 3c','-size 9w','-size 2b',
 '-uid 5', '-gid +4294967295', '-gid 4294967296', '-inum -3', '-links 18446744073709551615', '-links 18446744073709551616',
 '-type f', '-type f,d', '-type fd', '-type x', '-type f,', '-type ,', '-perm 777', '-perm 0644', '-perm -u+x', '-perm /g=rw,o-x', '-perm u=rwx,u-r', '-perm 77', "-perm 'u+r'",
 '-perm u+', '-perm u', '-perm 7777', '-name "a b"', "-name 'c d'", '-iname x*', '-path ./a', '-ipath B', '-pool p1', '-xattr user.a', '-xattr-match a b', '-xattr-match a',
 '-empty', '-executable', '-readable', '-writable', '-nouser', '-nogroup', '-user bob', '-group g', '-regex r', '-iregex r', '-lname l', '-ilname l', '-samefile f', '-fstype ext4',
 '-anewer f', '-cnewer f', '-mnewer f', '-mirror-count 2', '-stripe-count +3', '-print0', '-printf "%p\\n"', "-printf '%s %u\\t%%'", '-printf %q', '-printf "abc"', '-fprint out', '-fprint0 out',
 '-fprintf out "%p\\n"', '-fprintf out', '-fls l', '-ls', '-prune', '-quit', '-print-file-fid', 'nope', '-bogus', 'abc', '"abc"', "'abc", '-printf "\\101\\n"', '-printf "\\q\\\\"', '-printf "%A@ %Ak %{xattr:user}"',
 '-printf "%{fid}%{projid}%{mirror-count}%{stripe-count}%{stripe-size}"', '-fprint', '-threads', '-name', '-uid', '-amin 5x', '-printx', '-trueish', '-depth5', '-threads4', '-a-true', '-o(', '-ax']
seps = [' ', ' ', ' ', '  ', '\n', ' \n ', '']
n = int(sys.argv[2]) if len(sys.argv) > 2 else 2000
for _ in range(n):
    k = rnd.randint(0, 7)
    s = rnd.choice(['', '', ' ', '\n'])
    for i in range(k):
        s += rnd.choice(words) + rnd.choice(seps)
    print('P ' + hx(s))
