"""Source dictionary: every string and character literal of /repo's CURRENT source (src/**/*.rs, the
working tree the checks rebuild from) becomes stream input.  A keyword, unit letter, directive or
escape that exists in the code but not in the model's tables is thereby put in front of the parser on
every run, in every role a literal can play (a word of its own, a unit suffix, a directive letter, an
escape letter, a type letter, a mode), and the model / vocabulary oracle decide what must happen."""
import glob, os, re

REPO = os.environ.get('VERIF_REPO', '/repo')

_ESC = {'n': '\n', 't': '\t', 'r': '\r', '0': '\0', '\\': '\\', '"': '"', "'": "'"}


def _unescape(body):
    out, i = [], 0
    while i < len(body):
        c = body[i]
        if c == '\\' and i + 1 < len(body):
            n = body[i + 1]
            if n in _ESC:
                out.append(_ESC[n]); i += 2; continue
            if n == 'x' and i + 3 < len(body):
                try:
                    out.append(chr(int(body[i + 2:i + 4], 16))); i += 4; continue
                except ValueError:
                    pass
            if n == 'u':
                m = re.match(r'\\u\{([0-9a-fA-F]+)\}', body[i:])
                if m:
                    out.append(chr(int(m.group(1), 16))); i += len(m.group(0)); continue
            if n == '\n':
                i += 2
                while i < len(body) and body[i] in ' \t\n':
                    i += 1
                continue
            out.append(n); i += 2; continue
        out.append(c); i += 1
    return ''.join(out)


def literals():
    """Sorted list of distinct literals (strings of length 1..40, characters) of the source."""
    seen = set()
    for path in sorted(glob.glob(os.path.join(REPO, 'src', '**', '*.rs'), recursive=True)):
        try:
            text = open(path, encoding='utf-8').read()
        except OSError:
            continue
        # drop line comments (a // inside a string literal is rare here and only costs a literal)
        text = re.sub(r'(?m)^\s*//.*$', '', text)
        for m in re.finditer(r'"((?:[^"\\]|\\.|\\\n)*)"', text):
            s = _unescape(m.group(1))
            if 1 <= len(s) <= 40:
                seen.add(s)
        for m in re.finditer(r"'((?:[^'\\\n]|\\.){1,10})'", text):
            s = _unescape(m.group(1))
            if len(s) == 1:
                seen.add(s)
    return sorted(seen)


def word_like(lits, maxlen=16):
    """Literals usable as one shell word inside a larger input (no blanks, quotes, parentheses)."""
    return [l for l in lits if len(l) <= maxlen and not any(c in ' \t\r\n\'"()\0' for c in l) and all(ord(c) >= 0x20 for c in l)]


def atoms():
    """Word-like literals plus every single character of the short ones (alphabets handed to one_of)."""
    lits = literals()
    out = set(word_like(lits))
    for l in lits:
        if len(l) <= 12:
            for c in l:
                if c not in ' \t\r\n\'"()\0' and ord(c) >= 0x20:
                    out.add(c)
    return sorted(out)


REPRESENTATIVE = {'time': ['-mtime', '-amin'], 'size': ['-size'], 'cmp32': ['-uid'], 'cmp64': ['-links'], 'u32': ['-threads'],
                  'types': ['-type'], 'perm': ['-perm']}


def arg_variants(a):
    """The roles an atom can play inside an argument."""
    return [a, '5' + a, '+5' + a, '-5' + a, a + '5', '0' + a, 'f,' + a, a + ',f', 'u+' + a, a + '+x', 'u' + a + 'x', '/' + a, '644' + a]


def format_variants(a):
    if "'" in a:
        return []
    return ["'%" + a + "'", "'\\" + a + "'", "'x%" + a + "y'", "'%A" + a + "'", "'%T" + a + "'", "'%C" + a + "'", "'%{" + a + "}'", "'%{" + a + "'", "'%{xattr:" + a + "}'", "'" + a + "'"]
