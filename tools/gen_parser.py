"""Generators for the parser-side streams (vocab, numeric, perm, format, errors, options, layout,
totality).  The tables here drive *generation only*; expected values come from the Lean spec."""
import itertools, random


def hx(s):
    return 'x' + s.encode('utf-8').hex()


# keyword -> argument kind (for generation)
KW = {
    '-amin': 'time', '-atime': 'time', '-cmin': 'time', '-ctime': 'time', '-mmin': 'time', '-mtime': 'time',
    '-anewer': 'word', '-cnewer': 'word', '-mnewer': 'word', '-fstype': 'word', '-group': 'word', '-user': 'word',
    '-ilname': 'word', '-iname': 'word', '-ipath': 'word', '-iregex': 'word', '-name': 'word', '-path': 'word',
    '-pool': 'word', '-regex': 'word', '-samefile': 'word', '-xattr': 'word',
    '-empty': 'none', '-executable': 'none', '-false': 'none', '-true': 'none', '-readable': 'none',
    '-writable': 'none', '-nouser': 'none', '-nogroup': 'none',
    '-gid': 'cmp32', '-uid': 'cmp32', '-inum': 'cmp32', '-mirror-count': 'cmp32', '-stripe-count': 'cmp32',
    '-links': 'cmp64', '-size': 'size', '-type': 'types', '-perm': 'perm', '-xattr-match': 'wordword',
    '-fls': 'word', '-fprint': 'word', '-fprint0': 'word', '-fprintf': 'wordformat', '-printf': 'format',
    '-ls': 'none', '-print': 'none', '-print0': 'none', '-print-file-fid': 'none', '-prune': 'none', '-quit': 'none',
    '-depth': 'none', '-threads': 'u32',
}
TESTS = [k for k in KW if k not in ('-fls', '-fprint', '-fprint0', '-fprintf', '-printf', '-ls', '-print', '-print0',
                                    '-print-file-fid', '-prune', '-quit', '-depth', '-threads')]
ACTIONS = ['-fls', '-fprint', '-fprint0', '-fprintf', '-printf', '-ls', '-print', '-print0', '-print-file-fid', '-prune', '-quit']
OPTIONS = ['-depth', '-threads']

U32 = 2 ** 32
U64 = 2 ** 64

MEMBERS = {
    'none': [[]],
    'word': [['x'], ['foo.txt'], ["'a b'"], ['"c d"'], ["'a  b'"], ['"c\td"'], ["'e\nf'"], ['"  g  "'], ["'h \t i'"], ['"*/my\tdir/*"'], ["'.* \\( .*'"], ['"x \\! y"'], ['a"b'], ['x*'], ['é'], ["'q)r'"], ['-print'], ['5'], ["'-o'"],
             ['"dir\\"'], ["'dir\\'"], ['dir\\'], ['"a\\\\"'], ['"C:\\tmp\\"'], ['"a\\b"'], ['"{}"'], ['{mdt}'], ["'a(b'"], ['":)"'], ['日本'], ["'é x'"],
             # spellings a path- or key-normalising reader would rewrite: the value must be kept exactly as written
             ['a//b'], ['a/./b'], ['dir/'], ['dir/.'], ['./x'], ['../x'], ['/abs//x/'], ["'logs//scan.out'"], ['"/srv//lists/./files/"'], ['x/i'], ['ci-x'], ['A.TXT'], ['x.']],
    'cmp32': [['0'], ['5'], ['+5'], ['-5'], ['007'], [str(U32 - 1)], ['+' + str(U32 - 1)], ['-0'], ['00000000000000000001'],
              ['0' * 20 + '7'], ['+' + '0' * 30 + '42'], ['-' + '0' * 63 + '1'], ['0' * 54 + str(U32 - 1)], ['0' * 40]],
    'cmp64': [['0'], ['5'], ['+5'], ['-5'], [str(U32)], [str(U64 - 1)], ['+' + str(U64 - 1)], ['0' * 21 + '7'], ['0' * 44 + str(U64 - 1)]],
    'u32': [['0'], ['4'], ['16'], [str(U32 - 1)], ['0008'], ['0' * 20 + '7'], ['0' * 33 + '16']],
    'size': [['0' * 20 + '7k'], ['-' + '0' * 25 + '7'], ['+' + '0' * 44 + '1G'], ['5'], ['5c'], ['5w'], ['5b'], ['5k'], ['5M'], ['5G'], ['5T'], ['+5k'], ['-5M'], ['0'], ['+0c'], [str(U64 - 1)], ['1000000T']],
    'time': [['0' * 20 + '7'], ['-' + '0' * 31 + '7d'], ['5'], ['5s'], ['5m'], ['5h'], ['5d'], ['+5'], ['-5d'], ['0'], ['+0s'], [str(U64 - 1) + 'd']],
    'types': [['f'], ['d'], ['f,d'], ['b,c,p,l,s'], ['f,f'], ['l'], ['s,b']] + [[','.join(c)] for n in (3, 4) for c in __import__('itertools').product('fdl', repeat=n)],
    'perm': [['644'], ['0644'], ['7777'], ['000'], ['-644'], ['/222'], ['u+x'], ['-u+x'], ['/u+x'], ['a=r'], ['ug=rw'],
             ['u=rwx,g=rx,o=r'], ["'u+r'"], ['"g+w"'], ['a+rwx'], ['o=x,o=w'], ['u+r,g+r,o+r'], ['-a-x'], ['00644'], ['/o-w']],
    'format': [["'%p\\n'"], ['"%p %s\\n"'], ["'%p  %s\\n'"], ['"a\tb %p"'], ["'abc'"], ['%p'], ["'%%'"], ["'\\101'"], ["'%A@ %Tk %CY'"], ["'%{fid} %{xattr:user}\\0'"],
               ["'a\\qb'"], ["'\\\\'"], ["'%u%g\\t%m'"], ["'x'"],
               # every documented escape (octal with leading 0, 1..7, and the extremes) and every documented directive, each in one argument
               ["'\\a\\b\\f\\n\\r\\t\\v\\0\\\\'"], ["'\\012'"], ["'\\000'"], ["'\\033[1m%f\\033[0m'"], ["'\\101\\777\\0000\\08'"],
               ["'%%%a%b%c%f%g%G%h%H%i%k%m%n%p%P%s%S%t%u%U%y'"], ["'%{fid}%{projid}%{mirror-count}%{stripe-count}%{stripe-size}%{xattr:a}%A@%Ck%TY'"]],
    'wordword': [['a', 'b'], ["'a b'", 'c'], ['user.x', '"v w"'], ['a*', 'b?']],
    'wordformat': [['out', "'%p\\n'"], ["'o ut'", '"%s"'], ['o', 'lit']],
}
NONMEMBERS = {
    'none': [],
    'word': [[]],
    'cmp32': [[], [str(U32)], ['5x'], ['x'], ['+'], ['++5'], ['5.0'], ['99999999999999999999'], ['-'], ['@5'], ['5@']],
    'cmp64': [[], [str(U64)], ['5x'], ['x'], ['+'], ['5.5'], ['999999999999999999999999'], ['5#']],
    'u32': [[], [str(U32)], ['x'], ['+4'], ['4x'], ['-1']],
    'size': [[], ['5g'], ['5x'], ['5kk'], ['k'], ['5K'], [str(U64)], ['5cb'], ['x5'], ['+'], ['5@']],
    'time': [[], ['5x'], ['5w'], ['d'], ['5dd'], [str(U64)], ['5M'], ['+x'], ['5@']],
    'types': [[], ['fd'], ['x'], ['f,x'], ['F'], ['f,dd'], ['ff'], ['f@']],
    'perm': [[], ['77'], ['7'], ['0777x'], ['777,u+x'], ['u+x,'], ['u+'], ['u'], ['+x'], ['u+e'], ['77777'], ['888'],
             ['u+x,777'], ['u+x@'], ['17777'], ['77777777777'], ['q+r'], ['u+x,,g+x'], ['/'], ['-']],
    'format': [[], ["'%q'"], ['%'], ["'%{bogus}'"], ["'a%'"], ["'%{xattr:}'"], ["'%{xattr:a1}'"], ["'%A'"]],
    'wordword': [[], ['a']],
    'wordformat': [[], ['out'], ['out', "'%q'"]],
}

CTX = ['alone', 'after', 'before', 'paren', 'not', 'mid', 'list', 'gparen', 'long', 'tab', 'deep']


def in_ctx(ctx, prim):
    return {'alone': prim, 'after': '-true ' + prim, 'before': prim + ' -false', 'paren': '( ' + prim + ' )',
            'not': '! ' + prim, 'mid': '-true ' + prim + ' -o -false', 'list': '-false , ' + prim + ' -true',
            'gparen': '(' + prim + ')', 'long': '-true ' * 60 + prim + ' -o -false', 'tab': '-true\t' + prim + '\n',
            'deep': '( ' * 20 + prim + ' )' * 20, 'aftertype': '-type f ' + prim, 'beforetype': prim + ' -type d',
            'afteruid': '-uid 0 ' + prim,
            'permand': '-perm /111 ' + prim, 'permor': '-perm -400 -o ' + prim, 'permor2': prim + ' -o -perm -040',
            'permand2': prim + ' -perm /002', 'permand3': '-perm -200 ' + prim, 'permor3': '-perm /020 -o ' + prim,
            'permlist': '-perm 644 , ' + prim, 'permnot': '! -perm -100 ' + prim,
            # the primary as the LAST member of a chain of equality tests with the same keyword
            'orchain': ' -o '.join('%s %d' % (prim.split(' ')[0], k) for k in (1, 2, 3)) + ' -o ' + prim,
            'orchain5': ' -o '.join('%s %d' % (prim.split(' ')[0], k) for k in (7, 1, 2, 3, 4)) + ' -o ' + prim,
            'andchain': ' '.join('%s %d' % (prim.split(' ')[0], k) for k in (1, 2, 3)) + ' ' + prim,
            'orchainmid': '%s 1 -o %s 2 -o ' % (prim.split(' ')[0], prim.split(' ')[0]) + prim + ' -o %s 3 -o %s 4' % (prim.split(' ')[0], prim.split(' ')[0])}[ctx]


def prim_request(op, kw, args, ctx, extra=''):
    prim = ' '.join([kw] + args)
    return '%s %s%s #kw=%s #args=%s #ctx=%s' % (op, hx(in_ctx(ctx, prim)), extra, hx(kw), ','.join(hx(a) for a in args), ctx)


def gen_vocab(tier, rnd):
    lines = []
    mult = 1 if tier == 'quick' else 6
    for kw, kind in KW.items():
        mem = list(MEMBERS[kind])
        non = list(NONMEMBERS[kind])
        for _ in range(mult * 4):
            mem.append(rand_member(kind, rnd))
        for args in mem:
            for ctx in CTX:
                lines.append(prim_request('P', kw, args, ctx))
        for args in non:
            at_end_only = args == [] or (kind in ('wordword', 'wordformat') and len(args) == 1)
            for ctx in (['alone', 'after'] if at_end_only else ['alone', 'after', 'before', 'paren', 'mid', 'gparen', 'long', 'tab']):
                lines.append(prim_request('P', kw, args, ctx))
    # every keyword mangled into a non-keyword: one character appended, dropped, changed in case, doubled dash
    allkw = set(KW) | {'-a', '-and', '-o', '-or', '!', '(', ')', ','}
    mangled = set()
    for kw in KW:
        for m in [kw + 'x', kw + '0', kw + '-', kw[:-1], kw.upper(), '-' + kw, kw[1:], kw + kw[-1]]:
            if m and m not in allkw and m.lower() != m or (m and m not in allkw):
                mangled.add(m)
    for m in sorted(mangled):
        if m in allkw or m in ('', '-'):
            continue
        for ctx in ['alone', 'after', 'before']:
            lines.append('P %s #unknownword=%s' % (hx(in_ctx(ctx, m)), hx(m)))
        lines.append('P %s #unknownword=%s' % (hx(m + ' 5'), hx(m)))
        lines.append('P %s #unknownword=%s' % (hx(m + ' x y'), hx(m)))
    # source dictionary: every literal of the current source in every role an argument can play
    import srcdict, re as _re
    atoms = srcdict.atoms()
    for a in atoms:
        # an atom at which a token can start (a keyword, punctuation, the positional placeholder) glued behind an
        # argument is two tokens, accepted by design (DESIGN.md 9.4): compared with the model only, not with the
        # argument language
        tokenish = a in allkw or a == 'nope' or bool(_re.match(r'^-[A-Za-z]', a)) or a[0] in '(),!'
        for kind, kws in srcdict.REPRESENTATIVE.items():
            for kw in kws:
                for arg in srcdict.arg_variants(a):
                    if tokenish or 'nope' in arg:
                        lines.append('P %s' % hx(kw + ' ' + arg))
                    else:
                        lines.append(prim_request('P', kw, [arg], 'alone'))
        for arg in srcdict.format_variants(a):
            lines.append(prim_request('P', '-printf', [arg], 'alone'))
            lines.append(prim_request('P', '-fprintf', ['out', arg], 'alone'))
        if a not in allkw:
            if _re.match(r'^-[A-Za-z][A-Za-z0-9_-]*$', a) and not any(a.startswith(k) for k in allkw if k.startswith('-')):
                for ctx in ['alone', 'after', 'before']:
                    lines.append('P %s #unknownword=%s' % (hx(in_ctx(ctx, a)), hx(a)))
                lines.append('P %s #unknownword=%s' % (hx(a + ' 5'), hx(a)))
            else:
                lines.append('P %s' % hx(a))
                lines.append('P %s' % hx('-true ' + a))
                lines.append('P %s' % hx(a + ' x'))
    # unknown words
    for w in ['bogus', '-zzz', '@@', 'foo.bar', '-Name', '-PRINT', '--print', '-lname', '\\(', '\\)', '\\!', '\\,', '\\-true']:
        for ctx in ['alone', 'after', 'before']:
            lines.append('P %s #unknownword=%s' % (hx(in_ctx(ctx, w)), hx(w)))
    return lines, {'rule': 'every keyword of the vocabulary (%d) x members of its argument language (fixed boundary-rich list + %d random per keyword) x 7 contexts, and x systematic non-members (missing argument, trailing/embedded junk, out-of-range) x up to 5 contexts; every keyword mangled into a non-keyword (one character appended, dropped, case changed, dash doubled or dropped), alone, in context and followed by would-be arguments; non-trivial = every request'
                   % (len(KW), mult * 4), 'streams': {'vocab': len(lines)}}


def rand_member(kind, rnd):
    if kind == 'none':
        return []
    if kind == 'word':
        s = ''.join(rnd.choice('abcXYZ019._-*?[]é') for _ in range(rnd.randint(1, 8)))
        q = rnd.choice(['', "'", '"'])
        return [q + s + q]
    if kind in ('cmp32', 'cmp64'):
        b = U32 if kind == 'cmp32' else U64
        return [rnd.choice(['', '+', '-']) + str(rnd.choice([rnd.randint(0, b - 1), rnd.randint(0, 100)]))]
    if kind == 'u32':
        return [str(rnd.randint(0, U32 - 1))]
    if kind == 'size':
        return [rnd.choice(['', '+', '-']) + str(rnd.randint(0, 2 ** rnd.randint(1, 64) - 1)) + rnd.choice(['', 'b', 'c', 'w', 'k', 'M', 'G', 'T'])]
    if kind == 'time':
        return [rnd.choice(['', '+', '-']) + str(rnd.randint(0, 2 ** rnd.randint(1, 64) - 1)) + rnd.choice(['', 's', 'm', 'h', 'd'])]
    if kind == 'types':
        return [','.join(rnd.choice('bcdpfls') for _ in range(rnd.randint(1, 4)))]
    if kind == 'perm':
        pre = rnd.choice(['', '-', '/'])
        if rnd.random() < 0.4:
            return [pre + oct(rnd.randint(0, 4095))[2:].rjust(rnd.choice([3, 4]), '0')]
        # '-'-free clause lists (the '-' operator is the known finding K1 and is exercised by C08)
        n = rnd.randint(1, 3)
        return [pre + ','.join(rand_clause(rnd, ops='+=') for _ in range(n))]
    if kind == 'format':
        return ["'" + rand_format_text(rnd) + "'"]
    if kind == 'wordword':
        return [rand_member('word', rnd)[0], rand_member('word', rnd)[0]]
    if kind == 'wordformat':
        return [rand_member('word', rnd)[0], "'" + rand_format_text(rnd) + "'"]
    raise KeyError(kind)


def rand_clause(rnd, ops='+-='):
    who = ''.join(rnd.sample('ugoa', rnd.randint(1, 3)))
    perm = ''.join(rnd.sample('rwx', rnd.randint(1, 3)))
    return who + rnd.choice(ops) + perm


DIRECTIVES = ['%%', '%a', '%b', '%c', '%d', '%D', '%f', '%F', '%g', '%G', '%h', '%H', '%i', '%k', '%l', '%m', '%M', '%n', '%p', '%P',
              '%s', '%S', '%t', '%u', '%U', '%y', '%Y', '%Z', '%{fid}', '%{projid}', '%{mirror-count}', '%{stripe-count}',
              '%{stripe-size}', '%A@', '%Ak', '%CY', '%Td', '%{xattr:user}']
ESCAPES = ['\\a', '\\b', '\\c', '\\f', '\\n', '\\r', '\\t', '\\v', '\\0', '\\\\', '\\101', '\\012', '\\777']


def rand_format_text(rnd, maxlen=8):
    out = ''
    for _ in range(rnd.randint(1, maxlen)):
        k = rnd.random()
        if k < 0.4:
            out += rnd.choice(DIRECTIVES)
        elif k < 0.6:
            out += rnd.choice(ESCAPES)
        else:
            out += rnd.choice(['a', 'xyz', ' ', ',', 'q', '~', ':', '{', '}', '8', '1'])
    return out or 'x'


# ------------------------------------------------------------------ numeric (C07)

NUMERIC = {'-uid': 'cmp32', '-gid': 'cmp32', '-inum': 'cmp32', '-mirror-count': 'cmp32', '-stripe-count': 'cmp32',
           '-links': 'cmp64', '-threads': 'u32', '-size': 'size', '-amin': 'time', '-atime': 'time', '-cmin': 'time',
           '-ctime': 'time', '-mmin': 'time', '-mtime': 'time'}
SIZE_UNITS = {'': 512, 'b': 512, 'c': 1, 'w': 2, 'k': 2 ** 10, 'M': 2 ** 20, 'G': 2 ** 30, 'T': 2 ** 40}


def boundary_values(rnd, extra_random):
    vals = set()
    for c in [0, 2 ** 31, 2 ** 32, 2 ** 63, 2 ** 64]:
        for d in range(-2, 3):
            if c + d >= 0:
                vals.add(c + d)
    for k in range(1, 66):
        vals |= {2 ** k - 1, 2 ** k, 2 ** k + 1}
    for k in range(2, 17):
        vals |= {U64 // k, U64 // k + 1}
    for u in list(SIZE_UNITS.values()) + [60, 3600, 86400]:
        for d in range(-2, 3):
            if U64 // u + d >= 0:
                vals.add(U64 // u + d)
    vals |= {10 ** 20, 10 ** 39, 123456789}
    for _ in range(extra_random):
        vals.add(rnd.randint(0, 2 ** rnd.randint(1, 70)))
    return sorted(vals)


def gen_numeric(tier, rnd):
    lines = []
    vals = boundary_values(rnd, 20 if tier == 'quick' else 400)
    for kw, kind in NUMERIC.items():
        for v in vals:
            spellings = [str(v), '000' + str(v)]
            if kind != 'u32':
                spellings += ['+' + str(v), '-' + str(v)]
            for sp in spellings:
                units = ['']
                if kind == 'size':
                    units = list(SIZE_UNITS.keys())
                if kind == 'time':
                    units = ['', 's', 'm', 'h', 'd']
                for u in units:
                    ctx = rnd.choice(['alone', 'after', 'paren'])
                    lines.append(prim_request('C', kw, [sp + u], ctx, ' ' + hx('/dev/x')))
                    if kind in ('cmp32', 'cmp64') and sp == str(v) and kw not in ('-threads',):
                        for ctx, nums in [('orchain', [1, 2, 3, v]), ('orchain5', [7, 1, 2, 3, 4, v]), ('andchain', [1, 2, 3, v]), ('orchainmid', [1, 2, v, 3, 4])]:
                            lines.append(prim_request('C', kw, [sp], ctx, ' ' + hx('/dev/x')) + ' #nums=' + ','.join(str(x) for x in nums))
    # the thread count with other options around it (leading, misplaced, in parentheses)
    for v in [0, 1, 8, 2 ** 31, U32 - 1]:
        for text in ['-threads %d -name x -depth', '-depth -threads %d -name x', '-threads %d ( -name x -o -depth )', '-name x -threads %d -depth',
                     '-depth -name x -threads %d', '-threads %d -depth', '-threads %d -name x ( -depth ) -print']:
            lines.append('C %s %s #threads=%d' % (hx(text % v), hx('/dev/x'), v))
    # the thread count next to every kind of primary, in particular with each action as the LAST operand of the
    # top-level chain (a generator that adapts the scan call to the expression must still pass the count on)
    lasts = ['-quit', '-print', '-print0', '-fprint out', "-printf '%p\\n'", "-printf '%p'", '-print-file-fid', '-true', '-false', '-empty',
             '-name y', '-size +1k', '-perm 644', '( -name y -quit )', '! -quit', '-name y -o -quit', '-name y , -quit', '-type f -quit',
             '-print -quit', '-fprint0 z -quit']
    for v in [0, 1, 2, 8, U32 - 1]:
        for last in lasts:
            for text in ['-threads %d -name x %s', '-name x -threads %d %s', '-threads %d %s', '-depth -threads %d -name x -print %s',
                         '( -threads %d -name x ) %s', '-threads 3 -name x -threads %d %s']:
                lines.append('C %s %s #threads=%d' % (hx(text % (v, last)), hx('/dev/x'), v))
    # CHAINS of sign-less (and signed) tests on one numeric attribute (a generator that folds a chain into one
    # membership/range test must keep every constant exact)
    big = {'-links': [1, 2, 3, 4294967297, 4294967296, 8589934597, 7, 18446744073709551615], '-uid': [0, 1, 2, 4294967295, 65536, 5],
           '-gid': [0, 4294967295, 3, 4], '-inum': [1, 4294967295, 2, 9], '-stripe-count': [0, 1, 2, 4294967295], '-mirror-count': [1, 2, 3, 4]}
    for kw, vals in big.items():
        for k in range(2, 7):
            for op in [' -o ', ' -a ', ' , ', ' ']:
                for sign in ['', '+', '-']:
                    vs = [vals[(i * 3 + k) % len(vals)] for i in range(k)]
                    text = op.join('%s %s%d' % (kw, sign, v) for v in vs)
                    lines.append('C %s %s' % (hx(text), hx('/dev/x')))
                    lines.append('C %s %s' % (hx('( ' + text + ' ) -print'), hx('/dev/x')))
    # PAIRS of -size tests whose count and unit multiplier spell the same digits when written one after the other
    # (a table of rendered constants keyed by such a concatenation would hand one test the other's constant)
    mults = {'c': 1, 'w': 2, 'b': 512, 'k': 1024, 'M': 2 ** 20, 'G': 2 ** 30, 'T': 2 ** 40, '': 512}
    pairs = []
    for u1, m1 in mults.items():
        for c1 in list(range(1, 40)) + [71, 100, 351, 512]:
            digits = str(c1) + str(m1)
            for u2, m2 in mults.items():
                if digits.endswith(str(m2)) and len(digits) > len(str(m2)):
                    c2 = int(digits[:-len(str(m2))])
                    if (c2, m2) != (c1, m1) and c2 > 0:
                        pairs.append(('%d%s' % (c1, u1), '%d%s' % (c2, u2), c1 * m1, c2 * m2))
    def size_nums(c, u):
        m = mults[u]
        return ([] if m == 1 else [m]) + [c * m]
    for a, b, va, vb in pairs[:400]:
        ca, ua = int(a.rstrip('cwbkMGT')), a.lstrip('0123456789')
        cb, ub = int(b.rstrip('cwbkMGT')), b.lstrip('0123456789')
        for text, nums in [('-size %s -o -size %s' % (a, b), size_nums(ca, ua) + size_nums(cb, ub)),
                           ('-size +%s -size -%s' % (b, a), size_nums(cb, ub) + size_nums(ca, ua)),
                           ('( -size %s -name a ) -o ! -size -%s' % (a, b), size_nums(ca, ua) + size_nums(cb, ub))]:
            lines.append('C %s %s #kw=%s #args=%s #ctx=sizepair #nums=%s' % (hx(text), hx('/dev/x'), hx('-size'), hx(b), ','.join(str(x) for x in nums)))
    # every letter (and some punctuation) as a would-be unit suffix, with small and huge counts:
    # a suffix is either a documented unit (exact product) or the argument is rejected
    import string
    for kw, kind in NUMERIC.items():
        for sfx in list(string.ascii_letters) + ['%', '.', '_', 'kb', 'KB', 'ki', 'mi', 'wk', 'yr']:
            for v in [1, 7, 365, 2 ** 63, 2 ** 64 - 1, 2635249153387078803, 10 ** 19, 3 * 10 ** 18]:
                for sign in ['', '+', '-'] if kind != 'u32' else ['']:
                    lines.append(prim_request('C', kw, [sign + str(v) + sfx], 'alone', ' ' + hx('/dev/x')))
    if tier != 'quick':
        for _ in range(100000):
            kw = rnd.choice(list(NUMERIC))
            lines.append(prim_request('C', kw, rand_member(NUMERIC[kw], rnd), rnd.choice(CTX), ' ' + hx('/dev/x')))
    return lines, {'rule': 'every numeric primary (%d) x every letter as a would-be unit suffix x small and huge counts; x decimal strings around 0, 2^31, 2^32, 2^63, 2^64 and 2^64/unit for every unit (+-2), 10^20, 10^39, leading zeros, signs, every unit suffix, plus random values; parse + compile + render, debug and release; non-trivial = every request'
                   % len(NUMERIC), 'streams': {'numeric': len(lines)}}


# ------------------------------------------------------------------ perm (C08)

def all_single_clauses():
    whos = [''.join(c) for n in range(1, 5) for c in itertools.combinations('ugoa', n)]
    perms = [''.join(c) for n in range(1, 4) for c in itertools.combinations('rwx', n)]
    return [w + op + p for w in whos for op in '+-=' for p in perms]


def gen_perm(tier, rnd):
    lines = []
    for v in range(4096):
        for width in (3, 4):
            sp = oct(v)[2:].rjust(width, '0')
            if len(sp) > width:
                continue
            for pre in ['', '-', '/']:
                lines.append(prim_request('C', '-perm', [pre + sp], 'alone', ' ' + hx('/')))
    singles = all_single_clauses()
    assert len(singles) == 315
    for c in singles:
        for pre in ['', '-', '/']:
            lines.append(prim_request('C', '-perm', [pre + c], 'alone', ' ' + hx('/')))
    if tier == 'quick':
        pairs = [(rnd.choice(singles), rnd.choice(singles)) for _ in range(5000)]
    else:
        pairs = [(a, b) for a in singles for b in singles]
    for a, b in pairs:
        pre = rnd.choice(['', '-', '/'])
        lines.append(prim_request('C', '-perm', [pre + a + ',' + b], 'alone', ' ' + hx('/')))
    for _ in range(2000 if tier == 'quick' else 100000):
        n = rnd.choice([3, 4])
        pre = rnd.choice(['', '-', '/'])
        lines.append(prim_request('C', '-perm', [pre + ','.join(rnd.choice(singles) for _ in range(n))], 'alone', ' ' + hx('/')))
    # who and permission parts with REPEATED letters (chmod: a letter given twice means what it means once); every
    # character of a clause is a universally quantified variable of C08_written, so repeats are varied too
    reps_who = ['uu', 'ugu', 'aa', 'oo', 'gog', 'uau', 'ggg', 'ou']
    reps_perm = ['rr', 'ww', 'xx', 'rwr', 'rxx', 'wxw', 'rrr', 'xwx', 'rwxrwx', 'xxr', 'wr', 'xr']
    for w in ['u', 'g', 'o', 'a', 'ug', 'go'] + reps_who:
        for op in '+=-':
            for pm in ['r', 'w', 'x', 'rw'] + reps_perm:
                if w in reps_who or pm in reps_perm:
                    for pre in ['', '-', '/']:
                        lines.append(prim_request('C', '-perm', [pre + w + op + pm], 'alone', ' ' + hx('/')))
                        lines.append(prim_request('C', '-perm', [pre + 'u=rwx,' + w + op + pm + ',o+r'], 'alone', ' ' + hx('/')))
    # longer octal spellings: leading zeros keep the value, anything beyond 07777 is not a mode and must be rejected
    longs = ['00644', '0007777', '000000', '10000', '17777', '20644', '100755', '77777', '777777', '7777777', '40000', '07778', '12345670', '37777777777', '40000000000',
             # digit runs beyond every machine word (2^32, 2^64, 2^128): rejected, in both builds, whatever the low digits say
             '2000000000000000000644', '1777777777777777777777', '2000000000000000000000', '7' * 22, '7' * 23, '1' + '0' * 22 + '644', '4' + '0' * 42 + '755', '0' * 40 + '644', '7' * 64]
    for _ in range(200 if tier == 'quick' else 5000):
        longs.append(''.join(rnd.choice('01234567') for _ in range(rnd.randint(5, 11))))
    for w in longs:
        for pre in ['', '-', '/']:
            lines.append(prim_request('C', '-perm', [pre + w], 'alone', ' ' + hx('/')))
    # the permission test next to other primaries and under operators (a generator that treats neighbours specially
    # must still emit the three checks)
    modes = ['644', '0644', '4755', '2750', '1777', '7777', '000', '0', '111', 'u=rw,go=r', 'a+x', 'u+s', 'g+s', 'o+t', 'ug=rwx']
    for m in modes:
        for pre in ['', '-', '/']:
            for ctx in ['aftertype', 'beforetype', 'afteruid', 'not', 'paren', 'gparen', 'after', 'mid', 'list',
                        'permand', 'permor', 'permor2', 'permand2', 'permand3', 'permor3', 'permlist', 'permnot']:
                lines.append(prim_request('C', '-perm', [pre + m], ctx, ' ' + hx('/')))
    return lines, {'rule': '15 modes (incl. setuid/setgid/sticky) x 3 prefixes next to -type/-uid, under !, in parentheses and in and/or/list positions; all 4096 octal values in 3- and 4-digit spelling, all 315 single clauses, %s two-clause lists, sampled 3- and 4-clause lists, each under the three prefixes; parse + compile; non-trivial = every request'
                   % ('5000 sampled' if tier == 'quick' else 'all 99225'), 'exhaustive': tier != 'quick', 'streams': {'perm': len(lines)}}


# ------------------------------------------------------------------ format (C14)

FMT_ALPHABET = ['%', '\\', '{', '}', ':', 'a', 'n', 'p', 'q', 'A', '@', '0', '1', '7', '8', 'x', 'é', '日', '\U0001f600']


def octal_runs():
    """Runs of octal escapes that spell (or almost spell) a UTF-8 byte sequence, as lists of values."""
    runs = []
    conts = [0o200, 0o226, 0o251, 0o273, 0o277]
    for lead in range(0o300, 0o340):
        for c in conts + [0o177, 0o300, 0o101]:
            runs.append([lead, c])
    for lead in range(0o340, 0o360):
        for c1 in (0o200, 0o202, 0o277):
            for c2 in (0o200, 0o254, 0o277):
                runs.append([lead, c1, c2])
    for lead in range(0o360, 0o370):
        runs.append([lead, 0o237, 0o230, 0o200])
        runs.append([lead, 0o220, 0o200])
    for c in conts:
        runs.append([c, 0o303]); runs.append([c, c]); runs.append([0o101, c])
    return runs


def gen_format(tier, rnd):
    lines = []
    # every ordered pair of escapes / directives next to each other, and octal escapes in a row (each escape is ONE
    # element whatever stands beside it)
    for a in ESCAPES + DIRECTIVES:
        for b in ESCAPES + DIRECTIVES:
            lines.append(prim_request('P', '-printf', ["'" + a + b + "'"], 'alone'))
    # every braced directive with something between its name and the closing brace, or around the braces
    for name in ['fid', 'projid', 'mirror-count', 'stripe-count', 'stripe-size', 'xattr:user']:
        for junk in [':', ':x', ':%p', ': %p %s', ' ', '}', ':}', '.', ':k', '::', '=1', ',fid']:
            for pre, post in [('', ''), ('a', 'b'), ('%p ', '\\n')]:
                lines.append(prim_request('P', '-printf', ["'" + pre + '%{' + name + junk + '}' + post + "'"], 'alone'))
        for variant in ['%{ ' + name + '}', '%{' + name.upper() + '}', '%{{' + name + '}}', '%{' + name, '%' + name + '}', '%{' + name + '}}']:
            lines.append(prim_request('P', '-printf', ["'" + variant + "'"], 'alone'))
    # names of every length around the thresholds a length limit could sit at
    for n in [1, 8, 31, 32, 63, 64, 127, 128, 254, 255, 256, 257, 300, 511, 512, 1000, 4096]:
        for name in ['a' * n, ('userABC' * n)[:n]]:
            lines.append(prim_request('P', '-printf', ["'%p %{xattr:" + name + "}\\n'"], 'alone'))
    for run in octal_runs():
        esc = ''.join('\\%03o' % v for v in run)
        for pre, post in [('', ''), ('caf', ' %p\\n'), ('%p', 'x')]:
            lines.append(prim_request('P', '-printf', ["'" + pre + esc + post + "'"], 'alone'))
    maxlen = 4 if tier == 'quick' else 5
    for n in range(1, maxlen + 1):
        for combo in itertools.product(FMT_ALPHABET, repeat=n):
            s = ''.join(combo)
            lines.append(prim_request('P', '-printf', ["'" + s + "'"], 'alone'))
    for d in DIRECTIVES + ESCAPES + ['%{xattr:abc}', '%{xattr:}', '%{xattr:a_b}', '%{fid', '%A', '%C', '%T', '\\1', '\\12', '\\1234', '\\8', '\\']:
        for ctxs in [d, 'x' + d, d + 'y', 'x' + d + 'y', d + d]:
            lines.append(prim_request('P', '-printf', ["'" + ctxs + "'"], 'alone'))
    for _ in range(10000 if tier == 'quick' else 100000):
        lines.append(prim_request('P', '-printf', ["'" + rand_format_text(rnd, 20) + "'"], 'alone'))
    # source dictionary: every literal of the current source as directive letter, escape letter, selector, field name
    import srcdict
    for a in srcdict.atoms():
        for arg in srcdict.format_variants(a):
            lines.append(prim_request('P', '-printf', [arg], 'alone'))
    return lines, {'rule': 'every string/character literal of the current source as directive, escape, selector and field name; all strings of length 1..%d over the 16-symbol alphabet %s (exhaustive), every documented directive and escape alone and embedded, random format strings up to ~60 characters; non-trivial = every request'
                   % (maxlen, ' '.join(FMT_ALPHABET)), 'exhaustive': False, 'streams': {'format': len(lines)}}


# ------------------------------------------------------------------ errors (C18)

BADWORDS = {
    'time': ['x', '@', 'd5', '%', ',5'], 'cmp32': ['x', '@', 'k', '%5', ',1'], 'cmp64': ['x', '@', '#1'], 'u32': ['x', '@', 'four'],
    'size': ['k', 'x', '@', '%'], 'types': ['x', 'q', 'Z', '@'], 'perm': ['q+r', '@', 'x', '%644', '9'],
    'format': ["'%q'", '%', "'%{nope}'", "'%q %p'"],
}
def long_bad_words():
    """Words invalid from their first character whose UTF-8 length passes 64, 128, 256 with a
    multi-byte character straddling every byte offset near those thresholds."""
    out = []
    for base in (64, 128, 256):
        for lead in range(base - 4, base + 1):
            for ch in ('é', '€', '\U0001f600'):
                out.append('q' * lead + ch + 'zz')
    out.append('q' * 300)
    out.append('€' * 22)
    out.append('qé' * 40)
    return out

LONG_BAD = long_bad_words()
for _k in ('time', 'cmp32', 'cmp64', 'u32', 'size', 'types', 'perm'):
    BADWORDS[_k] = BADWORDS[_k] + ["'abc def'", '"x y"', "'a)b'", '"q\tr"'] + ['qq', 'xyz', 'xy9', 'xyz,f', 'zzzz', 'Q_', 'qé', 'é', '€uro', 'q,q', "'x", '"k', "'", '"', "'q\"", 'x\'y'] + LONG_BAD
# words that START like a signed comparison and are not one (a forgotten argument followed by the next primary or
# operator, a doubled sign): the message must still quote the whole word
for _k in ('time', 'cmp32', 'cmp64', 'size'):
    BADWORDS[_k] = BADWORDS[_k] + ['+big', '-x', '--3', '-', '+', '+-1', '-+2', '++5', '-print', '-o', '+k', '-@', '+é', "-'q'"]
for _k in ('time', 'cmp32', 'cmp64', 'u32', 'size', 'types', 'perm'):
    BADWORDS[_k] = BADWORDS[_k] + ['""', "''", '""x"', "''y'", '"' * 3, "'" * 3, '"' * 4]
VALID_PRIMS = ['-true', '-name a', '-uid 5', '-type f', '-size +1k', '-print', '-empty', '-name "a b"', "-name 'q r'", '-fprint "out"', "-pool 'p'",
               # multi-byte text BEFORE the error position (byte offsets and character counts differ from here on)
               '-name café', '-name 日本', "-path 'søren ærø'", '-fprint /tmp/日本.txt', '-pool 😀']


def word_of(w):
    """The word the quote/word reader takes at the start of w (w has no blank outside quotes): the content of a
    non-empty quoted string, otherwise the bare word (an empty pair of quotes is not a quoted string)."""
    if w and w[0] in '\'"':
        j = w.find(w[0], 1)
        if j > 1:
            return w[1:j]
    for k, c in enumerate(w):
        if c in ' \t\r\n)':
            return w[:k]
    return w


def gen_errors(tier, rnd):
    lines = []
    reps = 1 if tier == 'quick' else 10
    for kw, kind in KW.items():
        if kind == 'none':
            continue
        k = 'test' if kw in TESTS else ('action' if kw in ACTIONS else 'option')
        bads = list(BADWORDS.get(kind, []))
        for _ in range(reps):
            for npre in range(0, 4):
                pre = [rnd.choice(VALID_PRIMS) for _ in range(npre)]
                # end of input: missing argument
                text = ' '.join(pre + [kw])
                lines.append('P %s #kind=%s #kw=%s #word=%s' % (hx(text), k, hx(kw), hx('')))
                # ... or the keyword is directly followed by a closing parenthesis (glued, spaced, nested)
                if kw not in OPTIONS:
                    for shape in ['( %s)', '(%s)', '( %s )', '( ( %s) )', '! ( %s)']:
                        lines.append('P %s #kind=%s #kw=%s #word=%s' % (hx(shape % text), k, hx(kw), hx('')))
                if kind in ('wordword', 'wordformat'):
                    # first argument present, second missing: at end of input, before a trailing blank, before ')' (glued or not)
                    for first in ['a', 'user.a', "'o ut'", '"x y"']:
                        for tail, wrap in [('', False), (' ', False), ('', True), (' ', True)]:
                            body = ' '.join(pre + [kw, first]) + tail
                            text = ('( ' + body + ')') if wrap else body
                            lines.append('P %s #kind=%s #kw=%s #word=%s' % (hx(text), k, hx(kw), hx('')))
                    continue
                for bad in bads:
                    for npost in range(0, 3):
                        post = [rnd.choice(VALID_PRIMS) for _ in range(npost)]
                        text = ' '.join(pre + [kw, bad] + post)
                        # the reader sees the REST of the input: a quote opened by the bad word may be closed by a
                        # quote character of a later primary (then the quoted text in between is the word)
                        word = word_of(' '.join([bad] + post))
                        lines.append('P %s #kind=%s #kw=%s #word=%s' % (hx(text), k, hx(kw), hx(word)))
    for _ in range(5000 if tier == 'quick' else 50000):
        n = rnd.randint(0, 4)
        ws = [rnd.choice(VALID_PRIMS) for _ in range(n)]
        w = rnd.choice(['bogus', '-zzz', '@@', 'foo.bar', '"abc"', "'d.e'", '-Name', '#', 'é', '--x', '""', "''", '""x"', "''y'"] + ['-' + x for x in LONG_BAD[::4]] + LONG_BAD[1::6])
        pos = rnd.randint(0, n)
        ws.insert(pos, w)
        word = word_of(' '.join(ws[pos:]))
        lines.append('P %s #kind=unknown #word=%s' % (hx(' '.join(ws)), hx(word)))
    return lines, {'rule': 'every argument-taking keyword x (end of input | words invalid from their first character | for two-argument primaries: first argument present and second missing at end of input, before a blank, before a glued or spaced closing parenthesis) after 0..3 valid primaries and before 0..2, plus unknown words (bare and quoted) at random positions; non-trivial = every request',
                   'streams': {'errors': len(lines)}}


# ------------------------------------------------------------------ options (C13)

BASE_WORDS = ['-true', '-false', '-name x', '-print', '-uid 5', '-empty', '!', '(', ')', '-o', '-a', ',', '-type f']


def rand_expr_words(rnd, depth=3):
    """Random well-formed expression as a list of words."""
    if depth <= 0 or rnd.random() < 0.35:
        return [rnd.choice(['-true', '-false', '-name x', '-print', '-uid 5', '-empty', '-type f', '-size +1k', '-quit'])]
    k = rnd.random()
    if k < 0.15:
        return ['!'] + rand_atom_words(rnd, depth - 1)
    if k < 0.3:
        return ['('] + rand_expr_words(rnd, depth - 1) + [')']
    op = rnd.choice([[], ['-a'], ['-and'], ['-o'], ['-or'], [',']])
    return rand_expr_words(rnd, depth - 1) + op + rand_expr_words(rnd, depth - 1)


def rand_atom_words(rnd, depth):
    if rnd.random() < 0.5:
        return [rnd.choice(['-true', '-name x', '-print', '-empty'])]
    return ['('] + rand_expr_words(rnd, depth) + [')']


def gen_options(tier, rnd):
    lines = []
    n = 5000 if tier == 'quick' else 100000
    for g in range(n):
        words = rand_expr_words(rnd, rnd.randint(0, 4))
        k = rnd.randint(0, 4)
        opts_words = list(words)
        depth, threads, anyflag = False, None, False
        inserted = []
        for _ in range(k):
            pos = rnd.randint(0, len(opts_words))
            # an option may stand wherever a primary may: not between an operator that needs an operand and ')'
            o = rnd.choice(['-depth', '-threads %d' % rnd.choice([1, 4, 16, U32 - 1]), '-threads %d' % rnd.randint(0, 64), '-depth',
                            '-maxdepth 3', '-mindepth 1'])
            inserted.append((pos, o))
        # insert from the right so that positions stay valid; evaluation order is left to right
        order = sorted(range(len(inserted)), key=lambda i: inserted[i][0])
        seq = []
        idx = 0
        cur = list(words)
        # build the variant and, in parallel, the base (leading options dropped, others -> -true)
        placed = sorted(inserted, key=lambda x: x[0])
        variant, base = [], []
        wi = 0
        leading = True
        pi = 0
        positions = [p for p, _ in placed]
        for wi in range(len(words) + 1):
            while pi < len(placed) and placed[pi][0] == wi:
                o = placed[pi][1]
                variant.append(o)
                if o == '-depth':
                    depth = True
                elif o.startswith('-threads'):
                    threads = int(o.split()[1])
                else:
                    anyflag = True
                if not (leading and wi == 0):
                    base.append('-true')
                pi += 1
            if wi < len(words):
                variant.append(words[wi]); base.append(words[wi])
        # leading run: options at position 0 are dropped from the base (handled above); if nothing remains the base is -true
        if not base:
            base = ['-true']
        opts = 'any' if anyflag else '%d_%s' % (1 if depth else 0, threads if threads is not None else '-')
        lines.append('P %s #grp=o%d #role=base' % (hx(' '.join(base)), g))
        def layout(ws):
            # parentheses may lose their inner blanks, gaps may be any blank run, blanks may lead and trail
            t = ' '.join(ws)
            if rnd.random() < 0.5:
                t = t.replace('( ', '(').replace(' )', ')')
            if rnd.random() < 0.3:
                t = t.replace(' ', rnd.choice(['  ', '\t', ' \n']))
            if rnd.random() < 0.4:
                t = rnd.choice([' ', '  ', '\t', '\n', '\r\n ']) + t
            if rnd.random() < 0.3:
                t = t + rnd.choice([' ', '\n', '\t '])
            return t
        if anyflag:
            lines.append('P %s #role=var #opts=%s' % (hx(layout(variant)), opts))
        elif g % 2 == 0:
            lines.append('P %s #grp=o%d #role=var #opts=%s' % (hx(layout(variant)), g, opts))
        else:
            # compile request: the scan call must use the thread count the options carry
            lines.append('C %s %s #grp=o%d #role=var #opts=%s' % (hx(layout(variant)), hx('/dev/x'), g, opts))
    # options ONLY, behind, between and in front of every kind of blank run (trailing blanks included): the tree is
    # -true and the options are honoured
    for gi, (ws, o) in enumerate([(['-depth'], '1_-'), (['-threads', '8'], '0_8'), (['-depth', '-threads', '2'], '1_2'),
                                  (['-threads', '3', '-depth', '-threads', '5'], '1_5'), (['-threads', '0'], '0_0')]):
        lines.append('P %s #grp=oo%d #role=base' % (hx('-true'), gi))
        k = 0
        for lb in ['', ' ', '\t', '\n ']:
            for tb in ['', ' ', '\n', '\t ', '  ', '\r\n']:
                for sep in [' ', '  ', '\t']:
                    k += 1
                    text = lb + sep.join(ws) + tb
                    if k % 3 == 0:
                        lines.append('C %s %s #grp=oo%d #role=var #opts=%s' % (hx(text), hx('/dev/x'), gi, o))
                    else:
                        lines.append('P %s #grp=oo%d #role=var #opts=%s' % (hx(text), gi, o))
    # state left behind by a REJECTED input must not leak into the next parse (same process, same thread)
    for bad, good, opts in [('( -name a -threads 7 -depth', '-name b', '0_-'), ('-name a -threads 9 -o', '-threads 2 -name b', '0_2'),
                            ('-depth -name a )', '-name c', '0_-'), ('-name a -depth -bogus', '-name d', '0_-'),
                            ('! -threads 5', '-print', '0_-'), ('-name a -threads 11 ( -depth', '-uid 0', '0_-')]:
        lines.append('P %s' % hx(bad))
        lines.append('P %s #role=var #opts=%s' % (hx(good), opts))
    return lines, {'rule': 'histories in which an input rejected by the grammar after misplaced options is followed by an ordinary input; %d random well-formed expressions, each with 0..4 options (-depth, -threads N with repeated different values, -maxdepth/-mindepth N) inserted at random word boundaries (front, middle, inside parentheses, after !, directly before a glued closing parenthesis, with varied blank runs), paired with the same expression where the leading options are dropped and every other option is -true; non-trivial = pairs with at least one option' % n,
                   'streams': {'options': len(lines)}}


# ------------------------------------------------------------------ layout (C06)

QUOTABLE = [('-name', ['x', 'foo.txt', 'a b', "it's", 'say"hi', 'x*', 'é', 'dir\\', 'a\\b', '\\', 'a\\\\', '.*\\.txt', '$x', '`x`', 'a#b', 'a;b', 'a=b', '~', '-x', '!', '(x']),
            ('-path', ['./a', 'd/e f', 'C:\\tmp\\']), ('-iname', ['Q']),
            ('-pool', ['p1']), ('-xattr', ['user.a']), ('-fprint', ['out', 'o ut']), ('-perm', ['u+x', '644', '-g=w', '/a+r']),
            ('-printf', ['%p\\n', 'a b%s', '%%', '%p\\', 'a\\\\'])]
PLAIN = ['-true', '-false', '-empty', '-uid 5', '-size +1k', '-type f,d', '-print', '-print0', '-quit', '-amin -5', '-links 2', '-print-file-fid']


def rand_layout_tree(rnd, depth, first=True):
    t = _rand_layout_tree(rnd, depth)
    # an option in leading position is a leading option, not an operand: keep options out of the first leaf
    def fix(t):
        if t[0] == 'p':
            return ('p', '-true') if t[1] in ('-depth', '-threads 3') else t
        if t[0] == 'q':
            return t
        if t[0] == 'not':
            return ('not', fix(t[1]))
        return (t[0], fix(t[1]), t[2])
    return fix(t)


def _rand_layout_tree(rnd, depth):
    if depth <= 0 or rnd.random() < 0.3:
        if rnd.random() < 0.08:
            return ('p', rnd.choice(['-depth', '-threads 3']))
        if rnd.random() < 0.5:
            kw, vals = rnd.choice(QUOTABLE)
            return ('q', kw, rnd.choice(vals))
        if rnd.random() < 0.4:
            # any keyword with any member of its argument language (as written in the vocabulary table): the layout
            # around it — blanks of every kind, glued parentheses, either AND spelling — must not matter
            kw = rnd.choice([k for k in KW if k not in OPTIONS])
            return ('p', ' '.join([kw] + rnd.choice(MEMBERS[KW[kw]])))
        return ('p', rnd.choice(PLAIN))
    k = rnd.random()
    if k < 0.15:
        return ('not', _rand_layout_tree(rnd, depth - 1))
    op = rnd.choice(['and', 'and', 'or', 'list'])
    return (op, _rand_layout_tree(rnd, depth - 1), _rand_layout_tree(rnd, depth - 1))


BLANKS = [' ', ' ', '\t', '\n', '\r', '  ', ' \t\n', '\r\n']
LEVEL = {'list': 0, 'or': 1, 'and': 2}


def quote_variants(v):
    out = []
    if v and not any(c in ' \t\r\n)' for c in v) and v[0] not in '\'"':
        out.append(v)
    if v and "'" not in v:
        out.append("'" + v + "'")
    if v and '"' not in v:
        out.append('"' + v + '"')
    return out


def spell_layout(t, rnd, need, canonical=False):
    """Returns a list of pieces; pieces are joined by gaps chosen later. Parentheses are separate pieces
    flagged so that inner gaps may be empty."""
    if t[0] == 'p':
        w = [t[1]]
        have = 3
    elif t[0] == 'q':
        qs = quote_variants(t[2])
        w = [t[1] + ' ' + (qs[0] if canonical else rnd.choice(qs))]
        have = 3
    elif t[0] == 'not':
        w = ['!'] + spell_layout(t[1], rnd, 3, canonical)
        have = 3
    else:
        op = t[0]
        have = LEVEL[op]
        if canonical:
            sep = {'and': ['-a'], 'or': ['-o'], 'list': [',']}[op]
        else:
            sep = {'and': rnd.choice([[], ['-a'], ['-and']]), 'or': [rnd.choice(['-o', '-or'])], 'list': [',']}[op]
        w = spell_layout(t[1], rnd, have, canonical) + sep + spell_layout(t[2], rnd, have + 1, canonical)
    if have < need or (not canonical and rnd.random() < 0.15):
        w = ['('] + w + [')']
    return w


def join_layout(pieces, rnd, canonical=False):
    if canonical:
        return ' '.join(pieces)
    out = rnd.choice(['', '', ' ', '\n', '\t '])
    for i, p in enumerate(pieces):
        if i > 0:
            prev = pieces[i - 1]
            if (prev == '(' or p == ')') and rnd.random() < 0.5:
                gap = ''
            else:
                gap = rnd.choice(BLANKS)
            out += gap
        out += p
    out += rnd.choice(['', '', ' ', '\n', '\t', '\r\n'])
    return out


def gen_layout(tier, rnd):
    lines = []
    n = 2000 if tier == 'quick' else 20000
    v = 16 if tier == 'quick' else 64
    for g in range(n):
        t = rand_layout_tree(rnd, rnd.randint(0, 4))
        # a third of the groups carry a run of leading options (the same in every variant): the blanks in
        # front of, between and behind them vary like all others
        lead = []
        if rnd.random() < 0.33:
            for _ in range(rnd.randint(1, 3)):
                lead += rnd.choice([['-depth'], ['-threads', str(rnd.choice([1, 2, 4, 16]))], ['-threads', '007']])
        lines.append('P %s #grp=l%d' % (hx(join_layout(lead + spell_layout(t, rnd, 0, True), rnd, True)), g))
        for _ in range(v - 1):
            lines.append('P %s #grp=l%d' % (hx(join_layout(lead + spell_layout(t, rnd, 0), rnd)), g))
    # every keyword with every member of its argument language inside redundant parentheses, glued or not (a word ends
    # at a closing parenthesis exactly as it ends at a blank), alone, under ! and next to an operator
    gi = 0
    for kw, kind in KW.items():
        if kw in OPTIONS:
            continue
        for args in MEMBERS[kind]:
            prim = ' '.join([kw] + args)
            shapes = [prim, '( ' + prim + ' )', '(' + prim + ')', '( ' + prim + ')', '(' + prim + ' )', '((' + prim + '))', '( (' + prim + ') )', '(\t' + prim + '\n)']
            for ctx in ['%s', '! %s', '-true -o %s', '%s -a -false']:
                gi += 1
                for sh in shapes:
                    lines.append('P %s #grp=par%d' % (hx(ctx % sh), gi))
    # leading options alone and in front of one primary, behind every kind of leading blank
    for gi, body in enumerate([['-depth'], ['-threads', '4'], ['-depth', '-threads', '2'], ['-threads', '4', '-name', 'foo'], ['-depth', '-print'],
                               ['-depth', '-threads', '2', '-type', 'f', '-o', '-size', '+1k'], ['-threads', '1', '(', '-name', 'x', ')']]):
        for lb in ['', ' ', '  ', '\t', '\n', '\r\n  ', ' \t\r\n ']:
            for tb in ['', ' ', '\n']:
                lines.append('P %s #grp=lead%d' % (hx(lb + ' '.join(body) + tb), gi))
    # characters that are white space for Rust's char::is_whitespace / is_ascii_whitespace / trim but are NOT blanks
    # of this grammar (form feed, vertical tab, NEL, NBSP, U+2028 ...): at the start and the end of a value they are
    # part of the value in every spelling, last word of the input or not
    gi = 0
    for ws in ['\x0c', '\x0b', '\x85', '\xa0', '\u2028', '\u3000', '\x1c', '\x1f', '\u200b', '\ufeff']:
        for val in ['report' + ws, ws + 'report', ws, 'a' + ws + 'b', ws + ws]:
            for kw in ['-name', '-fprint', '-pool']:
                for tail in ['', ' ', '\n', ' -print', ' )']:
                    gi += 1
                    head = '( ' if tail == ' )' else ''
                    for sp in [val, "'" + val + "'", '"' + val + '"']:
                        lines.append('P %s #grp=ws%d' % (hx(head + kw + ' ' + sp + tail), gi))
        for text in [ws, ws + '-true', '-true' + ws, '-true ' + ws, ws + ' -true', '-name x ' + ws + ' -print']:
            lines.append('P %s' % hx(text))
    # a bracket opened in one bare word and closed in a LATER word (a reader that keeps a bracketed class in one
    # piece must not reach across words): bare and quoted spellings agree
    gi = 0
    for (o, c) in [('[', ']'), ('{', '}'), ('<', '>'), ('(x', 'y)'), ('"', '"'), ('\\(', '\\)')]:
        if o == '"':
            continue
        for (a, b) in [(o + 'a', 'b' + c), ('x' + o, c + 'y'), (o, c), ('p' + o + 'q', 'r' + c + 's')]:
            for text in ['-name %s -o -name %s', '( -name %s -size +3k ) -a -path %s', '-iname %s -print , -name %s', '-name %s -name q -name %s']:
                if '(' in a or ')' in b:
                    continue
                gi += 1
                for q in ['%s', "'%s'", '"%s"']:
                    lines.append('P %s #grp=br%d' % (hx(text % (q % a, q % b)), gi))
    for i, s in enumerate(['', ' ', '\t', '\n', '\r', ' \t\r\n ', '   ']):
        lines.append('P %s #grp=blank' % hx('-true' if i == 0 else s))
        lines.append('P %s #grp=blank' % hx(s))
    return lines, {'rule': '%d random expressions x %d layout variants each (blank kind/amount per gap incl. tab, CR, LF, leading/trailing; implicit/-a/-and; -o/-or; redundant parentheses with or without inner blanks; bare/single/double quoting when the value permits), every variant compared with the canonical spelling of its group; blank-only inputs against -true; non-trivial = groups with at least two words' % (n, v),
                   'streams': {'layout': len(lines)}}


# ------------------------------------------------------------------ totality (C03 / C17)

HOSTILE = ['(', ')', '!', ',', '-', '+', "'", '"', '\\', '%', ' ', '\t', '\n', '0', '7', '9', 'a', 'k', 'é', '\x7f', '\x01', '\x1b', '\x85', '\u2028', '\U0001f600']
ARG_ALPHABET = ['0', '7', '9', '+', '-', '/', ',', 'u', 'r', '=', 'k', 'f', '%', '\\', "'", '"', ')', 'x', 'é', '@']


def valid_corpus(rnd, n):
    out = []
    for _ in range(n):
        t = rand_layout_tree(rnd, rnd.randint(0, 3))
        out.append(join_layout(spell_layout(t, rnd, 0), rnd))
    for kw, kind in KW.items():
        for args in MEMBERS[kind][:3]:
            out.append(' '.join([kw] + args))
    return out


def gen_totality(tier, rnd):
    lines = []
    path = hx('/dev/x')
    corpus = valid_corpus(rnd, 300 if tier == 'quick' else 3000)
    seen = set()
    def add(s):
        if s not in seen and len(s.encode('utf-8')) <= 4096:
            seen.add(s)
            lines.append('C %s %s' % (hx(s), path))
    for s in corpus:
        add(s)
        for k in range(len(s)):
            add(s[:k])
        for _ in range(40):
            if not s:
                continue
            k = rnd.randrange(len(s))
            c = rnd.choice(HOSTILE)
            add(s[:k] + c + s[k + 1:])
            add(s[:k] + c + s[k:])
            add(s[:k] + s[k + 1:])
    maxarg = 2 if tier == 'quick' else 3
    for kw, kind in KW.items():
        if kind == 'none':
            continue
        for n in range(1, maxarg + 1):
            for combo in itertools.product(ARG_ALPHABET, repeat=n):
                add(kw + ' ' + ''.join(combo))
    for kw in NUMERIC:
        for v in boundary_values(rnd, 0):
            add('%s %d' % (kw, v))
            add('%s +%d' % (kw, v))
            add('%s -%d' % (kw, v))
            if NUMERIC[kw] == 'size':
                for u in SIZE_UNITS:
                    add('%s %d%s' % (kw, v, u))
    for n in (1, 2, 3, 4, 5):
        for c in itertools.product('fdlx', repeat=n):
            add('-type ' + ','.join(c))
    import string
    for kw in NUMERIC:
        for sfx in string.ascii_letters:
            for v in [2 ** 64 - 1, 2635249153387078803, 7]:
                add('%s +%d%s' % (kw, v, sfx))
                add('%s -%d%s' % (kw, v, sfx))
    for k in range(1, 65):
        add('( ' * k + '-true' + ' )' * k)
        add('(' * k + '-true' + ')' * k)
        add('! ' * k + '-true')
        add('( ! ' * k + '-name x' + ' )' * k)
        add('-true' + ' -o ( -false' * k + ' )' * k)
        add('(' * k)
        add('-true ' * k)
        add('-true , ' * k + '-false')
    for s in ['-maxdepth 3', '-mindepth 3', '-perm 77777', '-perm 77777777777', "-printf '\\777777'", 'nope', '-size 18446744073709551615w',
              '-perm 0777x', '-nouser', '-fprint', '-threads', "-name 'a\"b'", '-name a\\', "-printf '\\c'", "-printf '~a'", '-print-file-fid -fprint x']:
        add(s)
    # source dictionary: every literal of the current source alone, after every argument-taking keyword, inside formats
    import srcdict
    for a in srcdict.atoms():
        add(a); add('-true ' + a); add(a + ' 5'); add(a + ' x y')
        for kw, kind in KW.items():
            if kind != 'none':
                add(kw + ' ' + a); add(kw + ' 5' + a); add(kw + ' +5' + a)
        for arg in srcdict.format_variants(a):
            add('-printf ' + arg)
    # long offending words (error rendering must not depend on where a byte threshold falls in the word)
    for w in LONG_BAD:
        for tmpl in ['-uid %s', '-%s', '%s', '-size %s', '-perm %s', '-name ok -type %s', "-size '%s tail'", '-mtime +%s', '-threads %s', '-true -o ( -gid %s )',
                     "-printf '%%%s'", '-name x -fprintf %s', '-xattr-match %s']:
            add(tmpl % w)
    # every Unicode class (1..4 UTF-8 bytes; C0, DEL and C1 controls; separators; noncharacters) at every string site
    classes = ['\x01', '\x08', '\x0b', '\x1f', '\x7f', '\x80', '\x85', '\x9f', '\xa0', 'é', '\u0378', '\u2028', '\ufeff', '\uffff', '\U0001f600', '\U0010ffff']
    sites = ['-name %s', '-iname %s', '-path %s', '-ipath %s', '-pool %s', '-xattr %s', '-xattr-match %s v', '-xattr-match k %s', '-fprint %s', '-fprint0 %s',
             '-printf %s', '-fprintf out %s', '-fprintf %s x', '-printf %%A%s', '-printf %%{xattr:%s}', '-user %s', '-regex %s']
    for site in sites:
        for c in classes:
            for shape in [c, 'a' + c, c + 'b', 'a' + c + 'b', c + c]:
                add(site % shape)
    # many distinct resources: generated-name indices and frame tags beyond one byte / one hex digit pair
    for k in [15, 16, 17, 126, 127, 128, 129, 200, 254, 255, 256, 257, 300]:
        add(' '.join('-name n%x' % i for i in range(k)) + ' -print0')
        add(' '.join('-name n%x' % i for i in range(k)) + ' -print')
        add(' -o '.join('-fprint f%x' % i for i in range(k)))
        add(' -o '.join('-fprint0 f%x' % i for i in range(k // 2)) + ' -o ' + ' -o '.join('-iname m%x' % i for i in range(k // 2)) + ' -fprintf z %p')
    for o in range(0o200, 0o240):
        add("-printf '\\%03o'" % o)
        add("-printf 'a\\%03ob'" % o)
    for c in classes + ['"', '\\', '~', '\n']:
        for shape in ['/dev/' + c, c, '/dev/a' + c + 'b']:
            lines.append('C %s %s' % (hx('-name x'), hx(shape)))
    return lines, {'rule': 'grammar-aware valid corpus (%d inputs), every prefix and random single-character substitutions/insertions/deletions from a hostile alphabet, exhaustive argument strings of length <=%d over a 20-symbol alphabet after each argument-taking keyword, numeric boundaries with every unit and with every letter as a would-be unit, nesting ladders to depth 64, every string site x 16 Unicode classes (C0/DEL/C1 controls, 1..4-byte characters, separators, noncharacters) x 5 positions, octal escapes 0200..0237, hostile device paths, 15..300 distinct matchers/destinations in framed and plain mode; parse + compile + render; debug and release; non-trivial = at least two words'
                   % (len(corpus), maxarg), 'streams': {'totality': len(lines)}}
