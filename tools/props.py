"""Property registry for ./check: build profiles, assumptions, extra trusted items."""
NOT_CLAIMED = {}

REGISTRY = {
    'C01': {
        'profiles': ['debug'],
        'level_text': 'Machine-checked (Lean 4) for ALL token sequences and ALL trees, unbounded: the model of the precedence climber accepts exactly the sentences of the stratified find grammar and returns the grammar\'s unique tree (C01_iff, C01_unique), consumes every token on success (C01_whole), rejects everything else with an error value and never panics (C01_reject), round-trips every tree through its canonical spelling with either AND form (C01_roundtrip). The model is tied to the Rust code on every run by running both on all word sequences up to length 5/6 plus random long sequences and random spelled trees; the same run evaluates the grammar oracle directly on the implementation\'s answers.',
        'level_note': 'Trusted: Lean kernel (+leanchecker), axioms propext/Classical.choice/Quot.sound; Spec/Grammar.lean as the reading of the find grammar; the hand-written model of precedence.rs/mod.rs is trusted only as far as the correspondence stream validates it (sampled beyond length 5/6); winnow semantics are modelled from its source.',
        'assumptions': ['winnow 0.6.7 combinator semantics as transcribed in Model/Winnow.lean (validated by the correspondence stream)'],
        'trusted': ['Spec/Grammar.lean is the reading of "the find grammar" (stratified, left-recursive rules)'],
    },
    'C19': {
        'profiles': ['debug', 'release'],
        'level_text': 'Machine-checked (Lean 4) for ALL expression trees that the public types can build (no depth bound, including Precedence/List/Global/Positional nodes): "contains an action" is true exactly when an action node occurs at some depth (C19_action, against the inductive Spec.ContainsAction), "needs framed output" exactly when some action writes to a file, is NUL-terminated or is a formatted print whose last element exists and is not the newline escape (C19_frames), the unit tables are 1/2/512/2^10/2^20/2^30/2^40 and 1/60/3600/86400 (C19_size_units, C19_time_units), and the byte size is count*unit whenever it fits 64 bits, in both profiles (C19_bytes). Tied to ast.rs on every run by random trees from the public constructors and exhaustive unit queries, in debug and release builds.',
        'level_note': 'Trusted: Lean kernel (+leanchecker), axioms propext/Quot.sound; Spec/Actions.lean as the reading of the property\'s wording; the model of ast.rs is validated by the correspondence stream (random trees, depth<=12); overflow of byte_size beyond 64 bits is modelled per profile (panic/wrap) and compared, but the property does not constrain it.',
    },
}
REGISTRY['C12'] = {
    'profiles': ['debug', 'release'],
    'level_text': 'Machine-checked (Lean 4) for ALL trees of the shapes the parser returns (no explicit-precedence/option node), all clocks, options and manager states: the model of scheme::compile fails exactly when the tree contains, at any depth (dead branches and format strings included), a construct of the independent unsupported table (13 tests, 3 actions, 7 directives, \\c, the positional option), the error kind is that of the first such construct, every tree of supported constructs compiles, and no outcome is a panic (C12, C12_kind). Tied to target_scheme.rs on every run by every unsupported construct alone, dead-branch placements and random trees over the full vocabulary, in debug and release builds; the same run evaluates the table directly on the implementation\'s answers and scans emitted programs for placeholders.',
    'level_note': 'Trusted: Lean kernel (+leanchecker), axioms propext/Classical.choice/Quot.sound; Spec/Supported.lean as the reading of "cannot express"; the model of target_scheme.rs/manager.rs is validated by byte-for-byte comparison of emitted programs on the sampled stream; the constructor name in the error payload is compared, the payload\'s Debug escaping is not modelled. Trees with Precedence/Global nodes (unreachable from parse, proved in C01/C13) are outside the statement.',
}
for _p in ['C03', 'C05', 'C06', 'C07', 'C08', 'C13', 'C14', 'C17', 'C18', 'C02', 'C04', 'C09', 'C10', 'C11', 'C12', 'C15', 'C16', 'C20']:
    REGISTRY.setdefault(_p, {'claimed': False, 'profiles': ['debug', 'release'] if _p in ('C03', 'C07', 'C17') else ['debug'],
                             'cross_profile': _p == 'C17', 'level_text': '', 'level_note': ''})
