"""Property registry for ./check: build profiles, assumptions, extra trusted items."""
NOT_CLAIMED = {}

REGISTRY = {
    'C01': {
        'profiles': ['debug'],
        'level_text': 'Machine-checked (Lean 4) for ALL token sequences and ALL trees, unbounded: the model of the precedence climber accepts exactly the sentences of the stratified find grammar and returns the grammar\'s unique tree (C01_iff, C01_unique), consumes every token on success (C01_whole), rejects everything else with an error value and never panics (C01_reject), round-trips every tree through its canonical spelling with either AND form (C01_roundtrip). The model is tied to the Rust code on every run by running both on all word sequences up to length 5/6 plus random long sequences and random spelled trees; the same run evaluates the grammar oracle directly on the implementation\'s answers.',
        'level_note': 'Trusted: Lean kernel (+leanchecker), axioms propext/Classical.choice/Quot.sound; Spec/Grammar.lean as the reading of the find grammar; the hand-written model of precedence.rs/mod.rs is trusted only as far as the correspondence stream validates it (sampled beyond length 5/6); winnow semantics are modelled from its source.',
        'assumptions': ['winnow 0.6.7 combinator semantics as transcribed in Model/Winnow.lean (validated by the correspondence stream)'],
        'trusted': ['Spec/Grammar.lean is the reading of "the find grammar" (stratified, left-recursive rules)'],
    },
}
