import sys
def unhex(h):
    if h == '-' : return '-'
    if h.startswith('x'):
        try: return bytes.fromhex(h[1:]).decode('utf-8','replace')
        except Exception: return h
    return h
req = open(sys.argv[1]).read().splitlines()
out = open(sys.argv[2]).read().splitlines()
seen = {}
for r, o in zip(req, out):
    if o.startswith('OK'): continue
    inp = unhex(r.split('\t')[0].split(' ')[1])
    toks = [unhex(t) if (t.startswith('x') and len(t)>1 and all(c in '0123456789abcdef' for c in t[1:])) else t for t in o.replace('[',' [ ').replace(']',' ] ').split(' ')]
    key = ' '.join(toks)[:300]
    print(repr(inp)); print('   ', key)
