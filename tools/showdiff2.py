import sys,re
def unhex(m):
    h=m.group(0)
    try: return '«'+bytes.fromhex(h[1:]).decode('utf-8','replace')+'»'
    except Exception: return h
req = open(sys.argv[1]).read().splitlines()
out = open(sys.argv[2]).read().splitlines()
n=0
for r, o in zip(req, out):
    if not o.startswith('DIFF'): continue
    m=re.match(r'DIFF impl=\[(.*)\] model=\[(.*)\]$', o, re.S)
    a,b=m.group(1),m.group(2)
    ta=a.split(' '); tb=b.split(' ')
    print('REQ', re.sub(r'x(?:[0-9a-f]{2})+', unhex, r.split('\t')[0]))
    for i,(x,y) in enumerate(zip(ta,tb)):
        if x!=y:
            print('  field',i); print('   impl :', re.sub(r'^x(?:[0-9a-f]{2})*$', unhex, x)[:1500]); print('   model:', re.sub(r'^x(?:[0-9a-f]{2})*$', unhex, y)[:1500]); break
    else:
        print('  length differs', len(ta), len(tb))
    n+=1
    if n>=int(sys.argv[3]) : break
