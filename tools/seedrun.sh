#!/bin/bash
# Confirm a candidate property-breaking change and run our checks against it.
#   tools/seedrun.sh <id> <dir-with-patch.diff-and-demo.rs> [check ids...]
# 1. scratch worktree of /repo (under /tmp): patch applies, crate builds, the 45 tests pass,
#    the demonstration differs before/after;  2. apply to /repo, run ./check for the given ids
#    (default: <id>), record exit codes and VIOLATION lines;  3. undo (git checkout -- .).
set -u
id=$1; dir=$2; shift 2
checks=${*:-$id}
wt=/tmp/seedconfirm-$id
log=/tmp/seed/results/$id.log
mkdir -p /tmp/seed/results
: > $log
export CARGO_NET_OFFLINE=true
git -C /repo worktree remove --force $wt >/dev/null 2>&1
git -C /repo worktree add --detach $wt HEAD -q || exit 2
if [ -f $dir/demo.rs ]; then
  mkdir -p $wt/examples && cp $dir/demo.rs $wt/examples/demo.rs
  (cd $wt && CARGO_TARGET_DIR=$wt/target cargo run -q --offline --example demo > /tmp/seed/results/$id.before 2>&1)
fi
if ! git -C $wt apply $dir/patch.diff; then echo "PATCH-DOES-NOT-APPLY" | tee -a $log; git -C /repo worktree remove --force $wt; exit 2; fi
(cd $wt && CARGO_TARGET_DIR=$wt/target cargo test --workspace --no-fail-fast --offline 2>&1 | grep -E "^test result|error(\[|:)|FAILED|failed" ) > /tmp/seed/results/$id.tests
passed=$(grep -E "^test result: ok" /tmp/seed/results/$id.tests | sed -E 's/.* ([0-9]+) passed.*/\1/' | paste -sd+ | bc)
failed=$(grep -cE "^test result: FAILED|^error" /tmp/seed/results/$id.tests)
echo "tests: passed=$passed failed-lines=$failed" | tee -a $log
if [ -f $dir/demo.rs ]; then
  (cd $wt && CARGO_TARGET_DIR=$wt/target cargo run -q --offline --example demo > /tmp/seed/results/$id.after 2>&1)
  if cmp -s /tmp/seed/results/$id.before /tmp/seed/results/$id.after; then echo "demo: SAME before/after" | tee -a $log; else echo "demo: differs before/after" | tee -a $log; fi
fi
git -C /repo worktree remove --force $wt
rm -rf $wt
# now against /repo itself
if [ -n "$(git -C /repo status --porcelain)" ]; then echo "/repo not clean, refusing" | tee -a $log; exit 2; fi
git -C /repo apply $dir/patch.diff || exit 2
for c in $checks; do
  (cd /verif && ./check $c > /tmp/seed/results/$id.check-$c 2>&1; echo "check $c exit=$?" | tee -a $log)
  grep -E "^VIOLATION|^KNOWN-FINDING" /tmp/seed/results/$id.check-$c | head -5 | tee -a $log
done
git -C /repo checkout -- .
git -C /repo status --porcelain | head -3
