#!/usr/bin/env python3
"""Dev aid: run a property's stream and print a histogram of PFAIL/DIFF reasons with one example each."""
import sys, os, re, collections, subprocess, json
ROOT = os.path.dirname(os.path.dirname(os.path.abspath(__file__)))
sys.path.insert(0, os.path.join(ROOT, 'tools'))
import streams
pid = sys.argv[1]; tier = sys.argv[2] if len(sys.argv) > 2 else 'quick'
binp = sys.argv[3] if len(sys.argv) > 3 else os.path.join(ROOT, '.build/harness/debug/fvharness')
lines, _ = streams.generate(pid, tier, 1)
req = ('\n'.join(lines) + '\n').encode()
obs = subprocess.run([binp], input=req, stdout=subprocess.PIPE).stdout
ver = subprocess.run([os.path.join(ROOT, 'lean/.lake/build/bin/fvdriver'), pid], input=obs, stdout=subprocess.PIPE).stdout.decode('utf-8', 'replace').splitlines()
def unhexall(s):
    def f(m):
        try: return '«' + bytes.fromhex(m.group(0)[1:]).decode('utf-8', 'replace') + '»'
        except Exception: return m.group(0)
    return re.sub(r'\bx(?:[0-9a-f]{2})+\b', f, s)
h = collections.Counter(); ex = {}
for l, v in zip(lines, ver):
    if v.startswith('OK'): continue
    key = ' '.join(v.split(' ')[:3]) if v.startswith('PFAIL') else v.split(' ')[0]
    h[key] += 1
    ex.setdefault(key, []).append((l, v))
for k, n in h.most_common():
    print(n, k)
    for l, v in ex[k][:int(os.environ.get('NEX', '3'))]:
        print('     ', unhexall(l)[:160]); print('        ', unhexall(v)[:int(os.environ.get('W','400'))])
