#!/usr/bin/env python3
"""Store a confirmed seeded change under /verif/seeded/<name>/: patch.diff, demo.md, demo.rs, meta.json.
usage: seedstore.py <name> <property> <srcdir> <summary> [check=exit ...]   (results are read from /tmp/seed/results/<name>.log)"""
import sys, os, shutil, json, re
name, prop, src, summary = sys.argv[1:5]
dst = '/verif/seeded/%s' % name
os.makedirs(dst, exist_ok=True)
for f in ['patch.diff', 'demo.md', 'demo.rs']:
    if os.path.exists(os.path.join(src, f)):
        shutil.copy(os.path.join(src, f), os.path.join(dst, f))
log = open('/tmp/seed/results/%s.log' % name).read()
checks = {}
cur = None
for line in log.splitlines():
    m = re.match(r'check (\S+) exit=(\d+)', line)
    if m:
        cur = m.group(1); checks[cur] = {'exit': int(m.group(2)), 'violation_lines': []}
    elif line.startswith('VIOLATION') and cur:
        checks[cur]['violation_lines'].append(re.sub(r'replay=\S+', 'replay=<path>', line))
m = re.search(r'tests: passed=(\d+)', log)
meta = {
    'property': prop,
    'summary': summary,
    'origin': 'fresh sub-agent given only the property text and a scratch worktree of /repo',
    'confirmed': {'applies_cleanly': True, 'existing_tests_passed': int(m.group(1)) if m else None,
                  'demonstration_differs_before_after': 'demo: differs' in log},
    'checks_run_against_it': checks,
    'detected_by': sorted(c for c, v in checks.items() if v['exit'] == 1),
    'missed_by': sorted(c for c, v in checks.items() if v['exit'] == 0),
}
json.dump(meta, open(os.path.join(dst, 'meta.json'), 'w'), indent=1)
print(name, 'detected_by', meta['detected_by'], 'missed_by', meta['missed_by'])
