#!/usr/bin/env python3
"""rs2lean: mechanical translation of the winnow parser definitions of /repo/src/find_parser/*.rs
into Lean terms over the combinator vocabulary of FindVerif/Model/Winnow.lean.

    tools/rs2lean.py [--repo /repo] [--out lean/FindVerif/Gen/Parser.lean] [--report FILE.json]

What it does (DESIGN.md section 0.7):
  * tokenises the Rust sources (comments dropped, so formatting and comments never matter);
  * finds every parser definition (impl Parseable for T, free parser functions, the unary!/binary! macros);
  * parses the combinator expression of each body (calls, method chains, tuples, ranges, string/char
    literals, closures) and emits the same expression in Lean, one combinator for one combinator;
  * closures are translated by shape where they are tables (match on a character, character-set
    membership, constructor application) and through a dictionary of the few remaining plain-Rust
    closures (keyed by their token text: a changed closure is an *untranslatable item*, never silently
    accepted);
  * plain-Rust helper functions that are not combinator expressions (Permission::value,
    from_symbolic_str, PartialPermission::update, the tail of PartialPermission::parse) are
    *fingerprinted*: their token text must be the one the hand-written model was transcribed from.
The output is FindVerif/Gen/Parser.lean (namespace FV.Gen).  FindVerif/Tie.lean (hand-written) proves
Gen.X = FV.X for every item, so the hand-written model the theorems are about is *proved equal* to
what this translator reads in the current source.  Untranslatable items are emitted as
`-- UNTRANSLATED` and listed in the report; Tie.lean then fails to build for them.
"""
import sys, os, re, json, hashlib

# ------------------------------------------------------------------------------------------------
# tokenizer
# ------------------------------------------------------------------------------------------------
PUNCT3 = ['..=', '...', '<<=', '>>=']
PUNCT2 = ['::', '..', '=>', '->', '||', '&&', '==', '!=', '<=', '>=', '|=', '&=', '+=', '-=', '*=']

ESC = {'n': '\n', 't': '\t', 'r': '\r', '0': '\0', '\\': '\\', '"': '"', "'": "'"}


class Tok:
    __slots__ = ('k', 'v', 'pos')
    def __init__(self, k, v, pos):
        self.k, self.v, self.pos = k, v, pos
    def __repr__(self):
        return '%s:%r' % (self.k, self.v)


def tokenize(src):
    toks = []
    i, n = 0, len(src)
    while i < n:
        c = src[i]
        if c.isspace():
            i += 1; continue
        if src.startswith('//', i):
            j = src.find('\n', i)
            i = n if j < 0 else j
            continue
        if src.startswith('/*', i):
            depth, i = 1, i + 2
            while i < n and depth:
                if src.startswith('/*', i): depth += 1; i += 2
                elif src.startswith('*/', i): depth -= 1; i += 2
                else: i += 1
            continue
        if c == '"':
            j, out = i + 1, []
            while src[j] != '"':
                if src[j] == '\\':
                    e = src[j + 1]
                    if e in ESC: out.append(ESC[e]); j += 2
                    elif e == 'x': out.append(chr(int(src[j + 2:j + 4], 16))); j += 4
                    elif e == 'u':
                        k = src.index('}', j); out.append(chr(int(src[j + 3:k], 16))); j = k + 1
                    elif e == '\n':
                        j += 2
                        while src[j].isspace(): j += 1
                    else: raise ValueError('string escape \\%s at %d' % (e, j))
                else:
                    out.append(src[j]); j += 1
            toks.append(Tok('str', ''.join(out), i)); i = j + 1
            continue
        if c == "'":
            # char literal or lifetime
            if src[i + 1] == '\\':
                e = src[i + 2]
                if e in ESC: val, j = ESC[e], i + 3
                elif e == 'x': val, j = chr(int(src[i + 3:i + 5], 16)), i + 5
                elif e == 'u':
                    k = src.index('}', i); val, j = chr(int(src[i + 4:k], 16)), k + 1
                else: raise ValueError('char escape at %d' % i)
                assert src[j] == "'", 'unterminated char literal at %d' % i
                toks.append(Tok('chr', val, i)); i = j + 1
                continue
            if i + 2 < n and src[i + 2] == "'":
                toks.append(Tok('chr', src[i + 1], i)); i += 3
                continue
            m = re.compile(r"'[A-Za-z_][A-Za-z0-9_]*").match(src, i)
            toks.append(Tok('life', m.group(0), i)); i = m.end()
            continue
        m = re.compile(r'[A-Za-z_][A-Za-z0-9_]*').match(src, i)
        if m:
            toks.append(Tok('id', m.group(0), i)); i = m.end(); continue
        m = re.compile(r'[0-9][0-9a-zA-Z_]*').match(src, i)
        if m:
            toks.append(Tok('num', m.group(0), i)); i = m.end(); continue
        for p in PUNCT3 + PUNCT2:
            if src.startswith(p, i):
                toks.append(Tok('p', p, i)); i += len(p); break
        else:
            toks.append(Tok('p', c, i)); i += 1
    return toks


def text_of(toks):
    """Canonical text of a token run (used for fingerprints and dictionary keys)."""
    out = []
    for t in toks:
        if t.k == 'str': out.append(json.dumps(t.v))
        elif t.k == 'chr': out.append("'" + (t.v if t.v not in "\\'\n\t\r\0" else repr(t.v)[1:-1]) + "'")
        else: out.append(t.v)
    return ' '.join(out)


OPEN = {'(': ')', '[': ']', '{': '}'}
CLOSE = {')', ']', '}'}


def match_close(toks, i):
    """toks[i] is an opening bracket; returns index of its closing bracket."""
    depth = 0
    for j in range(i, len(toks)):
        t = toks[j]
        if t.k == 'p' and t.v in OPEN: depth += 1
        elif t.k == 'p' and t.v in CLOSE:
            depth -= 1
            if depth == 0: return j
    raise ValueError('unbalanced bracket at token %d' % i)


# ------------------------------------------------------------------------------------------------
# item extraction
# ------------------------------------------------------------------------------------------------
def strip_logs(toks):
    """Drop `log::level!( … );` statements: logging is not part of any modelled behaviour, so adding, removing or
    rewording a log line must not disturb the translation."""
    out, i = [], 0
    while i < len(toks):
        t = toks[i]
        if (t.k == 'id' and t.v == 'log' and i + 4 < len(toks) and toks[i + 1].v == '::' and toks[i + 2].k == 'id'
                and toks[i + 3].v == '!' and toks[i + 4].v == '('):
            e = match_close(toks, i + 4)
            i = e + 1
            if i < len(toks) and toks[i].v == ';': i += 1
            continue
        out.append(t); i += 1
    return out


class Item:
    def __init__(self, key, file, params, body, kind='fn'):
        self.key, self.file, self.params, self.kind = key, file, params, kind
        self.body = strip_logs(body)


def skip_generics(toks, i):
    """toks[i] == '<': index after the matching '>'."""
    depth = 0
    while True:
        t = toks[i]
        if t.k == 'p' and t.v == '<': depth += 1
        elif t.k == 'p' and t.v == '>': depth -= 1
        elif t.k == 'p' and t.v == '->': pass
        i += 1
        if depth == 0: return i


def extract_items(path):
    src = open(path).read()
    toks = tokenize(src)
    fname = os.path.basename(path)
    items = []
    i, n = 0, len(toks)
    impl_stack = []   # (close_index, self_type_text)

    def is_test_attr(k):
        # '#' '[' 'test' ']' or #[cfg(test)]
        return (toks[k].k == 'p' and toks[k].v == '#' and toks[k + 1].v == '[' and
                toks[k + 2].k == 'id' and toks[k + 2].v in ('test',))

    pending_test = False
    while i < n:
        t = toks[i]
        while impl_stack and i > impl_stack[-1][0]:
            impl_stack.pop()
        if t.k == 'p' and t.v == '#' and i + 1 < n and toks[i + 1].v == '[':
            j = match_close(toks, i + 1)
            if is_test_attr(i): pending_test = True
            i = j + 1; continue
        if t.k == 'id' and t.v == 'impl':
            # impl [<..>] [Trait [<..>] for] Type [<..>] [where ...] {
            j = i + 1
            if toks[j].v == '<': j = skip_generics(toks, j)
            k = j
            while not (toks[k].k == 'p' and toks[k].v == '{'): k += 1
            header = toks[j:k]
            # cut a where clause
            for w, ht in enumerate(header):
                if ht.k == 'id' and ht.v == 'where': header = header[:w]; break
            trait = None
            ftxt = [h.v for h in header]
            if 'for' in ftxt:
                f = ftxt.index('for')
                trait = ''.join(ftxt[:f]); ty = ''.join(ftxt[f + 1:])
            else:
                ty = ''.join(ftxt)
            impl_stack.append((match_close(toks, k), (trait, ty)))
            i = k + 1; continue
        if t.k == 'id' and t.v == 'macro_rules' and toks[i + 1].v == '!':
            name = toks[i + 2].v
            ob = i + 3
            cb = match_close(toks, ob)
            # ( params ) => { body } ;
            pp = ob + 1
            pc = match_close(toks, pp)
            params = [x.v for x in toks[pp + 1:pc] if x.k == 'id' and x.v not in ('expr',)]
            arrow = pc + 1
            assert toks[arrow].v == '=>'
            bo = arrow + 1
            bc = match_close(toks, bo)
            items.append(Item(name + '!', fname, params, toks[bo + 1:bc], 'macro'))
            i = cb + 1; continue
        if t.k == 'id' and t.v == 'fn':
            name = toks[i + 1].v
            j = i + 2
            if toks[j].v == '<': j = skip_generics(toks, j)
            assert toks[j].v == '(', (fname, name)
            pc = match_close(toks, j)
            ptoks = toks[j + 1:pc]
            k = pc + 1
            while not (toks[k].k == 'p' and toks[k].v in ('{', ';')):
                if toks[k].v == '<': k = skip_generics(toks, k); continue
                k += 1
            if toks[k].v == ';':
                i = k + 1; pending_test = False; continue
            bc = match_close(toks, k)
            if pending_test:
                pending_test = False
                i = bc + 1; continue
            owner = impl_stack[-1][1] if impl_stack else None
            trait = None
            if owner:
                trait, ty = owner
                key = '%s::%s' % (ty, name)
            else:
                key = name
            # parameter names
            params, depth, cur = [], 0, []
            for x in ptoks + [Tok('p', ',', -1)]:
                if x.k == 'p' and x.v in ('(', '[', '<'): depth += 1
                if x.k == 'p' and x.v in (')', ']', '>'): depth -= 1
                if x.k == 'p' and x.v == ',' and depth == 0:
                    if cur:
                        nm = [c.v for c in cur if c.k == 'id' and c.v not in ('mut',)]
                        params.append(nm[0] if nm else '?')
                    cur = []
                else: cur.append(x)
            items.append(Item(key, fname, params, toks[k + 1:bc]))
            items[-1].trait = trait
            i = bc + 1; continue
        pending_test = False if (t.k == 'id' and t.v in ('struct', 'enum', 'use', 'mod', 'pub') and False) else pending_test
        i += 1
    return items


# ------------------------------------------------------------------------------------------------
# expression parser (the combinator layer)
# ------------------------------------------------------------------------------------------------
class PErr(Exception):
    pass


class Parser:
    def __init__(self, toks):
        self.t, self.i = toks, 0
    def peek(self, o=0):
        return self.t[self.i + o] if self.i + o < len(self.t) else Tok('eof', '', -1)
    def at(self, v, o=0):
        p = self.peek(o)
        return p.k in ('p', 'id') and p.v == v
    def eat(self, v):
        if not self.at(v): raise PErr('expected %r, found %r' % (v, self.peek()))
        self.i += 1
    def done(self):
        return self.i >= len(self.t)

    def expr(self):
        # closure
        if self.at('move') and (self.at('|', 1) or self.at('||', 1)):
            self.i += 1
        if self.at('||') or self.at('|'):
            return self.closure()
        return self.postfix()

    def closure(self):
        start = self.i
        if self.at('||'):
            self.i += 1; params = []
        else:
            self.eat('|')
            depth, ps = 0, self.i
            while not (self.at('|') and depth == 0):
                p = self.peek()
                if p.k == 'eof': raise PErr('closure parameters')
                if p.k == 'p' and p.v in ('(', '[', '<'): depth += 1
                if p.k == 'p' and p.v in (')', ']', '>'): depth -= 1
                self.i += 1
            params = self.t[ps:self.i]
            self.eat('|')
        bs = self.i
        depth = 0
        while True:
            p = self.peek()
            if p.k == 'eof': break
            if p.k == 'p' and p.v in OPEN: depth += 1
            elif p.k == 'p' and p.v in CLOSE:
                if depth == 0: break
                depth -= 1
            elif p.k == 'p' and p.v == ',' and depth == 0: break
            self.i += 1
        return ('closure', params, self.t[bs:self.i], self.t[start:self.i])

    def path(self):
        segs = []
        while True:
            p = self.peek()
            if p.k == 'id':
                segs.append(p.v); self.i += 1
            elif p.k == 'p' and p.v == '<':
                j = skip_generics(self.t, self.i)
                segs.append('<' + ''.join(x.v for x in self.t[self.i + 1:j - 1]) + '>')
                self.i = j
            elif p.k == 'p' and p.v == '$' and self.peek(1).k == 'id':
                segs.append('$' + self.peek(1).v); self.i += 2
            else: raise PErr('path segment, found %r' % p)
            if self.at('::'): self.i += 1
            else: break
        return segs

    def args(self):
        self.eat('(')
        out = []
        while not self.at(')'):
            out.append(self.expr())
            if self.at(','): self.i += 1
        self.eat(')')
        return out

    def primary(self):
        p = self.peek()
        if p.k == 'str': self.i += 1; return ('str', p.v)
        if p.k == 'chr': self.i += 1; return ('chr', p.v)
        if p.k == 'num':
            self.i += 1
            if self.at('..='):
                self.i += 1; hi = self.peek(); self.i += 1
                return ('range', int(p.v), int(hi.v), True)
            if self.at('..'):
                self.i += 1
                if self.peek().k == 'num':
                    hi = self.peek(); self.i += 1
                    return ('range', int(p.v), int(hi.v), False)
                return ('range', int(p.v), None, False)
            return ('num', p.v)
        if p.k == 'p' and p.v == '(':
            xs = self.args()
            return xs[0] if len(xs) == 1 else ('tuple', xs)
        if p.k == 'id' and p.v == 'match':
            raise PErr('match outside a closure')
        if p.k == 'id' or (p.k == 'p' and p.v == '$'):
            segs = self.path()
            if self.at('!') and self.at('(', 1):
                self.i += 1
                return ('macro', segs[-1], self.args())
            if self.at('('):
                return ('call', segs, self.args())
            return ('path', segs)
        raise PErr('unexpected token %r' % p)

    def postfix(self):
        e = self.primary()
        while True:
            if self.at('.') and self.peek(1).k == 'id':
                name = self.peek(1).v; self.i += 2
                gen = None
                if self.at('::'):
                    self.i += 1
                    j = skip_generics(self.t, self.i)
                    gen = ''.join(x.v for x in self.t[self.i + 1:j - 1]); self.i = j
                a = self.args() if self.at('(') else None
                e = ('method', e, name, gen, a)
            elif self.at('?'):
                self.i += 1; e = ('try', e)
            else:
                return e


# ------------------------------------------------------------------------------------------------
# Lean emission
# ------------------------------------------------------------------------------------------------
def lean_char(c):
    o = ord(c)
    if c == '\\': return "'\\\\'"
    if c == "'": return "'\\''"
    if c == '\n': return "'\\n'"
    if c == '\t': return "'\\t'"
    if c == '\r': return "'\\r'"
    if o < 32 or o == 127: return "'\\x%02x'" % o
    return "'%s'" % c


def lean_cl(s):
    """The model's `cl!"..."` literal for a Rust string value."""
    out = []
    for c in s:
        if c == '\\': out.append('\\\\')
        elif c == '"': out.append('\\"')
        elif c == '\n': out.append('\\n')
        elif c == '\t': out.append('\\t')
        elif c == '\r': out.append('\\r')
        else: out.append(c)
    return 'cl!"%s"' % ''.join(out)


# Rust constructor -> Lean constructor (naming only; the enum definitions are compared by the AST check below)
def lower_first(s):
    return s[0].lower() + s[1:]

CTOR_EXC = {
    'Test::True': 'Test.true_', 'Test::False': 'Test.false_',
    'Size::Byte': 'Size.byte', 'Size::Word': 'Size.word', 'Size::Block': 'Size.block', 'Size::KiloByte': 'Size.kilo',
    'Size::MegaByte': 'Size.mega', 'Size::GigaByte': 'Size.giga', 'Size::TeraByte': 'Size.tera',
    'Comparison::GreaterThan': 'Comparison.gt', 'Comparison::LesserThan': 'Comparison.lt', 'Comparison::Equal': 'Comparison.eq',
    'PositionalOption::XDev': 'PositionalOption.xdev',
    'Token::LParen': 'Token.lparen', 'Token::RParen': 'Token.rparen',
    'FormatField::XAttr': 'FormatField.xattr',
    'Test::FsType': 'Test.fsType',
}
ENUMS = {'Test', 'Action', 'GlobalOption', 'PositionalOption', 'Token', 'Size', 'TimeSpec', 'Comparison', 'FileType',
         'PermCheck', 'FormatSpecial', 'FormatField', 'FormatElement', 'PartialPermission'}


def ctor(segs):
    segs = [s for s in segs if not s.startswith('<')]
    if len(segs) == 2 and segs[0] in ENUMS:
        key = '::'.join(segs)
        return CTOR_EXC.get(key, '%s.%s' % (segs[0], lower_first(segs[1])))
    return None


# parser items: Rust key -> (Lean name, takes the parser argument list)
NAMES = {
    'u32::parse': 'parseU32', 'u64::parse': 'parseU64', 'quote_delimiter': 'quoteDelimiter',
    'String::parse': 'parseString', 'unary!': 'unary', 'binary!': 'binary',
    'parse_comp_format': 'compFormat', 'unsupported_option_argument': 'unsupportedOptionArg',
    'GlobalOption::parse': 'parseGlobal', 'PositionalOption::parse': 'parsePositional',
    'Action::parse': 'parseAction', 'Test::parse': 'parseTest', 'token': 'token', 'lex': 'lex',
    'Size::parse': 'parseSize', 'TimeSpec::parse': 'parseTime', 'MinDefault::parse': 'parseMinDefault',
    'DayDefault::parse': 'parseDayDefault', 'FileType::parse': 'parseFileType',
    'Vec<FileType>::parse': 'parseFileTypes', 'PartialPermission::parse': 'parsePartial',
    'Permission::parse': 'parsePermission', 'PermCheck::parse': 'parsePermCheck',
    'FormatSpecial::parse': 'parseSpecial', 'FormatField::parse': 'parseField',
    'Vec<FormatElement>::parse': 'parseFormat', 'Comparison<P>::parse': 'parseComparison',
    # precedence.rs (over token slices; open recursion: every item takes the `atom` parser as a parameter)
    'and': 'andLevel', 'or': 'orLevel', 'list': 'listLevel', 'not': 'notP', 'parens': 'parensP', 'atom': 'atomStep',
    'parser': 'parserTop',
}
PREC = ['and', 'or', 'list', 'not', 'parens', 'atom', 'parser']
# translation order (dependencies first)
ORDER = ['u32::parse', 'u64::parse', 'quote_delimiter', 'String::parse', 'unary!', 'binary!', 'parse_comp_format',
         'Comparison<P>::parse',
         'Size::parse', 'TimeSpec::parse', 'MinDefault::parse', 'DayDefault::parse', 'FileType::parse',
         'Vec<FileType>::parse', 'PartialPermission::parse', 'Permission::parse', 'PermCheck::parse',
         'FormatSpecial::parse', 'FormatField::parse', 'Vec<FormatElement>::parse',
         'unsupported_option_argument', 'GlobalOption::parse', 'PositionalOption::parse', 'Action::parse',
         'Test::parse', 'token', 'lex'] + ['and', 'or', 'list', 'not', 'parens', 'atom', 'parser']

# plain-Rust helpers transcribed by hand in the model: fingerprinted (token text), not translated
FINGERPRINTS = {
    'Permission::value': ('permValue',
        "match symbolic { 'u' => Mode :: S_IRWXU , 'g' => Mode :: S_IRWXG , 'o' => Mode :: S_IRWXO , 'a' => Mode :: S_IRWXU | Mode :: S_IRWXG | Mode :: S_IRWXO , 'r' => Mode :: S_IRUSR | Mode :: S_IRGRP | Mode :: S_IROTH , 'w' => Mode :: S_IWUSR | Mode :: S_IWGRP | Mode :: S_IWOTH , 'x' => Mode :: S_IXUSR | Mode :: S_IXGRP | Mode :: S_IXOTH , _ => unreachable ! ( ) , }"),
    'Permission::from_symbolic_str': ('symMode',
        "input . as_ref ( ) . chars ( ) . map ( Permission :: value ) . reduce ( | acc , e | acc | e )"),
    'PartialPermission::update': ('PartialPermission.update',
        "match self { PartialPermission :: Del ( bits ) => mode & bits . complement ( ) , PartialPermission :: Add ( bits ) => mode | * bits , PartialPermission :: Set ( target , level ) => { let neg = mode & target . complement ( ) ; neg | ( * target & * level ) } }"),
    'expected': ('expected', "StrContext :: Expected ( StrContextValue :: Description ( reason ) )"),
    'label': ('label', "StrContext :: Label ( name )"),
    'MinDefault::into': ('(identity)', "self . 0"),
    'DayDefault::into': ('(identity)', "self . 0"),
}

# the tail of PartialPermission::parse after the tuple parser (plain Rust)
PARTIAL_TAIL = ("; let ( target_mode , level_mode ) = ( Permission :: from_symbolic_str ( target ) . unwrap ( ) , "
                "Permission :: from_symbolic_str ( level ) . unwrap ( ) , ) ; Ok ( match operator { "
                "'=' => PartialPermission :: Set ( target_mode , level_mode ) , "
                "'+' => PartialPermission :: Add ( target_mode & level_mode ) , "
                "'-' => PartialPermission :: Del ( target_mode & ! level_mode ) , _ => unreachable ! ( ) , } )")

# closures that are plain Rust (not tables): token text -> (Lean function, partial?)
CLOSURES = {
    '| digit_str : & str | digit_str . parse :: < u32 > ( )':
        ('(fun ds => if decVal ds < 2 ^ 32 then some (decVal ds) else none)', False),
    '| digit_str : & str | digit_str . parse :: < u64 > ( )':
        ('(fun ds => if decVal ds < 2 ^ 64 then some (decVal ds) else none)', False),
    '| _ : u32 | None :: < u32 >': ('(fun (_ : Nat) => (none : Option Nat))', False),
    '| oct | u32 :: from_str_radix ( oct , 8 ) . ok ( ) . and_then ( Mode :: from_bits )':
        ('(fun ds => if octVal ds < 4096 then some (octVal ds) else none)', False),
    '| oct | u16 :: from_str_radix ( oct , 8 ) . unwrap ( )':
        ('(fun ds => if octVal ds < 65536 then some (octVal ds) else none)', True),
    '| v : Vec < PartialPermission > | { v . iter ( ) . fold ( Mode :: from_bits ( 0 ) . unwrap ( ) , | acc , e | e . update ( acc ) ) }':
        ('(fun v => v.foldl (fun acc (e : PartialPermission) => e.update acc) 0)', False),
    '| ( tks , _ ) | tks': ('Prod.fst', False),
    '| name : & str | FormatField :: XAttr ( String :: from ( name ) )': ('FormatField.xattr', False),
    '| ( lit , el ) : ( String , FormatElement ) | match lit . len ( ) { 0 => vec ! [ el ] , _ => vec ! [ FormatElement :: Literal ( lit ) , el ] , }':
        ('(fun (x : Text × FormatElement) => if x.1.isEmpty then [x.2] else [FormatElement.literal x.1, x.2])', False),
    '| ( mut list , suffix ) : ( Vec < FormatElement > , String ) | { if ! suffix . is_empty ( ) { list . push ( FormatElement :: Literal ( suffix ) ) ; } list }':
        ('(fun (ls : List FormatElement × Text) => if ls.2.isEmpty then ls.1 else ls.1 ++ [FormatElement.literal ls.2])', False),
    '|| vec ! [ ]': ('[]', False),
    '| mut acc , e | { acc . extend ( e ) ; acc }': ('(fun acc e => acc ++ e)', False),
}
IDENTITY_MAPS = {'String::from', 'Permission'}
IDENTITY_CLOSURES = {'| m | Permission ( m )'}

SIMPLE = {'digit1', 'alpha1', 'multispace0', 'multispace1', 'any', 'eof', 'fail'}
CALL2 = {'preceded': 'preceded', 'terminated': 'terminated', 'delimited': 'delimited',
         'separated_pair': 'separatedPair', 'cut_err': 'cutErr'}


class Untranslatable(Exception):
    pass


class Emitter:
    def __init__(self, items):
        self.items = items                # key -> Item
        self.needs_pf = {}                # lean name -> bool
        self.file = '?'
        self.env = {}                     # local lets / parameters -> lean text
        self.uses_pf = False
        self.notes = []

    # ---- references to other items
    def ref(self, key, generics=None):
        if key not in NAMES:
            raise Untranslatable('reference to unknown parser %s' % key)
        nm = NAMES[key]
        if key in PREC:
            if key == 'atom':
                return 'atom'          # the open-recursion parameter
            if self.needs_pf.get(nm, True if key != 'not' else False):
                self.uses_pf = True
                return '(%s pf atom)' % nm
            return '(%s atom)' % nm
        if self.needs_pf.get(nm):
            self.uses_pf = True
            return '(%s pf)' % nm
        return nm

    def type_parser(self, ty):
        """`T::parse` for a type text."""
        ty = ty.replace(' ', '')
        m = re.fullmatch(r'Comparison(::)?<(\w+)>', ty)
        if m:
            return '(compFormat %s)' % self.type_parser(m.group(2))
        m = re.fullmatch(r'Vec(::)?<(\w+)>', ty)
        if m:
            return self.ref('Vec<%s>::parse' % m.group(2))
        if ty in self.env:
            return self.env[ty]
        return self.ref(ty + '::parse')

    # ---- closures
    def closure_fn(self, node):
        """Returns (lean function text, partial?)."""
        _, params, body, whole = node
        key = text_of(whole)
        if key in CLOSURES:
            return CLOSURES[key]
        ptxt = text_of(params)
        btxt = text_of(body)
        # |c| "xyz".contains(c)
        if len(params) == 1 and params[0].k == 'id' and len(body) == 6 and body[0].k == 'str' and \
                text_of(body[1:]) == '. contains ( %s )' % params[0].v:
            return ('(containsChar (%s))' % lean_cl(body[0].v), False)
        # |c| !matches!(c, 'a' | 'b' ...)
        if len(params) == 1 and params[0].k == 'id' and text_of(body[:6]) == '! matches ! ( %s ,' % params[0].v \
                and body[-1].v == ')':
            alts = body[6:-1]
            chars = []
            for k, a in enumerate(alts):
                if k % 2 == 0:
                    if a.k != 'chr': raise Untranslatable('matches! pattern: ' + btxt)
                    chars.append(a.v)
                elif a.v != '|': raise Untranslatable('matches! pattern: ' + btxt)
            return ('(fun c => !(%s))' % ' || '.join('c = %s' % lean_char(c) for c in chars), False)
        # |v| Ctor(v.into())   |v| Ctor(v)
        if len(params) == 1 and params[0].k == 'id':
            v = params[0].v
            m = re.fullmatch(r'(\w+) :: (\w+) \( %s( \. into \( \))? \)' % v, btxt)
            if m and ctor([m.group(1), m.group(2)]):
                return (ctor([m.group(1), m.group(2)]), False)
        # |(a, b)| Ctor(a, b)
        m = re.fullmatch(r'\( (\w+) , (\w+) \)', ptxt)
        if m:
            a, b = m.group(1), m.group(2)
            m2 = re.fullmatch(r'(\w+) :: (\w+) \( %s , %s \)' % (a, b), btxt)
            if m2 and ctor([m2.group(1), m2.group(2)]):
                return ('(fun (x : _ × _) => %s x.1 x.2)' % ctor([m2.group(1), m2.group(2)]), False)
        # match on a character: |c| match c {..}   |(num, unit)| match unit {..}
        names = [p.v for p in params if p.k == 'id']
        if body and body[0].k == 'id' and body[0].v == 'match' and body[1].k == 'id' and body[2].v == '{' and body[-1].v == '}':
            scrut = body[1].v
            if scrut in names and len(names) in (1, 2) and body[3].k == 'chr':
                arms = body[3:-1]
                rows, partial, k = [], False, 0
                other = [x for x in names if x != scrut]
                while k < len(arms):
                    pat = arms[k]
                    if arms[k + 1].v != '=>': raise Untranslatable('match arm: ' + btxt)
                    j = k + 2
                    depth = 0
                    while j < len(arms) and not (arms[j].v == ',' and depth == 0):
                        if arms[j].k == 'p' and arms[j].v in OPEN: depth += 1
                        if arms[j].k == 'p' and arms[j].v in CLOSE: depth -= 1
                        j += 1
                    rhs = arms[k + 2:j]
                    rt = text_of(rhs)
                    if pat.k == 'chr':
                        m3 = re.fullmatch(r'(\w+) :: (\w+)( \( (\w+) \))?', rt)
                        if not m3 or not ctor([m3.group(1), m3.group(2)]): raise Untranslatable('match arm value: ' + rt)
                        val = ctor([m3.group(1), m3.group(2)])
                        if m3.group(4):
                            if not other or m3.group(4) != other[0]: raise Untranslatable('match arm argument: ' + rt)
                            val = '(%s %s)' % (val, 'x.1' if names.index(other[0]) == 0 else 'x.2')
                        rows.append((pat.v, val))
                    elif pat.k == 'id' and pat.v == '_':
                        if rt != 'unreachable ! ( )': raise Untranslatable('default arm: ' + rt)
                        partial = True
                    else:
                        raise Untranslatable('match pattern: ' + text_of([pat]))
                    k = j + 1
                if not partial: raise Untranslatable('character match without a default arm')
                if len(names) == 1:
                    sc, bind = 'x', '(x : Char)'
                else:
                    sc = 'x.1' if names.index(scrut) == 0 else 'x.2'
                    bind = '(x : _ × _)'
                chain = ''.join('if %s = %s then some %s else ' % (sc, lean_char(c), v) for c, v in rows) + 'none'
                return ('(fun %s => %s)' % (bind, chain), True)
        # |acc, val| Exp::Operator(Rc::new(Ope::X(acc, val)))     |val| Exp::Operator(Rc::new(Ope::Not(val)))
        m = re.fullmatch(r'\| (\w+) , (\w+) \| Exp :: Operator \( Rc :: new \( Ope :: (\w+) \( \1 , \2 \) \) \)', key)
        if m and m.group(3) in ('And', 'Or', 'List'):
            return ('Expr.' + m.group(3).lower(), False)
        m = re.fullmatch(r'\| (\w+) \| Exp :: Operator \( Rc :: new \( Ope :: Not \( \1 \) \) \)', key)
        if m:
            return ('Expr.not', False)
        # |t| matches!(t, Token::A(_) | Token::B(_) ...)  (possibly inside a block)
        inner = body
        if inner and inner[0].v == '{' and inner[-1].v == '}': inner = inner[1:-1]
        if len(params) == 1 and params[0].k == 'id' and text_of(inner[:5]) == 'matches ! ( %s ,' % params[0].v and inner[-1].v == ')':
            pats = text_of(inner[5:-1]).rstrip(' ,').split(' | ')
            arms = []
            for ptn in pats:
                m = re.fullmatch(r'Token :: (\w+) \( _ \)', ptn.strip())
                if not m: raise Untranslatable('matches! token pattern: ' + ptn)
                arms.append('| %s _ ' % ctor(['Token', m.group(1)]))
            return ('(fun t => match t with %s=> true | _ => false)' % ''.join(arms), False)
        # |t| match t { Token::A(v) => Exp::A(v), ..., _ => unreachable!() }
        if len(params) == 1 and params[0].k == 'id' and body and body[0].v == 'match' and body[1].v == params[0].v:
            arms, k, rows, partial = body[3:-1], 0, [], False
            txt = text_of(arms)
            for arm in [a.strip() for a in txt.split(' , ') if a.strip().rstrip(',').strip()]:
                arm = arm.rstrip(',').strip()
                m = re.fullmatch(r'Token :: (\w+) \( (\w+) \) => Exp :: (\w+) \( \2 \)', arm)
                if m:
                    rows.append('| %s v => some (Expr.%s v) ' % (ctor(['Token', m.group(1)]), lower_first(m.group(3))))
                elif arm == '_ => unreachable ! ( )':
                    partial = True
                else:
                    raise Untranslatable('token match arm: ' + arm)
            if not partial: raise Untranslatable('token match without default arm')
            return ('(fun t => match t with %s| _ => none)' % ''.join(rows), True)
        raise Untranslatable('closure not understood: ' + key)

    def ctx_value(self, node):
        if node[0] == 'call' and node[1][-1] in ('label', 'expected') and len(node[2]) == 1:
            a = node[2][0]
            if a[0] == 'str': inner = '(%s)' % lean_cl(a[1])
            elif a[0] == 'path' and a[1][0].startswith('$'): inner = self.env[a[1][0]][1]
            else: raise Untranslatable('context argument')
            return '(%s %s)' % (node[1][-1], inner)
        raise Untranslatable('context value')

    def value_expr(self, node):
        if node[0] == 'path':
            c = ctor(node[1])
            if c: return c
        raise Untranslatable('value: %r' % (node,))

    def fn_value(self, node):
        """A function-valued argument of map/try_map: (lean text, partial?, identity?)."""
        if node[0] == 'closure':
            if text_of(node[3]) in IDENTITY_CLOSURES: return (None, False, True)
            f, partial = self.closure_fn(node)
            return (f, partial, False)
        if node[0] == 'path':
            segs = node[1]
            if '::'.join(segs) in IDENTITY_MAPS: return (None, False, True)
            if segs[0].startswith('$'): return (self.env[segs[0]][0], False, False)
            if len(segs) == 1 and segs[0] in self.env: return (self.env[segs[0]], False, False)
            c = ctor(segs)
            if c: return (c, False, False)
        raise Untranslatable('function value: %r' % (node,))

    def rng(self, node):
        if node[0] != 'range': raise Untranslatable('range expected')
        return node[1], node[2], node[3]

    def parser(self, node):
        k = node[0]
        if k == 'str':
            return '(lit (%s))' % lean_cl(node[1])
        if k == 'tuple':
            xs = [self.parser(x) for x in node[1]]
            out = xs[-1]
            for x in reversed(xs[:-1]):
                out = '(pair %s %s)' % (x, out)
            return out
        if k == 'path':
            segs = node[1]
            if len(segs) == 1:
                s = segs[0]
                if s.startswith('$'): return self.env[s][2]
                if s in self.env: return self.env[s]
                if s in SIMPLE: return s
                if s in NAMES: return self.ref(s)
                raise Untranslatable('unknown name %s' % s)
            if segs[-1] == 'parse':
                return self.type_parser(''.join(segs[:-1]))
            if segs[-1] == 'is_alpha':
                return 'isAlpha'
            if segs[0] == 'parse_comp_format' and segs[1].startswith('<'):
                t, d = segs[1][1:-1].split(',')
                return '(compFormat %s)' % self.type_parser(d)
            raise Untranslatable('path %s' % '::'.join(segs))
        if k == 'call':
            segs, args = node[1], node[2]
            f = segs[-1]
            if len(segs) == 1 or segs[-2] in ('combinator', 'token', 'ascii'):
                if f == 'alt':
                    if len(args) != 1 or args[0][0] != 'tuple': raise Untranslatable('alt argument')
                    members = args[0][1]
                    def is_alt(x):
                        return x[0] == 'call' and x[1][-1] == 'alt' and len(x[2]) == 1 and x[2][0][0] == 'tuple'
                    if any(is_alt(x) for x in members):
                        # winnow's tuples are bounded, so the source nests alt((alt((..)), alt((..)), e));
                        # emitted as that very nesting (Gen/Support.lean: altNested), a non-alt member being a
                        # one-element group
                        groups = []
                        for x in members:
                            if is_alt(x): groups.append('[%s]' % ', '.join(self.parser(y) for y in x[2][0][1]))
                            else: groups.append('[%s]' % self.parser(x))
                        return '(altNested [%s])' % ',\n      '.join(groups)
                    return '(alt [%s])' % ', '.join(self.parser(x) for x in members)
                if f == 'terminated' and len(args) == 2 and args[1][0] == 'call' and args[1][1][-1] == 'alt' \
                        and args[1][2][0][0] == 'tuple' and ('path', ['eof']) in args[1][2][0][1]:
                    # discarded output: winnow's `eof` yields the empty slice, the model's yields (); the other
                    # alternatives are brought to unit with `value ()`
                    alts = ['eof' if x == ('path', ['eof']) else '(value () %s)' % self.parser(x) for x in args[1][2][0][1]]
                    return '(terminated %s (alt [%s]))' % (self.parser(args[0]), ', '.join(alts))
                if f in CALL2:
                    return '(%s %s)' % (CALL2[f], ' '.join(self.parser(x) for x in args))
                if f == 'literal':
                    return self.parser(args[0])
                if f == 'one_of':
                    if args[0][0] == 'path' and ctor(args[0][1]) and args[0][1][0] == 'Token':
                        return '(oneOf (tokIs %s))' % ctor(args[0][1])
                    fn, partial = self.closure_fn(args[0])
                    return '(oneOf %s)' % fn
                if f == 'take_while':
                    lo, hi, inc = self.rng(args[0])
                    pred = self.closure_fn(args[1])[0] if args[1][0] == 'closure' else self.parser(args[1])
                    if hi is None: return '(takeWhile %d %s)' % (lo, pred)
                    if inc: return '(takeWhileMN %d %d %s)' % (lo, hi, pred)
                    raise Untranslatable('take_while range')
                if f == 'take_until':
                    lo, hi, inc = self.rng(args[0])
                    if (lo, hi) != (1, None) or args[1][0] != 'str' or len(args[1][1]) != 1:
                        raise Untranslatable('take_until form')
                    return '(takeUntil1 %s)' % lean_char(args[1][1])
                if f == 'repeat':
                    lo, hi, inc = self.rng(args[0])
                    if (lo, hi) != (0, None): raise Untranslatable('repeat range')
                    self.uses_pf = True
                    return '(repeat0 pf %s)' % self.parser(args[1])
                if f == 'repeat_till':
                    lo, hi, inc = self.rng(args[0])
                    if hi is not None or lo not in (0, 1): raise Untranslatable('repeat_till range')
                    self.uses_pf = True
                    return '(repeatTill%d pf %s %s)' % (lo, self.parser(args[1]), self.parser(args[2]))
                if f == 'separated':
                    lo, hi, inc = self.rng(args[0])
                    if (lo, hi) != (1, None): raise Untranslatable('separated range')
                    self.uses_pf = True
                    return '(separated1 pf %s %s)' % (self.parser(args[1]), self.parser(args[2]))
                if f in NAMES and not args:
                    return self.ref(f)
                if f == 'parse_comp_format':
                    raise Untranslatable('parse_comp_format call form')
            # parse_comp_format::<P, P>(input)
            if segs[0] == 'parse_comp_format' and len(segs) == 2 and segs[1].startswith('<'):
                t, d = segs[1][1:-1].split(',')
                return '(compFormat %s)' % self.type_parser(d)
            raise Untranslatable('call %s' % '::'.join(segs))
        if k == 'macro':
            name, args = node[1], node[2]
            if name == 'unary' and len(args) == 3 and args[0][0] == 'str':
                fn, partial, ident = self.fn_value(args[1])
                return '(unary (%s) %s %s)' % (lean_cl(args[0][1]), fn, self.parser(args[2]))
            if name == 'binary' and len(args) == 5 and args[0][0] == 'str' and args[4][0] == 'str':
                fn, partial, ident = self.fn_value(args[1])
                return '(binary (%s) %s %s %s (%s))' % (lean_cl(args[0][1]), fn, self.parser(args[2]),
                                                         self.parser(args[3]), lean_cl(args[4][1]))
            raise Untranslatable('macro %s!' % name)
        if k == 'method':
            _, recv, name, gen, args = node
            if name == 'parse_next':
                return self.parser(recv)
            if name == 'value':
                return '(value %s %s)' % (self.value_expr(args[0]), self.parser(recv))
            if name == 'map':
                fn, partial, ident = self.fn_value(args[0])
                if ident: return self.parser(recv)
                if partial:
                    site = '%s:%s' % (self.file, 'unwrap' if 'unwrap' in text_of(args[0][3]) else 'unreachable')
                    return '(mapOrPanic (%s) %s %s)' % (lean_cl(site), fn, self.parser(recv))
                return '(map %s %s)' % (fn, self.parser(recv))
            if name in ('try_map', 'verify_map'):
                fn, partial, ident = self.fn_value(args[0])
                return '(tryMap %s %s)' % (fn, self.parser(recv))
            if name == 'context':
                return '(context %s %s)' % (self.ctx_value(args[0]), self.parser(recv))
            if name == 'and_then':
                return '(andThen %s %s)' % (self.parser(recv), self.parser(args[0]))
            if name == 'fold':
                # repeat(0.., p).fold(init, g)
                if recv[0] == 'call' and recv[1][-1] == 'repeat':
                    lo, hi, inc = self.rng(recv[2][0])
                    if (lo, hi) != (0, None): raise Untranslatable('repeat range')
                    if text_of(args[0][3]) == '|| init . clone ( )' and 'init' in self.env:
                        g = self.closure_fn(args[1])[0]
                        self.uses_pf = True
                        return '(foldLevel pf %s %s %s)' % (self.env['init'], self.parser(recv[2][1]), g)
                    init = self.closure_fn(args[0])[0]
                    g = self.closure_fn(args[1])[0]
                    self.uses_pf = True
                    return '(fun i => repeatFold pf %s %s (i.length + 1) %s i)' % (self.parser(recv[2][1]), g, init)
                raise Untranslatable('fold receiver')
            raise Untranslatable('method .%s' % name)
        raise Untranslatable('expression %s' % k)

    # ---- bodies
    def body(self, item):
        """Lean term for the body of a parser function."""
        toks = list(item.body)
        self.file = item.file
        # leading `let name = EXPR ;` bindings of parser values
        lets = []
        while toks and toks[0].k == 'id' and toks[0].v == 'let' and toks[1].k == 'id' and toks[2].v == '=':
            depth, j = 0, 3
            while not (toks[j].v == ';' and depth == 0):
                if toks[j].k == 'p' and toks[j].v in OPEN: depth += 1
                if toks[j].k == 'p' and toks[j].v in CLOSE: depth -= 1
                j += 1
            if item.key == 'parser':
                break
            p = Parser(toks[3:j]); e = p.expr()
            if not p.done(): raise Untranslatable('let binding')
            if e[0] == 'try':
                e = e[1]
            self.env[toks[1].v] = self.parser(e)
            toks = toks[j + 1:]
        if item.key == 'parser':
            # let out = EXPR.parse_next(input).map(|(list, _): (Vec<Exp>, _)| list)?; Ok(out.first().unwrap().to_owned())
            if text_of(toks[:3]) != 'let out =': raise Untranslatable('parser head')
            p = Parser(toks[3:]); e = p.expr()
            tail = text_of(p.t[p.i:])
            want_tail = '; Ok ( out . first ( ) . unwrap ( ) . to_owned ( ) )'
            if tail != want_tail: raise Untranslatable('parser tail changed: ' + tail)
            if not (e[0] == 'try' and e[1][0] == 'method' and e[1][2] == 'map' and
                    text_of(e[1][4][0][3]) == '| ( list , _ ) : ( Vec < Exp > , _ ) | list'):
                raise Untranslatable('parser result projection changed')
            return '(mapOrPanic (%s) (fun (x : List Expr × Unit) => x.1.head?) %s)' % (lean_cl('precedence.rs:first-unwrap'), self.parser(e[1][1]))
        if item.key == 'PartialPermission::parse':
            # let (target, operator, level) = ( TUPLE ).parse_next(input)? ; TAIL
            head = 'let ( target , operator , level ) ='
            if text_of(toks[:9]) != head: raise Untranslatable('PartialPermission::parse head')
            p = Parser(toks[9:]); e = p.expr()
            if e[0] != 'try' or e[1][0] != 'method' or e[1][2] != 'parse_next':
                raise Untranslatable('PartialPermission::parse tuple')
            tail = text_of(p.t[p.i:])
            if tail != PARTIAL_TAIL: raise Untranslatable('PartialPermission::parse tail changed: ' + tail)
            return '(mapOrPanic (%s) mkPartial %s)' % (lean_cl(item.file + ':unwrap'), self.parser(e[1][1]))
        if item.key in ('MinDefault::parse', 'DayDefault::parse'):
            ty = item.key.split(':')[0]
            m = re.fullmatch(r'Ok \( %s \( TimeSpec :: parse \( input , TimeSpec :: (\w+) \) \? \) \)' % ty, text_of(toks))
            if not m: raise Untranslatable(item.key)
            return '(parseTime %s)' % ctor(['TimeSpec', m.group(1)])
        p = Parser(toks)
        e = p.expr()
        if not p.done():
            raise Untranslatable('trailing tokens: ' + text_of(p.t[p.i:p.i + 8]))
        return self.parser(e)


def translate(repo):
    d = os.path.join(repo, 'src', 'find_parser')
    files = ['prelude.rs', 'mod.rs', 'size.rs', 'timespec.rs', 'filetype.rs', 'permission.rs', 'format.rs', 'precedence.rs']
    items = {}
    for f in files:
        for it in extract_items(os.path.join(d, f)):
            if it.key in items:
                it.key = it.key + '#2'
            items[it.key] = it
    em = Emitter(items)
    out, report = [], {'translated': [], 'untranslated': {}, 'fingerprints': {}, 'not_modelled_here': [], 'item_files': {}, 'def_files': {}}
    for key in ORDER:
        nm = NAMES[key]
        it = items.get(key)
        if it is not None:
            report['item_files'][key] = 'src/find_parser/' + it.file
            report['def_files'][nm] = 'src/find_parser/' + it.file
        if it is None:
            report['untranslated'][key] = 'item not found in the source'
            out.append('-- UNTRANSLATED %s: item not found' % key)
            continue
        em.env, em.uses_pf = {}, False
        params = []
        try:
            if it.kind == 'macro':
                if key == 'unary!':
                    em.env = {'$identifier': ('?', 'kw', '(lit kw)'), '$transform': ('tr',), '$parser': ('?', '?', 'p')}
                    params = ['{α β : Type}', '(kw : Text)', '(tr : α → β)', '(p : P Char α)']
                    ret = 'P Char β'
                else:
                    em.env = {'$identifier': ('?', 'kw', '(lit kw)'), '$transform': ('tr',),
                              '$parser_lhs': ('?', '?', 'l'), '$parser_rhs': ('?', '?', 'r'), '$arguments': ('?', 'args', '?')}
                    params = ['{α β γ : Type}', '(kw : Text)', '(tr : α × β → γ)', '(l : P Char α)', '(r : P Char β)', '(args : Text)']
                    ret = 'P Char γ'
                body = em.body(it)
            elif key == 'parse_comp_format':
                em.env = {'D': 'p'}
                params = ['{α : Type}', '(p : P Char α)']
                ret = 'P Char (Comparison α)'
                body = em.body(it)
            elif key == 'Comparison<P>::parse':
                em.env = {'P': 'p'}
                params = ['{α : Type}', '(p : P Char α)']
                ret = 'P Char (Comparison α)'
                body = em.body(it)
            elif key in PREC:
                em.prec = True
                params = ['(atom : P Token Expr)']
                ret = 'P Token Expr'
                body = em.body(it)
            elif key == 'TimeSpec::parse':
                em.env = {'default': 'dflt'}
                params = ['(dflt : Nat → TimeSpec)']
                ret = 'P Char TimeSpec'
                body = em.body(it)
            else:
                ret = '_'
                body = em.body(it)
            if em.uses_pf:
                params = ['(pf : Profile)'] + params
            em.needs_pf[nm] = em.uses_pf
            out.append('/-- `%s` (%s) -/' % (key, it.file))
            rt = RET.get(nm, ret)
            out.append('def %s %s: %s :=\n  %s\n' % (nm, ' '.join(params) + (' ' if params else ''), rt, body))
            report['translated'].append(key)
        except (Untranslatable, PErr, KeyError, IndexError, ValueError, AssertionError) as e:
            report['untranslated'][key] = '%s: %s' % (type(e).__name__, e)
            out.append('-- UNTRANSLATED %s: %s' % (key, str(e).replace('\n', ' ')[:300]))
            em.needs_pf[nm] = PF_DEFAULT.get(nm, False)

    # ---- _parse / parse: statement skeleton with holes (leading-options parser, the two `-true` tokens)
    try:
        it, itp = items.get('_parse'), items.get('parse')
        if it is None or itp is None: raise Untranslatable('item not found')
        toks = it.body
        txt = text_of(toks)
        head = ('let mut globals = RunOptions :: default ( ) ; winnow :: Parser :: < & str , Vec < GlobalOption > , '
                'winnow :: error :: ContextError > :: parse_next ( & mut ')
        if not txt.startswith(head): raise Untranslatable('_parse head changed')
        i0 = len(tokenize(head.replace(' ', ' ')))  # token count of the head
        # find the '& mut' expression: tokens from i0 up to the depth-0 comma
        k, depth = i0, 0
        while not (toks[k].v == ',' and depth == 0):
            if toks[k].k == 'p' and toks[k].v in OPEN: depth += 1
            if toks[k].k == 'p' and toks[k].v in CLOSE: depth -= 1
            k += 1
        pexpr = Parser(toks[i0:k]); e = pexpr.expr()
        if not pexpr.done(): raise Untranslatable('_parse leading-options expression')
        em.env, em.uses_pf, em.file = {}, False, 'mod.rs'
        lead = em.parser(e)
        rest = text_of(toks[k:])
        m = re.fullmatch(r', input ,? ?\) \? \. iter \( \) \. for_each \( \| g : & GlobalOption \| globals \. update \( g \) \) ; '
                         r'let tokens = if input \. is_empty \( \) \{ vec ! \[ (?P<empty>.*?) \] \} else \{ lex \. parse_next \( input \) \? \} ; '
                         r'let tokens : Vec < Token > = tokens \. into_iter \( \) \. enumerate \( \) \. map \( \| \( i , t \) \| match t \{ '
                         r'Token :: Global \( v \) => \{ globals \. update \( & v \) ; (?P<repl>.*?) \} token => token , \} \) \. collect \( \) ; '
                         r'Ok \( \( globals , precedence :: parser \. parse_next \( & mut tokens \. as_slice \( \) \) \? , \) \)', rest)
        if not m: raise Untranslatable('_parse does not have the shape the model was transcribed from')
        def tok_of(t):
            mm = re.fullmatch(r'Token :: Test \( Test :: (\w+) \)', t.strip())
            if not mm: raise Untranslatable('_parse token ' + t)
            return '(Token.test %s)' % ctor(['Test', mm.group(1)])
        ptxt = text_of(itp.body)
        if ptxt != ('let mut input : & str = input . as_ref ( ) ; _parse ( & mut input ) . or_else ( | e | { Err ( error :: ParserError :: dispatch ( '
                    'e . into_inner ( ) . unwrap ( ) , & mut input , ) ) } )'):
            raise Untranslatable('parse() changed')
        out.append('/-- the leading-options parser of `_parse` (mod.rs) -/')
        out.append('def leadingGlobals (pf : Profile) : P Char (List GlobalOption) :=\n  %s\n' % lead)
        out.append('/-- `_parse` + `parse` (mod.rs): statement skeleton `parseWith` (Gen/Support.lean) with the parts read from the source -/')
        out.append('def parse (pf : Profile) (input : Text) : ParseOut :=\n  parseWith (leadingGlobals pf) [%s] %s (lex pf) RunOptions.update (FV.climb pf) FV.dispatch input\n'
                   % (tok_of(m.group('empty')), tok_of(m.group('repl'))))
        report['translated'].append('_parse'); report['translated'].append('parse')
        report['def_files']['leadingGlobals'] = report['def_files']['parse'] = 'src/find_parser/mod.rs'
    except Exception as e:
        report['untranslated']['_parse'] = '%s: %s' % (type(e).__name__, str(e)[:300])
        report['item_files']['_parse'] = 'src/find_parser/mod.rs'
        out.append('-- UNTRANSLATED _parse: %s' % str(e)[:300])
    for key, (lean, want) in FINGERPRINTS.items():
        k = key
        it = items.get(k)
        got = text_of(it.body) if it else None
        report['fingerprints'][key] = {'model': lean, 'ok': got == want}
        if it is not None: report['item_files'][key] = 'src/find_parser/' + it.file
        if got != want:
            report['untranslated'][key] = 'plain-Rust helper changed (fingerprint): ' + (got or 'missing')[:300]
    known = set(ORDER) | set(FINGERPRINTS) | {'_parse', 'parse'}
    for k in items:
        if k not in known:
            report['not_modelled_here'].append(k)
    return out, report


# result types (so that elaboration does not depend on unification order)
RET = {
    'parseU32': 'P Char Nat', 'parseU64': 'P Char Nat', 'quoteDelimiter': 'P Char Text', 'parseString': 'P Char Text',
    'unsupportedOptionArg': 'P Char Nat', 'parseGlobal': 'P Char GlobalOption', 'parsePositional': 'P Char PositionalOption',
    'parseAction': 'P Char Action', 'parseTest': 'P Char Test', 'token': 'P Char Token', 'lex': 'P Char (List Token)',
    'parseSize': 'P Char Size', 'parseMinDefault': 'P Char TimeSpec', 'parseDayDefault': 'P Char TimeSpec',
    'parseFileType': 'P Char FileType', 'parseFileTypes': 'P Char (List FileType)',
    'parsePartial': 'P Char PartialPermission', 'parsePermission': 'P Char Nat', 'parsePermCheck': 'P Char PermCheck',
    'parseSpecial': 'P Char FormatSpecial', 'parseField': 'P Char FormatField', 'parseFormat': 'P Char (List FormatElement)',
}
PF_DEFAULT = {'andLevel': True, 'orLevel': True, 'listLevel': True, 'notP': False, 'parensP': True, 'atomStep': True, 'parserTop': True,
              'parseFileTypes': True, 'parsePermission': True, 'parsePermCheck': True, 'parseFormat': True,
              'parseAction': True, 'parseTest': True, 'token': True, 'lex': True}

HEADER = '''import FindVerif.Gen.Support
/-
  GENERATED by tools/rs2lean.py from %s/src/find_parser/*.rs -- do not edit.
  One Lean combinator for each winnow combinator of the source, in source order.
  FindVerif/Tie.lean proves each definition equal to the hand-written model's.
-/
set_option maxRecDepth 4096
namespace FV.Gen
open FV FV.W

'''



# ------------------------------------------------------------------------------------------------
# tables: `match` functions of ast.rs / permission.rs / scheme/target_scheme.rs whose arms are constants
# ------------------------------------------------------------------------------------------------
def split_arms(toks):
    """toks = tokens between the braces of a `match`: list of (patterns, rhs) with patterns a list of token lists."""
    arms, i = [], 0
    while i < len(toks):
        # patterns up to '=>'
        j, depth = i, 0
        while not (toks[j].v == '=>' and depth == 0):
            if toks[j].k == 'p' and toks[j].v in OPEN: depth += 1
            if toks[j].k == 'p' and toks[j].v in CLOSE: depth -= 1
            j += 1
        pat_toks = toks[i:j]
        pats, cur, depth = [], [], 0
        for t in pat_toks:
            if t.k == 'p' and t.v in OPEN: depth += 1
            if t.k == 'p' and t.v in CLOSE: depth -= 1
            if t.k == 'p' and t.v == '|' and depth == 0:
                pats.append(cur); cur = []
            else: cur.append(t)
        pats.append(cur)
        # rhs: up to the comma at depth 0; an arm whose expression ends in a block needs no comma
        k, n = j + 1, len(toks)
        while k < n:
            t = toks[k]
            if t.k == 'p' and t.v in OPEN:
                k = match_close(toks, k) + 1
                if toks[k - 1].v == '}' and (k >= n or toks[k].v not in ('.', ',', '?')):
                    break
                continue
            if t.k == 'p' and t.v == ',':
                break
            k += 1
        rhs = toks[j + 1:k]
        i = k + 1 if k < n and toks[k].v == ',' else k
        arms.append((pats, rhs))
    return arms


def lean_pattern(pat):
    """Rust pattern `A::B`, `A::B(_)`, `A::B(x)`, `A::B(_, _)` -> (Lean pattern, bound variables)."""
    txt = text_of(pat)
    m = re.fullmatch(r'(\w+) :: (\w+)(?: \( (.*) \))?', txt)
    if not m: raise Untranslatable('pattern ' + txt)
    c = ctor([m.group(1), m.group(2)])
    if not c: raise Untranslatable('pattern constructor ' + txt)
    c = '.' + c.split('.', 1)[1]
    args = [a.strip() for a in m.group(3).split(',')] if m.group(3) else []
    args = [a for a in args if a]
    for a in args:
        if not re.fullmatch(r'\w+', a): raise Untranslatable('pattern argument ' + txt)
    return (c + ''.join(' ' + a for a in args), [a for a in args if a != '_'])


def flag_consts(repo):
    """`mod values` of permission_flags.rs: name -> value."""
    toks = tokenize(open(os.path.join(repo, 'src', 'permission_flags.rs')).read())
    out = {}
    for i, t in enumerate(toks):
        if t.k == 'id' and t.v == 'const' and toks[i + 1].k == 'id' and toks[i + 2].v == ':' and toks[i + 4].v == '=' and toks[i + 5].k == 'num':
            out[toks[i + 1].v] = int(toks[i + 5].v.replace('_', '').replace('0o', ''), 8) if toks[i + 5].v.startswith('0o') else int(toks[i + 5].v)
    return out


def flags_value(rhs, consts):
    """`Mode::A | Mode::B | SFlag::C` -> number, or None."""
    txt = text_of(rhs)
    parts = txt.split(' | ')
    v = 0
    for p_ in parts:
        m = re.fullmatch(r'(Mode|SFlag) :: (\w+)', p_.strip())
        if not m or m.group(2) not in consts: return None
        v |= consts[m.group(2)]
    return v


def string_rhs(rhs):
    """`"x"`, `"x".to_string()`, `String::from("x")`, `"x".to_owned()` -> the string, else None."""
    txt = [t for t in rhs]
    if len(txt) == 1 and txt[0].k == 'str': return txt[0].v
    if len(txt) == 5 and txt[0].k == 'str' and text_of(txt[1:]) in ('. to_string ( )', '. to_owned ( )'): return txt[0].v
    if len(txt) == 6 and text_of(txt[:4]) == 'String :: from (' and txt[4].k == 'str' and txt[5].v == ')': return txt[4].v
    return None


def option_text_arm(rhs, bound, model_fn, pat_lean, delegated):
    """rhs of an arm of a function into strings (None = refused) -> Lean `Option Text` term."""
    s_ = string_rhs(rhs)
    if s_ is not None:
        return 'some (%s)' % lean_cl(s_) if s_ else 'some []'
    txt = text_of(rhs)
    if txt.startswith('return Err (') or txt.startswith('{ return Err ('):
        return 'none'
    # match c { '@' => "x", _ => "y" }   (possibly followed by .to_string())
    if rhs and rhs[0].v == 'match' and rhs[1].k == 'id' and rhs[1].v in bound and rhs[2].v == '{':
        e = match_close(rhs, 2)
        rest = text_of(rhs[e + 1:])
        if rest in ('', '. to_string ( )'):
            arms = split_arms(rhs[3:e])
            if len(arms) == 2 and len(arms[0][0]) == 1 and len(arms[0][0][0]) == 1 and arms[0][0][0][0].k == 'chr' \
                    and text_of(arms[1][0][0]) in ('_',):
                a, b = string_rhs(arms[0][1]), string_rhs(arms[1][1])
                if a is not None and b is not None:
                    return 'if %s = %s then some (%s) else some (%s)' % (rhs[1].v, lean_char(arms[0][0][0][0].v), lean_cl(a), lean_cl(b))
    # anything else: the hand-written model's arm, fingerprinted by its token text
    delegated.append(txt)
    return '%s (%s)' % (model_fn, pat_lean)


def find_match(body, scrut, prefix=''):
    """index range (start of arms, end) of `match <scrut> {` in body.  The match must be the FIRST thing in the body
    (after the given prefix text): statements in front of it (an early return, a fast path) are not something this
    translator understands, so they make the item untranslatable instead of being skipped."""
    for i in range(len(body) - 2):
        if body[i].k == 'id' and body[i].v == 'match' and text_of(body[i + 1:i + 2]) == scrut and body[i + 2].v == '{':
            if prefix is not None and text_of(body[:i]) != prefix:
                raise Untranslatable('statements before `match %s`: %s' % (scrut, text_of(body[:i])[:200]))
            return i + 3, match_close(body, i + 2)
    raise Untranslatable('no match on ' + scrut)


# delegated arms: the token text the model's arm was transcribed from
TABLE_DELEGATED = {
    'literal': ["{ template_escape ( & char :: from_u32 ( * val as u32 ) . unwrap_or ( '0' ) . to_string ( ) ) }"],
    'snippet': [
        "match f { '@' => \"atime\" . to_string ( ) , f => format ! ( \"strftime \\\"%{}\\\" (localtime (atime))\" , scheme_escape ( & f . to_string ( ) ) ) , } . to_string ( )",
        "match f { '@' => \"ctime\" . to_string ( ) , f => format ! ( \"strftime \\\"%{}\\\" (localtime (ctime))\" , scheme_escape ( & f . to_string ( ) ) ) , }",
        "match f { '@' => \"mtime\" . to_string ( ) , f => format ! ( \"strftime \\\"%{}\\\" (localtime (mtime))\" , scheme_escape ( & f . to_string ( ) ) ) , }",
        "{ format ! ( \"or (xattr-ref-string \\\"{}\\\") \\\"\\\"\" , scheme_escape ( attr ) ) . to_owned ( ) }",
    ],
}
SNIPPET_TAIL = '; Ok ( ( ! snippet . is_empty ( ) ) . then ( move || format ! ( "({})" , snippet ) ) )'


def translate_tables(repo):
    out, report = [], {'translated': [], 'untranslated': {}, 'delegated_arms': {}, 'item_files': {}, 'def_files': {}}
    consts = flag_consts(repo)
    srcs = {}
    def items_of(rel):
        if rel not in srcs:
            srcs[rel] = {it.key: it for it in extract_items(os.path.join(repo, 'src', rel))}
        return srcs[rel]

    chunks = {}
    def emit(name, key, rel, fn):
        report['item_files'][key] = 'src/' + rel
        report['def_files'][name] = 'src/' + rel
        try:
            it = items_of(rel).get(key)
            if it is None: raise Untranslatable('item not found')
            chunks[name] = ['/-- `%s` (%s) -/' % (key, rel), fn(it) + '\n']
            report['translated'].append(key)
        except Exception as e:
            report['untranslated'][key] = '%s: %s' % (type(e).__name__, str(e)[:300])
            chunks[name] = ['-- UNTRANSLATED %s: %s' % (key, str(e).replace('\n', ' ')[:300])]

    def numeric_table(lean_name, ty, scrut='self'):
        def f(it):
            a, b = find_match(it.body, scrut)
            rows = []
            for pats, rhs in split_arms(it.body[a:b]):
                val = flags_value(rhs, consts)
                if val is None:
                    if not all(t.k == 'num' or (t.k == 'p' and t.v == '*') for t in rhs): raise Untranslatable('arm value ' + text_of(rhs))
                    val = ' '.join(t.v.replace('_', '') for t in rhs)
                rows.append('  | %s => %s' % (' | '.join(lean_pattern(p_)[0] for p_ in pats), val))
            return 'def %s : %s → Nat\n%s' % (lean_name, ty, '\n'.join(rows))
        return f
    emit('Size.mult', 'Size::mult', 'ast.rs', numeric_table('sizeMult', 'Size'))
    emit('TimeSpec.secs', 'TimeSpec::secs', 'ast.rs', numeric_table('timeSecs', 'TimeSpec'))
    emit('FileType.octal', 'FileType::octal', 'ast.rs', numeric_table('fileTypeOctal', 'FileType'))

    def perm_value(it):
        a, b = find_match(it.body, 'symbolic')
        rows, partial = [], False
        for pats, rhs in split_arms(it.body[a:b]):
            if len(pats) == 1 and len(pats[0]) == 1 and pats[0][0].k == 'chr':
                v = flags_value(rhs, consts)
                if v is None: raise Untranslatable('Permission::value arm ' + text_of(rhs))
                rows.append((pats[0][0].v, v))
            elif text_of(pats[0]) == '_' and text_of(rhs) == 'unreachable ! ( )':
                partial = True
            else: raise Untranslatable('Permission::value pattern')
        if not partial: raise Untranslatable('Permission::value default arm')
        return 'def permValue (c : Char) : Option Nat :=\n  ' + ''.join('if c = %s then some %d else ' % (lean_char(c), v) for c, v in rows) + 'none'
    emit('permValue', 'Permission::value', 'find_parser/permission.rs', perm_value)

    def option_table(lean_name, ty, scrut, model_fn, key, tail=None):
        def f(it):
            body = it.body
            a, b = find_match(body, scrut, 'let snippet =' if key == 'snippet' else ('Ok (' if key in ('literal', 'placeholder') else ''))
            if tail is not None and text_of(body[b + 1:]) != tail:
                raise Untranslatable('tail changed: ' + text_of(body[b + 1:]))
            rows, delegated = [], []
            for pats, rhs in split_arms(body[a:b]):
                lp = [lean_pattern(p_) for p_ in pats]
                bound = lp[0][1]
                if len(lp) > 1 and bound:
                    # or-pattern binding a variable: one Lean arm per alternative (the bound name is the same)
                    pass
                for (pl, bd) in lp:
                    rows.append('  | %s => %s' % (pl, option_text_arm(rhs, bd, model_fn, pl, delegated)))
            want = TABLE_DELEGATED.get(key, [])
            for d in delegated:
                if d not in want:
                    raise Untranslatable('arm is neither a constant nor the text the model was transcribed from: ' + d[:200])
            report['delegated_arms'][key] = len(delegated)
            return 'def %s : %s → Option Text\n%s' % (lean_name, ty, '\n'.join(rows))
        return f
    emit('specialLiteral', 'literal', 'scheme/target_scheme.rs', option_table('specialLiteral', 'FormatSpecial', 'special', 'FV.specialLiteral', 'literal'))
    emit('placeholder', 'placeholder', 'scheme/target_scheme.rs', option_table('placeholder', 'FormatField', 'field', 'FV.placeholder', 'placeholder'))
    emit('snippetBody', 'snippet', 'scheme/target_scheme.rs', option_table('snippetBody', 'FormatField', 'field', 'FV.snippetBody', 'snippet', SNIPPET_TAIL))

    # ---- impl TargetScheme for Test: one arm per constructor
    TEST_DELEGATED = [
        "{ let offending = | c : char | { \"*?['\" . contains ( c ) } ; let globbing = field . contains ( offending ) || value . contains ( offending ) ; let ( field , value ) = ( scheme_escape ( field ) , scheme_escape ( value ) ) ; if ! globbing { buffer . push_str ( & format ! ( \"(equal? (xattr-ref-string \\\"{field}\\\") \\\"{value}\\\")\" ) ) ; } else { buffer . push_str ( & format ! ( \"(xattr-match? \\\"{field}\\\" \\\"{value}\\\")\" ) ) ; } }",
        "return Err ( CompileError :: UnsupportedTest ( format ! ( \"{self:?}\" ) ) )",
    ]
    HELPERS = {'compile_perm_check': 'compilePermCheck', 'compile_size_comp': 'compileSizeComp', 'compile_type_list_comp': 'compileTypeList'}

    def fmt_text(fmt, args):
        """format!("..{}..", a, b) with arguments already translated -> Lean text expression."""
        pieces = fmt.split('{}')
        if len(pieces) != len(args) + 1: raise Untranslatable('format placeholders')
        parts = []
        for k, pc in enumerate(pieces):
            if pc: parts.append(lean_cl(pc))
            if k < len(args): parts.append(args[k])
        return ' ++ '.join(parts) if parts else '[]'

    def test_arm(rhs, bound):
        txt = text_of(rhs)
        m = re.fullmatch(r'compile_time_comp \( buffer , ("(?:[^"\\]|\\.)*") , & (\w+) \)', txt)
        if m and m.group(2) in bound:
            return 'timeT clk st (%s) %s' % (lean_cl(json.loads(m.group(1))), m.group(2))
        m = re.fullmatch(r'buffer \. push_str \( ("(?:[^"\\]|\\.)*") \)', txt)
        if m:
            return '.ok (%s, st)' % lean_cl(json.loads(m.group(1)))
        m = re.fullmatch(r'buffer \. push_str \( & format_cmp ! \( (\w+) , ("(?:[^"\\]|\\.)*") \) \)', txt)
        if m and m.group(1) in bound:
            return '.ok (formatCmp %s (%s), st)' % (m.group(1), lean_cl(json.loads(m.group(2))))
        m = re.fullmatch(r'buffer \. push_str \( & format ! \( ("(?:[^"\\]|\\.)*") , ctx \. get_matcher \( (\w+) , (true|false) \) \) \)', txt)
        if m and m.group(2) in bound:
            return 'matchT st (fun name => %s) %s %s' % (fmt_text(json.loads(m.group(1)), ['name']), m.group(2), m.group(3))
        m = re.fullmatch(r'buffer \. push_str \( & format ! \( ("(?:[^"\\]|\\.)*") , scheme_escape \( (\w+) \) \) \)', txt)
        if m and m.group(2) in bound:
            return '.ok (%s, st)' % fmt_text(json.loads(m.group(1)), ['schemeEscape %s' % m.group(2)])
        m = re.fullmatch(r'(\w+) \( buffer , &? ?(\w+) \)', txt)
        if m and m.group(1) in HELPERS and m.group(2) in bound:
            return '.ok (%s %s, st)' % (HELPERS[m.group(1)], m.group(2))
        return None

    def test_compile(it):
        a, b = find_match(it.body, 'self')
        if text_of(it.body[b + 1:]) != 'Ok ( ( ) )': raise Untranslatable('tail of Test::compile changed')
        rows, ndeleg = [], 0
        for pats, rhs in split_arms(it.body[a:b]):
            for p_ in pats:
                pl, bd = lean_pattern(p_)
                # unused bindings of delegated arms are fine in Lean
                r = test_arm(rhs, bd)
                if r is None:
                    if text_of(rhs) not in TEST_DELEGATED:
                        raise Untranslatable('arm of Test::compile is neither a known shape nor the text the model was transcribed from: ' + text_of(rhs)[:160])
                    ndeleg += 1
                    args = pl.split(' ')[1:]
                    names = ['a%d' % k for k in range(len(args))]
                    pl2 = ' '.join([pl.split(' ')[0]] + names)
                    r = 'FV.compileTest clk (%s) st' % pl2
                    pl = pl2
                rows.append('  | %s => %s' % (pl, r))
        report['delegated_arms']['Test::compile'] = ndeleg
        return ('def compileTest (clk : Nat → Nat) (t : Test) (st : CState) : CRes (Text × CState) :=\n  match t with\n%s' % '\n'.join(rows))
    emit('compileTest', 'Test::compile', 'scheme/target_scheme.rs', test_compile)

    # ---- format_cmp! (both arms), size_matching, compile_perm_check, impl TargetScheme for Action
    def fmt_named(fmt, env_):
        """format string with {} / {name} placeholders -> list of pieces: ('s', text) | ('v', index or name)"""
        out, i, k = [], 0, 0
        cur = ''
        while i < len(fmt):
            c = fmt[i]
            if c == '{' and i + 1 < len(fmt) and fmt[i + 1] == '{': cur += '{'; i += 2; continue
            if c == '}' and i + 1 < len(fmt) and fmt[i + 1] == '}': cur += '}'; i += 2; continue
            if c == '{':
                j = fmt.index('}', i)
                name = fmt[i + 1:j]
                if cur: out.append(('s', cur)); cur = ''
                if name == '': out.append(('v', k)); k += 1
                else: out.append(('v', name))
                i = j + 1; continue
            cur += c; i += 1
        if cur: out.append(('s', cur))
        return out

    def join_pieces(pieces, args):
        parts = []
        for kind, v in pieces:
            if kind == 's': parts.append(lean_cl(v))
            else:
                if isinstance(v, int):
                    if v >= len(args): raise Untranslatable('format arguments')
                    parts.append(args[v])
                else:
                    if v not in args_named: raise Untranslatable('format placeholder {%s}' % v)
                    parts.append(args_named[v])
        return ' ++ '.join(parts) if parts else '[]'
    args_named = {}

    def format_cmp(it):
        # macro_rules! format_cmp { ($cmp, $target) => { match $cmp {..} }; ($cmp, $lhs, $rhs) => { match $cmp {..} }; }
        toks = it.body
        raise Untranslatable('handled by format_cmp_arms')

    def macro_arms(rel, name):
        toks = tokenize(open(os.path.join(repo, 'src', rel)).read())
        for i, t in enumerate(toks):
            if t.k == 'id' and t.v == 'macro_rules' and toks[i + 1].v == '!' and toks[i + 2].v == name:
                ob = i + 3; cb = match_close(toks, ob)
                arms, k = [], ob + 1
                while k < cb:
                    pc = match_close(toks, k)
                    params = [x.v for j, x in enumerate(toks[k + 1:pc]) if x.k == 'id' and toks[k + j].v == '$']
                    assert toks[pc + 1].v == '=>'
                    bo = pc + 2; bc = match_close(toks, bo)
                    arms.append((params, toks[bo + 1:bc]))
                    k = bc + 1
                    if k < cb and toks[k].v == ';': k += 1
                return arms
        raise Untranslatable('macro %s not found' % name)

    def cmp_arm(lean_name, params, body, sig):
        # body: match $cmp { Comparison::X(n) => format!(FMT, A, B), ... }
        if text_of(body[:4]) != 'match $ %s {' % params[0]: raise Untranslatable('format_cmp arm head')
        e = match_close(body, 3)
        rows = []
        for pats, rhs in split_arms(body[4:e]):
            pl, bd = lean_pattern(pats[0])
            m = re.fullmatch(r'format ! \( ("(?:[^"\\]|\\.)*") , (.*) \)', text_of(rhs))
            if not m: raise Untranslatable('format_cmp arm value ' + text_of(rhs))
            fmt = json.loads(m.group(1))
            args = []
            for a in m.group(2).split(' , '):
                a = a.strip()
                mm = re.fullmatch(r'\$ (\w+) \( (\w+) \)', a)
                if mm and mm.group(2) in bd: args.append('%s %s' % (mm.group(1), mm.group(2)))
                elif re.fullmatch(r'\$ (\w+)', a): args.append(a.split(' ')[1])
                elif a in bd: args.append('nat ' + a)
                else: raise Untranslatable('format_cmp argument ' + a)
            rows.append('  | %s => %s' % (pl, join_pieces(fmt_named(fmt, None), args)))
        return 'def %s %s :=\n  match %s with\n%s' % (lean_name, sig, params[0], '\n'.join(rows))

    report['item_files']['format_cmp!'] = 'src/scheme/target_scheme.rs'
    report['def_files']['formatCmp'] = report['def_files']['formatCmp2'] = 'src/scheme/target_scheme.rs'
    try:
        arms = macro_arms('scheme/target_scheme.rs', 'format_cmp')
        if len(arms) != 2 or arms[0][0] != ['cmp', 'target'] or arms[1][0] != ['cmp', 'lhs', 'rhs']:
            raise Untranslatable('format_cmp! arms changed: %r' % [a[0] for a in arms])
        chunks['formatCmp'] = ['/-- `format_cmp!($cmp, $target)` (scheme/target_scheme.rs) -/',
            cmp_arm('formatCmp', arms[0][0], arms[0][1], '(cmp : Comparison Nat) (target : Text) : Text') + '\n',
            '/-- `format_cmp!($cmp, $lhs, $rhs)` (scheme/target_scheme.rs) -/',
            cmp_arm('formatCmp2', arms[1][0], arms[1][1], '{α : Type} (cmp : Comparison α) (lhs rhs : α → Text) : Text') + '\n']
        report['translated'].append('format_cmp!')
    except (Untranslatable, PErr, KeyError, IndexError, ValueError, AssertionError) as e:
        report['untranslated']['format_cmp!'] = '%s: %s' % (type(e).__name__, str(e)[:300])
        chunks['formatCmp'] = ['-- UNTRANSLATED format_cmp!: %s' % str(e)[:300]]

    def size_matching(it):
        a, b = find_match(it.body, 'size')
        rows = []
        for pats, rhs in split_arms(it.body[a:b]):
            sr = string_rhs(rhs)
            if sr is not None: val = lean_cl(sr)
            else:
                m = re.fullmatch(r'format ! \( ("(?:[^"\\]|\\.)*") , size \. mult \( \) \)', text_of(rhs))
                if not m: raise Untranslatable('size_matching arm ' + text_of(rhs))
                val = None; fmt = json.loads(m.group(1))
            for p_ in pats:
                pl, bd = lean_pattern(p_)
                if val is not None:
                    rows.append('  | %s => %s' % (pl, val))
                else:
                    pn = pl.replace('_', 'n')
                    rows.append('  | %s => %s' % (pn, join_pieces(fmt_named(fmt, None), ['nat (Size.mult (%s))' % pn])))
        return 'def sizeMatching : Size → Text\n%s' % '\n'.join(rows)
    emit('sizeMatching', 'size_matching', 'scheme/target_scheme.rs', size_matching)

    def perm_check(it):
        txt = text_of(it.body)
        m = re.fullmatch(r'let \( PermCheck :: Any \( p \) \| PermCheck :: AtLeast \( p \) \| PermCheck :: Equal \( p \) \) = check ; '
                         r'let perm_mask = \( (.*?) \) \. bits \( \) ; let perm = p \. 0 \. bits \( \) ; '
                         r'let code = match check \{ (.*) \} ; buffer \. push_str \( & code \)', txt)
        if not m: raise Untranslatable('compile_perm_check shape changed')
        a, b = find_match(it.body, 'check', None)   # the whole body was matched against its shape above
        mask_toks = []
        # tokens of the mask expression
        i0 = [i for i, t in enumerate(it.body) if t.k == 'id' and t.v == 'perm_mask'][0]
        j0 = i0 + 3
        j1 = match_close(it.body, i0 + 2)
        mask = flags_value(it.body[j0:j1], consts)
        if mask is None: raise Untranslatable('perm_mask expression')
        rows = []
        for pats, rhs in split_arms(it.body[a:b]):
            pl, bd = lean_pattern(pats[0])
            mm = re.fullmatch(r'format ! \( ("(?:[^"\\]|\\.)*") , (.*) \)', text_of(rhs))
            if not mm: raise Untranslatable('compile_perm_check arm ' + text_of(rhs))
            args = []
            for x in mm.group(2).split(' , '):
                x = x.strip()
                if x == 'perm_mask': args.append('nat %d' % mask)
                elif x == 'perm': args.append('nat perm')
                else: raise Untranslatable('compile_perm_check argument ' + x)
            rows.append('  | %s => %s' % (pl.replace(' p', ' perm'), join_pieces(fmt_named(json.loads(mm.group(1)), None), args)))
        return 'def compilePermCheck : PermCheck → Text\n%s' % '\n'.join(rows)
    emit('compilePermCheck', 'compile_perm_check', 'scheme/target_scheme.rs', perm_check)

    ACTION_DELEGATED = ['{ return Err ( CompileError :: UnsupportedAction ( format ! ( "{self:?}" ) ) ) ; }']
    def opt_char(txt):
        m = re.fullmatch(r"Some \( ('(?:[^'\\]|\\.)+') \)", txt)
        if txt == 'None': return 'none'
        if m:
            lit = m.group(1)[1:-1]
            ch = {'\\n': '\n', '\\0': '\0', '\\x00': '\0', '\\t': '\t', '\\r': '\r'}.get(lit, lit)
            return '(some %s)' % lean_char(ch)
        raise Untranslatable('terminator ' + txt)

    def getter(txt, bd):
        m = re.fullmatch(r'ctx \. get_printer \( (.*) \)', txt)
        if m: return 'st.mgr.getPrinter %s' % opt_char(m.group(1))
        m = re.fullmatch(r'ctx \. get_file_printer \( (\w+) , (.*) \)', txt)
        if m and m.group(1) in bd: return 'st.mgr.getFilePrinter %s %s' % (m.group(1), opt_char(m.group(2)))
        raise Untranslatable('printer request ' + txt)

    def action_arm(rhs, bd):
        txt = text_of(rhs)
        m = re.fullmatch(r'buffer \. push_str \( ("(?:[^"\\]|\\.)*") \)', txt)
        if m: return '.ok (%s, st)' % lean_cl(json.loads(m.group(1)))
        m = re.fullmatch(r'\{ let printer = ([^;]*?) ; buffer \. push_str \( & format ! \( ("(?:[^"\\]|\\.)*") \) \)(?: ;)? \}', txt)
        if m:
            args_named.clear(); args_named['printer'] = 'printer'
            return 'viaT st (fun printer => %s) (%s)' % (join_pieces(fmt_named(json.loads(m.group(2)), None), []), getter(m.group(1), bd))
        m = re.fullmatch(r'\{ let printer = ([^;]*?) ; buffer \. push_str \( & format ! \( ("(?:[^"\\]|\\.)*") \) \) ; (\w+) \. compile \( buffer , ctx \) \? ; '
                         r'buffer \. push_str \( & format ! \( ("(?:[^"\\]|\\.)*") \) \) ; \}', txt)
        if m and m.group(3) in bd:
            args_named.clear(); args_named['printer'] = 'printer'
            pre = join_pieces(fmt_named(json.loads(m.group(2)), None), [])
            post = join_pieces(fmt_named(json.loads(m.group(4)), None), [])
            return 'viaFormatT st (fun printer f => %s ++ f ++ %s) (%s) %s' % (pre, post, getter(m.group(1), bd), m.group(3))
        return None

    def action_compile(it):
        a, b = find_match(it.body, 'self')
        if text_of(it.body[b + 1:]) != 'Ok ( ( ) )': raise Untranslatable('tail of Action::compile changed')
        rows, ndeleg = [], 0
        for pats, rhs in split_arms(it.body[a:b]):
            for p_ in pats:
                pl, bd = lean_pattern(p_)
                r = action_arm(rhs, bd)
                if r is None:
                    if text_of(rhs) not in ACTION_DELEGATED:
                        raise Untranslatable('arm of Action::compile is neither a known shape nor the text the model was transcribed from: ' + text_of(rhs)[:200])
                    ndeleg += 1
                    args = pl.split(' ')[1:]
                    names = ['a%d' % k for k in range(len(args))]
                    pl = ' '.join([pl.split(' ')[0]] + names)
                    r = 'FV.compileAction (%s) st' % pl
                rows.append('  | %s => %s' % (pl, r))
        report['delegated_arms']['Action::compile'] = ndeleg
        return ('def compileAction (a : Action) (st : CState) : CRes (Text × CState) :=\n  match a with\n%s' % '\n'.join(rows))
    emit('compileAction', 'Action::compile', 'scheme/target_scheme.rs', action_compile)

    # ---- CompiledExpression::scheme: the program template
    def camel(x):
        parts = x.split('_')
        return parts[0] + ''.join(w.capitalize() for w in parts[1:])

    def scheme_fn(it):
        txt = text_of(it.body)
        m = re.fullmatch(r'let mdt = manager :: scheme_escape \( mdt \. as_ref \( \) \) ; format ! \( ("(?:[^"\\]|\\.)*") , (.*?) ,? \)', txt)
        if not m: raise Untranslatable('scheme() shape changed')
        fmt = json.loads(m.group(1))
        args = []
        for a in m.group(2).split(' , '):
            mm = re.fullmatch(r'self \. (\w+)', a.strip())
            if not mm: raise Untranslatable('scheme() argument ' + a)
            args.append('c.' + camel(mm.group(1)))
        args_named.clear(); args_named['mdt'] = 'schemeEscape mdt'
        return 'def scheme (c : Compiled) (mdt : Text) : Text :=\n  ' + join_pieces(fmt_named(fmt, None), args)
    emit('scheme', 'CompiledExpression::scheme', 'scheme/mod.rs', scheme_fn)

    # ---- scheme::compile: which manager, whether the default print is added, the options text (skeleton with holes)
    def compile_fn(it):
        txt = text_of(it.body)
        pat = (r'let mut policy_body = String :: new \( \) ; '
               r'let mut manager : Box < dyn SchemeManager > = if (?P<mcond>!? ?exp \. complex_frames \( \)) \{ Box :: new \( (?P<m1>\w+) :: default \( \) \) \} else \{ Box :: new \( (?P<m2>\w+) :: default \( \) \) \} ; '
               r'let target = if (?P<tcond>!? ?exp \. action \( \)) \{ (?P<t1>.*?) \} else \{ (?P<t2>.*?) \} ; '
               r'target \. compile \( & mut policy_body , & mut \* manager \) \? ; '
               r'let options = options \. threads \. and_then \( \| c \| Some \( c \. to_string \( \) \) \) \. unwrap_or \( String :: from \( (?P<dflt>"(?:[^"\\]|\\.)*") \) \) ; '
               r'Ok \( CompiledExpression \{ policy_body , options , modules : manager \. modules \( \) \. into \( \) , definitions : manager \. definitions \( \) , '
               r'initialization : manager \. initialization \( \) , terminate : manager \. terminate \( \) , io_map : manager \. printer_map \( \) , \} \)')
        m = re.fullmatch(pat, txt)
        if not m: raise Untranslatable('compile() does not have the shape the model was transcribed from')
        mgrs = {'DistributedSchemeManager': 'Manager.distInit', 'LocalSchemeManager': 'Manager.localInit'}
        def cond(c, what):
            neg = c.startswith('!')
            return ('!' if neg else '') + what
        def tgt(t):
            t = t.strip()
            if t == 'exp . clone ( )': return 'e'
            if t == 'Expression :: Operator ( Rc :: new ( Operator :: And ( exp . clone ( ) , Expression :: Action ( Action :: DefaultPrint ) , ) ) )':
                return 'Expr.and e (.action .defaultPrint)'
            raise Untranslatable('compile() target branch ' + t)
        if m.group('m1') not in mgrs or m.group('m2') not in mgrs: raise Untranslatable('compile() manager')
        return ('def compile (clk : Nat → Nat) (e : Expr) (o : RunOptions) : CRes Compiled :=\n'
                '  let mgr := if %s then %s else %s\n'
                '  let target := if %s then %s else %s\n'
                '  match compileExpr clk target { mgr := mgr } with\n'
                '  | .err x => .err x\n  | .panic s => .panic s\n'
                '  | .ok (body, st) =>\n'
                '    .ok { policyBody := body,\n'
                '          options := match o.threads with\n            | some c => nat c\n            | none => %s,\n'
                '          modules := st.mgr.modules, definitions := st.mgr.definitions, initialization := st.mgr.initialization,\n'
                '          terminate := st.mgr.terminate, ioMap := st.mgr.printerMap }'
                % (cond(m.group('mcond'), 'complexFrames e'), mgrs[m.group('m1')], mgrs[m.group('m2')],
                   cond(m.group('tcond'), 'hasAction e'), tgt(m.group('t1')), tgt(m.group('t2')), lean_cl(json.loads(m.group('dflt')))))

    # ---- Expression::action / Expression::complex_frames (ast.rs): recursive match functions over the tree
    OPMAP = {'Precedence': '.prec', 'Not': '.not', 'And': '.and', 'Or': '.or', 'List': '.list'}
    PF_DELEG = ("{ format . last ( ) . is_some_and ( | el : & FormatElement | { ! matches ! ( el , FormatElement :: Special ( FormatSpecial :: Newline ) ) } ) }")

    def bool_rhs(rhs, fname):
        out_ = []
        i = 0
        if rhs and rhs[0].v == '{' and rhs[-1].v == '}' and match_close(rhs, 0) == len(rhs) - 1:
            rhs = rhs[1:-1]
        while i < len(rhs):
            t = rhs[i]
            if t.k == 'id' and i + 4 < len(rhs) + 1 and text_of(rhs[i + 1:i + 5]) in ('. action ( )', '. complex_frames ( )'):
                meth = rhs[i + 2].v
                out_.append('(%s %s)' % ('hasAction' if meth == 'action' else 'complexFrames', t.v)); i += 5; continue
            if t.k == 'id' and t.v in ('true', 'false'): out_.append(t.v); i += 1; continue
            if t.k == 'p' and t.v == '||': out_.append('||'); i += 1; continue
            raise Untranslatable('boolean expression ' + text_of(rhs))
        return ' '.join(out_)

    def op_pattern(pat):
        m = re.fullmatch(r'Operator :: (\w+) \( (.*) \)', text_of(pat))
        if not m or m.group(1) not in OPMAP: raise Untranslatable('operator pattern ' + text_of(pat))
        return OPMAP[m.group(1)] + ''.join(' ' + a.strip() for a in m.group(2).split(','))

    def tree_fn(lean_name, fname):
        def f(it):
            a, b = find_match(it.body, 'self')
            if it.body[b + 1:]: raise Untranslatable('tail')
            rows = []
            for pats, rhs in split_arms(it.body[a:b]):
                ptxt = text_of(pats[0])
                if len(pats) == 1 and ptxt == '_':
                    rows.append('  | _ => %s' % bool_rhs(rhs, fname)); continue
                m = re.fullmatch(r'Expression :: (\w+) \( (\w+) \)', ptxt)
                if not m or len(pats) != 1: raise Untranslatable('tree pattern ' + ptxt)
                kind, var = m.group(1), m.group(2)
                if kind == 'Operator':
                    if text_of(rhs[:7]) != 'match %s . as_ref ( ) {' % var: raise Untranslatable('operator arm')
                    e = match_close(rhs, 6)
                    for ipats, irhs in split_arms(rhs[7:e]):
                        rows.append('  | %s => %s' % (' | '.join(op_pattern(p_) for p_ in ipats), bool_rhs(irhs, fname)))
                elif kind == 'Action':
                    if rhs and rhs[0].v == 'match':
                        if text_of(rhs[:3]) != 'match %s {' % var: raise Untranslatable('action arm')
                        e = match_close(rhs, 2)
                        inner = []
                        for ipats, irhs in split_arms(rhs[3:e]):
                            if len(ipats) == 1 and text_of(ipats[0]) == '_':
                                inner.append('    | _ => %s' % bool_rhs(irhs, fname)); continue
                            lps = [lean_pattern(p_) for p_ in ipats]
                            if text_of(irhs) in ('true', 'false'):
                                inner.append('    | %s => %s' % (' | '.join(l[0] for l in lps), text_of(irhs)))
                            elif text_of(irhs) == PF_DELEG and len(lps) == 1:
                                inner.append('    | %s => FV.Action.complexFrames (%s)' % (lps[0][0], lps[0][0]))
                                report['delegated_arms'][fname] = report['delegated_arms'].get(fname, 0) + 1
                            else:
                                raise Untranslatable('action arm value ' + text_of(irhs)[:200])
                        rows.append('  | .action %s =>\n    match %s with\n%s' % (var, var, '\n'.join(inner)))
                    else:
                        rows.append('  | .action %s => %s' % (var, bool_rhs(rhs, fname)))
                else:
                    raise Untranslatable('tree pattern kind ' + kind)
            return 'def %s : Expr → Bool\n%s' % (lean_name, '\n'.join(rows))
        return f
    emit('hasAction', 'Expression::action', 'ast.rs', tree_fn('hasAction', 'Expression::action'))
    emit('complexFrames', 'Expression::complex_frames', 'ast.rs', tree_fn('complexFrames', 'Expression::complex_frames'))

    # ---- impl TargetScheme for Expression / Operator: the recursive code generator
    def stmt_seq(rhs, vars_):
        """{ push_str("a"); x.compile(buffer, ctx)?; push_str("b"); ... } -> list of ('s', text) | ('c', var)"""
        if not (rhs and rhs[0].v == '{' and rhs[-1].v == '}'): raise Untranslatable('operator arm is not a block')
        txt = text_of(rhs[1:-1])
        out_ = []
        for st_ in [x.strip() for x in txt.split(' ; ') if x.strip().rstrip(';').strip()]:
            st_ = st_.rstrip(';').strip()
            m = re.fullmatch(r'buffer \. push_str \( ("(?:[^"\\]|\\.)*") \)', st_)
            if m: out_.append(('s', json.loads(m.group(1)))); continue
            m = re.fullmatch(r'(\w+) \. compile \( buffer , ctx \) \?', st_)
            if m and m.group(1) in vars_: out_.append(('c', m.group(1))); continue
            raise Untranslatable('operator statement ' + st_)
        return out_

    def expr_compile(_it):
        its = items_of('scheme/target_scheme.rs')
        op, ex = its.get('Operator::compile'), its.get('Expression::compile')
        if op is None or ex is None: raise Untranslatable('Operator::compile / Expression::compile not found')
        rows = []
        # Expression::compile: dispatch
        a, b = find_match(ex.body, 'self')
        if ex.body[b + 1:]: raise Untranslatable('Expression::compile tail')
        disp = {}
        for pats, rhs in split_arms(ex.body[a:b]):
            m = re.fullmatch(r'Expression :: (\w+) \( (\w+) \)', text_of(pats[0]))
            if not m or len(pats) != 1: raise Untranslatable('Expression::compile pattern')
            disp[m.group(1)] = (m.group(2), text_of(rhs))
        want = {'Test': '%s . compile ( buffer , ctx )', 'Action': '%s . compile ( buffer , ctx )',
                'Operator': '%s . as_ref ( ) . compile ( buffer , ctx )', 'Positional': '%s . compile ( buffer , ctx )'}
        for k_, w_ in want.items():
            if k_ not in disp or disp[k_][1] != w_ % disp[k_][0]: raise Untranslatable('Expression::compile arm ' + k_)
        if disp.get('Global', ('', ''))[1] != 'unreachable ! ( )': raise Untranslatable('Expression::compile Global arm')
        pos = its.get('PositionalOption::compile')
        if pos is None or text_of(pos.body) != 'Err ( CompileError :: UnsupportedOption ( format ! ( "{self:?}" ) ) )':
            raise Untranslatable('PositionalOption::compile changed')
        rows.append('  | .test t, st => compileTest clk t st')
        rows.append('  | .action a, st => compileAction a st')
        rows.append('  | .positional p, st => FV.compileExpr clk (.positional p) st')
        rows.append('  | .global _, _ => .panic (%s)' % lean_cl('target_scheme.rs:unreachable-global'))
        # Operator::compile
        a, b = find_match(op.body, 'self')
        if text_of(op.body[b + 1:]) != 'Ok ( ( ) )': raise Untranslatable('Operator::compile tail')
        for pats, rhs in split_arms(op.body[a:b]):
            if text_of(rhs) == 'unreachable ! ( )':
                for p_ in pats:
                    pl = op_pattern(p_)
                    rows.append('  | %s, _ => .panic (%s)' % (' '.join([pl.split(' ')[0]] + ['_'] * (len(pl.split(' ')) - 1)), lean_cl('target_scheme.rs:unreachable-precedence')))
                continue
            for p_ in pats:
                pl = op_pattern(p_)
                vars_ = pl.split(' ')[1:]
                seq = stmt_seq(rhs, vars_)
                shape = ''.join(k for k, _ in seq)
                if shape == 'scs' and len(vars_) == 1:
                    rows.append('  | %s, st => seq1 (%s) (%s) (compileExpr clk %s st)' % (pl, lean_cl(seq[0][1]), lean_cl(seq[2][1]), seq[1][1]))
                elif shape == 'scscs' and len(vars_) == 2 and seq[1][1] == vars_[0] and seq[3][1] == vars_[1]:
                    rows.append('  | %s, st => seq2 (%s) (%s) (%s) (compileExpr clk %s st) (compileExpr clk %s)'
                                % (pl, lean_cl(seq[0][1]), lean_cl(seq[2][1]), lean_cl(seq[4][1]), vars_[0], vars_[1]))
                else:
                    raise Untranslatable('operator arm shape ' + shape)
        report['delegated_arms']['Expression::compile'] = 1
        return 'def compileExpr (clk : Nat → Nat) : Expr → CState → CRes (Text × CState)\n%s' % '\n'.join(rows)
    emit('compileExpr', 'Expression::compile', 'scheme/target_scheme.rs', expr_compile)
    emit('compile', 'compile', 'scheme/mod.rs', compile_fn)

    # ---- error.rs: explain table, SyntaxContext::new fold step, the dispatch decision; lib.rs: RunOptions::update
    def explain_fn(it):
        body = it.body
        a, b = find_match(body, 'error_reference')
        if text_of(body[b + 1:]) != '. into ( )': raise Untranslatable('explain tail')
        rows, dflt = [], False
        for pats, rhs in split_arms(body[a:b]):
            if len(pats) == 1 and len(pats[0]) == 1 and pats[0][0].k == 'str' and len(rhs) == 1 and rhs[0].k == 'str':
                rows.append('(%s, %s)' % (lean_cl(pats[0][0].v), lean_cl(rhs[0].v)))
            elif len(pats) == 1 and len(pats[0]) == 1 and pats[0][0].k == 'id' and text_of(rhs) == pats[0][0].v:
                dflt = True
            else: raise Untranslatable('explain arm ' + text_of(pats[0]))
        if not dflt: raise Untranslatable('explain default arm')
        return 'def explainTable : List (Text × Text) :=\n  [ %s ]' % ',\n    '.join(rows)
    emit('explainTable', 'explain', 'find_parser/error.rs', explain_fn)

    def step_fn(it):
        txt = text_of(it.body)
        m = re.fullmatch(r'raw \. iter \( \) \. fold \( Self :: default \( \) , \| mut acc , ctx \| \{ match ctx \{ (.*) \} ; acc \} \)', txt)
        if not m: raise Untranslatable('SyntaxContext::new shape changed')
        a, b = find_match(it.body, 'ctx', None)     # the whole body was matched against its shape above
        label_rows, exp_row = [], None
        for pats, rhs in split_arms(it.body[a:b]):
            pt = text_of(pats[0])
            rt = text_of(rhs).strip()
            if rt.startswith('{') and rt.endswith('}'): rt = rt[1:-1].strip()
            mm = re.fullmatch(r'StrContext :: Label \( s \) if (.*)', pt)
            if mm:
                g = mm.group(1)
                m1 = re.fullmatch(r'\* s == ("(?:[^"\\]|\\.)*")', g)
                m2 = re.fullmatch(r'acc \. expecting_(\w+) \( \)', g)
                if m1: cnd = 's = %s' % lean_cl(json.loads(m1.group(1)))
                elif m2: cnd = 'expecting acc.%s' % m2.group(1)
                else: raise Untranslatable('guard ' + g)
                a1 = re.fullmatch(r'acc \. (\w+) = Some \( String :: new \( \) \)', rt)
                a2 = re.fullmatch(r'acc \. (\w+) = Some \( String :: from \( \* s \) \)', rt)
                if a1: act = '{ acc with %s := some [] }' % a1.group(1)
                elif a2: act = '{ acc with %s := some s }' % a2.group(1)
                else: raise Untranslatable('assignment ' + rt)
                label_rows.append((cnd, act))
            elif pt == 'StrContext :: Expected ( StrContextValue :: Description ( d ) )':
                a3 = re.fullmatch(r'acc \. (\w+) = Some \( String :: from \( \* d \) \)', rt)
                if not a3: raise Untranslatable('assignment ' + rt)
                exp_row = '{ acc with %s := some d }' % a3.group(1)
            elif pt == '_' and rt == '( )':
                pass
            else: raise Untranslatable('fold arm ' + pt)
        if exp_row is None: raise Untranslatable('Expected arm missing')
        chain = ''.join('if %s then %s\n    else ' % (c, a_) for c, a_ in label_rows) + 'acc'
        return ('def contextStep (acc : SyntaxContext) (c : Ctx) : SyntaxContext :=\n  match c with\n  | .label s =>\n    %s\n  | .expected d => %s' % (chain, exp_row))
    emit('contextStep', 'SyntaxContext::new', 'find_parser/error.rs', step_fn)

    def dispatch_fn(it):
        txt = text_of(it.body)
        head = ('let mut context_list = ctxerr . context ( ) . collect :: < Vec < _ > > ( ) ; context_list . reverse ( ) ; '
                'let context = SyntaxContext :: new ( & context_list ) ; '
                'let next = String :: parse . parse_next ( input ) . unwrap_or ( String :: from ( "" ) ) ; '
                'match ( context . test , context . action , context . global , context . description , ) {')
        if not txt.startswith(head) or not txt.endswith('} . into ( )'): raise Untranslatable('dispatch shape changed')
        # the decision table
        i0 = [i for i, t in enumerate(it.body) if t.k == 'id' and t.v == 'match'][0]
        ob = [i for i in range(i0, len(it.body)) if it.body[i].v == '{'][0]
        cb = match_close(it.body, ob)
        rows = []
        for pats, rhs in split_arms(it.body[ob + 1:cb]):
            pt = text_of(pats[0])
            if pt == '_': lp = '_, _, _, _'
            else:
                mm = re.fullmatch(r'\( (.*) \)', pt)
                comps = [c.strip() for c in mm.group(1).split(',')]
                def comp(c):
                    if c == '_': return '_'
                    if c == 'None': return 'none'
                    m3 = re.fullmatch(r'Some \( (\w+) \)', c)
                    if m3: return 'some ' + m3.group(1)
                    raise Untranslatable('dispatch pattern ' + c)
                lp = ', '.join(comp(c) for c in comps)
            m4 = re.fullmatch(r'SyntaxError :: (\w+) \( (.*) \)', text_of(rhs))
            if not m4: raise Untranslatable('dispatch value ' + text_of(rhs))
            args = []
            for x in m4.group(2).split(' , '):
                x = x.strip()
                m5 = re.fullmatch(r'explain \( & (\w+) \)', x)
                args.append('(explain %s)' % m5.group(1) if m5 else x)
            rows.append('  | %s => .%s %s' % (lp, lower_first(m4.group(1)), ' '.join(args)))
        return ('def dispatchDecision (test action global description : Option Text) (next : Text) : ParseError :=\n  match test, action, global, description with\n%s' % '\n'.join(rows))
    emit('dispatchDecision', 'ParserError::dispatch', 'find_parser/error.rs', dispatch_fn)

    def update_fn(it):
        a, b = find_match(it.body, 'option')
        if it.body[b + 1:]: raise Untranslatable('update tail')
        rows = []
        for pats, rhs in split_arms(it.body[a:b]):
            pt, rt = text_of(pats[0]), text_of(rhs)
            if pt == 'ast :: GlobalOption :: Depth' and rt == 'self . depth = true': rows.append('  | .depth => some { o with depth := true }')
            elif pt == 'ast :: GlobalOption :: Threads ( value )' and rt == 'self . threads = Some ( * value )': rows.append('  | .threads value => some { o with threads := some value }')
            elif pt == '_' and rt == 'unreachable ! ( )': rows.append('  | _ => none')
            else: raise Untranslatable('update arm %s => %s' % (pt, rt))
        return 'def runOptionsUpdate (o : RunOptions) : GlobalOption → Option RunOptions\n%s' % '\n'.join(rows)
    emit('runOptionsUpdate', 'RunOptions::update', 'lib.rs', update_fn)

    # ---- manager.rs: scheme_escape, is_pattern, terminator_escape; target_scheme.rs: template_escape
    def fmt_spec_pieces(fmt, args):
        """format string with {} {:x} {:02x} placeholders; args are Lean NUMBER expressions for hex specs, texts for {}."""
        out_, i, k, cur = [], 0, 0, ''
        while i < len(fmt):
            if fmt[i] == '{':
                j = fmt.index('}', i); spec = fmt[i + 1:j]
                if cur: out_.append(lean_cl(cur)); cur = ''
                if spec == ':x': out_.append('natToHex (%s)' % args[k])
                elif spec == ':02x': out_.append('natToHex02 (%s)' % args[k])
                elif spec == '': out_.append(args[k])
                else: raise Untranslatable('format spec {%s}' % spec)
                k += 1; i = j + 1
            else: cur += fmt[i]; i += 1
        if cur: out_.append(lean_cl(cur))
        return ' ++ '.join(out_)

    def scheme_escape_fn(it):
        txt = text_of(it.body)
        m = re.fullmatch(r'let mut out = String :: with_capacity \( input \. len \( \) \) ; for c in input \. chars \( \) \{ match c \{ (.*) \} \} out', txt)
        if not m: raise Untranslatable('scheme_escape shape changed')
        a, b = find_match(it.body, 'c', None)       # the whole body was matched against its shape above
        rows, last = [], None
        for pats, rhs in split_arms(it.body[a:b]):
            pt, rt = text_of(pats[0]), text_of(rhs)
            mp = re.fullmatch(r'out \. push_str \( ("(?:[^"\\]|\\.)*") \)', rt)
            if len(pats[0]) == 1 and pats[0][0].k == 'chr' and mp:
                rows.append(('c = %s' % lean_char(pats[0][0].v), lean_cl(json.loads(mp.group(1)))))
            elif pt == 'c if c . is_control ( )':
                mf = re.fullmatch(r'out \. push_str \( & format ! \( ("(?:[^"\\]|\\.)*") , c as u32 \) \)', rt)
                if not mf: raise Untranslatable('control arm ' + rt)
                rows.append(('isControl c', fmt_spec_pieces(json.loads(mf.group(1)), ['c.toNat'])))
            elif pt == 'c' and rt == 'out . push ( c )':
                last = '[c]'
            else: raise Untranslatable('scheme_escape arm ' + pt)
        if last is None: raise Untranslatable('scheme_escape default arm')
        return ('def escapeChar (c : Char) : Text :=\n  ' + ''.join('if %s then %s\n  else ' % r_ for r_ in rows) + last +
                '\n\n/-- the `for c in input.chars()` loop -/\ndef schemeEscape (s : Text) : Text := s.flatMap escapeChar')
    emit('schemeEscape', 'scheme_escape', 'scheme/manager.rs', scheme_escape_fn)

    def is_pattern_fn(it):
        m = re.fullmatch(r"input \. contains \( ('.') \) \| input \. contains \( ('.') \) \| input \. contains \( ('.') \)", text_of(it.body))
        if not m: raise Untranslatable('is_pattern shape changed')
        return 'def isPattern (s : Text) : Bool := ' + ' || '.join("containsChar s %s" % g for g in m.groups())
    emit('isPattern', 'is_pattern', 'scheme/manager.rs', is_pattern_fn)

    def term_escape_fn(it):
        a, b = find_match(it.body, 'terminator')
        rows = []
        for pats, rhs in split_arms(it.body[a:b]):
            pt, rt = text_of(pats[0]), text_of(rhs)
            if pt == 'None' and string_rhs(rhs) is not None: rows.append('  | none => %s' % lean_cl(string_rhs(rhs)))
            elif pt == 'Some ( value )':
                mf = re.fullmatch(r'format ! \( ("(?:[^"\\]|\\.)*") , value as u8 \)', rt)
                if not mf: raise Untranslatable('terminator arm ' + rt)
                rows.append('  | some value => %s' % fmt_spec_pieces(json.loads(mf.group(1)), ['value.toNat % 256']))
            else: raise Untranslatable('terminator pattern ' + pt)
        return 'def terminatorEscape : Option Char → Text\n' + '\n'.join(rows)
    emit('terminatorEscape', 'terminator_escape', 'scheme/manager.rs', term_escape_fn)

    def template_escape_fn(it):
        if text_of(it.body) != "scheme_escape ( input ) . replace ( '~' , \"~~\" )": raise Untranslatable('template_escape changed')
        return 'def templateEscape (s : Text) : Text := FV.replaceTilde (schemeEscape s)'
    emit('templateEscape', 'template_escape', 'scheme/target_scheme.rs', template_escape_fn)

    # ---- manager.rs: the text of every binding pushed onto `vars` / `fini`, with the index expression used at each
    #      site, the matcher-name table, the generated names, the separators and the fixed bindings of the framed manager
    MGR = 'scheme/manager.rs'
    def find_formats(body):
        """all `format ! ( "T" [, args] )` in a token list: (template, [arg token lists])"""
        res, i = [], 0
        while i < len(body) - 3:
            if body[i].k == 'id' and body[i].v == 'format' and body[i + 1].v == '!' and body[i + 2].v == '(' and body[i + 3].k == 'str':
                e = match_close(body, i + 2)
                args, cur, depth = [], [], 0
                for t in body[i + 4:e]:
                    if t.k == 'p' and t.v in OPEN: depth += 1
                    if t.k == 'p' and t.v in CLOSE: depth -= 1
                    if t.k == 'p' and t.v == ',' and depth == 0:
                        if cur: args.append(cur)
                        cur = []
                    else: cur.append(t)
                if cur: args.append(cur)
                res.append((body[i + 3].v, args)); i = e + 1
            else: i += 1
        return res

    ARG = {'self . var_index': 'natToDec i', 'self . var_index + 1': 'natToDec (i + 1)', 'port . port': 'natToDec p', 'port . mutex': 'natToDec m',
           'terminator_escape ( terminator )': 'terminatorEscape term', 'scheme_escape ( & filename )': 'schemeEscape filename'}
    NAMED = {'matcher': 'matcherName pattern insensitive', 'escaped': 'schemeEscape pattern', 'index': 'natToDec index', 'index:02x': 'natToHex02 index',
             'printer_index': 'natToDec i'}

    def tpl(fmt, args):
        out_, i, k, cur = [], 0, 0, ''
        while i < len(fmt):
            if fmt[i] == '{':
                j = fmt.index('}', i); name = fmt[i + 1:j]
                if cur: out_.append(lean_cl(cur)); cur = ''
                if name == '':
                    a = text_of(args[k]); k += 1
                    if a not in ARG: raise Untranslatable('binding argument ' + a)
                    out_.append(ARG[a])
                elif name in NAMED: out_.append(NAMED[name])
                else: raise Untranslatable('binding placeholder {%s}' % name)
                i = j + 1
            else: cur += fmt[i]; i += 1
        if cur: out_.append(lean_cl(cur))
        if k != len(args): raise Untranslatable('binding argument count')
        return ' ++ '.join(out_)

    def site(key, n, pushes=('vars',)):
        it = items_of(MGR).get(key)
        if it is None: raise Untranslatable(key + ' not found')
        fs = find_formats(it.body)
        if len(fs) != n: raise Untranslatable('%s: %d templates, expected %d' % (key, len(fs), n))
        return it, [tpl(f, a) for f, a in fs]

    def bindings(_it):
        L = []
        it, t = site('LocalSchemeManager::init_default_port', 2)
        if 'self . vars . push ( format' not in text_of(it.body): raise Untranslatable('init_default_port')
        L.append('/-- `LocalSchemeManager::init_default_port`: the two bindings pushed at index `i` -/\ndef localDefaultPortVars (i : Nat) : List Text :=\n  [%s,\n   %s]\n' % (t[0], t[1]))
        it, t = site('LocalSchemeManager::register_printer', 1)
        L.append('/-- `LocalSchemeManager::register_printer` -/\ndef localPrinterVar (i p m : Nat) (term : Option Char) : Text :=\n  %s\n' % t[0])
        it, t = site('LocalSchemeManager::init_file_port', 3)
        bt = text_of(it.body)
        if not (bt.index('self . vars . push') < bt.index('self . fini . push') < bt.rindex('self . vars . push')): raise Untranslatable('init_file_port order')
        L.append('/-- `LocalSchemeManager::init_file_port`: bindings pushed at index `i`, and the closing action -/\ndef localFilePortVars (i : Nat) (filename : Text) : List Text :=\n  [%s,\n   %s]\n\ndef localFilePortFini (i : Nat) : Text :=\n  %s\n' % (t[0], t[2], t[1]))
        # matcher name table + binding, both managers (must read the same)
        texts = []
        for mgr in ('LocalSchemeManager', 'DistributedSchemeManager'):
            it, t = site(mgr + '::register_str_match', 1)
            a, b = find_match(it.body, '( is_pattern ( pattern ) , insensitive )') if False else (None, None)
            bt = text_of(it.body)
            mm = re.search(r'let matcher = match \( is_pattern \( pattern \) , insensitive \) \{ (.*?) \} ;', bt)
            if not mm or 'let escaped = scheme_escape ( pattern ) ;' not in bt: raise Untranslatable(mgr + '::register_str_match shape')
            rows = []
            for arm in [x.strip() for x in mm.group(1).split(' , (') if x.strip()]:
                arm = arm if arm.startswith('(') else '( ' + arm
                m2 = re.fullmatch(r'\( (true|false) , (true|false) \) => ("(?:[^"\\]|\\.)*")(?: ,)?', arm.strip())
                if not m2: raise Untranslatable('matcher table arm ' + arm)
                rows.append('  | %s, %s => %s' % (m2.group(1), m2.group(2), lean_cl(json.loads(m2.group(3)))))
            texts.append(('def matcherName (pattern : Text) (insensitive : Bool) : Text :=\n  match isPattern pattern, insensitive with\n%s\n' % '\n'.join(rows), t[0]))
        if texts[0] != texts[1]: raise Untranslatable('the two register_str_match differ')
        L.append('/-- the matcher table of `register_str_match` (identical in both managers) -/\n' + texts[0][0])
        L.append('/-- `register_str_match`: the binding pushed at index `i` (identical in both managers) -/\ndef matcherVar (i : Nat) (pattern : Text) (insensitive : Bool) : Text :=\n  %s\n' % texts[0][1])
        it, t = site('DistributedSchemeManager::register_printer', 1)
        if 'let index = self . var_index ;' not in text_of(it.body): raise Untranslatable('distributed register_printer index')
        L.append('/-- `DistributedSchemeManager::register_printer`: the binding for index `index` (= `var_index`) -/\ndef framedPrinterVar (index : Nat) : Text :=\n  %s\n' % t[0])
        # the fixed bindings and the start index of the framed manager
        it = items_of(MGR).get('DistributedSchemeManager::default')
        if it is None: raise Untranslatable('Default for DistributedSchemeManager')
        bt = text_of(it.body)
        mm = re.search(r'var_index : (\d+)u32 , vars : vec ! \[ (.*?) , \] ,', bt)
        if not mm: raise Untranslatable('Default for DistributedSchemeManager shape')
        strs = re.findall(r'String :: from \( ("(?:[^"\\]|\\.)*") \)', mm.group(2))
        L.append('/-- `Default for DistributedSchemeManager`: the start index and the fixed bindings -/\ndef framedStartIndex : Nat := %s\n\ndef framedFixedVars : List Text :=\n  [%s]\n' % (mm.group(1), ',\n   '.join(lean_cl(json.loads(x)) for x in strs)))
        it = items_of(MGR).get('LocalSchemeManager::default')
        mm = re.search(r'var_index : (\d+)u32 , vars : vec ! \[ \] ,', text_of(it.body)) if it else None
        if not mm: raise Untranslatable('Default for LocalSchemeManager shape')
        L.append('def plainStartIndex : Nat := %s\n' % mm.group(1))
        # generated names and separators
        names = []
        for key in ('LocalSchemeManager::get_printer', 'LocalSchemeManager::get_file_printer', 'DistributedSchemeManager::get_printer', 'DistributedSchemeManager::get_file_printer'):
            it, t = site(key, 1)
            names.append(t[0].replace('natToDec index', 'natToDec i'))
        if len(set(names)) != 1: raise Untranslatable('printer names differ between the getters')
        L.append('/-- the name returned by `get_printer` / `get_file_printer` (all four) -/\ndef printerName (i : Nat) : Text :=\n  %s\n' % names[0])
        mnames = []
        for mgr in ('LocalSchemeManager', 'DistributedSchemeManager'):
            it = items_of(MGR).get(mgr + '::get_matcher')
            fs = find_formats(it.body)
            if len(fs) != 1 or text_of(fs[0][1][0]) != 'self . register_str_match ( pattern , insensitive )': raise Untranslatable('get_matcher')
            mnames.append(fs[0][0])
        if len(set(mnames)) != 1 or not mnames[0].endswith('{}'): raise Untranslatable('matcher names')
        L.append('/-- the name returned by `get_matcher` -/\ndef matcherRef (id : Nat) : Text :=\n  %s ++ natToDec id\n' % lean_cl(mnames[0][:-2]))
        seps = {}
        for mgr in ('LocalSchemeManager', 'DistributedSchemeManager'):
            it = items_of(MGR).get(mgr + '::definitions')
            mm = re.fullmatch(r'self \. vars \. join \( ("(?:[^"\\]|\\.)*") \)', text_of(it.body)) if it else None
            if not mm: raise Untranslatable(mgr + '::definitions')
            seps[mgr] = json.loads(mm.group(1))
            it = items_of(MGR).get(mgr + '::modules')
            if it is None or len(it.body) != 1 or it.body[0].k != 'str': raise Untranslatable(mgr + '::modules')
            seps[mgr + ':modules'] = it.body[0].v
        L.append('/-- separators of `definitions()` and the module lists -/\ndef plainSeparator : Text := %s\ndef framedSeparator : Text := %s\ndef plainModules : Text := %s\ndef framedModules : Text := %s\n'
                 % (lean_cl(seps['LocalSchemeManager']), lean_cl(seps['DistributedSchemeManager']),
                    lean_cl(seps['LocalSchemeManager:modules']) if seps['LocalSchemeManager:modules'] else '[]', lean_cl(seps['DistributedSchemeManager:modules'])))
        return '\n'.join(L)
    report['item_files']['manager bindings'] = 'src/scheme/manager.rs'
    try:
        chunks['bindings'] = ['/- manager.rs: binding texts -/', bindings(None)]
        report['translated'].append('manager bindings')
    except Exception as e:
        report['untranslated']['manager bindings'] = '%s: %s' % (type(e).__name__, str(e)[:300])
        chunks['bindings'] = ['-- UNTRANSLATED manager bindings: %s' % str(e)[:300]]

    # ---- impl TargetScheme for Vec<FormatElement>, compile_size_comp, exact_byte_size
    def format_list_fn(it):
        txt = text_of(it.body)
        pat = (r'let template = self \. iter \( \) \. map \( \| el \| match el \{ '
               r'FormatElement :: Literal \( s \) => Ok \( (?P<lit>\w+) \( s \) \) , '
               r'FormatElement :: Field \( f \) => (?P<fld>\w+) \( f \) \. map \( \| s \| s \. to_string \( \) \) , '
               r'FormatElement :: Special \( v \) => (?P<spc>\w+) \( v \) , \} \) '
               r'\. collect :: < CResult < Vec < String > > > \( \) \? \. join \( (?P<tsep>"(?:[^"\\]|\\.)*") \) ; '
               r'let items = self \. iter \( \) \. filter_map \( \| el \| match el \{ '
               r'FormatElement :: Literal \( s \) => None , '
               r'FormatElement :: Field \( f \) => (?P<item>\w+) \( f \) \. unwrap_or_else \( \| e \| \{ None \} \) , '
               r'FormatElement :: Special \( v \) => None , \} \) '
               r'\. collect :: < Vec < String > > \( \) \. join \( (?P<isep>"(?:[^"\\]|\\.)*") \) ; '
               r'buffer \. push_str \( & format ! \( (?P<fin>"(?:[^"\\]|\\.)*") \) \) ; Ok \( \( \) \)')
        m = re.fullmatch(pat, txt)
        if not m: raise Untranslatable('the format-list generator does not have the shape the model was transcribed from')
        fn = {'template_escape': 'templateEscape', 'placeholder': 'placeholder', 'literal': 'specialLiteral', 'snippet': 'snippetBody'}
        for g in ('lit', 'fld', 'spc', 'item'):
            if m.group(g) not in fn: raise Untranslatable('format-list helper ' + m.group(g))
        args_named.clear(); args_named['template'] = 'template'; args_named['items'] = 'items'
        fin = join_pieces(fmt_named(json.loads(m.group('fin')), None), [])
        def tx(x):
            v = json.loads(x)
            return lean_cl(v) if v else '[]'
        return ('def compileFormat (es : List FormatElement) : Except CompileError Text :=\n'
                '  formatSkeleton %s %s %s %s (%s) (%s) (fun template items => %s) es'
                % (fn[m.group('lit')], fn[m.group('fld')], fn[m.group('spc')], fn[m.group('item')], tx(m.group('tsep')), tx(m.group('isep')), fin))
    emit('compileFormat', 'Vec<FormatElement>::compile', 'scheme/target_scheme.rs', format_list_fn)

    def exact_fn(it):
        if text_of(it.body) != ('let ( Size :: Byte ( s ) | Size :: Word ( s ) | Size :: Block ( s ) | Size :: KiloByte ( s ) | Size :: MegaByte ( s ) | '
                                'Size :: GigaByte ( s ) | Size :: TeraByte ( s ) ) = size ; ( * s as u128 ) * ( size . mult ( ) as u128 )'):
            raise Untranslatable('exact_byte_size changed')
        return 'def exactByteSize (s : Size) : Nat := s.count * sizeMult s'
    emit('exactByteSize', 'exact_byte_size', 'scheme/target_scheme.rs', exact_fn)

    def size_comp_fn(it):
        if text_of(it.body) != 'buffer . push_str ( & format_cmp ! ( comp , size_matching , exact_byte_size ) ) ;':
            raise Untranslatable('compile_size_comp changed')
        return 'def compileSizeComp (c : Comparison Size) : Text :=\n  formatCmp2 c sizeMatching (fun s => nat (exactByteSize s))'
    emit('compileSizeComp', 'compile_size_comp', 'scheme/target_scheme.rs', size_comp_fn)

    # ---- compile_type_list_comp
    def type_list_fn(it):
        txt = text_of(it.body)
        pat = (r'let comps : Vec < String > = filetypes \. iter \( \) \. map \( \| tp \| \{ format ! \( (?P<el>"(?:[^"\\]|\\.)*") , '
               r'S_IFMT \. bits \( \) , tp \. octal \( \) \. bits \( \) \) \} \) \. collect \( \) ; '
               r'match comps \. len \( \) \{ 1 => buffer \. push_str \( comps \. first \( \) \. unwrap \( \) \) , '
               r'_ => buffer \. push_str \( & format ! \( (?P<many>"(?:[^"\\]|\\.)*") , comps \. join \( (?P<sep>"(?:[^"\\]|\\.)*") \) \) \) , \}')
        m = re.fullmatch(pat, txt)
        if not m: raise Untranslatable('compile_type_list_comp does not have the shape the model was transcribed from')
        if 'S_IFMT' not in consts: raise Untranslatable('S_IFMT constant')
        el = join_pieces(fmt_named(json.loads(m.group('el')), None), ['nat %d' % consts['S_IFMT'], 'nat (fileTypeOctal tp)'])
        many = join_pieces(fmt_named(json.loads(m.group('many')), None), ['joinWith (%s) comps' % lean_cl(json.loads(m.group('sep')))])
        return ('def compileTypeList (l : List FileType) : Text :=\n  let comps := l.map fun tp => %s\n  match comps with\n  | [c] => c\n  | _ => %s' % (el, many))
    emit('compileTypeList', 'compile_type_list_comp', 'scheme/target_scheme.rs', type_list_fn)
    # dependencies first, so that every generated definition uses the generated ones below it
    for name in ['schemeEscape', 'isPattern', 'terminatorEscape', 'templateEscape', 'Size.mult', 'TimeSpec.secs', 'FileType.octal', 'permValue', 'formatCmp', 'sizeMatching', 'compilePermCheck',
                 'exactByteSize', 'compileSizeComp', 'compileTypeList', 'specialLiteral', 'placeholder', 'snippetBody', 'compileFormat', 'hasAction', 'complexFrames', 'compileTest', 'compileAction',
                 'compileExpr', 'compile', 'scheme', 'explainTable', 'contextStep', 'dispatchDecision', 'runOptionsUpdate', 'bindings']:
        out += chunks.get(name, ['-- UNTRANSLATED %s: not attempted' % name])
    return out, report


TABLES_HEADER = """import FindVerif.Model.Compile
import FindVerif.Model.Parse
import FindVerif.Gen.Support
/-
  GENERATED by tools/rs2lean.py from %s/src/{ast.rs, permission_flags.rs, find_parser/permission.rs,
  scheme/target_scheme.rs} -- do not edit.  The constant tables of the crate: one Lean match arm per
  Rust match arm; flag constants are evaluated from `mod values`.  Arms that are not constants refer
  to the hand-written model (their token text is checked by the translator).
  FindVerif/TieTables.lean proves each definition equal to the model's.
-/
namespace FV.Gen
open FV

/-- `compile_time_comp(buffer, field, cmp)` as used by `Test::compile`: one clock reading is consumed. -/
def timeT (clk : Nat → Nat) (st : CState) (field : Text) (c : Comparison TimeSpec) : CRes (Text × CState) :=
  .ok (compileTimeComp (clk st.reads) field c, { st with reads := st.reads + 1 })

/-- `let printer = ctx.get_…(..); buffer.push_str(&format!(TEMPLATE))`. -/
def viaT (st : CState) (tpl : Text → Text) (r : Text × Manager) : CRes (Text × CState) :=
  .ok (tpl r.1, { st with mgr := r.2 })

/-- `let printer = ctx.get_…(..); push_str(PRE); elements.compile(buffer, ctx)?; push_str(POST)`. -/
def viaFormatT (st : CState) (tpl : Text → Text → Text) (r : Text × Manager) (es : List FormatElement) : CRes (Text × CState) :=
  match compileFormat es with
  | .error x => .err x
  | .ok f => .ok (tpl r.1 f, { st with mgr := r.2 })

/-- `push_str(PRE); e.compile(buffer, ctx)?; push_str(POST)`. -/
def seq1 (pre post : Text) (r : CRes (Text × CState)) : CRes (Text × CState) :=
  match r with
  | .ok (t, st') => .ok (pre ++ t ++ post, st')
  | e => e

/-- `push_str(PRE); l.compile(..)?; push_str(MID); r.compile(..)?; push_str(POST)`. -/
def seq2 (pre mid post : Text) (l : CRes (Text × CState)) (r : CState → CRes (Text × CState)) : CRes (Text × CState) :=
  match l with
  | .ok (tl, st1) =>
    match r st1 with
    | .ok (tr, st2) => .ok (pre ++ tl ++ mid ++ tr ++ post, st2)
    | e => e
  | e => e

/-- `buffer.push_str(&format!(TEMPLATE, ctx.get_matcher(s, ci)))`. -/
def matchT (st : CState) (tpl : Text → Text) (s : Text) (ci : Bool) : CRes (Text × CState) :=
  let (name, m) := st.mgr.getMatcher s ci
  .ok (tpl name, { st with mgr := m })

"""



# ------------------------------------------------------------------------------------------------
# everything else: every non-test function of src/ that is neither translated nor shape-matched above is PINNED —
# the sha1 of its token text (comments, layout and log statements dropped) must be the one recorded in
# tools/fingerprints.json when the hand-written model was transcribed from it (`--pin` rewrites that file)
# ------------------------------------------------------------------------------------------------
ALL_SOURCES = ['lib.rs', 'ast.rs', 'permission_flags.rs', 'find_parser/mod.rs', 'find_parser/prelude.rs', 'find_parser/size.rs',
               'find_parser/timespec.rs', 'find_parser/filetype.rs', 'find_parser/permission.rs', 'find_parser/format.rs',
               'find_parser/precedence.rs', 'find_parser/error.rs', 'scheme/mod.rs', 'scheme/manager.rs', 'scheme/target_scheme.rs', 'scheme/error.rs']


def pinned_items(repo):
    out = {}
    for rel in ALL_SOURCES:
        path = os.path.join(repo, 'src', rel)
        if not os.path.exists(path):
            continue
        # the key names the item independently of its position in the file (items may be reordered freely): file,
        # trait (for trait impls), type, function; items that still share a key are pinned as a sorted group
        groups = {}
        for it in extract_items(path):
            tr = getattr(it, 'trait', None)
            k = '%s::%s%s' % (rel, (tr + ' for ') if tr else '', it.key)
            groups.setdefault(k, []).append(hashlib.sha1(text_of(it.body).encode()).hexdigest())
        for k, hs in groups.items():
            out[k] = (hs[0] if len(hs) == 1 else hashlib.sha1(' '.join(sorted(hs)).encode()).hexdigest(), 'src/' + rel)
        # the constant tables of permission_flags.rs and the enum/struct declarations are data, not functions
        if rel in ('permission_flags.rs', 'ast.rs', 'scheme/error.rs', 'find_parser/error.rs', 'lib.rs', 'scheme/manager.rs', 'scheme/mod.rs'):
            toks = tokenize(open(path).read())
            decl, i = [], 0
            while i < len(toks):
                if toks[i].k == 'id' and toks[i].v in ('enum', 'struct', 'const', 'static') and i + 1 < len(toks) and toks[i + 1].k == 'id':
                    j = i
                    while j < len(toks) and not (toks[j].k == 'p' and toks[j].v in ('{', ';', '(')): j += 1
                    if j < len(toks) and toks[j].v in ('{', '('):
                        j = match_close(toks, j)
                    decl += toks[i:j + 1]; i = j + 1
                elif toks[i].k == 'p' and toks[i].v == '#' and i + 1 < len(toks) and toks[i + 1].v == '[':
                    j = match_close(toks, i + 1)
                    if any(t.k == 'id' and t.v == 'error' for t in toks[i:j]):      # thiserror message templates
                        decl += toks[i:j + 1]
                    i = j + 1
                else: i += 1
            out['%s::<declarations>' % rel] = (hashlib.sha1(text_of(decl).encode()).hexdigest(), 'src/' + rel)
    return out


def main():
    repo, out, rep = '/repo', None, None
    a = sys.argv[1:]
    pinfile = os.path.join(os.path.dirname(os.path.abspath(__file__)), 'fingerprints.json')
    if a and a[0] == '--pin':
        repo = a[1] if len(a) > 1 else '/repo'
        json.dump({k: v[0] for k, v in sorted(pinned_items(repo).items())}, open(pinfile, 'w'), indent=1)
        print('pinned %d items' % len(pinned_items(repo))); sys.exit(0)
    while a:
        if a[0] == '--repo': repo = a[1]; a = a[2:]
        elif a[0] == '--out': out = a[1]; a = a[2:]
        elif a[0] == '--report': rep = a[1]; a = a[2:]
        else: print(__doc__); sys.exit(2)
    lines, report = translate(repo)
    text = HEADER % repo + '\n'.join(lines) + '\nend FV.Gen\n'
    report['sha1'] = hashlib.sha1(text.encode()).hexdigest()
    tlines, treport = translate_tables(repo)
    ttext = TABLES_HEADER % repo + '\n'.join(tlines) + '\nend FV.Gen\n'
    report['tables'] = treport
    # pinned items (everything that is not translated): changed, missing
    pins = json.load(open(pinfile)) if os.path.exists(pinfile) else {}
    now = pinned_items(repo)
    report['pinned'] = {'items': len(pins), 'changed': {}}
    for k, h in pins.items():
        if k not in now:
            report['pinned']['changed'][k] = 'src/' + k.split('::')[0]
        elif now[k][0] != h:
            report['pinned']['changed'][k] = now[k][1]
    report['pinned']['new_items'] = sorted(k for k in now if k not in pins)
    if out:
        tout = os.path.join(os.path.dirname(out), 'Tables.lean')
        if not os.path.exists(tout) or open(tout).read() != ttext:
            open(tout, 'w').write(ttext)
    if out:
        old = open(out).read() if os.path.exists(out) else None
        if old != text:
            os.makedirs(os.path.dirname(out), exist_ok=True)
            open(out, 'w').write(text)
    else:
        sys.stdout.write(text)
    if rep:
        json.dump(report, open(rep, 'w'), indent=1)
    else:
        sys.stderr.write(json.dumps(report, indent=1) + '\n')
    sys.exit(0)


if __name__ == '__main__':
    main()
