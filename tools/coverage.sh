#!/bin/bash
# Generator-quality aid (not a check): line coverage of /repo/src by the union of all quick streams.
# Builds the harness with the nightly toolchain and -C instrument-coverage into a scratch directory
# outside /repo and /verif, runs every property's stream through it, merges the profiles, prints the
# per-file report and the uncovered lines, removes the scratch directory.
set -eu
S=$(mktemp -d /tmp/fvcov.XXXXXX)
B=$(dirname "$(rustup +nightly which rustc)")/../lib/rustlib/x86_64-unknown-linux-gnu/bin
(cd /verif/harness && LLVM_PROFILE_FILE=$S/build-%p.profraw CARGO_NET_OFFLINE=true CARGO_TARGET_DIR=$S/target RUSTFLAGS="-C instrument-coverage" cargo +nightly build --offline --quiet 2>/dev/null)
mkdir -p $S/prof
python3 - "$S" <<'PY'
import sys, os, subprocess
sys.path.insert(0, '/verif/tools')
import streams
S = sys.argv[1]
for i in range(1, 21):
    pid = 'C%02d' % i
    lines, _ = streams.generate(pid, os.environ.get('VERIF_TIER', 'quick'), int(os.environ.get('VERIF_SEED', '1')))
    env = dict(os.environ, LLVM_PROFILE_FILE='%s/prof/%s.profraw' % (S, pid))
    subprocess.run([S + '/target/debug/fvharness'], input=('\n'.join(lines) + '\n').encode(), stdout=subprocess.DEVNULL, stderr=subprocess.DEVNULL, env=env)
PY
$B/llvm-profdata merge -sparse $S/prof/*.profraw -o $S/all.profdata
$B/llvm-cov report $S/target/debug/fvharness -instr-profile=$S/all.profdata --ignore-filename-regex='(\.cargo|rustc|harness/src)'
echo "--- lines never executed:"
$B/llvm-cov show $S/target/debug/fvharness -instr-profile=$S/all.profdata --ignore-filename-regex='(\.cargo|rustc|harness/src)' --show-line-counts-or-regions 2>/dev/null | awk '/^\/repo/{f=$0} /^ +[0-9]+\| +0\|/{print f" "$0}' | cut -c1-160
rm -rf $S
