#!/usr/bin/env python3
"""Mechanical mutation screening of the verification machinery (development aid, not a check).

Small syntactic mutants of /repo's non-test source are applied to /repo one at a time (never
committed; the file is restored with git checkout after each).  A mutant that no longer compiles or
that the repository's own test suite kills is discarded.  For the others the checks of the
properties that look at the mutated file are run (quick tier, proofs skipped: the theorems do not
depend on /repo); a mutant on which every check exits 0 SURVIVES and is listed for triage: it is
either equivalent (behaviour unchanged), outside every property, or a gap in a stream or predicate.

  tools/mutate.py N [seed]      -> seeded/MUTATION.tsv (appended), survivors printed
"""
import os, re, subprocess, sys, random, json, time

REPO = '/repo'
ROOT = os.path.dirname(os.path.dirname(os.path.abspath(__file__)))
N = int(sys.argv[1]) if len(sys.argv) > 1 else 20
SEED = int(sys.argv[2]) if len(sys.argv) > 2 else 1
TT = '/tmp/fvmut-target'

RELEVANT = {
    'src/find_parser/precedence.rs': ['C01', 'C06', 'C03'],
    'src/find_parser/mod.rs': ['C05', 'C06', 'C13', 'C18', 'C01', 'C03'],
    'src/find_parser/prelude.rs': ['C05', 'C07', 'C06', 'C18', 'C03'],
    'src/find_parser/format.rs': ['C14', 'C05', 'C03'],
    'src/find_parser/permission.rs': ['C08', 'C05', 'C03'],
    'src/find_parser/size.rs': ['C07', 'C05', 'C03'],
    'src/find_parser/timespec.rs': ['C07', 'C05', 'C03'],
    'src/find_parser/filetype.rs': ['C05', 'C18', 'C03'],
    'src/find_parser/error.rs': ['C18', 'C03'],
    'src/ast.rs': ['C19', 'C09', 'C10', 'C07', 'C02'],
    'src/lib.rs': ['C13', 'C03', 'C06'],
    'src/scheme/mod.rs': ['C20', 'C09', 'C10', 'C12', 'C13', 'C07', 'C04', 'C02'],
    'src/scheme/manager.rs': ['C11', 'C10', 'C16', 'C04', 'C15', 'C02'],
    'src/scheme/target_scheme.rs': ['C02', 'C12', 'C04', 'C08', 'C07', 'C15', 'C03'],
}

SUBS = [
    (r'==', '!='), (r'!=', '=='), (r'<=', '<'), (r'>=', '>'), (r'(?<![<=-])<(?![<=])', '<='), (r'(?<![>=-])>(?![>=])', '>='),
    (r'&&', '||'), (r'\|\|', '&&'), (r'\btrue\b', 'false'), (r'\bfalse\b', 'true'),
    (r'\+ 1\b', '+ 2'), (r'\+= 1\b', '+= 2'), (r'\+= 2\b', '+= 1'), (r'- 1\b', '- 2'), (r'\b0\.\.', '1..'), (r'\b1\.\.', '0..'), (r'\b2\.\.', '1..'), (r'\b3\.\.=3', '2..=3'),
    (r'\.is_some\(\)', '.is_none()'), (r'\.is_none\(\)', '.is_some()'), (r'\.is_empty\(\)', '.len() == 1'),
    (r'\bSome\(1\)', 'Some(2)'), (r'\b60\b', '61'), (r'\b3600\b', '3601'), (r'\b86400\b', '86401'), (r'\b512\b', '513'), (r'\b1024\b', '1000'),
    (r'0o7777', '0o777'), (r'0o777\b', '0o7777'), (r'0o700', '0o070'), (r'0o444', '0o222'), (r'0o111', '0o222'),
    (r'\bu32\b', 'u16'), (r'\.last\(\)', '.first()'), (r'\.first\(\)', '.last()'), (r'\.rev\(\)', ''),
    (r'\bOperator::And\b', 'Operator::Or'), (r'\bOperator::Or\b', 'Operator::And'), (r'cut_err\(', '('),
    (r'Comparison::GreaterThan', 'Comparison::LesserThan'), (r'Comparison::LesserThan', 'Comparison::Equal'),
    (r'"\(and ', '"(or '), (r'"\(or ', '"(and '), (r'"\(not ', '"(and '), (r'"\(< ', '"(<= '), (r'"\(> ', '"(>= '), (r'"\(= ', '"(< '),
    (r'\\\\x', '\\\\u'), (r'"~a"', '"~d"'), (r'"~d"', '"~a"'), (r'"~~"', '"~"'), (r"'\\\\n'", "'\\\\0'"), (r"'\\\\0'", "'\\\\n'"),
    (r'multispace1', 'multispace0'), (r'multispace0', 'multispace1'), (r'take_while\(1\.\.', 'take_while(0..'), (r'take_while\(3\.\.', 'take_while(2..'),
]


def candidates():
    out = []
    for rel in sorted(RELEVANT):
        path = os.path.join(REPO, rel)
        text = open(path, encoding='utf-8').read().split('\n')
        in_test = False
        for ln, line in enumerate(text):
            if '#[cfg(test)]' in line or line.strip() == '#[test]':
                in_test = True          # the crate keeps its unit tests at the end of each file
            if in_test:
                continue
            code = line.split('//')[0] if not re.search(r'"[^"]*//', line) else line
            if not code.strip() or code.strip().startswith(('use ', '#[', '///', '//')):
                continue
            for pat, rep in SUBS:
                if rep in ('<=', '>=') and re.search(r'::<|<[A-Za-z_&(\']|[A-Za-z_)\]]>|->|=>', code):
                    continue            # angle brackets of generics and arrows, not comparisons
                for m in re.finditer(pat, code):
                    out.append((rel, ln, m.start(), m.end(), rep, line))
    # structural mutants: swap two adjacent alternatives of an alt((..)) table, drop one alternative / one statement
    for rel in sorted(RELEVANT):
        text = open(os.path.join(REPO, rel), encoding='utf-8').read().split('\n')
        in_test = False
        row = re.compile(r'^\s*(literal\(|unary!\(|terminated\(|preceded\(|delimited\(|Test::|Action::|Token::|FormatField::|FormatSpecial::|Size::|TimeSpec::|[\'"].*=>)')
        for ln in range(len(text) - 1):
            line = text[ln]
            if '#[cfg(test)]' in line or line.strip() == '#[test]':
                in_test = True
            if in_test:
                continue
            if row.match(line) and line.rstrip().endswith(',') and row.match(text[ln + 1]) and text[ln + 1].rstrip().endswith(','):
                out.append((rel, ln, 'SWAP', None, None, line))
            if row.match(line) and line.rstrip().endswith(','):
                out.append((rel, ln, 'DROP', None, None, line))
            if re.match(r'^\s*(self\.[a-z_.]+(\(|\s*[+-]?=)|[a-z_]+\.(push|insert|push_str|extend)\()', line) and line.rstrip().endswith(';'):
                out.append((rel, ln, 'DROP', None, None, line))
    return out


def sh(cmd, cwd=None, env=None, timeout=1800):
    e = dict(os.environ, CARGO_NET_OFFLINE='true')
    if env:
        e.update(env)
    p = subprocess.run(cmd, cwd=cwd, env=e, stdout=subprocess.PIPE, stderr=subprocess.STDOUT, timeout=timeout)
    return p.returncode, p.stdout.decode('utf-8', 'replace')


def main():
    if subprocess.run(['git', '-C', REPO, 'status', '--porcelain'], stdout=subprocess.PIPE).stdout.strip():
        print('/repo not clean, refusing'); sys.exit(2)
    cands = candidates()
    rnd = random.Random(SEED)
    rnd.shuffle(cands)
    done = 0
    out = open(os.path.join(ROOT, 'seeded', 'MUTATION.tsv'), 'a')
    for rel, ln, a, b, rep, line in cands:
        if done >= N:
            break
        path = os.path.join(REPO, rel)
        text = open(path, encoding='utf-8').read().split('\n')
        if a == 'SWAP':
            new = text[ln + 1]
            text[ln], text[ln + 1] = text[ln + 1], text[ln]
            new = 'SWAPPED WITH NEXT: ' + new
        elif a == 'DROP':
            new = '(line removed)'
            text[ln] = ''
        else:
            new = line[:a] + rep + line[b:]
            text[ln] = new
        open(path, 'w', encoding='utf-8').write('\n'.join(text))
        desc = '%s:%d  %s  ->  %s' % (rel, ln + 1, line.strip()[:80], new.strip()[:80])
        try:
            rc, log = sh(['cargo', 'test', '--workspace', '--no-fail-fast', '--offline', '--quiet'], cwd=REPO, env={'CARGO_TARGET_DIR': TT})
            if rc != 0:
                kind = 'does-not-compile' if ('error[' in log or 'error:' in log and 'test result' not in log) else 'killed-by-tests'
                print('%-18s %s' % (kind, desc), flush=True)
                continue
            done += 1
            killed = None
            for c in RELEVANT[rel]:
                rc, log = sh([os.path.join(ROOT, 'check'), c], cwd=ROOT, env={'VERIF_NOPROOF': '1'})
                if rc != 0:
                    v = [l for l in log.splitlines() if l.startswith('VIOLATION')]
                    killed = (c, 'no-failing-input' if v and 'no-failing-input-found' in v[0] else 'failing-input')
                    break
            res = 'SURVIVED' if killed is None else 'killed-by-%s(%s)' % killed
            print('%-18s %s' % (res, desc), flush=True)
            out.write('%s\t%s\t%s\n' % (res, desc, time.strftime('%Y-%m-%d')))
            out.flush()
        finally:
            subprocess.run(['git', '-C', REPO, 'checkout', '--', rel])
    subprocess.run(['rm', '-rf', TT])


if __name__ == '__main__':
    main()
