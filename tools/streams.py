"""Request-stream generators, one per property.  Every random choice derives from one PRNG
seeded with VERIF_SEED.  Requests are lines of the harness protocol; `#k=v` fields are
annotations for the driver (ignored by the harness)."""
import os, random, itertools, re, collections

ROOT = os.path.dirname(os.path.dirname(os.path.abspath(__file__)))


def hx(s):
    return 'x' + s.encode('utf-8').hex()


def unhex(h):
    try:
        return bytes.fromhex(h[1:]).decode('utf-8', 'replace')
    except ValueError:
        return h


def corpus(pid):
    p = os.path.join(ROOT, 'corpus', pid + '.txt')
    if not os.path.exists(p):
        return []
    return [l.rstrip('\n') for l in open(p) if l.strip() and not l.startswith('//')]


def histogram(results):
    h = collections.Counter()
    for (r, o, v) in results:
        parts = o.split(' ')
        cls = parts[1] if len(parts) > 1 else '?'
        if ' | ' in o:
            cls += '+' + o.split(' | ')[1].split(' ')[0]
        h[v.split(' ')[0] + ':' + cls] += 1
    return dict(h)


def nontrivial(pid, r, o):
    parts = r.split(' ')
    if parts[0] in ('P', 'C') and len(parts) > 1:
        return len(unhex(parts[1]).split()) >= 2
    return True


def cross_profile(results):
    """C17: pair the debug and release observation of each request."""
    by = collections.defaultdict(dict)
    for (r, o, v) in results:
        pf, _, rest = o.partition(' ')
        by[r][pf] = rest
    out = []
    for r, d in by.items():
        if 'debug' in d and 'release' in d:
            a, b = normalise_clock(d['debug']), normalise_clock(d['release'])
            if a != b:
                out.append((r, 'both ' + d['debug'][:300] + ' <> ' + d['release'][:300], 'PFAIL C17 debug-and-release-differ'))
            else:
                out.append((r, 'both same', 'OK'))
    return out


def normalise_clock(obs):
    """Replace the clock readings (COK t0 t1 and the same seconds embedded in the hex-encoded
    program) by a placeholder, so that runs made in different seconds compare equal."""
    m = re.search(r'COK (\d+) (\d+)', obs)
    if not m:
        return obs
    out = obs
    for t in {m.group(1), m.group(2)}:
        out = out.replace(t.encode().hex(), 'T'.encode().hex() * len(t))
    return re.sub(r'COK \d+ \d+', 'COK T T', out)


# ------------------------------------------------------------------ C01

C01_WORDS = ['(', ')', '!', ',', '-a', '-and', '-o', '-or', '-true', '-false', '-name x']


def gen_C01(tier, rnd):
    maxlen = 5 if tier == 'quick' else 6
    lines = []
    for n in range(0, maxlen + 1):
        for combo in itertools.product(C01_WORDS, repeat=n):
            lines.append('P ' + hx(' '.join(combo)))
    nrand = 20000 if tier == 'quick' else 200000
    for _ in range(nrand):
        n = rnd.randint(7, 40)
        lines.append('P ' + hx(' '.join(rnd.choice(C01_WORDS) for _ in range(n))))
    ntree = 10000 if tier == 'quick' else 100000
    for _ in range(ntree):
        lines.append('P ' + hx(' '.join(spell_tree(rand_tree(rnd, rnd.randint(1, 8)), rnd, 0))))
    # a scan-wide option written inside the expression is a primary of the grammar too (it stands for -true there):
    # all sequences up to length 4 over the words plus -depth, and random longer ones; never as the first word, where it
    # is a leading option and not part of the expression
    words2 = C01_WORDS + ['-depth']
    for n in range(2, 5):
        for combo in itertools.product(words2, repeat=n):
            if '-depth' in combo and combo[0] != '-depth':
                lines.append('P ' + hx(' '.join(combo)))
    for _ in range(nrand // 4):
        n = rnd.randint(5, 30)
        combo = [rnd.choice(words2) for _ in range(n)]
        if combo[0] != '-depth' and '-depth' in combo:
            lines.append('P ' + hx(' '.join(combo)))
    # long sentences: many operands at one level, many closed groups, deep nesting (the grammar has no length bound)
    nlong = 0
    for k in [2, 10, 63, 64, 65, 66, 100, 129, 200, 257, 500, 1000, 1001, 2049, 4097]:
        for item in (['-true', '-name x'] if k >= 1000 else ['! -true', '-false', '! ! -name x', '( -true )', '( ! -true )', '( -true -o -false )']):
            for sep in [' ', ' -a ', ' -and ', ' -o ', ' -or ', ' , ']:
                lines.append('P ' + hx(sep.join([item] * k))); nlong += 1
        if k <= 300:
            lines.append('P ' + hx('( ' * k + '-true' + ' )' * k)); nlong += 1
            lines.append('P ' + hx('! ' * k + '-true')); nlong += 1
            lines.append('P ' + hx('( ! ' * k + '-name x' + ' )' * k)); nlong += 1
            lines.append('P ' + hx('-true' + ' -o ( -false' * k + ' )' * k)); nlong += 1
            lines.append('P ' + hx('( ' * k + '-true' + ' )' * (k - 1))); nlong += 1
    return lines, {'rule': 'long sentences (2..500 operands at one level with every operator spelling, closed groups, nesting ladders to depth 257), all word sequences over %d symbols up to length %d (exhaustive), %d random sequences of length 7-40, %d random well-formed trees (depth<=8) spelled with random AND/OR synonyms and redundant parentheses; non-trivial = at least two words'
                   % (len(C01_WORDS), maxlen, nrand, ntree), 'exhaustive': False,
                   'streams': {'exhaustive_len<=%d' % maxlen: sum(len(C01_WORDS) ** n for n in range(maxlen + 1)), 'random_seq': nrand, 'random_trees': ntree}}


def rand_tree(rnd, depth):
    if depth <= 0 or rnd.random() < 0.25:
        return rnd.choice(['-true', '-false', '-name x'])
    k = rnd.random()
    if k < 0.2:
        return ('not', rand_tree(rnd, depth - 1))
    op = rnd.choice(['and', 'and', 'or', 'list'])
    return (op, rand_tree(rnd, depth - 1), rand_tree(rnd, depth - 1))


LEVEL = {'list': 0, 'or': 1, 'and': 2}


def spell_tree(t, rnd, need):
    """Words of a tree placed where binding level >= need is required."""
    if isinstance(t, str):
        w = [t]
        have = 3
    elif t[0] == 'not':
        w = ['!'] + spell_tree(t[1], rnd, 3)
        have = 3
    else:
        op = t[0]
        have = LEVEL[op]
        sep = {'and': rnd.choice([[], ['-a'], ['-and']]), 'or': [rnd.choice(['-o', '-or'])], 'list': [',']}[op]
        w = spell_tree(t[1], rnd, have) + sep + spell_tree(t[2], rnd, have + 1)
    if have < need or rnd.random() < 0.1:
        w = ['('] + w + [')']
    return w


GENERATORS = {}
GENERATORS['C01'] = gen_C01


def generate(pid, tier, seed):
    rnd = random.Random(seed * 1000003 + int(pid[1:]))
    return GENERATORS[pid](tier, rnd)


# ------------------------------------------------------------------ random trees (canonical S-expression syntax)

STR_POOL = ['a', 'foo', 'x*', 'a b', 'A', 'é', 'out', 'out2', 'f?', '[ab]', 'p"q', 'b\\s', 't~d', "q'r", '', 'a(b', ':)', '(', ';#', '{}', 'a]b[c', '日本']
FIELDS0 = ['Percent', 'Access', 'DiskSizeBlocks', 'Change', 'Depth', 'DeviceNumber', 'Basename', 'FsType', 'Group',
           'GroupId', 'Parents', 'StartingPoint', 'InodeDecimal', 'DiskSizeKilos', 'SymbolicTarget', 'PermissionsOctal',
           'PermissionsSymbolic', 'Hardlinks', 'Name', 'NameWithoutStartingPoint', 'DiskSizeBytes', 'Sparseness', 'Modify',
           'User', 'UserId', 'Type', 'TypeSymlink', 'SecurityContext', 'FileId', 'ProjectId', 'MirrorCount', 'StripeCount', 'StripeSize']
UNSUPPORTED_FIELDS = ['Depth', 'DeviceNumber', 'FsType', 'SymbolicTarget', 'PermissionsSymbolic', 'TypeSymlink', 'SecurityContext']
SPECIALS0 = ['Alarm', 'Backspace', 'Clear', 'Form', 'Newline', 'CarriageReturn', 'TabHorizontal', 'TabVertical', 'Null', 'Backslash']
FILETYPES = ['Block', 'Character', 'Directory', 'Pipe', 'File', 'Link', 'Socket']
SIZES = ['Byte', 'Word', 'Block', 'KiloByte', 'MegaByte', 'GigaByte', 'TeraByte']
TIMES = ['Second', 'Minute', 'Hour', 'Day']
NUMS32 = [0, 1, 5, 1000, 2**31 - 1, 2**31, 2**32 - 1]
NUMS64 = NUMS32 + [2**32, 2**63, 2**64 - 1]


def sx_str(s):
    return hx(s)


def rand_cmp(rnd, inner):
    return '(%s %s)' % (rnd.choice(['GT', 'LT', 'EQ']), inner)


def rand_format(rnd, supported_only=False, allow_clear=True):
    n = rnd.choice([0, 1, 1, 2, 3, 4, 6])
    els = []
    for _ in range(n):
        k = rnd.random()
        if k < 0.3:
            els.append('(Lit %s)' % sx_str(rnd.choice(STR_POOL + ['%', '~a', 'x\ny'])))
        elif k < 0.7:
            f = rnd.choice(FIELDS0 + ['AF', 'CF', 'MF', 'XA'])
            if supported_only and f in UNSUPPORTED_FIELDS:
                f = 'Name'
            if f in ('AF', 'CF', 'MF'):
                c = rnd.choice(['@', 'k', 'Y', '"', '\\', '~', 'é'])
                els.append('(Fld (%s c%d))' % ({'AF': 'AccessFormatted', 'CF': 'ChangeFormatted', 'MF': 'ModifyFormatted'}[f], ord(c)))
            elif f == 'XA':
                els.append('(Fld (XAttr %s))' % sx_str(rnd.choice(['user', 'a', 'p"q'])))
            else:
                els.append('(Fld %s)' % f)
        else:
            s = rnd.choice(SPECIALS0 + ['Ascii', 'Newline', 'Newline'])
            if s == 'Clear' and (supported_only or not allow_clear):
                s = 'Newline'
            if s == 'Ascii':
                els.append('(Spc (Ascii %d))' % rnd.choice([0, 10, 34, 65, 92, 126, 127, 255, 266, 511, rnd.randint(0, 511)]))
            else:
                els.append('(Spc %s)' % s)
    if els and rnd.random() < 0.5:
        els.append('(Spc Newline)')
    return '(# %s)' % ' '.join(els) if els else '(#)'


SUPPORTED_TESTS = ['AccessTime', 'ChangeTime', 'ModifyTime', 'Empty', 'Executable', 'False', 'GroupId', 'InodeNumber',
                   'InsensitiveName', 'InsensitivePath', 'Links', 'MirrorCount', 'Name', 'Path', 'Perm', 'Pool', 'Readable',
                   'Size', 'StripeCount', 'True', 'Type', 'UserId', 'Writable', 'Xattr', 'XattrMatch']
UNSUPPORTED_TESTS = ['AccessNewer', 'ChangeNewer', 'FsType', 'Group', 'InsensitiveLinkName', 'InsensitiveRegex', 'LinkName',
                     'ModifyNewer', 'NoGroup', 'NoUser', 'Regex', 'Samefile', 'User']
SUPPORTED_ACTIONS = ['FilePrint', 'FilePrintNull', 'FilePrintFormatted', 'Print', 'PrintNull', 'PrintFormatted', 'PrintFid', 'Quit']
UNSUPPORTED_ACTIONS = ['FileList', 'List', 'Prune']


def rand_test(rnd, name=None, supported_only=False):
    if name is None:
        name = rnd.choice(SUPPORTED_TESTS if supported_only else SUPPORTED_TESTS * 3 + UNSUPPORTED_TESTS)
    if name in ('AccessTime', 'ChangeTime', 'ModifyTime'):
        return '(%s %s)' % (name, rand_cmp(rnd, '(%s %d)' % (rnd.choice(TIMES), rnd.choice(NUMS64))))
    if name in ('GroupId', 'InodeNumber', 'MirrorCount', 'StripeCount', 'UserId'):
        return '(%s %s)' % (name, rand_cmp(rnd, str(rnd.choice(NUMS32))))
    if name == 'Links':
        return '(Links %s)' % rand_cmp(rnd, str(rnd.choice(NUMS64)))
    if name == 'Size':
        return '(Size %s)' % rand_cmp(rnd, '(%s %d)' % (rnd.choice(SIZES), rnd.choice(NUMS64 + [2**54, 2**44 - 1])))
    if name == 'Perm':
        return '(Perm (%s %d))' % (rnd.choice(['AtLeast', 'Any', 'Equal']), rnd.choice([0, 0o777, 0o7777, 0o644, 0o4000, rnd.randint(0, 4095)]))
    if name == 'Type':
        return '(Type (# %s))' % ' '.join(rnd.choice(FILETYPES) for _ in range(rnd.choice([1, 1, 2, 3])))
    if name == 'XattrMatch':
        return '(XattrMatch %s %s)' % (sx_str(rnd.choice(STR_POOL)), sx_str(rnd.choice(STR_POOL)))
    if name in ('Empty', 'Executable', 'False', 'Readable', 'True', 'Writable', 'NoGroup', 'NoUser'):
        return name
    return '(%s %s)' % (name, sx_str(rnd.choice(STR_POOL)))


def rand_action(rnd, name=None, supported_only=False, files=None):
    files = files or ['out', 'out2', 'o"3']
    if name is None:
        name = rnd.choice(SUPPORTED_ACTIONS if supported_only else SUPPORTED_ACTIONS * 3 + UNSUPPORTED_ACTIONS + ['DefaultPrint'])
    if name in ('FilePrint', 'FilePrintNull', 'FileList'):
        return '(%s %s)' % (name, sx_str(rnd.choice(files)))
    if name == 'FilePrintFormatted':
        return '(FilePrintFormatted %s %s)' % (sx_str(rnd.choice(files)), rand_format(rnd, supported_only))
    if name == 'PrintFormatted':
        return '(PrintFormatted %s)' % rand_format(rnd, supported_only)
    return name


def rand_expr(rnd, depth, supported_only=False, parser_shapes_only=False, p_action=0.3, files=None):
    """Random tree from the public constructors.  parser_shapes_only: no Prec/Global nodes."""
    if depth <= 0 or rnd.random() < 0.3:
        k = rnd.random()
        if k < p_action:
            return '(A %s)' % rand_action(rnd, supported_only=supported_only, files=files)
        if not parser_shapes_only and k > 0.95:
            return rnd.choice(['(G Depth)', '(G (Threads 3))', '(G (MaxDepth 2))', '(G (MinDepth 1))'])
        if not supported_only and k > 0.92:
            return '(Pos XDev)'
        return '(T %s)' % rand_test(rnd, supported_only=supported_only)
    k = rnd.random()
    sub = lambda: rand_expr(rnd, depth - 1, supported_only, parser_shapes_only, p_action, files)
    if k < 0.15:
        return '(Not %s)' % sub()
    if k < 0.2 and not parser_shapes_only:
        return '(Prec %s)' % sub()
    op = rnd.choice(['And', 'And', 'Or', 'List'])
    return '(%s %s %s)' % (op, sub(), sub())


# ------------------------------------------------------------------ C19

def gen_C19(tier, rnd):
    n = 10000 if tier == 'quick' else 200000
    lines = []
    for _ in range(n):
        lines.append('T 0 - %s %s' % (hx('/dev/x'), rand_expr(rnd, rnd.randint(0, 12))))
    units = 0
    for v in SIZES:
        for k in [0, 1, 2, 3, 1023, 2**20, 2**24 - 1, 2**24, 2**34, 2**44 - 1, 2**44, 2**54, 2**63 - 1, 2**63, 2**64 - 1] + [rnd.randint(0, 2**64 - 1) for _ in range(20)]:
            lines.append('U S %s %d' % (v, k)); units += 1
    for v in TIMES:
        for k in [0, 1, 7, 2**64 - 1]:
            lines.append('U T %s %d' % (v, k)); units += 1
    for v in FILETYPES:
        lines.append('U F %s' % v); units += 1
    # every octal escape value as the last (or only) element of a stdout format: framing hinges on 'is the newline escape'
    for v in range(0, 512):
        lines.append('T 0 - %s (A (PrintFormatted (# (Fld Name) (Spc (Ascii %d)))))' % (hx('/dev/x'), v))
        lines.append('T 0 - %s (Or (A Print) (A (PrintFormatted (# (Spc (Ascii %d))))))' % (hx('/dev/x'), v))
    return lines, {'rule': '%d random trees built from the public constructors (depth<=12, including Precedence/Global/Positional nodes and every test/action/format element) + exhaustive unit-table queries with boundary counts; non-trivial = every request' % n,
                   'streams': {'anytrees': n, 'unit_queries': units}}


GENERATORS['C19'] = gen_C19


# ------------------------------------------------------------------ parser-side streams
import gen_parser as gp
GENERATORS['C05'] = gp.gen_vocab
GENERATORS['C07'] = gp.gen_numeric
GENERATORS['C08'] = gp.gen_perm
GENERATORS['C14'] = gp.gen_format
GENERATORS['C18'] = gp.gen_errors
GENERATORS['C13'] = gp.gen_options
GENERATORS['C06'] = gp.gen_layout
GENERATORS['C03'] = gp.gen_totality


def gen_C17(tier, rnd):
    a, ia = gp.gen_totality(tier, rnd)
    b, ib = gp.gen_vocab(tier, rnd)
    b = ['C ' + l.split(' ', 1)[1].split(' #')[0] + ' ' + hx('/dev/x') for l in b]
    # sizes beyond the corpora: long and deeply nested (but far from the stack limit of either build) expressions
    for k in [65, 66, 100, 128, 200, 255, 256, 257, 300]:
        for t in ['( ' * k + '-name x -o -uid 0' + ' )' * k, '! ' * k + '-true', ' -o '.join(['( ! -true )'] * k), ' '.join(['! -name x%d' % i for i in range(k)]),
                  '( ! ' * k + '-name x' + ' )' * k]:
            b.append('C %s %s' % (hx(t), hx('/dev/x')))
    # digit runs beyond every machine word for every numeric reader (decimal and octal), in both builds
    for w in ['2000000000000000000644', '1777777777777777777777', '7' * 22, '7' * 23, '1' + '0' * 22 + '644', '4' + '0' * 42 + '755', '9' * 20, '9' * 39, '1' + '0' * 40]:
        for text in ['-perm %s', '-perm -%s', '-perm /%s', '-uid %s', '-links %s', '-size %sk', '-mtime %s', '-threads %s', '-inum +%s']:
            b.append('C %s %s' % (hx(text % w), hx('/dev/x')))
    # octal escapes in a row (UTF-8 byte sequences spelled as escapes), through parse AND compile, in both builds
    for run in gp.octal_runs():
        esc = ''.join('\\%03o' % v for v in run)
        b.append('C %s %s' % (hx("-printf '%%p %s\\n'" % esc), hx('/dev/x')))
        b.append('C %s %s' % (hx("-fprintf out.txt '%s %%f\\n'" % esc), hx('/dev/x')))
    return a + b, {'rule': 'octal escapes in a row; long and deeply nested expressions (65..300 levels / operands); the C03 (totality) and C05 (vocabulary) corpora through a debug and a release build of the harness, observations compared request by request; ' + ia['rule'], 'streams': {'totality': len(a), 'vocab': len(b)}}


GENERATORS['C17'] = gen_C17


# ------------------------------------------------------------------ compile-side streams
import gen_compile as gc
GENERATORS['C12'] = gc.gen_unsupported
GENERATORS['C04'] = gc.gen_strings
GENERATORS['C20'] = gc.gen_histories_c20
GENERATORS['C11'] = gc.gen_resources
GENERATORS['C16'] = gc.gen_resources
GENERATORS['C09'] = gc.gen_small_trees
GENERATORS['C10'] = gc.gen_actions
GENERATORS['C15'] = gc.gen_histories_c15
GENERATORS['C02'] = gc.gen_trees


# ------------------------------------------------------------------ kitchen sink for the totality-type properties
# C03 (no panic/abort/hang) and C17 (debug = release) apply to ANY request: besides their own corpora they
# get a sample of every other property's stream, so that an input class added for one property is also
# exercised for them.
def _with_sink(gen, own_pid, per_quick=400, per_thorough=4000, maxlen=None):
    def g(tier, rnd):
        lines, info = gen(tier, rnd)
        per = per_quick if tier == 'quick' else per_thorough
        extra = []
        for pid in sorted(GENERATORS):
            if pid in ('C03', 'C17', own_pid):
                continue
            sub = random.Random('%s:%s' % (pid, rnd.random()))
            other, _ = _BASE[pid](tier, sub)
            if maxlen:
                other = [l for l in other if len(l) <= maxlen]
            if len(other) > per:
                other = sub.sample(other, per)
            for l in other:
                if l.startswith('P '):
                    parts = l.split(' ')
                    l = 'C ' + parts[1] + ' ' + hx('/dev/x') + ((' ' + ' '.join(p for p in parts[2:] if p.startswith('#'))) if len(parts) > 2 else '')
                # trees with option/precedence nodes are not results of parse(): outside these properties' domain
                if l.startswith('T ') and ('(G ' in l or '(Prec ' in l or '(Pos ' in l):
                    continue
                if l.startswith(('C ', 'T ')):
                    extra.append(l)
        info = dict(info)
        info['rule'] = 'a sample of every other property\'s stream (%d requests); ' % len(extra) + info['rule']
        info['streams'] = dict(info.get('streams', {}), sink=len(extra))
        return lines + extra, info
    return g


_BASE = dict(GENERATORS)
GENERATORS['C03'] = _with_sink(_BASE['C03'], 'C03')
GENERATORS['C17'] = _with_sink(_BASE['C17'], 'C17')
# translation validity is stated for every expression that compiles: same sample
GENERATORS['C02'] = _with_sink(_BASE['C02'], 'C02', 150, 1500, 1500)
