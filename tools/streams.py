"""Request-stream generators, one per property.  Every random choice derives from one PRNG
seeded with VERIF_SEED.  Requests are lines of the harness protocol; `#k=v` fields are
annotations for the driver (ignored by the harness)."""
import os, random, itertools, re, collections

ROOT = os.path.dirname(os.path.dirname(os.path.abspath(__file__)))


def hx(s):
    return 'x' + s.encode('utf-8').hex()


def unhex(h):
    try:
        return bytes.fromhex(h[1:]).decode('utf-8', 'replace')
    except ValueError:
        return h


def corpus(pid):
    p = os.path.join(ROOT, 'corpus', pid + '.txt')
    if not os.path.exists(p):
        return []
    return [l.rstrip('\n') for l in open(p) if l.strip() and not l.startswith('//')]


def histogram(results):
    h = collections.Counter()
    for (r, o, v) in results:
        parts = o.split(' ')
        cls = parts[1] if len(parts) > 1 else '?'
        if ' | ' in o:
            cls += '+' + o.split(' | ')[1].split(' ')[0]
        h[v.split(' ')[0] + ':' + cls] += 1
    return dict(h)


def nontrivial(pid, r, o):
    parts = r.split(' ')
    if parts[0] in ('P', 'C') and len(parts) > 1:
        return len(unhex(parts[1]).split()) >= 2
    return True


def cross_profile(results):
    """C17: pair the debug and release observation of each request."""
    by = collections.defaultdict(dict)
    for (r, o, v) in results:
        pf, _, rest = o.partition(' ')
        by[r][pf] = rest
    out = []
    for r, d in by.items():
        if 'debug' in d and 'release' in d:
            a, b = normalise_clock(d['debug']), normalise_clock(d['release'])
            if a != b:
                out.append((r, 'both ' + d['debug'][:300] + ' <> ' + d['release'][:300], 'PFAIL C17 debug-and-release-differ'))
            else:
                out.append((r, 'both same', 'OK'))
    return out


def normalise_clock(obs):
    # COK t0 t1 … and the embedded seconds inside the hex program are left alone: both builds are
    # run within the same second almost always; a differing second is normalised here.
    return re.sub(r'COK \d+ \d+', 'COK T T', obs)


# ------------------------------------------------------------------ C01

C01_WORDS = ['(', ')', '!', ',', '-a', '-and', '-o', '-or', '-true', '-false', '-name x']


def gen_C01(tier, rnd):
    maxlen = 5 if tier == 'quick' else 6
    lines = []
    for n in range(0, maxlen + 1):
        for combo in itertools.product(C01_WORDS, repeat=n):
            lines.append('P ' + hx(' '.join(combo)))
    nrand = 20000 if tier == 'quick' else 200000
    for _ in range(nrand):
        n = rnd.randint(7, 40)
        lines.append('P ' + hx(' '.join(rnd.choice(C01_WORDS) for _ in range(n))))
    ntree = 10000 if tier == 'quick' else 100000
    for _ in range(ntree):
        lines.append('P ' + hx(' '.join(spell_tree(rand_tree(rnd, rnd.randint(1, 8)), rnd, 0))))
    return lines, {'rule': 'all word sequences over %d symbols up to length %d (exhaustive), %d random sequences of length 7-40, %d random well-formed trees (depth<=8) spelled with random AND/OR synonyms and redundant parentheses; non-trivial = at least two words'
                   % (len(C01_WORDS), maxlen, nrand, ntree), 'exhaustive': False,
                   'streams': {'exhaustive_len<=%d' % maxlen: sum(len(C01_WORDS) ** n for n in range(maxlen + 1)), 'random_seq': nrand, 'random_trees': ntree}}


def rand_tree(rnd, depth):
    if depth <= 0 or rnd.random() < 0.25:
        return rnd.choice(['-true', '-false', '-name x'])
    k = rnd.random()
    if k < 0.2:
        return ('not', rand_tree(rnd, depth - 1))
    op = rnd.choice(['and', 'and', 'or', 'list'])
    return (op, rand_tree(rnd, depth - 1), rand_tree(rnd, depth - 1))


LEVEL = {'list': 0, 'or': 1, 'and': 2}


def spell_tree(t, rnd, need):
    """Words of a tree placed where binding level >= need is required."""
    if isinstance(t, str):
        w = [t]
        have = 3
    elif t[0] == 'not':
        w = ['!'] + spell_tree(t[1], rnd, 3)
        have = 3
    else:
        op = t[0]
        have = LEVEL[op]
        sep = {'and': rnd.choice([[], ['-a'], ['-and']]), 'or': [rnd.choice(['-o', '-or'])], 'list': [',']}[op]
        w = spell_tree(t[1], rnd, have) + sep + spell_tree(t[2], rnd, have + 1)
    if have < need or rnd.random() < 0.1:
        w = ['('] + w + [')']
    return w


GENERATORS = {'C01': gen_C01}


def generate(pid, tier, seed):
    rnd = random.Random(seed * 1000003 + int(pid[1:]))
    return GENERATORS[pid](tier, rnd)
