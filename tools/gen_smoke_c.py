import random, sys
rnd = random.Random(int(sys.argv[1]) if len(sys.argv) > 1 else 1)
def hx(s): return 'x' + s.encode('utf-8').hex()
words = ['(', ')', '!', ',', '-a', '-o', '-true', '-false', '-name x', '-print', '-depth', '-threads 4',
 '-amin 5', '-amin +5m', '-atime -3', '-mmin 5d', '-ctime 7h', '-cmin 2s', '-size 5', '-size +5k', '-size -5M', '-size 5G','-size 1T','-size 3c','-size 9w','-size 2b','-size 18446744073709551615w',
 '-uid 5', '-gid +4294967295', '-inum -3', '-links 18446744073709551615',
 '-type f', '-type f,d', '-type b,c,p,l,s', '-perm 777', '-perm 0644', '-perm -u+x', '-perm /g=rw,o-x', '-perm u=rwx,u-r', "-perm 'u+r'",
 '-perm 7777', '-name "a b"', "-name 'c d'", '-iname x*', '-path ./a', '-ipath B', '-pool p1', '-xattr user.a', '-xattr-match a b', "-xattr-match a 'b*'",
 '-empty', '-executable', '-readable', '-writable', '-nouser', '-nogroup', '-user bob', '-group g', '-regex r', '-iregex r', '-samefile f', '-fstype ext4',
 '-anewer f', '-mirror-count 2', '-stripe-count +3', '-print0', '-printf "%p\\n"', "-printf '%s %u\\t%%'", '-printf "abc"', '-fprint out', '-fprint0 out', '-fprint out2',
 '-fprintf out "%p\\n"', '-fls l', '-ls', '-prune', '-quit', '-print-file-fid', 'nope', '-printf "\\101\\n"', '-printf "\\q\\\\"', '-printf "%A@ %Ak %{xattr:user}"', '-printf "%d"', '-printf "a\\c"',
 '-printf "%{fid}%{projid}%{mirror-count}%{stripe-count}%{stripe-size}"', '-name \'a"b\'', '-name a\\', '-printf "~a~"', '-printf \'%A"\'', "-pool 'p\"q'", '-fprint \'o"ut\'', '-printf "%a %b %c %f %g %G %h %H %i %k %m %n %p %P %s %S %t %u %U %y %Tk %C@\\n"', '-iname foo', '-name foo', '-name foo']
seps = [' ', ' ', '  ', '\n', '\t']
n = int(sys.argv[2]) if len(sys.argv) > 2 else 2000
paths = ['/dev/x', 'a"b', 'c\\d', 'é ~']
for _ in range(n):
    k = rnd.randint(0, 6)
    s = ''
    for i in range(k):
        s += rnd.choice(words) + rnd.choice(seps)
    print('C ' + hx(s) + ' ' + hx(rnd.choice(paths)))
