"""Generators for the compile-side streams (unsupported, strings, histories, resources,
small-trees, actions)."""
import itertools, random
from streams import (hx, rand_expr, rand_test, rand_action, rand_format, sx_str, UNSUPPORTED_TESTS, UNSUPPORTED_ACTIONS,
                     UNSUPPORTED_FIELDS, SUPPORTED_TESTS, SUPPORTED_ACTIONS)

DEV = hx('/dev/x')



# how a stdout format may end: the newline escape last, or anything else last (a newline earlier does not terminate the record)
ENDINGS = ['(Spc Newline)', '(Spc Newline) (Lit %s)' % sx_str(' '), '(Spc Newline) (Lit %s)' % sx_str('--'), '(Spc Newline) (Fld Name)', '(Spc Newline) (Spc TabHorizontal)',
           '(Spc Newline) (Spc Newline)', '(Lit %s)' % sx_str('x\n'), '(Lit %s)' % sx_str('\n'), '(Lit %s) (Spc Newline)' % sx_str('\n'), '(Spc Newline) (Lit %s)' % sx_str('\n'),
           '(Spc CarriageReturn)', '(Spc Newline) (Spc Null)', '(Spc Null) (Spc Newline)', '(Spc Backslash)', '(Spc (Ascii 10)) (Spc Newline)']

def all_format_elements():
    from streams import FIELDS0, SPECIALS0
    els = ['(Fld %s)' % f for f in FIELDS0 if f not in ('Depth', 'DeviceNumber', 'FsType', 'SymbolicTarget', 'PermissionsSymbolic', 'TypeSymlink', 'SecurityContext')]
    els += ['(Fld (AccessFormatted c64))', '(Fld (ChangeFormatted c107))', '(Fld (ModifyFormatted c89))', '(Fld (XAttr %s))' % sx_str('user'), '(Fld (XAttr %s))' % sx_str('a')]
    els += ['(Spc %s)' % x for x in SPECIALS0 if x != 'Clear'] + ['(Spc (Ascii 10))', '(Spc (Ascii 65))', '(Spc (Ascii 0))', '(Lit %s)' % sx_str('x'), '(Lit %s)' % sx_str('\n'), '(Lit %s)' % sx_str(' ')]
    return els


def format_tail_trees():
    """Formats of one and two elements over EVERY element kind, on stdout (alone: plain or framed by its own ending;
    next to -print; next to a file action: framed) and into a file."""
    els = all_format_elements()
    trees = []
    fmts = ['(# %s)' % a for a in els] + ['(# %s %s)' % (a, b) for a in els for b in els]
    for f in fmts:
        trees.append('(A (PrintFormatted %s))' % f)
    clear = '(Spc Clear)'
    few = ['(Fld Name)', '(Spc Newline)', '(Lit %s)' % sx_str('x'), clear]
    for a in few:
        for b in few:
            for c in few:
                for d in [None] + few:
                    f = '(# %s)' % ' '.join(x for x in [a, b, c, d] if x)
                    if clear in f:
                        trees.append('(A (PrintFormatted %s))' % f)
    for f in fmts[::3]:
        trees.append('(And (A Print) (A (PrintFormatted %s)))' % f)
        trees.append('(List (A (PrintFormatted %s)) (A (FilePrint %s)))' % (f, sx_str('o')))
        trees.append('(A (FilePrintFormatted %s %s))' % (sx_str('o'), f))
    return trees


def T(tree, path=DEV, depth=0, threads='-', annot=''):
    return 'T %d %s %s %s%s' % (depth, threads, path, tree, (' ' + annot) if annot else '')


def vary_options(lines, rnd, share=0.3):
    """Give a share of the T requests explicit run options (thread counts incl. 1, -depth): no property about the
    emitted program except the thread count itself may depend on them."""
    out = []
    for l in lines:
        if l.startswith('T 0 - ') and rnd.random() < share:
            l = 'T %d %s %s' % (rnd.choice([0, 0, 1]), rnd.choice(['1', '1', '2', '64', '4294967295', '-']), l[6:])
        out.append(l)
    return out


# ------------------------------------------------------------------ C12

def gen_unsupported(tier, rnd):
    lines = []
    for t in UNSUPPORTED_TESTS:
        lines.append(T('(T %s)' % rand_test(rnd, t)))
    for a in UNSUPPORTED_ACTIONS:
        lines.append(T('(A %s)' % rand_action(rnd, a)))
    for f in UNSUPPORTED_FIELDS:
        lines.append(T('(A (PrintFormatted (# (Lit %s) (Fld %s) (Spc Newline))))' % (sx_str('a'), f)))
        lines.append(T('(A (FilePrintFormatted %s (# (Fld Name) (Fld %s))))' % (sx_str('o'), f)))
    lines.append(T('(A (PrintFormatted (# (Lit %s) (Spc Clear))))' % sx_str('a')))
    lines.append(T('(Pos XDev)'))
    lines.append('C %s %s' % (hx('nope'), DEV))
    lines.append('C %s %s' % (hx("-printf 'a\\c'"), DEV))
    n = 5000 if tier == 'quick' else 100000
    for i in range(n):
        so = rnd.random() < 0.4
        lines.append(T(rand_expr(rnd, rnd.randint(0, 6), supported_only=so, parser_shapes_only=True)))
    # dead branches
    for t in UNSUPPORTED_TESTS[:4]:
        u = '(T %s)' % rand_test(rnd, t)
        for shape in ['(And (T False) %s)', '(Or (T True) %s)', '(Not %s)', '(List %s (T True))', '(And (A Quit) %s)', '(Or (Or (T True) (T False)) (And (T False) %s))']:
            lines.append(T(shape % u))
    return lines, {'rule': 'every unsupported construct alone (13 tests, 3 actions, 7 directives in -printf and -fprintf, \\c, the positional option), unsupported constructs in dead branches, and %d random trees over the full vocabulary (parser shapes) of which ~40%% are built from supported constructs only; non-trivial = every request' % n,
                   'streams': {'unsupported': len(lines)}}


# ------------------------------------------------------------------ C04

C04_ALPHABET = ['"', '\\', '~', '%', '(', ')', ';', '#', "'", '\n', '\t', ' ', 'a', 'é']


def has_glob(s):
    return any(c in s for c in '?*[')


def c04_sites():
    """site name -> (tree builder(s), strs(s) expected string leaves, benign(s))"""
    ctx = '(And (T True) %s)'
    nl = '(Spc Newline)'
    sites = {}
    for ctor in ['Name', 'InsensitiveName', 'Path', 'InsensitivePath']:
        sites[ctor] = (lambda s, c=ctor: ctx % ('(T (%s %s))' % (c, sx_str(s))), lambda s: [s], lambda s: 'a?' if has_glob(s) else 'a')
    sites['Pool'] = (lambda s: ctx % ('(T (Pool %s))' % sx_str(s)), lambda s: [s], lambda s: 'a')
    sites['Xattr'] = (lambda s: ctx % ('(T (Xattr %s))' % sx_str(s)), lambda s: [s], lambda s: 'a')
    off = lambda s: 'a?' if any(c in s for c in "*?['") else 'a'
    sites['XattrMatchField'] = (lambda s: ctx % ('(T (XattrMatch %s %s))' % (sx_str(s), sx_str('v'))), lambda s: [s, 'v'], off)
    sites['XattrMatchValue'] = (lambda s: ctx % ('(T (XattrMatch %s %s))' % (sx_str('f'), sx_str(s))), lambda s: ['f', s], off)
    sites['FilePrint'] = (lambda s: ctx % ('(A (FilePrint %s))' % sx_str(s)), lambda s: [s], lambda s: 'a')
    sites['FilePrintNull'] = (lambda s: ctx % ('(A (FilePrintNull %s))' % sx_str(s)), lambda s: [s], lambda s: 'a')
    sites['FilePrintFormattedFile'] = (lambda s: ctx % ('(A (FilePrintFormatted %s (# (Fld Name) %s)))' % (sx_str(s), nl)), lambda s: [s], lambda s: 'a')
    tmpl = lambda s: [s.replace('~', '~~') + '~a\n']
    sites['PrintFormattedLiteral'] = (lambda s: ctx % ('(A (PrintFormatted (# (Lit %s) (Fld Name) %s)))' % (sx_str(s), nl)), tmpl, lambda s: 'a')
    sites['FilePrintFormattedLiteral'] = (lambda s: ctx % ('(A (FilePrintFormatted %s (# (Lit %s) (Fld Name) %s)))' % (sx_str('o'), sx_str(s), nl)), lambda s: ['o'] + tmpl(s), lambda s: 'a')
    return sites


def gen_strings(tier, rnd):
    lines = []
    sites = c04_sites()
    maxlen = 2 if tier == 'quick' else 3
    strings = []
    for n in range(1, maxlen + 1):
        for combo in itertools.product(C04_ALPHABET, repeat=n):
            strings.append(''.join(combo))
    for _ in range(400 if tier == 'quick' else 8000):
        strings.append(''.join(rnd.choice(C04_ALPHABET + ['*', '?', '[', 'b', 'Z', '\x7f', '\x01', ' ', '𝄞']) for _ in range(rnd.randint(3, 40))))
    # every Unicode class at every site: C0/DEL/C1 controls, 1..4-byte characters, separators, noncharacters
    for c in ['\x01', '\x08', '\x0b', '\x0c', '\x1b', '\x1f', '\x7f', '\x80', '\x85', '\x9f', '\xa0', '\u0378', '\u2028', '\ufeff', '\uffff', '\U0001f600', '\U0010ffff']:
        strings += [c, 'a' + c, c + 'b', 'a' + c + 'b', c + c, c + '"', '\\' + c]
    strings += ['{}', '{mdt}', 'v{}', '{0}', '%s', '$mdt', '/dev/x', '"/dev/x"', '(', ')', 'a(b', ':)',
                # text that looks like a placeholder of some templating scheme, alone and embedded
                '@MDT@', '@MDT@*', 'x@MDT@', '<mdt>', '__MDT__', '%MDT%', '${mdt}', '{{mdt}}', '%(mdt)s', '#{mdt}', '$1', '\\1', '{device}', '@@', '@DEVICE@', 'MDT']
    try:
        import srcdict
        strings += [w for w in srcdict.word_like(srcdict.literals(), 14) if 0 < len(w) <= 14][:400]
    except Exception:
        pass
    g = 0
    for name, (build, strs, benign) in sites.items():
        for s in strings:
            g += 1
            b = benign(s)
            lines.append(T(build(b), annot='#grp=s%d #strs=%s' % (g, ','.join(hx(x) for x in strs(b) + ['/dev/x']))))
            lines.append(T(build(s), annot='#grp=s%d #strs=%s' % (g, ','.join(hx(x) for x in strs(s) + ['/dev/x']))))
    # TWO string sites in one expression whose strings differ only up to a plausible normalisation, or collide when a
    # sharing key is built by concatenating the string with a flag: each must still appear as its own literal
    for b in ['x', '*.log', 'docs']:
        for t in twins(b) + key_twins(b):
            for (m1, m2) in [('Name', 'InsensitiveName'), ('InsensitiveName', 'Name'), ('Path', 'InsensitivePath'), ('InsensitivePath', 'Path'), ('Name', 'Name')]:
                tree = lambda x, y: '(Or (T (%s %s)) (T (%s %s)))' % (m1, sx_str(x), m2, sx_str(y))
                for (x, y) in [(t, b), (b, t)]:
                    g += 1
                    # the benign twin keeps the kind of matcher (a pattern stays a pattern): only the strings differ
                    bx, by = ('q*' if has_glob(x) else 'aaa'), ('r*' if has_glob(y) else 'bbb')
                    lines.append(T(tree(bx, by), annot='#grp=s%d #strs=%s' % (g, ','.join(hx(z) for z in [bx, by, '/dev/x']))))
                    lines.append(T(tree(x, y), annot='#grp=s%d #strs=%s' % (g, ','.join(hx(z) for z in [x, y, '/dev/x']))))
    # every octal escape value: the character it denotes is user text inside the template
    for v in list(range(0, 256)) + [256, 0o377, 0o400, 0o776, 0o777]:
        g += 1
        tree = lambda code: '(A (PrintFormatted (# (Lit %s) (Spc (Ascii %d)) (Fld Name) (Spc Newline))))' % (sx_str('a'), code)
        leaf = lambda code: 'a' + chr(code).replace('~', '~~') + '~a\n'
        lines.append(T(tree(65), annot='#grp=s%d #strs=%s' % (g, ','.join([hx(leaf(65)), hx('/dev/x')]))))
        lines.append(T(tree(v), annot='#grp=s%d #strs=%s' % (g, ','.join([hx(leaf(v)), hx('/dev/x')]))))
    # octal escapes IN A ROW that spell (or almost spell) a UTF-8 byte sequence: each is one character of user text
    from gen_parser import octal_runs
    for run in octal_runs():
        g += 1
        tree = lambda codes: '(A (PrintFormatted (# (Lit %s) %s (Fld Name) (Spc Newline))))' % (sx_str('a'), ' '.join('(Spc (Ascii %d))' % c for c in codes))
        leaf = lambda codes: 'a' + ''.join(chr(c).replace('~', '~~') for c in codes) + '~a\n'
        lines.append(T(tree([65] * len(run)), annot='#grp=s%d #strs=%s' % (g, ','.join([hx(leaf([65] * len(run))), hx('/dev/x')]))))
        lines.append(T(tree(run), annot='#grp=s%d #strs=%s' % (g, ','.join([hx(leaf(run)), hx('/dev/x')]))))
    # strftime conversion character and the device path
    for c in C04_ALPHABET + ['k', 'Y']:
        g += 1
        tree = lambda ch: '(A (PrintFormatted (# (Fld (AccessFormatted c%d)) (Fld (ChangeFormatted c%d)) (Fld (ModifyFormatted c%d)) (Spc Newline))))' % (ord(ch), ord(ch), ord(ch))
        lines.append(T(tree('k'), annot='#grp=s%d #strs=%s' % (g, hx('%k'))))
        lines.append(T(tree(c), annot='#grp=s%d #strs=%s' % (g, hx('%' + c))))
    for s in strings[:3000]:
        g += 1
        lines.append(T('(T True)', path=hx('a'), annot='#grp=s%d #strs=%s' % (g, hx('a'))))
        lines.append(T('(T True)', path=hx(s), annot='#grp=s%d #strs=%s' % (g, hx(s))))
    # through the parser, in each quoting style that admits the string
    for s in strings[:300]:
        for q in ["'", '"']:
            if q in s or not s:
                continue
            lines.append('C %s %s #strs=%s' % (hx('-name %s%s%s -fprint %s%s%s' % (q, s, q, q, s, q)), DEV, ','.join([hx(s), hx('/dev/x')])))
    return lines, {'rule': '%d string-carrying sites x all strings of length 1..%d over the 14-symbol alphabet (quote, backslash, tilde, percent, parentheses, semicolon, hash, apostrophe, newline, tab, space, a, e-acute) plus 17 Unicode classes (C0, DEL and C1 controls, 1..4-byte characters, separators, noncharacters) alone and embedded, plus random strings up to 40 characters (with glob, control and non-BMP characters); each hostile string paired with a benign string of the same glob class; every octal escape value 0..0777 inside a template; strftime characters; device paths; the same strings through the parser in both quoting styles; non-trivial = every request' % (len(sites), maxlen),
                   'streams': {'strings': len(lines)}}


# ------------------------------------------------------------------ C20

PATHS = ['/dev/x', '/dev/mdt0', 'a"b', 'c\\d', 'é ~', 'p q', '(x)', ';#|', "it's", 'x' * 300, '\t', '"', '\\', '~a',
         '/mnt' + 'é' * 60, '/mnt/' + 'é' * 60, '/dev/disk/by-id/dm-name-' + '日本' * 10 + '-MDT0000', '😀' * 30,
         '/mnt/\x1b[1mmdt', '\x7f', 'a\u200bb', '\ufeff', '\x01', 'x\x85y', '\U0001f600', '\u0378', '\x00', 'a\nb', '\r', '\u2028', '\x9f']


def rand_compilable_text(rnd):
    words = ['-true', '-name x', '-name y*', '-iname x', '-print', '-print0', '-fprint out', '-fprint0 out', "-printf '%p\\n'", "-printf '%s'",
             '-uid 5', '-size +1k', '-type f', '-perm 644', '-amin 5', '-mtime -2', '-o', '-a', ',', '!', '-threads 4', '-depth',
             "-fprintf log '%p %u\\n'", '-quit', '-pool p', '-xattr user.a', '-empty', '-print-file-fid']
    from gen_parser import rand_expr_words
    ws = []
    def expr(d):
        if d <= 0 or rnd.random() < 0.4:
            return [rnd.choice([w for w in words if w not in ('-o', '-a', ',', '!')])]
        k = rnd.random()
        if k < 0.15:
            return ['!'] + expr(0)
        if k < 0.3:
            return ['('] + expr(d - 1) + [')']
        return expr(d - 1) + rnd.choice([[], ['-a'], ['-o'], [',']]) + expr(d - 1)
    return ' '.join(expr(rnd.randint(0, 4)))


def gen_histories_c20(tier, rnd):
    lines = []
    n = 500 if tier == 'quick' else 10000
    for _ in range(n):
        k = rnd.randint(2, 5)
        ps = [rnd.choice(PATHS) for _ in range(k)]
        if rnd.random() < 0.5:
            ps[-1] = ps[0]
        lines.append('C %s %s' % (hx(rand_compilable_text(rnd)), ' '.join(hx(p) for p in ps)))
    for L in range(60, 100):
        lines.append('C %s %s' % (hx('-name *.log -fprint out.txt'), ' '.join(hx(p) for p in ['/' + 'é' * L, '/a' + 'é' * L, '/' + 'é' * L])))
    # a path followed by the text of its own ESCAPED spelling (and the other way round): a render cache keyed before
    # escaping on one side and after it on the other would confuse the two
    def esc(pth):
        return ''.join('\\"' if c == '"' else '\\\\' if c == '\\' else ('\\x%x;' % ord(c)) if ord(c) < 32 or ord(c) == 127 else c for c in pth)
    for P0 in ['/dev/mapper/mdt"0', 'a\\b', 'x"y\\z', '/d\x01e', 'q~a"', '"', '\\', '/dev/é"\\']:
        for seq in [[P0, esc(P0)], [esc(P0), P0], [P0, esc(P0), P0, esc(esc(P0))], [P0, P0, esc(P0)], [esc(esc(P0)), esc(P0), P0]]:
            for text in ['-name x -print', "-printf '%p\\n' -fprint out", '-print0']:
                lines.append('C %s %s' % (hx(text), ' '.join(hx(q) for q in seq)))
    # user strings that look like a template slot or like the device path itself must stay what they are
    markers = ['{mdt}', '{}', '{0}', '{device}', '%s', '%MDT%', '$mdt', '${mdt}', '@MDT@', 'MDT', '~a', '/dev/x', '/dev/mdt0', '"/dev/x"', '<mdt>', '__MDT__']
    for mk in markers:
        for text in ['-name %s -print' % mk, '-path */%s/* -print0' % mk, "-printf '%s:%%p\\n'" % mk, '-fprint %s' % mk, '-pool %s' % mk, '-xattr-match %s %s' % (mk, mk)]:
            lines.append('C %s %s' % (hx(text), ' '.join(hx(p) for p in ['/dev/x', '/dev/mdt0', 'fs~MDT0000', mk, '/dev/x'])))
    return lines, {'rule': 'every string site carrying each of 16 slot-like or device-like markers ({mdt}, {}, %%s, $mdt, the device path itself ...) rendered for 5 devices, plus %d random compiled expressions, each rendered 2..5 times for device paths drawn from benign and hostile strings (quotes, backslashes, spaces, non-ASCII, 300 characters), with repeats, a destination-table query after every render; non-trivial = every request' % n,
                   'streams': {'histories': len(lines)}}


# ------------------------------------------------------------------ C11 / C16

def twins(s):
    """Strings that an implementation which normalises keys (case folding, path clean-up, unescaping, trimming)
    might wrongly identify with s.  Every pair (s, twin) names two DIFFERENT resources."""
    import unicodedata
    cand = [s, './' + s, './/' + s, s + '/', '/' + s, s.upper(), s.lower(), s.swapcase(), ' ' + s, s + ' ', s + '\\',
            ''.join('\\' + c if c in '*?[' else c for c in s), ''.join('\\' + c for c in s), s.replace('*', '?'),
            unicodedata.normalize('NFD', s), s + '\u0301', s + s, s[:-1] if len(s) > 1 else s + 'x',
            s.replace('/', '//'), s.replace('/', '/./'), s + '/.', 'd/../' + s, s.replace('.', '%2e'),
            s.replace('*', '**'), s.replace('*', '\\**'), s.replace('*', '\\*'), s.replace('?', '??'), s + '*', s + '**', '*' + s]
    out = []
    for c in cand:
        if c != s and c not in out:
            out.append(c)
    return out


TWIN_BASES = ['out', 'a*', 'x[1]', 'Ab?', 'é.txt', 'log.0', 'logs/a.txt']


def twin_trees():
    """Two resources whose keys differ only up to a plausible normalisation, in one expression, in both orders."""
    trees = []
    for b in TWIN_BASES:
        for t in twins(b):
            for x, y in [(b, t), (t, b)]:
                for m in ['Name', 'InsensitiveName', 'Path', 'InsensitivePath']:
                    trees.append('(Or (T (%s %s)) (T (%s %s)))' % (m, sx_str(x), m, sx_str(y)))
                trees.append('(And (T (Name %s)) (And (A (FilePrint %s)) (And (T (Path %s)) (A (FilePrintNull %s)))))' % (sx_str(x), sx_str('o'), sx_str(y), sx_str('o')))
                for a in ['FilePrint', 'FilePrintNull']:
                    trees.append('(List (A (%s %s)) (A (%s %s)))' % (a, sx_str(x), a, sx_str(y)))
                trees.append('(Or (And (T (Name %s)) (A (FilePrint %s))) (And (T (Name %s)) (A (FilePrint %s))))' % (sx_str('a'), sx_str(x), sx_str('b'), sx_str(y)))
                trees.append('(List (A (FilePrintFormatted %s (# (Fld Name) (Spc Newline)))) (A (FilePrintFormatted %s (# (Fld Name) (Spc Newline)))))' % (sx_str(x), sx_str(y)))
    return trees


def key_twins(s):
    """Strings that collide with s when a sharing key is built by CONCATENATING the string with a flag, a kind or a
    terminator (key = s + sep + tag or tag + sep + s)."""
    out = []
    for sep in ['-', '/', ':', '|', '_', ',', ' ', '.', '#', '']:
        for tag in ['i', 'ci', 'I', '1', '0', 'true', 'false', 'n', 'nul', 'null', 'None', 'fnmatch', 'streq', 'name', 'path']:
            if sep == '' and len(tag) > 2:
                continue
            out.append(s + sep + tag); out.append(tag + sep + s)
    return out


def key_twin_trees():
    trees = []
    for b in ['x', '*.log', 'docs']:
        for t in key_twins(b):
            for (m1, m2) in [('Name', 'InsensitiveName'), ('InsensitiveName', 'Name'), ('Path', 'InsensitivePath'), ('InsensitivePath', 'Path'),
                             ('Name', 'Path'), ('InsensitiveName', 'InsensitivePath')]:
                trees.append('(Or (T (%s %s)) (T (%s %s)))' % (m1, sx_str(t), m2, sx_str(b)))
                trees.append('(Or (T (%s %s)) (T (%s %s)))' % (m2, sx_str(b), m1, sx_str(t)))
    for b in ['out', 'f1']:
        for t in key_twins(b):
            for (a1, a2) in [('FilePrint', 'FilePrintNull'), ('FilePrintNull', 'FilePrint')]:
                trees.append('(List (A (%s %s)) (A (%s %s)))' % (a1, sx_str(t), a2, sx_str(b)))
                trees.append('(List (A (%s %s)) (A (%s %s)))' % (a2, sx_str(b), a1, sx_str(t)))
            trees.append('(List (A (FilePrint %s)) (A (FilePrintFormatted %s (# (Fld Name)))))' % (sx_str(t), sx_str(b)))
    return trees


SPECIAL_NAMES = ['/dev/stdout', '/dev/stderr', '/dev/null', '/dev/fd/1', '/proc/self/fd/1', '-', 'stdout', '/dev/tty', 'CON', 'NUL', '/dev/stdin', '&1', '>out']


def special_name_trees():
    """File destinations whose NAME means something to other tools, alone and next to the stdout action of the same kind
    (both orders): each is an ordinary file destination with its own table entry."""
    trees = []
    for nm in SPECIAL_NAMES:
        n = sx_str(nm)
        for (std, fil) in [('(A Print)', '(A (FilePrint %s))' % n), ('(A PrintNull)', '(A (FilePrintNull %s))' % n),
                           ('(A (PrintFormatted (# (Fld Name) (Spc Newline))))', '(A (FilePrintFormatted %s (# (Fld Name) (Spc Newline))))' % n),
                           ('(A (PrintFormatted (# (Fld Name))))', '(A (FilePrintFormatted %s (# (Fld Name))))' % n)]:
            trees += [fil, '(List %s %s)' % (std, fil), '(List %s %s)' % (fil, std), '(And %s (And %s (A (FilePrint %s))))' % (std, fil, sx_str('out'))]
    return trees


def special_name_texts():
    return ['-print -fprint %s' % nm for nm in SPECIAL_NAMES if ' ' not in nm and not nm.startswith('-') and nm[0] not in '&>'] + \
           ['-print0 -fprint0 %s -fprint0 out' % nm for nm in SPECIAL_NAMES[:6]] + \
           ["-printf '%%p\\n' -fprintf %s '%%p\\n'" % nm for nm in SPECIAL_NAMES[:6]]


def adjacent_format_trees():
    """Two (three) formatted prints next to each other under every operator, with every combination of endings."""
    ends = ENDINGS[:8] + ['(Lit %s)' % sx_str(' '), '(Fld UserId)']
    trees = []
    for e1 in ends:
        for e2 in ends:
            a = '(A (PrintFormatted (# (Fld Name) %s)))' % e1
            b = '(A (PrintFormatted (# (Fld DiskSizeBytes) %s)))' % e2
            for op in ['And', 'Or', 'List']:
                trees.append('(%s %s %s)' % (op, a, b))
            trees.append('(And (And (T (Name %s)) %s) %s)' % (sx_str('n'), a, b))
            trees.append('(Not (Prec (And %s (Prec %s))))' % (a, b)) if False else None
            trees.append('(And %s (And %s (A (PrintFormatted (# (Fld Name) (Spc Newline))))))' % (a, b))
    return [t for t in trees if t]


def twin_texts():
    """The same through the parser (strings a bare word can spell)."""
    texts = []
    for b in ['out.txt', 'log', 'a*']:
        for t in ['./' + b, './/' + b, b + '/', b.upper(), '\\' + b if False else b + '.', 'X' + b]:
            texts.append("-name a -fprint %s -o -name b -fprint %s" % (b, t))
            texts.append("-fprintf %s '%%p\\n' -fprintf %s '%%p\\n' -fprintf %s '%%p\\n'" % (t, b, './' + t))
            texts.append("-name '%s' -o -name '%s' -o -iname '%s'" % (b, t, b))
    return texts


def gen_resources(tier, rnd):
    lines = []
    n = 2000 if tier == 'quick' else 20000
    names = ['a', 'A', 'a*', 'b', 'B?', 'c', '[c]', 'd.e', 'é']
    files = ['o1', 'o2', 'o3', 'O1']
    for i in range(n):
        k = rnd.choice([0, 1, 2, 3, 5, 8, 13]) if i % 50 else rnd.choice([100, 200, 300])
        framed = rnd.random() < 0.5
        leaves = []
        for j in range(k):
            r = rnd.random()
            if r < 0.5:
                pool = names if k < 50 else ['n%d' % rnd.randint(0, k)]
                leaves.append('(T (%s %s))' % (rnd.choice(['Name', 'InsensitiveName', 'Path', 'InsensitivePath']), sx_str(rnd.choice(pool))))
            else:
                if framed:
                    fpool = files if k < 50 else ['f%d' % rnd.randint(0, k)]
                    leaves.append('(A %s)' % rnd.choice(['Print', 'PrintNull', 'Print', 'PrintFid', '(FilePrint %s)' % sx_str(rnd.choice(fpool)), '(FilePrintNull %s)' % sx_str(rnd.choice(fpool)),
                                                        '(PrintFormatted (# (Fld Name)))', '(FilePrintFormatted %s (# (Fld Name) (Spc Newline)))' % sx_str(rnd.choice(fpool))]))
                else:
                    leaves.append('(A %s)' % rnd.choice(['Print', '(PrintFormatted (# (Fld Name) (Spc Newline)))', 'PrintFid', 'Print']))
        if not leaves:
            leaves = ['(T True)']
        if framed and not any('Null' in l or 'File' in l or '(# (Fld Name))' in l for l in leaves):
            leaves.append('(A PrintNull)')
        tree = leaves[0]
        for l in leaves[1:]:
            tree = '(%s %s %s)' % (rnd.choice(['And', 'And', 'Or', 'List']), tree, l)
        lines.append(T(tree))
    # n distinct matchers followed by 2..3 new printers, for every n up to 40 (every generated-name index is hit by a printer)
    for n in range(0, 41):
        names = ' '.join('(T (Name %s))' % sx_str('n%d' % i) for i in range(n))
        for acts in [['(A (FilePrint %s))' % sx_str('a'), '(A (FilePrint %s))' % sx_str('b')], ['(A (FilePrintNull %s))' % sx_str('a'), '(A PrintNull)', '(A (FilePrint %s))' % sx_str('c')]]:
            leaves = ['(T (Name %s))' % sx_str('n%d' % i) for i in range(n)] + acts
            tree = leaves[0]
            for l in leaves[1:]:
                tree = '(And %s %s)' % (tree, l)
            lines.append(T(tree))
    # plain mode: a formatted print ending in each octal escape value next to -print
    for v in list(range(0, 16)) + [10, 266, 522, 255, 256, 511]:
        lines.append(T('(Or (A Print) (A (PrintFormatted (# (Fld Name) (Spc (Ascii %d))))))' % v))
    for e in ENDINGS:
        lines.append(T('(Or (A Print) (A (PrintFormatted (# (Fld Name) %s))))' % e))
        lines.append(T('(A (PrintFormatted (# (Lit %s) (Fld Name) %s)))' % (sx_str('p '), e)))
    # formats of one and two elements over every element kind (how a record ends decides the mode and the printer)
    lines += [T(t) for t in format_tail_trees()]
    # resources whose keys differ only up to a plausible normalisation (./ prefix, case, escaping, trimming, NFD)
    lines += [T(t) for t in twin_trees()]
    lines += [T(t) for t in special_name_trees() + adjacent_format_trees()]
    # ... or that collide when a key is built by concatenating the string with a flag / kind / terminator
    lines += [T(t) for t in key_twin_trees()]
    lines = vary_options(lines, rnd)
    return lines, {'rule': '%d expressions with 0..13 (every 50th: 100..300) matchers and printers in random first-occurrence order, with repeats, case-only differences, pattern/literal pairs, file and stdout destinations, in plain and framed mode; non-trivial = at least two resources' % n,
                   'streams': {'resources': len(lines)}}


# ------------------------------------------------------------------ C09

def small_trees(max_nodes, leaves):
    by = {1: list(leaves)}
    for n in range(2, max_nodes + 1):
        out = ['(Not %s)' % t for t in by[n - 1]]
        for a in range(1, n - 1):
            b = n - 1 - a
            for op in ['And', 'Or', 'List']:
                for x in by[a]:
                    for y in by[b]:
                        out.append('(%s %s %s)' % (op, x, y))
        by[n] = out
    return [t for n in range(1, max_nodes + 1) for t in by[n]]


def gen_small_trees(tier, rnd):
    leaves = ['(T True)', '(T False)', '(T (Name %s))' % sx_str('x'), '(A Print)', '(A Quit)', '(A (FilePrint %s))' % sx_str('f')]
    trees = small_trees(4 if tier == 'quick' else 5, leaves)
    lines = [T(t) for t in trees]
    n = 2000 if tier == 'quick' else 10000
    for _ in range(n):
        lines.append(T(rand_expr(rnd, rnd.randint(3, 7), supported_only=True, parser_shapes_only=True, p_action=rnd.choice([0, 0, 0.05, 0.3]))))
    # the ONLY action first, then n further clauses (left-nested n levels above it), or under n negations
    for n in [63, 64, 65, 127, 128, 129, 255, 256, 257, 300, 600]:
        for act in ['(A Print)', '(A (FilePrint %s))' % sx_str('f'), '(A Quit)']:
            for op, leaf in [('And', '(T True)'), ('Or', '(T False)'), ('List', '(T (Name %s))' % sx_str('x'))]:
                t = act
                for _ in range(n):
                    t = '(%s %s %s)' % (op, t, leaf)
                lines.append(T(t))
            t = act
            for _ in range(n):
                t = '(Not %s)' % t
            lines.append(T('(And (T True) %s)' % t))
    leaves2 = ['(T True)', '(T False)', '(T (Name %s))' % sx_str('x'), '(A Quit)', '(A PrintFid)', '(A PrintNull)']
    lines += [T(t) for t in small_trees(3 if tier == 'quick' else 4, leaves2)]
    lines = vary_options(lines, rnd, 0.15)
    return lines, {'rule': 'all %d trees with at most %d nodes over {true, false, -name x, -print, -quit, -fprint f} and not/and/or/list (exhaustive), plus %d random larger trees of supported constructs with few or no actions; non-trivial = every request' % (len(trees), 4 if tier == 'quick' else 5, n),
                   'exhaustive': False, 'streams': {'small_trees': len(trees), 'random': n}}


# ------------------------------------------------------------------ C10

def gen_actions(tier, rnd):
    files = ['f1', 'f2', 'f"3']
    kinds = ['Print', 'PrintNull', 'PrintFid', '(PrintFormatted (# (Fld Name) (Spc Newline)))', '(PrintFormatted (# (Fld Name)))',
             '(PrintFormatted (#))', '(PrintFormatted (# (Spc Newline) (Lit %s)))' % sx_str('x')]
    for f in files:
        kinds += ['(FilePrint %s)' % sx_str(f), '(FilePrintNull %s)' % sx_str(f), '(FilePrintFormatted %s (# (Fld Name) (Spc Newline)))' % sx_str(f)]
    kinds.append('Quit')
    lines = []
    maxk = 3 if tier == 'quick' else 4
    multis = []
    for k in range(0, maxk + 1):
        for combo in itertools.combinations_with_replacement(kinds, k):
            multis.append(combo)
    if tier != 'quick':
        for _ in range(100000):
            multis.append(tuple(rnd.choice(kinds) for _ in range(rnd.randint(5, 6))))
    for combo in multis:
        fillers = ['(T True)', '(T True)', '(T (Name %s))' % sx_str('m1'), '(T (InsensitiveName %s))' % sx_str('m*'), '(T (Path %s))' % sx_str('m1'),
                   '(T (Size (GT (KiloByte 1))))']
        leaves = ['(A %s)' % a for a in combo] + [rnd.choice(fillers) for _ in range(rnd.randint(0, 3))]
        rnd.shuffle(leaves)
        if not leaves:
            leaves = ['(T True)']
        tree = leaves[0]
        for l in leaves[1:]:
            tree = '(%s %s %s)' % (rnd.choice(['And', 'Or', 'List', 'And']), tree, l)
        if rnd.random() < 0.2:
            tree = '(Not %s)' % tree
        lines.append(T(tree))
    for k in list(range(1, 40)) + [100, 200, 254, 255, 256, 300]:
        leaves = ['(A (FilePrint %s))' % sx_str('d%d' % i) for i in range(k)]
        tree = leaves[0]
        for l in leaves[1:]:
            tree = '(And %s %s)' % (tree, l)
        lines.append(T(tree))
    lines += [T(t) for t in format_tail_trees()[::2]]
    # RIGHT-nested operator chains (33..300 levels) ending in a plain action / no action / a file action
    for n in [31, 32, 33, 34, 40, 63, 64, 65, 128, 300]:
        for last in ['(A Print)', '(A (PrintFormatted (# (Fld Name) (Spc Newline))))', '(T (Name %s))' % sx_str('x'), '(A (FilePrint %s))' % sx_str('o'), '(A PrintNull)']:
            for op in ['And', 'Or', 'List']:
                t = last
                for _ in range(n):
                    t = '(%s (T True) %s)' % (op, t)
                lines.append(T(t))
    # destinations whose names differ only up to a plausible normalisation: two table entries, two tags
    lines += [T(t) for t in twin_trees() + key_twin_trees() if 'FilePrint' in t]
    lines += [T(t) for t in special_name_trees() + adjacent_format_trees()]
    lines = vary_options(lines, rnd)
    # every octal escape value as the last element of a stdout format (is it the newline escape or not?)
    for v in range(0, 512):
        lines.append(T('(A (PrintFormatted (# (Fld Name) (Spc (Ascii %d)))))' % v))
    for e in ENDINGS:
        lines.append(T('(A (PrintFormatted (# (Fld Name) %s)))' % e))
        lines.append(T('(And (A Print) (A (PrintFormatted (# (Fld Name) %s))))' % e))
    return lines, {'rule': 'all multisets of up to %d actions drawn from every output-producing action (stdout/3 file names x newline/NUL/formatted, print-file-fid, formats ending/not ending in a newline escape, empty format) and -quit, shuffled together with 0..3 tests (constants, name/path matchers that consume generated-name indices, a size test) into random operator trees (exhaustive over multisets)%s; one family with 1..300 distinct destinations; non-trivial = every request' % (maxk, '' if tier == 'quick' else ' plus 100000 random multisets of 5..6'),
                   'streams': {'actions': len(lines)}}


# ------------------------------------------------------------------ C15

def gen_histories_c15(tier, rnd):
    lines = []
    n = 500 if tier == 'quick' else 5000
    texts = []
    for i in range(n):
        t = rand_compilable_text(rnd)
        if rnd.random() < 0.6:
            t += ' ' + ' '.join(rnd.choice(['-name n%d' % rnd.randint(0, 20), '-iname N%d' % rnd.randint(0, 9), '-fprint f%d' % rnd.randint(0, 9),
                                            '-amin %d' % rnd.randint(0, 9), '-ctime +%d' % rnd.randint(0, 9), '-print0']) for _ in range(rnd.randint(1, 12)))
        texts.append(t)
    # n distinct matchers, then two new destinations back to back: every generated-name index is once the first printer
    for k in range(0, 41):
        texts.append(' '.join('-name n%d' % j for j in range(k)) + ' -fprint a -fprint b')
        texts.append('( ' + ' -o '.join('-name n%d' % j for j in range(max(k, 1))) + ' ) -fprint0 a -fprint b -fprint0 b')
    # run options, leading and misplaced, alone and combined: what one call registered must not change another
    texts += ['-name core -threads 4', '-type f -depth', '-name a -depth -threads 4', '-threads 2 -name b', '-depth -name c -threads 8',
              '( -name d -o -threads 3 ) -print', '-name e -threads 4 -fprint out', '! -depth -name f', '-threads 1 -depth -print0']
    # destinations / patterns that differ only up to a plausible normalisation (a table keyed by the cleaned-up name
    # would make the answer depend on hash order)
    texts += twin_texts() + special_name_texts()
    seq = []
    for i, t in enumerate(texts):
        seq += [(i, t)] * 3
    rnd.shuffle(seq)
    for i, t in seq:
        lines.append('C %s %s #grp=h%d' % (hx(t), DEV, i))
    # histories in which the wall clock advances after a REJECTED compile that had already reached a time test
    # (state left behind by a failed call must not leak into the next one)
    rejected = ['-mmin -5 -user root', '-mtime +1 -prune', "-amin 3 -printf '%d'", '-cmin 7 -o -newer x', '-atime 1 -ls', '( -mmin 2 -regex x ) -o -true']
    for k, bad in enumerate(rnd.sample(rejected, 2 if tier == 'quick' else len(rejected))):
        lines.append('C %s %s' % (hx(bad), DEV))
        lines.append('Z 1100')
        lines.append('C %s %s' % (hx(rnd.choice(['-mmin -5', '-mtime +1 -print', '-amin 3 -o -cmin 7'])), DEV))
        lines.append('C %s %s' % (hx('-ctime 2 -print0'), DEV))
    return lines, {'rule': '%d random expressions (biased to many matchers, printers and time tests), each parsed+compiled+rendered three times in one process, interleaved in random order with the others; a few histories in which a compile that is rejected AFTER reaching a time test is followed by a one-second pause and further compiles; expressions with leading and misplaced run options among them; the same stream is then run in fresh processes — once in the same order, once in reverse order, and a sample of the requests each alone in a process of its own — and compared observation by observation (clock readings normalised); non-trivial = every request' % n,
                   'streams': {'histories': len(lines)}}


# ------------------------------------------------------------------ C02

def gen_trees(tier, rnd):
    from streams import SIZES, TIMES, FILETYPES, FIELDS0, SPECIALS0
    lines = []
    counts = {}
    def add(tree, fam):
        lines.append(T(tree))
        counts[fam] = counts.get(fam, 0) + 1
    cmps = ['GT', 'LT', 'EQ']
    nums = [0, 1, 2, 5, 1000, 2 ** 31, 2 ** 32 - 1]
    # every supported test, every comparison, boundary-rich constants
    for c in cmps:
        for u in SIZES:
            for n in [0, 1, 2, 3, 1000, 2 ** 20, 2 ** 44 - 1, 2 ** 54, 2 ** 64 - 1]:
                add('(T (Size (%s (%s %d))))' % (c, u, n), 'size')
        for fld in ['AccessTime', 'ChangeTime', 'ModifyTime']:
            for u in TIMES:
                for n in [0, 1, 2, 7, 365, 10 ** 6, 2 ** 40, 2 ** 64 - 1]:
                    add('(T (%s (%s (%s %d))))' % (fld, c, u, n), 'time')
        for fld in ['GroupId', 'InodeNumber', 'MirrorCount', 'StripeCount', 'UserId', 'Links']:
            for n in nums + ([2 ** 63, 2 ** 64 - 1] if fld == 'Links' else []):
                add('(T (%s (%s %d)))' % (fld, c, n), 'ids')
    for kind in ['AtLeast', 'Any', 'Equal']:
        for m in [0, 0o777, 0o7777, 0o644, 0o4000, 0o2000, 0o1000, 0o400, 0o040, 0o004, 0o111, 0o222] + [rnd.randint(0, 4095) for _ in range(20)]:
            add('(T (Perm (%s %d)))' % (kind, m), 'perm')
    for k in range(1, 4):
        for combo in itertools.combinations(FILETYPES, k):
            add('(T (Type (# %s)))' % ' '.join(combo), 'type')
    add('(T (Type (# File File)))', 'type')
    strs = ['a', 'foo', 'x*', 'f?o', '[ab]c', 'A', 'Foo', 'é', 'a b', 'p"q', 'b\\s', 't~d', '', '*', 'dir/foo', 'dir/*', "q'r"]
    for s in strs:
        for fld in ['Name', 'InsensitiveName', 'Path', 'InsensitivePath', 'Pool', 'Xattr']:
            add('(T (%s %s))' % (fld, sx_str(s)), 'names')
        for v in ['v', 'v*', "v'", '']:
            add('(T (XattrMatch %s %s))' % (sx_str(s), sx_str(v)), 'names')
    for t in ['Empty', 'Executable', 'Readable', 'Writable', 'True', 'False']:
        add('(T %s)' % t, 'flags')
        add('(Not (T %s))' % t, 'flags')
    # every action, every supported field and escape
    files = ['out', 'o"2']
    acts = ['Print', 'PrintNull', 'PrintFid', 'Quit', 'DefaultPrint'] + ['(FilePrint %s)' % sx_str(f) for f in files] + ['(FilePrintNull %s)' % sx_str(f) for f in files]
    for a in acts:
        add('(A %s)' % a, 'actions')
    fields = [f for f in FIELDS0 if f not in UNSUPPORTED_FIELDS]
    fitems = ['(Fld %s)' % f for f in fields] + ['(Fld (%s c%d))' % (k, ord(c)) for k in ['AccessFormatted', 'ChangeFormatted', 'ModifyFormatted'] for c in ['@', 'k', 'Y', '"', '~']] \
        + ['(Fld (XAttr %s))' % sx_str(s) for s in ['user.a', 'p"q', 'none']] \
        + ['(Spc %s)' % s for s in SPECIALS0 if s != 'Clear'] + ['(Spc (Ascii %d))' % v for v in [0, 10, 34, 65, 92, 126, 127, 255]] \
        + ['(Lit %s)' % sx_str(s) for s in ['a', '~', '~a', '%', 'x\ny', 'p"q', 'b\\s', '~~', 'é', ' ']]
    for it in fitems:
        add('(A (PrintFormatted (# %s)))' % it, 'formats')
        add('(A (PrintFormatted (# (Lit %s) %s (Spc Newline))))' % (sx_str('<'), it), 'formats')
        add('(A (FilePrintFormatted %s (# %s (Fld Name))))' % (sx_str('out'), it), 'formats')
    for _ in range(300 if tier == 'quick' else 5000):
        k = rnd.randint(2, 7)
        add('(A (PrintFormatted (# %s)))' % ' '.join(rnd.choice(fitems) for _ in range(k)), 'formats')
    # operators: exhaustive small trees (short-circuit, order of outputs, stop)
    leaves = ['(T True)', '(T False)', '(T (Name %s))' % sx_str('foo'), '(T (Size (GT (KiloByte 3))))', '(A Print)', '(A Quit)',
              '(A (FilePrint %s))' % sx_str('out'), '(A (PrintFormatted (# (Fld DiskSizeBytes) (Spc Newline))))']
    for t in small_trees(4 if tier == 'quick' else 5, leaves):
        add(t, 'small_trees')
    # pairwise interactions: every ordered pair of test kinds as adjacent operands (a code generator that fuses
    # neighbours must still mean the same)
    reps = ['(T (Type (# File)))', '(T (Type (# Directory Link)))', '(T (Perm (Equal 420)))', '(T (Perm (Equal 2541)))', '(T (Perm (AtLeast 420)))', '(T (Perm (Any 73)))',
            '(T (Size (GT (KiloByte 3))))', '(T (Size (LT (Byte 5000))))', '(T (UserId (EQ 1000)))', '(T (GroupId (GT 5)))', '(T (Links (LT 2)))',
            '(T (InodeNumber (EQ 42)))', '(T (AccessTime (GT (Day 1))))', '(T (ModifyTime (LT (Hour 100))))', '(T (ChangeTime (EQ (Minute 3333))))',
            '(T (Name %s))' % sx_str('foo'), '(T (InsensitiveName %s))' % sx_str('F*'), '(T (Path %s))' % sx_str('dir/*'), '(T (Pool %s))' % sx_str('p1'),
            '(T (Xattr %s))' % sx_str('user.a'), '(T (XattrMatch %s %s))' % (sx_str('user.a'), sx_str('v')), '(T Empty)', '(T Readable)', '(T True)', '(T False)',
            '(T (StripeCount (GT 1)))', '(T (MirrorCount (EQ 1)))', '(A Print)', '(A PrintFid)', '(A (PrintFormatted (# (Fld PermissionsOctal) (Spc Newline))))']
    for a in reps:
        for b in reps:
            add('(And %s %s)' % (a, b), 'pairs')
            if a < b:
                add('(Or %s (Not %s))' % (a, b), 'pairs')
    # random larger trees over everything supported
    for _ in range(3000 if tier == 'quick' else 60000):
        add(rand_expr(rnd, rnd.randint(1, 6), supported_only=True, parser_shapes_only=True, p_action=rnd.choice([0, 0.1, 0.3, 0.5])), 'random')
    # two fields with a one-character literal between them (a generator that fuses neighbouring directives must write
    # the same bytes for every file: the directed files include a top-level one and a deeply nested one)
    pathish = ['Parents', 'Basename', 'Name', 'NameWithoutStartingPoint', 'StartingPoint']
    for f1 in pathish:
        for f2 in pathish:
            for sep in ['/', '', ' ', '//', ':']:
                mid = '(Lit %s) ' % sx_str(sep) if sep else ''
                add('(A (PrintFormatted (# (Fld %s) %s(Fld %s) (Spc Newline))))' % (f1, mid, f2), 'field_pairs')
    tf = lambda kind, ch: '(Fld (%sFormatted c%d))' % (kind, ord(ch))
    for chars, sep in [('Ymd', '-'), ('HMS', ':'), ('HM', ':'), ('Ymd', '.'), ('dmY', '/')]:
        for kinds in [('Modify', 'Access', 'Modify'), ('Change', 'Modify', 'Access'), ('Access', 'Access', 'Change'), ('Modify', 'Modify', 'Modify')]:
            els = []
            for k, ch in zip(kinds, chars):
                if els: els.append('(Lit %s)' % sx_str(sep))
                els.append(tf(k, ch))
            add('(A (PrintFormatted (# (Fld Name) (Lit %s) %s (Spc Newline))))' % (sx_str(' '), ' '.join(els)), 'time_runs')
            add('(A (FilePrintFormatted %s (# %s (Spc Newline))))' % (sx_str('o'), ' '.join(els)), 'time_runs')
    others = ['User', 'UserId', 'Group', 'GroupId', 'DiskSizeBytes', 'DiskSizeBlocks', 'InodeDecimal', 'Hardlinks', 'PermissionsOctal', 'Type', 'FileId']
    for f1 in others + pathish:
        for f2 in others[:5] + pathish[:2]:
            add('(A (FilePrintFormatted %s (# (Fld %s) (Lit %s) (Fld %s) (Spc Newline))))' % (sx_str('o'), f1, sx_str('/'), f2), 'field_pairs')
    # two matchers / destinations whose strings differ only up to a plausible normalisation or collide under key
    # concatenation (they must stay two resources: the policy is executed on matching and near-miss names)
    for t in (twin_trees() + key_twin_trees())[::(4 if tier == 'quick' else 1)]:
        if 'FilePrintFormatted' not in t:
            add(t, 'twins')
    # through the parser as well
    for _ in range(300 if tier == 'quick' else 3000):
        lines.append('C %s %s' % (hx(rand_compilable_text(rnd)), DEV))
        counts['text'] = counts.get('text', 0) + 1
    lines = vary_options(lines, rnd, 0.2)
    return lines, {'rule': 'every ordered pair of 30 representative primaries as adjacent operands; a fifth of the requests with explicit run options (thread count 1, 2, 64, 2^32-1; -depth); every supported test x every comparison x boundary-rich constants (sizes in all 7 units up to 2^64-1, times in all 4 units, ids, 32 permission masks x 3 checks, type lists, 17 names x 6 string tests, xattr pairs, flags), every action, every supported directive/escape/literal alone and embedded plus random formats, ALL operator trees with at most %d nodes over 8 leaves (tests, print, fprint, printf, quit), random trees of depth <= 6 over all supported constructs, and texts through the parser; each program is executed on the base file, one file per variation directed at each constant of the tree (value-1/value/value+1 per unit, each permission/type bit, matching and near-miss names, zero size, future time stamps) and 8 pseudo-random combinations; non-trivial = every request' % (4 if tier == 'quick' else 5),
                   'streams': counts}
