#!/bin/bash
# Regression over the stored seeded changes: apply each seeded/<name>/patch.diff to /repo, run the check of
# its own property (quick tier), record the outcome, undo.  /repo must be clean; nothing is committed there.
#   tools/seedregress.sh [name ...]     (default: all)   -> seeded/REGRESSION.tsv
set -u
cd /verif
names=${*:-$(ls seeded | grep -E '^C[0-9]{2}[a-z]?$')}
out=seeded/REGRESSION.tsv
[ $# -eq 0 ] && : > $out
if [ -n "$(git -C /repo status --porcelain)" ]; then echo "/repo not clean, refusing"; exit 2; fi
for n in $names; do
  prop=$(python3 -c "import json;print(json.load(open('seeded/$n/meta.json'))['property'])")
  if ! git -C /repo apply /verif/seeded/$n/patch.diff 2>/dev/null; then echo -e "$n\t$prop\tPATCH-DOES-NOT-APPLY" | tee -a $out; continue; fi
  ./check $prop > /tmp/seedregress.$n.log 2>&1; rc=$?
  v=$(grep -m1 '^VIOLATION' /tmp/seedregress.$n.log | sed -E 's/replay=\S+/replay=<path>/')
  git -C /repo checkout -- . ; git -C /repo clean -fdq -- src 2>/dev/null
  if [ $rc -eq 1 ] && ! echo "$v" | grep -q no-failing-input-found; then res=DETECTED-WITH-FAILING-INPUT
  elif [ $rc -eq 1 ]; then res=DETECTED-NO-FAILING-INPUT
  else res=MISSED; fi
  echo -e "$n\t$prop\t$res\texit=$rc\t$v" | tee -a $out
  rm -f /tmp/seedregress.$n.log
done
git -C /repo status --porcelain | head -3
