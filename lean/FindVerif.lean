import FindVerif.Model.Text
import FindVerif.Model.Winnow
import FindVerif.Model.Ast
import FindVerif.Model.Lex.Token
import FindVerif.Model.Precedence
import FindVerif.Model.Parse
import FindVerif.Driver.Conv
