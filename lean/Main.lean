import FindVerif.Driver.Lines

open FV

/-- One line `request TAB profile observation` ↦ verdict line. -/
def handleLine (_prop : String) (line : String) : String :=
  match line.splitOn "\t" with
  | [req, obsFull] =>
    let (pfS, obs) := match obsFull.splitOn " " with
      | p :: rest => (p, " ".intercalate rest)
      | [] => ("debug", "")
    let pf := profileOf pfS
    match modelObs pf (req.splitOn " ") obs with
    | .skip why => "SKIP " ++ why
    | .obs m => if m = obs then "OK" else s!"DIFF impl=[{obs}] model=[{m}]"
  | _ => "SKIP malformed"

partial def loop (prop : String) (h : IO.FS.Stream) (out : IO.FS.Stream) : IO Unit := do
  let line ← h.getLine
  if line.isEmpty then return ()
  let l := if line.back = '\n' then (line.dropEnd 1).toString else line
  out.putStrLn (handleLine prop l)
  loop prop h out

def main (args : List String) : IO UInt32 := do
  let prop := args.headD "ALL"
  let stdin ← IO.getStdin
  let stdout ← IO.getStdout
  loop prop stdin stdout
  return 0
