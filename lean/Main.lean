import FindVerif.Driver.Props
import FindVerif.Driver.C02

open FV

/-- Panics are compared by stage only: `… PANIC <stage> <message>` ↦ `… PANIC <stage>`. -/
def normPanic (obs : String) : String :=
  let rec go : List String → List String
    | "PANIC" :: stage :: _ => ["PANIC", stage]
    | x :: xs => x :: go xs
    | [] => []
  " ".intercalate (go (obs.splitOn " "))

/-- Compile errors are compared by variant and constructor name (the payload is Rust's derived
    `Debug` text, whose escaping of unusual characters is not modelled). -/
def normCerr (obs : String) : String :=
  let rec go : List String → List String
    | "CERR" :: v :: payload :: _ =>
      let name := match Sx.textOfHex payload with
        | some t => String.ofList (t.takeWhile (· ≠ '('))
        | none => payload
      ["CERR", v, name]
    | x :: xs => x :: go xs
    | [] => []
  " ".intercalate (go (obs.splitOn " "))

/-- Outcome class of an observation: `OK`/`ERR`/`PANIC stage`, and for compile requests
    `COK`/`CERR`/`PANIC stage` after the bar. -/
def obsClass (obs : String) : String :=
  let cls (s : String) : String :=
    match s.splitOn " " with
    | "PANIC" :: st :: _ => "PANIC " ++ st
    | c :: _ => c
    | [] => ""
  match obs.splitOn " | " with
  | [a] => cls a
  | a :: b :: _ => cls a ++ " | " ++ cls b
  | [] => ""

/-- The part of an observation that a property's correspondence compares (so that a defect or
    rewrite elsewhere does not break a property it has nothing to do with). -/
def projectObs (prop : String) (req : List String) (obs : String) : String :=
  match prop, req with
  | "C19", "T" :: _ => (splitBar obs).1
  | "C19", _ => obs
  | "C02", _ => obs
  | "C08", _ => obs
  | "C04", _ => obs
  | "C09", _ => obs
  | "C10", _ => obs
  | "C11", _ => obs
  | "C12", _ => obs
  | "C15", _ => obs
  | "C16", _ => obs
  | "C20", _ => obs
  | "C03", _ => obsClass obs
  | "C17", _ => obsClass obs
  | "C18", _ => (splitBar obs).1
  -- the other parser-side properties compare the parse result, an error only as "rejected"
  | _, _ =>
    let p := (splitBar obs).1
    if p.startsWith "ERR " then "ERR" else p

/-- One line `request TAB profile observation` ↦ verdict line. -/
def handleLine (prop : String) (st : DState) (line : String) : DState × String :=
  match line.splitOn "\t" with
  | [req, obsFull] =>
    let (pfS, obs) := match obsFull.splitOn " " with
      | p :: rest => (p, " ".intercalate rest)
      | [] => ("debug", "")
    let pf := profileOf pfS
    let reqParts := req.splitOn " "
    let reqCore := reqParts.filter (fun p => !p.startsWith "#")
    let obs := normCerr (normPanic obs)
    let diff : Option String := match modelObs pf reqCore obs with
      | .skip why => some ("SKIP " ++ why)
      | .obs m =>
        let a := projectObs prop reqCore obs
        let b := projectObs prop reqCore (normCerr (normPanic m))
        if a = b then (if prop = "C02" then (structDiffC02 reqCore obs).map ("DIFF " ++ ·) else none)
        else some s!"DIFF impl=[{a}] model=[{b}]"
    let (st', pc) := if prop = "C02" then (st, checkC02 reqParts obs) else if prop = "C09" then (st, checkC09Sem reqParts obs)
      else if prop = "C08" then
        -- the tree against chmod's rules, then the emitted comparison executed on directed modes
        match propCheck prop st reqParts obs with
        | (st', some why) => (st', some why)
        | (st', none) => (st', checkC02 reqParts obs)
      else propCheck prop st reqParts obs
    (st', match pc, diff with
    | some why, some d => s!"PFAIL {prop} {why} ;; {d}"
    | some why, none => s!"PFAIL {prop} {why}"
    | none, some d => d
    | none, none => "OK")
  | _ => (st, "SKIP malformed")

partial def loop (prop : String) (st : DState) (h : IO.FS.Stream) (out : IO.FS.Stream) : IO Unit := do
  let line ← h.getLine
  if line.isEmpty then return ()
  let l := if line.back = '\n' then (line.dropEnd 1).toString else line
  let (st', v) := handleLine prop st l
  out.putStrLn v
  loop prop st' h out

def main (args : List String) : IO UInt32 := do
  let prop := args.headD "ALL"
  let stdin ← IO.getStdin
  let stdout ← IO.getStdout
  loop prop {} stdin stdout
  return 0
