import FindVerif.Driver.Props

open FV

/-- Panics are compared by stage only: `… PANIC <stage> <message>` ↦ `… PANIC <stage>`. -/
def normPanic (obs : String) : String :=
  let rec go : List String → List String
    | "PANIC" :: stage :: _ => ["PANIC", stage]
    | x :: xs => x :: go xs
    | [] => []
  " ".intercalate (go (obs.splitOn " "))

/-- The part of an observation that a property's correspondence compares (so that a defect or
    rewrite elsewhere does not break a property it has nothing to do with). -/
def projectObs (prop : String) (req : List String) (obs : String) : String :=
  match prop, req with
  | "C19", "T" :: _ => (splitBar obs).1
  | _, _ => obs

/-- One line `request TAB profile observation` ↦ verdict line. -/
def handleLine (prop : String) (line : String) : String :=
  match line.splitOn "\t" with
  | [req, obsFull] =>
    let (pfS, obs) := match obsFull.splitOn " " with
      | p :: rest => (p, " ".intercalate rest)
      | [] => ("debug", "")
    let pf := profileOf pfS
    let reqParts := req.splitOn " "
    let reqCore := reqParts.filter (fun p => !p.startsWith "#")
    let obs := normPanic obs
    let diff : Option String := match modelObs pf reqCore obs with
      | .skip why => some ("SKIP " ++ why)
      | .obs m =>
        let a := projectObs prop reqCore obs
        let b := projectObs prop reqCore (normPanic m)
        if a = b then none else some s!"DIFF impl=[{a}] model=[{b}]"
    match propCheck prop reqParts obs, diff with
    | some why, some d => s!"PFAIL {prop} {why} ;; {d}"
    | some why, none => s!"PFAIL {prop} {why}"
    | none, some d => d
    | none, none => "OK"
  | _ => "SKIP malformed"

partial def loop (prop : String) (h : IO.FS.Stream) (out : IO.FS.Stream) : IO Unit := do
  let line ← h.getLine
  if line.isEmpty then return ()
  let l := if line.back = '\n' then (line.dropEnd 1).toString else line
  out.putStrLn (handleLine prop l)
  loop prop h out

def main (args : List String) : IO UInt32 := do
  let prop := args.headD "ALL"
  let stdin ← IO.getStdin
  let stdout ← IO.getStdout
  loop prop stdin stdout
  return 0
