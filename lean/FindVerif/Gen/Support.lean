import FindVerif.Model.Lex.Token
import FindVerif.Model.Precedence
import FindVerif.Model.Parse
import FindVerif.Model.Compile
/-
  Hand-written support for the generated file `Gen/Parser.lean` (tools/rs2lean.py).
  winnow implements `alt` for tuples of bounded length, so the source nests
  `alt((alt((a, b, …)), alt((c, d, …)), e))`.  `altNested` is exactly that nesting (a non-`alt`
  member is a one-element group: `alt [e] = e` by definition); `altNested_flat` shows it is the flat
  alternative list the model uses.
-/
namespace FV.Gen
open FV FV.W

def altNested {ι α : Type} (groups : List (List (P ι α))) : P ι α := alt (groups.map alt)

theorem alt2_assoc {ι α : Type} (p q r : P ι α) : alt2 (alt2 p q) r = alt2 p (alt2 q r) := by
  funext i
  unfold alt2
  cases hp : p i with
  | ok a rest => rfl
  | panic s => rfl
  | err k c rest =>
    cases k with
    | true => rfl
    | false =>
      cases hq : q i with
      | ok a rest => simp
      | panic s => simp
      | err k' c' rest' => cases k' <;> simp

theorem alt_cons_append {ι α : Type} (p : P ι α) (ps : List (P ι α)) (q : P ι α) (qs : List (P ι α)) :
    alt ((p :: ps) ++ (q :: qs)) = alt2 (alt (p :: ps)) (alt (q :: qs)) := by
  induction ps generalizing p with
  | nil => rfl
  | cons p' ps ih =>
    show alt2 p (alt ((p' :: ps) ++ (q :: qs))) = alt2 (alt2 p (alt (p' :: ps))) (alt (q :: qs))
    rw [ih, alt2_assoc]

theorem alt_append {ι α : Type} (l1 l2 : List (P ι α)) (h1 : l1 ≠ []) (h2 : l2 ≠ []) :
    alt (l1 ++ l2) = alt2 (alt l1) (alt l2) := by
  cases l1 with
  | nil => exact absurd rfl h1
  | cons p ps =>
    cases l2 with
    | nil => exact absurd rfl h2
    | cons q qs => exact alt_cons_append p ps q qs

/-- Nested alternatives are the flat list of alternatives. -/
theorem altNested_flat {ι α : Type} : ∀ (groups : List (List (P ι α))),
    (∀ g ∈ groups, g ≠ []) → groups ≠ [] → altNested groups = alt groups.flatten
  | [], _, h => absurd rfl h
  | [g], _, _ => by simp [altNested, alt]
  | g :: g' :: gs, hne, _ => by
    have ih := altNested_flat (g' :: gs) (fun x hx => hne x (List.mem_cons_of_mem _ hx)) (by simp)
    have hg : g ≠ [] := hne g (by simp)
    have hg' : g' ≠ [] := hne g' (by simp)
    have hfl : (g' :: gs).flatten ≠ [] := by
      cases g' with
      | nil => exact absurd rfl hg'
      | cons a as => simp
    show alt (alt g :: (g' :: gs).map alt) = alt (g ++ (g' :: gs).flatten)
    rw [alt_append g _ hg hfl, ← ih]
    rfl

end FV.Gen

namespace FV.Gen
open FV FV.W

/-- The statement skeleton of `_parse` + `parse` (`src/find_parser/mod.rs`) with its variable parts as
    parameters: the parser of the leading options, the token list of an options-only input, the token
    that replaces a misplaced option, the lexer, the option update and the error rendering.  It is the
    model's `FV.parse` with those parts abstracted (`parseWith_model` below); which input position each
    failure hands to `dispatch` is winnow's `&mut input` discipline and is part of the model, not of
    the translation. -/
def parseWith (leading : P Char (List GlobalOption)) (emptyTokens : List Token) (replacement : Token)
    (lexer : P Char (List Token)) (update : RunOptions → GlobalOption → Option RunOptions)
    (climber : List Token → Res Token Expr) (disp : List Ctx → Text → ParseError)
    (input : Text) : ParseOut :=
  let rec updAll (o : RunOptions) : List GlobalOption → Option RunOptions
    | [] => some o
    | g :: gs => match update o g with
      | some o' => updAll o' gs
      | none => none
  let rec sweep : RunOptions → List Token → Option (RunOptions × List Token)
    | o, [] => some (o, [])
    | o, .global g :: ts =>
      match update o g with
      | some o' => (sweep o' ts).map fun x => (x.1, replacement :: x.2)
      | none => none
    | o, t :: ts => (sweep o ts).map fun x => (x.1, t :: x.2)
  match leading input with
  | .panic s => .panic s
  | .err _ ctx rest => .error (disp ctx rest)
  | .ok gs rest =>
    match updAll {} gs with
    | none => .panic (cl!"lib.rs:unreachable")
    | some globals =>
      let lexed : Res Char (List Token) := if rest.isEmpty then .ok emptyTokens [] else lexer rest
      match lexed with
      | .panic s => .panic s
      | .err _ ctx rest' => .error (disp ctx rest')
      | .ok tokens rest' =>
        match sweep globals tokens with
        | none => .panic (cl!"lib.rs:unreachable")
        | some (globals', tokens') =>
          match climber tokens' with
          | .panic s => .panic s
          | .err _ ctx _ => .error (disp ctx rest')
          | .ok e _ => .ok globals' e

end FV.Gen

namespace FV.Gen
open FV

/-- One element of a format rendered for the template: the function applied to each kind of element is a
    parameter; the error payloads of a refused element are the model's (`Debug` renderings). -/
def skelElement (litF : Text → Text) (fieldF : FormatField → Option Text) (specialF : FormatSpecial → Option Text) :
    FormatElement → Except CompileError Text
  | .literal s => .ok (litF s)
  | .field f => match fieldF f with
    | some t => .ok t
    | none => .error (.unsupportedFormat f.debugName)
  | .special v => match specialF v with
    | some t => .ok t
    | none => .error (.unsupportedFormat (cl!"Clear"))

/-- `.map(..).collect::<CResult<Vec<String>>>()`: the first error wins. -/
def skelCollect (el : FormatElement → Except CompileError Text) : List FormatElement → Except CompileError (List Text)
  | [] => .ok []
  | e :: rest => match el e with
    | .error x => .error x
    | .ok t => match skelCollect el rest with
      | .error x => .error x
      | .ok ts => .ok (t :: ts)

/-- `.filter_map(..)` over the fields: the argument of each field that has one, in parentheses. -/
def skelItems (itemF : FormatField → Option Text) (es : List FormatElement) : List Text :=
  es.filterMap fun e => match e with
    | .field f => match itemF f with
      | some b => if b.isEmpty then none else some (cl!"(" ++ b ++ cl!")")
      | none => none
    | _ => none

/-- The statement skeleton of `impl TargetScheme for Vec<FormatElement>` with its variable parts as parameters. -/
def formatSkeleton (litF : Text → Text) (fieldF : FormatField → Option Text) (specialF : FormatSpecial → Option Text)
    (itemF : FormatField → Option Text) (tsep isep : Text) (fin : Text → Text → Text)
    (es : List FormatElement) : Except CompileError Text :=
  match skelCollect (skelElement litF fieldF specialF) es with
  | .error x => .error x
  | .ok ts => .ok (fin (joinWith tsep ts) (joinWith isep (skelItems itemF es)))

end FV.Gen
