import FindVerif.Model.Lex.Token
import FindVerif.Model.Precedence
/-
  Hand-written support for the generated file `Gen/Parser.lean` (tools/rs2lean.py).
  winnow implements `alt` for tuples of bounded length, so the source nests
  `alt((alt((a, b, …)), alt((c, d, …)), e))`.  `altNested` is exactly that nesting (a non-`alt`
  member is a one-element group: `alt [e] = e` by definition); `altNested_flat` shows it is the flat
  alternative list the model uses.
-/
namespace FV.Gen
open FV FV.W

def altNested {ι α : Type} (groups : List (List (P ι α))) : P ι α := alt (groups.map alt)

theorem alt2_assoc {ι α : Type} (p q r : P ι α) : alt2 (alt2 p q) r = alt2 p (alt2 q r) := by
  funext i
  unfold alt2
  cases hp : p i with
  | ok a rest => rfl
  | panic s => rfl
  | err k c rest =>
    cases k with
    | true => rfl
    | false =>
      cases hq : q i with
      | ok a rest => simp
      | panic s => simp
      | err k' c' rest' => cases k' <;> simp

theorem alt_cons_append {ι α : Type} (p : P ι α) (ps : List (P ι α)) (q : P ι α) (qs : List (P ι α)) :
    alt ((p :: ps) ++ (q :: qs)) = alt2 (alt (p :: ps)) (alt (q :: qs)) := by
  induction ps generalizing p with
  | nil => rfl
  | cons p' ps ih =>
    show alt2 p (alt ((p' :: ps) ++ (q :: qs))) = alt2 (alt2 p (alt (p' :: ps))) (alt (q :: qs))
    rw [ih, alt2_assoc]

theorem alt_append {ι α : Type} (l1 l2 : List (P ι α)) (h1 : l1 ≠ []) (h2 : l2 ≠ []) :
    alt (l1 ++ l2) = alt2 (alt l1) (alt l2) := by
  cases l1 with
  | nil => exact absurd rfl h1
  | cons p ps =>
    cases l2 with
    | nil => exact absurd rfl h2
    | cons q qs => exact alt_cons_append p ps q qs

/-- Nested alternatives are the flat list of alternatives. -/
theorem altNested_flat {ι α : Type} : ∀ (groups : List (List (P ι α))),
    (∀ g ∈ groups, g ≠ []) → groups ≠ [] → altNested groups = alt groups.flatten
  | [], _, h => absurd rfl h
  | [g], _, _ => by simp [altNested, alt]
  | g :: g' :: gs, hne, _ => by
    have ih := altNested_flat (g' :: gs) (fun x hx => hne x (List.mem_cons_of_mem _ hx)) (by simp)
    have hg : g ≠ [] := hne g (by simp)
    have hg' : g' ≠ [] := hne g' (by simp)
    have hfl : (g' :: gs).flatten ≠ [] := by
      cases g' with
      | nil => exact absurd rfl hg'
      | cons a as => simp
    show alt (alt g :: (g' :: gs).map alt) = alt (g ++ (g' :: gs).flatten)
    rw [alt_append g _ hg hfl, ← ih]
    rfl

end FV.Gen
