import FindVerif.Proofs.Escape
import FindVerif.Model.Compile
/-
  C20 — compile once, render for any device: only the device path varies.
  `Compiled.scheme` is the model of `CompiledExpression::scheme`.  For every compiled value and
  all device paths (any characters, any length): a rendering is a fixed prefix, the escaped
  path between double quotes, and a fixed suffix — prefix and suffix depend on the compiled
  value only — and the quoted path is read back by the (independent) Scheme reader as exactly
  the path given.  Rendering is a pure function and cannot touch the destination table.
-/
namespace FV
open Scheme

/-- Renderings differ in exactly one place: the device string. -/
theorem C20_one_place (c : Compiled) (mdt : Text) :
    c.scheme mdt = c.prefix_ ++ ('"' :: schemeEscape mdt ++ '"' :: c.suffix_) := rfl

/-- That string decodes to the path given: reading from its opening quote yields `str mdt` and
    leaves exactly the fixed suffix. -/
theorem C20_device_decodes (c : Compiled) (mdt : Text) :
    ∃ fuel, read1 fuel ('"' :: schemeEscape mdt ++ '"' :: c.suffix_) = some (.str mdt, c.suffix_) := by
  refine ⟨1, ?_⟩
  simp only [read1, List.cons_append]
  have hws : isWs '"' = false := by decide
  simp only [hws, Bool.false_eq_true, if_false]
  have h1 : ('"' = ';') = False := by decide
  have h2 : ('"' = '(') = False := by decide
  have h3 : ('"' = ')') = False := by decide
  simp only [h1, h2, h3, if_false, if_true]
  rw [readStr_escape mdt [] c.suffix_ _ (by simp; omega)]
  simp

/-- Same path, same program (rendering is a function); different paths, same prefix and suffix. -/
theorem C20_pure (c : Compiled) (m₁ m₂ : Text) :
    (m₁ = m₂ → c.scheme m₁ = c.scheme m₂) ∧
    (∃ pre post, c.scheme m₁ = pre ++ ('"' :: schemeEscape m₁ ++ '"' :: post) ∧
                 c.scheme m₂ = pre ++ ('"' :: schemeEscape m₂ ++ '"' :: post)) :=
  ⟨fun h => by rw [h], ⟨c.prefix_, c.suffix_, C20_one_place c m₁, C20_one_place c m₂⟩⟩

/-- Escaping is injective: different paths give different programs (the place really varies). -/
theorem C20_distinct (c : Compiled) (m₁ m₂ : Text) (h : c.scheme m₁ = c.scheme m₂) : m₁ = m₂ := by
  rw [C20_one_place, C20_one_place] at h
  have h' := List.append_cancel_left h
  injection h' with _ h'
  have h' : schemeEscape m₁ ++ '"' :: c.suffix_ = schemeEscape m₂ ++ '"' :: c.suffix_ := h'
  have r1 := readStr_escape m₁ [] c.suffix_ ((schemeEscape m₁).length + (schemeEscape m₂).length + 1) (by omega)
  have r2 := readStr_escape m₂ [] c.suffix_ ((schemeEscape m₁).length + (schemeEscape m₂).length + 1) (by omega)
  rw [h'] at r1
  rw [r1] at r2
  simpa using r2

example : schemeEscape (cl!"a\"b\\c") = cl!"a\\\"b\\\\c" := by decide

end FV
