import FindVerif.Theorems.C06Args
import FindVerif.Proofs.Names
/-
  C08 / C05 / C06 — symbolic permission modes AS WRITTEN.  C08's clause theorems start from the
  three pieces of a clause (who, operator, permissions); this file closes the chain from the text:
  the permission reader splits `ugo+rwx,…` into exactly those pieces, clause after clause, so the
  written argument denotes the fold of the clauses' updates from mode 0 — which C08_symbolic_partial
  identifies with chmod's result for minus-free lists — and it gives the `ArgWrites` instance that
  the layout theorem (C06_layout) needs for `-perm` with a symbolic mode and any of the prefixes.
-/
namespace FV
open W Spec

def clauseText (ct : ClauseText) : Text := ct.who ++ ct.op :: ct.perm

/-- `,clause,clause…` for the clauses after the first. -/
def symTail : List ClauseText → Text
  | [] => []
  | c :: cs => ',' :: (clauseText c ++ symTail cs)

def LevelStop (rest : Text) : Prop := rest = [] ∨ ∃ c r, rest = c :: r ∧ isLevel c = false

theorem who_chars (c : Char) (h : (whoOfChar c).isSome) : isWho c = true ∧ isWordChar c = true ∧ c ≠ '"' ∧ c ≠ '\'' ∧ c ≠ '/' ∧ c ≠ '-' ∧ isOct c = false := by
  simp only [whoOfChar] at h
  split at h
  · subst_vars; decide
  · split at h
    · subst_vars; decide
    · split at h
      · subst_vars; decide
      · split at h
        · subst_vars; decide
        · simp at h

theorem op_chars (c : Char) (h : (opOfChar c).isSome) : isOp c = true ∧ isWho c = false ∧ isWordChar c = true := by
  simp only [opOfChar] at h
  split at h
  · subst_vars; decide
  · split at h
    · subst_vars; decide
    · split at h
      · subst_vars; decide
      · simp at h

theorem perm_chars (c : Char) (h : (permOfChar c).isSome) : isLevel c = true ∧ isWordChar c = true := by
  simp only [permOfChar] at h
  split at h
  · subst_vars; decide
  · split at h
    · subst_vars; decide
    · split at h
      · subst_vars; decide
      · simp at h

theorem mapM_isSome {α β} (f : α → Option β) : ∀ (l : List α) (r : List β), l.mapM f = some r → ∀ x ∈ l, (f x).isSome
  | [], _, _, x, hx => by simp at hx
  | a :: l, r, h, x, hx => by
    simp only [List.mapM_cons, Option.bind_eq_bind] at h
    cases ha : f a with
    | none => simp [ha] at h
    | some b =>
      cases hl : l.mapM f with
      | none => simp [ha, hl] at h
      | some bs =>
        rcases List.mem_cons.mp hx with rfl | hx'
        · simp [ha]
        · exact mapM_isSome f l bs hl x hx'

/-- The clause reader splits a written clause into exactly its three pieces. -/
theorem parsePartial_clause (ct : ClauseText) (hv : ct.Valid) (rest : Text) (hr : LevelStop rest) :
    ∃ pp, ct.model = some pp ∧ parsePartial (clauseText ct ++ rest) = .ok pp rest := by
  have hmodel := model_of_valid ct hv
  obtain ⟨hw, hwc, hop, hp, ps, hps⟩ := hv
  refine ⟨_, hmodel, ?_⟩
  have hwho : ∀ c ∈ ct.who, isWho c = true := fun c hc => (who_chars c (hwc c hc)).1
  have hopc := op_chars ct.op hop
  have hperm : ∀ c ∈ ct.perm, isLevel c = true := fun c hc => (perm_chars c (mapM_isSome _ _ _ hps c hc)).1
  have t1 : (ct.who ++ ct.op :: (ct.perm ++ rest)).takeWhile isWho = ct.who := takeWhile_append_of_all _ _ _ _ hwho hopc.2.1
  have d1 : (ct.who ++ ct.op :: (ct.perm ++ rest)).dropWhile isWho = ct.op :: (ct.perm ++ rest) :=
    dropWhile_append_of_all _ _ _ _ hwho hopc.2.1
  have t2 : (ct.perm ++ rest).takeWhile isLevel = ct.perm ∧ (ct.perm ++ rest).dropWhile isLevel = rest := by
    rcases hr with rfl | ⟨c, r, rfl, hc⟩
    · simpa using takeWhile_all isLevel ct.perm hperm
    · exact ⟨takeWhile_append_of_all _ _ _ _ hperm hc, dropWhile_append_of_all _ _ _ _ hperm hc⟩
  have l1 : 1 ≤ ct.who.length := by cases h : ct.who with | nil => exact absurd h hw | cons _ _ => simp
  have l2 : 1 ≤ ct.perm.length := by cases h : ct.perm with | nil => exact absurd h hp | cons _ _ => simp
  have hm : mkPartial (ct.who, ct.op, ct.perm) = ct.model := rfl
  simp only [clauseText, List.append_assoc, List.cons_append]
  simp only [parsePartial, mapOrPanic, pair, takeWhile, t1, d1, l1, if_true, cutErr, context, oneOf, hopc.1, t2.1, t2.2, l2, hm, hmodel]

theorem symTail_stop (cs : List ClauseText) : LevelStop (symTail cs) := by
  cases cs with
  | nil => exact Or.inl rfl
  | cons c cs => exact Or.inr ⟨',', _, rfl, by decide⟩

theorem symLoop (pf : Profile) : ∀ (cs : List ClauseText) (pps : List PartialPermission) (fuel : Nat)
    (acc : List PartialPermission), (∀ ct ∈ cs, ct.Valid) → cs.mapM ClauseText.model = some pps →
    (symTail cs).length < fuel →
    separatedLoop pf parsePartial (lit (cl!",")) fuel acc (symTail cs) = .ok (acc.reverse ++ pps) []
  | [], pps, fuel, acc, _, hm, hf => by
    obtain ⟨n, rfl⟩ : ∃ n, fuel = n + 1 := ⟨fuel - 1, by omega⟩
    simp at hm; subst hm
    simp [symTail, separatedLoop, lit, isPrefix]
  | c :: cs, pps, fuel, acc, hv, hm, hf => by
    obtain ⟨n, rfl⟩ : ∃ n, fuel = n + 1 := ⟨fuel - 1, by omega⟩
    obtain ⟨pp, hpp, hparse⟩ := parsePartial_clause c (hv c (by simp)) (symTail cs) (symTail_stop cs)
    simp only [List.mapM_cons, Option.bind_eq_bind, hpp, Option.bind_some] at hm
    cases hcs : cs.mapM ClauseText.model with
    | none => simp [hcs] at hm
    | some pps' =>
      simp [hcs] at hm
      subst hm
      have hsep : lit (cl!",") (',' :: (clauseText c ++ symTail cs)) = .ok () (clauseText c ++ symTail cs) := by
        simp [lit, isPrefix]
      have ih := symLoop pf cs pps' n (pp :: acc) (fun ct h => hv ct (by simp [h])) hcs
        (by simp [symTail] at hf ⊢; omega)
      simp only [symTail, separatedLoop, hsep, hparse]
      simp only [List.length_cons, Nat.succ_ne_self, if_false]
      rw [ih]
      simp

/-- The permission reader on a written clause list: the fold of the clauses' updates from mode 0. -/
theorem parsePermission_symbolic (pf : Profile) (c : ClauseText) (cs : List ClauseText)
    (hv : ∀ ct ∈ c :: cs, ct.Valid) :
    ∃ pps, (c :: cs).mapM ClauseText.model = some pps ∧
      parsePermission pf (clauseText c ++ symTail cs) =
        .ok (pps.foldl (fun acc (e : PartialPermission) => e.update acc) 0) [] := by
  obtain ⟨pp, hpp, hparse⟩ := parsePartial_clause c (hv c (by simp)) (symTail cs) (symTail_stop cs)
  have hvs : ∀ ct ∈ cs, ct.Valid := fun ct h => hv ct (by simp [h])
  -- every valid clause has a model
  have hall : ∀ (l : List ClauseText), (∀ ct ∈ l, ct.Valid) → ∃ r, l.mapM ClauseText.model = some r := by
    intro l
    induction l with
    | nil => intro _; exact ⟨[], rfl⟩
    | cons a l ih =>
      intro h
      obtain ⟨r, hr⟩ := ih (fun ct hc => h ct (by simp [hc]))
      have hma := model_of_valid a (h a (by simp))
      exact ⟨_, by simp only [List.mapM_cons, Option.bind_eq_bind, hma, hr, Option.bind_some]; rfl⟩
  obtain ⟨pps', hcs⟩ := hall cs hvs
  refine ⟨pp :: pps', by simp [List.mapM_cons, hpp, hcs], ?_⟩
  have hl := symLoop pf cs pps' ((symTail cs).length + 1) [pp] hvs hcs (by omega)
  -- the octal alternative backtracks: a who character is not an octal digit
  obtain ⟨hw, hwc, _⟩ := hv c (by simp)
  obtain ⟨w0, wr, hw0⟩ : ∃ w0 wr, c.who = w0 :: wr := by
    cases h : c.who with | nil => exact absurd h hw | cons a b => exact ⟨a, b, rfl⟩
  have hoct : isOct w0 = false := (who_chars w0 (hwc w0 (by simp [hw0]))).2.2.2.2.2.2
  have htw : (clauseText c ++ symTail cs).takeWhile isOct = [] := by
    simp [clauseText, hw0, List.takeWhile_cons, hoct]
  simp only [parsePermission, context, alt, alt2, tryMap, takeWhile, htw, map, separated1, hparse, hl]
  simp

theorem clauseText_word (ct : ClauseText) (hv : ct.Valid) : ∀ c ∈ clauseText ct, isWordChar c = true := by
  obtain ⟨_, hwc, hop, _, ps, hps⟩ := hv
  intro c hc
  simp only [clauseText, List.mem_append, List.mem_cons] at hc
  rcases hc with hc | rfl | hc
  · exact (who_chars c (hwc c hc)).2.1
  · exact (op_chars _ hop).2.2
  · exact (perm_chars c (mapM_isSome _ _ _ hps c hc)).2

theorem symTail_word : ∀ (cs : List ClauseText), (∀ ct ∈ cs, ct.Valid) → ∀ c ∈ symTail cs, isWordChar c = true
  | [], _, c, hc => by simp [symTail] at hc
  | a :: cs, hv, c, hc => by
    simp only [symTail, List.mem_cons, List.mem_append] at hc
    rcases hc with rfl | hc | hc
    · decide
    · exact clauseText_word a (hv a (by simp)) c hc
    · exact symTail_word cs (fun ct h => hv ct (by simp [h])) c hc

/-- Symbolic permission modes as written, bare, with the prefix `/` (any), `-` (at least) or none
    (equal): the argument denotes the fold of its clauses' updates from mode 0. -/
theorem argWrites_perm_symbolic (pf : Profile) (c : ClauseText) (cs : List ClauseText)
    (hv : ∀ ct ∈ c :: cs, ct.Valid) :
    ∃ pps, (c :: cs).mapM ClauseText.model = some pps ∧
      ArgWrites (permArg pf) WordStop (.equal (pps.foldl (fun acc (e : PartialPermission) => e.update acc) 0))
        (clauseText c ++ symTail cs) ∧
      ArgWrites (permArg pf) WordStop (.any (pps.foldl (fun acc (e : PartialPermission) => e.update acc) 0))
        ('/' :: (clauseText c ++ symTail cs)) ∧
      ArgWrites (permArg pf) WordStop (.atLeast (pps.foldl (fun acc (e : PartialPermission) => e.update acc) 0))
        ('-' :: (clauseText c ++ symTail cs)) := by
  obtain ⟨pps, hpps, hperm⟩ := parsePermission_symbolic pf c cs hv
  refine ⟨pps, hpps, ?_⟩
  obtain ⟨hw, hwc, _⟩ := hv c (by simp)
  obtain ⟨w0, wr, hw0⟩ : ∃ w0 wr, c.who = w0 :: wr := by
    cases h : c.who with | nil => exact absurd h hw | cons a b => exact ⟨a, b, rfl⟩
  have hc0 := who_chars w0 (hwc w0 (by simp [hw0]))
  obtain ⟨t0, htxt⟩ : ∃ t0, clauseText c ++ symTail cs = w0 :: t0 := ⟨wr ++ c.op :: c.perm ++ symTail cs, by simp [clauseText, hw0]⟩
  have hword : ∀ x ∈ clauseText c ++ symTail cs, isWordChar x = true := by
    intro x hx
    rcases List.mem_append.mp hx with h | h
    · exact clauseText_word c (hv c (by simp)) x h
    · exact symTail_word cs (fun ct h' => hv ct (by simp [h'])) x h
  rw [htxt] at hperm hword ⊢
  obtain ⟨hany, hatl, heq⟩ := C08_prefix pf (w0 :: t0) [] _ hperm
  have heq' := heq w0 t0 rfl hc0.2.2.2.2.1 hc0.2.2.2.2.2.1
  have hb0 : isBlank w0 = false := by
    have := hc0.2.1
    simp only [isWordChar, Bool.and_eq_true, Bool.not_eq_true'] at this
    exact this.1
  refine ⟨⟨⟨w0, t0, rfl, hb0⟩, fun tail ht => ⟨tail, ?_, rfl⟩⟩,
          ⟨⟨'/', _, rfl, by decide⟩, fun tail ht => ⟨tail, ?_, rfl⟩⟩,
          ⟨⟨'-', _, rfl, by decide⟩, fun tail ht => ⟨tail, ?_, rfl⟩⟩⟩
  · have hq := quoteDelimiter_bare (w0 :: t0) tail (by simp) hword
      (by intro x r h; injection h with h1 _; subst h1; exact ⟨hc0.2.2.1, hc0.2.2.2.1⟩) ht
    simp only [List.cons_append] at hq ⊢
    simp [permArg, andThen, hq, terminated, map, pair, heq', eof]
  · have hq := quoteDelimiter_bare ('/' :: w0 :: t0) tail (by simp)
      (by intro x hx; rcases List.mem_cons.mp hx with rfl | hx; decide; exact hword x hx)
      (by intro x r h; injection h with h1 _; subst h1; decide) ht
    simp only [List.cons_append] at hq ⊢
    simp [permArg, andThen, hq, terminated, map, pair, hany, eof]
  · have hq := quoteDelimiter_bare ('-' :: w0 :: t0) tail (by simp)
      (by intro x hx; rcases List.mem_cons.mp hx with rfl | hx; decide; exact hword x hx)
      (by intro x r h; injection h with h1 _; subst h1; decide) ht
    simp only [List.cons_append] at hq ⊢
    simp [permArg, andThen, hq, terminated, map, pair, hatl, eof]

/-- From the text to chmod: a written minus-free clause list is read as the mode chmod computes
    from mode 0 for those clauses (C08_symbolic_partial behind the reader). -/
theorem C08_written (pf : Profile) (c : ClauseText) (cs : List ClauseText) (hv : ∀ ct ∈ c :: cs, ct.Valid)
    (hm : ∀ ct ∈ c :: cs, ct.op ≠ '-') :
    ∃ m, parsePermission pf (clauseText c ++ symTail cs) = .ok m [] ∧
      fromBits m = chmodFrom0 ((c :: cs).map ClauseText.clause) := by
  obtain ⟨pps, hpps, hperm⟩ := parsePermission_symbolic pf c cs hv
  obtain ⟨pps', hpps', hch⟩ := C08_symbolic_partial (c :: cs) hv hm
  rw [hpps] at hpps'
  injection hpps' with he
  subst he
  exact ⟨_, hperm, hch⟩

example : clauseText ⟨cl!"ug", '+', cl!"rx"⟩ ++ symTail [⟨cl!"o", '=', cl!"r"⟩] = cl!"ug+rx,o=r" := by decide
example : parsePermission .debug (cl!"ug+rx,o=r") = .ok 0o554 [] := by decide

end FV
