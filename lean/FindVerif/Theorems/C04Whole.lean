import FindVerif.Proofs.Read.Whole
import FindVerif.Theorems.C04
import FindVerif.Theorems.C02
/-
  C04, whole program (closing the part that was "by run only"): for EVERY tree that compiles and
  EVERY device path, the emitted text reads back — with the independent Scheme reader — as exactly
  two forms, `(use-modules …)` and `(let* (bindings…) (dynamic-wind … (lipe-scan "device" … (lambda ()
  body) …) …))`, whose bindings and policy body are the structured program of the same tree
  (every user string a string datum, by construction of the structured generator) and whose device
  argument is the string datum of the path.  No user string can therefore close its literal, open
  a form or a comment, or reach `format` as a directive (`C04_template_verbatim`).
  Together with C02 this gives the end-to-end statement: read the emitted text, run it, get find's
  outcome (`C02_end_to_end`).
-/
namespace FV
open Scheme Spec

theorem mapM_bindingOf (vars : List Binding) : (vars.map bindingForm).mapM bindingOf = some (vars.map Binding.sexp) := by
  induction vars with
  | nil => rfl
  | cons b bs ih =>
    simp only [List.map_cons, List.mapM_cons, ih]
    simp [bindingForm, bindingOf]

theorem options_text (o : RunOptions) :
    (match o.threads with | some c => nat c | none => cl!"(lipe-getopt-thread-count)") = optionsT o := by
  unfold optionsT; cases o.threads <;> rfl

set_option maxRecDepth 8000 in
/-- The emitted program reads back as the structured program. -/
theorem C04_whole_program (clk : Nat → Nat) (e : Expr) (o : RunOptions) (c : Compiled) (mdt : Text)
    (hc : compile clk e o = .ok c) :
    ∃ (ps : ProgramS) (p : Program) (forms : List SExp), compileS clk e = .ok ps ∧
      readAll (c.scheme mdt) = some forms ∧ programOf forms = some p ∧
      p.bindings = ps.bindings ∧ p.body = ps.body ∧ p.device = .str mdt ∧ c.ioMap = ps.ioMap := by
  simp only [compile] at hc
  cases hce : compileExpr clk (if !e.hasAction then Expr.and e (.action .defaultPrint) else e)
      { mgr := if e.complexFrames then Manager.distInit else Manager.localInit } with
  | err x => rw [hce] at hc; cases hc
  | panic s => rw [hce] at hc; cases hc
  | ok r =>
    obtain ⟨bt, st⟩ := r
    rw [hce] at hc
    simp only [CRes.ok.injEq] at hc
    subst hc
    -- the structured generator succeeds with the same final state
    have hstate := genExpr_state clk (if !e.hasAction then Expr.and e (.action .defaultPrint) else e)
      { mgr := if e.complexFrames then Manager.distInit else Manager.localInit }
    rw [hce] at hstate
    cases hge : genExpr clk (if !e.hasAction then Expr.and e (.action .defaultPrint) else e)
        { mgr := if e.complexFrames then Manager.distInit else Manager.localInit } with
    | err x => rw [hge] at hstate; simp [CRes.state] at hstate
    | panic s => rw [hge] at hstate; simp [CRes.state] at hstate
    | ok r' =>
      obtain ⟨bs, st'⟩ := r'
      rw [hge] at hstate
      simp [CRes.state] at hstate
      subst hstate
      have hbody : Prints bs bt := prints_expr clk _ _ _ _ bt bs hce hge
      have hfini : FiniOk st'.mgr := by
        refine finiOk_compileExpr clk _ _ st' bt ?_ hce
        split <;> (intro t ht; simp [Manager.distInit, Manager.localInit] at ht)
      obtain ⟨fini, hf2⟩ := prints_form2 st'.mgr hfini mdt hbody o
      have hf1 := prints_form1 st'.mgr
      have hread := readAll_two hf1 hf2
      have hprog : programOf [form1 st'.mgr, form2 st'.mgr mdt bs o fini] =
          some { modules := .list [sy (cl!"lipe")] :: .list [sy (cl!"lipe"), sy (cl!"find")] :: modulesS st'.mgr,
                 bindings := st'.mgr.vars.map Binding.sexp, init := .list [sy (cl!"lambda"), unitS, .bool true], device := .str mdt, body := bs,
                 threads := optionsS o, fini := .list (sy (cl!"lambda") :: unitS :: fini) } := by
        simp only [programOf, form1, form2, scanS, unitS, sy, mapM_bindingOf]
        simp
      refine ⟨{ bindings := st'.mgr.vars.map Binding.sexp, body := bs, ioMap := st'.mgr.printerMap }, _, _, ?_, ?_, hprog, rfl, rfl, rfl, rfl⟩
      · simp only [compileS, hge]
      · rw [← hread]
        congr 1
        unfold optionsT
        cases o.threads <;>
          simp only [Compiled.scheme, Compiled.prefix_, Compiled.suffix_, Manager.initialization, List.append_assoc, List.cons_append,
            List.nil_append, List.singleton_append]

/-- End to end: read the emitted text with the Scheme reader, run the program it denotes on a file,
    and get find's outcome for the tree. -/
theorem C02_end_to_end (rt : Rt) (file : File) (clk : Nat → Nat) (now : Nat) (e : Expr) (o : RunOptions) (c : Compiled) (mdt : Text)
    (hclk : ∀ i, clk i = now) (hc : compile clk e o = .ok c)
    (htags : ∀ kv ∈ c.ioMap.getD [], kv.1 < 0xD800)
    (hdef : evalFind rt now (policyTree e) file ≠ .undefined) :
    ∃ forms p, readAll (c.scheme mdt) = some forms ∧ programOf forms = some p ∧
      runPolicy rt file c.ioMap p.bindings p.body = .outcome (evalFind rt now (policyTree e) file) := by
  obtain ⟨ps, p, forms, hps, hread, hprog, hb, hbody, _, hio⟩ := C04_whole_program clk e o c mdt hc
  refine ⟨forms, p, hread, hprog, ?_⟩
  rw [hb, hbody, hio]
  exact C02_translation_validity rt file clk now e ps hclk hps (by intro kv hkv; exact htags kv (by rw [hio]; exact hkv)) hdef

end FV
