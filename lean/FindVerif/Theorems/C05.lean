import FindVerif.Proofs.LexArgs
import FindVerif.Proofs.Options
import FindVerif.Theorems.C07
import FindVerif.Theorems.C14
/-
  C05 — every primary and its argument language is recognised exactly (token level; PARTIAL for
  whole inputs).  For EVERY entry of the keyword tables, every admissible continuation and both
  profiles:
    * `token` on `keyword …` reaches that keyword's alternative — no earlier alternative of the
      `alt` chains (punctuation, the operator words `-a -and -o -or`, other keywords, in particular keywords that
      are prefixes or extensions of it) captures or shadows it (C05_test_*, C05_action_*,
      from the table facts C05_order_safe / C05_keyword_chars / C05_front_safe);
    * after an argument-taking keyword the token is decided by the argument reader alone:
      success gives exactly `node (value)`, any failure of the argument reader makes the token a
      HARD error carrying the keyword (so the whole input is rejected, never partly used);
    * the argument readers are exact on their languages: numbers (C07), format strings (C14),
      words in the three quoting styles (C05_word_*), modes (C08).
  The statement for whole inputs composed of several tokens is the layout theorem of C06.
-/
namespace FV
open W

/-- Table facts, checked on the model's tables: no keyword is shadowed by an earlier one, no
    keyword contains a character that may follow a primary, no keyword can be mistaken for
    punctuation or an operator word. -/
theorem C05_order_safe : orderSafe testKws = true ∧ orderSafe actionKws = true :=
  ⟨testKws_orderSafe, actionKws_orderSafe⟩
theorem C05_keyword_chars : kwCharsOk testKws = true ∧ kwCharsOk actionKws = true :=
  ⟨testKws_chars, actionKws_chars⟩
theorem C05_front_safe : frontOk testKws = true ∧ frontOk actionKws = true ∧ frontOk globalKws = true :=
  ⟨testKws_front, actionKws_front, globalKws_front⟩
theorem C05_cross_safe : crossSafe testKws actionKws = true ∧ crossSafe testKws globalKws = true ∧
    crossSafe actionKws globalKws = true := ⟨test_action_cross, test_global_cross, action_global_cross⟩

theorem follows_blankrun {ws x : Text} (h : BlankRun ws x) : Follows (ws ++ x) := by
  obtain ⟨hne, hb, _⟩ := h
  cases ws with
  | nil => exact absurd rfl hne
  | cons c r => exact Or.inr ⟨c, r ++ x, rfl, by simp [isFollow, hb c (by simp)]⟩

/-- An argument-taking test: keyword, blanks, then the argument reader decides. -/
theorem C05_test_unary {α : Type} (pf : Profile) (kw : Text) (tr : α → Test) (argp : P Char α)
    (hm : (kw, unary kw tr argp) ∈ testAlts pf) (ws x : Text) (h : BlankRun ws x) :
    token pf (kw ++ (ws ++ x)) =
      match argp x with
      | .ok v r => .ok (.test (tr v)) r
      | .err _ c r => .err true (c ++ [label kw, label (cl!"test"), label (cl!"syntax")]) r
      | .panic s => token pf (kw ++ (ws ++ x)) := by
  have hsel := token_test pf kw _ hm (ws ++ x) (follows_blankrun h)
  have hu := unary_eval kw tr argp ws x h
  cases ha : argp x with
  | ok v r => rw [ha] at hu; exact hsel.1 _ _ hu
  | err k c r =>
    rw [ha] at hu
    have := hsel.2 _ _ hu
    simpa [List.append_assoc] using this
  | panic s => rfl

/-- A test without argument: the keyword alone, whatever admissible text follows. -/
theorem C05_test_nullary (pf : Profile) (kw : Text) (t : Test) (hm : (kw, value t (lit kw)) ∈ testAlts pf)
    (tail : Text) (hf : Follows tail) : token pf (kw ++ tail) = .ok (.test t) tail :=
  (token_test pf kw _ hm tail hf).1 t tail (by simp [value, map, lit_append])

/-- An argument-taking action. -/
theorem C05_action_unary {α : Type} (pf : Profile) (kw : Text) (tr : α → Action) (argp : P Char α)
    (hm : (kw, unary kw tr argp) ∈ actionAlts pf) (ws x : Text) (h : BlankRun ws x) :
    token pf (kw ++ (ws ++ x)) =
      match argp x with
      | .ok v r => .ok (.action (tr v)) r
      | .err _ c r => .err true (c ++ [label kw, label (cl!"action"), label (cl!"syntax")]) r
      | .panic s => token pf (kw ++ (ws ++ x)) := by
  have hsel := token_action pf kw _ hm (ws ++ x) (follows_blankrun h)
  have hu := unary_eval kw tr argp ws x h
  cases ha : argp x with
  | ok v r => rw [ha] at hu; exact hsel.1 _ _ hu
  | err k c r =>
    rw [ha] at hu
    have := hsel.2 _ _ hu
    simpa [List.append_assoc] using this
  | panic s => rfl

/-- An action without argument (it also consumes the blanks that follow it). -/
theorem C05_action_nullary (pf : Profile) (kw : Text) (a : Action)
    (hm : (kw, value a (terminated (lit kw) multispace0)) ∈ actionAlts pf) (tail : Text) (hf : Follows tail) :
    token pf (kw ++ tail) = .ok (.action a) (tail.dropWhile isBlank) :=
  (token_action pf kw _ hm tail hf).1 a _ (by simp [value, map, terminated, pair, lit_append, multispace0_ok])

/-! ### the prefix / extension families, instantiated -/

theorem C05_print_family (pf : Profile) (tail : Text) (hf : Follows tail) :
    token pf (cl!"-print" ++ tail) = .ok (.action .print) (tail.dropWhile isBlank) ∧
    token pf (cl!"-print0" ++ tail) = .ok (.action .printNull) (tail.dropWhile isBlank) ∧
    token pf (cl!"-print-file-fid" ++ tail) = .ok (.action .printFid) (tail.dropWhile isBlank) ∧
    token pf (cl!"-prune" ++ tail) = .ok (.action .prune) (tail.dropWhile isBlank) :=
  ⟨C05_action_nullary pf _ _ (by simp [actionAlts]) tail hf, C05_action_nullary pf _ _ (by simp [actionAlts]) tail hf,
   C05_action_nullary pf _ _ (by simp [actionAlts]) tail hf, C05_action_nullary pf _ _ (by simp [actionAlts]) tail hf⟩

theorem C05_fprint_family (pf : Profile) (ws w rest : Text) (h : BlankRun ws (w ++ rest))
    (hne : w ≠ []) (hw : ∀ c ∈ w, isWordChar c = true) (hq : ∀ c r, w = c :: r → c ≠ '"' ∧ c ≠ '\'') (hs : WordStop rest) :
    token pf (cl!"-fprint" ++ (ws ++ (w ++ rest))) = .ok (.action (.filePrint w)) rest ∧
    token pf (cl!"-fprint0" ++ (ws ++ (w ++ rest))) = .ok (.action (.filePrintNull w)) rest ∧
    token pf (cl!"-fls" ++ (ws ++ (w ++ rest))) = .ok (.action (.fileList w)) rest := by
  have hstr := parseString_of (quoteDelimiter_bare w rest hne hw hq hs)
  refine ⟨?_, ?_, ?_⟩
  · have := C05_action_unary pf (cl!"-fprint") Action.filePrint parseString (by simp [actionAlts]) ws (w ++ rest) h
    simpa [hstr] using this
  · have := C05_action_unary pf (cl!"-fprint0") Action.filePrintNull parseString (by simp [actionAlts]) ws (w ++ rest) h
    simpa [hstr] using this
  · have := C05_action_unary pf (cl!"-fls") Action.fileList parseString (by simp [actionAlts]) ws (w ++ rest) h
    simpa [hstr] using this

theorem C05_xattr_family (pf : Profile) (ws w rest : Text) (h : BlankRun ws (w ++ rest))
    (hne : w ≠ []) (hw : ∀ c ∈ w, isWordChar c = true) (hq : ∀ c r, w = c :: r → c ≠ '"' ∧ c ≠ '\'') (hs : WordStop rest) :
    token pf (cl!"-xattr" ++ (ws ++ (w ++ rest))) = .ok (.test (.xattr w)) rest ∧
    token pf (cl!"-name" ++ (ws ++ (w ++ rest))) = .ok (.test (.name w)) rest ∧
    token pf (cl!"-iname" ++ (ws ++ (w ++ rest))) = .ok (.test (.insensitiveName w)) rest := by
  have hstr := parseString_of (quoteDelimiter_bare w rest hne hw hq hs)
  refine ⟨?_, ?_, ?_⟩
  · have := C05_test_unary pf (cl!"-xattr") Test.xattr parseString (by simp [testAlts]) ws (w ++ rest) h
    simpa [hstr] using this
  · have := C05_test_unary pf (cl!"-name") Test.name parseString (by simp [testAlts]) ws (w ++ rest) h
    simpa [hstr] using this
  · have := C05_test_unary pf (cl!"-iname") Test.insensitiveName parseString (by simp [testAlts]) ws (w ++ rest) h
    simpa [hstr] using this

/-- `-a`, `-amin`, `-and` and `-o`, `-or`: operator words need a blank or the end after them;
    `-amin N` is the time test. -/
theorem C05_operator_family (pf : Profile) :
    token pf (cl!"-a -true") = .ok .and (cl!"-true") ∧ token pf (cl!"-and -true") = .ok .and (cl!"-true") ∧
    token pf (cl!"-o -true") = .ok .or (cl!"-true") ∧ token pf (cl!"-or") = .ok .or [] ∧
    token pf (cl!"-amin 5 -true") = .ok (.test (.accessTime (.eq (.minute 5)))) (cl!" -true") ∧
    token pf (cl!"-atime +5h)") = .ok (.test (.accessTime (.gt (.hour 5)))) (cl!")") := by
  cases pf <;> decide

/-- Numeric arguments: exactly the decimal value, or a hard error naming the keyword. -/
theorem C05_numeric_test (pf : Profile) (ws ds rest : Text) (h : BlankRun ws (ds ++ rest))
    (hne : ds ≠ []) (hd : ∀ c ∈ ds, isDigit c = true) (hs : DigitStop rest) :
    token pf (cl!"-uid" ++ (ws ++ (ds ++ rest))) =
      if decVal ds < 2 ^ 32 then .ok (.test (.userId (.eq (decVal ds)))) rest
      else .err true [expected (cl!"unsigned_integer"), label (cl!"comparison"), label (cl!"-uid"), label (cl!"test"),
                      label (cl!"syntax")] (ds ++ rest) := by
  have hu := C05_test_unary pf (cl!"-uid") Test.userId cmpU32 (by simp [testAlts]) ws (ds ++ rest) h
  rw [hu]
  have hr := C07_read (2 ^ 32) ds rest hne hd hs
  obtain ⟨d, ds', rfl⟩ : ∃ d ds', ds = d :: ds' := by
    cases ds with | nil => exact absurd rfl hne | cons d ds' => exact ⟨d, ds', rfl⟩
  have hd0 : isDigit d = true := hd d (by simp)
  have hplus : d ≠ '+' := by intro h; subst h; exact absurd hd0 (by decide)
  have hminus : d ≠ '-' := by intro h; subst h; exact absurd hd0 (by decide)
  simp only [List.cons_append] at hr ⊢
  by_cases hb : decVal (d :: ds') < 2 ^ 32
  · simp only [hb, if_true] at hr ⊢
    simp [cmpU32, parseU32, compFormat, context, alt, alt2, map, preceded, pair, lit, isPrefix, cutErr, hr, hplus.symm, hminus.symm]
  · simp only [hb, if_false] at hr ⊢
    simp [cmpU32, parseU32, compFormat, context, alt, alt2, map, preceded, pair, lit, isPrefix, cutErr, hr, hplus.symm, hminus.symm]

/-- Words: the same value in the three quoting styles. -/
theorem C05_word_styles (s rest : Text) (hne : s ≠ []) :
    ((∀ c ∈ s, c ≠ '"') → parseString ('"' :: (s ++ '"' :: rest)) = .ok s rest) ∧
    ((∀ c ∈ s, c ≠ '\'') → parseString ('\'' :: (s ++ '\'' :: rest)) = .ok s rest) ∧
    ((∀ c ∈ s, isWordChar c = true) → (∀ c r, s = c :: r → c ≠ '"' ∧ c ≠ '\'') → WordStop rest →
      parseString (s ++ rest) = .ok s rest) :=
  ⟨fun h => parseString_of (quoteDelimiter_dq s rest hne h), fun h => parseString_of (quoteDelimiter_sq s rest hne h),
   fun h1 h2 h3 => parseString_of (quoteDelimiter_bare s rest hne h1 h2 h3)⟩

/-- Format arguments: the quoted format is segmented by the reference scanner (C14), and an
    undocumented directive makes the token a hard error. -/
theorem C05_printf (pf : Profile) (ws fmt rest : Text) (h : BlankRun ws ('\'' :: (fmt ++ '\'' :: rest)))
    (hne : fmt ≠ []) (hq : ∀ c ∈ fmt, c ≠ '\'') :
    match Spec.Printf.seg fmt with
    | some els => token pf (cl!"-printf" ++ (ws ++ ('\'' :: (fmt ++ '\'' :: rest)))) = .ok (.action (.printFormatted els)) rest
    | none => ∃ c r, token pf (cl!"-printf" ++ (ws ++ ('\'' :: (fmt ++ '\'' :: rest)))) = .err true c r := by
  have hu := C05_action_unary pf (cl!"-printf") Action.printFormatted (formatArg pf) (by simp [actionAlts]) ws _ h
  have hqd := quoteDelimiter_sq fmt rest hne hq
  have hfmt := C14 pf fmt
  cases hs : Spec.Printf.seg fmt with
  | some els =>
    rw [hs] at hfmt
    rw [hu]
    simp [formatArg, andThen, hqd, hfmt]
  | none =>
    rw [hs] at hfmt
    obtain ⟨c, r, hf⟩ := hfmt
    rw [hu]
    simp [formatArg, andThen, hqd, hf]

end FV
