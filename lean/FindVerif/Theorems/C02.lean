import FindVerif.Proofs.C02.Sem
/-
  C02 — the compiled policy means what the expression means (translation validity).

  Statement.  For EVERY expression tree `e` (any size, any arguments), every clock reading, every
  file record and every choice of the opaque runtime functions: if the structured compiler
  produces a program, then running that program — evaluate the `let*` bindings in order, then the
  policy body, in the runtime model — gives exactly find's outcome for the tree (wrapped with the
  implicit print when it has no action, C09): the same truth value, the same outputs
  (destination, bytes, terminator) in the same order (in framed mode decoded through the
  destination table), and the same stop request; and it does not fail at run time.  "Defined"
  (the property's last sentence) is `evalFind ≠ undefined`: `%S` of an empty file has no meaning.

  Hypotheses, all explicit: (1) the compile happened within one clock reading (`clk i = now`;
  C15 bounds the readings by the compile call); (2) every frame tag is a character
  (`tag < 0xD800`, i.e. fewer than 55296 generated names — `#\xD800` is not a character).

  What is proved about what.  `compileS` is the STRUCTURED twin of the code generator (it emits
  S-expressions; Model/GenS.lean).  It is tied to src/scheme/*.rs on every run: the
  implementation's text is read back with the Scheme reader and must equal `compileS` of the same
  tree (bindings, body, destination table), and the text generator model must agree byte for byte.
  `genExpr_state` proves that the structured and the text generator thread the resource manager
  identically.  The runtime semantics (`Spec/Scheme/Eval.lean`) and find's rules (`Spec/Find.lean`)
  are the trusted reading of software outside the repository.
-/
namespace FV
open Scheme Spec

/-- Every frame tag of the program is a character. -/
def TagsAreChars (ps : ProgramS) : Prop := ∀ kv ∈ ps.ioMap.getD [], kv.1 < 0xD800

/-- The tree the policy is generated from (C09). -/
def policyTree (e : Expr) : Expr := if !e.hasAction then Expr.and e (.action .defaultPrint) else e

theorem C02_translation_validity (rt : Rt) (file : File) (clk : Nat → Nat) (now : Nat) (e : Expr) (ps : ProgramS)
    (hclk : ∀ i, clk i = now) (hc : compileS clk e = .ok ps) (htags : TagsAreChars ps)
    (hdef : evalFind rt now (policyTree e) file ≠ .undefined) :
    runPolicy rt file ps.ioMap ps.bindings ps.body = .outcome (evalFind rt now (policyTree e) file) := by
  simp only [compileS] at hc
  cases hgen : genExpr clk (if !e.hasAction then Expr.and e (.action .defaultPrint) else e)
      { mgr := if e.complexFrames then Manager.distInit else Manager.localInit } with
  | err x => rw [hgen] at hc; cases hc
  | panic s => rw [hgen] at hc; cases hc
  | ok r =>
    obtain ⟨body, st⟩ := r
    rw [hgen] at hc
    simp only [CRes.ok.injEq] at hc
    subst hc
    have hinv0 : Inv (if e.complexFrames then Manager.distInit else Manager.localInit) := by
      split
      · exact Inv.distInit
      · exact Inv.localInit
    have hstep := genExpr_step clk _ _ st body hinv0 hgen
    have hF : FinalEnv st.mgr { rt := rt, file := file, env := envOf st.mgr.vars } := by
      refine ⟨rfl, hstep.inv, ?_, ?_⟩
      · intro hd t i hin
        apply htags (i, t)
        simp only [Manager.printerMap, hd, if_true, Option.getD_some]
        exact List.mem_map.mpr ⟨(t, i), hin, rfl⟩
      · intro hd
        have hm := hstep.mode
        by_cases hcf : e.complexFrames = true
        · simp only [hcf, if_true] at hstep
          exact hstep.ext
        · simp [hcf, Manager.localInit] at hm
          rw [hm] at hd; cases hd
    have henv : evalBindings rt file (st.mgr.vars.map Binding.sexp) [] = .ok (envOf st.mgr.vars) := by
      have := evalBindings_envOf rt file [] st.mgr.vars (by simpa using hstep.inv.core.nodup)
        (by intro p b q h; exact hstep.inv.core.usesBound p b q (by simpa using h))
      simpa [envOf, envFrom] using this
    have hsem := expr_sem clk now hclk hF _ _ st body hgen hinv0 (Step.refl hstep.inv)
    simp only [runPolicy, henv]
    simp only [policyTree] at hdef ⊢
    cases hout : evalFind rt now (if !e.hasAction then Expr.and e (.action .defaultPrint) else e) file with
    | undefined => exact absurd hout hdef
    | done b outs =>
      rw [hout] at hsem
      obtain ⟨v, evs, hev, hb, hd⟩ := hsem
      simp only [hev, hd, hb]
    | stopped outs =>
      rw [hout] at hsem
      obtain ⟨evs, hev, hd⟩ := hsem
      simp only [hev, hd]

end FV

namespace FV
open Scheme Spec

/-- The policy never fails at run time on a file for which the expression is defined. -/
theorem C02_never_fails (rt : Rt) (file : File) (clk : Nat → Nat) (now : Nat) (e : Expr) (ps : ProgramS)
    (hclk : ∀ i, clk i = now) (hc : compileS clk e = .ok ps) (htags : TagsAreChars ps)
    (hdef : evalFind rt now (policyTree e) file ≠ .undefined) :
    ∃ o, runPolicy rt file ps.ioMap ps.bindings ps.body = .outcome o :=
  ⟨_, C02_translation_validity rt file clk now e ps hclk hc htags hdef⟩

/-- The structured generator and the text generator make the same resource requests in the same
    order and fail on the same trees with the same error: their final states agree. -/
theorem C02_generators_agree (clk : Nat → Nat) (e : Expr) (st : CState) :
    (genExpr clk e st).state = (compileExpr clk e st).state :=
  genExpr_state clk e st

/-- Operators by find's rules: short-circuit AND / OR, negation, `,` as AND. -/
theorem C02_operators (rt : Rt) (now : Nat) (a b : Expr) (f : File) :
    evalFind rt now (.and a b) f = (evalFind rt now a f).andThen (evalFind rt now b f) ∧
    evalFind rt now (.list a b) f = (evalFind rt now a f).andThen (evalFind rt now b f) ∧
    evalFind rt now (.or a b) f = (evalFind rt now a f).orElse (evalFind rt now b f) ∧
    evalFind rt now (.not a) f = (evalFind rt now a f).negate := ⟨rfl, rfl, rfl, rfl⟩

/-- Non-vacuity: a framed program with a matcher (`-name foo -print0`) satisfies the hypotheses. -/
example : ∃ ps, compileS (fun _ => 7) (.and (.test (.name (cl!"foo"))) (.action .printNull)) = .ok ps ∧
    TagsAreChars ps ∧ ps.ioMap = some [(4, .stdout (some '\x00'))] := by
  refine ⟨_, rfl, ?_, rfl⟩
  intro kv hkv
  have h : kv ∈ [((4 : Nat), Target.stdout (some '\x00'))] := hkv
  simp at h
  subst h
  decide

end FV
