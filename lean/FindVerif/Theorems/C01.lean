import FindVerif.Proofs.ClimbTotal
import FindVerif.Proofs.Spell
/-
  C01 — operator grammar: precedence, associativity, grouping, exact acceptance.
  `climb pf ts` is the model of `precedence::parser` on a token slice (Model/Precedence.lean);
  `Spec.GList` is the stratified find grammar (Spec/Grammar.lean).  All statements hold for
  every token sequence / tree, with no length or depth bound, in both build profiles.
-/
namespace FV
open Spec

/-- Acceptance is exactly grammar membership, and the tree returned is the grammar's. -/
theorem C01_iff (pf : Profile) (ts : List Token) (e : Expr) :
    climb pf ts = .ok e [] ↔ GList ts e :=
  ⟨fun h => (climb_sound pf h).2, fun h => climb_complete pf h⟩

/-- No prefix is ever returned: a successful parse has consumed every token. -/
theorem C01_whole (pf : Profile) (ts : List Token) (e : Expr) (r : List Token)
    (h : climb pf ts = .ok e r) : r = [] ∧ GList ts e := climb_sound pf h

/-- The tree is unique: the grammar is unambiguous. -/
theorem C01_unique (ts : List Token) (e e' : Expr) (h : GList ts e) (h' : GList ts e') : e = e' := by
  have a := climb_complete .debug h
  have b := climb_complete .debug h'
  rw [a] at b
  injection b

/-- Any sequence that is not a sentence is rejected as a whole: the result is an error value,
    never a success and never a panic. -/
theorem C01_reject (pf : Profile) (ts : List Token) (h : ¬ ∃ e, GList ts e) :
    ∃ k c r, climb pf ts = .err k c r := by
  cases hc : climb pf ts with
  | ok e r => exact absurd ⟨e, (climb_sound pf hc).2⟩ h
  | err k c r => exact ⟨k, c, r, rfl⟩
  | panic s => exact absurd hc (climb_noPanic pf ts s)

/-- Every tree without explicit-precedence nodes is the parse of its canonical spelling, with
    explicit or implicit AND: precedence `! > AND > OR > ,`, left associativity and parentheses
    leaving no node, all at once. -/
theorem C01_roundtrip (pf : Profile) (x : Bool) (e : Expr) (h : Plain e) :
    climb pf (spell x e) = .ok e [] := climb_complete pf (spell_sound x e h)

mutual
theorem plain_atom : ∀ {ts e}, GAtom ts e → Plain e
  | _, _, @GAtom.prim t e h => by cases t <;> simp [primOf] at h <;> subst h <;> trivial
  | _, _, .not h => by simpa [Plain] using plain_atom h
  | _, _, .paren h => plain_list h
theorem plain_and : ∀ {ts e}, GAnd ts e → Plain e
  | _, _, .atom h => plain_atom h
  | _, _, .andE h1 h2 => ⟨plain_and h1, plain_atom h2⟩
  | _, _, .andI h1 h2 => ⟨plain_and h1, plain_atom h2⟩
theorem plain_or : ∀ {ts e}, GOr ts e → Plain e
  | _, _, .and h => plain_and h
  | _, _, .or h1 h2 => ⟨plain_or h1, plain_and h2⟩
theorem plain_list : ∀ {ts e}, GList ts e → Plain e
  | _, _, .or h => plain_or h
  | _, _, .comma h1 h2 => ⟨plain_list h1, plain_or h2⟩
end

/-- The parser never builds an explicit-precedence node. -/
theorem C01_plain (pf : Profile) (ts : List Token) (e : Expr) (r : List Token)
    (h : climb pf ts = .ok e r) : Plain e := plain_list (climb_sound pf h).2

/-! Non-vacuity: concrete sentences, their trees, and a rejected sequence. -/

private def tT : Token := .test .true_
private def tF : Token := .test .false_
private def eT : Expr := .test .true_
private def eF : Expr := .test .false_

/-- `-true , -false -o -true -false , -true` -/
example : climb .debug [tT, .comma, tF, .or, tT, tF, .comma, tT]
    = .ok (.list (.list eT (.or eF (.and eT eF))) eT) [] := by decide

/-- `! ! ( -true , -false ) -true` -/
example : climb .release [.not, .not, .lparen, tT, .comma, tF, .rparen, tT]
    = .ok (.and (.not (.not (.list eT eF))) eT) [] := by decide

/-- `-true )` is rejected although its prefix `-true` is a sentence. -/
example : (match climb .debug [tT, .rparen] with | .err _ _ _ => true | _ => false) = true := by decide

example : spell true (.and (.or eT eF) (.not (.list eT eF)))
    = [.lparen, tT, .or, tF, .rparen, .and, .not, .lparen, tT, .comma, tF, .rparen] := by decide

end FV
