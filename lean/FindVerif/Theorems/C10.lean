import FindVerif.Proofs.CompileInv
import FindVerif.Theorems.C19
/-
  C10 — output routing: mode choice and destination table.
  Statements about the model of `scheme::compile` and the managers, for every tree, clock and
  options.  `Spec.NeedsFraming` / `Spec.target` are the declarative readings of the property.
-/
namespace FV
open Spec

/-- The output mode of a compilation run: the manager it starts from. -/
def initialManager (e : Expr) : Manager := if e.complexFrames then Manager.distInit else Manager.localInit

theorem compile_unfold (clk : Nat → Nat) (e : Expr) (o : RunOptions) (c : Compiled) (h : compile clk e o = .ok c) :
    ∃ target body st, (target = e ∨ target = Expr.and e (.action .defaultPrint)) ∧
      compileExpr clk target { mgr := initialManager e } = .ok (body, st) ∧
      c.policyBody = body ∧ c.ioMap = st.mgr.printerMap ∧ c.modules = st.mgr.modules ∧
      c.definitions = st.mgr.definitions := by
  simp only [compile] at h
  split at h
  · cases h
  · cases h
  · rename_i body st hc
    cases h
    refine ⟨_, body, st, ?_, hc, rfl, rfl, rfl, rfl⟩
    by_cases ha : e.hasAction = true <;> simp [ha]

/-- Framed (distributed) output is selected exactly when some action writes to a file, terminates
    records with NUL, or prints a format not ending in a newline escape. -/
theorem C10_mode (clk : Nat → Nat) (e : Expr) (o : RunOptions) (c : Compiled) (h : compile clk e o = .ok c) :
    c.ioMap.isSome = true ↔ NeedsFraming e := by
  obtain ⟨target, body, st, _, hc, _, hm, _, _⟩ := compile_unfold clk e o c h
  rw [← C19_frames, hm]
  have hinv : Inv (initialManager e) := by
    unfold initialManager; split
    · exact Inv.distInit
    · exact Inv.localInit
  have hstep := compileExpr_step clk target { mgr := initialManager e } st body hinv hc
  have hmode : st.mgr.distributed = e.complexFrames := by
    rw [hstep.mode]
    unfold initialManager
    by_cases hf : e.complexFrames = true <;> simp [hf, Manager.distInit, Manager.localInit]
  simp only [Manager.printerMap, hmode]
  by_cases hf : e.complexFrames = true <;> simp [hf]

/-- Plain mode reports no destination table (and loads no thread module). -/
theorem C10_plain (clk : Nat → Nat) (e : Expr) (o : RunOptions) (c : Compiled) (h : compile clk e o = .ok c)
    (hn : ¬ NeedsFraming e) : c.ioMap = none := by
  have := C10_mode clk e o c h
  cases hio : c.ioMap with
  | none => rfl
  | some m => rw [hio] at this; exact absurd (this.mp rfl) hn

/-- In framed mode the table is a bijection: equal (destination, terminator) pairs share one tag
    and different pairs never do. -/
theorem C10_table_bijective (clk : Nat → Nat) (e : Expr) (o : RunOptions) (c : Compiled) (h : compile clk e o = .ok c)
    (tbl : List (Nat × Target)) (ht : c.ioMap = some tbl) :
    (tbl.map Prod.fst).Nodup ∧ (tbl.map Prod.snd).Nodup := by
  obtain ⟨target, body, st, _, hc, _, hm, _, _⟩ := compile_unfold clk e o c h
  have hinv : Inv (initialManager e) := by
    unfold initialManager; split
    · exact Inv.distInit
    · exact Inv.localInit
  have hstep := compileExpr_step clk target { mgr := initialManager e } st body hinv hc
  rw [hm] at ht
  simp only [Manager.printerMap] at ht
  split at ht
  · cases ht
    have hk := hstep.inv.maps.dKeys
    have hv := hstep.inv.maps.dVals
    simp only [List.map_map]
    exact ⟨by simpa [Function.comp_def] using hv, by simpa [Function.comp_def] using hk⟩
  · cases ht

/-- Every output action of the tree has its (destination, terminator) pair in the table —
    wherever the action stands (under negation, in dead branches, right of OR or `,`). -/
theorem actions_registered (clk : Nat → Nat) : ∀ (e : Expr) (st st' : CState) (txt : Text),
    Inv st.mgr → st.mgr.distributed = true → compileExpr clk e st = .ok (txt, st') →
    ∀ a ∈ actionsOf e, ∀ t, target a = some t → ∃ i, (t, i) ∈ st'.mgr.printersD := by
  intro e
  induction e with
  | test t => intro st st' txt _ _ _ a ha; simp [actionsOf] at ha
  | global g => intro st st' txt _ _ _ a ha; simp [actionsOf] at ha
  | positional p => intro st st' txt _ _ _ a ha; simp [actionsOf] at ha
  | prec e _ => intro st st' txt _ _ hc; simp [compileExpr] at hc
  | action act =>
    intro st st' txt hinv hd hc a ha t ht
    simp [actionsOf] at ha
    subst ha
    simp only [compileExpr] at hc
    cases a with
    | print =>
      simp only [compileAction] at hc; cases hc
      simp [target] at ht; subst ht
      have := (getPrinter_spec st.mgr (some '\n') hinv).2.1
      obtain ⟨i, _, hp⟩ := this
      have hm : (st.mgr.getPrinter (some '\n')).2.distributed = true := by
        rw [(getPrinter_spec st.mgr (some '\n') hinv).1.mode, hd]
      simp only [hm, if_true] at hp
      exact ⟨i, hp.2⟩
    | printNull =>
      simp only [compileAction] at hc; cases hc
      simp [target] at ht; subst ht
      obtain ⟨i, _, hp⟩ := (getPrinter_spec st.mgr (some '\x00') hinv).2.1
      have hm : (st.mgr.getPrinter (some '\x00')).2.distributed = true := by
        rw [(getPrinter_spec st.mgr (some '\x00') hinv).1.mode, hd]
      simp only [hm, if_true] at hp
      exact ⟨i, hp.2⟩
    | filePrint f =>
      simp only [compileAction] at hc; cases hc
      simp [target] at ht; subst ht
      obtain ⟨i, _, hp⟩ := (getFilePrinter_spec st.mgr f (some '\n') hinv).2.1
      have hm : (st.mgr.getFilePrinter f (some '\n')).2.distributed = true := by
        rw [(getFilePrinter_spec st.mgr f (some '\n') hinv).1.mode, hd]
      simp only [hm, if_true] at hp
      exact ⟨i, hp.2⟩
    | filePrintNull f =>
      simp only [compileAction] at hc; cases hc
      simp [target] at ht; subst ht
      obtain ⟨i, _, hp⟩ := (getFilePrinter_spec st.mgr f (some '\x00') hinv).2.1
      have hm : (st.mgr.getFilePrinter f (some '\x00')).2.distributed = true := by
        rw [(getFilePrinter_spec st.mgr f (some '\x00') hinv).1.mode, hd]
      simp only [hm, if_true] at hp
      exact ⟨i, hp.2⟩
    | printFormatted es =>
      simp only [compileAction] at hc
      split at hc
      · cases hc
      · cases hc
        simp [target] at ht; subst ht
        obtain ⟨i, _, hp⟩ := (getPrinter_spec st.mgr none hinv).2.1
        have hm : (st.mgr.getPrinter none).2.distributed = true := by
          rw [(getPrinter_spec st.mgr none hinv).1.mode, hd]
        simp only [hm, if_true] at hp
        exact ⟨i, hp.2⟩
    | filePrintFormatted f es =>
      simp only [compileAction] at hc
      split at hc
      · cases hc
      · cases hc
        simp [target] at ht; subst ht
        obtain ⟨i, _, hp⟩ := (getFilePrinter_spec st.mgr f none hinv).2.1
        have hm : (st.mgr.getFilePrinter f none).2.distributed = true := by
          rw [(getFilePrinter_spec st.mgr f none hinv).1.mode, hd]
        simp only [hm, if_true] at hp
        exact ⟨i, hp.2⟩
    | _ => simp [target] at ht
  | not e ih =>
    intro st st' txt hinv hd hc a ha t ht
    simp only [compileExpr] at hc
    cases h1 : compileExpr clk e st with
    | ok r => obtain ⟨t1, s1⟩ := r; rw [h1] at hc; simp at hc; obtain ⟨_, rfl⟩ := hc
              exact ih st s1 t1 hinv hd h1 a (by simpa [actionsOf] using ha) t ht
    | err x => rw [h1] at hc; simp at hc
    | panic s => rw [h1] at hc; simp at hc
  | and a b iha ihb => intro st st' txt hinv hd hc; exact bin clk a b iha ihb st st' txt _ hinv hd (by simpa [compileExpr] using hc)
  | list a b iha ihb => intro st st' txt hinv hd hc; exact bin clk a b iha ihb st st' txt _ hinv hd (by simpa [compileExpr] using hc)
  | or a b iha ihb => intro st st' txt hinv hd hc; exact bin clk a b iha ihb st st' txt _ hinv hd (by simpa [compileExpr] using hc)
where
  bin (clk : Nat → Nat) (a b : Expr)
      (iha : ∀ (st st' : CState) (txt : Text), Inv st.mgr → st.mgr.distributed = true → compileExpr clk a st = .ok (txt, st') →
        ∀ x ∈ actionsOf a, ∀ t, target x = some t → ∃ i, (t, i) ∈ st'.mgr.printersD)
      (ihb : ∀ (st st' : CState) (txt : Text), Inv st.mgr → st.mgr.distributed = true → compileExpr clk b st = .ok (txt, st') →
        ∀ x ∈ actionsOf b, ∀ t, target x = some t → ∃ i, (t, i) ∈ st'.mgr.printersD)
      (st st' : CState) (txt hd : Text) (hinv : Inv st.mgr) (hdist : st.mgr.distributed = true)
      (hc : compileExpr.bin hd (compileExpr clk a st) (compileExpr clk b) = .ok (txt, st')) :
      ∀ x ∈ actionsOf a ++ actionsOf b, ∀ t, target x = some t → ∃ i, (t, i) ∈ st'.mgr.printersD := by
    simp only [compileExpr.bin] at hc
    cases h1 : compileExpr clk a st with
    | ok r =>
      obtain ⟨t1, s1⟩ := r
      rw [h1] at hc; simp only at hc
      have s1step := compileExpr_step clk a st s1 t1 hinv h1
      cases h2 : compileExpr clk b s1 with
      | ok r2 =>
        obtain ⟨t2, s2⟩ := r2
        rw [h2] at hc; simp at hc; obtain ⟨_, rfl⟩ := hc
        have s2step := compileExpr_step clk b s1 s2 t2 s1step.inv h2
        intro x hx t ht
        rcases List.mem_append.mp hx with hx | hx
        · obtain ⟨i, hi⟩ := iha st s1 t1 hinv hdist h1 x hx t ht
          exact ⟨i, s2step.keepD _ hi⟩
        · exact ihb s1 s2 t2 s1step.inv (by rw [s1step.mode, hdist]) h2 x hx t ht
      | err x => rw [h2] at hc; simp at hc
      | panic s => rw [h2] at hc; simp at hc
    | err x => rw [h1] at hc; simp at hc
    | panic s => rw [h1] at hc; simp at hc

/-- In framed mode each output action's (destination, terminator) pair is an entry of the
    destination table. -/
theorem C10_actions_in_table (clk : Nat → Nat) (e : Expr) (o : RunOptions) (c : Compiled) (h : compile clk e o = .ok c)
    (hf : NeedsFraming e) : ∀ a ∈ actionsOf e, ∀ t, target a = some t →
      ∃ tbl i, c.ioMap = some tbl ∧ (i, t) ∈ tbl := by
  obtain ⟨tgt, body, st, htgt, hc, _, hm, _, _⟩ := compile_unfold clk e o c h
  have hcf : e.complexFrames = true := (C19_frames e).mpr hf
  have hinit : initialManager e = Manager.distInit := by simp [initialManager, hcf]
  rw [hinit] at hc
  have hstep := compileExpr_step clk tgt { mgr := Manager.distInit } st body Inv.distInit hc
  have hreg := actions_registered clk tgt { mgr := Manager.distInit } st body Inv.distInit rfl hc
  intro a ha t ht
  have ha' : a ∈ actionsOf tgt := by
    rcases htgt with rfl | rfl
    · exact ha
    · simp [actionsOf, ha]
  obtain ⟨i, hi⟩ := hreg a ha' t ht
  have hd : st.mgr.distributed = true := by rw [hstep.mode]; rfl
  refine ⟨st.mgr.printersD.map (fun kv => (kv.2, kv.1)), i, ?_, ?_⟩
  · rw [hm]; simp [Manager.printerMap, hd]
  · exact List.mem_map.mpr ⟨(t, i), hi, rfl⟩

/-! Non-vacuity. -/
example : NeedsFraming (.and (.test .true_) (.action (.filePrint ['o']))) := by rw [← C19_frames]; decide
example : ∃ c, compile (fun _ => 0) (.and (.test .true_) (.action (.filePrint ['o']))) {} = .ok c ∧
    c.ioMap = some [(2, .file ['o'] (some '\n'))] := by
  simp [compile, Expr.complexFrames, Action.complexFrames, Expr.hasAction, compileExpr, compileExpr.bin, compileTest,
    compileAction, Manager.getFilePrinter, Manager.distInit, Manager.registerPrinterD, assocGet, Manager.printerMap]

end FV
