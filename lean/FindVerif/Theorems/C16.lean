import FindVerif.Proofs.ConcLive
import FindVerif.Proofs.PortsInv
/-
  C16 — concurrent scanner threads never tear or mix output records.

  Two halves.
  (a) About the emitted code (model of the resource manager, tied to the implementation by the
      correspondence run and by the structural predicate `checkC16` evaluated on the
      implementation's own output): every printer binding the compiler can emit writes under THE
      mutex of its port — mutex index = port index + 1, the pair `init_default_port` /
      `init_file_port` create together — and in framed mode the only binding that writes is the
      fixed frame procedure, which wraps both writes in `with-mutex %lf3:mutex:1`.
  (b) About every schedule (interleaving machine `Conc`, independent of the model): for any number
      of threads, any number of printer calls per thread, any pieces, any schedule of the atomic
      steps lock / write-one-piece / unlock, if every section takes the mutex of its port then at
      every moment the bytes on each port are whole records followed by at most one partial record
      (the prefix written so far by the one thread inside a section on that port); when all threads
      are done the bytes are exactly the concatenation of whole records, and those records are a
      permutation of what the threads were asked to emit; no reachable state is a deadlock; every
      execution is finite.
  Unbounded: the property's "1..3 printers, 2..3 threads, 1..2 calls" bound is not needed.
  What is modelled rather than verified: the atomicity of one `display` of one piece (the piece
  granularity is a parameter: a piece may be a single byte), and the semantics of Guile's
  `with-mutex` / lipe's `make-printer` as lock; write…; unlock.
-/
namespace FV
open Conc

/-! ### (a) what the compiler emits -/

/-- The critical section a call of printer binding `b` with payload `pl` performs, per
    `make-printer port mutex term` (plain) and `%lf3:frame:2` (framed). -/
def callOf (b : Binding) (pl : List Nat) : Option Sec :=
  match b with
  | .printerL _ prt mtx term =>
    some { port := prt, mutex := mtx,
           pieces := match term with | some c => [pl, [c.toNat % 256]] | none => [pl] }
  | .printerD i => some { port := 0, mutex := 1, pieces := [pl, [0x1e, i]] }
  | _ => none

theorem callOf_wellLocked (m : Manager) (h : PortsInv m) (b : Binding) (hb : b ∈ m.vars) (pl : List Nat) (sec : Sec)
    (hs : callOf b pl = some sec) : sec.mutex = sec.port + 1 := by
  cases b <;> simp [callOf] at hs
  · subst hs; exact h.printerOk _ _ _ _ hb
  · subst hs; rfl

/-- Every printer the compiled program defines writes under its port's own mutex, in both
    modes, for every expression that compiles. -/
theorem C16_emitted_well_locked (clk : Nat → Nat) (e : Expr) (body : Text) (st : CState)
    (h : compileExpr clk e { mgr := if e.complexFrames then Manager.distInit else Manager.localInit } = .ok (body, st)) :
    ∀ b ∈ st.mgr.vars, ∀ pl sec, callOf b pl = some sec → sec.mutex = sec.port + 1 := by
  have h0 : PortsInv (if e.complexFrames then Manager.distInit else Manager.localInit) := by
    split
    · exact PortsInv.distInit
    · exact PortsInv.localInit
  have := portsInv_compileExpr clk e _ st body h0 h
  intro b hb pl sec hs
  exact callOf_wellLocked st.mgr this b hb pl sec hs

/-- Framed mode: besides the fixed port 0, mutex 1 and frame procedure, only frame-delegating
    printers and matchers are ever bound — no other binding can write to the port. -/
theorem C16_framed_only_frame_writes (clk : Nat → Nat) (e : Expr) (body : Text) (st : CState)
    (h : compileExpr clk e { mgr := Manager.distInit } = .ok (body, st)) :
    st.mgr.distributed = true ∧ ∀ b ∈ st.mgr.vars, b.framedOk :=
  let r := distShape_compileExpr clk e _ st body DistShape.distInit h
  ⟨r.dist, r.shape⟩

/-- The frame procedure as emitted: both displays inside one `with-mutex` on the one mutex. -/
theorem C16_frame_text : Binding.frame.render =
    cl!"(%lf3:frame:2 (lambda (s d) (with-mutex %lf3:mutex:1 (display s %lf3:port:0) (display (string #\\x1e d) %lf3:port:0))))" := rfl

/-- Every framed printer delegates to the frame procedure with its own tag. -/
theorem C16_framed_printer_text (i : Nat) : (Binding.printerD i).render =
    cl!"(" ++ lf3 (cl!"print") i ++ cl!" (lambda (line) (%lf3:frame:2 line #\\x" ++ natToHex02 i ++ cl!")))" := rfl

/-! ### (b) every schedule -/

/-- Programs built from emitted printer calls are well locked. -/
theorem wellLocked_of_calls (prog : List (List Sec)) (h : ∀ secs ∈ prog, ∀ sec ∈ secs, sec.mutex = sec.port + 1) :
    WellLocked prog (· + 1) := h

/-- At every moment of every schedule: whole records, then the partial record of the thread
    currently inside a section on that port — and there is at most one such thread. -/
theorem C16_at_every_moment (prog : List (List Sec)) (hwl : WellLocked prog (· + 1)) (sched : List Nat) (p : Nat) :
    let s := run sched (init prog)
    ∃ part, s.log p = (s.doneRecs p).flatten ++ part ∧
      (part = [] ∨ ∃ t ∈ s.threads, ∃ sec rest k, t.todo = sec :: rest ∧ t.phase = .inside k ∧ sec.port = p ∧
          part = (sec.pieces.take k).flatten) := by
  intro s
  have hinv : Conc.Inv (· + 1) s := run_inv sched _ (init_inv prog _ hwl)
  refine ⟨(s.threads.map (partialOf · p)).flatten, hinv.logOk p, ?_⟩
  by_cases hex : ∃ t ∈ s.threads, onPort t p = true
  · obtain ⟨t, ht, hon⟩ := hex
    right
    obtain ⟨pre, post, hsplit⟩ := List.append_of_mem ht
    have hh := holds_of_onPort (mutexOf := (· + 1)) t p (hinv.wl t ht) hon
    have hoth := others_empty pre post t p (by rw [← hsplit]; exact hinv.wl) (by rw [← hsplit]; exact hinv.excl) hh
    refine ⟨t, ht, ?_⟩
    unfold onPort at hon
    split at hon
    · rename_i sec rest k htodo hph
      simp at hon
      refine ⟨sec, rest, k, htodo, hph, hon, ?_⟩
      rw [hsplit]
      simp only [List.map_append, List.map_cons, List.flatten_append, List.flatten_cons, hoth.1, hoth.2]
      simp [partialOf, htodo, hph, hon]
    · simp at hon
  · left
    apply List.flatten_eq_nil_iff.mpr
    intro l hl
    obtain ⟨t, ht, rfl⟩ := List.mem_map.mp hl
    apply partialOf_nil_of_not_onPort
    cases hon : onPort t p with
    | false => rfl
    | true => exact absurd ⟨t, ht, hon⟩ hex

/-- When every thread has finished: each port carries exactly a concatenation of whole records,
    and the records are, as a multiset, the ones the threads were asked to emit on that port. -/
theorem C16_whole_records (prog : List (List Sec)) (hwl : WellLocked prog (· + 1)) (sched : List Nat)
    (hd : allDone (run sched (init prog))) (p : Nat) :
    (run sched (init prog)).log p = ((run sched (init prog)).doneRecs p).flatten ∧
    ((run sched (init prog)).doneRecs p).Perm (pending (init prog) p) := by
  have hinv : Conc.Inv (· + 1) (run sched (init prog)) := run_inv sched _ (init_inv prog _ hwl)
  constructor
  · rw [hinv.logOk p]
    have : ((run sched (init prog)).threads.map (partialOf · p)).flatten = [] := by
      apply List.flatten_eq_nil_iff.mpr
      intro l hl
      obtain ⟨t, ht, rfl⟩ := List.mem_map.mp hl
      simp [partialOf, hd t ht]
    rw [this, List.append_nil]
  · have := run_perm sched (init prog) p
    rw [pending_nil_of_allDone _ hd p, List.append_nil] at this
    simpa [init] using this

/-- No interleaving deadlocks: in every reachable state with work left some thread can move. -/
theorem C16_no_deadlock (prog : List (List Sec)) (sched : List Nat) (h : ¬ allDone (run sched (init prog))) :
    ∃ i s', step (run sched (init prog)) i = some s' :=
  no_deadlock _ h

/-- Every execution is finite (each move uses one unit of a finite budget) and can be completed. -/
theorem C16_terminates (prog : List (List Sec)) (sched : List Nat) :
    moves sched (init prog) + total (run sched (init prog)) = total (init prog) ∧
    ∃ more, allDone (run more (run sched (init prog))) := by
  refine ⟨moves_total sched _, ?_⟩
  obtain ⟨m, _, hm⟩ := can_finish _ (run sched (init prog)) rfl
  exact ⟨m, hm⟩

/-- The hypothesis is needed: with a second mutex for the same port (what a printer built over
    another port's mutex amounts to) a schedule tears a record. -/
theorem C16_tearing_without_one_mutex :
    let a : Sec := { port := 0, mutex := 1, pieces := [[1], [2]] }
    let b : Sec := { port := 0, mutex := 3, pieces := [[7], [8]] }
    (run [0, 1, 0, 1, 0, 1, 0, 1] (init [[a], [b]])).log 0 = [1, 7, 2, 8] := by
  decide

/-- Non-vacuity: a well-locked two-thread program, a schedule, and its (whole-record) output. -/
example :
    let a : Sec := { port := 0, mutex := 1, pieces := [[1], [2]] }
    let b : Sec := { port := 0, mutex := 1, pieces := [[7], [8]] }
    WellLocked [[a], [b]] (· + 1) ∧
    (run [0, 1, 0, 1, 0, 1, 0, 1, 1, 1, 1] (init [[a], [b]])).log 0 = [1, 2, 7, 8] := by
  refine ⟨?_, by decide⟩
  intro secs hs sec hsec
  simp at hs
  rcases hs with rfl | rfl <;> simp at hsec <;> subst hsec <;> rfl

end FV
