import FindVerif.Model.Compile
import FindVerif.Spec.Supported
/-
  C12 — unsupported constructs are refused, never silently dropped.
  `compile` is the model of `scheme::compile`; `Spec.firstUnsupported` is the independent table of
  what the target cannot express.  For every tree of the shapes the parser returns (no
  explicit-precedence and no option node), any clock and any options: compilation fails exactly
  when the tree contains an unsupported construct at some depth (dead branches and format
  strings included), the error is of the right kind, and every supported tree compiles.
-/
namespace FV
open Spec

def CompileError.kind : CompileError → String
  | .unsupportedTest _ => "UnsupportedTest" | .unsupportedAction _ => "UnsupportedAction"
  | .unsupportedOption _ => "UnsupportedOption" | .unsupportedFormat _ => "UnsupportedFormat"

/-- Outcome of compiling a subtree, abstracted: refused with an error of some kind, or emitted. -/
def refusedKind {α} : CRes α → Option String
  | .err e => some e.kind
  | _ => none

def isOk {α} : CRes α → Bool
  | .ok _ => true
  | _ => false

theorem template_unsupported (es : List FormatElement) :
    (∃ t, templateOf es = .ok t) ↔ unsupportedFormat es = none := by
  induction es with
  | nil => simp [templateOf, unsupportedFormat]
  | cons e es ih =>
    have he : (∃ t, elementTemplate e = .ok t) ↔ unsupportedElement e = none := by
      cases e with
      | literal s => simp [elementTemplate, unsupportedElement]
      | field f =>
        cases f <;> simp [elementTemplate, unsupportedElement, placeholder, FormatField.unsupported, unsupportedField] <;>
          split <;> simp_all <;> split at * <;> simp_all
      | special s => cases s <;> simp [elementTemplate, unsupportedElement, specialLiteral]
    simp only [templateOf, unsupportedFormat, List.findSome?_cons]
    cases h1 : elementTemplate e with
    | error x =>
      have : unsupportedElement e ≠ none := by
        intro hn; rw [← he] at hn; obtain ⟨t, ht⟩ := hn; rw [h1] at ht; cases ht
      cases h2 : unsupportedElement e with
      | none => exact absurd h2 this
      | some n => simp
    | ok t =>
      have : unsupportedElement e = none := he.mp ⟨t, h1⟩
      simp only [this]
      cases h3 : templateOf es with
      | error x =>
        have : ¬ unsupportedFormat es = none := by
          intro hn; rw [← ih] at hn; obtain ⟨t', ht'⟩ := hn; rw [h3] at ht'; cases ht'
        simp [unsupportedFormat] at this ⊢
        exact this
      | ok ts =>
        have := ih.mp ⟨ts, h3⟩
        simp [unsupportedFormat] at this ⊢
        exact this

theorem format_ok_iff (es : List FormatElement) :
    (∃ t, compileFormat es = .ok t) ↔ unsupportedFormat es = none := by
  rw [← template_unsupported]
  simp only [compileFormat]
  cases templateOf es with
  | error x => simp
  | ok t => simp

theorem format_err_kind (es : List FormatElement) (x : CompileError) (h : compileFormat es = .error x) :
    x.kind = "UnsupportedFormat" := by
  simp only [compileFormat] at h
  cases ht : templateOf es with
  | ok t => rw [ht] at h; cases h
  | error y =>
    rw [ht] at h; cases h
    -- every error produced by `templateOf` is an UnsupportedFormat
    induction es with
    | nil => simp [templateOf] at ht
    | cons e es ih =>
      simp only [templateOf] at ht
      cases h1 : elementTemplate e with
      | error z =>
        rw [h1] at ht; cases ht
        cases e with
        | literal s => simp [elementTemplate] at h1
        | field f =>
          simp only [elementTemplate] at h1
          split at h1 <;> cases h1
          rfl
        | special s =>
          simp only [elementTemplate] at h1
          split at h1 <;> cases h1
          rfl
      | ok t =>
        rw [h1] at ht
        cases h3 : templateOf es with
        | error z => rw [h3] at ht; cases ht; exact ih h3
        | ok ts => rw [h3] at ht; cases ht

theorem test_outcome (clk : Nat → Nat) (t : Test) (st : CState) :
    (unsupportedTest t = none → isOk (compileTest clk t st) = true) ∧
    (∀ n, unsupportedTest t = some n → refusedKind (compileTest clk t st) = some "UnsupportedTest") := by
  cases t with
  | xattrMatch f v =>
    simp only [unsupportedTest, compileTest]
    constructor
    · intro _; split <;> rfl
    · intro n h; cases h
  | _ => simp [unsupportedTest, compileTest, isOk, refusedKind, Test.unsupportedName, CompileError.kind]

theorem action_outcome (a : Action) (st : CState) :
    (unsupportedAction a = none → isOk (compileAction a st) = true) ∧
    (∀ k n, unsupportedAction a = some (k, n) → refusedKind (compileAction a st) = some k) := by
  cases a with
  | printFormatted es =>
    simp only [unsupportedAction, compileAction]
    constructor
    · intro h
      have : unsupportedFormat es = none := by simpa using h
      obtain ⟨t, ht⟩ := (format_ok_iff es).mpr this
      simp [ht, isOk]
    · intro k n h
      cases hu : unsupportedFormat es with
      | none => rw [hu] at h; cases h
      | some m =>
        rw [hu] at h
        simp at h
        obtain ⟨rfl, _⟩ := h
        cases hc : compileFormat es with
        | ok t => have := (format_ok_iff es).mp ⟨t, hc⟩; rw [this] at hu; cases hu
        | error x => simp [refusedKind, format_err_kind es x hc]
  | filePrintFormatted f es =>
    simp only [unsupportedAction, compileAction]
    constructor
    · intro h
      have : unsupportedFormat es = none := by simpa using h
      obtain ⟨t, ht⟩ := (format_ok_iff es).mpr this
      simp [ht, isOk]
    · intro k n h
      cases hu : unsupportedFormat es with
      | none => rw [hu] at h; cases h
      | some m =>
        rw [hu] at h
        simp at h
        obtain ⟨rfl, _⟩ := h
        cases hc : compileFormat es with
        | ok t => have := (format_ok_iff es).mp ⟨t, hc⟩; rw [this] at hu; cases hu
        | error x => simp [refusedKind, format_err_kind es x hc]
  | _ => simp [unsupportedAction, compileAction, isOk, refusedKind, CompileError.kind]

/-- Outcome statement for a subtree, for every manager state. -/
def Outcome (clk : Nat → Nat) (e : Expr) : Prop := ∀ st,
    (firstUnsupported e = none → isOk (compileExpr clk e st) = true) ∧
    (∀ k n, firstUnsupported e = some (k, n) → refusedKind (compileExpr clk e st) = some k)

theorem bin_outcome (clk : Nat → Nat) (a b : Expr) (iha : Outcome clk a) (ihb : Outcome clk b) (st : CState) (hd : Text) :
    (firstUnsupported (Expr.and a b) = none →
      isOk (compileExpr.bin hd (compileExpr clk a st) (compileExpr clk b)) = true) ∧
    (∀ k n, firstUnsupported (Expr.and a b) = some (k, n) →
      refusedKind (compileExpr.bin hd (compileExpr clk a st) (compileExpr clk b)) = some k) := by
  have iha := iha st
  simp only [firstUnsupported]
  cases hfa : firstUnsupported a with
  | some x =>
    obtain ⟨k, n⟩ := x
    have := iha.2 k n hfa
    cases hc : compileExpr clk a st with
    | ok r => simp [hc, refusedKind] at this
    | err y =>
      simp only [hc, refusedKind] at this
      refine ⟨fun h => (by cases h), fun k' n' h => ?_⟩
      simp at h
      obtain ⟨rfl, _⟩ := h
      simpa [compileExpr.bin, refusedKind] using this
    | panic s => simp [hc, refusedKind] at this
  | none =>
    have hoka := iha.1 hfa
    cases hc : compileExpr clk a st with
    | err y => simp [hc, isOk] at hoka
    | panic s => simp [hc, isOk] at hoka
    | ok r =>
      obtain ⟨tl, st1⟩ := r
      have ihb := ihb st1
      simp only [compileExpr.bin]
      cases hcb : compileExpr clk b st1 with
      | ok r2 =>
        refine ⟨fun _ => rfl, fun k n hk => ?_⟩
        have := ihb.2 k n hk
        simp [hcb, refusedKind] at this
      | err y => simpa [hcb, isOk, refusedKind] using ihb
      | panic s => simpa [hcb, isOk, refusedKind] using ihb

/-- Key lemma: on parser-shaped trees, the outcome of `compileExpr` is decided by
    `firstUnsupported`, whatever the manager state and clock. -/
theorem expr_outcome (clk : Nat → Nat) (e : Expr) (hp : plainB e = true) : Outcome clk e := by
  induction e with
  | test t =>
    intro st
    have := test_outcome clk t st
    simp only [firstUnsupported, compileExpr]
    cases hu : unsupportedTest t with
    | none => exact ⟨fun _ => this.1 hu, fun k n h => (by cases h)⟩
    | some m =>
      refine ⟨fun h => (by cases h), fun k n h => ?_⟩
      simp at h
      obtain ⟨rfl, _⟩ := h
      exact this.2 m hu
  | action a =>
    intro st
    have := action_outcome a st
    simpa only [firstUnsupported, compileExpr] using this
  | positional p =>
    intro st
    simp [firstUnsupported, compileExpr, refusedKind, CompileError.kind]
  | global g => simp [plainB] at hp
  | prec e _ => simp [plainB] at hp
  | not e ih =>
    intro st
    have ih := ih (by simpa [plainB] using hp) st
    simp only [firstUnsupported, compileExpr]
    cases hc : compileExpr clk e st with
    | ok r =>
      refine ⟨fun _ => rfl, fun k n hk => ?_⟩
      have := ih.2 k n hk
      simp [hc, refusedKind] at this
    | err x => simpa [hc, isOk, refusedKind] using ih
    | panic s => simpa [hc, isOk, refusedKind] using ih
  | and a b iha ihb =>
    intro st
    simp only [plainB, Bool.and_eq_true] at hp
    exact bin_outcome clk a b (iha hp.1) (ihb hp.2) st (cl!"(and ")
  | list a b iha ihb =>
    intro st
    simp only [plainB, Bool.and_eq_true] at hp
    exact bin_outcome clk a b (iha hp.1) (ihb hp.2) st (cl!"(and ")
  | or a b iha ihb =>
    intro st
    simp only [plainB, Bool.and_eq_true] at hp
    exact bin_outcome clk a b (iha hp.1) (ihb hp.2) st (cl!"(or ")

/-- `hasAction`-wrapping does not change what is supported. -/
theorem wrap_unsupported (e : Expr) :
    firstUnsupported (Expr.and e (.action .defaultPrint)) = firstUnsupported e := by
  simp only [firstUnsupported, unsupportedAction]
  cases firstUnsupported e <;> rfl

/-- C12, main statement: compilation is refused exactly when the tree contains an unsupported
    construct; otherwise it produces a program (never a panic, never a placeholder). -/
theorem C12 (clk : Nat → Nat) (e : Expr) (o : RunOptions) (hp : plainB e = true) :
    ((∃ x, compile clk e o = .err x) ↔ hasUnsupported e = true) ∧
    (hasUnsupported e = false → ∃ c, compile clk e o = .ok c) := by
  have key : ∀ target, plainB target = true → firstUnsupported target = firstUnsupported e → ∀ st,
      ((∃ x, compileExpr clk target st = .err x) ↔ hasUnsupported e = true) ∧
      (hasUnsupported e = false → ∃ r, compileExpr clk target st = .ok r) := by
    intro target hpt hfu st
    have := expr_outcome clk target hpt st
    rw [hfu] at this
    simp only [hasUnsupported]
    cases hf : firstUnsupported e with
    | none =>
      have hok := this.1 hf
      cases hc : compileExpr clk target st with
      | ok r => simp
      | err x => simp [hc, isOk] at hok
      | panic s => simp [hc, isOk] at hok
    | some kn =>
      obtain ⟨k, n⟩ := kn
      have hr := this.2 k n hf
      cases hc : compileExpr clk target st with
      | ok r => simp [hc, refusedKind] at hr
      | err x => simp
      | panic s => simp [hc, refusedKind] at hr
  simp only [compile]
  by_cases ha : e.hasAction = true
  · simp only [ha, Bool.not_true, if_false]
    have := key e hp rfl { mgr := if e.complexFrames = true then Manager.distInit else Manager.localInit }
    cases hc : compileExpr clk e { mgr := if e.complexFrames = true then Manager.distInit else Manager.localInit } with
    | ok r => obtain ⟨b, st⟩ := r; simp [hc] at this ⊢ <;> exact this
    | err x => simp [hc] at this ⊢ <;> exact this
    | panic s => simp [hc] at this ⊢ <;> exact this
  · have ha' : e.hasAction = false := by simpa using ha
    simp only [ha', Bool.not_false, if_true]
    have := key (Expr.and e (.action .defaultPrint)) (by simp [plainB, hp]) (wrap_unsupported e)
      { mgr := if e.complexFrames = true then Manager.distInit else Manager.localInit }
    cases hc : compileExpr clk (Expr.and e (.action .defaultPrint)) { mgr := if e.complexFrames = true then Manager.distInit else Manager.localInit } with
    | ok r => obtain ⟨b, st⟩ := r; simp [hc] at this ⊢ <;> exact this
    | err x => simp [hc] at this ⊢ <;> exact this
    | panic s => simp [hc] at this ⊢ <;> exact this

/-- The error kind is that of the first unsupported construct in left-to-right order. -/
theorem C12_kind (clk : Nat → Nat) (e : Expr) (o : RunOptions) (hp : plainB e = true) (k n : String)
    (h : firstUnsupported e = some (k, n)) : ∃ x, compile clk e o = .err x ∧ x.kind = k := by
  have key : ∀ target, plainB target = true → firstUnsupported target = some (k, n) → ∀ st,
      ∃ x, compileExpr clk target st = .err x ∧ x.kind = k := by
    intro target hpt hfu st
    have := (expr_outcome clk target hpt st).2 k n hfu
    cases hc : compileExpr clk target st with
    | ok r => simp [hc, refusedKind] at this
    | err x => simp [hc, refusedKind] at this; exact ⟨x, rfl, this⟩
    | panic s => simp [hc, refusedKind] at this
  simp only [compile]
  by_cases ha : e.hasAction = true
  · simp only [ha, Bool.not_true, if_false]
    obtain ⟨x, hx, hk⟩ := key e hp h { mgr := if e.complexFrames = true then Manager.distInit else Manager.localInit }
    exact ⟨x, by simp [hx], hk⟩
  · have ha' : e.hasAction = false := by simpa using ha
    simp only [ha', Bool.not_false, if_true]
    obtain ⟨x, hx, hk⟩ := key (Expr.and e (.action .defaultPrint)) (by simp [plainB, hp])
      (by rw [wrap_unsupported]; exact h) { mgr := if e.complexFrames = true then Manager.distInit else Manager.localInit }
    exact ⟨x, by simp [hx], hk⟩

/-! Non-vacuity. -/
example : hasUnsupported (.or (.test .true_) (.and (.test .false_) (.test (.regex ['a'])))) = true := by decide
example : hasUnsupported (.action (.printFormatted [.literal ['a'], .field .depth])) = true := by decide
example : hasUnsupported (.and (.test (.name ['x'])) (.action (.printFormatted [.field .name, .special .newline]))) = false := by decide

end FV
