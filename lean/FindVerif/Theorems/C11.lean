import FindVerif.Proofs.CompileInv
/-
  C11 — generated identifiers: bound once, before use, never captured; resources shared exactly
  per request.  Statements are about the manager record of the model (Model/Manager.lean, whose
  bindings are kept structured; `Binding.render` is the text the Rust code pushes and the
  correspondence check compares it byte for byte) after ANY run of code generation, i.e. any
  number of matchers and printers in any first-occurrence order.
-/
namespace FV

/-- The two initial managers and every state reachable from them by code generation. -/
inductive Reachable : Manager → Prop
  | localInit : Reachable Manager.localInit
  | distInit : Reachable Manager.distInit
  | step {clk e st txt st'} : Reachable st.mgr → compileExpr clk e st = .ok (txt, st') → Reachable st'.mgr

theorem reachable_inv {m} (h : Reachable m) : Inv m := by
  induction h with
  | localInit => exact Inv.localInit
  | distInit => exact Inv.distInit
  | step _ hc ih => exact (compileExpr_step _ _ _ _ _ ih hc).inv

theorem nodup_map_of_injective {α β} (f : α → β) (hf : ∀ a b, f a = f b → a = b) :
    ∀ l : List α, l.Nodup → (l.map f).Nodup := by
  intro l
  induction l with
  | nil => simp
  | cons a l ih =>
    intro h
    simp only [List.nodup_cons] at h
    simp only [List.map_cons, List.nodup_cons]
    refine ⟨?_, ih h.2⟩
    intro hm
    obtain ⟨b, hb, hfb⟩ := List.mem_map.mp hm
    have := hf _ _ hfb
    subst this
    exact h.1 hb

/-- Each generated name is bound exactly once: the texts of the bound names are pairwise distinct. -/
theorem C11_bound_once {m} (h : Reachable m) : (m.vars.map fun b => b.binds.text).Nodup := by
  have := (reachable_inv h).core.nodup
  have hmap : (m.vars.map fun b => b.binds.text) = (m.vars.map Binding.binds).map GName.text := by simp
  rw [hmap]
  exact nodup_map_of_injective GName.text (fun a b hab => GName.text_injective a b hab) _ this

/-- Every use of a generated name in an initialiser refers to a binding that precedes it. -/
theorem C11_before_use {m} (h : Reachable m) (pre : List Binding) (b : Binding) (post : List Binding)
    (hs : m.vars = pre ++ b :: post) : ∀ u ∈ b.uses, u ∈ pre.map Binding.binds :=
  (reachable_inv h).core.usesBound pre b post hs

/-- The name returned for a name/path test is bound to the matcher built for that very pattern and
    case-sensitivity, and stays so whatever is generated afterwards. -/
theorem C11_matcher_reach {m} (h : Reachable m) (pat : Text) (ci : Bool) :
    ∃ i, (m.getMatcher pat ci).1 = (GName.mk .match_ (i + 1)).text ∧
      ∀ m', Step (m.getMatcher pat ci).2 m' → Binding.matcher i pat ci ∈ m'.vars := by
  obtain ⟨_, i, hn, hb, _⟩ := getMatcher_spec m pat ci (reachable_inv h)
  exact ⟨i, hn, fun m' hs => mem_ext hs.ext hb⟩

/-- Identical requests share one resource: asking again (at any later point) returns the same
    name and adds nothing. -/
theorem C11_matcher_share {m} (h : Reachable m) (pat : Text) (ci : Bool) (m' : Manager)
    (hs : Step (m.getMatcher pat ci).2 m') :
    m'.getMatcher pat ci = ((m.getMatcher pat ci).1, m') := by
  obtain ⟨_, i, hn, _, hmem⟩ := getMatcher_spec m pat ci (reachable_inv h)
  have hmem' := hs.keepM _ hmem
  have hget := assocGet_of_mem hs.inv.maps.mKeys hmem'
  have := registerMatch_hit m' pat ci (i + 1) hget
  rw [hn]
  simp only [Manager.getMatcher, this, GName.text, Kind.text]

/-- Different requests never share: two different (pattern, case) keys have different matchers. -/
theorem C11_matcher_distinct {m} (h : Reachable m) (k1 k2 : Text × Bool) (j1 j2 : Nat)
    (h1 : (k1, j1) ∈ m.matches_) (h2 : (k2, j2) ∈ m.matches_) (hne : k1 ≠ k2) : j1 ≠ j2 := by
  have hv := (reachable_inv h).maps.mVals
  intro he
  subst he
  -- same value at two different keys contradicts value-uniqueness
  have : ∀ (l : List ((Text × Bool) × Nat)), (l.map Prod.snd).Nodup → (k1, j1) ∈ l → (k2, j1) ∈ l → k1 = k2 := by
    intro l
    induction l with
    | nil => intro _ h; simp at h
    | cons a l ih =>
      intro hn ha hb
      simp only [List.map_cons, List.nodup_cons] at hn
      simp at ha hb
      rcases ha with rfl | ha <;> rcases hb with hb | hb
      · exact (Prod.mk.inj hb).1.symm ▸ rfl
      · exact absurd (List.mem_map_of_mem (f := Prod.snd) hb) hn.1
      · subst hb; exact absurd (List.mem_map_of_mem (f := Prod.snd) ha) hn.1
      · exact ih hn.2 ha hb
  exact hne (this _ hv h1 h2)

/-- Printers: the name returned for a destination/terminator is bound to a printer for exactly
    that destination and terminator (plain mode: a `make-printer` over that port, its mutex and
    that terminator; framed mode: the frame printer whose tag the table maps to that target). -/
theorem C11_printer_reach {m} (h : Reachable m) (term : Option Char) :
    PrinterFor (m.getPrinter term).2 (m.getPrinter term).1 none term :=
  (getPrinter_spec m term (reachable_inv h)).2.1

theorem C11_file_printer_reach {m} (h : Reachable m) (f : Text) (term : Option Char) :
    PrinterFor (m.getFilePrinter f term).2 (m.getFilePrinter f term).1 (some f) term :=
  (getFilePrinter_spec m f term (reachable_inv h)).2.1

/-- Framed mode: the destination table is a bijection between tags and (destination, terminator)
    pairs — equal pairs share one tag, different pairs never do. -/
theorem C11_printer_table {m} (h : Reachable m) :
    (m.printersD.map Prod.fst).Nodup ∧ (m.printersD.map Prod.snd).Nodup :=
  ⟨(reachable_inv h).maps.dKeys, (reachable_inv h).maps.dVals⟩

/-- Plain mode: one printer per (port, terminator), and different ones differ. -/
theorem C11_printer_plain {m} (h : Reachable m) :
    (m.printersL.map Prod.fst).Nodup ∧ (m.printersL.map Prod.snd).Nodup :=
  ⟨(reachable_inv h).maps.lKeys, (reachable_inv h).maps.lVals⟩

/-! Non-vacuity: a concrete reachable state with two matchers and a printer. -/
example : Reachable (compileExpr (fun _ => 0)
    (.and (.test (.name ['a'])) (.and (.test (.insensitiveName ['a'])) (.action .print))) { mgr := Manager.localInit }
      |> fun r => match r with | .ok (_, st) => st.mgr | _ => Manager.localInit) := by
  have : ∃ txt st', compileExpr (fun _ => 0)
      (.and (.test (.name ['a'])) (.and (.test (.insensitiveName ['a'])) (.action .print))) { mgr := Manager.localInit } = .ok (txt, st') := by
    simp [compileExpr, compileExpr.bin, compileTest, compileAction]
  obtain ⟨txt, st', hc⟩ := this
  simp only [hc]
  exact Reachable.step (st := { mgr := Manager.localInit }) Reachable.localInit hc

end FV
