import FindVerif.Proofs.Dec
import FindVerif.Proofs.Names
import FindVerif.Model.Lex.Token
import FindVerif.Model.Compile
/-
  C07 — numbers are exact or rejected; nothing wraps, truncates or saturates.
  For ALL digit strings (any length, leading zeros) and ALL continuations: the unsigned readers
  return exactly the decimal value when it is below the field's bound and reject otherwise —
  never another number (C07_read); signs select the comparison and keep the value
  (C07_comparison); the constants emitted for ids, counts, sizes and times are the decimal
  rendering of count × unit computed in unbounded arithmetic, and decimal rendering is inverted by
  decimal reading (C07_print_read, C07_emit_*).
-/
namespace FV
open W

/-- The next character does not continue a digit run. -/
def DigitStop (rest : Text) : Prop := rest = [] ∨ ∃ c r, rest = c :: r ∧ isDigit c = false

theorem takeWhile_all {α} (p : α → Bool) (l : List α) (h : ∀ x ∈ l, p x = true) :
    l.takeWhile p = l ∧ l.dropWhile p = [] := by
  induction l with
  | nil => simp
  | cons x xs ih =>
    have := ih (fun y hy => h y (by simp [hy]))
    simp [List.takeWhile_cons, List.dropWhile_cons, h x (by simp), this]

theorem digit_run (ds rest : Text) (hd : ∀ c ∈ ds, isDigit c = true) (hs : DigitStop rest) :
    (ds ++ rest).takeWhile isDigit = ds ∧ (ds ++ rest).dropWhile isDigit = rest := by
  rcases hs with rfl | ⟨c, r, rfl, hc⟩
  · simpa using takeWhile_all isDigit ds hd
  · exact ⟨takeWhile_append_of_all _ ds c r hd hc, dropWhile_append_of_all _ ds c r hd hc⟩

/-- The unsigned reader: exact value below the bound, rejection (input untouched) otherwise. -/
theorem C07_read (bound : Nat) (ds rest : Text) (hne : ds ≠ []) (hd : ∀ c ∈ ds, isDigit c = true)
    (hs : DigitStop rest) :
    parseUint bound (ds ++ rest) =
      if decVal ds < bound then .ok (decVal ds) rest
      else .err false [expected (cl!"unsigned_integer")] (ds ++ rest) := by
  obtain ⟨ht, hdr⟩ := digit_run ds rest hd hs
  have hlen : 1 ≤ ds.length := by cases ds with | nil => exact absurd rfl hne | cons _ _ => simp
  simp only [parseUint, context, tryMap, digit1, takeWhile, ht, hdr, hlen, if_true]
  by_cases hb : decVal ds < bound <;> simp [hb]

/-- A value beyond the range of its field is always rejected and never appears as a different
    number: whatever the reader returns is the decimal value of the digits it consumed. -/
theorem C07_never_another (bound : Nat) (ds rest : Text) (hne : ds ≠ []) (hd : ∀ c ∈ ds, isDigit c = true)
    (hs : DigitStop rest) (v : Nat) (r : Text) (h : parseUint bound (ds ++ rest) = .ok v r) :
    v = decVal ds ∧ v < bound ∧ r = rest := by
  rw [C07_read bound ds rest hne hd hs] at h
  by_cases hb : decVal ds < bound
  · simp [hb] at h; exact ⟨h.1.symm, h.1 ▸ hb, h.2.symm⟩
  · simp [hb] at h

/-- `N`, `+N`, `-N`: the sign selects the comparison, the value is carried unchanged. -/
theorem C07_comparison (bound : Nat) (ds rest : Text) (hne : ds ≠ []) (hd : ∀ c ∈ ds, isDigit c = true)
    (hs : DigitStop rest) (hb : decVal ds < bound) :
    compFormat (parseUint bound) ('+' :: ds ++ rest) = .ok (.gt (decVal ds)) rest ∧
    compFormat (parseUint bound) ('-' :: ds ++ rest) = .ok (.lt (decVal ds)) rest ∧
    compFormat (parseUint bound) (ds ++ rest) = .ok (.eq (decVal ds)) rest := by
  have hr := C07_read bound ds rest hne hd hs
  simp only [hb, if_true] at hr
  obtain ⟨d, ds', rfl⟩ : ∃ d ds', ds = d :: ds' := by
    cases ds with | nil => exact absurd rfl hne | cons d ds' => exact ⟨d, ds', rfl⟩
  have hd0 : isDigit d = true := hd d (by simp)
  have hplus : d ≠ '+' := by intro h; subst h; exact absurd hd0 (by decide)
  have hminus : d ≠ '-' := by intro h; subst h; exact absurd hd0 (by decide)
  simp only [List.cons_append] at hr ⊢
  refine ⟨?_, ?_, ?_⟩
  · simp [compFormat, context, alt, alt2, map, preceded, pair, lit, isPrefix, hr]
  · simp [compFormat, context, alt, alt2, map, preceded, pair, lit, isPrefix, hr]
  · simp [compFormat, context, alt, alt2, map, preceded, pair, lit, isPrefix, cutErr, hr, hplus.symm, hminus.symm]

/-- Decimal rendering (what the generator prints) is inverted by decimal reading. -/
theorem C07_print_read (n : Nat) : decVal (natToDec n) = n ∧ (∀ c ∈ natToDec n, isDigit c = true) ∧ natToDec n ≠ [] :=
  ⟨decVal_natToDec n, natToDec_digits n, natToDec_ne_nil n⟩

/-- Ids and counts are emitted as the decimal rendering of the value in the tree. -/
theorem C07_emit_count (c : Comparison Nat) (target : Text) :
    formatCmp c target = (match c with | .gt _ => cl!"(> (" | .lt _ => cl!"(< (" | .eq _ => cl!"(= (")
      ++ target ++ cl!") " ++ natToDec c.val ++ cl!")" := by
  cases c <;> rfl

/-- Sizes are emitted as count × unit in unbounded arithmetic (no wrap, no saturation), next to
    the unit they are rounded to. -/
theorem C07_emit_size (s : Size) :
    compileSizeComp (.eq s) = cl!"(= (" ++ sizeMatching s ++ cl!") " ++ natToDec (s.count * s.mult) ++ cl!")" ∧
    compileSizeComp (.gt s) = cl!"(> (" ++ sizeMatching s ++ cl!") " ++ natToDec (s.count * s.mult) ++ cl!")" ∧
    compileSizeComp (.lt s) = cl!"(< (" ++ sizeMatching s ++ cl!") " ++ natToDec (s.count * s.mult) ++ cl!")" :=
  ⟨rfl, rfl, rfl⟩

/-- Times are emitted as the count unchanged, next to the unit's seconds and the clock reading. -/
theorem C07_emit_time (now : Nat) (field : Text) (t : TimeSpec) :
    compileTimeComp now field (.eq t) = cl!"(= (quotient (- " ++ natToDec now ++ cl!" (" ++ field ++ cl!")) "
      ++ natToDec t.secs ++ cl!") " ++ natToDec t.count ++ cl!")" := by
  simp [compileTimeComp, formatCmp2, nat, List.append_assoc]

/-- The thread count is emitted as the decimal rendering of the option's value. -/
theorem C07_emit_threads (clk : Nat → Nat) (e : Expr) (n : Nat) (c : Compiled)
    (h : compile clk e { depth := false, threads := some n } = .ok c) : c.options = natToDec n := by
  simp only [compile] at h
  split at h
  · cases h
  · cases h
  · cases h; rfl

/-! Non-vacuity: a 40-digit number, the u32 boundary, the u64 product. -/
example : parseUint (2^32) (cl!"4294967296") = .err false [expected (cl!"unsigned_integer")] (cl!"4294967296") := by decide
example : parseUint (2^32) (cl!"0004294967295 x") = .ok 4294967295 (cl!" x") := by decide
example : (Size.word 18446744073709551615).count * (Size.word 18446744073709551615).mult = 36893488147419103230 := by decide

end FV
