import FindVerif.Theorems.C18
import FindVerif.Theorems.C01
import FindVerif.Theorems.C13
/-
  C06 — equivalent spellings give identical results (PARTIAL as one statement).
  Proved, for all inputs / blank runs / values and both profiles:
    * a blank or empty input means `-true` (C06_blank);
    * the result of `parse` depends only on the leading options and on the SEQUENCE OF TOKENS the
      lexer reads — not on the amount or kind of blank space between or around them
      (C06_tokens_only: any two inputs read as the same options and the same token sequence give
      identical options and identical trees);
    * between a keyword and its argument any non-empty mix of space, tab, CR and LF is the same
      (C06_gap_kinds); `-a` and `-and`, `-o` and `-or` are the same token (C06_synonyms); a value
      gives the same token bare, single- or double-quoted (C05_word_styles, re-exported as
      C06_quoting); redundant parentheses around an operand leave no node (C06_parens, with C01).
  Not proved as ONE theorem `parse (spell ℓ e) = e` over a layout grammar; the run compares
  2000/20000 random expressions in 16/64 layout variants each on the implementation.
-/
namespace FV
open W Spec

theorem parseGlobal_nil : ∃ c r, parseGlobal [] = .err false c r := by
  simp [parseGlobal, context, alt, alt2, value, map, lit, isPrefix, unary, preceded, pair]

/-- An empty or blank input means the same as `-true`. -/
theorem C06_blank (pf : Profile) (s : Text) (h : ∀ c ∈ s, isBlank c = true) :
    parse pf s = .ok {} (.test .true_) := by
  have hd : s.dropWhile isBlank = [] := (blank_split.takeWhile_all' isBlank s h).2
  obtain ⟨c, r, hg⟩ := parseGlobal_nil
  have h1 : leadingGlobals pf s = .ok [] [] := by
    simp only [leadingGlobals, preceded, map, pair, multispace0_ok, hd, repeat0]
    simp [repeatFold, terminated, map, pair, hg]
  have := (C13_spec pf s [] [] h1).1 rfl
  simpa [optionsOf] using this

/-- The result depends only on the options read and on the sequence of tokens read. -/
theorem C06_tokens_only (pf : Profile) (s₁ s₂ : Text) (gs : List GlobalOption) (rest₁ rest₂ : Text)
    (t : Token) (ts : List Token)
    (h1 : leadingGlobals pf s₁ = .ok gs rest₁) (h2 : leadingGlobals pf s₂ = .ok gs rest₂)
    (l1 : LexPrefix pf (rest₁.dropWhile isBlank) (t :: ts) [])
    (l2 : LexPrefix pf (rest₂.dropWhile isBlank) (t :: ts) []) :
    parse pf s₁ = parse pf s₂ := by
  have e1 := lex_of_prefix pf rest₁ t ts l1
  have e2 := lex_of_prefix pf rest₂ t ts l2
  have n1 : rest₁ ≠ [] := by
    intro he; subst he
    cases l1 with
    | cons ht _ => have := (strict_token pf).cons [] _ _ ht; simp at this
  have n2 : rest₂ ≠ [] := by
    intro he; subst he
    cases l2 with
    | cons ht _ => have := (strict_token pf).cons [] _ _ ht; simp at this
  rw [(C13_spec pf s₁ gs rest₁ h1).2 (t :: ts) [] n1 e1, (C13_spec pf s₂ gs rest₂ h2).2 (t :: ts) [] n2 e2]

/-- Between a keyword and its argument, any two non-empty runs of blanks are equivalent. -/
theorem C06_gap_kinds {α : Type} (pf : Profile) (kw : Text) (tr : α → Test) (argp : P Char α)
    (hm : (kw, unary kw tr argp) ∈ testAlts pf) (ws₁ ws₂ x : Text) (b1 : BlankRun ws₁ x) (b2 : BlankRun ws₂ x)
    (hnp : ∀ s, argp x ≠ .panic s) :
    token pf (kw ++ (ws₁ ++ x)) = token pf (kw ++ (ws₂ ++ x)) := by
  rw [C05_test_unary pf kw tr argp hm ws₁ x b1, C05_test_unary pf kw tr argp hm ws₂ x b2]
  cases h : argp x with
  | ok v r => rfl
  | err k c r => rfl
  | panic s => exact absurd h (hnp s)

theorem blank_cases (c : Char) (h : isBlank c = true) : c = ' ' ∨ c = '\t' ∨ c = '\r' ∨ c = '\n' := by
  simp only [isBlank, Bool.or_eq_true, decide_eq_true_eq] at h
  rcases h with ((h | h) | h) | h
  · exact Or.inl h
  · exact Or.inr (Or.inl h)
  · exact Or.inr (Or.inr (Or.inl h))
  · exact Or.inr (Or.inr (Or.inr h))

/-- `-a` = `-and`, `-o` = `-or` (followed by any blank, or at the end of input). -/
theorem C06_synonyms (pf : Profile) (c : Char) (r : Text) (h : isBlank c = true) :
    token pf (cl!"-a" ++ c :: r) = .ok .and (r.dropWhile isBlank) ∧
    token pf (cl!"-and" ++ c :: r) = .ok .and (r.dropWhile isBlank) ∧
    token pf (cl!"-o" ++ c :: r) = .ok .or (r.dropWhile isBlank) ∧
    token pf (cl!"-or" ++ c :: r) = .ok .or (r.dropWhile isBlank) ∧
    token pf (cl!"-a") = .ok .and [] ∧ token pf (cl!"-and") = .ok .and [] ∧
    token pf (cl!"-o") = .ok .or [] ∧ token pf (cl!"-or") = .ok .or [] := by
  have hms : multispace1 (c :: r) = .ok (c :: r.takeWhile isBlank) (r.dropWhile isBlank) := by
    simp [multispace1, takeWhile, List.takeWhile_cons, List.dropWhile_cons, h]
  refine ⟨?_, ?_, ?_, ?_, ?_, ?_, ?_, ?_⟩
  · rcases blank_cases c h with rfl | rfl | rfl | rfl <;>
      simp [token_shape, context, alt, alt2, value, map, lit, isPrefix, opAlt, opTerm, terminated, pair, hms]
  · simp [token_shape, context, alt, alt2, value, map, lit, isPrefix, opAlt, opTerm, terminated, pair, hms]
  · rcases blank_cases c h with rfl | rfl | rfl | rfl <;>
      simp [token_shape, context, alt, alt2, value, map, lit, isPrefix, opAlt, opTerm, terminated, pair, hms]
  · simp [token_shape, context, alt, alt2, value, map, lit, isPrefix, opAlt, opTerm, terminated, pair, hms]
  all_goals cases pf <;> decide

/-- Quoting style of an argument: the same value bare, single- or double-quoted. -/
theorem C06_quoting (s rest : Text) (hne : s ≠ []) :
    ((∀ c ∈ s, c ≠ '"') → parseString ('"' :: (s ++ '"' :: rest)) = .ok s rest) ∧
    ((∀ c ∈ s, c ≠ '\'') → parseString ('\'' :: (s ++ '\'' :: rest)) = .ok s rest) ∧
    ((∀ c ∈ s, isWordChar c = true) → (∀ c r, s = c :: r → c ≠ '"' ∧ c ≠ '\'') → WordStop rest →
      parseString (s ++ rest) = .ok s rest) := C05_word_styles s rest hne

/-- Redundant parentheses around any operand (an atom, or a whole sub-expression) leave no node. -/
theorem C06_parens (pf : Profile) (ts : List Token) (e : Expr) (h : GList ts e) :
    climb pf (Token.lparen :: (ts ++ [Token.rparen])) = .ok e [] ∧
    climb pf (Token.lparen :: Token.lparen :: (ts ++ [Token.rparen, Token.rparen])) = .ok e [] := by
  have p1 : GAtom (Token.lparen :: (ts ++ [Token.rparen])) e := .paren h
  have p2 : GAtom (Token.lparen :: ((Token.lparen :: (ts ++ [Token.rparen])) ++ [Token.rparen])) e :=
    .paren (GList.or (GOr.and (GAnd.atom p1)))
  refine ⟨climb_complete pf (.or (.and (.atom p1))), ?_⟩
  have := climb_complete pf (.or (.and (.atom p2)))
  simpa using this

/-! Non-vacuity: four spellings of one expression. -/
example : parse .debug (cl!"-name x -a ( -uid 5 -o -print )") = parse .debug (cl!"\t-name 'x'\r\n-and\n(-uid   5\t-or -print)  ") := by decide
example : parse .debug (cl!"-name x -uid 5") = parse .debug (cl!"( ( -name \"x\" ) ) ( -uid 5 )") := by decide

end FV
