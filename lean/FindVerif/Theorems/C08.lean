import FindVerif.Proofs.Chmod
import FindVerif.Model.Compile
/-
  C08 — permission arguments denote the bits chmod would compute.
  Model: `Lex/Permission.lean` (masks and `update`), oracle: `Spec/Chmod.lean` (per-bit rules).
  Proved for ALL modes, ALL who/permission strings of any length and order, ALL clause lists:
  `+` and `=` clauses compute exactly chmod's rule on every bit (C08_clause), hence every
  `-`-free clause list denotes chmod's result from mode 0 (C08_symbolic_partial); the three
  prefixes select the three checks (C08_prefix, C08_emitted).  The `-` operator does NOT follow
  chmod in this code base (known finding K1): C08_del_actual states exactly what it computes,
  C08_K1_witness exhibits the disagreement; the unrestricted statement `C08_symbolic_full` is
  kept below as a definition and is false of the current code.
-/
namespace FV
open Spec W

/-- A clause as written: who-text, operator character, permission-text. -/
structure ClauseText where
  who : Text
  op : Char
  perm : Text

def ClauseText.Valid (ct : ClauseText) : Prop :=
  ct.who ≠ [] ∧ (∀ c ∈ ct.who, (whoOfChar c).isSome) ∧ (opOfChar ct.op).isSome ∧
  ct.perm ≠ [] ∧ ∃ ps, ct.perm.mapM permOfChar = some ps

/-- The clause it denotes under chmod's reading. -/
def ClauseText.clause (ct : ClauseText) : Clause :=
  { who := (ct.who.filterMap whoOfChar).flatten,
    op := (opOfChar ct.op).getD .add,
    perms := (ct.perm.mapM permOfChar).getD [] }

/-- What the model builds for it (`PartialPermission::parse` after the three pieces are read). -/
def ClauseText.model (ct : ClauseText) : Option PartialPermission := mkPartial (ct.who, ct.op, ct.perm)

theorem model_of_valid (ct : ClauseText) (h : ct.Valid) :
    ct.model = some (
      if ct.op = '=' then .set (whoMask ct.clause.who) (permMask ct.clause.perms)
      else if ct.op = '+' then .add (whoMask ct.clause.who &&& permMask ct.clause.perms)
      else .del (whoMask ct.clause.who &&& modeNot (permMask ct.clause.perms))) := by
  obtain ⟨hw, hwc, hop, hp, ps, hps⟩ := h
  simp only [ClauseText.model, mkPartial, ClauseText.clause, symMode_who ct.who hw hwc, symMode_perm ct.perm ps hp hps, hps,
    Option.getD_some]
  simp only [opOfChar] at hop
  by_cases h1 : ct.op = '='
  · simp [h1]
  · by_cases h2 : ct.op = '+'
    · simp [h1, h2]
    · by_cases h3 : ct.op = '-'
      · simp [h1, h2, h3]
      · simp [h1, h2, h3] at hop

/-- `+` and `=` clauses compute chmod's rule on every (class, permission) bit, for every mode. -/
theorem C08_clause (ct : ClauseText) (h : ct.Valid) (hop : ct.op ≠ '-') :
    ∃ pp, ct.model = some pp ∧ ∀ m, fromBits (pp.update m) = applyClause ct.clause (fromBits m) := by
  refine ⟨_, model_of_valid ct h, fun m => ?_⟩
  obtain ⟨_, _, hopv, _, ps, hps⟩ := h
  by_cases h1 : ct.op = '='
  · simp only [h1, if_true]
    have : ct.clause = ⟨ct.clause.who, .set, ct.clause.perms⟩ := by simp [ClauseText.clause, opOfChar, h1]
    rw [this]
    exact set_spec _ _ m
  · by_cases h2 : ct.op = '+'
    · simp only [h1, h2, if_true, if_false]
      have : ct.clause = ⟨ct.clause.who, .add, ct.clause.perms⟩ := by simp [ClauseText.clause, opOfChar, h2]
      rw [this]
      exact add_spec _ _ m
    · simp only [opOfChar] at hopv
      by_cases h3 : ct.op = '-'
      · exact absurd h3 hop
      · simp [h1, h2, h3] at hopv

/-- `-` clauses (known finding K1): the model clears, within the listed classes, the permissions
    that are NOT listed. -/
theorem C08_del_actual (ct : ClauseText) (h : ct.Valid) (hop : ct.op = '-') :
    ∃ pp, ct.model = some pp ∧
      ∀ m, fromBits (pp.update m) = fun c p => fromBits m c p && !(decide (c ∈ ct.clause.who) && !decide (p ∈ ct.clause.perms)) := by
  refine ⟨_, model_of_valid ct h, fun m => ?_⟩
  have h1 : ct.op ≠ '=' := by rw [hop]; decide
  have h2 : ct.op ≠ '+' := by rw [hop]; decide
  simp only [h1, h2, if_false]
  exact del_actual _ _ m

/-- Every `-`-free clause list denotes the mode chmod computes from mode 0 (on all nine
    permission bits; the set-id and sticky bits stay clear, see `update_special`). -/
theorem C08_symbolic_partial (cts : List ClauseText) (hv : ∀ ct ∈ cts, ct.Valid) (hm : ∀ ct ∈ cts, ct.op ≠ '-') :
    ∃ pps, cts.mapM ClauseText.model = some pps ∧
      fromBits (pps.foldl (fun acc (e : PartialPermission) => e.update acc) 0) = chmodFrom0 (cts.map ClauseText.clause) := by
  have gen : ∀ (cts : List ClauseText), (∀ ct ∈ cts, ct.Valid) → (∀ ct ∈ cts, ct.op ≠ '-') → ∀ (m : Nat) (f : PermFn),
      fromBits m = f → ∃ pps, cts.mapM ClauseText.model = some pps ∧
      fromBits (pps.foldl (fun acc (e : PartialPermission) => e.update acc) m)
        = (cts.map ClauseText.clause).foldl (fun g cl => applyClause cl g) f := by
    intro cts
    induction cts with
    | nil => intro _ _ m f hf; exact ⟨[], rfl, by simpa using hf⟩
    | cons ct cts ih =>
      intro hv hm m f hf
      obtain ⟨pp, hpp, hstep⟩ := C08_clause ct (hv ct (by simp)) (hm ct (by simp))
      obtain ⟨pps, hpps, hfold⟩ := ih (fun c hc => hv c (by simp [hc])) (fun c hc => hm c (by simp [hc]))
        (pp.update m) (applyClause ct.clause f) (by rw [hstep m, hf])
      exact ⟨pp :: pps, by simp [List.mapM_cons, hpp, hpps], by simpa using hfold⟩
  obtain ⟨pps, h1, h2⟩ := gen cts hv hm 0 (fun _ _ => false) (by funext c p; simp [fromBits])
  exact ⟨pps, h1, by simpa [chmodFrom0] using h2⟩

/-- The full-strength statement (all clause lists, `-` included).  It is FALSE of the current code
    (K1); kept so that the gap stays visible. -/
def C08_symbolic_full : Prop :=
  ∀ cts : List ClauseText, (∀ ct ∈ cts, ct.Valid) →
    ∃ pps, cts.mapM ClauseText.model = some pps ∧
      fromBits (pps.foldl (fun acc (e : PartialPermission) => e.update acc) 0) = chmodFrom0 (cts.map ClauseText.clause)

/-- Witness of K1: `u=rwx,u-r` is 0300 under chmod and 0400 in this code. -/
theorem C08_K1_witness :
    parsePermission .debug (cl!"u=rwx,u-r") = .ok 0o400 [] ∧ Spec.modeBits (cl!"u=rwx,u-r") = some 0o300 := by
  constructor <;> decide

/-- Octal arguments denote exactly their octal value (and must be a mode). -/
theorem C08_octal (ds : Text) (h3 : 3 ≤ ds.length) (ho : ds.all isOct = true) :
    octalMode ds = Spec.modeBits ds := by
  simp [octalMode, Spec.modeBits, h3, ho]

/-- The prefix selects the check. -/
theorem C08_prefix (pf : Profile) (t r : Text) (m : Nat) (h : parsePermission pf t = .ok m r) :
    parsePermCheck pf ('/' :: t) = .ok (.any m) r ∧
    parsePermCheck pf ('-' :: t) = .ok (.atLeast m) r ∧
    (∀ c t', t = c :: t' → c ≠ '/' → c ≠ '-' → parsePermCheck pf t = .ok (.equal m) r) := by
  refine ⟨?_, ?_, ?_⟩
  · simp [parsePermCheck, context, alt, alt2, map, preceded, pair, lit, isPrefix, cutErr, h]
  · simp [parsePermCheck, context, alt, alt2, map, preceded, pair, lit, isPrefix, cutErr, h]
  · intro c t' ht h1 h2
    subst ht
    simp [parsePermCheck, context, alt, alt2, map, preceded, pair, lit, isPrefix, cutErr, h, h1.symm, h2.symm]

/-- The emitted test: none = all twelve bits equal; `-` = all given bits set; `/` = any given bit set. -/
theorem C08_emitted (p : Nat) :
    compilePermCheck (.equal p) = cl!"(= (logand (mode) " ++ nat 4095 ++ cl!") " ++ nat p ++ cl!")" ∧
    compilePermCheck (.atLeast p) = cl!"(= (logand (mode) " ++ nat p ++ cl!") " ++ nat p ++ cl!")" ∧
    compilePermCheck (.any p) = cl!"(not (= (logand (mode) " ++ nat p ++ cl!") 0))" :=
  ⟨rfl, rfl, rfl⟩

/-! Non-vacuity. -/
example : (ClauseText.mk (cl!"ug") '+' (cl!"rw")).Valid := by
  refine ⟨by simp, ?_, by decide, by simp, ⟨[.r, .w], by decide⟩⟩
  intro c hc; simp at hc; rcases hc with rfl | rfl <;> decide
example : parsePermission .release (cl!"ug+rw,o=r") = .ok 0o664 [] := by decide

end FV
