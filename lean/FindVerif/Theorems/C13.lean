import FindVerif.Proofs.Options
import FindVerif.Theorems.C07
/-
  C13 — global options are honoured wherever they appear.
  `Spec.optionsOf` / `Spec.expressionOf` (Spec/Options.lean) say, over the whole token sequence:
  every option counts, the last occurrence of each wins; the leading run of options is dropped
  (an empty rest is `-true`), every other option behaves as `-true`.  The model of `_parse`
  handles options in two phases (a leading loop over the text, then a sweep over the lexed
  tokens); the theorem says the two phases together compute exactly the spec's single
  definition, for every input on which the lexer succeeds, and that no option reaches the tree.
-/
namespace FV
open Spec W

/-- The result of `parse`, given what its two lexing phases read: the options are those of the
    whole sequence (last occurrence wins) and the tree is the parse of the expression tokens. -/
theorem C13_spec (pf : Profile) (s : Text) (gs : List GlobalOption) (rest : Text)
    (h1 : leadingGlobals pf s = .ok gs rest) :
    (rest = [] → parse pf s = .ok (optionsOf (gs.map Token.global)) (.test .true_)) ∧
    (∀ ts r', rest ≠ [] → lex pf rest = .ok ts r' →
      parse pf s =
        match climb pf (expressionOf (gs.map Token.global ++ ts)) with
        | .ok e _ => .ok (optionsOf (gs.map Token.global ++ ts)) e
        | .err _ c _ => .error (dispatch c r')
        | .panic x => .panic x) := by
  have hgs := out_leadingGlobals pf s gs rest h1
  have hua := updateAll_spec gs {} hgs
  have hopt : optionsOf (gs.map Token.global) = gs.foldl applyOption {} := by
    rw [optionsOf_eq, foldl_optStep_globals]
  refine ⟨?_, ?_⟩
  · intro hre
    subst hre
    simp only [parse, h1, hua, List.isEmpty_nil, if_true, sweepGlobals, Option.map]
    have hc : climb pf [Token.test Test.true_] = .ok (.test .true_) [] :=
      climb_complete pf (.or (.and (.atom (.prim rfl))))
    simp [hc, hopt]
  · intro ts r' hre hlex
    have hne : rest.isEmpty = false := by cases rest <;> simp_all
    have hts := out_lex pf rest ts r' hlex
    have hsw := sweepGlobals_spec ts (gs.foldl applyOption {}) hts
    simp only [parse, h1, hua, hne, Bool.false_eq_true, if_false, hlex, hsw]
    -- the spec's options / expression of the whole sequence
    have hoAll : optionsOf (gs.map Token.global ++ ts) = ts.foldl optStep (gs.foldl applyOption {}) := by
      rw [optionsOf_eq, List.foldl_append, foldl_optStep_globals]
    obtain ⟨hnl, hgbt⟩ := leadingGlobals_exit pf s gs rest h1
    obtain ⟨t0, more, rfl, ht0⟩ := lex_head_not_global pf rest ts r' hnl hgbt hlex
    have hexpr : expressionOf (gs.map Token.global ++ t0 :: more) = (t0 :: more).map untrue := by
      simp only [expressionOf, dropWhile_globals, List.dropWhile_cons, ht0, Bool.false_eq_true, if_false]
      rfl
    rw [hoAll, hexpr]
    cases climb pf ((t0 :: more).map untrue) <;> rfl

/-- No option ever reaches the tree. -/
theorem C13_no_option_node (pf : Profile) (s : Text) (o : RunOptions) (e : Expr) (h : parse pf s = .ok o e) :
    plainB e = true := parse_plain pf s o e h

/-- Last occurrence wins: the options of a sequence are a left fold. -/
theorem C13_last_wins (ts : List Token) (n m : Nat) :
    (optionsOf (ts ++ [Token.global (.threads n), Token.global (.threads m)])).threads = some m ∧
    (optionsOf (ts ++ [Token.global .depth])).depth = true := by
  simp [optionsOf, List.foldl_append, applyOption]

/-- The emitted scan call uses the requested thread count, or the runtime's default. -/
theorem C13_threads (clk : Nat → Nat) (e : Expr) (o : RunOptions) (c : Compiled) (h : compile clk e o = .ok c) :
    c.options = match o.threads with
      | some n => natToDec n
      | none => cl!"(lipe-getopt-thread-count)" := by
  simp only [compile] at h
  split at h
  · cases h
  · cases h
  · cases h; rfl

/-! Non-vacuity: options at the front, in the middle, inside parentheses and after `!`. -/
example : parse .debug (cl!"-threads 4 -name x -threads 7") =
    .ok { depth := false, threads := some 7 } (.and (.test (.name ['x'])) (.test .true_)) := by decide
example : parse .debug (cl!"! -depth ( -threads 2 -name x )") =
    .ok { depth := true, threads := some 2 } (.and (.not (.test .true_)) (.and (.test .true_) (.test (.name ['x'])))) := by decide
example : parse .release (cl!" -depth ") = .ok { depth := true, threads := none } (.test .true_) := by decide

end FV
