import FindVerif.Theorems.C20
import FindVerif.Spec.Scheme.Analysis
/-
  C04 — emitted program is well-formed Scheme; user text stays data (PARTIAL as a theorem).
  Proved here, for ALL strings (any characters, any length):
    * the one escaping function used at every interpolation site is inverted by the independent
      Scheme reader: the literal reads back as exactly the user's string and reading stops at the
      closing quote, whatever the string contains (C04_literal_roundtrip) — so a user string can
      never close its literal or open a form;
    * each interpolation site emits exactly such a literal (C04_site_*: by definitional
      unfolding of the model);
    * literal format text is printed verbatim: in a template `~` is doubled, so the text carries no
      directive and `format` prints exactly the user's text (C04_template_verbatim).
  Not proved as a theorem: that the WHOLE emitted text reads back as exactly two forms (that needs
  a rendering relation for every emitted construct); the check establishes it on the
  implementation's own output by reading every emitted program of the stream with the
  independent reader and comparing its structure with that of a benign twin.
-/
namespace FV
open Scheme

/-- A quoted, escaped user string reads back as that string; reading ends at the closing quote. -/
theorem C04_literal_roundtrip (s rest : Text) :
    read1 1 ('"' :: schemeEscape s ++ '"' :: rest) = some (.str s, rest) := by
  simp only [read1, List.cons_append]
  have hws : isWs '"' = false := by decide
  simp only [hws, Bool.false_eq_true, if_false]
  have h1 : ('"' = ';') = False := by decide
  have h2 : ('"' = '(') = False := by decide
  have h3 : ('"' = ')') = False := by decide
  simp only [h1, h2, h3, if_false, if_true]
  rw [readStr_escape s [] rest _ (by simp; omega)]
  simp

/-- The escaped text never contains a bare double quote (every `"` is preceded by a backslash that
    is itself part of an escape), stated as: reading cannot stop early — direct corollary of the
    round trip: two different strings have different escapings. -/
theorem C04_escape_injective (s₁ s₂ : Text) (h : schemeEscape s₁ = schemeEscape s₂) : s₁ = s₂ := by
  have r1 := C04_literal_roundtrip s₁ []
  have r2 := C04_literal_roundtrip s₂ []
  rw [h] at r1
  rw [r1] at r2
  simpa using r2

/-! Interpolation sites of the model: each emits `"` ++ schemeEscape s ++ `"`. -/

theorem C04_site_pool (clk : Nat → Nat) (s : Text) (st : CState) :
    compileTest clk (.pool s) st = .ok (cl!"(member " ++ ('"' :: schemeEscape s ++ '"' :: cl!" (lov-pools))"), st) := by
  simp [compileTest]

theorem C04_site_xattr (clk : Nat → Nat) (s : Text) (st : CState) :
    compileTest clk (.xattr s) st = .ok (cl!"(xattr? " ++ ('"' :: schemeEscape s ++ '"' :: cl!")"), st) := by
  simp [compileTest]

theorem C04_site_matcher (i : Nat) (pat : Text) (ci : Bool) :
    ∃ pre post, (Binding.matcher i pat ci).render = pre ++ ('"' :: schemeEscape pat ++ '"' :: post) :=
  ⟨cl!"(" ++ lf3 (cl!"match") (i + 1) ++ cl!" (lambda (" ++ lf3 (cl!"str") i ++ cl!") (" ++ matcherName pat ci ++ cl!"? ",
   cl!" " ++ lf3 (cl!"str") i ++ cl!")))", by simp [Binding.render, List.append_assoc]⟩

theorem C04_site_file (i : Nat) (f : Text) :
    ∃ pre post, (Binding.filePort i f).render = pre ++ ('"' :: schemeEscape f ++ '"' :: post) :=
  ⟨cl!"(" ++ lf3 (cl!"port") i ++ cl!" (open-file ", cl!" \"w\"))", by simp [Binding.render, List.append_assoc]⟩

theorem C04_site_strftime (c : Char) (field : Text) (h : c ≠ '@') :
    strftimeSnippet c field = cl!"strftime " ++ ('"' :: '%' :: schemeEscape [c] ++ '"' :: (cl!" (localtime (" ++ field ++ cl!"))")) := by
  simp [strftimeSnippet, h]

/-- In a format template the user's literal text carries no directive, and `format` prints it
    verbatim: decoding the literal then expanding `~~` gives back the text. -/
theorem formatPlain_replaceTilde (s : Text) : formatPlain (replaceTilde s) = some s := by
  induction s with
  | nil => simp [replaceTilde, formatPlain]
  | cons c cs ih =>
    by_cases hc : c = '~'
    · subst hc
      simp [replaceTilde, formatPlain, ih]
    · simp only [replaceTilde, hc, if_false, List.cons_append, List.nil_append]
      rw [formatPlain.eq_def]
      simp [hc, ih]

theorem formatDirectives_replaceTilde (s : Text) : formatDirectives (replaceTilde s) = some 0 := by
  induction s with
  | nil => simp [replaceTilde, formatDirectives]
  | cons c cs ih =>
    by_cases hc : c = '~'
    · subst hc
      simp [replaceTilde, formatDirectives, ih]
    · simp only [replaceTilde, hc, if_false, List.cons_append, List.nil_append]
      rw [formatDirectives.eq_def]
      simp [hc, ih]

/-- Escaping for a string literal neither creates nor removes tildes, so it commutes with the
    doubling of tildes. -/
theorem replaceTilde_schemeEscape (s : Text) : replaceTilde (schemeEscape s) = schemeEscape (replaceTilde s) := by
  have happ : ∀ a b : Text, replaceTilde (a ++ b) = replaceTilde a ++ replaceTilde b := by
    intro a b
    induction a with
    | nil => simp [replaceTilde]
    | cons x xs ih => simp [replaceTilde, ih, List.append_assoc]
  have happE : ∀ a b : Text, schemeEscape (a ++ b) = schemeEscape a ++ schemeEscape b := by
    intro a b
    induction a with
    | nil => simp [schemeEscape]
    | cons x xs ih => simp [schemeEscape, ih, List.append_assoc]
  have hhex : ∀ n, replaceTilde (natToHex n) = natToHex n := by
    intro n
    have : ∀ l : Text, (∀ c ∈ l, c ≠ '~') → replaceTilde l = l := by
      intro l hl
      induction l with
      | nil => rfl
      | cons x xs ih => simp [replaceTilde, hl x (by simp), ih (fun c hc => hl c (by simp [hc]))]
    apply this
    have hd : ∀ k, k < 16 → hexDigit k ≠ '~' := by decide
    have aux : ∀ (fuel n : Nat) (acc : List Char), (∀ c ∈ acc, c ≠ '~') → ∀ c ∈ natToHexAux fuel n acc, c ≠ '~' := by
      intro fuel
      induction fuel with
      | zero => intro n acc h; simpa [natToHexAux] using h
      | succ f ih =>
        intro n acc h
        simp only [natToHexAux]
        have hacc : ∀ c ∈ hexDigit (n % 16) :: acc, c ≠ '~' := by
          intro c hc; simp at hc; rcases hc with rfl | hc
          · exact hd _ (Nat.mod_lt _ (by omega))
          · exact h c hc
        split
        · exact hacc
        · exact ih _ _ hacc
    exact aux _ _ [] (by simp)
  induction s with
  | nil => simp [replaceTilde, schemeEscape]
  | cons c cs ih =>
    by_cases ht : c = '~'
    · subst ht
      have hctl : isControl '~' = false := by decide
      simp [replaceTilde, schemeEscape, hctl, happ, ih]
    · simp only [replaceTilde, ht, if_false, schemeEscape, List.cons_append, List.nil_append]
      rw [happ, ih]
      congr 1
      by_cases hq : c = '"'
      · subst hq; simp [replaceTilde]
      · by_cases hb : c = '\\'
        · subst hb; simp [replaceTilde]
        · by_cases hcl : isControl c = true
          · simp [hq, hb, hcl, happ, hhex, replaceTilde]
          · simp [hq, hb, hcl, replaceTilde, ht]

/-- Literal format text is data AND is printed verbatim: the template literal reads back to a
    string that contains no directive and that `format` prints as exactly the user's text. -/
theorem C04_template_verbatim (s rest : Text) :
    ∃ decoded, read1 1 ('"' :: templateEscape s ++ '"' :: rest) = some (.str decoded, rest) ∧
      formatPlain decoded = some s ∧ formatDirectives decoded = some 0 := by
  refine ⟨replaceTilde s, ?_, formatPlain_replaceTilde s, formatDirectives_replaceTilde s⟩
  unfold templateEscape
  rw [replaceTilde_schemeEscape]
  exact C04_literal_roundtrip (replaceTilde s) rest

example : templateEscape (cl!"50% ~a \"x\"") = cl!"50% ~~a \\\"x\\\"" := by decide

end FV
