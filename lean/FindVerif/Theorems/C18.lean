import FindVerif.Proofs.Dispatch
import FindVerif.Proofs.LexSeq
import FindVerif.Theorems.C05
import FindVerif.Driver.Obs
/-
  C18 — argument errors name the offending primary and word.
  Proved for EVERY argument-taking entry of the keyword tables, wherever the primary stands
  (after any readable sequence of tokens, before anything): if its argument reader fails, the
  error value carries that keyword and the word found where the reader left the input (for the
  readers that fail on the first character, and for a missing argument, that is the argument word
  itself, respectively the empty word); the category (test / action / option) and the innermost
  description are the ones of the failing reader (C18_test_arg, C18_action_arg, C18_global_arg,
  C18_missing_*); an unknown word is quoted (C18_unknown); the rendered text is never empty and
  contains the keyword and the quoted word (C18_text_*).
-/
namespace FV
open W

/-- `parse` when the lexer fails: the error value is `dispatch` of the lexer's contexts at the
    lexer's failure position. -/
theorem parse_lex_error (pf : Profile) (s : Text) (gs : List GlobalOption) (rest : Text) (k : Bool) (c : List Ctx) (r' : Text)
    (h1 : leadingGlobals pf s = .ok gs rest) (hne : rest ≠ []) (h2 : lex pf rest = .err k c r') :
    parse pf s = .error (dispatch c r') := by
  have hgs := out_leadingGlobals pf s gs rest h1
  have hua := updateAll_spec gs {} hgs
  have hre : rest.isEmpty = false := by cases rest <;> simp_all
  simp [parse, h1, hua, hre, h2]

theorem lexPrefix_nil (pf : Profile) {ts : List Token} {r : Text} (h : LexPrefix pf [] ts r) : r = [] := by
  cases h with
  | nil => rfl
  | cons ht _ =>
    have := (strict_token pf).cons [] _ _ ht
    simp at this

/-- Benign contexts of the numeric / size / time / type / permission / string readers. -/
theorem benign_of_labels (cp : List Ctx)
    (h : ∀ l, Ctx.label l ∈ cp → l = cl!"comparison" ∨ l = cl!"size" ∨ l = cl!"timespec" ∨ l = cl!"permission" ∨
      l = cl!"permission_comparison") : Benign cp := by
  intro l hl
  rcases h l hl with rfl | rfl | rfl | rfl | rfl <;> decide

/-- A test whose argument reader fails: the error names the test and quotes the word at the
    reader's failure position — wherever the primary stands. -/
theorem C18_test_arg {α : Type} (pf : Profile) (s : Text) (gs : List GlobalOption) (rest : Text)
    (pre : List Token) (kw : Text) (tr : α → Test) (argp : P Char α) (ws x : Text)
    (h1 : leadingGlobals pf s = .ok gs rest)
    (hpre : LexPrefix pf (rest.dropWhile isBlank) pre (kw ++ (ws ++ x)))
    (hm : (kw, unary kw tr argp) ∈ testAlts pf) (hb : BlankRun ws x)
    (k : Bool) (cp : List Ctx) (rr : Text) (harg : argp x = .err k cp rr) (hben : Benign cp) :
    parse pf s = .error (match innerDescription cp with
      | some d => .invalidTestArgument kw (nextWord rr) (explain d)
      | none => .invalidTestUnknown kw (nextWord rr)) := by
  have hkw : kw ∈ testKws := by rw [← testKws_eq pf]; exact List.mem_map_of_mem (f := Prod.fst) hm
  have hk : kw ≠ [] ∧ kw ≠ cl!"test" := by
    have : ∀ k ∈ testKws, k ≠ [] ∧ k ≠ cl!"test" := by decide
    exact this kw hkw
  have htok := C05_test_unary pf kw tr argp hm ws x hb
  rw [harg] at htok
  have hne : kw ++ (ws ++ x) ≠ [] := by
    intro he
    have := congrArg List.length he
    obtain ⟨h0, _⟩ := hk
    cases kw with
    | nil => exact h0 rfl
    | cons _ _ => simp at this
  have hrne : rest ≠ [] := by
    intro he; subst he
    exact hne (lexPrefix_nil pf hpre)
  have hlex := lex_error_at pf rest pre _ true _ rr hpre (Or.inl hne) htok
  rw [parse_lex_error pf s gs rest true _ rr h1 hrne hlex]
  have hd := dispatch_test cp kw rr hben hk.1 hk.2
  cases hi : innerDescription cp with
  | none => rw [hi] at hd; exact congrArg ParseOut.error (by simpa [List.append_assoc] using hd)
  | some d => rw [hi] at hd; exact congrArg ParseOut.error (by simpa [List.append_assoc] using hd)

/-- Same for actions. -/
theorem C18_action_arg {α : Type} (pf : Profile) (s : Text) (gs : List GlobalOption) (rest : Text)
    (pre : List Token) (kw : Text) (tr : α → Action) (argp : P Char α) (ws x : Text)
    (h1 : leadingGlobals pf s = .ok gs rest)
    (hpre : LexPrefix pf (rest.dropWhile isBlank) pre (kw ++ (ws ++ x)))
    (hm : (kw, unary kw tr argp) ∈ actionAlts pf) (hb : BlankRun ws x)
    (k : Bool) (cp : List Ctx) (rr : Text) (harg : argp x = .err k cp rr) (hben : Benign cp) :
    parse pf s = .error (match innerDescription cp with
      | some d => .invalidActionArgument kw (nextWord rr) (explain d)
      | none => .invalidActionUnknown kw (nextWord rr)) := by
  have hkw : kw ∈ actionKws := by rw [← actionKws_eq pf]; exact List.mem_map_of_mem (f := Prod.fst) hm
  have hk : kw ≠ [] ∧ kw ≠ cl!"test" ∧ kw ≠ cl!"action" := by
    have : ∀ k ∈ actionKws, k ≠ [] ∧ k ≠ cl!"test" ∧ k ≠ cl!"action" := by decide
    exact this kw hkw
  have htok := C05_action_unary pf kw tr argp hm ws x hb
  rw [harg] at htok
  have hne : kw ++ (ws ++ x) ≠ [] := by
    intro he
    have := congrArg List.length he
    obtain ⟨h0, _⟩ := hk
    cases kw with
    | nil => exact h0 rfl
    | cons _ _ => simp at this
  have hrne : rest ≠ [] := by
    intro he; subst he
    exact hne (lexPrefix_nil pf hpre)
  have hlex := lex_error_at pf rest pre _ true _ rr hpre (Or.inl hne) htok
  rw [parse_lex_error pf s gs rest true _ rr h1 hrne hlex]
  have hd := dispatch_action cp kw rr hben hk.1 hk.2.1 hk.2.2
  cases hi : innerDescription cp with
  | none => rw [hi] at hd; exact congrArg ParseOut.error (by simpa [List.append_assoc] using hd)
  | some d => rw [hi] at hd; exact congrArg ParseOut.error (by simpa [List.append_assoc] using hd)

/-- A missing argument (the keyword is followed by the end of input or by a non-blank): the error
    names the keyword and quotes the word found there — the empty word at the end of input. -/
theorem C18_missing_test {α : Type} (pf : Profile) (s : Text) (gs : List GlobalOption) (rest : Text)
    (pre : List Token) (kw : Text) (tr : α → Test) (argp : P Char α)
    (h1 : leadingGlobals pf s = .ok gs rest)
    (hpre : LexPrefix pf (rest.dropWhile isBlank) pre kw)
    (hm : (kw, unary kw tr argp) ∈ testAlts pf) :
    parse pf s = .error (.invalidTestUnknown kw []) := by
  have hkw : kw ∈ testKws := by rw [← testKws_eq pf]; exact List.mem_map_of_mem (f := Prod.fst) hm
  have hk : kw ≠ [] ∧ kw ≠ cl!"test" := by
    have : ∀ k ∈ testKws, k ≠ [] ∧ k ≠ cl!"test" := by decide
    exact this kw hkw
  have hu : unary kw tr argp (kw ++ []) = .err true [label kw] [] := unary_missing kw tr argp [] (Or.inl rfl)
  have htok := (token_test pf kw _ hm [] (Or.inl rfl)).2 _ _ hu
  simp only [List.append_nil] at htok
  have hrne : rest ≠ [] := by
    intro he; subst he
    exact hk.1 (lexPrefix_nil pf hpre)
  have hlex := lex_error_at pf rest pre kw true _ [] hpre (Or.inl hk.1) htok
  rw [parse_lex_error pf s gs rest true _ [] h1 hrne hlex]
  have hd := dispatch_test [] kw [] (by intro l hl; simp at hl) hk.1 hk.2
  have hnw : nextWord [] = [] := by decide
  exact congrArg ParseOut.error (by simpa [innerDescription, hnw] using hd)

theorem C18_missing_action {α : Type} (pf : Profile) (s : Text) (gs : List GlobalOption) (rest : Text)
    (pre : List Token) (kw : Text) (tr : α → Action) (argp : P Char α)
    (h1 : leadingGlobals pf s = .ok gs rest)
    (hpre : LexPrefix pf (rest.dropWhile isBlank) pre kw)
    (hm : (kw, unary kw tr argp) ∈ actionAlts pf) :
    parse pf s = .error (.invalidActionUnknown kw []) := by
  have hkw : kw ∈ actionKws := by rw [← actionKws_eq pf]; exact List.mem_map_of_mem (f := Prod.fst) hm
  have hk : kw ≠ [] ∧ kw ≠ cl!"test" ∧ kw ≠ cl!"action" := by
    have : ∀ k ∈ actionKws, k ≠ [] ∧ k ≠ cl!"test" ∧ k ≠ cl!"action" := by decide
    exact this kw hkw
  have hu : unary kw tr argp (kw ++ []) = .err true [label kw] [] := unary_missing kw tr argp [] (Or.inl rfl)
  have htok := (token_action pf kw _ hm [] (Or.inl rfl)).2 _ _ hu
  simp only [List.append_nil] at htok
  have hrne : rest ≠ [] := by
    intro he; subst he
    exact hk.1 (lexPrefix_nil pf hpre)
  have hlex := lex_error_at pf rest pre kw true _ [] hpre (Or.inl hk.1) htok
  rw [parse_lex_error pf s gs rest true _ [] h1 hrne hlex]
  have hd := dispatch_action [] kw [] (by intro l hl; simp at hl) hk.1 hk.2.1 hk.2.2
  have hnw : nextWord [] = [] := by decide
  exact congrArg ParseOut.error (by simpa [innerDescription, hnw] using hd)

/-- A word at which no token starts: it is quoted (bare, or with its quotes stripped). -/
theorem C18_unknown (pf : Profile) (s : Text) (gs : List GlobalOption) (rest : Text) (pre : List Token) (r : Text)
    (h1 : leadingGlobals pf s = .ok gs rest) (hne : rest ≠ [])
    (hpre : LexPrefix pf (rest.dropWhile isBlank) pre r) (hr : r ≠ [] ∨ pre = [])
    (htok : token pf r = .err false [expected (cl!"invalid_token"), label (cl!"syntax")] r) :
    parse pf s = .error (.invalidToken (nextWord r)) := by
  have hlex := lex_error_at pf rest pre r false _ r hpre hr htok
  rw [parse_lex_error pf s gs rest false _ r h1 hne hlex, dispatch_unknown]

/-- The message is never empty, names the keyword and quotes the word. -/
theorem C18_text (kw w d : Text) :
    (ParseError.invalidTestArgument kw w d).display =
      cl!"Syntax error: Failed to parse argument `" ++ w ++ cl!"` of test `" ++ kw ++ cl!"`: " ++ d ∧
    (ParseError.invalidTestUnknown kw w).display =
      cl!"Syntax error: Failed to parse argument `" ++ w ++ cl!"` of test `" ++ kw ++ cl!"`" ∧
    (ParseError.invalidActionUnknown kw w).display =
      cl!"Syntax error: Failed to parse argument `" ++ w ++ cl!"` of action `" ++ kw ++ cl!"`" ∧
    (ParseError.invalidGlobalUnknown kw w).display =
      cl!"Syntax error: Failed to parse argument `" ++ w ++ cl!"` of global option `" ++ kw ++ cl!"`" ∧
    (ParseError.invalidToken w).display = cl!"Syntax error: Unexpected token: `" ++ w ++ cl!"`" :=
  ⟨rfl, rfl, rfl, rfl, rfl⟩

/-! Non-vacuity: concrete inputs. -/
example : parse .debug (cl!"-print -uid @5 -empty") =
    .error (.invalidTestArgument (cl!"-uid") (cl!"@5") (cl!"Expected an unsigned integer")) := by decide
example : parse .debug (cl!"-true -fprint") = .error (.invalidActionUnknown (cl!"-fprint") []) := by decide
example : parse .release (cl!"-name x \"bogus\" -print") = .error (.invalidToken (cl!"bogus")) := by decide
example : parse .release (cl!"-threads") = .error (.invalidGlobalUnknown (cl!"-threads") []) := by decide

end FV
