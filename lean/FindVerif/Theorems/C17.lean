import FindVerif.Theorems.C03
/-
  C17 — debug and release builds behave identically (logic part).
  The only profile-dependent behaviour left in the crate is winnow's `ErrMode::assert` (panic with
  debug assertions, `Cut` error without), modelled by the `Profile` parameter of the looping
  combinators; code generation has no profile-dependent branch or overflow-dependent arithmetic
  any more (the model of `compile`/`scheme`/`io_map` takes no profile: the u128 size product
  cannot overflow, the positional option is refused in both profiles, and the `u32` counter
  `var_index` would need 2^32 registrations to wrap).  The theorem: the whole observable run is
  the same function in both profiles, for every input, clock and device path.
-/
namespace FV

/-- Everything a caller can observe from one run: parse result; then program text and table,
    or the compile error. -/
inductive RunObs where
  | parseError (e : ParseError)
  | compileError (o : RunOptions) (e : Expr) (x : CompileError)
  | program (o : RunOptions) (e : Expr) (text : Text) (table : Option (List (Nat × Target)))
  | panic
  deriving DecidableEq

def run (pf : Profile) (clk : Nat → Nat) (mdt : Text) (s : Text) : RunObs :=
  match parse pf s with
  | .error e => .parseError e
  | .panic _ => .panic
  | .ok o e =>
    match compile clk e o with
    | .ok c => .program o e (c.scheme mdt) c.ioMap
    | .err x => .compileError o e x
    | .panic _ => .panic

theorem C17 (clk : Nat → Nat) (mdt s : Text) : run .debug clk mdt s = run .release clk mdt s := by
  simp only [run, parse_profile]

/-- And neither run is a panic. -/
theorem C17_no_panic (pf : Profile) (clk : Nat → Nat) (mdt s : Text) : run pf clk mdt s ≠ .panic := by
  simp only [run]
  rcases C03_parse pf s with ⟨o, e, h⟩ | ⟨err, h⟩
  · rw [h]
    rcases C03_compile pf s o e clk h with ⟨c, hc⟩ | ⟨x, hc⟩ <;> simp [hc]
  · simp [h]

example : run .debug (fun _ => 7) (cl!"/dev/x") (cl!"nope") = run .release (fun _ => 7) (cl!"/dev/x") (cl!"nope") := C17 _ _ _
example : run .debug (fun _ => 7) (cl!"/") (cl!"nope")
    = .compileError {} (.positional .xdev) (.unsupportedOption (cl!"XDev")) := by decide

end FV
