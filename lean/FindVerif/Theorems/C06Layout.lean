import FindVerif.Proofs.Layout
import FindVerif.Theorems.C06
/-
  C06 / C05 — the LAYOUT theorem: whole inputs, not single tokens.

  A *layout* of a token sequence (Proofs/Layout.lean) is any text made of one spelling of each
  token in turn, each followed by a possibly empty run of blanks (space, tab, CR, LF in any mix),
  such that what follows a token is acceptable to that token's reader (for most tokens: the end,
  a blank, or punctuation; for punctuation: anything).  `Writes` is the semantic notion of "a
  spelling of a token"; the `writes_*` theorems below show that every family of the vocabulary has
  its spellings: punctuation, both spellings of each operator word, every keyword without
  argument, every keyword with an argument for every admissible blank run and argument spelling
  (words bare / single-quoted / double-quoted, numbers with and without sign), and the options.

  C06_layout:        for EVERY layout of EVERY token sequence — any leading blanks, any spelling of
                     each token, any blank runs — `parse` returns exactly what the specification
                     says for the token sequence: the options of the whole sequence (last wins) and
                     the grammar's tree of the expression tokens; nothing depends on the layout.
  C06_layout_tree:   for every option-free tree without explicit-precedence nodes and every layout
                     of its canonical token spelling (with either AND spelling), behind any leading
                     options, `parse` returns that tree and those options: `parse ∘ write = id`.
  C06_layouts_agree: two layouts of the same token sequence give identical results (the property's
                     statement, for whole inputs).
-/
namespace FV
open W Spec

theorem layout_nonempty {pf t ts s} (h : Layout pf (t :: ts) s) : s ≠ [] := by
  cases h with
  | cons hw _ _ _ =>
    obtain ⟨⟨c, r, rfl, _⟩, _⟩ := hw
    simp

/-- The layout theorem. -/
theorem C06_layout (pf : Profile) (lead s : Text) (gs : List GlobalOption) (ts : List Token)
    (hlead : ∀ c ∈ lead, isBlank c = true) (hL : Layout pf (gs.map Token.global ++ ts) s)
    (hts : ts = [] ∨ ∃ t ts', ts = t :: ts' ∧ isGlobalTok t = false) :
    parse pf (lead ++ s) =
      match climb pf (expressionOf (gs.map Token.global ++ ts)) with
      | .ok e _ => .ok (optionsOf (gs.map Token.global ++ ts)) e
      | .err _ c _ => .error (dispatch c [])
      | .panic x => .panic x := by
  obtain ⟨s', hlg, hL'⟩ := leadingGlobals_layout pf lead s gs ts hlead hL hts
  have hspec := C13_spec pf (lead ++ s) gs s' hlg
  rcases hts with rfl | ⟨t, ts', rfl, hg⟩
  · cases hL'
    rw [hspec.1 rfl]
    have hc : climb pf [Token.test Test.true_] = .ok (.test .true_) [] :=
      climb_complete pf (.or (.and (.atom (.prim rfl))))
    have he : expressionOf (gs.map Token.global ++ []) = [Token.test Test.true_] := by
      simp only [expressionOf, List.append_nil]
      have := dropWhile_globals gs []
      simp only [List.append_nil] at this
      rw [this]
      rfl
    rw [he, hc]
    simp
  · have hne := layout_nonempty hL'
    have hd : s'.dropWhile isBlank = s' := by
      have := dropWhile_blanks_app [] s' (by simp) hL'.head
      simpa using this
    have hlex : lex pf s' = .ok (t :: ts') [] := lex_of_prefix pf s' t ts' (by rw [hd]; exact hL'.lexPrefix)
    exact hspec.2 (t :: ts') [] hne hlex

/-- Two layouts of the same token sequence give identical results. -/
theorem C06_layouts_agree (pf : Profile) (lead₁ s₁ lead₂ s₂ : Text) (gs : List GlobalOption) (ts : List Token)
    (h1 : ∀ c ∈ lead₁, isBlank c = true) (h2 : ∀ c ∈ lead₂, isBlank c = true)
    (l1 : Layout pf (gs.map Token.global ++ ts) s₁) (l2 : Layout pf (gs.map Token.global ++ ts) s₂)
    (hts : ts = [] ∨ ∃ t ts', ts = t :: ts' ∧ isGlobalTok t = false) :
    parse pf (lead₁ ++ s₁) = parse pf (lead₂ ++ s₂) := by
  rw [C06_layout pf lead₁ s₁ gs ts h1 l1 hts, C06_layout pf lead₂ s₂ gs ts h2 l2 hts]

/-- No option leaf (the parser never returns one: C13_no_option_node). -/
def NoOpt : Expr → Prop
  | .global _ => False
  | .not e | .prec e => NoOpt e
  | .and a b | .or a b | .list a b => NoOpt a ∧ NoOpt b
  | _ => True

theorem wrap_noGlobal (b : Bool) (ts : List Token) (h : ∀ t ∈ ts, isGlobalTok t = false) :
    ∀ t ∈ wrap b ts, isGlobalTok t = false := by
  intro t ht
  cases b with
  | false => exact h t (by simpa [wrap] using ht)
  | true =>
    simp only [wrap, if_true, List.mem_cons, List.mem_append, List.mem_nil_iff, or_false] at ht
    rcases ht with rfl | ht | rfl
    · rfl
    · exact h t ht
    · rfl

theorem spellAt_noGlobal (x : Bool) : ∀ (e : Expr), NoOpt e → ∀ lvl, ∀ t ∈ spellAt x lvl e, isGlobalTok t = false
  | .and a b, h, lvl => by
    apply wrap_noGlobal
    intro t ht
    simp only [List.mem_append] at ht
    rcases ht with (ht | ht) | ht
    · exact spellAt_noGlobal x a h.1 2 t ht
    · cases x <;> simp at ht; subst ht; rfl
    · exact spellAt_noGlobal x b h.2 3 t ht
  | .or a b, h, lvl => by
    apply wrap_noGlobal
    intro t ht
    simp only [List.mem_append, List.mem_cons, List.mem_nil_iff, or_false] at ht
    rcases ht with (ht | rfl) | ht
    · exact spellAt_noGlobal x a h.1 1 t ht
    · rfl
    · exact spellAt_noGlobal x b h.2 2 t ht
  | .list a b, h, lvl => by
    apply wrap_noGlobal
    intro t ht
    simp only [List.mem_append, List.mem_cons, List.mem_nil_iff, or_false] at ht
    rcases ht with (ht | rfl) | ht
    · exact spellAt_noGlobal x a h.1 0 t ht
    · rfl
    · exact spellAt_noGlobal x b h.2 1 t ht
  | .not a, h, lvl => by
    intro t ht
    simp only [spellAt, List.mem_cons] at ht
    rcases ht with rfl | ht
    · rfl
    · exact spellAt_noGlobal x a h 3 t ht
  | .prec a, h, lvl => by
    intro t ht
    simp only [spellAt] at ht
    exact spellAt_noGlobal x a h lvl t ht
  | .test _, _, _ => by intro t ht; simp only [spellAt, List.mem_cons, List.mem_nil_iff, or_false] at ht; subst ht; rfl
  | .action _, _, _ => by intro t ht; simp only [spellAt, List.mem_cons, List.mem_nil_iff, or_false] at ht; subst ht; rfl
  | .global _, h, _ => absurd h (by simp [NoOpt])
  | .positional _, _, _ => by intro t ht; simp only [spellAt, List.mem_cons, List.mem_nil_iff, or_false] at ht; subst ht; rfl

theorem map_untrue_noGlobal (ts : List Token) (h : ∀ t ∈ ts, isGlobalTok t = false) :
    ts.map (fun t => if isGlobalTok t then Token.test .true_ else t) = ts := by
  induction ts with
  | nil => rfl
  | cons t ts ih =>
    simp only [List.map_cons, h t (by simp), Bool.false_eq_true, if_false]
    rw [ih (fun t' ht' => h t' (by simp [ht']))]

theorem foldl_opt_noGlobal (ts : List Token) (o : RunOptions) (h : ∀ t ∈ ts, isGlobalTok t = false) :
    ts.foldl (fun o t => match t with | .global g => applyOption o g | _ => o) o = o := by
  induction ts generalizing o with
  | nil => rfl
  | cons t ts ih =>
    have ht := h t (by simp)
    cases t <;> simp [isGlobalTok] at ht <;> exact ih _ (fun t' ht' => h t' (by simp [ht']))

/-- `parse ∘ write = id`: every option-free tree without explicit-precedence nodes, written as its
    canonical token sequence (either AND spelling) in ANY layout, behind any leading options in
    any layout and any leading blanks, parses to exactly that tree and those options. -/
theorem C06_layout_tree (pf : Profile) (x : Bool) (lead s : Text) (gs : List GlobalOption) (e : Expr)
    (hp : Plain e) (hn : NoOpt e) (hlead : ∀ c ∈ lead, isBlank c = true)
    (hL : Layout pf (gs.map Token.global ++ spell x e) s) :
    parse pf (lead ++ s) = .ok (optionsOf (gs.map Token.global)) e := by
  have hng := spellAt_noGlobal x e hn 0
  have hG := spell_sound x e hp
  -- the canonical spelling is never empty
  obtain ⟨t, ts', hsp⟩ : ∃ t ts', spell x e = t :: ts' := by
    cases hs : spell x e with
    | nil => exact absurd hs hG.ne_nil
    | cons t ts' => exact ⟨t, ts', rfl⟩
  have ht : isGlobalTok t = false := hng t (by show t ∈ spell x e; rw [hsp]; simp)
  rw [C06_layout pf lead s gs (spell x e) hlead hL (Or.inr ⟨t, ts', hsp, ht⟩)]
  have hexpr : expressionOf (gs.map Token.global ++ spell x e) = spell x e := by
    simp only [expressionOf, dropWhile_globals]
    rw [hsp]
    simp only [List.dropWhile_cons, ht, Bool.false_eq_true, if_false]
    rw [← hsp]
    exact map_untrue_noGlobal _ hng
  have hopt : optionsOf (gs.map Token.global ++ spell x e) = optionsOf (gs.map Token.global) := by
    simp only [optionsOf, List.foldl_append]
    exact foldl_opt_noGlobal _ _ hng
  rw [hexpr, hopt, climb_complete pf hG]

end FV

/-! ### every family of the vocabulary has its spellings (`Writes`) -/
namespace FV
open W Spec

def BlankLed (tail : Text) : Prop := tail = [] ∨ ∃ c r, tail = c :: r ∧ isBlank c = true

theorem dropWhile_idem (l : Text) : (l.dropWhile isBlank).dropWhile isBlank = l.dropWhile isBlank := by
  have := dropWhile_blanks_app [] (l.dropWhile isBlank) (by simp) (by
    have h := noLeadBlank_dropWhile l
    cases hd : l.dropWhile isBlank with
    | nil => exact Or.inl rfl
    | cons c r =>
      refine Or.inr ⟨c, r, rfl, ?_⟩
      rw [hd] at h
      cases hc : isBlank c with
      | false => rfl
      | true => simp [NoLeadBlank, List.takeWhile_cons, hc] at h)
  simpa using this

/-- Punctuation may be followed by anything (glued to the next token). -/
theorem writes_punct (pf : Profile) :
    Writes pf (fun _ => True) .lparen (cl!"(") ∧ Writes pf (fun _ => True) .rparen (cl!")") ∧
    Writes pf (fun _ => True) .not (cl!"!") ∧ Writes pf (fun _ => True) .comma (cl!",") := by
  refine ⟨⟨⟨'(', [], rfl, by decide⟩, fun tail _ => ⟨tail, ?_, rfl⟩⟩, ⟨⟨')', [], rfl, by decide⟩, fun tail _ => ⟨tail, ?_, rfl⟩⟩,
          ⟨⟨'!', [], rfl, by decide⟩, fun tail _ => ⟨tail, ?_, rfl⟩⟩, ⟨⟨',', [], rfl, by decide⟩, fun tail _ => ⟨tail, ?_, rfl⟩⟩⟩
  all_goals simp [token_shape, context, alt, alt2, value, map, lit, isPrefix]

/-- Both spellings of each operator word, followed by a blank or the end of the input. -/
theorem writes_operator (pf : Profile) :
    Writes pf BlankLed .and (cl!"-a") ∧ Writes pf BlankLed .and (cl!"-and") ∧
    Writes pf BlankLed .or (cl!"-o") ∧ Writes pf BlankLed .or (cl!"-or") := by
  have key : ∀ (t : Token) (w : Text), (∀ c r, isBlank c = true → token pf (w ++ c :: r) = .ok t (r.dropWhile isBlank)) →
      token pf w = .ok t [] → (∃ c r, w = c :: r ∧ isBlank c = false) → Writes pf BlankLed t w := by
    intro t w h1 h2 h3
    refine ⟨h3, fun tail ht => ?_⟩
    rcases ht with rfl | ⟨c, r, rfl, hc⟩
    · exact ⟨[], by simpa using h2, rfl⟩
    · exact ⟨r.dropWhile isBlank, h1 c r hc, by simp [dropWhile_idem, List.dropWhile_cons, hc]⟩
  refine ⟨key _ _ (fun c r h => (C06_synonyms pf c r h).1) (C06_synonyms pf ' ' [] rfl).2.2.2.2.1 ⟨'-', _, rfl, by decide⟩,
          key _ _ (fun c r h => (C06_synonyms pf c r h).2.1) (C06_synonyms pf ' ' [] rfl).2.2.2.2.2.1 ⟨'-', _, rfl, by decide⟩,
          key _ _ (fun c r h => (C06_synonyms pf c r h).2.2.1) (C06_synonyms pf ' ' [] rfl).2.2.2.2.2.2.1 ⟨'-', _, rfl, by decide⟩,
          key _ _ (fun c r h => (C06_synonyms pf c r h).2.2.2.1) (C06_synonyms pf ' ' [] rfl).2.2.2.2.2.2.2 ⟨'-', _, rfl, by decide⟩⟩

def kwHeadOk (kws : List Text) : Bool := kws.all fun kw => match kw with | c :: _ => !isBlank c | [] => false
theorem testKws_head : kwHeadOk testKws = true := by decide
theorem actionKws_head : kwHeadOk actionKws = true := by decide
theorem globalKws_head : kwHeadOk globalKws = true := by decide

theorem kw_head (kws : List Text) (h : kwHeadOk kws = true) (kw : Text) (hk : kw ∈ kws) :
    ∃ c r, kw = c :: r ∧ isBlank c = false := by
  simp only [kwHeadOk, List.all_eq_true] at h
  have := h kw hk
  cases kw with
  | nil => simp at this
  | cons c r => exact ⟨c, r, rfl, by simpa using this⟩

theorem testKw_mem {pf : Profile} {kw : Text} {p : P Char Test} (hm : (kw, p) ∈ testAlts pf) : kw ∈ testKws := by
  rw [← testKws_eq pf]; exact List.mem_map_of_mem (f := Prod.fst) hm
theorem actionKw_mem {pf : Profile} {kw : Text} {p : P Char Action} (hm : (kw, p) ∈ actionAlts pf) : kw ∈ actionKws := by
  rw [← actionKws_eq pf]; exact List.mem_map_of_mem (f := Prod.fst) hm

theorem app_head {kw : Text} (x : Text) (h : ∃ c r, kw = c :: r ∧ isBlank c = false) :
    ∃ c r, kw ++ x = c :: r ∧ isBlank c = false := by
  obtain ⟨c, r, rfl, hc⟩ := h
  exact ⟨c, r ++ x, rfl, hc⟩

/-- Every test keyword without argument, followed by the end, a blank or punctuation. -/
theorem writes_test_nullary (pf : Profile) (kw : Text) (t : Test) (hm : (kw, value t (lit kw)) ∈ testAlts pf) :
    Writes pf Follows (.test t) kw :=
  ⟨kw_head _ testKws_head kw (testKw_mem hm), fun tail hf => ⟨tail, C05_test_nullary pf kw t hm tail hf, rfl⟩⟩

/-- Every action keyword without argument. -/
theorem writes_action_nullary (pf : Profile) (kw : Text) (a : Action)
    (hm : (kw, value a (terminated (lit kw) multispace0)) ∈ actionAlts pf) :
    Writes pf Follows (.action a) kw :=
  ⟨kw_head _ actionKws_head kw (actionKw_mem hm),
   fun tail hf => ⟨tail.dropWhile isBlank, C05_action_nullary pf kw a hm tail hf, dropWhile_idem tail⟩⟩

/-- `a` is a way to write the argument value `v` for the argument reader `argp`. -/
def ArgWrites {α : Type} (argp : P Char α) (ok : Text → Prop) (v : α) (a : Text) : Prop :=
  (∃ c r, a = c :: r ∧ isBlank c = false) ∧
  ∀ tail, ok tail → ∃ r, argp (a ++ tail) = .ok v r ∧ r.dropWhile isBlank = tail.dropWhile isBlank

theorem blankRun_arg {ws a tail : Text} (hne : ws ≠ []) (hws : ∀ c ∈ ws, isBlank c = true)
    (ha : ∃ c r, a = c :: r ∧ isBlank c = false) : BlankRun ws (a ++ tail) := by
  obtain ⟨c, r, rfl, hc⟩ := ha
  exact ⟨hne, hws, Or.inr ⟨c, r ++ tail, rfl, hc⟩⟩

/-- Every test keyword with one argument: keyword, ANY non-empty blank run, any spelling of the argument. -/
theorem writes_test_unary {α : Type} (pf : Profile) (kw : Text) (tr : α → Test) (argp : P Char α)
    (hm : (kw, unary kw tr argp) ∈ testAlts pf) (ws a : Text) (ok : Text → Prop) (v : α)
    (hne : ws ≠ []) (hws : ∀ c ∈ ws, isBlank c = true) (ha : ArgWrites argp ok v a) :
    Writes pf ok (.test (tr v)) (kw ++ (ws ++ a)) := by
  refine ⟨app_head _ (kw_head _ testKws_head kw (testKw_mem hm)), fun tail hok => ?_⟩
  obtain ⟨r, hr, hd⟩ := ha.2 tail hok
  refine ⟨r, ?_, hd⟩
  have := C05_test_unary pf kw tr argp hm ws (a ++ tail) (blankRun_arg hne hws ha.1)
  simp only [List.append_assoc]
  rw [this, hr]

/-- Every action keyword with one argument. -/
theorem writes_action_unary {α : Type} (pf : Profile) (kw : Text) (tr : α → Action) (argp : P Char α)
    (hm : (kw, unary kw tr argp) ∈ actionAlts pf) (ws a : Text) (ok : Text → Prop) (v : α)
    (hne : ws ≠ []) (hws : ∀ c ∈ ws, isBlank c = true) (ha : ArgWrites argp ok v a) :
    Writes pf ok (.action (tr v)) (kw ++ (ws ++ a)) := by
  refine ⟨app_head _ (kw_head _ actionKws_head kw (actionKw_mem hm)), fun tail hok => ?_⟩
  obtain ⟨r, hr, hd⟩ := ha.2 tail hok
  refine ⟨r, ?_, hd⟩
  have := C05_action_unary pf kw tr argp hm ws (a ++ tail) (blankRun_arg hne hws ha.1)
  simp only [List.append_assoc]
  rw [this, hr]

/-- Words: bare (up to a blank, `)` or the end), single-quoted, double-quoted (then anything may follow). -/
theorem argWrites_word (s : Text) (hne : s ≠ []) :
    ((∀ c ∈ s, isWordChar c = true) → (∀ c r, s = c :: r → c ≠ '"' ∧ c ≠ '\'') → ArgWrites parseString WordStop s s) ∧
    ((∀ c ∈ s, c ≠ '\'') → ArgWrites parseString (fun _ => True) s ('\'' :: (s ++ [('\'')]))) ∧
    ((∀ c ∈ s, c ≠ '"') → ArgWrites parseString (fun _ => True) s ('"' :: (s ++ ['"']))) := by
  refine ⟨fun h1 h2 => ⟨?_, fun tail ht => ⟨tail, (C05_word_styles s tail hne).2.2 h1 h2 ht, rfl⟩⟩,
          fun h => ⟨⟨'\'', _, rfl, by decide⟩, fun tail _ => ⟨tail, ?_, rfl⟩⟩,
          fun h => ⟨⟨'"', _, rfl, by decide⟩, fun tail _ => ⟨tail, ?_, rfl⟩⟩⟩
  · cases s with
    | nil => exact absurd rfl hne
    | cons c r =>
      refine ⟨c, r, rfl, ?_⟩
      have := h1 c (by simp)
      simp only [isWordChar, Bool.and_eq_true, Bool.not_eq_true'] at this
      exact this.1
  · have := (C05_word_styles s tail hne).2.1 h
    simpa [List.append_assoc] using this
  · have := (C05_word_styles s tail hne).1 h
    simpa [List.append_assoc] using this

/-- Numbers: `N`, `+N`, `-N` with any number of leading zeros, below the bound of the field. -/
theorem argWrites_number (bound : Nat) (ds : Text) (hne : ds ≠ []) (hd : ∀ c ∈ ds, isDigit c = true)
    (hb : decVal ds < bound) :
    ArgWrites (compFormat (parseUint bound)) DigitStop (.eq (decVal ds)) ds ∧
    ArgWrites (compFormat (parseUint bound)) DigitStop (.gt (decVal ds)) ('+' :: ds) ∧
    ArgWrites (compFormat (parseUint bound)) DigitStop (.lt (decVal ds)) ('-' :: ds) := by
  refine ⟨⟨?_, fun tail ht => ⟨tail, (C07_comparison bound ds tail hne hd ht hb).2.2, rfl⟩⟩,
          ⟨⟨'+', ds, rfl, by decide⟩, fun tail ht => ⟨tail, (C07_comparison bound ds tail hne hd ht hb).1, rfl⟩⟩,
          ⟨⟨'-', ds, rfl, by decide⟩, fun tail ht => ⟨tail, (C07_comparison bound ds tail hne hd ht hb).2.1, rfl⟩⟩⟩
  cases ds with
  | nil => exact absurd rfl hne
  | cons c r =>
    refine ⟨c, r, rfl, ?_⟩
    have h1 := hd c (by simp)
    cases hc : isBlank c with
    | false => rfl
    | true =>
      simp only [isBlank, Bool.or_eq_true, decide_eq_true_eq] at hc
      rcases hc with ((rfl | rfl) | rfl) | rfl <;> simp [isDigit] at h1

/-- Format arguments (`-printf`): any quoting of a format the reference scanner segments. -/
theorem argWrites_format (pf : Profile) (fmt : Text) (els : List FormatElement) (hne : fmt ≠ [])
    (hseg : Spec.Printf.seg fmt = some els) :
    ((∀ c ∈ fmt, c ≠ '\'') → ArgWrites (formatArg pf) (fun _ => True) els ('\'' :: (fmt ++ ['\'']))) ∧
    ((∀ c ∈ fmt, c ≠ '"') → ArgWrites (formatArg pf) (fun _ => True) els ('"' :: (fmt ++ ['"']))) := by
  have hfmt := C14 pf fmt
  rw [hseg] at hfmt
  refine ⟨fun h => ⟨⟨'\'', _, rfl, by decide⟩, fun tail _ => ⟨tail, ?_, rfl⟩⟩,
          fun h => ⟨⟨'"', _, rfl, by decide⟩, fun tail _ => ⟨tail, ?_, rfl⟩⟩⟩
  · have hq := quoteDelimiter_sq fmt tail hne h
    simp only [List.cons_append, List.append_assoc, List.nil_append]
    simp [formatArg, andThen, hq, hfmt]
  · have hq := quoteDelimiter_dq fmt tail hne h
    simp only [List.cons_append, List.append_assoc, List.nil_append]
    simp [formatArg, andThen, hq, hfmt]

/-- The options, wherever they stand: `-depth`, and `-threads N` after any non-empty blank run. -/
theorem writes_depth (pf : Profile) : Writes pf Follows (.global .depth) (cl!"-depth") := by
  refine ⟨⟨'-', _, rfl, by decide⟩, fun tail hf => ⟨tail, ?_, rfl⟩⟩
  apply (token_global pf (cl!"-depth") (by simp [globalKws]) tail hf).1
  simp [parseGlobal, context, alt, alt2, value, map, lit, isPrefix]

theorem value_lit_bt {α : Type} (kw : Text) (a : α) (i : Text) (h : isPrefix kw i = false) : Bt (value a (lit kw)) i :=
  ⟨[], i, by simp [value, map, lit_fail kw i h]⟩

theorem writes_threads (pf : Profile) (ws ds : Text) (hne : ws ≠ []) (hws : ∀ c ∈ ws, isBlank c = true)
    (hd0 : ds ≠ []) (hd : ∀ c ∈ ds, isDigit c = true) (hb : decVal ds < 2 ^ 32) :
    Writes pf DigitStop (.global (.threads (decVal ds))) (cl!"-threads" ++ (ws ++ ds)) := by
  have hhead : ∃ c r, ds = c :: r ∧ isBlank c = false := by
    cases ds with
    | nil => exact absurd rfl hd0
    | cons c r =>
      refine ⟨c, r, rfl, ?_⟩
      have h1 := hd c (by simp)
      cases hc : isBlank c with
      | false => rfl
      | true =>
        simp only [isBlank, Bool.or_eq_true, decide_eq_true_eq] at hc
        rcases hc with ((rfl | rfl) | rfl) | rfl <;> simp [isDigit] at h1
  refine ⟨⟨'-', _, rfl, by decide⟩, fun tail ht => ⟨tail, ?_, rfl⟩⟩
  have hbr : BlankRun ws (ds ++ tail) := blankRun_arg hne hws hhead
  have hf : Follows (ws ++ (ds ++ tail)) := follows_blankrun hbr
  have hread : parseU32 (ds ++ tail) = .ok (decVal ds) tail := by
    have := C07_read (2 ^ 32) ds tail hd0 hd ht
    simpa [parseU32, hb] using this
  have hu := unary_eval (cl!"-threads") GlobalOption.threads parseU32 ws (ds ++ tail) hbr
  rw [hread] at hu
  have hpg : parseGlobal (cl!"-threads" ++ (ws ++ (ds ++ tail))) = .ok (.threads (decVal ds)) tail := by
    have hskip : alt [ value GlobalOption.depth (lit (cl!"-depth")),
        unary (cl!"-maxdepth") GlobalOption.maxDepth unsupportedOptionArg,
        unary (cl!"-mindepth") GlobalOption.minDepth unsupportedOptionArg,
        unary (cl!"-threads") GlobalOption.threads parseU32 ] (cl!"-threads" ++ (ws ++ (ds ++ tail)))
        = alt [unary (cl!"-threads") GlobalOption.threads parseU32] (cl!"-threads" ++ (ws ++ (ds ++ tail))) :=
      alt_skip
        [ value GlobalOption.depth (lit (cl!"-depth")),
          unary (cl!"-maxdepth") GlobalOption.maxDepth unsupportedOptionArg,
          unary (cl!"-mindepth") GlobalOption.minDepth unsupportedOptionArg ]
        (unary (cl!"-threads") GlobalOption.threads parseU32) []
        (cl!"-threads" ++ (ws ++ (ds ++ tail))) (by
          intro q hq
          simp only [List.mem_cons, List.mem_nil_iff, or_false] at hq
          rcases hq with rfl | rfl | rfl
          · exact value_lit_bt _ _ _ (not_prefix_of_append _ (cl!"-threads") _ (by decide) (by decide))
          · exact unary_bt _ _ _ _ (not_prefix_of_append _ (cl!"-threads") _ (by decide) (by decide))
          · exact unary_bt _ _ _ _ (not_prefix_of_append _ (cl!"-threads") _ (by decide) (by decide)))
    unfold parseGlobal
    simp only [context]
    rw [hskip]
    simp only [alt]
    rw [hu]
  have := (token_global pf (cl!"-threads") (by simp [globalKws]) (ws ++ (ds ++ tail)) hf).1 _ _ hpg
  simpa [List.append_assoc] using this

/-! Non-vacuity: a layout with mixed blanks, glued parentheses, a quoted word, a number with leading
    zeros, a leading and a misplaced option — and the theorem applied to it. -/
example : Layout .debug
    ([Token.global (.threads 4)] ++
      [Token.lparen, .test (.name (cl!"x y")), .or, .test (.userId (.gt 7)), .rparen, .global .depth, .action .print])
    (cl!"-threads\t04 (-name 'x y'\r\n-or -uid +007)-depth  -print") := by
  have w1 := writes_threads .debug (cl!"\t") (cl!"04") (by simp) (by decide) (by simp) (by decide) (by decide)
  have w3 := writes_test_unary .debug (cl!"-name") Test.name parseString (by simp [testAlts]) (cl!" ") (cl!"'x y'")
    (fun _ => True) (cl!"x y") (by simp) (by decide) ((argWrites_word (cl!"x y") (by simp)).2.1 (by decide))
  have w5 := writes_test_unary .debug (cl!"-uid") Test.userId cmpU32 (by simp [testAlts]) (cl!" ") (cl!"+007")
    DigitStop (.gt 7) (by simp) (by decide)
    ((argWrites_number (2 ^ 32) (cl!"007") (by simp) (by decide) (by decide)).2.1)
  have w8 := writes_action_nullary .debug (cl!"-print") Action.print (by simp [actionAlts])
  exact .cons (ws := cl!" ") w1 (by decide) (Or.inr ⟨' ', _, rfl, by decide⟩)
    (.cons (ws := []) (writes_punct .debug).1 (by simp) trivial
    (.cons (ws := cl!"\r\n") w3 (by decide) trivial
    (.cons (ws := cl!" ") (writes_operator .debug).2.2.2 (by decide) (Or.inr ⟨' ', _, rfl, by decide⟩)
    (.cons (ws := []) w5 (by simp) (Or.inr ⟨')', _, rfl, by decide⟩)
    (.cons (ws := []) (writes_punct .debug).2.1 (by simp) trivial
    (.cons (ws := cl!"  ") (writes_depth .debug) (by decide) (Or.inr ⟨' ', _, rfl, by decide⟩)
    (.cons (ws := []) w8 (by simp) (Or.inl rfl) .nil)))))))

example : parse .debug (cl!" -threads\t04 (-name 'x y'\r\n-or -uid +007)-depth  -print") =
    .ok { depth := true, threads := some 4 }
      (.and (.and (.or (.test (.name (cl!"x y"))) (.test (.userId (.gt 7)))) (.test .true_)) (.action .print)) := by decide

end FV
