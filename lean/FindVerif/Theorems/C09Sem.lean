import FindVerif.Theorems.C02
import FindVerif.Theorems.C09
/-
  C09, semantic half (on top of C02): for a tree without any action, the compiled policy run on a
  file writes exactly one record — the file's path, newline-terminated, on standard output — when
  the expression is true of the file, and nothing when it is false; with an action in the tree the
  policy's outputs are exactly those of the written actions (find's rules for the tree itself).
-/
namespace FV
open Scheme Spec

/-- A tree without actions produces no output and never asks to stop. -/
theorem noAction_outcome (rt : Rt) (now : Nat) : ∀ (e : Expr) (f : File), e.hasAction = false →
    (∃ b, evalFind rt now e f = .done b []) ∨ evalFind rt now e f = .undefined := by
  intro e
  induction e with
  | test t => intro f _; simp only [evalFind]; cases testHolds rt now t f <;> simp
  | action a => intro f h; simp [Expr.hasAction] at h
  | global g => intro f _; right; rfl
  | positional p => intro f _; right; rfl
  | prec e ih => intro f h; simp only [evalFind]; exact ih f (by simpa [Expr.hasAction] using h)
  | not e ih =>
    intro f h
    simp only [evalFind]
    rcases ih f (by simpa [Expr.hasAction] using h) with ⟨b, hb⟩ | hu
    · left; exact ⟨!b, by rw [hb]; rfl⟩
    · right; rw [hu]; rfl
  | and a b iha ihb =>
    intro f h
    simp only [Expr.hasAction, Bool.or_eq_false_iff] at h
    simp only [evalFind]
    rcases iha f h.1 with ⟨x, hx⟩ | hu
    · rw [hx]
      cases x with
      | false => left; exact ⟨false, rfl⟩
      | true =>
        rcases ihb f h.2 with ⟨y, hy⟩ | hu
        · left; exact ⟨y, by rw [hy]; rfl⟩
        · right; rw [hu]; rfl
    · right; rw [hu]; rfl
  | list a b iha ihb =>
    intro f h
    simp only [Expr.hasAction, Bool.or_eq_false_iff] at h
    simp only [evalFind]
    rcases iha f h.1 with ⟨x, hx⟩ | hu
    · rw [hx]
      cases x with
      | false => left; exact ⟨false, rfl⟩
      | true =>
        rcases ihb f h.2 with ⟨y, hy⟩ | hu
        · left; exact ⟨y, by rw [hy]; rfl⟩
        · right; rw [hu]; rfl
    · right; rw [hu]; rfl
  | or a b iha ihb =>
    intro f h
    simp only [Expr.hasAction, Bool.or_eq_false_iff] at h
    simp only [evalFind]
    rcases iha f h.1 with ⟨x, hx⟩ | hu
    · rw [hx]
      cases x with
      | true => left; exact ⟨true, rfl⟩
      | false =>
        rcases ihb f h.2 with ⟨y, hy⟩ | hu
        · left; exact ⟨y, by rw [hy]; rfl⟩
        · right; rw [hu]; rfl
    · right; rw [hu]; rfl

/-- No action anywhere: the compiled policy prints the path of exactly the files for which the
    whole expression is true. -/
theorem C09_prints_exactly_when_true (rt : Rt) (file : File) (clk : Nat → Nat) (now : Nat) (e : Expr) (ps : ProgramS)
    (hclk : ∀ i, clk i = now) (hc : compileS clk e = .ok ps) (htags : TagsAreChars ps)
    (hna : e.hasAction = false) (b : Bool) (hb : evalFind rt now e file = .done b []) :
    runPolicy rt file ps.ioMap ps.bindings ps.body =
      .outcome (.done b (if b then [⟨.stdout, file.relPath, some '\n'⟩] else [])) := by
  have hpt : policyTree e = Expr.and e (.action .defaultPrint) := by simp [policyTree, hna]
  have hev : evalFind rt now (policyTree e) file = .done b (if b then [⟨.stdout, file.relPath, some '\n'⟩] else []) := by
    rw [hpt]
    simp only [evalFind, hb]
    cases b <;> rfl
  rw [← hev]
  exact C02_translation_validity rt file clk now e ps hclk hc htags (by rw [hev]; simp)

/-- An action somewhere: nothing is added — the policy's outcome is find's outcome for the tree
    as written. -/
theorem C09_nothing_added (rt : Rt) (file : File) (clk : Nat → Nat) (now : Nat) (e : Expr) (ps : ProgramS)
    (hclk : ∀ i, clk i = now) (hc : compileS clk e = .ok ps) (htags : TagsAreChars ps)
    (ha : e.hasAction = true) (hdef : evalFind rt now e file ≠ .undefined) :
    runPolicy rt file ps.ioMap ps.bindings ps.body = .outcome (evalFind rt now e file) := by
  have hpt : policyTree e = e := by simp [policyTree, ha]
  have := C02_translation_validity rt file clk now e ps hclk hc htags (by rw [hpt]; exact hdef)
  rwa [hpt] at this

end FV
