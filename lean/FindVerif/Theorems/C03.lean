import FindVerif.Proofs.ParsePlain
import FindVerif.Proofs.ParseProfile
import FindVerif.Theorems.C12
import FindVerif.Driver.Obs
/-
  C03 — totality: every input gets an answer, never a crash or hang (logic part).
  In the model every `unwrap()`, `unreachable!()`, `todo!()`-like arm and every winnow loop guard
  is an explicit `panic` outcome, and every loop runs on fuel.  The theorems say that no panic
  outcome is reachable, for ALL input strings (no 4 KiB bound needed) and both build profiles:
  this is at once "no unwrap on None / unreachable reached", "no repeated parser succeeds
  without consuming" (winnow's debug assertion) and "fuel never runs out" (the Rust loops
  terminate).  What a theorem cannot exhibit — stack depth, allocator aborts, wall-clock hangs —
  is covered by the correspondence run within the property's bounds (see DESIGN.md §7 C03).
-/
namespace FV

/-- Parsing returns a result or an error value; never a panic. -/
theorem C03_parse (pf : Profile) (s : Text) :
    (∃ o e, parse pf s = .ok o e) ∨ (∃ err, parse pf s = .error err) := by
  cases h : parse pf s with
  | ok o e => exact Or.inl ⟨o, e, rfl⟩
  | error err => exact Or.inr ⟨err, rfl⟩
  | panic site => exact absurd h (parse_noPanic pf s site)

/-- Compiling any returned result returns a program or an error value; never a panic
    (in particular the `unreachable!()` arms for option and precedence nodes are unreachable). -/
theorem C03_compile (pf : Profile) (s : Text) (o : RunOptions) (e : Expr) (clk : Nat → Nat)
    (h : parse pf s = .ok o e) :
    (∃ c, compile clk e o = .ok c) ∨ (∃ err, compile clk e o = .err err) := by
  have hp := parse_plain pf s o e h
  have := C12 clk e o hp
  cases hu : Spec.hasUnsupported e with
  | true => exact Or.inr (this.1.mpr hu)
  | false => exact Or.inl (this.2 hu)

/-- Rendering a program and querying the table are total functions of the compiled value (the
    model has no failing branch there), and rendering an error as text never gives the empty text. -/
theorem C03_errtext (err : ParseError) : err.display ≠ [] := by
  cases err <;> simp [ParseError.display]

theorem C03_compile_errtext (err : CompileError) : err.display ≠ [] := by
  cases err <;> simp [CompileError.display]

/-- The loop bodies make progress: winnow's `repeat` guard can never fire (examples of the
    progress lemmas used above, stated for the two top-level loops). -/
theorem C03_progress_lex (pf : Profile) : W.Consumes (W.terminated (token pf) W.multispace0) :=
  (W.strict_terminated_left (strict_token pf) W.good_multispace0).cons

theorem C03_progress_globals : W.Consumes (W.terminated parseGlobal W.multispace0) :=
  (W.strict_terminated_left strict_parseGlobal W.good_multispace0).cons

/-! Non-vacuity: inputs that used to panic are ordinary errors / results in the model. -/
example : (match parse .debug (cl!"-maxdepth 3") with | .error _ => true | _ => false) = true := by decide
example : parse .release (cl!"-size 18446744073709551615w")
    = .ok {} (.test (.size (.eq (.word 18446744073709551615)))) := by decide

end FV
