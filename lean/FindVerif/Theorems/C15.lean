import FindVerif.Model.Compile
import FindVerif.Model.Parse
/-
  C15 — parsing and compiling are deterministic functions of their input (PARTIAL: process-level
  facets by correspondence).  In the model, `parse` and `compile` are functions of (profile, text)
  and of (clock readings, tree, options): there is no other input — no hash order (maps are
  association lists used for lookup only), no global state.  Proved: the clock is read exactly
  once per time test, in traversal order; the i-th time test embeds the i-th reading; nothing else
  depends on the clock.  That the implementation agrees with this model across histories and
  processes (hash seeds!) is what the correspondence run checks.
-/
namespace FV

/-- Number of clock reads: one per time test. -/
def timeTests : Expr → Nat
  | .test (.accessTime _) | .test (.changeTime _) | .test (.modifyTime _) => 1
  | .prec e | .not e => timeTests e
  | .and a b | .or a b | .list a b => timeTests a + timeTests b
  | _ => 0

def isTimeTest : Test → Bool
  | .accessTime _ | .changeTime _ | .modifyTime _ => true
  | _ => false

/-- The i-th time test embeds the i-th clock reading, and advances the counter by one. -/
theorem C15_embedded (clk : Nat → Nat) (st : CState) (c : Comparison TimeSpec) :
    compileTest clk (.accessTime c) st = .ok (compileTimeComp (clk st.reads) (cl!"atime") c, { st with reads := st.reads + 1 }) ∧
    compileTest clk (.changeTime c) st = .ok (compileTimeComp (clk st.reads) (cl!"ctime") c, { st with reads := st.reads + 1 }) ∧
    compileTest clk (.modifyTime c) st = .ok (compileTimeComp (clk st.reads) (cl!"mtime") c, { st with reads := st.reads + 1 }) :=
  ⟨rfl, rfl, rfl⟩

theorem compileTest_clock (clk₁ clk₂ : Nat → Nat) (t : Test) (st : CState) (h : clk₁ st.reads = clk₂ st.reads) :
    compileTest clk₁ t st = compileTest clk₂ t st := by
  cases t <;> simp [compileTest, h]

theorem compileTest_reads (clk : Nat → Nat) (t : Test) (st st' : CState) (txt : Text)
    (h : compileTest clk t st = .ok (txt, st')) : st'.reads = st.reads + (if isTimeTest t then 1 else 0) := by
  cases t <;> simp only [compileTest] at h
  all_goals first
    | (cases h; rfl)
    | (split at h <;> cases h <;> rfl)
    | (split at h <;> cases h)

theorem compileAction_reads (a : Action) (st st' : CState) (txt : Text)
    (h : compileAction a st = .ok (txt, st')) : st'.reads = st.reads := by
  cases a <;> simp only [compileAction] at h
  all_goals first
    | (cases h; rfl)
    | (split at h <;> first | (cases h; rfl) | cases h)
    | cases h

/-- Code generation depends on the clock only through the readings it consumes. -/
theorem compileExpr_clock (clk₁ clk₂ : Nat → Nat) : ∀ (e : Expr) (st : CState),
    (∀ i, st.reads ≤ i → i < st.reads + timeTests e → clk₁ i = clk₂ i) →
    compileExpr clk₁ e st = compileExpr clk₂ e st ∧
    (∀ txt st', compileExpr clk₁ e st = .ok (txt, st') → st'.reads = st.reads + timeTests e) := by
  intro e
  induction e with
  | test t =>
    intro st h
    simp only [compileExpr]
    refine ⟨?_, ?_⟩
    · cases t <;> first
        | rfl
        | exact compileTest_clock _ _ _ _ (h _ (Nat.le_refl _) (by simp [timeTests]))
    · intro txt st' hc
      have := compileTest_reads clk₁ t st st' txt hc
      cases t <;> simpa [timeTests, isTimeTest] using this
  | action a =>
    intro st _
    simp only [compileExpr]
    exact ⟨trivial, fun txt st' hc => by simpa [timeTests] using compileAction_reads a st st' txt hc⟩
  | global g => intro st _; simp [compileExpr]
  | positional p => intro st _; simp [compileExpr]
  | prec e _ => intro st _; simp [compileExpr]
  | not e ih =>
    intro st h
    have := ih st (by simpa [timeTests] using h)
    simp only [compileExpr, this.1]
    refine ⟨trivial, fun txt st' hc => ?_⟩
    cases h1 : compileExpr clk₂ e st with
    | ok r =>
      obtain ⟨t1, s1⟩ := r
      rw [h1] at hc; simp at hc
      have := this.2 t1 s1 (by rw [this.1, h1])
      rw [← hc.2]; simpa [timeTests] using this
    | err x => rw [h1] at hc; simp at hc
    | panic s => rw [h1] at hc; simp at hc
  | and a b iha ihb => intro st h; exact bin clk₁ clk₂ a b iha ihb st _ (by simpa [timeTests] using h)
  | list a b iha ihb => intro st h; exact bin clk₁ clk₂ a b iha ihb st _ (by simpa [timeTests] using h)
  | or a b iha ihb => intro st h; exact bin clk₁ clk₂ a b iha ihb st _ (by simpa [timeTests] using h)
where
  bin (clk₁ clk₂ : Nat → Nat) (a b : Expr)
      (iha : ∀ st : CState, (∀ i, st.reads ≤ i → i < st.reads + timeTests a → clk₁ i = clk₂ i) →
        compileExpr clk₁ a st = compileExpr clk₂ a st ∧
        (∀ txt st', compileExpr clk₁ a st = .ok (txt, st') → st'.reads = st.reads + timeTests a))
      (ihb : ∀ st : CState, (∀ i, st.reads ≤ i → i < st.reads + timeTests b → clk₁ i = clk₂ i) →
        compileExpr clk₁ b st = compileExpr clk₂ b st ∧
        (∀ txt st', compileExpr clk₁ b st = .ok (txt, st') → st'.reads = st.reads + timeTests b))
      (st : CState) (hd : Text)
      (h : ∀ i, st.reads ≤ i → i < st.reads + (timeTests a + timeTests b) → clk₁ i = clk₂ i) :
      compileExpr.bin hd (compileExpr clk₁ a st) (compileExpr clk₁ b) = compileExpr.bin hd (compileExpr clk₂ a st) (compileExpr clk₂ b) ∧
      (∀ txt st', compileExpr.bin hd (compileExpr clk₁ a st) (compileExpr clk₁ b) = .ok (txt, st') →
        st'.reads = st.reads + (timeTests a + timeTests b)) := by
    have ha := iha st (fun i h1 h2 => h i h1 (by omega))
    simp only [compileExpr.bin, ← ha.1]
    cases h1 : compileExpr clk₁ a st with
    | ok r =>
      obtain ⟨t1, s1⟩ := r
      have hr := ha.2 t1 s1 h1
      have hb := ihb s1 (fun i h1' h2 => h i (by omega) (by omega))
      simp only [← hb.1]
      refine ⟨trivial, fun txt st' hc => ?_⟩
      cases h2 : compileExpr clk₁ b s1 with
      | ok r2 =>
        obtain ⟨t2, s2⟩ := r2
        rw [h2] at hc; simp at hc
        have := hb.2 t2 s2 h2
        rw [← hc.2]; omega
      | err x => rw [h2] at hc; simp at hc
      | panic s => rw [h2] at hc; simp at hc
    | err x => simp
    | panic s => simp

/-- Compiling equal inputs gives equal results except for the embedded clock: two clocks that
    agree on the readings actually consumed give identical results; without a time test the
    clock does not matter at all. -/
theorem C15_clock_only (clk₁ clk₂ : Nat → Nat) (e : Expr) (o : RunOptions)
    (h : ∀ i, i < timeTests e → clk₁ i = clk₂ i) : compile clk₁ e o = compile clk₂ e o := by
  simp only [compile]
  have key : ∀ target : Expr, timeTests target = timeTests e → ∀ m : Manager,
      compileExpr clk₁ target { mgr := m } = compileExpr clk₂ target { mgr := m } := by
    intro target ht m
    exact (compileExpr_clock clk₁ clk₂ target { mgr := m } (by
      intro i _ hi; simp at hi; exact h i (by omega))).1
  by_cases ha : e.hasAction = true
  · simp only [ha, Bool.not_true, Bool.false_eq_true, if_false, key e rfl]
  · have ha' : e.hasAction = false := by simpa using ha
    simp only [ha', Bool.not_false, if_true, key (Expr.and e (.action .defaultPrint)) (by simp [timeTests])]

theorem C15_no_time_test (clk₁ clk₂ : Nat → Nat) (e : Expr) (o : RunOptions) (h : timeTests e = 0) :
    compile clk₁ e o = compile clk₂ e o :=
  C15_clock_only clk₁ clk₂ e o (fun i hi => by omega)

/-- Parsing is a function of the text alone (stated for completeness: the model has no state). -/
theorem C15_parse_function (pf : Profile) (s₁ s₂ : Text) (h : s₁ = s₂) : parse pf s₁ = parse pf s₂ := by rw [h]

example : timeTests (.and (.test (.accessTime (.eq (.minute 5)))) (.not (.test (.modifyTime (.gt (.day 1)))))) = 2 := by decide

end FV
