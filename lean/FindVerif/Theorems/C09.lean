import FindVerif.Theorems.C10
/-
  C09 — implicit print is added exactly when no action is present.
  Structure of the emitted policy body in the model of `scheme::compile`, for every tree:
  without an action anywhere the body is `(and <expression> (print-relative-path))` — the
  expression as one operand, i.e. `( expression ) -a print` — and the wrapper registers no
  resource; with an action at any depth (under negation, in a dead branch, right of OR or `,`)
  the body is the expression's own code and nothing is added.  What the body *computes* is C02.
-/
namespace FV
open Spec

theorem C09_wrap (clk : Nat → Nat) (e : Expr) (o : RunOptions) (c : Compiled)
    (h : compile clk e o = .ok c) (hna : ¬ ContainsAction e) :
    ∃ body st, compileExpr clk e { mgr := initialManager e } = .ok (body, st) ∧
      c.policyBody = cl!"(and " ++ body ++ cl!" " ++ cl!"(print-relative-path)" ++ cl!")" ∧
      c.definitions = st.mgr.definitions ∧ c.ioMap = st.mgr.printerMap := by
  have hna' : e.hasAction = false := by
    cases hh : e.hasAction with
    | false => rfl
    | true => exact absurd ((C19_action e).mp hh) hna
  simp only [compile, hna', Bool.not_false, if_true] at h
  simp only [compileExpr, compileExpr.bin] at h
  cases h1 : compileExpr clk e { mgr := if e.complexFrames = true then Manager.distInit else Manager.localInit } with
  | ok r =>
    obtain ⟨body, st⟩ := r
    rw [h1] at h
    simp only [compileAction] at h
    cases h
    exact ⟨body, st, by simpa [initialManager] using h1, rfl, rfl, rfl⟩
  | err x => rw [h1] at h; simp at h
  | panic s => rw [h1] at h; simp at h

theorem C09_nowrap (clk : Nat → Nat) (e : Expr) (o : RunOptions) (c : Compiled)
    (h : compile clk e o = .ok c) (ha : ContainsAction e) :
    ∃ st, compileExpr clk e { mgr := initialManager e } = .ok (c.policyBody, st) ∧
      c.definitions = st.mgr.definitions ∧ c.ioMap = st.mgr.printerMap := by
  have ha' : e.hasAction = true := (C19_action e).mpr ha
  simp only [compile, ha', Bool.not_true, Bool.false_eq_true, if_false] at h
  cases h1 : compileExpr clk e { mgr := if e.complexFrames = true then Manager.distInit else Manager.localInit } with
  | ok r =>
    obtain ⟨body, st⟩ := r
    rw [h1] at h
    cases h
    exact ⟨st, by simpa [initialManager] using h1, rfl, rfl⟩
  | err x => rw [h1] at h; simp at h
  | panic s => rw [h1] at h; simp at h

/-! Non-vacuity. -/
example : ¬ ContainsAction (.or (.test .true_) (.not (.test (.name ['x'])))) := by rw [← C19_action]; decide
example : ∃ c, compile (fun _ => 0) (.test .true_) {} = .ok c ∧ c.policyBody = cl!"(and #t (print-relative-path))" := by
  simp [compile, Expr.complexFrames, Expr.hasAction, compileExpr, compileExpr.bin, compileTest, compileAction]

end FV
