import FindVerif.Theorems.C06Layout
import FindVerif.Theorems.C08
/-
  More spellings for the layout theorem (C06_layout): the argument readers for sizes, times and
  octal permission modes, and the lifting of any reader through the `N / +N / -N` comparison form.
-/
namespace FV
open W Spec

/-- After a size or time count: the end, or a character that is neither a digit nor a letter. -/
def CountStop (tail : Text) : Prop := tail = [] ∨ ∃ c r, tail = c :: r ∧ isDigit c = false ∧ isAlpha c = false

theorem CountStop.digitStop {tail : Text} (h : CountStop tail) : DigitStop tail := by
  rcases h with rfl | ⟨c, r, rfl, h1, _⟩
  · exact Or.inl rfl
  · exact Or.inr ⟨c, r, rfl, h1⟩

theorem digits_head {ds : Text} (hne : ds ≠ []) (hd : ∀ c ∈ ds, isDigit c = true) :
    ∃ c r, ds = c :: r ∧ isBlank c = false ∧ c ≠ '+' ∧ c ≠ '-' := by
  cases ds with
  | nil => exact absurd rfl hne
  | cons c r =>
    have h1 := hd c (by simp)
    refine ⟨c, r, rfl, ?_, ?_, ?_⟩
    · cases hc : isBlank c with
      | false => rfl
      | true =>
        simp only [isBlank, Bool.or_eq_true, decide_eq_true_eq] at hc
        rcases hc with ((rfl | rfl) | rfl) | rfl <;> simp [isDigit] at h1
    · intro h; subst h; simp [isDigit] at h1
    · intro h; subst h; simp [isDigit] at h1

/-- Any reader whose argument text starts with a digit lifts through the comparison form. -/
theorem argWrites_cmp {α : Type} (p : P Char α) (ok : Text → Prop) (v : α) (a : Text)
    (hh : ∃ c r, a = c :: r ∧ isBlank c = false ∧ c ≠ '+' ∧ c ≠ '-') (ha : ArgWrites p ok v a) :
    ArgWrites (compFormat p) ok (.eq v) a ∧ ArgWrites (compFormat p) ok (.gt v) ('+' :: a) ∧
    ArgWrites (compFormat p) ok (.lt v) ('-' :: a) := by
  obtain ⟨c, r, rfl, hb, hp, hm⟩ := hh
  refine ⟨⟨⟨c, r, rfl, hb⟩, fun tail ht => ?_⟩, ⟨⟨'+', _, rfl, by decide⟩, fun tail ht => ?_⟩,
          ⟨⟨'-', _, rfl, by decide⟩, fun tail ht => ?_⟩⟩
  all_goals
    obtain ⟨r', hr, hd⟩ := ha.2 tail ht
    refine ⟨r', ?_, hd⟩
    simp only [List.cons_append] at hr ⊢
  · simp [compFormat, context, alt, alt2, map, preceded, pair, lit, isPrefix, cutErr, hr, hp.symm, hm.symm]
  · simp [compFormat, context, alt, alt2, map, preceded, pair, lit, isPrefix, hr]
  · simp [compFormat, context, alt, alt2, map, preceded, pair, lit, isPrefix, hr]

theorem readU64 (ds tail : Text) (hne : ds ≠ []) (hd : ∀ c ∈ ds, isDigit c = true) (hs : DigitStop tail)
    (hb : decVal ds < 2 ^ 64) : parseU64 (ds ++ tail) = .ok (decVal ds) tail := by
  have := C07_read (2 ^ 64) ds tail hne hd hs
  simpa [parseU64, hb] using this

theorem digits_alpha_bt {β : Type} (inner : P Char β) (ds tail : Text) (hne : ds ≠ [])
    (hd : ∀ c ∈ ds, isDigit c = true) (ht : CountStop tail) :
    Bt (andThen (terminated digit1 alpha1) inner) (ds ++ tail) := by
  obtain ⟨hta, htd⟩ := digit_run ds tail hd ht.digitStop
  have hlen : 1 ≤ ds.length := by cases ds with | nil => exact absurd rfl hne | cons _ _ => simp
  have ha : alpha1 tail = .err false [] tail := by
    rcases ht with rfl | ⟨c, r, rfl, _, h2⟩
    · simp [alpha1, takeWhile]
    · simp [alpha1, takeWhile, List.takeWhile_cons, h2]
  exact ⟨[], tail, by simp [andThen, terminated, map, pair, digit1, takeWhile, hta, htd, hlen, ha]⟩

/-- Sizes: a count with one of the unit letters `b c w k M G T` (then anything may follow), or a
    bare count (512-byte blocks) followed by the end or a non-alphanumeric character. -/
theorem argWrites_size (ds : Text) (hne : ds ≠ []) (hd : ∀ c ∈ ds, isDigit c = true) (hb : decVal ds < 2 ^ 64) :
    (∀ u s, sizeUnit u (decVal ds) = some s → ArgWrites parseSize (fun _ => True) s (ds ++ [u])) ∧
    ArgWrites parseSize CountStop (.block (decVal ds)) ds := by
  obtain ⟨c0, r0, hds, hb0, _, _⟩ := digits_head hne hd
  refine ⟨fun u s hu => ⟨⟨c0, r0 ++ [u], by simp [hds], hb0⟩, fun tail _ => ⟨tail, ?_, rfl⟩⟩,
          ⟨⟨c0, r0, hds, hb0⟩, fun tail ht => ⟨tail, ?_, rfl⟩⟩⟩
  · have hunit : isSizeUnit u = true ∧ isDigit u = false := by
      simp only [sizeUnit] at hu
      split at hu
      · subst_vars; decide
      · split at hu
        · subst_vars; decide
        · split at hu
          · subst_vars; decide
          · split at hu
            · subst_vars; decide
            · split at hu
              · subst_vars; decide
              · split at hu
                · subst_vars; decide
                · split at hu
                  · subst_vars; decide
                  · cases hu
    have hr := readU64 ds (u :: tail) hne hd (Or.inr ⟨u, tail, rfl, hunit.2⟩) hb
    simp only [List.append_assoc, List.cons_append, List.nil_append]
    simp [parseSize, context, alt, alt2, mapOrPanic, pair, hr, oneOf, hunit.1, hu]
  · have hr := readU64 ds tail hne hd ht.digitStop hb
    obtain ⟨hta, htd⟩ := digit_run ds tail hd ht.digitStop
    have h1 : pair parseU64 (oneOf isSizeUnit) (ds ++ tail) = .err false [] tail := by
      rcases ht with rfl | ⟨c, r, rfl, h1, h2⟩
      · have hr' : parseU64 ds = .ok (decVal ds) [] := by simpa using hr
        simp [pair, hr', oneOf]
      · have : isSizeUnit c = false := by
          cases hc : isSizeUnit c with
          | false => rfl
          | true =>
            simp only [isSizeUnit, containsChar, List.any_cons, List.any_nil, Bool.or_false, Bool.or_eq_true,
              decide_eq_true_eq] at hc
            rcases hc with rfl | rfl | rfl | rfl | rfl | rfl | rfl <;> simp [isAlpha] at h2
        simp [pair, hr, oneOf, this]
    have h2 := digits_alpha_bt (cutErr (context (expected (cl!"invalid_size_specifier")) (fail : P Char Size)))
      ds tail hne hd ht
    obtain ⟨cc, rr, h2⟩ := h2
    simp [parseSize, context, alt, alt2, mapOrPanic, h1, h2, map, hr]

/-- Times: a count with one of the unit letters `s m h d` (then anything may follow), or a bare
    count in the primary's default unit followed by the end or a non-alphanumeric character. -/
theorem argWrites_time (dflt : Nat → TimeSpec) (ds : Text) (hne : ds ≠ []) (hd : ∀ c ∈ ds, isDigit c = true)
    (hb : decVal ds < 2 ^ 64) :
    (∀ u t, timeUnit u (decVal ds) = some t → ArgWrites (parseTime dflt) (fun _ => True) t (ds ++ [u])) ∧
    ArgWrites (parseTime dflt) CountStop (dflt (decVal ds)) ds := by
  obtain ⟨c0, r0, hds, hb0, _, _⟩ := digits_head hne hd
  refine ⟨fun u t hu => ⟨⟨c0, r0 ++ [u], by simp [hds], hb0⟩, fun tail _ => ⟨tail, ?_, rfl⟩⟩,
          ⟨⟨c0, r0, hds, hb0⟩, fun tail ht => ⟨tail, ?_, rfl⟩⟩⟩
  · have hunit : isTimeUnit u = true ∧ isDigit u = false := by
      simp only [timeUnit] at hu
      split at hu
      · subst_vars; decide
      · split at hu
        · subst_vars; decide
        · split at hu
          · subst_vars; decide
          · split at hu
            · subst_vars; decide
            · cases hu
    have hr := readU64 ds (u :: tail) hne hd (Or.inr ⟨u, tail, rfl, hunit.2⟩) hb
    simp only [List.append_assoc, List.cons_append, List.nil_append]
    simp [parseTime, context, alt, alt2, mapOrPanic, pair, hr, oneOf, hunit.1, hu]
  · have hr := readU64 ds tail hne hd ht.digitStop hb
    have h1 : pair parseU64 (oneOf isTimeUnit) (ds ++ tail) = .err false [] tail := by
      rcases ht with rfl | ⟨c, r, rfl, h1, h2⟩
      · have hr' : parseU64 ds = .ok (decVal ds) [] := by simpa using hr
        simp [pair, hr', oneOf]
      · have : isTimeUnit c = false := by
          cases hc : isTimeUnit c with
          | false => rfl
          | true =>
            simp only [isTimeUnit, containsChar, List.any_cons, List.any_nil, Bool.or_false, Bool.or_eq_true,
              decide_eq_true_eq] at hc
            rcases hc with rfl | rfl | rfl | rfl <;> simp [isAlpha] at h2
        simp [pair, hr, oneOf, this]
    have h2 := digits_alpha_bt (cutErr (context (expected (cl!"invalid_time_specifier")) (fail : P Char TimeSpec)))
      ds tail hne hd ht
    obtain ⟨cc, rr, h2⟩ := h2
    simp [parseTime, context, alt, alt2, mapOrPanic, h1, h2, map, hr]

/-- Octal permission modes, bare: three or more octal digits denoting a mode, with the prefix
    `/` (any), `-` (at least) or none (equal), up to a blank, `)` or the end. -/
theorem argWrites_perm_octal (pf : Profile) (ds : Text) (h3 : 3 ≤ ds.length) (ho : ∀ c ∈ ds, isOct c = true)
    (hm : octVal ds < 4096) :
    ArgWrites (permArg pf) WordStop (.equal (octVal ds)) ds ∧
    ArgWrites (permArg pf) WordStop (.any (octVal ds)) ('/' :: ds) ∧
    ArgWrites (permArg pf) WordStop (.atLeast (octVal ds)) ('-' :: ds) := by
  have hne : ds ≠ [] := by intro h; subst h; simp at h3
  have octWord : ∀ c, isOct c = true → isWordChar c = true ∧ isBlank c = false ∧ c ≠ '"' ∧ c ≠ '\'' ∧ c ≠ '/' ∧ c ≠ '-' := by
    intro c hc
    simp only [isOct, Bool.and_eq_true, decide_eq_true_eq] at hc
    have h1 : '0'.toNat ≤ c.toNat := hc.1
    have h2 : c.toNat ≤ '7'.toNat := hc.2
    have hv : ∀ d : Char, ¬ ('0'.toNat ≤ d.toNat ∧ d.toNat ≤ '7'.toNat) → c ≠ d := by
      intro d hd he; subst he; exact hd ⟨h1, h2⟩
    have b1 := hv ' ' (by decide); have b2 := hv '\t' (by decide); have b3 := hv '\r' (by decide)
    have b4 := hv '\n' (by decide); have b5 := hv ')' (by decide)
    refine ⟨?_, ?_, hv '"' (by decide), hv '\'' (by decide), hv '/' (by decide), hv '-' (by decide)⟩
    · simp [isWordChar, isBlank, b1, b2, b3, b4, b5]
    · simp [isBlank, b1, b2, b3, b4]
  have hperm : parsePermission pf ds = .ok (octVal ds) [] := by
    have ht := takeWhile_all isOct ds ho
    simp [parsePermission, context, alt, alt2, tryMap, takeWhile, ht.1, ht.2, h3, octalMode, hm]
  obtain ⟨c0, r0, rfl⟩ : ∃ c0 r0, ds = c0 :: r0 := by
    cases ds with | nil => exact absurd rfl hne | cons c r => exact ⟨c, r, rfl⟩
  have hc0 := octWord c0 (ho c0 (by simp))
  obtain ⟨hany, hatl, heq⟩ := C08_prefix pf (c0 :: r0) [] (octVal (c0 :: r0)) hperm
  have heq' := heq c0 r0 rfl hc0.2.2.2.2.1 hc0.2.2.2.2.2
  have hw : ∀ c ∈ c0 :: r0, isWordChar c = true := fun c hc => (octWord c (ho c hc)).1
  refine ⟨⟨⟨c0, r0, rfl, hc0.2.1⟩, fun tail ht => ⟨tail, ?_, rfl⟩⟩,
          ⟨⟨'/', _, rfl, by decide⟩, fun tail ht => ⟨tail, ?_, rfl⟩⟩,
          ⟨⟨'-', _, rfl, by decide⟩, fun tail ht => ⟨tail, ?_, rfl⟩⟩⟩
  · have hq := quoteDelimiter_bare (c0 :: r0) tail (by simp) hw
      (by intro c r h; injection h with h1 _; subst h1; exact ⟨hc0.2.2.1, hc0.2.2.2.1⟩) ht
    simp only [List.cons_append] at hq ⊢
    simp [permArg, andThen, hq, terminated, map, pair, heq', eof]
  · have hq := quoteDelimiter_bare ('/' :: c0 :: r0) tail (by simp)
      (by intro c hc; rcases List.mem_cons.mp hc with rfl | hc; decide; exact hw c hc)
      (by intro c r h; injection h with h1 _; subst h1; decide) ht
    simp only [List.cons_append] at hq ⊢
    simp [permArg, andThen, hq, terminated, map, pair, hany, eof]
  · have hq := quoteDelimiter_bare ('-' :: c0 :: r0) tail (by simp)
      (by intro c hc; rcases List.mem_cons.mp hc with rfl | hc; decide; exact hw c hc)
      (by intro c r h; injection h with h1 _; subst h1; decide) ht
    simp only [List.cons_append] at hq ⊢
    simp [permArg, andThen, hq, terminated, map, pair, hatl, eof]

/-! ### two-argument keywords -/

theorem binary_eval_ok {α β γ : Type} (kw : Text) (tr : α × β → γ) (l : P Char α) (r : P Char β) (args : Text)
    (ws1 x ws2 y rest : Text) (v1 : α) (v2 : β) (h1 : BlankRun ws1 x) (hl : l x = .ok v1 (ws2 ++ y))
    (h2 : BlankRun ws2 y) (hr : r y = .ok v2 rest) :
    binary kw tr l r args (kw ++ (ws1 ++ x)) = .ok (tr (v1, v2)) rest := by
  simp only [binary, map, context, preceded, pair, separatedPair, lit_append, cutErr, multispace1_run ws1 x h1, hl,
    multispace1_run ws2 y h2, hr]

theorem argWrites_context {α : Type} (c : Ctx) (p : P Char α) (ok : Text → Prop) (v : α) (a : Text)
    (h : ArgWrites p ok v a) : ArgWrites (context c p) ok v a := by
  refine ⟨h.1, fun tail ht => ?_⟩
  obtain ⟨r, hr, hd⟩ := h.2 tail ht
  exact ⟨r, by simp [context, hr], hd⟩

/-- The first of two arguments is read exactly up to the blank run that separates it from the second. -/
def ArgExact {α : Type} (p : P Char α) (v : α) (a : Text) : Prop :=
  (∃ c r, a = c :: r ∧ isBlank c = false) ∧
  ∀ tail, (∃ c r, tail = c :: r ∧ isBlank c = true) → p (a ++ tail) = .ok v tail

theorem argExact_word (s : Text) (hne : s ≠ []) :
    ((∀ c ∈ s, isWordChar c = true) → (∀ c r, s = c :: r → c ≠ '"' ∧ c ≠ '\'') → ArgExact parseString s s) ∧
    ((∀ c ∈ s, c ≠ '\'') → ArgExact parseString s ('\'' :: (s ++ [('\'')]))) ∧
    ((∀ c ∈ s, c ≠ '"') → ArgExact parseString s ('"' :: (s ++ ['"']))) := by
  obtain ⟨hb, hsq, hdq⟩ := argWrites_word s hne
  have stop : ∀ tail, (∃ c r, tail = c :: r ∧ isBlank c = true) → WordStop tail := by
    rintro tail ⟨c, r, rfl, hc⟩
    exact Or.inr ⟨c, r, rfl, by simp [isWordChar, hc]⟩
  refine ⟨fun h1 h2 => ⟨(hb h1 h2).1, fun tail ht => (C05_word_styles s tail hne).2.2 h1 h2 (stop tail ht)⟩,
          fun h => ⟨(hsq h).1, fun tail _ => ?_⟩, fun h => ⟨(hdq h).1, fun tail _ => ?_⟩⟩
  · have := (C05_word_styles s tail hne).2.1 h
    simpa [List.append_assoc] using this
  · have := (C05_word_styles s tail hne).1 h
    simpa [List.append_assoc] using this

theorem argExact_context {α : Type} (c : Ctx) (p : P Char α) (v : α) (a : Text) (h : ArgExact p v a) :
    ArgExact (context c p) v a :=
  ⟨h.1, fun tail ht => by simp [context, h.2 tail ht]⟩

/-- Every two-argument test keyword (`-xattr-match NAME VALUE`): keyword, blanks, first argument,
    blanks, second argument — any non-empty blank runs, any spelling of each argument. -/
theorem writes_test_binary {α β : Type} (pf : Profile) (kw : Text) (tr : α × β → Test) (l : P Char α) (r : P Char β)
    (args : Text) (hm : (kw, binary kw tr l r args) ∈ testAlts pf) (ws1 a1 ws2 a2 : Text) (ok : Text → Prop)
    (v1 : α) (v2 : β) (hn1 : ws1 ≠ []) (hw1 : ∀ c ∈ ws1, isBlank c = true) (hn2 : ws2 ≠ [])
    (hw2 : ∀ c ∈ ws2, isBlank c = true) (h1 : ArgExact l v1 a1) (h2 : ArgWrites r ok v2 a2) :
    Writes pf ok (.test (tr (v1, v2))) (kw ++ (ws1 ++ (a1 ++ (ws2 ++ a2)))) := by
  refine ⟨app_head _ (kw_head _ testKws_head kw (testKw_mem hm)), fun tail hok => ?_⟩
  obtain ⟨rr, hr, hd⟩ := h2.2 tail hok
  refine ⟨rr, ?_, hd⟩
  have hb2 : BlankRun ws2 (a2 ++ tail) := blankRun_arg hn2 hw2 h2.1
  have hb1 : BlankRun ws1 (a1 ++ (ws2 ++ (a2 ++ tail))) := blankRun_arg hn1 hw1 h1.1
  have hl : l (a1 ++ (ws2 ++ (a2 ++ tail))) = .ok v1 (ws2 ++ (a2 ++ tail)) := by
    apply h1.2
    cases ws2 with
    | nil => exact absurd rfl hn2
    | cons c cs => exact ⟨c, cs ++ (a2 ++ tail), rfl, hw2 c (by simp)⟩
  have hev := binary_eval_ok kw tr l r args ws1 _ ws2 _ rr v1 v2 hb1 hl hb2 hr
  have hsel := (token_test pf kw _ hm (ws1 ++ (a1 ++ (ws2 ++ (a2 ++ tail)))) (follows_blankrun hb1)).1 _ _ hev
  simpa [List.append_assoc] using hsel

/-- Every two-argument action keyword (`-fprintf FILE FORMAT`). -/
theorem writes_action_binary {α β : Type} (pf : Profile) (kw : Text) (tr : α × β → Action) (l : P Char α) (r : P Char β)
    (args : Text) (hm : (kw, binary kw tr l r args) ∈ actionAlts pf) (ws1 a1 ws2 a2 : Text) (ok : Text → Prop)
    (v1 : α) (v2 : β) (hn1 : ws1 ≠ []) (hw1 : ∀ c ∈ ws1, isBlank c = true) (hn2 : ws2 ≠ [])
    (hw2 : ∀ c ∈ ws2, isBlank c = true) (h1 : ArgExact l v1 a1) (h2 : ArgWrites r ok v2 a2) :
    Writes pf ok (.action (tr (v1, v2))) (kw ++ (ws1 ++ (a1 ++ (ws2 ++ a2)))) := by
  refine ⟨app_head _ (kw_head _ actionKws_head kw (actionKw_mem hm)), fun tail hok => ?_⟩
  obtain ⟨rr, hr, hd⟩ := h2.2 tail hok
  refine ⟨rr, ?_, hd⟩
  have hb2 : BlankRun ws2 (a2 ++ tail) := blankRun_arg hn2 hw2 h2.1
  have hb1 : BlankRun ws1 (a1 ++ (ws2 ++ (a2 ++ tail))) := blankRun_arg hn1 hw1 h1.1
  have hl : l (a1 ++ (ws2 ++ (a2 ++ tail))) = .ok v1 (ws2 ++ (a2 ++ tail)) := by
    apply h1.2
    cases ws2 with
    | nil => exact absurd rfl hn2
    | cons c cs => exact ⟨c, cs ++ (a2 ++ tail), rfl, hw2 c (by simp)⟩
  have hev := binary_eval_ok kw tr l r args ws1 _ ws2 _ rr v1 v2 hb1 hl hb2 hr
  have hsel := (token_action pf kw _ hm (ws1 ++ (a1 ++ (ws2 ++ (a2 ++ tail)))) (follows_blankrun hb1)).1 _ _ hev
  simpa [List.append_assoc] using hsel

/-! Non-vacuity: both two-argument keywords of the tables are instances. -/
example (pf : Profile) : Writes pf WordStop (.test (.xattrMatch (cl!"user.a") (cl!"v 1")))
    (cl!"-xattr-match \t'user.a'\n\"v 1\"") := by
  have h := writes_test_binary pf (cl!"-xattr-match") (fun (fv : Text × Text) => Test.xattrMatch fv.1 fv.2)
    (context (expected (cl!"attribute")) parseString) (context (expected (cl!"value")) parseString)
    (cl!"attribute_and_value") (by simp [testAlts]) (cl!" \t") (cl!"'user.a'") (cl!"\n") (cl!"\"v 1\"") (fun _ => True)
    (cl!"user.a") (cl!"v 1") (by simp) (by decide) (by simp) (by decide)
    (argExact_context _ _ _ _ ((argExact_word (cl!"user.a") (by simp)).2.1 (by decide)))
    (argWrites_context _ _ _ _ _ ((argWrites_word (cl!"v 1") (by simp)).2.2 (by decide)))
  exact ⟨h.1, fun tail _ => h.2 tail trivial⟩

/-! ### `-type` lists -/

/-- After a type list: the end, or a character that is neither a letter nor a comma. -/
def TypeStop (tail : Text) : Prop := tail = [] ∨ ∃ c r, tail = c :: r ∧ isAlpha c = false ∧ c ≠ ','

/-- `c1,c2,…,cn` for the letters after the first. -/
def typeTail : List Char → Text
  | [] => []
  | c :: cs => ',' :: c :: typeTail cs

theorem fileType_letter (c : Char) (t : FileType) (h : fileTypeOf c = some t) :
    isFileTypeChar c = true ∧ isAlpha c = true ∧ isBlank c = false := by
  simp only [fileTypeOf] at h
  split at h
  · subst_vars; decide
  · split at h
    · subst_vars; decide
    · split at h
      · subst_vars; decide
      · split at h
        · subst_vars; decide
        · split at h
          · subst_vars; decide
          · split at h
            · subst_vars; decide
            · split at h
              · subst_vars; decide
              · cases h

/-- One type letter followed by something that is not a letter. -/
theorem parseFileType_letter (c : Char) (t : FileType) (rest : Text) (h : fileTypeOf c = some t)
    (hr : rest = [] ∨ ∃ d r, rest = d :: r ∧ isAlpha d = false) : parseFileType (c :: rest) = .ok t rest := by
  obtain ⟨h1, h2, _⟩ := fileType_letter c t h
  have htw : (c :: rest).takeWhile isAlpha = [c] := by
    rcases hr with rfl | ⟨d, r, rfl, hd⟩
    · simp [List.takeWhile_cons, h2]
    · simp [List.takeWhile_cons, h2, hd]
  simp [parseFileType, alt, alt2, andThen, takeWhile, htw, mapOrPanic, oneOf, h1, h]

theorem typeTail_head (cs : List Char) (tail : Text) (ht : TypeStop tail) :
    typeTail cs ++ tail = [] ∨ ∃ d r, typeTail cs ++ tail = d :: r ∧ isAlpha d = false := by
  cases cs with
  | nil =>
    rcases ht with rfl | ⟨d, r, rfl, hd, _⟩
    · exact Or.inl rfl
    · exact Or.inr ⟨d, r, rfl, hd⟩
  | cons c cs => exact Or.inr ⟨',', _, rfl, by decide⟩

theorem typeLoop (pf : Profile) : ∀ (cs : List Char) (ts : List FileType) (tail : Text) (fuel : Nat) (acc : List FileType),
    cs.mapM fileTypeOf = some ts → TypeStop tail → (typeTail cs ++ tail).length < fuel →
    separatedLoop pf parseFileType (lit (cl!",")) fuel acc (typeTail cs ++ tail) = .ok (acc.reverse ++ ts) tail
  | [], ts, tail, fuel, acc, hm, ht, hf => by
    obtain ⟨n, rfl⟩ : ∃ n, fuel = n + 1 := ⟨fuel - 1, by omega⟩
    simp at hm; subst hm
    have hsep : lit (cl!",") tail = .err false [] tail := by
      rcases ht with rfl | ⟨d, r, rfl, _, hd⟩
      · simp [lit, isPrefix]
      · simp [lit, isPrefix, Ne.symm hd]
    simp [typeTail, separatedLoop, hsep]
  | c :: cs, ts, tail, fuel, acc, hm, ht, hf => by
    obtain ⟨n, rfl⟩ : ∃ n, fuel = n + 1 := ⟨fuel - 1, by omega⟩
    simp only [List.mapM_cons, Option.bind_eq_bind] at hm
    cases hc : fileTypeOf c with
    | none => simp [hc] at hm
    | some t =>
      cases hcs : cs.mapM fileTypeOf with
      | none => simp [hc, hcs] at hm
      | some ts' =>
        simp [hc, hcs] at hm
        subst hm
        have hsep : lit (cl!",") (',' :: c :: (typeTail cs ++ tail)) = .ok () (c :: (typeTail cs ++ tail)) := by
          simp [lit, isPrefix]
        have hp := parseFileType_letter c t (typeTail cs ++ tail) hc (typeTail_head cs tail ht)
        have ih := typeLoop pf cs ts' tail n (t :: acc) hcs ht (by simp [typeTail] at hf ⊢; omega)
        simp only [typeTail, List.cons_append, separatedLoop, hsep, hp]
        simp only [List.length_cons, Nat.succ_ne_self, if_false] 
        rw [ih]
        simp

/-- Type lists: one or more type letters separated by commas, up to the end or a character that is
    neither a letter nor a comma. -/
theorem argWrites_types (pf : Profile) (c : Char) (cs : List Char) (ts : List FileType)
    (hm : (c :: cs).mapM fileTypeOf = some ts) :
    ArgWrites (parseFileTypes pf) TypeStop ts (c :: typeTail cs) := by
  simp only [List.mapM_cons, Option.bind_eq_bind] at hm
  cases hc : fileTypeOf c with
  | none => simp [hc] at hm
  | some t =>
    cases hcs : cs.mapM fileTypeOf with
    | none => simp [hc, hcs] at hm
    | some ts' =>
      simp [hc, hcs] at hm
      subst hm
      refine ⟨⟨c, _, rfl, (fileType_letter c t hc).2.2⟩, fun tail ht => ⟨tail, ?_, rfl⟩⟩
      have hp := parseFileType_letter c t (typeTail cs ++ tail) hc (typeTail_head cs tail ht)
      have hl := typeLoop pf cs ts' tail ((typeTail cs ++ tail).length + 1) [t] hcs ht (by omega)
      simp only [parseFileTypes, separated1, List.cons_append, hp, hl]
      simp

example : ArgWrites (parseFileTypes .debug) TypeStop [.file, .directory, .link] (cl!"f,d,l") :=
  argWrites_types .debug 'f' ['d', 'l'] _ (by decide)

end FV
