import FindVerif.Proofs.FormatLoop
/-
  C14 — format strings are segmented exactly as the printf mini-language says.
  `parseFormat` is the model of `Vec::<FormatElement>::parse` (nested winnow `repeat` /
  `repeat_till` with backtracking); `Spec.Printf.seg` is the one-pass reference scanner written
  from the documented tables.  For ALL format strings (any length, any characters) and both
  build profiles they agree: same element list with nothing left over, or rejection exactly
  when a `%` is not followed by a documented directive.  Corollaries: the shape properties of
  the segmentation (no empty literal, no two adjacent literals).
-/
namespace FV
open Spec.Printf

/-- The element list returned is the reference segmentation; an undocumented `%` is an error. -/
theorem C14 (pf : Profile) (s : Text) :
    match seg s with
    | some els => parseFormat pf s = .ok els []
    | none => ∃ c r, parseFormat pf s = .err true c r :=
  parseFormat_spec pf s

/-- Every literal of the segmentation is non-empty and no two literals are adjacent. -/
def isLit : FormatElement → Bool
  | .literal _ => true
  | _ => false

def ShapeOk : List FormatElement → Prop
  | [] => True
  | [.literal s] => s ≠ []
  | [_] => True
  | .literal s :: b :: rest => s ≠ [] ∧ isLit b = false ∧ ShapeOk (b :: rest)
  | _ :: b :: rest => ShapeOk (b :: rest)

theorem flush_shape (buf : Text) : flush buf = [] ∨ ∃ s, flush buf = [.literal s] ∧ s ≠ [] := by
  unfold flush
  by_cases h : buf.isEmpty = true
  · simp [h]
  · right
    refine ⟨buf.reverse, by simp [h], ?_⟩
    intro he; simp at he; simp [he] at h

theorem shape_flush_cons (buf : Text) (el : FormatElement) (tl : List FormatElement) (hel : isLit el = false)
    (ht : ShapeOk tl) : ShapeOk (flush buf ++ el :: tl) := by
  have hcons : ShapeOk (el :: tl) := by
    cases tl with
    | nil => cases el <;> simp_all [ShapeOk, isLit]
    | cons b rest => cases el <;> simp_all [ShapeOk, isLit]
  rcases flush_shape buf with h | ⟨s, h, hs⟩
  · rw [h]; simpa using hcons
  · rw [h]
    simp only [List.singleton_append, ShapeOk]
    exact ⟨hs, hel, hcons⟩

theorem segAux_shape : ∀ (fuel : Nat) (buf i : Text) (els : List FormatElement), segAux fuel buf i = some els → ShapeOk els := by
  intro fuel
  induction fuel with
  | zero => intro buf i els h; simp [segAux] at h
  | succ n ih =>
    intro buf i els h
    cases i with
    | nil =>
      simp [segAux] at h
      subst h
      rcases flush_shape buf with h | ⟨s, h, hs⟩
      · simp [h, ShapeOk]
      · simp [h, ShapeOk, hs]
    | cons c cs =>
      simp only [segAux] at h
      by_cases h1 : c = '%'
      · simp only [h1, if_true] at h
        cases hd : directive cs with
        | none => rw [hd] at h; simp at h
        | some fr =>
          obtain ⟨f, rest⟩ := fr
          rw [hd] at h
          simp only at h
          cases hs : segAux n [] rest with
          | none => rw [hs] at h; simp at h
          | some tl =>
            rw [hs] at h; simp at h; subst h
            exact shape_flush_cons buf _ tl rfl (ih [] rest tl hs)
      · by_cases h2 : c = '\\'
        · simp only [h1, h2, if_false, if_true] at h
          cases hs : segAux n [] (escape cs).2 with
          | none => rw [hs] at h; simp at h
          | some tl =>
            rw [hs] at h; simp at h; subst h
            exact shape_flush_cons buf _ tl rfl (ih [] _ tl hs)
        · simp only [h1, h2, if_false] at h
          exact ih (c :: buf) cs els h

/-- Shape of what the parser returns: never an empty literal, never two adjacent literals. -/
theorem C14_shape (pf : Profile) (s : Text) (els : List FormatElement) (r : Text)
    (h : parseFormat pf s = .ok els r) : ShapeOk els ∧ r = [] := by
  have := C14 pf s
  cases hs : seg s with
  | some els' =>
    rw [hs] at this
    rw [this] at h
    cases h
    exact ⟨segAux_shape _ _ _ _ hs, rfl⟩
  | none =>
    rw [hs] at this
    obtain ⟨c, r', hh⟩ := this
    rw [hh] at h; cases h

/-- An octal escape takes exactly three digits; fewer is not an octal escape; a fourth digit is
    ordinary text. -/
example : seg (cl!"\\1012") = some [.special (.ascii 65), .literal ['2']] := by decide
example : seg (cl!"\\10") = some [.special .backslash, .literal ['1', '0']] := by decide
example : seg (cl!"a%pb\\nc%%") = some [.literal ['a'], .field .name, .literal ['b'], .special .newline, .literal ['c'], .field .percent] := by decide
example : seg (cl!"100%q") = none := by decide
example : parseFormat .debug (cl!"\\f%{xattr:ab}") = .ok [.special .form, .field (.xattr ['a', 'b'])] [] := by decide

end FV
