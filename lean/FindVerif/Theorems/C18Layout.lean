import FindVerif.Proofs.LayoutTo
import FindVerif.Theorems.C18
import FindVerif.Theorems.C06Layout
/-
  C18 for whole inputs written as layouts: in front of the primary whose argument is wrong there
  may be ANY layout of ANY token sequence (leading options in any layout included); the error
  names that primary and quotes the word where its reader stopped.
-/
namespace FV
open W Spec

theorem noLead_dropWhile {s : Text} (h : NoLead s) : s.dropWhile isBlank = s := by
  have := dropWhile_blanks_app [] s (by simp) h
  simpa using this

/-- A test whose argument reader fails, behind any layout. -/
theorem C18_layout_test_arg {α : Type} (pf : Profile) (lead s : Text) (gs : List GlobalOption) (pre : List Token)
    (kw : Text) (tr : α → Test) (argp : P Char α) (ws x : Text)
    (hlead : ∀ c ∈ lead, isBlank c = true)
    (hL : LayoutTo pf (kw ++ (ws ++ x)) (gs.map Token.global ++ pre) s)
    (hpre : pre = [] ∨ ∃ t ts', pre = t :: ts' ∧ isGlobalTok t = false)
    (hm : (kw, unary kw tr argp) ∈ testAlts pf) (hb : BlankRun ws x)
    (k : Bool) (cp : List Ctx) (rr : Text) (harg : argp x = .err k cp rr) (hben : Benign cp) :
    parse pf (lead ++ s) = .error (match innerDescription cp with
      | some d => .invalidTestArgument kw (nextWord rr) (explain d)
      | none => .invalidTestUnknown kw (nextWord rr)) := by
  have hkw := testKw_mem hm
  have ht : NoLead (kw ++ (ws ++ x)) := Or.inr (app_head _ (kw_head _ testKws_head kw hkw))
  obtain ⟨s', hlg, hL'⟩ := leadingGlobals_layoutTo pf _ ht (parseGlobal_bt_kw kw (Or.inl hkw) _) lead s gs pre hlead hL hpre
  have hp := hL'.lexPrefix ht
  rw [← noLead_dropWhile (hL'.head ht)] at hp
  exact C18_test_arg pf (lead ++ s) gs s' pre kw tr argp ws x hlg hp hm hb k cp rr harg hben

/-- An action whose argument reader fails, behind any layout. -/
theorem C18_layout_action_arg {α : Type} (pf : Profile) (lead s : Text) (gs : List GlobalOption) (pre : List Token)
    (kw : Text) (tr : α → Action) (argp : P Char α) (ws x : Text)
    (hlead : ∀ c ∈ lead, isBlank c = true)
    (hL : LayoutTo pf (kw ++ (ws ++ x)) (gs.map Token.global ++ pre) s)
    (hpre : pre = [] ∨ ∃ t ts', pre = t :: ts' ∧ isGlobalTok t = false)
    (hm : (kw, unary kw tr argp) ∈ actionAlts pf) (hb : BlankRun ws x)
    (k : Bool) (cp : List Ctx) (rr : Text) (harg : argp x = .err k cp rr) (hben : Benign cp) :
    parse pf (lead ++ s) = .error (match innerDescription cp with
      | some d => .invalidActionArgument kw (nextWord rr) (explain d)
      | none => .invalidActionUnknown kw (nextWord rr)) := by
  have hkw := actionKw_mem hm
  have ht : NoLead (kw ++ (ws ++ x)) := Or.inr (app_head _ (kw_head _ actionKws_head kw hkw))
  obtain ⟨s', hlg, hL'⟩ := leadingGlobals_layoutTo pf _ ht (parseGlobal_bt_kw kw (Or.inr hkw) _) lead s gs pre hlead hL hpre
  have hp := hL'.lexPrefix ht
  rw [← noLead_dropWhile (hL'.head ht)] at hp
  exact C18_action_arg pf (lead ++ s) gs s' pre kw tr argp ws x hlg hp hm hb k cp rr harg hben

/-! Non-vacuity: the hypotheses are met by a concrete input, and the conclusion is what `parse` computes. -/
example : ∃ k cp rr, cmpU32 (cl!"abc") = .err k cp rr ∧ Benign cp ∧ innerDescription cp = some (cl!"unsigned_integer") ∧
    nextWord rr = cl!"abc" :=
  ⟨_, _, _, rfl, benign_of_labels _ (by intro l hl; simp [label, expected] at hl; exact Or.inl hl), by decide, by decide⟩

example : LayoutTo .debug (cl!"-uid" ++ (cl!" " ++ cl!"abc"))
    ([Token.global (.threads 2)] ++ [Token.lparen, .test (.name (cl!"x")), .rparen])
    (cl!"-threads 2 (-name x) -uid abc") := by
  have w1 := writes_threads .debug (cl!" ") (cl!"2") (by simp) (by decide) (by simp) (by decide) (by decide)
  have w3 := writes_test_unary .debug (cl!"-name") Test.name parseString (by simp [testAlts]) (cl!" ") (cl!"x")
    WordStop (cl!"x") (by simp) (by decide) ((argWrites_word (cl!"x") (by simp)).1 (by decide) (by intro c r h; injection h with h1 _; subst h1; decide))
  exact .cons (ws := cl!" ") w1 (by decide) (Or.inr ⟨' ', _, rfl, by decide⟩)
    (.cons (ws := []) (writes_punct .debug).1 (by simp) trivial
    (.cons (ws := []) w3 (by simp) (Or.inr ⟨')', _, rfl, by decide⟩)
    (.cons (ws := cl!" ") (writes_punct .debug).2.1 (by decide) trivial .nil)))

example : parse .debug (cl!"  -threads 2 (-name x) -uid abc") =
    .error (.invalidTestArgument (cl!"-uid") (cl!"abc") (cl!"Expected an unsigned integer")) := by decide

end FV
