import FindVerif.Spec.Actions
/-
  C19 — tree query helpers agree with the tree.  `Expr.hasAction` / `Expr.complexFrames` /
  `Size.mult` / `TimeSpec.secs` / `Size.byteSize` are the model of `ast.rs`; the right-hand sides
  are the declarative definitions of Spec/Actions.lean.  All trees, including shapes the parser
  never returns (explicit precedence nodes, nested lists, option nodes), no depth bound.
-/
namespace FV
open Spec

theorem C19_action (e : Expr) : e.hasAction = true ↔ ContainsAction e := by
  induction e with
  | test t => simp [Expr.hasAction]; intro h; cases h
  | action a => simp [Expr.hasAction]; exact .here a
  | global g => simp [Expr.hasAction]; intro h; cases h
  | positional p => simp [Expr.hasAction]; intro h; cases h
  | prec e ih => simp only [Expr.hasAction, ih]; exact ⟨.prec, fun h => by cases h; assumption⟩
  | not e ih => simp only [Expr.hasAction, ih]; exact ⟨.not, fun h => by cases h; assumption⟩
  | and a b iha ihb =>
    simp only [Expr.hasAction, Bool.or_eq_true, iha, ihb]
    exact ⟨fun h => h.elim .andL .andR, fun h => by cases h <;> simp [*]⟩
  | or a b iha ihb =>
    simp only [Expr.hasAction, Bool.or_eq_true, iha, ihb]
    exact ⟨fun h => h.elim .orL .orR, fun h => by cases h <;> simp [*]⟩
  | list a b iha ihb =>
    simp only [Expr.hasAction, Bool.or_eq_true, iha, ihb]
    exact ⟨fun h => h.elim .listL .listR, fun h => by cases h <;> simp [*]⟩

theorem action_frames (a : Action) : a.complexFrames = true ↔ actionNeedsFraming a := by
  unfold actionNeedsFraming writesToFile nulTerminated formatNotNewlineEnded
  cases a <;> simp [Action.complexFrames, destination, terminator]
  case printFormatted fmt =>
    cases h : fmt.getLast? with
    | none => simp
    | some el => simp

theorem C19_frames (e : Expr) : e.complexFrames = true ↔ NeedsFraming e := by
  induction e with
  | test t => simp [Expr.complexFrames]; intro h; cases h
  | action a =>
    simp only [Expr.complexFrames, action_frames]
    exact ⟨.here, fun h => by cases h; assumption⟩
  | global g => simp [Expr.complexFrames]; intro h; cases h
  | positional p => simp [Expr.complexFrames]; intro h; cases h
  | prec e ih => simp only [Expr.complexFrames, ih]; exact ⟨.prec, fun h => by cases h; assumption⟩
  | not e ih => simp only [Expr.complexFrames, ih]; exact ⟨.not, fun h => by cases h; assumption⟩
  | and a b iha ihb =>
    simp only [Expr.complexFrames, Bool.or_eq_true, iha, ihb]
    exact ⟨fun h => h.elim .andL .andR, fun h => by cases h <;> simp [*]⟩
  | or a b iha ihb =>
    simp only [Expr.complexFrames, Bool.or_eq_true, iha, ihb]
    exact ⟨fun h => h.elim .orL .orR, fun h => by cases h <;> simp [*]⟩
  | list a b iha ihb =>
    simp only [Expr.complexFrames, Bool.or_eq_true, iha, ihb]
    exact ⟨fun h => h.elim .listL .listR, fun h => by cases h <;> simp [*]⟩

/-- The size units are 1, 2, 512, 2^10, 2^20, 2^30, 2^40 bytes (for every count). -/
theorem C19_size_units (n : Nat) :
    [ (Size.byte n).mult, (Size.word n).mult, (Size.block n).mult, (Size.kilo n).mult,
      (Size.mega n).mult, (Size.giga n).mult, (Size.tera n).mult ] = sizeUnitBytes := by
  simp [Size.mult, sizeUnitBytes]

/-- The time units are 1, 60, 3600, 86400 seconds. -/
theorem C19_time_units (n : Nat) :
    [ (TimeSpec.second n).secs, (TimeSpec.minute n).secs, (TimeSpec.hour n).secs,
      (TimeSpec.day n).secs ] = timeUnitSeconds := by
  simp [TimeSpec.secs, timeUnitSeconds]

/-- The byte size is count × unit whenever that fits the 64-bit result, in both build profiles. -/
theorem C19_bytes (checks : Bool) (s : Size) (h : s.count * s.mult < 2 ^ 64) :
    s.byteSize checks = some (s.count * s.mult) := by
  simp [Size.byteSize, h]

/-! Non-vacuity. -/
example : ContainsAction (.or (.test .true_) (.not (.prec (.action .quit)))) :=
  .orR (.not (.prec (.here _)))
example : ¬ NeedsFraming (.action (.printFormatted [.literal ['a'], .special .newline])) := by
  rw [← C19_frames]; decide
example : NeedsFraming (.list (.global .depth) (.action (.printFormatted [.special .newline, .literal ['a']]))) := by
  rw [← C19_frames]; decide
example : (Size.tera 16777215).count * (Size.tera 16777215).mult < 2 ^ 64 := by decide

end FV
