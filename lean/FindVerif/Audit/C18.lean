import FindVerif.Theorems.C18
import FindVerif.Theorems.C18Layout
#print axioms FV.C18_test_arg
#print axioms FV.C18_action_arg
#print axioms FV.C18_missing_test
#print axioms FV.C18_missing_action
#print axioms FV.C18_unknown
#print axioms FV.C18_text
#print axioms FV.C18_layout_test_arg
#print axioms FV.C18_layout_action_arg
