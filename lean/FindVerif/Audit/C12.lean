import FindVerif.Theorems.C12
#print axioms FV.C12
#print axioms FV.C12_kind
