import FindVerif.Theorems.C14
#print axioms FV.C14
#print axioms FV.C14_shape
