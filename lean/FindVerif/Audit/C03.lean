import FindVerif.Theorems.C03
#print axioms FV.C03_parse
#print axioms FV.C03_compile
#print axioms FV.C03_errtext
#print axioms FV.C03_compile_errtext
#print axioms FV.C03_progress_lex
#print axioms FV.C03_progress_globals
