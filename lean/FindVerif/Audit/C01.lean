import FindVerif.Theorems.C01
#print axioms FV.C01_iff
#print axioms FV.C01_whole
#print axioms FV.C01_unique
#print axioms FV.C01_reject
#print axioms FV.C01_roundtrip
#print axioms FV.C01_plain
