import FindVerif.Theorems.C05
#print axioms FV.C05_order_safe
#print axioms FV.C05_keyword_chars
#print axioms FV.C05_front_safe
#print axioms FV.C05_cross_safe
#print axioms FV.C05_test_unary
#print axioms FV.C05_test_nullary
#print axioms FV.C05_action_unary
#print axioms FV.C05_action_nullary
#print axioms FV.C05_print_family
#print axioms FV.C05_fprint_family
#print axioms FV.C05_xattr_family
#print axioms FV.C05_operator_family
#print axioms FV.C05_numeric_test
#print axioms FV.C05_word_styles
#print axioms FV.C05_printf
