import FindVerif.Theorems.C05
import FindVerif.Theorems.C06Layout
import FindVerif.Theorems.C06Args
import FindVerif.Theorems.C08Text
#print axioms FV.C05_order_safe
#print axioms FV.C05_keyword_chars
#print axioms FV.C05_front_safe
#print axioms FV.C05_cross_safe
#print axioms FV.C05_test_unary
#print axioms FV.C05_test_nullary
#print axioms FV.C05_action_unary
#print axioms FV.C05_action_nullary
#print axioms FV.C05_print_family
#print axioms FV.C05_fprint_family
#print axioms FV.C05_xattr_family
#print axioms FV.C05_operator_family
#print axioms FV.C05_numeric_test
#print axioms FV.C05_word_styles
#print axioms FV.C05_printf
#print axioms FV.C06_layout
#print axioms FV.C06_layout_tree
#print axioms FV.writes_test_unary
#print axioms FV.writes_action_unary
#print axioms FV.writes_test_nullary
#print axioms FV.writes_action_nullary
#print axioms FV.argWrites_word
#print axioms FV.argWrites_number
#print axioms FV.argWrites_format
#print axioms FV.argWrites_cmp
#print axioms FV.argWrites_size
#print axioms FV.argWrites_time
#print axioms FV.argWrites_perm_octal
#print axioms FV.argWrites_types
#print axioms FV.writes_test_binary
#print axioms FV.writes_action_binary
#print axioms FV.argExact_word
#print axioms FV.argWrites_perm_symbolic
