import FindVerif.Theorems.C02
import FindVerif.Theorems.C04Whole
#print axioms FV.C02_translation_validity
#print axioms FV.C02_never_fails
#print axioms FV.C02_generators_agree
#print axioms FV.C02_operators
#print axioms FV.C02_end_to_end
