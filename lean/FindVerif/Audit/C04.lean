import FindVerif.Theorems.C04Whole
#print axioms FV.C04_literal_roundtrip
#print axioms FV.C04_escape_injective
#print axioms FV.C04_site_pool
#print axioms FV.C04_site_xattr
#print axioms FV.C04_site_matcher
#print axioms FV.C04_site_file
#print axioms FV.C04_site_strftime
#print axioms FV.C04_template_verbatim
#print axioms FV.C04_whole_program
