import FindVerif.Theorems.C19
#print axioms FV.C19_action
#print axioms FV.C19_frames
#print axioms FV.C19_size_units
#print axioms FV.C19_time_units
#print axioms FV.C19_bytes
