import FindVerif.Theorems.C20
#print axioms FV.C20_one_place
#print axioms FV.C20_device_decodes
#print axioms FV.C20_pure
#print axioms FV.C20_distinct
