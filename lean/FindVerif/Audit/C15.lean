import FindVerif.Theorems.C15
#print axioms FV.C15_embedded
#print axioms FV.C15_clock_only
#print axioms FV.C15_no_time_test
#print axioms FV.C15_parse_function
