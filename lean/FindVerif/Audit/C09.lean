import FindVerif.Theorems.C09Sem
#print axioms FV.C09_wrap
#print axioms FV.C09_nowrap
#print axioms FV.noAction_outcome
#print axioms FV.C09_prints_exactly_when_true
#print axioms FV.C09_nothing_added
