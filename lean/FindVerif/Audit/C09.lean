import FindVerif.Theorems.C09
#print axioms FV.C09_wrap
#print axioms FV.C09_nowrap
