import FindVerif.Theorems.C08
import FindVerif.Theorems.C08Text
#print axioms FV.C08_clause
#print axioms FV.C08_del_actual
#print axioms FV.C08_symbolic_partial
#print axioms FV.C08_K1_witness
#print axioms FV.C08_octal
#print axioms FV.C08_prefix
#print axioms FV.C08_emitted
#print axioms FV.parsePartial_clause
#print axioms FV.parsePermission_symbolic
#print axioms FV.C08_written
#print axioms FV.argWrites_perm_symbolic
#print axioms FV.argWrites_perm_octal
