import FindVerif.Theorems.C08
#print axioms FV.C08_clause
#print axioms FV.C08_del_actual
#print axioms FV.C08_symbolic_partial
#print axioms FV.C08_K1_witness
#print axioms FV.C08_octal
#print axioms FV.C08_prefix
#print axioms FV.C08_emitted
