import FindVerif.Theorems.C10
#print axioms FV.C10_mode
#print axioms FV.C10_plain
#print axioms FV.C10_table_bijective
#print axioms FV.C10_actions_in_table
