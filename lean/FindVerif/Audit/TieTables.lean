import FindVerif.TieTables
/- Axiom audit of the static tie, part 2 (constant tables). -/
#print axioms FV.TieTables.sizeMult
#print axioms FV.TieTables.timeSecs
#print axioms FV.TieTables.fileTypeOctal
#print axioms FV.TieTables.permValue
#print axioms FV.TieTables.specialLiteral
#print axioms FV.TieTables.placeholder
#print axioms FV.TieTables.snippetBody
#print axioms FV.TieTables.compileTest
#print axioms FV.TieTables.formatCmp
#print axioms FV.TieTables.formatCmp2
#print axioms FV.TieTables.sizeMatching
#print axioms FV.TieTables.compilePermCheck
#print axioms FV.TieTables.compileAction
#print axioms FV.TieTables.scheme
#print axioms FV.TieTables.compile
#print axioms FV.TieTables.hasAction
#print axioms FV.TieTables.complexFrames
#print axioms FV.TieTables.compileExpr
#print axioms FV.TieTables.explainTable
#print axioms FV.TieTables.contextStep
#print axioms FV.TieTables.dispatchDecision
#print axioms FV.TieTables.runOptionsUpdate
#print axioms FV.TieTables.schemeEscape
#print axioms FV.TieTables.isPattern
#print axioms FV.TieTables.terminatorEscape
#print axioms FV.TieTables.templateEscape
