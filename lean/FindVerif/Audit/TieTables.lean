import FindVerif.TieTables
/- Axiom audit of the static tie, part 2 (constant tables). -/
#print axioms FV.TieTables.sizeMult
#print axioms FV.TieTables.timeSecs
#print axioms FV.TieTables.fileTypeOctal
#print axioms FV.TieTables.permValue
#print axioms FV.TieTables.specialLiteral
#print axioms FV.TieTables.placeholder
#print axioms FV.TieTables.snippetBody
#print axioms FV.TieTables.compileTest
