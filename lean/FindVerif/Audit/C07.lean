import FindVerif.Theorems.C07
#print axioms FV.C07_read
#print axioms FV.C07_never_another
#print axioms FV.C07_comparison
#print axioms FV.C07_print_read
#print axioms FV.C07_emit_count
#print axioms FV.C07_emit_size
#print axioms FV.C07_emit_time
#print axioms FV.C07_emit_threads
