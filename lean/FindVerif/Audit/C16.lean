import FindVerif.Theorems.C16
#print axioms FV.C16_emitted_well_locked
#print axioms FV.C16_framed_only_frame_writes
#print axioms FV.C16_frame_text
#print axioms FV.C16_framed_printer_text
#print axioms FV.C16_at_every_moment
#print axioms FV.C16_whole_records
#print axioms FV.C16_no_deadlock
#print axioms FV.C16_terminates
#print axioms FV.C16_tearing_without_one_mutex
