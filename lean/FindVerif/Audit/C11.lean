import FindVerif.Theorems.C11
#print axioms FV.C11_bound_once
#print axioms FV.C11_before_use
#print axioms FV.C11_matcher_reach
#print axioms FV.C11_matcher_share
#print axioms FV.C11_matcher_distinct
#print axioms FV.C11_printer_reach
#print axioms FV.C11_file_printer_reach
#print axioms FV.C11_printer_table
#print axioms FV.C11_printer_plain
