import FindVerif.Theorems.C06
#print axioms FV.C06_blank
#print axioms FV.C06_tokens_only
#print axioms FV.C06_gap_kinds
#print axioms FV.C06_synonyms
#print axioms FV.C06_quoting
#print axioms FV.C06_parens
