import FindVerif.Theorems.C06
import FindVerif.Theorems.C06Layout
import FindVerif.Theorems.C06Args
import FindVerif.Theorems.C08Text
#print axioms FV.C06_blank
#print axioms FV.C06_tokens_only
#print axioms FV.C06_gap_kinds
#print axioms FV.C06_synonyms
#print axioms FV.C06_quoting
#print axioms FV.C06_parens
#print axioms FV.C06_layout
#print axioms FV.C06_layouts_agree
#print axioms FV.C06_layout_tree
#print axioms FV.writes_punct
#print axioms FV.writes_operator
#print axioms FV.writes_test_nullary
#print axioms FV.writes_action_nullary
#print axioms FV.writes_test_unary
#print axioms FV.writes_action_unary
#print axioms FV.argWrites_word
#print axioms FV.argWrites_number
#print axioms FV.argWrites_format
#print axioms FV.writes_depth
#print axioms FV.writes_threads
#print axioms FV.argWrites_cmp
#print axioms FV.argWrites_size
#print axioms FV.argWrites_time
#print axioms FV.argWrites_perm_octal
#print axioms FV.argWrites_types
#print axioms FV.writes_test_binary
#print axioms FV.writes_action_binary
#print axioms FV.argExact_word
#print axioms FV.argWrites_perm_symbolic
