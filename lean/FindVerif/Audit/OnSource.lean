import FindVerif.OnSource
/- Axiom audit of the property theorems restated over the generated definitions. -/
#print axioms FV.OnSource.C03_parse
#print axioms FV.OnSource.C17_parse_profile
#print axioms FV.OnSource.C06_layout_tree
#print axioms FV.OnSource.C13_spec
#print axioms FV.OnSource.C14
#print axioms FV.OnSource.C07_read_u32
#print axioms FV.OnSource.C08_written
#print axioms FV.OnSource.C19_action
#print axioms FV.OnSource.C19_frames
#print axioms FV.OnSource.C10_mode
#print axioms FV.OnSource.C12
#print axioms FV.OnSource.C04_literal_roundtrip
#print axioms FV.OnSource.C20_one_place
#print axioms FV.OnSource.C20_device_decodes
#print axioms FV.OnSource.C02_end_to_end
#print axioms FV.OnSource.C09_nowrap
#print axioms FV.OnSource.C16_framed_only_frame_writes
#print axioms FV.OnSource.C05_test_unary
#print axioms FV.OnSource.C18_unknown
#print axioms FV.OnSource.C01_iff
