import FindVerif.Theorems.C17
#print axioms FV.C17
#print axioms FV.C17_no_panic
