import FindVerif.Theorems.C13
#print axioms FV.C13_spec
#print axioms FV.C13_no_option_node
#print axioms FV.C13_last_wins
#print axioms FV.C13_threads
