import FindVerif.Tie
import FindVerif.TieTables
import FindVerif.Theorems.C01
import FindVerif.Theorems.C03
import FindVerif.Theorems.C04Whole
import FindVerif.Theorems.C05
import FindVerif.Theorems.C16
import FindVerif.Theorems.C18
import FindVerif.Theorems.C04
import FindVerif.Theorems.C06Layout
import FindVerif.Theorems.C07
import FindVerif.Theorems.C08Text
import FindVerif.Theorems.C09
import FindVerif.Theorems.C10
import FindVerif.Theorems.C12
import FindVerif.Theorems.C13
import FindVerif.Theorems.C14
import FindVerif.Theorems.C15
import FindVerif.Theorems.C19
import FindVerif.Theorems.C20
/-
  Headline property theorems restated over the definitions that `tools/rs2lean.py` GENERATES from the
  current source (`FV.Gen.*`, regenerated on every run).  Each is the property theorem about the
  hand-written model transported along the equality proved in `Tie.lean` / `TieTables.lean`.  So
  these statements are literally about what the translator reads in `/repo` now: if the source
  changes, either `Gen.*` changes (and this file no longer builds), or the statements below are about
  the changed code.
-/
namespace FV.OnSource
open FV FV.W FV.Spec FV.Spec.Printf FV.Scheme

/-- C03 (totality of `parse`, both build profiles): the translated entry point returns a result or an
    error value for every input — never a panic outcome. -/
theorem C03_parse (pf : Profile) (s : Text) :
    (∃ o e, Gen.parse pf s = .ok o e) ∨ (∃ err, Gen.parse pf s = .error err) := by
  rw [Tie.parse]; exact FV.C03_parse pf s

/-- C15/C17 (the profile and the history do not matter): the translated `parse` is a function of its
    input, the same in the debug and the release profile. -/
theorem C17_parse_profile (s : Text) : Gen.parse .debug s = Gen.parse .release s := by
  rw [Tie.parse]; exact FV.parse_profile s

/-- C06 (`parse ∘ write = id`): any layout of the canonical spelling of any option-free plain tree,
    behind any leading options and blanks, parses back to that tree with those options. -/
theorem C06_layout_tree (pf : Profile) (x : Bool) (lead s : Text) (gs : List GlobalOption) (e : Expr)
    (hp : Plain e) (hn : NoOpt e) (hlead : ∀ c ∈ lead, isBlank c = true)
    (hL : Layout pf (gs.map Token.global ++ spell x e) s) :
    Gen.parse pf (lead ++ s) = .ok (optionsOf (gs.map Token.global)) e := by
  rw [Tie.parse]; exact FV.C06_layout_tree pf x lead s gs e hp hn hlead hL

/-- C13 (options wherever they appear) over the translated leading-options parser, lexer and entry point. -/
theorem C13_spec (pf : Profile) (s : Text) (gs : List GlobalOption) (rest : Text)
    (h1 : Gen.leadingGlobals pf s = .ok gs rest) :
    (rest = [] → Gen.parse pf s = .ok (optionsOf (gs.map Token.global)) (.test .true_)) ∧
    (∀ ts r', rest ≠ [] → Gen.lex pf rest = .ok ts r' →
      Gen.parse pf s =
        match climb pf (expressionOf (gs.map Token.global ++ ts)) with
        | .ok e _ => .ok (optionsOf (gs.map Token.global ++ ts)) e
        | .err _ c _ => .error (dispatch c r')
        | .panic x => .panic x) := by
  rw [Tie.parse, Tie.lex]; rw [Tie.leadingGlobals] at h1; exact FV.C13_spec pf s gs rest h1

/-- C14 (format segmentation): the translated format parser is the reference scanner, for all strings. -/
theorem C14 (pf : Profile) (s : Text) :
    match seg s with
    | some els => Gen.parseFormat pf s = .ok els []
    | none => ∃ c r, Gen.parseFormat pf s = .err true c r := by
  rw [Tie.parseFormat]; exact FV.C14 pf s

/-- C07 (numbers exact or rejected) over the translated unsigned readers. -/
theorem C07_read_u32 (ds rest : Text) (hne : ds ≠ []) (hd : ∀ c ∈ ds, isDigit c = true) (hs : DigitStop rest) :
    Gen.parseU32 (ds ++ rest) =
      if decVal ds < 2 ^ 32 then .ok (decVal ds) rest
      else .err false [expected (cl!"unsigned_integer")] (ds ++ rest) := by
  rw [Tie.parseU32]; exact FV.C07_read (2 ^ 32) ds rest hne hd hs

/-- C08 (text → clauses → chmod's mode) over the translated permission reader. -/
theorem C08_written (pf : Profile) (c : ClauseText) (cs : List ClauseText) (hv : ∀ ct ∈ c :: cs, ct.Valid)
    (hm : ∀ ct ∈ c :: cs, ct.op ≠ '-') :
    ∃ m, Gen.parsePermission pf (clauseText c ++ symTail cs) = .ok m [] ∧
      fromBits m = chmodFrom0 ((c :: cs).map ClauseText.clause) := by
  rw [Tie.parsePermission]; exact FV.C08_written pf c cs hv hm

/-- C19 (tree helpers) over the translated `Expression::action` / `complex_frames`. -/
theorem C19_action (e : Expr) : Gen.hasAction e = true ↔ ContainsAction e := by
  rw [TieTables.hasAction]; exact FV.C19_action e

theorem C19_frames (e : Expr) : Gen.complexFrames e = true ↔ NeedsFraming e := by
  rw [TieTables.complexFrames]; exact FV.C19_frames e

/-- C10 (mode choice) over the translated `compile`. -/
theorem C10_mode (clk : Nat → Nat) (e : Expr) (o : RunOptions) (c : Compiled) (h : Gen.compile clk e o = .ok c) :
    c.ioMap.isSome = true ↔ NeedsFraming e := by
  rw [TieTables.compile] at h; exact FV.C10_mode clk e o c h

/-- C12 (unsupported constructs are refused) over the translated `compile`. -/
theorem C12 (clk : Nat → Nat) (e : Expr) (o : RunOptions) (hp : plainB e = true) :
    ((∃ x, Gen.compile clk e o = .err x) ↔ hasUnsupported e = true) ∧
    (hasUnsupported e = false → ∃ c, Gen.compile clk e o = .ok c) := by
  rw [TieTables.compile]; exact FV.C12 clk e o hp

/-- C04 (a user string stays data): the translated escaping function is inverted by the reader. -/
theorem C04_literal_roundtrip (s rest : Text) :
    read1 1 ('"' :: Gen.schemeEscape s ++ '"' :: rest) = some (.str s, rest) := by
  rw [TieTables.schemeEscape]; exact FV.C04_literal_roundtrip s rest

/-- C20 (one place): the translated program template is prefix ++ quoted escaped path ++ suffix, and
    the quoted path reads back as the path. -/
theorem C20_one_place (c : Compiled) (mdt : Text) :
    Gen.scheme c mdt = c.prefix_ ++ ('"' :: Gen.schemeEscape mdt ++ '"' :: c.suffix_) := by
  rw [TieTables.scheme, TieTables.schemeEscape]; exact FV.C20_one_place c mdt

theorem C20_device_decodes (c : Compiled) (mdt : Text) :
    ∃ fuel, read1 fuel ('"' :: Gen.schemeEscape mdt ++ '"' :: c.suffix_) = some (.str mdt, c.suffix_) := by
  rw [TieTables.schemeEscape]; exact FV.C20_device_decodes c mdt

/-- C02 (translation validity, end to end on the emitted text): the program that the translated `compile`
    and `scheme` emit, read back by the independent reader and run on any file, does what find's rules
    say for the tree. -/
theorem C02_end_to_end (rt : Rt) (file : File) (clk : Nat → Nat) (now : Nat) (e : Expr) (o : RunOptions) (c : Compiled) (mdt : Text)
    (hclk : ∀ i, clk i = now) (hc : Gen.compile clk e o = .ok c)
    (htags : ∀ kv ∈ c.ioMap.getD [], kv.1 < 0xD800)
    (hdef : evalFind rt now (policyTree e) file ≠ .undefined) :
    ∃ forms p, readAll (Gen.scheme c mdt) = some forms ∧ programOf forms = some p ∧
      runPolicy rt file c.ioMap p.bindings p.body = .outcome (evalFind rt now (policyTree e) file) := by
  rw [TieTables.compile] at hc; rw [TieTables.scheme]
  exact FV.C02_end_to_end rt file clk now e o c mdt hclk hc htags hdef

/-- C09 (no implicit print when an action occurs anywhere) over the translated `compile` and code generator. -/
theorem C09_nowrap (clk : Nat → Nat) (e : Expr) (o : RunOptions) (c : Compiled)
    (h : Gen.compile clk e o = .ok c) (ha : ContainsAction e) :
    ∃ st, Gen.compileExpr clk e { mgr := initialManager e } = .ok (c.policyBody, st) ∧
      c.definitions = st.mgr.definitions ∧ c.ioMap = st.mgr.printerMap := by
  rw [TieTables.compile] at h; rw [TieTables.compileExpr]
  exact FV.C09_nowrap clk e o c h ha

/-- C16 (framed mode: only frame printers write) over the translated code generator. -/
theorem C16_framed_only_frame_writes (clk : Nat → Nat) (e : Expr) (body : Text) (st : CState)
    (h : Gen.compileExpr clk e { mgr := Manager.distInit } = .ok (body, st)) :
    st.mgr.distributed = true ∧ ∀ b ∈ st.mgr.vars, b.framedOk := by
  rw [TieTables.compileExpr] at h
  exact FV.C16_framed_only_frame_writes clk e body st h

/-- C05 (a unary test keyword followed by a blank run and its argument) over the translated `token`. -/
theorem C05_test_unary {α : Type} (pf : Profile) (kw : Text) (tr : α → Test) (argp : P Char α)
    (hm : (kw, unary kw tr argp) ∈ testAlts pf) (ws x : Text) (h : BlankRun ws x) :
    Gen.token pf (kw ++ (ws ++ x)) =
      match argp x with
      | .ok v r => .ok (.test (tr v)) r
      | .err _ c r => .err true (c ++ [label kw, label (cl!"test"), label (cl!"syntax")]) r
      | .panic s => Gen.token pf (kw ++ (ws ++ x)) := by
  rw [Tie.token]; exact FV.C05_test_unary pf kw tr argp hm ws x h

/-- C18 (an unknown word is quoted whole) over the translated entry point. -/
theorem C18_unknown (pf : Profile) (s : Text) (gs : List GlobalOption) (rest : Text) (pre : List Token) (r : Text)
    (h1 : Gen.leadingGlobals pf s = .ok gs rest) (hne : rest ≠ [])
    (hpre : LexPrefix pf (rest.dropWhile isBlank) pre r) (hr : r ≠ [] ∨ pre = [])
    (htok : Gen.token pf r = .err false [expected (cl!"invalid_token"), label (cl!"syntax")] r) :
    Gen.parse pf s = .error (.invalidToken (nextWord r)) := by
  rw [Tie.leadingGlobals] at h1; rw [Tie.token] at htok; rw [Tie.parse]
  exact FV.C18_unknown pf s gs rest pre r h1 hne hpre hr htok

/-- C01 (the operator grammar, all token lists): the translated `parser` — over the `atom` parser obtained by
    closing the translated, open-recursive `atom` body with nesting fuel (`Tie.atom_step`) — accepts exactly
    the sentences of the find grammar and returns the grammar's tree, with every token consumed. -/
theorem C01_iff (pf : Profile) (ts : List Token) (e : Expr) :
    Gen.parserTop pf (FV.atom pf (ts.length + 1)) ts = .ok e [] ↔ GList ts e := by
  rw [← Tie.parserTop]; exact FV.C01_iff pf ts e

end FV.OnSource
