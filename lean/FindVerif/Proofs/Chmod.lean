import FindVerif.Model.Lex.Permission
import FindVerif.Spec.Chmod
/- The model's mask arithmetic computes chmod's per-bit rules (for `+` and `=`; for `-` it computes
   something else, characterised exactly). -/
namespace FV
open Spec

/-- Bit position of (class, permission) in the mode number. -/
def bitIdx (c : Who) (p : Perm) : Nat :=
  (match c with | .u => 6 | .g => 3 | .o => 0) + (match p with | .r => 2 | .w => 1 | .x => 0)

/-- A mode number as a per-bit function. -/
def fromBits (m : Nat) : PermFn := fun c p => m.testBit (bitIdx c p)

def whoMaskOf : Who → Nat | .u => 0o700 | .g => 0o070 | .o => 0o007
def permMaskOf : Perm → Nat | .r => 0o444 | .w => 0o222 | .x => 0o111

def whoMask (ws : List Who) : Nat := ws.foldl (fun acc w => acc ||| whoMaskOf w) 0
def permMask (ps : List Perm) : Nat := ps.foldl (fun acc p => acc ||| permMaskOf p) 0

theorem whoMaskOf_testBit (w c : Who) (p : Perm) : (whoMaskOf w).testBit (bitIdx c p) = decide (c = w) := by
  cases w <;> cases c <;> cases p <;> decide

theorem permMaskOf_testBit (q : Perm) (c : Who) (p : Perm) : (permMaskOf q).testBit (bitIdx c p) = decide (p = q) := by
  cases q <;> cases c <;> cases p <;> decide

theorem foldl_or_testBit {α} (f : α → Nat) (l : List α) (acc i : Nat) :
    (l.foldl (fun a x => a ||| f x) acc).testBit i = (acc.testBit i || l.any (fun x => (f x).testBit i)) := by
  induction l generalizing acc with
  | nil => simp
  | cons x xs ih => simp [ih, Nat.testBit_or, Bool.or_assoc]

theorem whoMask_testBit (ws : List Who) (c : Who) (p : Perm) :
    (whoMask ws).testBit (bitIdx c p) = decide (c ∈ ws) := by
  simp only [whoMask, foldl_or_testBit, Nat.zero_testBit, Bool.false_or, whoMaskOf_testBit]
  induction ws with
  | nil => simp
  | cons w ws ih => simp [ih, List.mem_cons]

theorem permMask_testBit (ps : List Perm) (c : Who) (p : Perm) :
    (permMask ps).testBit (bitIdx c p) = decide (p ∈ ps) := by
  simp only [permMask, foldl_or_testBit, Nat.zero_testBit, Bool.false_or, permMaskOf_testBit]
  induction ps with
  | nil => simp
  | cons q qs ih => simp [ih, List.mem_cons]

theorem bitIdx_lt (c : Who) (p : Perm) : bitIdx c p < 12 := by cases c <;> cases p <;> decide

theorem all12_testBit (i : Nat) (h : i < 12) : (0o7777 : Nat).testBit i = true := by
  have : i = 0 ∨ i = 1 ∨ i = 2 ∨ i = 3 ∨ i = 4 ∨ i = 5 ∨ i = 6 ∨ i = 7 ∨ i = 8 ∨ i = 9 ∨ i = 10 ∨ i = 11 := by omega
  rcases this with rfl | rfl | rfl | rfl | rfl | rfl | rfl | rfl | rfl | rfl | rfl | rfl <;> decide

/-- `!m` on `Mode` flips each of the twelve bits. -/
theorem modeNot_testBit (m i : Nat) (h : i < 12) : (modeNot m).testBit i = !m.testBit i := by
  simp [modeNot, Nat.testBit_xor, Nat.testBit_and, all12_testBit i h]

/-- `+`: the model sets exactly the listed permissions of the listed classes. -/
theorem add_spec (ws : List Who) (ps : List Perm) (m : Nat) :
    fromBits ((PartialPermission.add (whoMask ws &&& permMask ps)).update m)
      = applyClause ⟨ws, .add, ps⟩ (fromBits m) := by
  funext c p
  simp only [fromBits, PartialPermission.update, applyClause, clauseBit, Nat.testBit_or, Nat.testBit_and,
    whoMask_testBit, permMask_testBit]
  by_cases hc : c ∈ ws <;> simp [hc]

/-- `=`: within the listed classes the permissions become exactly the listed ones. -/
theorem set_spec (ws : List Who) (ps : List Perm) (m : Nat) :
    fromBits ((PartialPermission.set (whoMask ws) (permMask ps)).update m)
      = applyClause ⟨ws, .set, ps⟩ (fromBits m) := by
  funext c p
  simp only [fromBits, PartialPermission.update, applyClause, clauseBit, Nat.testBit_or, Nat.testBit_and,
    whoMask_testBit, permMask_testBit, modeNot_testBit _ _ (bitIdx_lt c p)]
  by_cases hc : c ∈ ws <;> simp [hc]

/-- `-` (known finding K1): what the code computes — it clears, within the listed classes, the
    permissions that are NOT listed (chmod clears the listed ones). -/
theorem del_actual (ws : List Who) (ps : List Perm) (m : Nat) :
    fromBits ((PartialPermission.del (whoMask ws &&& modeNot (permMask ps))).update m)
      = fun c p => fromBits m c p && !(decide (c ∈ ws) && !decide (p ∈ ps)) := by
  funext c p
  simp only [fromBits, PartialPermission.update, Nat.testBit_and, whoMask_testBit, permMask_testBit,
    modeNot_testBit _ _ (bitIdx_lt c p)]

/-- The three special bits are never touched by a clause. -/
theorem update_special (pp : PartialPermission) (m i : Nat) (hi : 9 ≤ i) (hm : m.testBit i = false)
    (hpp : match pp with
      | .add b => b.testBit i = false
      | .set t _ => t.testBit i = false
      | .del _ => True) : (pp.update m).testBit i = false := by
  cases pp with
  | add b => simp [PartialPermission.update, Nat.testBit_or, hm, hpp]
  | del b => simp [PartialPermission.update, Nat.testBit_and, hm]
  | set t l => simp [PartialPermission.update, Nat.testBit_or, Nat.testBit_and, hm, hpp]

end FV

namespace FV
open Spec

theorem foldl_or_acc {α} (f : α → Nat) (l : List α) (acc : Nat) :
    l.foldl (fun a x => a ||| f x) acc = acc ||| l.foldl (fun a x => a ||| f x) 0 := by
  induction l generalizing acc with
  | nil => simp
  | cons x xs ih =>
    simp only [List.foldl_cons]
    rw [ih (acc ||| f x), ih (0 ||| f x)]
    simp [Nat.or_assoc]

theorem whoMask_append (a b : List Who) : whoMask (a ++ b) = whoMask a ||| whoMask b := by
  simp only [whoMask, List.foldl_append]
  rw [foldl_or_acc]

theorem permMask_append (a b : List Perm) : permMask (a ++ b) = permMask a ||| permMask b := by
  simp only [permMask, List.foldl_append]
  rw [foldl_or_acc]

/-- The who-set a who-character denotes, and its mask as the model computes it. -/
theorem permValue_who (c : Char) (ws : List Who) (h : whoOfChar c = some ws) : permValue c = some (whoMask ws) := by
  simp only [whoOfChar] at h
  split at h
  · rename_i hc; cases h; subst hc; rfl
  · split at h
    · rename_i hc; cases h; subst hc; rfl
    · split at h
      · rename_i hc; cases h; subst hc; rfl
      · split at h
        · rename_i hc; cases h; subst hc; rfl
        · cases h

theorem permValue_perm (c : Char) (p : Perm) (h : permOfChar c = some p) : permValue c = some (permMaskOf p) := by
  simp only [permOfChar] at h
  split at h
  · rename_i hc; cases h; subst hc; rfl
  · split at h
    · rename_i hc; cases h; subst hc; rfl
    · split at h
      · rename_i hc; cases h; subst hc; rfl
      · cases h

def symStep (acc : Option Nat) (d : Char) : Option Nat :=
  match acc, permValue d with
  | some a, some v => some (a ||| v)
  | _, _ => none

theorem symMode_eq (c : Char) (cs : List Char) : symMode (c :: cs) = cs.foldl symStep (permValue c) := rfl

/-- Who-text: the model's mask is the mask of the denoted who-set. -/
theorem symFold_who (cs : List Char) (a : Nat) (h : ∀ c ∈ cs, (whoOfChar c).isSome) :
    cs.foldl symStep (some a) = some (a ||| whoMask ((cs.filterMap whoOfChar).flatten)) := by
  induction cs generalizing a with
  | nil => simp [whoMask]
  | cons c cs ih =>
    have hc := h c (by simp)
    cases hw : whoOfChar c with
    | none => rw [hw] at hc; simp at hc
    | some ws =>
      simp only [List.foldl_cons, symStep, permValue_who c ws hw, List.filterMap_cons, hw, List.flatten_cons]
      rw [ih _ (fun d hd => h d (by simp [hd])), whoMask_append, Nat.or_assoc]

theorem symMode_who (w : Text) (hne : w ≠ []) (h : ∀ c ∈ w, (whoOfChar c).isSome) :
    symMode w = some (whoMask ((w.filterMap whoOfChar).flatten)) := by
  cases w with
  | nil => exact absurd rfl hne
  | cons c cs =>
    have hc := h c (by simp)
    cases hw : whoOfChar c with
    | none => rw [hw] at hc; simp at hc
    | some ws =>
      rw [symMode_eq, permValue_who c ws hw, symFold_who cs _ (fun d hd => h d (by simp [hd]))]
      simp [hw, whoMask_append]

theorem symFold_perm (cs : List Char) (a : Nat) (ps : List Perm) (h : cs.mapM permOfChar = some ps) :
    cs.foldl symStep (some a) = some (a ||| permMask ps) := by
  induction cs generalizing a ps with
  | nil => simp at h; subst h; simp [permMask]
  | cons c cs ih =>
    simp only [List.mapM_cons] at h
    cases hp : permOfChar c with
    | none => rw [hp] at h; simp at h
    | some p =>
      rw [hp] at h
      cases hps : cs.mapM permOfChar with
      | none => rw [hps] at h; simp at h
      | some qs =>
        rw [hps] at h
        simp at h
        subst h
        simp only [List.foldl_cons, symStep, permValue_perm c p hp]
        rw [ih _ qs hps]
        have : permMask (p :: qs) = permMaskOf p ||| permMask qs := by
          have := permMask_append [p] qs
          simpa [permMask] using this
        rw [this, Nat.or_assoc]

theorem symMode_perm (t : Text) (ps : List Perm) (hne : t ≠ []) (h : t.mapM permOfChar = some ps) :
    symMode t = some (permMask ps) := by
  cases t with
  | nil => exact absurd rfl hne
  | cons c cs =>
    simp only [List.mapM_cons] at h
    cases hp : permOfChar c with
    | none => rw [hp] at h; simp at h
    | some p =>
      rw [hp] at h
      cases hps : cs.mapM permOfChar with
      | none => rw [hps] at h; simp at h
      | some qs =>
        rw [hps] at h
        simp at h
        subst h
        rw [symMode_eq, permValue_perm c p hp, symFold_perm cs _ qs hps]
        have : permMask (p :: qs) = permMaskOf p ||| permMask qs := by
          have := permMask_append [p] qs
          simpa [permMask] using this
        rw [this]

end FV
