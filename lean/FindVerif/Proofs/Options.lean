import FindVerif.Proofs.ParsePlain
import FindVerif.Proofs.ClimbTop
/- `_parse`'s two-phase option handling computes the spec's single definition of
   "options of the sequence" / "expression of the sequence". -/
namespace FV
open W Spec

theorem update_honoured (o : RunOptions) (g : GlobalOption) (h : g.honoured) : o.update g = some (applyOption o g) := by
  cases g <;> simp [GlobalOption.honoured] at h <;> rfl

theorem updateAll_spec : ∀ (gs : List GlobalOption) (o : RunOptions), (∀ g ∈ gs, g.honoured) →
    updateAll o gs = some (gs.foldl applyOption o)
  | [], o, _ => rfl
  | g :: gs, o, h => by
    simp only [updateAll, update_honoured o g (h g (by simp)), List.foldl_cons]
    exact updateAll_spec gs _ (fun x hx => h x (by simp [hx]))

def optStep (o : RunOptions) (t : Token) : RunOptions :=
  match t with
  | .global g => applyOption o g
  | _ => o

def untrue (t : Token) : Token := if isGlobalTok t then Token.test .true_ else t

theorem sweepGlobals_spec : ∀ (ts : List Token) (o : RunOptions), (∀ t ∈ ts, t.globalsHonoured) →
    sweepGlobals o ts = some (ts.foldl optStep o, ts.map untrue)
  | [], o, _ => rfl
  | t :: ts, o, h => by
    cases t with
    | global g =>
      have hg : g.honoured := h (.global g) (by simp)
      simp only [sweepGlobals, update_honoured o g hg,
        sweepGlobals_spec ts _ (fun x hx => h x (by simp [hx])), Option.map_some, List.foldl_cons, List.map_cons]
      rfl
    | _ =>
      simp only [sweepGlobals, sweepGlobals_spec ts o (fun x hx => h x (by simp [hx])), Option.map_some,
        List.foldl_cons, List.map_cons]
      rfl

theorem optionsOf_eq (ts : List Token) : optionsOf ts = ts.foldl optStep {} := by
  simp only [optionsOf]
  congr 1

theorem foldl_optStep_globals (gs : List GlobalOption) (o : RunOptions) :
    (gs.map Token.global).foldl optStep o = gs.foldl applyOption o := by
  induction gs generalizing o with
  | nil => rfl
  | cons g gs ih => simp [optStep, ih]

theorem dropWhile_globals (gs : List GlobalOption) (ts : List Token) :
    (gs.map Token.global ++ ts).dropWhile isGlobalTok = ts.dropWhile isGlobalTok := by
  induction gs with
  | nil => rfl
  | cons g gs ih =>
    simp only [List.map_cons, List.cons_append, List.dropWhile_cons, isGlobalTok, if_true]
    exact ih

theorem map_untrue_eq (ts : List Token) :
    ts.map untrue = ts.map fun t => if isGlobalTok t then Token.test .true_ else t := rfl

/-- An `alt` succeeds only through one of its alternatives. -/
theorem alt_ok_mem {ι α} {ps : List (P ι α)} {i a r} (h : alt ps i = .ok a r) : ∃ p ∈ ps, p i = .ok a r := by
  induction ps with
  | nil => simp [alt, fail] at h
  | cons p ps ih =>
    cases ps with
    | nil => exact ⟨p, by simp, by simpa [alt] using h⟩
    | cons q qs =>
      simp only [alt, alt2] at h
      split at h
      · obtain ⟨p', hp', hh⟩ := ih h
        exact ⟨p', by simp [hp'], hh⟩
      · exact ⟨p, by simp, h⟩

/-- If the option parser backtracks here, the token read here is not an option. -/
theorem token_not_global (pf : Profile) (i : Text) (t : Token) (r : Text) (c : List Ctx) (r0 : Text)
    (hg : parseGlobal i = .err false c r0) (h : token pf i = .ok t r) : isGlobalTok t = false := by
  simp only [token, context] at h
  split at h
  · cases h
  · rename_i hh
    rw [h] at hh
    obtain ⟨p, hp, hok⟩ := alt_ok_mem h
    simp at hp
    rcases hp with rfl | rfl | rfl | rfl | rfl | rfl | rfl | rfl | rfl | rfl | rfl
    all_goals first
      | (obtain ⟨_, rfl, _⟩ := out_map (Q := fun _ => True) _ (fun _ _ _ _ => trivial) i t r hok; rfl)
      | (simp [map, hg] at hok)
      | (simp [context, fail] at hok)

end FV

namespace FV
open W Spec

def NoLeadBlank (r : Text) : Prop := r.takeWhile isBlank = []

theorem noLeadBlank_dropWhile (i : Text) : NoLeadBlank (i.dropWhile isBlank) := by
  induction i with
  | nil => rfl
  | cons c cs ih =>
    by_cases hc : isBlank c = true
    · simpa [List.dropWhile_cons, hc] using ih
    · have hc' : isBlank c = false := by simpa using hc
      simp [NoLeadBlank, List.dropWhile_cons, List.takeWhile_cons, hc']

theorem multispace0_ok (i : Text) : multispace0 i = .ok (i.takeWhile isBlank) (i.dropWhile isBlank) := by
  simp [multispace0, takeWhile]

theorem multispace0_noLead (i : Text) (h : NoLeadBlank i) : multispace0 i = .ok [] i := by
  rw [multispace0_ok]
  have : i.dropWhile isBlank = i := by
    cases i with
    | nil => rfl
    | cons c cs =>
      by_cases hc : isBlank c = true
      · simp [NoLeadBlank, List.takeWhile_cons, hc] at h
      · have hc' : isBlank c = false := by simpa using hc
        simp [List.dropWhile_cons, hc']
  rw [h, this]

theorem post_terminated_ms0 {α} (p : P Char α) : Post (terminated p multispace0) NoLeadBlank := by
  intro i a r h
  simp only [terminated] at h
  obtain ⟨ab, _, _⟩ := out_map (Q := fun _ => True) Prod.fst (fun _ _ _ _ => trivial) i a r h
  simp only [map] at h
  cases hp : pair p multispace0 i with
  | ok x r' =>
    rw [hp] at h; simp at h
    obtain ⟨r1, _, h2⟩ := pair_ok hp
    rw [multispace0_ok] at h2
    injection h2 with _ hr
    rw [← h.2, ← hr]
    exact noLeadBlank_dropWhile _
  | err k c r' => rw [hp] at h; simp at h
  | panic s => rw [hp] at h; simp at h

/-- Where the leading-options loop stops: no leading blank, and the option parser backtracks. -/
theorem leadingGlobals_exit (pf : Profile) (s : Text) (gs : List GlobalOption) (rest : Text)
    (h : leadingGlobals pf s = .ok gs rest) :
    NoLeadBlank rest ∧ ∃ c r, parseGlobal rest = .err false c r := by
  simp only [leadingGlobals, preceded, map] at h
  cases hp : pair multispace0 (repeat0 pf (terminated parseGlobal multispace0)) s with
  | ok x r' =>
    rw [hp] at h; simp at h
    obtain ⟨hx, rfl⟩ := h
    obtain ⟨r1, h1, h2⟩ := pair_ok hp
    rw [multispace0_ok] at h1
    injection h1 with _ hr1
    subst hr1
    simp only [repeat0, map] at h2
    cases hr : repeatFold pf (terminated parseGlobal multispace0) (fun acc a => a :: acc)
        ((s.dropWhile isBlank).length + 1) [] (s.dropWhile isBlank) with
    | ok l r2 =>
      rw [hr] at h2; simp at h2
      obtain ⟨_, rfl⟩ := h2
      have := repeatFold_post pf (post_terminated_ms0 parseGlobal) _ _ _ _ _ (noLeadBlank_dropWhile s) hr
      refine ⟨this.1, ?_⟩
      obtain ⟨c, r', hb⟩ := this.2
      -- the body backtracks only if the option parser does
      simp only [terminated, map, pair] at hb
      cases hg : parseGlobal r2 with
      | ok g r3 => rw [hg] at hb; simp [multispace0_ok] at hb
      | err k c' r3 => rw [hg] at hb; simp at hb; obtain ⟨rfl, _, _⟩ := hb; exact ⟨c', r3, rfl⟩
      | panic x => rw [hg] at hb; simp at hb
    | err k c r2 => rw [hr] at h2; simp at h2
    | panic x => rw [hr] at h2; simp at h2
  | err k c r' => rw [hp] at h; simp at h
  | panic x => rw [hp] at h; simp at h

theorem lex_head_not_global (pf : Profile) (rest : Text) (ts : List Token) (r' : Text)
    (hnl : NoLeadBlank rest) (hg : ∃ c r, parseGlobal rest = .err false c r)
    (h : lex pf rest = .ok ts r') : ∃ t0 more, ts = t0 :: more ∧ isGlobalTok t0 = false := by
  obtain ⟨c, r0, hg⟩ := hg
  simp only [lex, preceded, map] at h
  cases hp : pair multispace0 (repeatTill1 pf (terminated (token pf) multispace0) eof) rest with
  | ok x r1 =>
    rw [hp] at h; simp at h
    obtain ⟨hx, rfl⟩ := h
    obtain ⟨r2, h1, h2⟩ := pair_ok hp
    rw [multispace0_noLead rest hnl] at h1
    injection h1 with _ hr1
    subst hr1
    simp only [repeatTill1] at h2
    cases ht : terminated (token pf) multispace0 rest with
    | ok t0 r3 =>
      rw [ht] at h2; simp only at h2
      obtain ⟨xs, b⟩ := x.2
      have hacc := repeatTillLoop_acc pf _ _ _ x.2.1 x.2.2 _ (by simpa using h2)
      obtain ⟨ys, hys⟩ := hacc
      refine ⟨t0, ys, ?_, ?_⟩
      · rw [← hx]; simpa using hys
      · -- t0 was read by `token` at `rest`
        simp only [terminated, map] at ht
        cases hpt : pair (token pf) multispace0 rest with
        | ok y r4 =>
          rw [hpt] at ht; simp at ht
          obtain ⟨r5, hy1, _⟩ := pair_ok hpt
          rw [ht.1] at hy1
          exact token_not_global pf rest t0 r5 c r0 hg hy1
        | err k c' r4 => rw [hpt] at ht; simp at ht
        | panic z => rw [hpt] at ht; simp at ht
    | err k c' r3 => rw [ht] at h2; simp at h2
    | panic z => rw [ht] at h2; simp at h2
  | err k c' r1 => rw [hp] at h; simp at h
  | panic z => rw [hp] at h; simp at h

end FV
