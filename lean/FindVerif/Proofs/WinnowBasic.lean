import FindVerif.Model.Winnow
/-
  Generic facts about the combinators: panic-freedom, suffix/consumption, and the
  "soundness" shape `p i = ok a r → ∃ pre, i = pre ++ r ∧ R pre a`.
-/
namespace FV
namespace W
variable {ι α β γ : Type}

/-- The parser never panics. -/
def NoPanic (p : P ι α) : Prop := ∀ i s, p i ≠ .panic s

/-- On success the parser has consumed the prefix `pre` related to the output by `R`. -/
def Sound (p : P ι α) (R : List ι → α → Prop) : Prop :=
  ∀ i a r, p i = .ok a r → ∃ pre, i = pre ++ r ∧ R pre a

/-- On success the rest is no longer than the input. -/
def NonInc (p : P ι α) : Prop := ∀ i a r, p i = .ok a r → r.length ≤ i.length

/-- On success at least one element was consumed. -/
def Consumes (p : P ι α) : Prop := ∀ i a r, p i = .ok a r → r.length < i.length

theorem Sound.nonInc {p : P ι α} {R} (h : Sound p R) : NonInc p := by
  intro i a r hp
  obtain ⟨pre, rfl, _⟩ := h i a r hp
  simp

theorem Sound.mono {p : P ι α} {R S : List ι → α → Prop} (h : Sound p R)
    (hRS : ∀ pre a, R pre a → S pre a) : Sound p S := by
  intro i a r hp
  obtain ⟨pre, e, hr⟩ := h i a r hp
  exact ⟨pre, e, hRS _ _ hr⟩

theorem Sound.consumes {p : P ι α} {R} (h : Sound p R) (hne : ∀ pre a, R pre a → pre ≠ []) :
    Consumes p := by
  intro i a r hp
  obtain ⟨pre, rfl, hr⟩ := h i a r hp
  have := hne _ _ hr
  cases pre with
  | nil => exact absurd rfl this
  | cons x xs => simp; omega

/-! ### primitives -/

theorem sound_pure (a : α) : Sound (pure a : P ι α) (fun pre b => pre = [] ∧ b = a) := by
  intro i b r h
  simp [pure] at h
  obtain ⟨rfl, rfl⟩ := h
  exact ⟨[], rfl, rfl, rfl⟩

theorem sound_fail (R : List ι → α → Prop) : Sound (fail : P ι α) R := by
  intro i a r h; simp [fail] at h

theorem noPanic_fail : NoPanic (fail : P ι α) := by intro i s; simp [fail]

theorem sound_eof : Sound (eof : P ι Unit) (fun pre _ => pre = []) := by
  intro i a r h
  cases i with
  | nil => simp [eof] at h; obtain ⟨_, rfl⟩ := h; exact ⟨[], rfl, rfl⟩
  | cons x xs => simp [eof] at h

theorem noPanic_eof : NoPanic (eof : P ι Unit) := by
  intro i s; cases i <;> simp [eof]

theorem sound_any : Sound (any : P ι ι) (fun pre a => pre = [a]) := by
  intro i a r h
  cases i with
  | nil => simp [any] at h
  | cons x xs => simp [any] at h; obtain ⟨rfl, rfl⟩ := h; exact ⟨[x], rfl, rfl⟩

theorem noPanic_any : NoPanic (any : P ι ι) := by
  intro i s; cases i <;> simp [any]

theorem sound_oneOf (f : ι → Bool) : Sound (oneOf f) (fun pre a => pre = [a] ∧ f a = true) := by
  intro i a r h
  cases i with
  | nil => simp [oneOf] at h
  | cons x xs =>
    simp only [oneOf] at h
    split at h
    · simp at h; obtain ⟨rfl, rfl⟩ := h; exact ⟨[x], rfl, rfl, by assumption⟩
    · simp at h

theorem noPanic_oneOf (f : ι → Bool) : NoPanic (oneOf f) := by
  intro i s; cases i with
  | nil => simp [oneOf]
  | cons x xs => simp only [oneOf]; split <;> simp

/-! ### transformers -/

theorem sound_map {p : P ι α} {R} (f : α → β) (h : Sound p R) :
    Sound (map f p) (fun pre b => ∃ a, b = f a ∧ R pre a) := by
  intro i b r hm
  simp only [map] at hm
  split at hm <;> simp at hm
  obtain ⟨rfl, rfl⟩ := hm
  rename_i a r' hp
  obtain ⟨pre, e, hr⟩ := h i a _ hp
  exact ⟨pre, e, a, rfl, hr⟩

theorem noPanic_map {p : P ι α} (f : α → β) (h : NoPanic p) : NoPanic (map f p) := by
  intro i s hm
  simp only [map] at hm
  split at hm <;> simp at hm
  rename_i s' hp
  exact h i s' hp

theorem sound_mapOrPanic {p : P ι α} {R} (site : Text) (f : α → Option β) (h : Sound p R) :
    Sound (mapOrPanic site f p) (fun pre b => ∃ a, f a = some b ∧ R pre a) := by
  intro i b r hm
  simp only [mapOrPanic] at hm
  split at hm
  · rename_i a r' hp
    split at hm <;> simp at hm
    obtain ⟨rfl, rfl⟩ := hm
    rename_i b' hf
    obtain ⟨pre, e, hr⟩ := h i a _ hp
    exact ⟨pre, e, a, hf, hr⟩
  · simp at hm
  · simp at hm

/-- `mapOrPanic` is panic-free when `f` is defined on everything `p` can return. -/
theorem noPanic_mapOrPanic {p : P ι α} {R} (site : Text) (f : α → Option β) (hs : Sound p R)
    (hn : NoPanic p) (hf : ∀ pre a, R pre a → (f a).isSome) : NoPanic (mapOrPanic site f p) := by
  intro i s hm
  simp only [mapOrPanic] at hm
  split at hm
  · rename_i a r' hp
    obtain ⟨pre, _, hr⟩ := hs i a _ hp
    have := hf pre a hr
    split at hm
    · simp at hm
    · rename_i hnone; simp [hnone] at this
  · simp at hm
  · rename_i s' hp; exact hn i s' hp

theorem sound_pair {p : P ι α} {q : P ι β} {R S} (hp : Sound p R) (hq : Sound q S) :
    Sound (pair p q) (fun pre ab => ∃ p1 p2, pre = p1 ++ p2 ∧ R p1 ab.1 ∧ S p2 ab.2) := by
  intro i ab r h
  simp only [pair] at h
  split at h
  · rename_i a r1 h1
    split at h <;> simp at h
    rename_i b r2 h2
    obtain ⟨rfl, rfl⟩ := h
    obtain ⟨p1, rfl, hr⟩ := hp i a r1 h1
    obtain ⟨p2, rfl, hs⟩ := hq r1 b _ h2
    exact ⟨p1 ++ p2, by simp, p1, p2, rfl, hr, hs⟩
  · simp at h
  · simp at h

theorem noPanic_pair {p : P ι α} {q : P ι β} (hp : NoPanic p) (hq : NoPanic q) : NoPanic (pair p q) := by
  intro i s h
  simp only [pair] at h
  split at h
  · rename_i a r1 h1
    split at h <;> simp at h
    rename_i s' h2
    exact hq _ s' h2
  · simp at h
  · rename_i s' h1; exact hp i s' h1

theorem sound_preceded {p : P ι α} {q : P ι β} {R S} (hp : Sound p R) (hq : Sound q S) :
    Sound (preceded p q) (fun pre b => ∃ p1 p2 a, pre = p1 ++ p2 ∧ R p1 a ∧ S p2 b) := by
  unfold preceded
  refine (sound_map Prod.snd (sound_pair hp hq)).mono ?_
  rintro pre b ⟨⟨a, b'⟩, rfl, p1, p2, e, hr, hs⟩
  exact ⟨p1, p2, a, e, hr, hs⟩

theorem noPanic_preceded {p : P ι α} {q : P ι β} (hp : NoPanic p) (hq : NoPanic q) :
    NoPanic (preceded p q) := noPanic_map _ (noPanic_pair hp hq)

theorem sound_terminated {p : P ι α} {q : P ι β} {R S} (hp : Sound p R) (hq : Sound q S) :
    Sound (terminated p q) (fun pre a => ∃ p1 p2 b, pre = p1 ++ p2 ∧ R p1 a ∧ S p2 b) := by
  unfold terminated
  refine (sound_map Prod.fst (sound_pair hp hq)).mono ?_
  rintro pre a ⟨⟨a', b⟩, rfl, p1, p2, e, hr, hs⟩
  exact ⟨p1, p2, b, e, hr, hs⟩

theorem noPanic_terminated {p : P ι α} {q : P ι β} (hp : NoPanic p) (hq : NoPanic q) :
    NoPanic (terminated p q) := noPanic_map _ (noPanic_pair hp hq)

theorem sound_alt2 {p q : P ι α} {R} (hp : Sound p R) (hq : Sound q R) : Sound (alt2 p q) R := by
  intro i a r h
  simp only [alt2] at h
  split at h
  · exact hq i a r h
  · exact hp i a r h

theorem noPanic_alt2 {p q : P ι α} (hp : NoPanic p) (hq : NoPanic q) : NoPanic (alt2 p q) := by
  intro i s h
  simp only [alt2] at h
  split at h
  · exact hq i s h
  · exact hp i s h

theorem sound_alt {ps : List (P ι α)} {R} (h : ∀ p ∈ ps, Sound p R) : Sound (alt ps) R := by
  induction ps with
  | nil => exact sound_fail R
  | cons p ps ih =>
    cases ps with
    | nil => simpa [alt] using h p (by simp)
    | cons q qs =>
      simp only [alt]
      exact sound_alt2 (h p (by simp)) (ih (fun x hx => h x (by simp [hx])))

theorem noPanic_alt {ps : List (P ι α)} (h : ∀ p ∈ ps, NoPanic p) : NoPanic (alt ps) := by
  induction ps with
  | nil => exact noPanic_fail
  | cons p ps ih =>
    cases ps with
    | nil => simpa [alt] using h p (by simp)
    | cons q qs =>
      simp only [alt]
      exact noPanic_alt2 (h p (by simp)) (ih (fun x hx => h x (by simp [hx])))

theorem sound_cutErr {p : P ι α} {R} (h : Sound p R) : Sound (cutErr p) R := by
  intro i a r hc
  simp only [cutErr] at hc
  split at hc
  · simp at hc
  · exact h i a r hc

theorem noPanic_cutErr {p : P ι α} (h : NoPanic p) : NoPanic (cutErr p) := by
  intro i s hc
  simp only [cutErr] at hc
  split at hc
  · simp at hc
  · exact h i s hc

theorem sound_context {p : P ι α} {R} (c : Ctx) (h : Sound p R) : Sound (context c p) R := by
  intro i a r hc
  simp only [context] at hc
  split at hc
  · simp at hc
  · exact h i a r hc

theorem noPanic_context {p : P ι α} (c : Ctx) (h : NoPanic p) : NoPanic (context c p) := by
  intro i s hc
  simp only [context] at hc
  split at hc
  · simp at hc
  · exact h i s hc

end W
end FV
