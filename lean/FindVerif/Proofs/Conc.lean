import FindVerif.Spec.Conc
/- Invariants of the interleaving machine for well-locked programs. -/
namespace FV
namespace Conc

theorem threads_split {s : St} {i : Nat} {t : TState} (h : s.threads[i]? = some t) (t' : TState) :
    ∃ pre post, s.threads = pre ++ t :: post ∧ s.threads.set i t' = pre ++ t' :: post := by
  have gen : ∀ (l : List TState) (i : Nat), l[i]? = some t → ∃ pre post, l = pre ++ t :: post ∧ l.set i t' = pre ++ t' :: post := by
    intro l
    induction l with
    | nil => intro i h; simp at h
    | cons x xs ih =>
      intro i h
      cases i with
      | zero => simp at h; subst h; exact ⟨[], xs, rfl, rfl⟩
      | succ j =>
        simp at h
        obtain ⟨pre, post, h1, h2⟩ := ih j h
        exact ⟨x :: pre, post, by simp [h1], by simp [h2]⟩
  exact gen _ _ h

/-- The thread is inside a section on port `p`. -/
def onPort (t : TState) (p : Nat) : Bool :=
  match t.todo, t.phase with
  | sec :: _, .inside _ => sec.port == p
  | _, _ => false

/-- Invariant for programs with one mutex per port. -/
structure Inv (mutexOf : Nat → Nat) (s : St) : Prop where
  wl : ∀ t ∈ s.threads, ∀ sec ∈ t.todo, sec.mutex = mutexOf sec.port
  phaseOk : ∀ t ∈ s.threads, ∀ k, t.phase = .inside k → ∃ sec rest, t.todo = sec :: rest ∧ k ≤ sec.pieces.length
  excl : s.threads.Pairwise fun a b => ∀ m, ¬ (holds a m = true ∧ holds b m = true)
  logOk : ∀ p, s.log p = (s.doneRecs p).flatten ++ (s.threads.map (partialOf · p)).flatten

theorem partialOf_nil_of_not_onPort (t : TState) (p : Nat) (h : onPort t p = false) : partialOf t p = [] := by
  unfold partialOf onPort at *
  split <;> simp_all

theorem holds_of_onPort {mutexOf : Nat → Nat} (t : TState) (p : Nat)
    (hwl : ∀ sec ∈ t.todo, sec.mutex = mutexOf sec.port) (h : onPort t p = true) : holds t (mutexOf p) = true := by
  unfold onPort at h
  unfold holds
  split at h
  · rename_i sec rest k htodo hphase
    simp at h
    have := hwl sec (by simp [htodo])
    simp [htodo, hphase, this, h]
  · simp at h

/-- While thread `t` is inside a section on port `q`, no other thread has written part of a record on `q`. -/
theorem others_empty {mutexOf : Nat → Nat} (pre post : List TState) (t : TState) (q : Nat)
    (hwl : ∀ a ∈ pre ++ t :: post, ∀ sec ∈ a.todo, sec.mutex = mutexOf sec.port)
    (hex : (pre ++ t :: post).Pairwise fun a b => ∀ m, ¬ (holds a m = true ∧ holds b m = true))
    (ht : holds t (mutexOf q) = true) :
    (pre.map (partialOf · q)).flatten = [] ∧ (post.map (partialOf · q)).flatten = [] := by
  rw [List.pairwise_append] at hex
  obtain ⟨_, hpost, hcross⟩ := hex
  rw [List.pairwise_cons] at hpost
  constructor
  · apply List.flatten_eq_nil_iff.mpr
    intro l hl
    obtain ⟨a, ha, rfl⟩ := List.mem_map.mp hl
    apply partialOf_nil_of_not_onPort
    cases hon : onPort a q with
    | false => rfl
    | true =>
      exfalso
      have hh := holds_of_onPort (mutexOf := mutexOf) a q (hwl a (by simp [ha])) hon
      exact hcross a ha t (by simp) (mutexOf q) ⟨hh, ht⟩
  · apply List.flatten_eq_nil_iff.mpr
    intro l hl
    obtain ⟨a, ha, rfl⟩ := List.mem_map.mp hl
    apply partialOf_nil_of_not_onPort
    cases hon : onPort a q with
    | false => rfl
    | true =>
      exfalso
      have hh := holds_of_onPort (mutexOf := mutexOf) a q (hwl a (by simp [ha])) hon
      exact hpost.1 a ha (mutexOf q) ⟨ht, hh⟩

theorem held_false_iff (s : St) (m : Nat) : held s m = false ↔ ∀ t ∈ s.threads, holds t m = false := by
  simp [held]

theorem init_inv (prog : List (List Sec)) (mutexOf : Nat → Nat) (h : WellLocked prog mutexOf) : Inv mutexOf (init prog) := by
  refine ⟨?_, ?_, ?_, ?_⟩
  · intro t ht sec hsec
    simp only [init, List.mem_map] at ht
    obtain ⟨secs, hs, rfl⟩ := ht
    exact h secs hs sec hsec
  · intro t ht k hk
    simp only [init, List.mem_map] at ht
    obtain ⟨secs, _, rfl⟩ := ht
    cases hk
  · simp only [init]
    apply List.pairwise_map.mpr
    apply List.Pairwise.imp (R := fun _ _ => True)
    · intro a b _ m hm
      simp [holds] at hm
    · exact List.pairwise_of_forall (fun _ _ => trivial)
  · intro p
    simp only [init, List.flatten_nil, List.nil_append, List.map_map]
    symm
    apply List.flatten_eq_nil_iff.mpr
    intro l hl
    obtain ⟨a, _, rfl⟩ := List.mem_map.mp hl
    simp [partialOf]

end Conc
end FV

namespace FV
namespace Conc

theorem pairwise_replace {pre post : List TState} {t t' : TState}
    (h : (pre ++ t :: post).Pairwise fun a b => ∀ m, ¬ (holds a m = true ∧ holds b m = true))
    (hnew : ∀ m, holds t' m = true → holds t m = true ∨ ∀ a ∈ pre ++ post, holds a m = false) :
    (pre ++ t' :: post).Pairwise fun a b => ∀ m, ¬ (holds a m = true ∧ holds b m = true) := by
  rw [List.pairwise_append] at h ⊢
  obtain ⟨hpre, hpost, hcross⟩ := h
  rw [List.pairwise_cons] at hpost ⊢
  refine ⟨hpre, ⟨?_, hpost.2⟩, ?_⟩
  · intro b hb m ⟨h1, h2⟩
    rcases hnew m h1 with ho | hn
    · exact hpost.1 b hb m ⟨ho, h2⟩
    · have := hn b (by simp [hb]); rw [this] at h2; cases h2
  · intro a ha b hb m ⟨h1, h2⟩
    simp at hb
    rcases hb with rfl | hb
    · rcases hnew m h2 with ho | hn
      · exact hcross a ha t (by simp) m ⟨h1, ho⟩
      · have := hn a (by simp [ha]); rw [this] at h1; cases h1
    · exact hcross a ha b (by simp [hb]) m ⟨h1, h2⟩

/-- Every move keeps the invariant. -/
theorem step_inv {mutexOf : Nat → Nat} {s s' : St} {i : Nat} (hinv : Inv mutexOf s) (h : step s i = some s') :
    Inv mutexOf s' := by
  simp only [step] at h
  cases hti : s.threads[i]? with
  | none => rw [hti] at h; cases h
  | some t =>
    rw [hti] at h; simp only at h
    cases htodo : t.todo with
    | nil => rw [htodo] at h; cases h
    | cons sec rest =>
      rw [htodo] at h
      cases hph : t.phase with
      | idle =>
        rw [hph] at h; simp only at h
        cases hheld : held s sec.mutex with
        | true => rw [hheld] at h; cases h
        | false =>
          rw [hheld] at h; simp only [Bool.false_eq_true, if_false] at h
          cases h
          obtain ⟨pre, post, hsplit, hset⟩ := threads_split hti { todo := sec :: rest, phase := .inside 0 }
          have hfree := (held_false_iff s sec.mutex).mp hheld
          refine ⟨?_, ?_, ?_, ?_⟩
          · intro a ha x hx
            simp only [hset] at ha
            simp at ha
            rcases ha with ha | rfl | ha
            · exact hinv.wl a (by rw [hsplit]; simp [ha]) x hx
            · exact hinv.wl t (by rw [hsplit]; simp) x (by rw [htodo]; simpa using hx)
            · exact hinv.wl a (by rw [hsplit]; simp [ha]) x hx
          · intro a ha k hk
            simp only [hset] at ha
            simp at ha
            rcases ha with ha | rfl | ha
            · exact hinv.phaseOk a (by rw [hsplit]; simp [ha]) k hk
            · simp at hk; subst hk; exact ⟨sec, rest, rfl, by omega⟩
            · exact hinv.phaseOk a (by rw [hsplit]; simp [ha]) k hk
          · simp only [hset]
            have hex := hinv.excl
            rw [hsplit] at hex
            refine pairwise_replace hex ?_
            intro m hm
            right
            intro a ha
            simp [holds] at hm
            subst hm
            exact hfree a (by rw [hsplit]; simp at ha ⊢; rcases ha with ha | ha <;> simp [ha])
          · intro p
            simp only [hset]
            have := hinv.logOk p
            rw [hsplit] at this
            simp only [List.map_append, List.map_cons, List.flatten_append, List.flatten_cons] at this ⊢
            have e1 : partialOf { todo := sec :: rest, phase := Phase.inside 0 } p = [] := by
              simp [partialOf]
            have e2 : partialOf t p = [] := by simp [partialOf, hph]
            rw [e1]; rw [e2] at this; exact this
      | inside k =>
        rw [hph] at h; simp only at h
        have hwlT : ∀ a ∈ s.threads, ∀ x ∈ a.todo, x.mutex = mutexOf x.port := hinv.wl
        have hholdT : holds t (mutexOf sec.port) = true := by
          have := hinv.wl t (List.mem_of_getElem? hti) sec (by simp [htodo])
          simp [holds, htodo, hph, this]
        cases hpiece : sec.pieces[k]? with
        | some piece =>
          rw [hpiece] at h; simp only at h
          cases h
          obtain ⟨pre, post, hsplit, hset⟩ := threads_split hti { todo := sec :: rest, phase := .inside (k + 1) }
          have hklt : k < sec.pieces.length := by
            have := List.getElem?_eq_some_iff.mp hpiece
            exact this.1
          refine ⟨?_, ?_, ?_, ?_⟩
          · intro a ha x hx
            simp only [hset] at ha
            simp at ha
            rcases ha with ha | rfl | ha
            · exact hinv.wl a (by rw [hsplit]; simp [ha]) x hx
            · exact hinv.wl t (by rw [hsplit]; simp) x (by rw [htodo]; simpa using hx)
            · exact hinv.wl a (by rw [hsplit]; simp [ha]) x hx
          · intro a ha k' hk'
            simp only [hset] at ha
            simp at ha
            rcases ha with ha | rfl | ha
            · exact hinv.phaseOk a (by rw [hsplit]; simp [ha]) k' hk'
            · simp at hk'; subst hk'; exact ⟨sec, rest, rfl, by omega⟩
            · exact hinv.phaseOk a (by rw [hsplit]; simp [ha]) k' hk'
          · simp only [hset]
            have hex := hinv.excl
            rw [hsplit] at hex
            refine pairwise_replace hex ?_
            intro m hm
            left
            simp [holds] at hm
            simp [holds, htodo, hph, hm]
          · intro p
            simp only [hset]
            have hlog := hinv.logOk p
            rw [hsplit] at hlog
            simp only [List.map_append, List.map_cons, List.flatten_append, List.flatten_cons] at hlog ⊢
            by_cases hp : sec.port = p
            · subst hp
              have hoth := others_empty (mutexOf := mutexOf) pre post t sec.port (by rw [← hsplit]; exact hwlT)
                (by rw [← hsplit]; exact hinv.excl) hholdT
              have e1 : partialOf { todo := sec :: rest, phase := Phase.inside (k + 1) } sec.port = (sec.pieces.take (k + 1)).flatten := by
                simp [partialOf]
              have e2 : partialOf t sec.port = (sec.pieces.take k).flatten := by simp [partialOf, htodo, hph]
              have e3 : (sec.pieces.take (k + 1)).flatten = (sec.pieces.take k).flatten ++ piece := by
                rw [List.take_succ, hpiece]; simp
              simp only [update, if_true, e1, e3]
              rw [hlog, e2, hoth.1, hoth.2]
              simp
            · have e1 : partialOf { todo := sec :: rest, phase := Phase.inside (k + 1) } p = [] := by simp [partialOf, hp]
              have e2 : partialOf t p = [] := by simp [partialOf, htodo, hph, hp]
              have hp' : ¬ p = sec.port := fun he => hp he.symm
              simp only [update, hp', if_false, e1]
              rw [e2] at hlog; exact hlog
        | none =>
          rw [hpiece] at h; simp only at h
          cases h
          obtain ⟨pre, post, hsplit, hset⟩ := threads_split hti { todo := rest, phase := .idle }
          have hkge : sec.pieces.length ≤ k := by
            have := List.getElem?_eq_none_iff.mp hpiece
            exact this
          refine ⟨?_, ?_, ?_, ?_⟩
          · intro a ha x hx
            simp only [hset] at ha
            simp at ha
            rcases ha with ha | rfl | ha
            · exact hinv.wl a (by rw [hsplit]; simp [ha]) x hx
            · exact hinv.wl t (by rw [hsplit]; simp) x (by simp [htodo]; right; simpa using hx)
            · exact hinv.wl a (by rw [hsplit]; simp [ha]) x hx
          · intro a ha k' hk'
            simp only [hset] at ha
            simp at ha
            rcases ha with ha | rfl | ha
            · exact hinv.phaseOk a (by rw [hsplit]; simp [ha]) k' hk'
            · simp at hk'
            · exact hinv.phaseOk a (by rw [hsplit]; simp [ha]) k' hk'
          · simp only [hset]
            have hex := hinv.excl
            rw [hsplit] at hex
            refine pairwise_replace hex ?_
            intro m hm
            simp [holds] at hm
          · intro p
            simp only [hset]
            have hlog := hinv.logOk p
            rw [hsplit] at hlog
            simp only [List.map_append, List.map_cons, List.flatten_append, List.flatten_cons] at hlog ⊢
            have e1 : partialOf { todo := rest, phase := Phase.idle } p = [] := by simp [partialOf]
            by_cases hp : sec.port = p
            · subst hp
              have hoth := others_empty (mutexOf := mutexOf) pre post t sec.port (by rw [← hsplit]; exact hwlT)
                (by rw [← hsplit]; exact hinv.excl) hholdT
              have e2 : partialOf t sec.port = record sec := by
                simp [partialOf, htodo, hph, record, List.take_of_length_le hkge]
              simp only [update, if_true, e1]
              rw [hlog, e2, hoth.1, hoth.2]
              simp
            · have e2 : partialOf t p = [] := by simp [partialOf, htodo, hph, hp]
              have hp' : ¬ p = sec.port := fun he => hp he.symm
              simp only [update, hp', if_false, e1]
              rw [e2] at hlog; exact hlog

theorem run_inv {mutexOf : Nat → Nat} : ∀ (sched : List Nat) (s : St), Inv mutexOf s → Inv mutexOf (run sched s)
  | [], s, h => h
  | i :: is, s, h => by
    simp only [run]
    cases hs : step s i with
    | none => exact run_inv is s h
    | some s' => exact run_inv is s' (step_inv h hs)

end Conc
end FV
