import FindVerif.Proofs.LexSeq
import FindVerif.Proofs.LexArgs
/- Whole inputs as LAYOUTS: a sequence of written tokens separated by blank runs (or glued where
   the token readers allow it).  The lemmas here turn a layout into what the two lexing phases of
   `_parse` read: the leading options by `leadingGlobals`, the rest by `lex`. -/
namespace FV
open W Spec

/-- `w` is a way to write token `t`: it starts with a non-blank character and, at the start of
    the input and followed by any text `tail` acceptable to `ok`, the token reader returns `t`
    and stops at `tail`, up to blanks it may already have consumed. -/
def Writes (pf : Profile) (ok : Text → Prop) (t : Token) (w : Text) : Prop :=
  (∃ c r, w = c :: r ∧ isBlank c = false) ∧
  ∀ tail, ok tail → ∃ r, token pf (w ++ tail) = .ok t r ∧ r.dropWhile isBlank = tail.dropWhile isBlank

/-- A text that is a layout of the token sequence: each token written in one of its spellings,
    followed by a (possibly empty) run of blanks, such that what follows the token is acceptable
    to it. -/
inductive Layout (pf : Profile) : List Token → Text → Prop
  | nil : Layout pf [] []
  | cons {ok : Text → Prop} {t : Token} {w ws s : Text} {ts : List Token} :
      Writes pf ok t w → (∀ c ∈ ws, isBlank c = true) → ok (ws ++ s) → Layout pf ts s →
      Layout pf (t :: ts) (w ++ (ws ++ s))

theorem Layout.head {pf ts s} (h : Layout pf ts s) : s = [] ∨ ∃ c r, s = c :: r ∧ isBlank c = false := by
  cases h with
  | nil => exact Or.inl rfl
  | cons hw _ _ _ =>
    obtain ⟨⟨c, r, rfl, hc⟩, _⟩ := hw
    exact Or.inr ⟨c, _, rfl, hc⟩

theorem dropWhile_blanks_app (ws s : Text) (hws : ∀ c ∈ ws, isBlank c = true)
    (hs : s = [] ∨ ∃ c r, s = c :: r ∧ isBlank c = false) : (ws ++ s).dropWhile isBlank = s := by
  induction ws with
  | nil =>
    rcases hs with rfl | ⟨c, r, rfl, hc⟩
    · rfl
    · simp [List.dropWhile_cons, hc]
  | cons a ws ih =>
    simp only [List.cons_append, List.dropWhile_cons, hws a (by simp), if_true]
    exact ih (fun c hc => hws c (by simp [hc]))

/-- What the token reader does at the start of a non-empty layout. -/
theorem Layout.inv {pf t ts s} (h : Layout pf (t :: ts) s) :
    ∃ r s1, token pf s = .ok t r ∧ r.dropWhile isBlank = s1 ∧ Layout pf ts s1 ∧ s1.length < s.length := by
  cases h with
  | @cons ok _ w ws s1 _ hw hws hok hrest =>
    obtain ⟨_, hread⟩ := hw
    obtain ⟨r, htok, hr⟩ := hread (ws ++ s1) hok
    have hd : (ws ++ s1).dropWhile isBlank = s1 := dropWhile_blanks_app ws s1 hws hrest.head
    refine ⟨r, s1, htok, by rw [hr, hd], hrest, ?_⟩
    have h1 := (strict_token pf).cons _ _ _ htok
    have h2 := dropWhile_length_le isBlank r
    rw [hr, hd] at h2
    omega

/-- A layout is read token by token. -/
theorem Layout.lexPrefix {pf ts s} (h : Layout pf ts s) : LexPrefix pf s ts [] := by
  induction ts generalizing s with
  | nil => cases h; exact .nil []
  | cons t ts ih =>
    obtain ⟨r, s1, htok, hr, hrest, _⟩ := h.inv
    exact .cons htok (by rw [hr]; exact ih hrest)

/-! ### the option reader against the token reader -/

theorem global_test_cross : crossSafe globalKws testKws = true := by decide
theorem global_action_cross : crossSafe globalKws actionKws = true := by decide

/-- A keyword table backtracks on an input starting with a keyword of another table, whatever
    follows, when neither table has a keyword that is a prefix of one of the other. -/
theorem table_bt2 {α : Type} (alts : List (Text × P Char α)) (hk : ∀ kp ∈ alts, KwAlt kp.1 kp.2)
    (others : List Text) (hx1 : crossSafe (alts.map Prod.fst) others = true)
    (hx2 : crossSafe others (alts.map Prod.fst) = true)
    (kw : Text) (hkw : kw ∈ others) (tail : Text) : Bt (alt (alts.map Prod.snd)) (kw ++ tail) := by
  apply alt_all_bt
  intro q hq
  obtain ⟨kp, hkp, rfl⟩ := List.mem_map.mp hq
  apply hk kp hkp
  apply not_prefix_of_append
  · simp only [crossSafe, List.all_eq_true] at hx1
    simpa using hx1 kp.1 (List.mem_map_of_mem hkp) kw hkw
  · simp only [crossSafe, List.all_eq_true] at hx2
    simpa using hx2 kw hkw kp.1 (List.mem_map_of_mem hkp)

theorem isPrefix_eq_append : ∀ (w i : Text), isPrefix w i = true → i = w ++ i.drop w.length
  | [], _, _ => rfl
  | _ :: _, [], h => by simp [isPrefix] at h
  | a :: w, b :: i, h => by
    simp only [isPrefix, Bool.and_eq_true, decide_eq_true_eq] at h
    obtain ⟨rfl, h2⟩ := h
    simp only [List.cons_append, List.length_cons, List.drop_succ_cons]
    rw [← isPrefix_eq_append w i h2]

/-- The option reader backtracks unless the input starts with one of its four keywords. -/
theorem parseGlobal_bt (i : Text) (h : ∀ kw ∈ globalKws, isPrefix kw i = false) : Bt parseGlobal i := by
  unfold parseGlobal
  apply bt_context
  apply alt_all_bt
  intro p hp
  simp only [List.mem_cons, List.mem_nil_iff, or_false] at hp
  rcases hp with rfl | rfl | rfl | rfl
  · exact ⟨[], i, by simp [value, map, lit_fail (cl!"-depth") i (h _ (by simp [globalKws]))]⟩
  · exact unary_bt _ _ _ i (h _ (by simp [globalKws]))
  · exact unary_bt _ _ _ i (h _ (by simp [globalKws]))
  · exact unary_bt _ _ _ i (h _ (by simp [globalKws]))

/-- On an input starting with an option keyword — whatever follows — every alternative of `token`
    before the option reader backtracks. -/
theorem token_at_global (pf : Profile) (kw : Text) (hkw : kw ∈ globalKws) (tail : Text) :
    token pf (kw ++ tail) =
      context (label (cl!"syntax"))
        (alt [map Token.global parseGlobal, map Token.positional parsePositional,
              context (expected (cl!"invalid_token")) fail]) (kw ++ tail) := by
  have hfront := front_bt globalKws globalKws_front kw hkw tail
  have htest : Bt (map Token.test (parseTest pf)) (kw ++ tail) := by
    apply bt_map; unfold parseTest; apply bt_context
    exact table_bt2 (testAlts pf) (testAlts_kwAlt pf) globalKws (by rw [testKws_eq]; exact test_global_cross)
      (by rw [testKws_eq]; exact global_test_cross) kw hkw tail
  have hact : Bt (map Token.action (parseAction pf)) (kw ++ tail) := by
    apply bt_map; unfold parseAction; apply bt_context
    exact table_bt2 (actionAlts pf) (actionAlts_kwAlt pf) globalKws (by rw [actionKws_eq]; exact action_global_cross)
      (by rw [actionKws_eq]; exact global_action_cross) kw hkw tail
  rw [token_shape]
  have hskip := alt_skip
    [ value Token.lparen (lit (cl!"(")), value Token.rparen (lit (cl!")")), value Token.not (lit (cl!"!")),
      value Token.comma (lit (cl!",")), opAlt Token.or (cl!"-or") (cl!"-o"), opAlt Token.and (cl!"-and") (cl!"-a"),
      map Token.test (parseTest pf), map Token.action (parseAction pf) ]
    (map Token.global parseGlobal)
    [map Token.positional parsePositional, context (expected (cl!"invalid_token")) fail]
    (kw ++ tail) (by
      intro q hq
      simp only [List.mem_cons, List.mem_nil_iff, or_false] at hq
      rcases hq with h | h | h | h | h | h | h | h
      · exact hfront q (by simp [h])
      · exact hfront q (by simp [h])
      · exact hfront q (by simp [h])
      · exact hfront q (by simp [h])
      · exact hfront q (by simp [h])
      · exact hfront q (by simp [h])
      · rw [h]; exact htest
      · rw [h]; exact hact)
  simp only [List.cons_append, List.nil_append] at hskip
  simp only [context, hskip]

/-- Where the token reader returns something that is not an option, the option reader backtracks. -/
theorem token_nonglobal_bt (pf : Profile) (i : Text) (t : Token) (r : Text) (h : token pf i = .ok t r)
    (hg : isGlobalTok t = false) : Bt parseGlobal i := by
  by_cases hb : ∀ kw ∈ globalKws, isPrefix kw i = false
  · exact parseGlobal_bt i hb
  · have : ∃ kw ∈ globalKws, isPrefix kw i = true := by
      apply Classical.byContradiction
      intro hne
      apply hb
      intro kw hkw
      cases hp : isPrefix kw i with
      | false => rfl
      | true => exact absurd ⟨kw, hkw, hp⟩ hne
    obtain ⟨kw, hkw, hp⟩ := this
    have hi := isPrefix_eq_append kw i hp
    rw [hi] at h ⊢
    rw [token_at_global pf kw hkw] at h
    cases hpg : parseGlobal (kw ++ i.drop kw.length) with
    | ok g r' =>
      have h2 := alt_head_ok (map Token.global parseGlobal) [map Token.positional parsePositional,
        context (expected (cl!"invalid_token")) fail] (kw ++ i.drop kw.length) (Token.global g) r' (by simp [map, hpg])
      simp only [context, h2] at h
      injection h with ht _
      subst ht
      simp [isGlobalTok] at hg
    | err k c r' =>
      cases k with
      | false => exact ⟨c, r', hpg⟩
      | true =>
        have h2 := alt_head_cut (map Token.global parseGlobal) [map Token.positional parsePositional,
          context (expected (cl!"invalid_token")) fail] (kw ++ i.drop kw.length) c r' (by simp [map, hpg])
        simp [context, h2] at h
    | panic x => exact absurd hpg (strict_parseGlobal.np _ _)

/-- Where the token reader returns an option, the option reader returns it too, leaving the same rest. -/
theorem token_global_inv (pf : Profile) (i : Text) (g : GlobalOption) (r : Text)
    (h : token pf i = .ok (.global g) r) : parseGlobal i = .ok g r := by
  simp only [token, context] at h
  split at h
  · cases h
  · rename_i hh
    rw [h] at hh
    obtain ⟨p, hp, hok⟩ := alt_ok_mem h
    simp at hp
    rcases hp with rfl | rfl | rfl | rfl | rfl | rfl | rfl | rfl | rfl | rfl | rfl
    all_goals first
      | (obtain ⟨_, hc, _⟩ := out_map (Q := fun _ => True) _ (fun _ _ _ _ => trivial) i _ r hok; cases hc; done)
      | (simp only [map] at hok
         cases hpg : parseGlobal i with
         | ok g' r' => rw [hpg] at hok; simp at hok; rw [hok.1, hok.2]
         | err k c r' => rw [hpg] at hok; simp at hok
         | panic x => rw [hpg] at hok; simp at hok)
      | (simp [context, fail] at hok)

theorem parseGlobal_nil' : Bt parseGlobal [] := parseGlobal_bt [] (by intro kw hkw; simp [globalKws] at hkw; rcases hkw with rfl | rfl | rfl | rfl <;> rfl)

theorem optBody_bt {i : Text} (h : Bt parseGlobal i) : Bt (terminated parseGlobal multispace0) i := by
  obtain ⟨c, r, h⟩ := h
  exact ⟨c, r, by simp [terminated, map, pair, h]⟩

/-- The leading-options loop on a layout: it reads exactly the leading option tokens and stops at
    the layout of the remaining tokens. -/
theorem optLoop_layout (pf : Profile) : ∀ (gs : List GlobalOption) (ts : List Token) (s : Text) (n : Nat)
    (acc : List GlobalOption), Layout pf (gs.map Token.global ++ ts) s →
    (ts = [] ∨ ∃ t ts', ts = t :: ts' ∧ isGlobalTok t = false) → s.length < n →
    ∃ s', repeatFold pf (terminated parseGlobal multispace0) (fun acc a => a :: acc) n acc s = .ok (gs.reverse ++ acc) s' ∧
      Layout pf ts s'
  | [], ts, s, n, acc, hL, hts, hn => by
    obtain ⟨m, rfl⟩ : ∃ m, n = m + 1 := ⟨n - 1, by omega⟩
    simp only [List.map_nil, List.nil_append] at hL
    refine ⟨s, ?_, hL⟩
    have hbt : Bt (terminated parseGlobal multispace0) s := by
      rcases hts with rfl | ⟨t, ts', rfl, hg⟩
      · cases hL; exact optBody_bt parseGlobal_nil'
      · obtain ⟨r, _, htok, _⟩ := hL.inv
        exact optBody_bt (token_nonglobal_bt pf s t r htok hg)
    obtain ⟨c, r, hbt⟩ := hbt
    simpa using repeatFold_stop pf m acc s c r hbt
  | g :: gs, ts, s, n, acc, hL, hts, hn => by
    obtain ⟨m, rfl⟩ : ∃ m, n = m + 1 := ⟨n - 1, by omega⟩
    simp only [List.map_cons, List.cons_append] at hL
    obtain ⟨r, s1, htok, hr, hrest, hlen⟩ := hL.inv
    have hpg := token_global_inv pf s g r htok
    have hbody : terminated parseGlobal multispace0 s = .ok g s1 := by
      simp [terminated, map, pair, hpg, multispace0_ok, hr]
    rw [repeatFold_step pf m acc s g s1 hbody hlen]
    obtain ⟨s', h1, h2⟩ := optLoop_layout pf gs ts s1 m (g :: acc) hrest hts (by omega)
    exact ⟨s', by simpa using h1, h2⟩

/-- `leadingGlobals` on blanks followed by a layout. -/
theorem leadingGlobals_layout (pf : Profile) (lead s : Text) (gs : List GlobalOption) (ts : List Token)
    (hlead : ∀ c ∈ lead, isBlank c = true) (hL : Layout pf (gs.map Token.global ++ ts) s)
    (hts : ts = [] ∨ ∃ t ts', ts = t :: ts' ∧ isGlobalTok t = false) :
    ∃ s', leadingGlobals pf (lead ++ s) = .ok gs s' ∧ Layout pf ts s' := by
  have hd : (lead ++ s).dropWhile isBlank = s := dropWhile_blanks_app lead s hlead hL.head
  obtain ⟨s', h1, h2⟩ := optLoop_layout pf gs ts s (s.length + 1) [] hL hts (by omega)
  refine ⟨s', ?_, h2⟩
  simp only [leadingGlobals, preceded, map, pair, multispace0_ok, hd, repeat0, h1]
  simp

end FV
