import FindVerif.Proofs.FormatElem
/- Loop level of the format-string proof: the nested `repeat`/`repeat_till` of
   `Vec::<FormatElement>::parse` computes the one-pass segmentation of the spec. -/
namespace FV
open W Spec.Printf

theorem parseElement_spec (i : Text) :
    match specHead i with
    | .elem el r => parseElement i = .ok el r
    | .bad => ∃ c r, parseElement i = .err true c r
    | .plain => ∃ c r, parseElement i = .err false c r := by
  cases i with
  | nil =>
    obtain ⟨c1, r1, h1⟩ := parseField_other [] (by intro cs h; cases h)
    obtain ⟨c2, r2, h2⟩ := parseSpecial_other [] (by intro cs h; cases h)
    simp [specHead, parseElement, alt, alt2, map, h1, h2]
  | cons d r =>
    by_cases hp : d = '%'
    · subst hp
      have := parseField_spec r
      simp only [specHead]
      cases hd : directive r with
      | some fr =>
        obtain ⟨f, r'⟩ := fr
        rw [hd] at this
        cases hpf : parseField ('%' :: r) with
        | ok b rr => rw [hpf] at this; simp [Res.toOpt] at this; simp [parseElement, alt, alt2, map, hpf, this.1, this.2]
        | err k c rr => rw [hpf] at this; simp [Res.toOpt] at this
        | panic s => rw [hpf] at this; simp [Res.toOpt] at this
      | none =>
        rw [hd] at this
        cases hpf : parseField ('%' :: r) with
        | ok b rr => rw [hpf] at this; simp [Res.toOpt] at this
        | err k c rr =>
          rw [hpf] at this
          have hk := this.2 (by simp [Res.toOpt])
          cases k with
          | true => simp [parseElement, alt, alt2, map, hpf]
          | false => simp [Res.isCut] at hk
        | panic s => rw [hpf] at this; have := this.2 (by simp [Res.toOpt]); simp [Res.isCut] at this
    · by_cases hb : d = '\\'
      · subst hb
        obtain ⟨c1, r1, h1⟩ := parseField_other ('\\' :: r) (by intro cs h; cases h)
        simp [specHead, parseElement, alt, alt2, map, h1, parseSpecial_spec]
      · obtain ⟨c1, r1, h1⟩ := parseField_other (d :: r) (by intro cs h; cases h; exact hp rfl)
        obtain ⟨c2, r2, h2⟩ := parseSpecial_other (d :: r) (by intro cs h; cases h; exact hb rfl)
        have : specHead (d :: r) = .plain := by
          unfold specHead
          split
          · rename_i heq; simp at heq; exact absurd heq.1 hp
          · rename_i heq; simp at heq; exact absurd heq.1 hb
          · rfl
        simp [this, parseElement, alt, alt2, map, h1, h2]

/-- Where the next element is. -/
inductive Scan where
  | found (pre : Text) (el : FormatElement) (rest : Text)
  | bad
  | eof

/-- Scan forward to the next directive or escape. -/
def scan : Text → Scan
  | [] => .eof
  | c :: cs =>
    match specHead (c :: cs) with
    | .elem el r => .found [] el r
    | .bad => .bad
    | .plain =>
      match scan cs with
      | .found pre el r => .found (c :: pre) el r
      | .bad => .bad
      | .eof => .eof

theorem specHead_nil : specHead [] = .plain := rfl

/-- The element reader leaves a suffix of its input (so the scan's rest is shorter). -/
theorem specHead_rest (i : Text) (el : FormatElement) (r : Text) (h : specHead i = .elem el r) : r.length < i.length := by
  have := parseElement_spec i
  rw [h] at this
  exact strict_parseElement.cons i el r this

theorem scan_rest : ∀ (i : Text) (pre : Text) (el : FormatElement) (r : Text), scan i = .found pre el r →
    r.length < i.length ∧ pre.length < i.length := by
  intro i
  induction i with
  | nil => intro pre el r h; simp [scan] at h
  | cons c cs ih =>
    intro pre el r h
    simp only [scan] at h
    cases hs : specHead (c :: cs) with
    | elem el' r' =>
      rw [hs] at h; simp at h
      obtain ⟨rfl, rfl, rfl⟩ := h
      exact ⟨specHead_rest _ _ _ hs, by simp⟩
    | bad => rw [hs] at h; simp at h
    | plain =>
      rw [hs] at h; simp only at h
      cases hsc : scan cs with
      | found pre' el' r' =>
        rw [hsc] at h; simp at h
        obtain ⟨rfl, rfl, rfl⟩ := h
        have := ih pre' el' r' hsc
        simp; omega
      | bad => rw [hsc] at h; simp at h
      | eof => rw [hsc] at h; simp at h

/-- The inner `repeat_till(0.., any, element)` loop finds exactly the scan's next element. -/
theorem inner_spec (pf : Profile) : ∀ (i : Text) (fuel : Nat) (acc : List Char), i.length < fuel →
    match scan i with
    | .found pre el r => repeatTillLoop pf any parseElement fuel acc i = .ok (acc.reverse ++ pre, el) r
    | .bad => ∃ c r, repeatTillLoop pf any parseElement fuel acc i = .err true c r
    | .eof => ∃ c r, repeatTillLoop pf any parseElement fuel acc i = .err false c r := by
  intro i
  induction i with
  | nil =>
    intro fuel acc hf
    cases fuel with
    | zero => omega
    | succ n =>
      have := parseElement_spec []
      simp only [specHead_nil] at this
      obtain ⟨c, r, hpe⟩ := this
      simp [scan, repeatTillLoop, hpe, any]
  | cons d cs ih =>
    intro fuel acc hf
    cases fuel with
    | zero => omega
    | succ n =>
      have hpe := parseElement_spec (d :: cs)
      simp only [scan]
      cases hs : specHead (d :: cs) with
      | elem el r => rw [hs] at hpe; simp [repeatTillLoop, hpe]
      | bad => rw [hs] at hpe; obtain ⟨c, r, hpe⟩ := hpe; exact ⟨c, r, by simp [repeatTillLoop, hpe]⟩
      | plain =>
        rw [hs] at hpe
        obtain ⟨c, r, hpe⟩ := hpe
        have := ih n (d :: acc) (by simp at hf; omega)
        simp only
        cases hsc : scan cs with
        | found pre el r' =>
          rw [hsc] at this
          simp [repeatTillLoop, hpe, any, this]
        | bad =>
          rw [hsc] at this
          obtain ⟨c', r', h'⟩ := this
          exact ⟨c', r', by simp [repeatTillLoop, hpe, any, h']⟩
        | eof =>
          rw [hsc] at this
          obtain ⟨c', r', h'⟩ := this
          exact ⟨c', r', by simp [repeatTillLoop, hpe, any, h']⟩

theorem directive_rest (es : Text) (f : FormatField) (rest : Text) (h : directive es = some (f, rest)) :
    rest.length ≤ es.length := by
  have := specHead_rest ('%' :: es) (.field f) rest (by simp [specHead, h])
  simp at this; omega

theorem escape_rest (es : Text) : (escape es).2.length ≤ es.length := by
  have := specHead_rest ('\\' :: es) (.special (escape es).1) (escape es).2 (by simp [specHead])
  simp at this; omega

/-- Fuel does not matter for the spec's scanner once it covers the input. -/
theorem segAux_fuel : ∀ (n : Nat) (j : Text) (a b : Nat) (bf : Text), j.length ≤ n → j.length < a → j.length < b →
    segAux a bf j = segAux b bf j := by
  intro n
  induction n with
  | zero =>
    intro j a b bf hn ha hb
    have : j = [] := by cases j <;> simp_all
    subst this
    cases a <;> cases b <;> simp_all [segAux]
  | succ n ih =>
    intro j a b bf hn ha hb
    cases j with
    | nil => cases a <;> cases b <;> simp_all [segAux]
    | cons e es =>
      cases a with
      | zero => omega
      | succ a' => cases b with
        | zero => omega
        | succ b' =>
          simp only [List.length_cons] at hn ha hb
          simp only [segAux]
          by_cases h1 : e = '%'
          · simp only [h1, if_true]
            cases hd : directive es with
            | none => rfl
            | some fr =>
              obtain ⟨f, rest⟩ := fr
              have hl := directive_rest es f rest hd
              simp only
              rw [ih rest a' b' [] (by omega) (by omega) (by omega)]
          · by_cases h2 : e = '\\'
            · subst h2
              have hne : ('\\' : Char) ≠ '%' := by decide
              simp only [hne, if_false, if_true]
              have hl := escape_rest es
              rw [ih (escape es).2 a' b' [] (by omega) (by omega) (by omega)]
            · simp only [h1, h2, if_false]
              exact ih es a' b' (e :: bf) (by omega) (by omega) (by omega)

/-- The spec's scanner, expressed through `scan`. -/
theorem segAux_scan : ∀ (i : Text) (fuel : Nat) (buf : Text), i.length < fuel →
    segAux fuel buf i =
      match scan i with
      | .found pre el r => (segAux (r.length + 1) [] r).map fun tl => flush (pre.reverse ++ buf) ++ el :: tl
      | .bad => none
      | .eof => some (flush (i.reverse ++ buf)) := by
  intro i
  induction i with
  | nil =>
    intro fuel buf hf
    cases fuel with
    | zero => omega
    | succ n => simp [segAux, scan]
  | cons d cs ih =>
    intro fuel buf hf
    cases fuel with
    | zero => omega
    | succ n =>
      simp only [List.length_cons] at hf
      simp only [segAux, scan]
      by_cases h1 : d = '%'
      · subst h1
        simp only [if_true, specHead]
        cases hd : directive cs with
        | none => rfl
        | some fr =>
          obtain ⟨f, rest⟩ := fr
          have hl := directive_rest cs f rest hd
          simp only
          rw [segAux_fuel rest.length rest n (rest.length + 1) [] (Nat.le_refl _) (by omega) (by omega)]
          simp
      · by_cases h2 : d = '\\'
        · subst h2
          have hne : ('\\' : Char) ≠ '%' := by decide
          simp only [hne, if_false, if_true, specHead]
          have hl := escape_rest cs
          rw [segAux_fuel (escape cs).2.length (escape cs).2 n ((escape cs).2.length + 1) [] (Nat.le_refl _) (by omega) (by omega)]
          simp
        · have hpl : specHead (d :: cs) = .plain := by
            unfold specHead
            split
            · rename_i heq; simp at heq; exact absurd heq.1 h1
            · rename_i heq; simp at heq; exact absurd heq.1 h2
            · rfl
          simp only [h1, h2, if_false, hpl]
          rw [ih n (d :: buf) (by omega)]
          cases scan cs with
          | found pre el r => simp
          | bad => rfl
          | eof => simp

end FV

namespace FV
open W Spec.Printf

/-- One iteration of the outer loop: literal-so-far plus element. -/
def fmtBody (pf : Profile) : P Char (List FormatElement) := map litThen (repeatTill0 pf any parseElement)

theorem fmtBody_spec (pf : Profile) (i : Text) :
    match scan i with
    | .found pre el r => fmtBody pf i = .ok (flush pre.reverse ++ [el]) r
    | .bad => ∃ c r, fmtBody pf i = .err true c r
    | .eof => ∃ c r, fmtBody pf i = .err false c r := by
  have := inner_spec pf i (i.length + 1) [] (by omega)
  cases hs : scan i with
  | found pre el r =>
    rw [hs] at this
    simp only [fmtBody, map, repeatTill0, this]
    simp [litThen, flush]
    cases pre <;> simp
  | bad =>
    rw [hs] at this
    obtain ⟨c, r, h⟩ := this
    exact ⟨c, r, by simp [fmtBody, map, repeatTill0, h]⟩
  | eof =>
    rw [hs] at this
    obtain ⟨c, r, h⟩ := this
    exact ⟨c, r, by simp [fmtBody, map, repeatTill0, h]⟩

theorem repeat0_any (pf : Profile) (i : Text) : repeat0 pf (any : P Char Char) i = .ok i [] := by
  have gen : ∀ (j : Text) (fuel : Nat) (acc : List Char), j.length < fuel →
      repeatFold pf (any : P Char Char) (fun acc a => a :: acc) fuel acc j = .ok (j.reverse ++ acc) [] := by
    intro j
    induction j with
    | nil => intro fuel acc h; cases fuel with
      | zero => omega
      | succ n => simp [repeatFold, any]
    | cons c cs ih =>
      intro fuel acc h
      cases fuel with
      | zero => omega
      | succ n =>
        simp only [repeatFold, any]
        have : cs.length ≠ (c :: cs).length := by simp
        simp only [this, if_false]
        rw [ih n (c :: acc) (by simp at h; omega)]
        simp
  simp [repeat0, map, gen i (i.length + 1) [] (by omega)]

/-- Outer loop, then the literal suffix, as one function: `none` = error. -/
def fmtResult (pf : Profile) (fuel : Nat) (els : List FormatElement) (i : Text) : Option (List FormatElement) :=
  match repeatFold pf (fmtBody pf) (fun acc e => acc ++ e) fuel els i with
  | .ok l r => some (if r.isEmpty then l else l ++ [.literal r])
  | _ => none

theorem consumes_fmtBody (pf : Profile) : Consumes (fmtBody pf) :=
  (strict_map litThen (strict_repeatTill0 pf strict_any strict_parseElement)).cons

/-- The outer `repeat(0.., body).fold` loop followed by the literal suffix computes the spec's
    segmentation of the remaining input, appended to what has been collected; an invalid
    directive is a hard error. -/
theorem outer_spec (pf : Profile) : ∀ (n : Nat) (i : Text) (fuel : Nat) (els : List FormatElement),
    i.length ≤ n → i.length < fuel →
    fmtResult pf fuel els i = (segAux (i.length + 1) [] i).map (els ++ ·) ∧
    (segAux (i.length + 1) [] i = none →
      ∃ c r, repeatFold pf (fmtBody pf) (fun acc e => acc ++ e) fuel els i = .err true c r) := by
  intro n
  induction n with
  | zero =>
    intro i fuel els hn hf
    have : i = [] := by cases i <;> simp_all
    subst this
    cases fuel with
    | zero => omega
    | succ k =>
      have hb := fmtBody_spec pf []
      simp only [scan] at hb
      obtain ⟨c, r, hb⟩ := hb
      simp [fmtResult, repeatFold, hb, segAux, flush]
  | succ n ih =>
    intro i fuel els hn hf
    cases fuel with
    | zero => omega
    | succ k =>
      have hb := fmtBody_spec pf i
      have hsp := segAux_scan i (i.length + 1) [] (by omega)
      cases hs : scan i with
      | found pre el r =>
        rw [hs] at hb hsp
        have hr := (scan_rest i pre el r hs).1
        simp only at hb hsp
        have hstep := repeatFold_step pf k els i _ r hb hr (g := fun acc e => acc ++ e)
        have hih := ih r k (els ++ (flush pre.reverse ++ [el])) (by omega) (by omega)
        refine ⟨?_, ?_⟩
        · simp only [fmtResult, hstep]
          have := hih.1
          simp only [fmtResult] at this
          rw [this, hsp]
          cases segAux (r.length + 1) [] r with
          | none => rfl
          | some tl => simp [List.append_assoc]
        · intro hnone
          rw [hsp] at hnone
          have : segAux (r.length + 1) [] r = none := by
            cases hx : segAux (r.length + 1) [] r with
            | none => rfl
            | some tl => rw [hx] at hnone; simp at hnone
          obtain ⟨c, r', h'⟩ := hih.2 this
          exact ⟨c, r', by rw [hstep]; exact h'⟩
      | bad =>
        rw [hs] at hb hsp
        obtain ⟨c, r, hb⟩ := hb
        simp only at hsp
        refine ⟨by simp [fmtResult, repeatFold, hb, hsp], fun _ => ⟨c, r, by simp [repeatFold, hb]⟩⟩
      | eof =>
        rw [hs] at hb hsp
        obtain ⟨c, r, hb⟩ := hb
        simp only at hsp
        refine ⟨?_, fun hnone => by rw [hsp] at hnone; simp at hnone⟩
        simp only [fmtResult, repeatFold_stop pf k els i c r hb, hsp, Option.map_some]
        cases i with
        | nil => simp [flush]
        | cons d ds => simp [flush]

/-- `Vec::<FormatElement>::parse` computes the spec's segmentation: success with exactly those
    elements and nothing left over, or a hard error exactly when the spec rejects. -/
theorem parseFormat_spec (pf : Profile) (s : Text) :
    match seg s with
    | some els => parseFormat pf s = .ok els []
    | none => ∃ c r, parseFormat pf s = .err true c r := by
  have ho := outer_spec pf s.length s (s.length + 1) [] (Nat.le_refl _) (by omega)
  simp only [seg]
  have hshape : parseFormat pf s =
      match repeatFold pf (fmtBody pf) (fun acc e => acc ++ e) (s.length + 1) [] s with
      | .ok l r =>
        (match repeat0 pf any r with
         | .ok suf r' => .ok (if suf.isEmpty then l else l ++ [.literal suf]) r'
         | .err k c r' => .err k (c ++ [expected (cl!"format_string")]) r'
         | .panic x => .panic x)
      | .err k c r => .err k (c ++ [expected (cl!"format_string")]) r
      | .panic x => .panic x := by
    simp only [parseFormat, context, map, pair, fmtBody]
    cases repeatFold pf (map litThen (repeatTill0 pf any parseElement)) (fun acc e => acc ++ e) (s.length + 1) [] s with
    | ok l r => simp only; cases repeat0 pf any r <;> rfl
    | err k c r => rfl
    | panic x => rfl
  rw [hshape]
  cases hseg : segAux (s.length + 1) [] s with
  | some els =>
    have h1 := ho.1
    rw [hseg] at h1
    simp only [fmtResult, Option.map_some, List.nil_append] at h1
    cases hr : repeatFold pf (fmtBody pf) (fun acc e => acc ++ e) (s.length + 1) [] s with
    | ok l r =>
      rw [hr] at h1
      simp only [repeat0_any]
      simpa using h1
    | err k c r => rw [hr] at h1; simp at h1
    | panic x => rw [hr] at h1; simp at h1
  | none =>
    obtain ⟨c, r, h⟩ := ho.2 hseg
    simp only [h]
    exact ⟨_, _, rfl⟩

end FV
