import FindVerif.Proofs.Read.Atoms
import FindVerif.Model.Compile
/- Character literals and string literals (with every escape form the generator emits). -/
namespace FV
namespace Scheme

/-! ### character literals `#\xHH` -/

theorem hexDigit_nondelim : ∀ k, k < 16 → isDelim (hexDigit k) = false := by decide

theorem natToHexAux_nondelim : ∀ (fuel n : Nat) (acc : List Char), (∀ c ∈ acc, isDelim c = false) →
    ∀ c ∈ natToHexAux fuel n acc, isDelim c = false := by
  intro fuel
  induction fuel with
  | zero => intro n acc h; simpa [natToHexAux] using h
  | succ f ih =>
    intro n acc h
    simp only [natToHexAux]
    have hd := hexDigit_nondelim (n % 16) (Nat.mod_lt _ (by omega))
    split
    · intro c hc; simp at hc; rcases hc with rfl | hc; exact hd; exact h c hc
    · exact ih _ _ (by intro c hc; simp at hc; rcases hc with rfl | hc; exact hd; exact h c hc)

theorem natToHex_nondelim (n : Nat) : ∀ c ∈ natToHex n, isDelim c = false :=
  natToHexAux_nondelim _ _ [] (by simp)

theorem natToHex_ne_nil (n : Nat) : natToHex n ≠ [] := by
  simp only [natToHex, natToHexAux]
  split
  · simp
  · intro h
    have := (natToHexAux_spec n (n / 16) [hexDigit (n % 16)] 0 (by
      have := Nat.div_add_mod n 16
      by_cases h0 : n = 0
      · subst h0; simp at *
      · omega)).2
    rw [this] at h
    simp at h

theorem hexNum_natToHex02 (n : Nat) : hexNum? (natToHex02 n) = some n ∧ natToHex02 n ≠ [] ∧
    ∀ c ∈ natToHex02 n, isDelim c = false := by
  by_cases hlen : (natToHex n).length < 2
  · simp only [natToHex02, hlen, if_true]
    refine ⟨?_, by simp, ?_⟩
    · have hne := natToHex_ne_nil n
      rw [hexNum_eq _ (by simp)]
      simp only [List.foldl_cons]
      have h0 : hexStep (some 0) '0' = some 0 := by decide
      rw [h0, ← hexNum_eq _ hne, hexNum_natToHex]
    · intro c hc; simp at hc; rcases hc with rfl | hc
      · decide
      · exact natToHex_nondelim n c hc
  · simp only [natToHex02, hlen, if_false]
    exact ⟨hexNum_natToHex n, natToHex_ne_nil n, natToHex_nondelim n⟩

theorem Prints.chr (n : Nat) : Prints (.chr n) (cl!"#\\x" ++ natToHex02 n) := by
  obtain ⟨hnum, hne, hnd⟩ := hexNum_natToHex02 n
  refine ⟨⟨'#', _, rfl, by decide, by decide, by decide⟩, ?_⟩
  intro rest fuel hr hf
  cases fuel with
  | zero => omega
  | succ f =>
    show read1 (f + 1) ('#' :: '\\' :: 'x' :: (natToHex02 n ++ rest)) = _
    have hws : isWs '#' = false := by decide
    simp only [read1, hws, Bool.false_eq_true, if_false, show ¬ ('#' = ';') by decide, show ¬ ('#' = '(') by decide,
      show ¬ ('#' = ')') by decide, show ¬ ('#' = '"') by decide]
    have htw := takeWhile_nondelim (natToHex02 n) rest hnd hr
    have htk : takeTok ('#' :: '\\' :: 'x' :: (natToHex02 n ++ rest)) = ('#' :: '\\' :: 'x' :: natToHex02 n, rest) := by
      simp only [takeTok, htw.1, htw.2]
    rw [htk]
    have hcl : classify ('#' :: '\\' :: 'x' :: natToHex02 n) = some (.chr n) := by
      simp only [classify]
      cases hh : natToHex02 n with
      | nil => exact absurd hh hne
      | cons a as => rw [← hh, hnum]; simp [hh]
    simp [hcl]

/-! ### string literals -/

def simpleEsc (e : Char) : Option Char :=
  if e = '\\' then some '\\' else if e = '"' then some '"' else if e = 'a' then some '\x07'
  else if e = 'b' then some '\x08' else if e = 'f' then some '\x0c' else if e = 'n' then some '\n'
  else if e = 'r' then some '\r' else if e = 't' then some '\t' else if e = 'v' then some '\x0b'
  else if e = '0' then some '\x00' else none

/-- `txt` is the inside of a string literal whose value is `val`. -/
inductive EscapesTo : Text → Text → Prop
  | nil : EscapesTo [] []
  | plain (c : Char) (t v : Text) : c ≠ '"' → c ≠ '\\' → EscapesTo t v → EscapesTo (c :: t) (c :: v)
  | esc (e r : Char) (t v : Text) : simpleEsc e = some r → EscapesTo t v → EscapesTo ('\\' :: e :: t) (r :: v)
  | hex (n : Nat) (t v : Text) : EscapesTo t v → EscapesTo ('\\' :: 'x' :: (natToHex n ++ ';' :: t)) (Char.ofNat n :: v)

theorem EscapesTo.append {a va b vb : Text} (ha : EscapesTo a va) (hb : EscapesTo b vb) : EscapesTo (a ++ b) (va ++ vb) := by
  induction ha with
  | nil => exact hb
  | plain c t v h1 h2 _ ih => exact .plain c _ _ h1 h2 ih
  | esc e r t v h _ ih => exact .esc e r _ _ h ih
  | hex n t v _ ih =>
    have := EscapesTo.hex n _ _ ih
    simpa [List.append_assoc] using this

theorem readStr_escapesTo {txt val : Text} (h : EscapesTo txt val) : ∀ (acc rest : Text) (fuel : Nat), txt.length < fuel →
    readStr fuel acc (txt ++ '"' :: rest) = some (acc.reverse ++ val, rest) := by
  induction h with
  | nil =>
    intro acc rest fuel hf
    cases fuel with
    | zero => omega
    | succ f => simp [readStr]
  | plain c t v h1 h2 _ ih =>
    intro acc rest fuel hf
    cases fuel with
    | zero => omega
    | succ f =>
      simp only [List.cons_append, readStr, h1, h2, if_false]
      rw [ih (c :: acc) rest f (by simp at hf; omega)]
      simp
  | esc e r t v he _ ih =>
    intro acc rest fuel hf
    cases fuel with
    | zero => omega
    | succ f =>
      have hrec := ih (r :: acc) rest f (by simp at hf; omega)
      simp only [List.cons_append, readStr, show ¬ ('\\' = '"') by decide, if_false, if_true]
      unfold simpleEsc at he
      by_cases h1 : e = '\\'
      · simp [h1] at he ⊢; subst he; simpa using hrec
      by_cases h2 : e = '"'
      · simp [h1, h2] at he ⊢; subst he; simpa using hrec
      by_cases h3 : e = 'a'
      · simp [h3] at he ⊢; subst he; simpa using hrec
      by_cases h4 : e = 'b'
      · simp [h4] at he ⊢; subst he; simpa using hrec
      by_cases h5 : e = 'f'
      · simp [h5] at he ⊢; subst he; simpa using hrec
      by_cases h6 : e = 'n'
      · simp [h6] at he ⊢; subst he; simpa using hrec
      by_cases h7 : e = 'r'
      · simp [h7] at he ⊢; subst he; simpa using hrec
      by_cases h8 : e = 't'
      · simp [h8] at he ⊢; subst he; simpa using hrec
      by_cases h9 : e = 'v'
      · simp [h9] at he ⊢; subst he; simpa using hrec
      by_cases h10 : e = '0'
      · simp [h10] at he ⊢; subst he; simpa using hrec
      · simp [h1, h2, h3, h4, h5, h6, h7, h8, h9, h10] at he
  | hex n t v _ ih =>
    intro acc rest fuel hf
    cases fuel with
    | zero => omega
    | succ f =>
      simp only [List.cons_append, List.append_assoc, readStr, show ¬ ('\\' = '"') by decide, if_false, if_true,
        show ¬ ('x' = '\\') by decide, show ¬ ('x' = '"') by decide, show ¬ ('x' = 'a') by decide, show ¬ ('x' = 'b') by decide,
        show ¬ ('x' = 'f') by decide, show ¬ ('x' = 'n') by decide, show ¬ ('x' = 'r') by decide, show ¬ ('x' = 't') by decide,
        show ¬ ('x' = 'v') by decide, show ¬ ('x' = '0') by decide]
      have hsplit := takeWhile_ne_append (d := ';') (natToHex n) (t ++ '"' :: rest) (natToHex_no_semicolon _)
      rw [hsplit.1, hsplit.2, hexNum_natToHex]
      simp only
      rw [ih (Char.ofNat n :: acc) rest f (by simp at hf; omega)]
      simp

/-- A string literal reads as its value. -/
theorem Prints.strOf {txt val : Text} (h : EscapesTo txt val) : Prints (.str val) ('"' :: txt ++ ['"']) := by
  refine ⟨⟨'"', _, rfl, by decide, by decide, by decide⟩, ?_⟩
  intro rest fuel _ hf
  cases fuel with
  | zero => omega
  | succ f =>
    simp only [List.cons_append, List.append_assoc, List.singleton_append, read1]
    have hws : isWs '"' = false := by decide
    simp only [hws, Bool.false_eq_true, if_false, show ¬ ('"' = ';') by decide, show ¬ ('"' = '(') by decide,
      show ¬ ('"' = ')') by decide, if_true]
    simp only [List.nil_append]
    rw [readStr_escapesTo h [] rest _ (by simp; omega)]
    simp

theorem schemeEscape_escapesTo (s : Text) : EscapesTo (schemeEscape s) s := by
  induction s with
  | nil => exact .nil
  | cons c cs ih =>
    simp only [schemeEscape]
    by_cases hq : c = '"'
    · subst hq; simp only [if_true]; exact .esc '"' '"' _ _ rfl ih
    · by_cases hb : c = '\\'
      · subst hb; simp only [hq, if_false, if_true]; exact .esc '\\' '\\' _ _ rfl ih
      · by_cases hc : isControl c = true
        · simp only [hq, hb, hc, if_false, if_true]
          have := EscapesTo.hex c.toNat _ _ ih
          simpa [Char.ofNat_toNat, List.append_assoc] using this
        · simp only [hq, hb, hc, if_false, Bool.false_eq_true]
          exact .plain c _ _ hq hb ih

theorem Prints.str (s : Text) : Prints (.str s) ('"' :: schemeEscape s ++ ['"']) :=
  Prints.strOf (schemeEscape_escapesTo s)

end Scheme
end FV
