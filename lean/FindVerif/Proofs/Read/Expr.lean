import FindVerif.Proofs.Read.Format
import FindVerif.Proofs.C02.GenState
/- Tests, actions and operators: the text generator's output is a rendering of the structured
   generator's output. -/
namespace FV
namespace Scheme

theorem letters_nondelim : ∀ d ∈ (cl!"match"), isDelim d = false := by decide
theorem print_nondelim : ∀ d ∈ (cl!"print"), isDelim d = false := by decide

theorem getMatcher_name (m : Manager) (s : Text) (ci : Bool) : ∃ i, (m.getMatcher s ci).1 = lf3 (cl!"match") i :=
  ⟨_, rfl⟩

theorem getPrinter_name (m : Manager) (t : Option Char) : ∃ i, (m.getPrinter t).1 = lf3 (cl!"print") i := by
  unfold Manager.getPrinter; split <;> exact ⟨_, rfl⟩

theorem getFilePrinter_name (m : Manager) (f : Text) (t : Option Char) : ∃ i, (m.getFilePrinter f t).1 = lf3 (cl!"print") i := by
  unfold Manager.getFilePrinter; split <;> exact ⟨_, rfl⟩

theorem prints_test (clk : Nat → Nat) (t : Test) (st s1 s2 : CState) (txt : Text) (sx : SExp)
    (h1 : compileTest clk t st = .ok (txt, s1)) (h2 : genTest clk t st = .ok (sx, s2)) : Prints sx txt := by
  have nameCase : ∀ (pre : Text) (s : Text) (ci : Bool), GoodSym pre →
      Prints (call pre [sy (st.mgr.getMatcher s ci).1]) (cl!"(" ++ pre ++ cl!" " ++ (st.mgr.getMatcher s ci).1 ++ cl!")") := by
    intro pre s ci hpre
    obtain ⟨i, hi⟩ := getMatcher_name st.mgr s ci
    rw [hi]
    have := prints_app1 hpre (Prints.sym (goodSym_lf3 (cl!"match") letters_nondelim i))
    simpa [sy, List.append_assoc] using this
  cases t <;> simp only [compileTest] at h1 <;> simp only [genTest] at h2
  case accessTime c => cases h1; cases h2; exact prints_timeComp _ _ (by good_sym) c
  case changeTime c => cases h1; cases h2; exact prints_timeComp _ _ (by good_sym) c
  case modifyTime c => cases h1; cases h2; exact prints_timeComp _ _ (by good_sym) c
  case empty => cases h1; cases h2; exact prints_acc _ (by good_sym)
  case executable => cases h1; cases h2; exact prints_acc _ (by good_sym)
  case readable => cases h1; cases h2; exact prints_acc _ (by good_sym)
  case writable => cases h1; cases h2; exact prints_acc _ (by good_sym)
  case false_ => cases h1; cases h2; exact Prints.boolF
  case true_ => cases h1; cases h2; exact Prints.boolT
  case groupId c => cases h1; cases h2; exact prints_formatCmp c _ (by good_sym)
  case userId c => cases h1; cases h2; exact prints_formatCmp c _ (by good_sym)
  case inodeNumber c => cases h1; cases h2; exact prints_formatCmp c _ (by good_sym)
  case links c => cases h1; cases h2; exact prints_formatCmp c _ (by good_sym)
  case mirrorCount c => cases h1; cases h2; exact prints_formatCmp c _ (by good_sym)
  case stripeCount c => cases h1; cases h2; exact prints_formatCmp c _ (by good_sym)
  case size c => cases h1; cases h2; exact prints_sizeComp c
  case type l => cases h1; cases h2; exact prints_typeList l
  case perm p => cases h1; cases h2; exact prints_permCheck p
  case name s => cases h1; cases h2; exact nameCase _ s false (by good_sym)
  case insensitiveName s => cases h1; cases h2; exact nameCase _ s true (by good_sym)
  case path s => cases h1; cases h2; exact nameCase _ s false (by good_sym)
  case insensitivePath s => cases h1; cases h2; exact nameCase _ s true (by good_sym)
  case pool s =>
    cases h1; cases h2
    have := prints_app2 (f := cl!"member") (by good_sym) (Prints.str s) (prints_acc (cl!"lov-pools") (by good_sym))
    simpa [List.append_assoc] using this
  case xattr k =>
    cases h1; cases h2
    have := prints_app1 (f := cl!"xattr?") (by good_sym) (Prints.str k)
    simpa [List.append_assoc] using this
  case xattrMatch k v =>
    by_cases hc : (!(k.any isOffending || v.any isOffending)) = true
    · simp only [hc, if_true] at h1 h2
      cases h1; cases h2
      have hx := prints_app1 (f := cl!"xattr-ref-string") (by good_sym) (Prints.str k)
      have := prints_app2 (f := cl!"equal?") (by good_sym) hx (Prints.str v)
      simpa [List.append_assoc] using this
    · simp only [hc, if_false] at h1 h2
      cases h1; cases h2
      have := prints_app2 (f := cl!"xattr-match?") (by good_sym) (Prints.str k) (Prints.str v)
      simpa [List.append_assoc] using this
  all_goals (split at h1 <;> cases h1)

theorem prints_action (a : Action) (st s1 s2 : CState) (txt : Text) (sx : SExp)
    (h1 : compileAction a st = .ok (txt, s1)) (h2 : genAction a st = .ok (sx, s2)) : Prints sx txt := by
  have pathCase : ∀ (name : Text), (∃ i, name = lf3 (cl!"print") i) →
      Prints (call (cl!"call-with-relative-path") [sy name]) (cl!"(call-with-relative-path " ++ name ++ cl!")") := by
    rintro name ⟨i, rfl⟩
    have := prints_app1 (f := cl!"call-with-relative-path") (by good_sym) (Prints.sym (goodSym_lf3 (cl!"print") print_nondelim i))
    simpa [sy, List.append_assoc] using this
  have fmtCase : ∀ (name : Text) (es : List FormatElement) (m : Manager), (∃ i, name = lf3 (cl!"print") i) →
      (match compileFormat es with
        | .error x => CRes.err x
        | .ok f => CRes.ok (cl!"(" ++ name ++ cl!" " ++ f ++ cl!")", { st with mgr := m })) = CRes.ok (txt, s1) →
      (match genFormat es with
        | .error x => CRes.err x
        | .ok f => CRes.ok (call name [f], { st with mgr := m })) = CRes.ok (sx, s2) → Prints sx txt := by
    rintro name es m ⟨i, rfl⟩ e1 e2
    cases hc : compileFormat es with
    | error x => rw [hc] at e1; cases e1
    | ok ft =>
      cases hg : genFormat es with
      | error x => rw [hg] at e2; cases e2
      | ok fs =>
        rw [hc] at e1; rw [hg] at e2
        simp at e1 e2
        obtain ⟨rfl, _⟩ := e1
        obtain ⟨rfl, _⟩ := e2
        have := prints_app1 (goodSym_lf3 (cl!"print") print_nondelim i) (prints_format es ft fs hc hg)
        simpa [List.append_assoc] using this
  cases a <;> simp only [compileAction] at h1 <;> simp only [genAction] at h2
  case defaultPrint => cases h1; cases h2; exact prints_acc _ (by good_sym)
  case printFid => cases h1; cases h2; exact prints_acc _ (by good_sym)
  case quit =>
    cases h1; cases h2
    have h0 : Prints (.num 0) (cl!"0") := by simpa [natToDec, natToDecAux] using Prints.num 0
    have := prints_app1 (f := cl!"lipe-scan-break") (by good_sym) h0
    simpa [List.append_assoc] using this
  case print => cases h1; cases h2; exact pathCase _ (getPrinter_name _ _)
  case printNull => cases h1; cases h2; exact pathCase _ (getPrinter_name _ _)
  case filePrint d => cases h1; cases h2; exact pathCase _ (getFilePrinter_name _ _ _)
  case filePrintNull d => cases h1; cases h2; exact pathCase _ (getFilePrinter_name _ _ _)
  case printFormatted es => exact fmtCase _ es _ (getPrinter_name _ _) h1 h2
  case filePrintFormatted d es => exact fmtCase _ es _ (getFilePrinter_name _ _ _) h1 h2
  all_goals cases h1

end Scheme
end FV

namespace FV
namespace Scheme

theorem prints_expr (clk : Nat → Nat) : ∀ (e : Expr) (st s1 s2 : CState) (txt : Text) (sx : SExp),
    compileExpr clk e st = .ok (txt, s1) → genExpr clk e st = .ok (sx, s2) → Prints sx txt := by
  intro e
  induction e with
  | test t => intro st s1 s2 txt sx h1 h2; exact prints_test clk t st s1 s2 txt sx (by simpa [compileExpr] using h1) (by simpa [genExpr] using h2)
  | action a => intro st s1 s2 txt sx h1 h2; exact prints_action a st s1 s2 txt sx (by simpa [compileExpr] using h1) (by simpa [genExpr] using h2)
  | global g => intro st s1 s2 txt sx h1; simp [compileExpr] at h1
  | positional p => intro st s1 s2 txt sx h1; simp [compileExpr] at h1
  | prec e _ => intro st s1 s2 txt sx h1; simp [compileExpr] at h1
  | not e ih =>
    intro st s1 s2 txt sx h1 h2
    simp only [compileExpr] at h1
    simp only [genExpr] at h2
    cases hc : compileExpr clk e st with
    | err x => rw [hc] at h1; simp at h1
    | panic s => rw [hc] at h1; simp at h1
    | ok r =>
      obtain ⟨t1, c1⟩ := r
      cases hg : genExpr clk e st with
      | err x => rw [hg] at h2; simp at h2
      | panic s => rw [hg] at h2; simp at h2
      | ok r' =>
        obtain ⟨x1, g1⟩ := r'
        rw [hc] at h1; rw [hg] at h2
        simp at h1 h2
        obtain ⟨rfl, _⟩ := h1
        obtain ⟨rfl, _⟩ := h2
        have := prints_app1 (f := cl!"not") (by good_sym) (ih st c1 g1 t1 x1 hc hg)
        simpa [List.append_assoc] using this
  | and a b iha ihb => intro st s1 s2 txt sx h1 h2; exact bin clk a b iha ihb st s1 s2 txt sx (cl!"and") (by good_sym) (by simpa [compileExpr] using h1) (by simpa [genExpr] using h2)
  | list a b iha ihb => intro st s1 s2 txt sx h1 h2; exact bin clk a b iha ihb st s1 s2 txt sx (cl!"and") (by good_sym) (by simpa [compileExpr] using h1) (by simpa [genExpr] using h2)
  | or a b iha ihb => intro st s1 s2 txt sx h1 h2; exact bin clk a b iha ihb st s1 s2 txt sx (cl!"or") (by good_sym) (by simpa [compileExpr] using h1) (by simpa [genExpr] using h2)
where
  bin (clk : Nat → Nat) (a b : Expr)
      (iha : ∀ (st s1 s2 : CState) (txt : Text) (sx : SExp), compileExpr clk a st = .ok (txt, s1) → genExpr clk a st = .ok (sx, s2) → Prints sx txt)
      (ihb : ∀ (st s1 s2 : CState) (txt : Text) (sx : SExp), compileExpr clk b st = .ok (txt, s1) → genExpr clk b st = .ok (sx, s2) → Prints sx txt)
      (st s1 s2 : CState) (txt : Text) (sx : SExp) (op : Text) (hop : GoodSym op)
      (h1 : compileExpr.bin ('(' :: op ++ [' ']) (compileExpr clk a st) (compileExpr clk b) = .ok (txt, s1))
      (h2 : genExpr.bin op (genExpr clk a st) (genExpr clk b) = .ok (sx, s2)) : Prints sx txt := by
    simp only [compileExpr.bin] at h1
    simp only [genExpr.bin] at h2
    cases hca : compileExpr clk a st with
    | err x => rw [hca] at h1; simp at h1
    | panic s => rw [hca] at h1; simp at h1
    | ok ra =>
      obtain ⟨ta, ca⟩ := ra
      cases hga : genExpr clk a st with
      | err x => rw [hga] at h2; simp at h2
      | panic s => rw [hga] at h2; simp at h2
      | ok ra' =>
        obtain ⟨xa, ga⟩ := ra'
        have hst : ga = ca := by
          have := genExpr_state clk a st
          rw [hca, hga] at this
          simpa [CRes.state] using this
        subst hst
        rw [hca] at h1; rw [hga] at h2
        simp only at h1 h2
        cases hcb : compileExpr clk b ga with
        | err x => rw [hcb] at h1; simp at h1
        | panic s => rw [hcb] at h1; simp at h1
        | ok rb =>
          obtain ⟨tb, cb⟩ := rb
          cases hgb : genExpr clk b ga with
          | err x => rw [hgb] at h2; simp at h2
          | panic s => rw [hgb] at h2; simp at h2
          | ok rb' =>
            obtain ⟨xb, gb⟩ := rb'
            rw [hcb] at h1; rw [hgb] at h2
            simp at h1 h2
            obtain ⟨rfl, _⟩ := h1
            obtain ⟨rfl, _⟩ := h2
            have := prints_app2 hop (iha st ga ga ta xa hca hga) (ihb ga cb gb tb xb hcb hgb)
            simpa [List.append_assoc] using this

end Scheme
end FV
