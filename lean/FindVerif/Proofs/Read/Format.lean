import FindVerif.Proofs.Read.Gen
/- The `format` call: template literal and argument list. -/
namespace FV
namespace Scheme

theorem replaceTilde_append (a b : Text) : replaceTilde (a ++ b) = replaceTilde a ++ replaceTilde b := by
  induction a with
  | nil => rfl
  | cons c cs ih => simp [replaceTilde, ih, List.append_assoc]

theorem replaceTilde_id (t : Text) (h : ∀ c ∈ t, c ≠ '~') : replaceTilde t = t := by
  induction t with
  | nil => rfl
  | cons c cs ih =>
    simp only [replaceTilde, h c (by simp), if_false]
    rw [ih (fun x hx => h x (by simp [hx]))]; rfl

theorem hexDigit_ne_tilde : ∀ k, k < 16 → hexDigit k ≠ '~' := by decide

theorem natToHexAux_no_tilde : ∀ (fuel n : Nat) (acc : List Char), (∀ c ∈ acc, c ≠ '~') →
    ∀ c ∈ natToHexAux fuel n acc, c ≠ '~' := by
  intro fuel
  induction fuel with
  | zero => intro n acc h; simpa [natToHexAux] using h
  | succ f ih =>
    intro n acc h
    simp only [natToHexAux]
    have hd := hexDigit_ne_tilde (n % 16) (Nat.mod_lt _ (by omega))
    split
    · intro c hc; simp at hc; rcases hc with rfl | hc; exact hd; exact h c hc
    · exact ih _ _ (by intro c hc; simp at hc; rcases hc with rfl | hc; exact hd; exact h c hc)

theorem control_ne_tilde (c : Char) (h : isControl c = true) : c ≠ '~' := by
  intro he; subst he; revert h; decide

/-- Literal format text in a template: tildes doubled, then escaped as a string literal. -/
theorem escapes_template (s : Text) : EscapesTo (templateEscape s) (replaceTilde s) := by
  unfold templateEscape
  induction s with
  | nil => exact .nil
  | cons c cs ih =>
    simp only [schemeEscape]
    by_cases hq : c = '"'
    · subst hq
      simp only [if_true, replaceTilde_append]
      have : replaceTilde (cl!"\\\"") = cl!"\\\"" := by decide
      rw [this]
      simp only [replaceTilde, show ¬ ('"' = '~') by decide, if_false]
      exact .esc '"' '"' _ _ rfl ih
    · by_cases hb : c = '\\'
      · subst hb
        simp only [hq, if_false, if_true, replaceTilde_append]
        have : replaceTilde (cl!"\\\\") = cl!"\\\\" := by decide
        rw [this]
        simp only [replaceTilde, show ¬ ('\\' = '~') by decide, if_false]
        exact .esc '\\' '\\' _ _ rfl ih
      · by_cases hc : isControl c = true
        · simp only [hq, hb, hc, if_false, if_true, replaceTilde_append]
          have h1 : replaceTilde (cl!"\\x") = cl!"\\x" := by decide
          have h2 : replaceTilde (natToHex c.toNat) = natToHex c.toNat :=
            replaceTilde_id _ (natToHexAux_no_tilde _ _ [] (by simp))
          have h3 : replaceTilde (cl!";") = cl!";" := by decide
          rw [h1, h2, h3]
          simp only [replaceTilde, control_ne_tilde c hc, if_false]
          have := EscapesTo.hex c.toNat _ _ ih
          simpa [Char.ofNat_toNat, List.append_assoc] using this
        · simp only [hq, hb, hc, if_false, Bool.false_eq_true, replaceTilde_append]
          by_cases ht : c = '~'
          · subst ht
            simp only [replaceTilde, if_true, List.nil_append, List.append_nil]
            exact .plain '~' _ _ (by decide) (by decide) (.plain '~' _ _ (by decide) (by decide) ih)
          · simp only [replaceTilde, ht, if_false, List.nil_append, List.append_nil]
            exact .plain c _ _ hq hb ih

theorem escapes_plain (t : Text) (h : ∀ c ∈ t, c ≠ '"' ∧ c ≠ '\\') : EscapesTo t t := by
  induction t with
  | nil => exact .nil
  | cons c cs ih => exact .plain c _ _ (h c (by simp)).1 (h c (by simp)).2 (ih (fun x hx => h x (by simp [hx])))

theorem escapes_placeholder (f : FormatField) (ph : Text) (h : placeholder f = some ph) : EscapesTo ph ph := by
  apply escapes_plain
  unfold placeholder at h
  split at h
  · cases h
  · split at h <;> first
      | (cases h; decide)
      | (split at h <;> cases h <;> decide)
      | cases h

theorem escapes_special (v : FormatSpecial) (t val : Text) (h1 : specialLiteral v = some t) (h2 : specialValue v = some val) :
    EscapesTo t val := by
  cases v <;> simp [specialLiteral] at h1 <;> simp [specialValue] at h2 <;> subst h1 <;> subst h2
  all_goals first
    | exact escapes_template _
    | exact .esc _ _ _ _ rfl .nil

theorem escapes_element (e : FormatElement) (t val : Text) (h1 : elementTemplate e = .ok t) (h2 : elementValue e = .ok val) :
    EscapesTo t val := by
  cases e with
  | literal s => simp [elementTemplate] at h1; simp [elementValue] at h2; subst h1; subst h2; exact escapes_template s
  | field f =>
    simp only [elementTemplate] at h1; simp only [elementValue] at h2
    cases hp : placeholder f with
    | none => rw [hp] at h1; simp at h1
    | some ph =>
      rw [hp] at h1 h2; simp at h1 h2; subst h1; subst h2
      exact escapes_placeholder f ph hp
  | special v =>
    simp only [elementTemplate] at h1; simp only [elementValue] at h2
    cases hl : specialLiteral v with
    | none => rw [hl] at h1; simp at h1
    | some t' =>
      cases hv : specialValue v with
      | none => rw [hv] at h2; simp at h2
      | some v' =>
        rw [hl] at h1; rw [hv] at h2; simp at h1 h2; subst h1; subst h2
        exact escapes_special v _ _ hl hv

theorem escapes_templateOf : ∀ (es : List FormatElement) (t val : Text),
    templateOf es = .ok t → templateValue es = .ok val → EscapesTo t val
  | [], t, val, h1, h2 => by simp [templateOf] at h1; simp [templateValue] at h2; subst h1; subst h2; exact .nil
  | e :: es, t, val, h1, h2 => by
    simp only [templateOf] at h1
    simp only [templateValue] at h2
    cases he1 : elementTemplate e with
    | error x => rw [he1] at h1; simp at h1
    | ok t1 =>
      cases he2 : elementValue e with
      | error x => rw [he2] at h2; simp at h2
      | ok v1 =>
        rw [he1] at h1; rw [he2] at h2
        cases hr1 : templateOf es with
        | error x => rw [hr1] at h1; simp at h1
        | ok t2 =>
          cases hr2 : templateValue es with
          | error x => rw [hr2] at h2; simp at h2
          | ok v2 =>
            rw [hr1] at h1; rw [hr2] at h2
            simp at h1 h2; subst h1; subst h2
            exact (escapes_element e t1 v1 he1 he2).append (escapes_templateOf es t2 v2 hr1 hr2)

end Scheme
end FV

namespace FV
namespace Scheme

theorem prints_strftime (c : Char) (field : Text) (hf : GoodSym field) :
    Prints (strftimeItem c field) (cl!"(" ++ strftimeSnippet c field ++ cl!")") := by
  unfold strftimeItem strftimeSnippet
  by_cases hc : c = '@'
  · simp only [hc, if_true]; exact prints_acc field hf
  · simp only [hc, if_false]
    have hs : Prints (.str ['%', c]) ('"' :: '%' :: schemeEscape [c] ++ ['"']) := by
      have := Prints.str ['%', c]
      have e : schemeEscape ['%', c] = '%' :: schemeEscape [c] := by
        show (if '%' = '"' then _ else if '%' = '\\' then _ else if isControl '%' then _ else ['%']) ++ schemeEscape [c] = _
        simp [show ¬ ('%' = '"') by decide, show ¬ ('%' = '\\') by decide, show isControl '%' = false by decide]
      rw [e] at this; exact this
    have hl : Prints (call (cl!"localtime") [call field []]) (cl!"(localtime (" ++ field ++ cl!"))") := by
      have := prints_app1 (f := cl!"localtime") (by good_sym) (prints_acc field hf)
      simpa [List.append_assoc] using this
    have := prints_app2 (f := cl!"strftime") (by good_sym) hs hl
    simpa [List.append_assoc] using this

/-- Each argument form is rendered between parentheses as `snippet` writes it. -/
theorem prints_item (f : FormatField) (sx : SExp) (b : Text) (hi : itemS f = some sx) (hb : snippetBody f = some b) :
    Prints sx (cl!"(" ++ b ++ cl!")") := by
  have acc : ∀ (g : Text), GoodSym g → Prints (call g []) (cl!"(" ++ g ++ cl!")") := prints_acc
  cases f <;> simp [itemS, FormatField.unsupported] at hi <;> simp [snippetBody, FormatField.unsupported] at hb <;>
    subst hi <;> subst hb
  case access => exact acc _ (by good_sym)
  case change => exact acc _ (by good_sym)
  case modify => exact acc _ (by good_sym)
  case diskSizeBlocks => exact acc _ (by good_sym)
  case basename => exact acc _ (by good_sym)
  case group => exact acc _ (by good_sym)
  case groupId => exact acc _ (by good_sym)
  case startingPoint => exact acc _ (by good_sym)
  case inodeDecimal => exact acc _ (by good_sym)
  case hardlinks => exact acc _ (by good_sym)
  case name => exact acc _ (by good_sym)
  case nameWithoutStartingPoint => exact acc _ (by good_sym)
  case diskSizeBytes => exact acc _ (by good_sym)
  case user => exact acc _ (by good_sym)
  case userId => exact acc _ (by good_sym)
  case fileId => exact acc _ (by good_sym)
  case stripeSize => exact acc _ (by good_sym)
  case stripeCount => exact acc _ (by good_sym)
  case mirrorCount => exact acc _ (by good_sym)
  case projectId => exact acc _ (by good_sym)
  case parents =>
    have := prints_app1 (f := cl!"call-with-relative-path") (by good_sym) (Prints.sym (x := cl!"dirname") (by good_sym))
    simpa [sy, List.append_assoc] using this
  case diskSizeKilos =>
    have h1 : Prints (.num 1) (cl!"1") := by simpa [natToDec, natToDecAux] using Prints.num 1
    have h2 : Prints (.num 2) (cl!"2") := by simpa [natToDec, natToDecAux] using Prints.num 2
    have hp := prints_app2 (f := cl!"+") (by good_sym) (acc (cl!"blocks") (by good_sym)) h1
    have := prints_app2 (f := cl!"quotient") (by good_sym) hp h2
    simpa [List.append_assoc] using this
  case permissionsOctal =>
    have := prints_app2 (f := cl!"logand") (by good_sym) (acc (cl!"mode") (by good_sym)) Prints.oct7777
    simpa [List.append_assoc] using this
  case sparseness =>
    have h512 : Prints (.num 512) (cl!"512") := by simpa [natToDec, natToDecAux] using Prints.num 512
    have hm := prints_app2 (f := cl!"*") (by good_sym) h512 (acc (cl!"blocks") (by good_sym))
    have := prints_app2 (f := cl!"/") (by good_sym) hm (acc (cl!"size") (by good_sym))
    simpa [List.append_assoc] using this
  case type =>
    have := prints_app1 (f := cl!"type->char") (by good_sym) (acc (cl!"type") (by good_sym))
    simpa [List.append_assoc] using this
  case accessFormatted c => exact prints_strftime c _ (by good_sym)
  case changeFormatted c => exact prints_strftime c _ (by good_sym)
  case modifyFormatted c => exact prints_strftime c _ (by good_sym)
  case xattr a =>
    have hx := prints_app1 (f := cl!"xattr-ref-string") (by good_sym) (Prints.str a)
    have he : Prints (.str []) (cl!"\"\"") := by simpa [schemeEscape] using Prints.str []
    have := prints_app2 (f := cl!"or") (by good_sym) hx he
    simpa [List.append_assoc] using this

end Scheme
end FV

namespace FV
namespace Scheme

theorem strftimeSnippet_ne_nil (c : Char) (field : Text) (hf : field ≠ []) : strftimeSnippet c field ≠ [] := by
  unfold strftimeSnippet; split
  · exact hf
  · simp

theorem item_align (f : FormatField) :
    (itemS f = none ∧ (snippetBody f = none ∨ snippetBody f = some [])) ∨
    (∃ sx b, itemS f = some sx ∧ snippetBody f = some b ∧ b ≠ []) := by
  cases f
  case percent => left; exact ⟨rfl, Or.inr rfl⟩
  case depth => left; exact ⟨rfl, Or.inl rfl⟩
  case deviceNumber => left; exact ⟨rfl, Or.inl rfl⟩
  case fsType => left; exact ⟨rfl, Or.inl rfl⟩
  case symbolicTarget => left; exact ⟨rfl, Or.inl rfl⟩
  case permissionsSymbolic => left; exact ⟨rfl, Or.inl rfl⟩
  case typeSymlink => left; exact ⟨rfl, Or.inl rfl⟩
  case securityContext => left; exact ⟨rfl, Or.inl rfl⟩
  case accessFormatted c => right; exact ⟨_, _, rfl, rfl, strftimeSnippet_ne_nil c _ (by decide)⟩
  case changeFormatted c => right; exact ⟨_, _, rfl, rfl, strftimeSnippet_ne_nil c _ (by decide)⟩
  case modifyFormatted c => right; exact ⟨_, _, rfl, rfl, strftimeSnippet_ne_nil c _ (by decide)⟩
  case xattr a => right; exact ⟨_, _, rfl, rfl, by simp⟩
  all_goals (right; exact ⟨_, _, rfl, rfl, by decide⟩)

/-- The argument lists of the two generators line up item by item. -/
theorem items_pairs : ∀ (es : List FormatElement), ∃ pairs : List (SExp × Text),
    itemsS es = pairs.map (·.1) ∧ itemsOf es = pairs.map (·.2) ∧ ∀ p ∈ pairs, Prints p.1 p.2
  | [] => ⟨[], rfl, rfl, by simp⟩
  | e :: es => by
    obtain ⟨pairs, h1, h2, h3⟩ := items_pairs es
    cases e with
    | literal s => exact ⟨pairs, by simpa [itemsS] using h1, by simpa [itemsOf] using h2, h3⟩
    | special v => exact ⟨pairs, by simpa [itemsS] using h1, by simpa [itemsOf] using h2, h3⟩
    | field f =>
      rcases item_align f with ⟨hi, hb | hb⟩ | ⟨sx, b, hi, hb, hne⟩
      · refine ⟨pairs, ?_, ?_, h3⟩
        · simp only [itemsS, List.filterMap_cons, hi]; exact h1
        · simp only [itemsOf, List.filterMap_cons, hb]; exact h2
      · refine ⟨pairs, ?_, ?_, h3⟩
        · simp only [itemsS, List.filterMap_cons, hi]; exact h1
        · simp only [itemsOf, List.filterMap_cons, hb, List.isEmpty_nil, if_true]; exact h2
      · refine ⟨(sx, cl!"(" ++ b ++ cl!")") :: pairs, ?_, ?_, ?_⟩
        · simp only [itemsS, List.filterMap_cons, hi, List.map_cons]; rw [← h1]; rfl
        · have hbe : b.isEmpty = false := by cases b <;> simp_all
          simp only [itemsOf, List.filterMap_cons, hb, hbe, Bool.false_eq_true, if_false, List.map_cons]; rw [← h2]; rfl
        · intro p hp
          simp at hp
          rcases hp with rfl | hp
          · exact prints_item f sx b hi hb
          · exact h3 p hp

theorem prints_format (es : List FormatElement) (txt : Text) (sx : SExp)
    (h1 : compileFormat es = .ok txt) (h2 : genFormat es = .ok sx) : Prints sx txt := by
  simp only [compileFormat] at h1
  simp only [genFormat] at h2
  cases ht : templateOf es with
  | error x => rw [ht] at h1; simp at h1
  | ok tmpl =>
    cases hv : templateValue es with
    | error x => rw [hv] at h2; simp at h2
    | ok val =>
      rw [ht] at h1; rw [hv] at h2
      simp at h1 h2; subst h1; subst h2
      have hstr : Prints (.str val) ('"' :: tmpl ++ ['"']) := Prints.strOf (escapes_templateOf es tmpl val ht hv)
      obtain ⟨pairs, hp1, hp2, hp3⟩ := items_pairs es
      rw [hp1, hp2]
      -- the tail after the template literal: a blank, then the items (possibly none)
      have htail : PrintsSeq (pairs.map (·.1)) (' ' :: joinWith (cl!" ") (pairs.map (·.2))) := by
        cases hpairs : pairs with
        | nil => simpa [joinWith] using PrintsSeq.ws ' ' (by decide) PrintsSeq.nil
        | cons p ps =>
          rw [← hpairs, joinWith_space _ (by rw [hpairs]; simp)]
          have := printsSeq_args pairs hp3
          simpa [argsText, List.flatMap_map] using this
      have hseq : PrintsSeq (sy (cl!"format") :: .bool false :: .str val :: pairs.map (·.1))
          (cl!"format" ++ (' ' :: (cl!"#f" ++ (' ' :: (('"' :: tmpl ++ ['"']) ++ (' ' :: joinWith (cl!" ") (pairs.map (·.2)))))))) :=
        PrintsSeq.cons (Prints.sym (by good_sym))
          (PrintsSeq.ws ' ' (by decide) (PrintsSeq.cons Prints.boolF
            (PrintsSeq.ws ' ' (by decide) (PrintsSeq.cons hstr htail (DelimStart.cons (by decide))))
            (DelimStart.cons (by decide))))
          (DelimStart.cons (by decide))
      have := Prints.list hseq
      simpa [call, sy, List.append_assoc] using this

end Scheme
end FV
