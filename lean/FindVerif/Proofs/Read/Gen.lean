import FindVerif.Proofs.Read.Call
/- Every piece of text the code generator emits is a rendering of the corresponding datum of the
   structured generator. -/
namespace FV
namespace Scheme

theorem prints_formatCmp (c : Comparison Nat) (target : Text) (ht : GoodSym target) :
    Prints (genCmp c target) (formatCmp c target) := by
  have key : ∀ (op : Text), GoodSym op → Prints (call op [call target [], .num c.val])
      ('(' :: (op ++ (' ' :: ('(' :: target ++ [')']) ++ ' ' :: nat c.val)) ++ [')']) := by
    intro op hop
    have := prints_app2 hop (prints_app0 ht) (Prints.num c.val)
    simpa [List.append_assoc, nat] using this
  cases c with
  | gt n => simpa [formatCmp, genCmp, cmpOp, Comparison.val, List.append_assoc] using key (cl!">") (by good_sym)
  | lt n => simpa [formatCmp, genCmp, cmpOp, Comparison.val, List.append_assoc] using key (cl!"<") (by good_sym)
  | eq n => simpa [formatCmp, genCmp, cmpOp, Comparison.val, List.append_assoc] using key (cl!"=") (by good_sym)

/-- `(op (lhsText) rhs)` as `format_cmp!(cmp, lhs, rhs)` writes it. -/
theorem prints_cmp2 {α : Type} (c : Comparison α) (lhsS : SExp) (lhsT : Text) (n : Nat) (hl : Prints lhsS ('(' :: lhsT ++ [')'])) :
    Prints (call (cmpOp c) [lhsS, .num n])
      (match c with
        | .gt _ => cl!"(> (" ++ lhsT ++ cl!") " ++ nat n ++ cl!")"
        | .lt _ => cl!"(< (" ++ lhsT ++ cl!") " ++ nat n ++ cl!")"
        | .eq _ => cl!"(= (" ++ lhsT ++ cl!") " ++ nat n ++ cl!")") := by
  have key : ∀ (op : Text), GoodSym op → Prints (call op [lhsS, .num n])
      ('(' :: (op ++ (' ' :: ('(' :: lhsT ++ [')']) ++ ' ' :: nat n)) ++ [')']) := by
    intro op hop
    have := prints_app2 hop hl (Prints.num n)
    simpa [List.append_assoc, nat] using this
  cases c with
  | gt a => simpa [cmpOp, List.append_assoc] using key (cl!">") (by good_sym)
  | lt a => simpa [cmpOp, List.append_assoc] using key (cl!"<") (by good_sym)
  | eq a => simpa [cmpOp, List.append_assoc] using key (cl!"=") (by good_sym)

theorem prints_sizeComp (c : Comparison Size) : Prints (genSizeComp c) (compileSizeComp c) := by
  have hsz : Prints (call (cl!"size") []) (cl!"(size)") := by
    have := prints_app0 (f := cl!"size") (by good_sym); simpa using this
  have hlhs : Prints (sizeLhsS c.val) ('(' :: sizeMatching c.val ++ [')']) := by
    have hru : Prints (call (cl!"round-up-power-of-2") [call (cl!"size") [], .num c.val.mult])
        ('(' :: (cl!"round-up-power-of-2 (size) " ++ nat c.val.mult) ++ [')']) := by
      have := prints_app2 (f := cl!"round-up-power-of-2") (by good_sym) hsz (Prints.num c.val.mult)
      simpa [List.append_assoc, nat] using this
    cases hv : c.val <;> simp only [sizeMatching, sizeLhsS] <;> first | (simpa using hsz) | (rw [hv] at hru; exact hru)
  have := prints_cmp2 c _ (sizeMatching c.val) (exactByteSize c.val) hlhs
  cases c <;> simpa [genSizeComp, compileSizeComp, formatCmp2, Comparison.val] using this

theorem prints_timeComp (secs : Nat) (field : Text) (hf : GoodSym field) (c : Comparison TimeSpec) :
    Prints (genTimeComp secs field c) (compileTimeComp secs field c) := by
  have hsub : Prints (call (cl!"-") [.num secs, call field []]) ('(' :: (cl!"- " ++ nat secs ++ cl!" (" ++ field ++ cl!")") ++ [')']) := by
    have := prints_app2 (f := cl!"-") (by good_sym) (Prints.num secs) (prints_app0 hf)
    simpa [List.append_assoc, nat] using this
  have hq : Prints (call (cl!"quotient") [call (cl!"-") [.num secs, call field []], .num c.val.secs])
      ('(' :: (cl!"quotient (- " ++ nat secs ++ cl!" (" ++ field ++ cl!")) " ++ nat c.val.secs) ++ [')']) := by
    have := prints_app2 (f := cl!"quotient") (by good_sym) hsub (Prints.num c.val.secs)
    simpa [List.append_assoc, nat] using this
  have := prints_cmp2 c _ _ c.val.count hq
  cases c <;> simpa [genTimeComp, compileTimeComp, formatCmp2, Comparison.val, List.append_assoc] using this

end Scheme
end FV

namespace FV
namespace Scheme

theorem prints_acc (f : Text) (hf : GoodSym f) : Prints (call f []) (cl!"(" ++ f ++ cl!")") := by
  have := prints_app0 hf; simpa using this

theorem prints_logand (m : Nat) :
    Prints (call (cl!"logand") [call (cl!"mode") [], .num m]) (cl!"(logand (mode) " ++ nat m ++ cl!")") := by
  have := prints_app2 (f := cl!"logand") (by good_sym) (prints_acc (cl!"mode") (by good_sym)) (Prints.num m)
  simpa [List.append_assoc, nat] using this

theorem prints_eq_land (m k : Nat) :
    Prints (call (cl!"=") [call (cl!"logand") [call (cl!"mode") [], .num m], .num k])
      (cl!"(= (logand (mode) " ++ nat m ++ cl!") " ++ nat k ++ cl!")") := by
  have := prints_app2 (f := cl!"=") (by good_sym) (prints_logand m) (Prints.num k)
  simpa [List.append_assoc, nat] using this

theorem joinWith_space (ts : List Text) (h : ts ≠ []) :
    ' ' :: joinWith (cl!" ") ts = ts.flatMap (fun t => ' ' :: t) := by
  induction ts with
  | nil => exact absurd rfl h
  | cons t rest ih =>
    cases rest with
    | nil => simp [joinWith]
    | cons u us =>
      have := ih (by simp)
      simp only [joinWith, List.flatMap_cons] at this ⊢
      rw [← this]
      simp [List.append_assoc]

theorem prints_or_join (args : List (SExp × Text)) (hne : args ≠ []) (h : ∀ p ∈ args, Prints p.1 p.2) :
    Prints (call (cl!"or") (args.map (·.1))) (cl!"(or " ++ joinWith (cl!" ") (args.map (·.2)) ++ cl!")") := by
  have hargs := prints_app (f := cl!"or") (by good_sym) args h
  have hj := joinWith_space (args.map (·.2)) (by simpa using hne)
  have e : cl!"(or " ++ joinWith (cl!" ") (args.map (·.2)) ++ cl!")" =
      '(' :: (cl!"or" ++ (' ' :: joinWith (cl!" ") (args.map (·.2)))) ++ [')'] := by simp [List.append_assoc]
  rw [e, hj]
  simpa [argsText, List.flatMap_map] using hargs

def typeCompS (tp : FileType) : SExp := call (cl!"=") [call (cl!"logand") [call (cl!"mode") [], .num S_IFMT], .num tp.octal]
def typeCompT (tp : FileType) : Text := cl!"(= (logand (mode) " ++ nat S_IFMT ++ cl!") " ++ nat tp.octal ++ cl!")"

theorem prints_typeList (l : List FileType) : Prints (genTypeList l) (compileTypeList l) := by
  have hone : ∀ tp : FileType, Prints (typeCompS tp) (typeCompT tp) := fun tp => prints_eq_land _ _
  match l with
  | [] =>
    simp only [genTypeList, compileTypeList, List.map_nil, joinWith]
    have : PrintsSeq [sy (cl!"or")] (cl!"or ") :=
      PrintsSeq.cons (Prints.sym (by good_sym)) (PrintsSeq.ws ' ' (by decide) PrintsSeq.nil) (DelimStart.cons (by decide))
    have := Prints.list this
    simpa [call, sy] using this
  | [tp] => simpa [genTypeList, compileTypeList, typeCompS, typeCompT] using hone tp
  | a :: b :: r =>
    have := prints_or_join ((a :: b :: r).map fun tp => (typeCompS tp, typeCompT tp)) (by simp)
      (by intro p hp; obtain ⟨tp, _, rfl⟩ := List.mem_map.mp hp; exact hone tp)
    simpa [genTypeList, compileTypeList, List.map_map, Function.comp_def, typeCompS, typeCompT] using this

theorem prints_permCheck (p : PermCheck) : Prints (genPermCheck p) (compilePermCheck p) := by
  cases p with
  | equal m => simpa [genPermCheck, compilePermCheck] using prints_eq_land 0o7777 m
  | atLeast m => simpa [genPermCheck, compilePermCheck] using prints_eq_land m m
  | any m =>
    have h0 : Prints (.num 0) (cl!"0") := by simpa [natToDec, natToDecAux] using Prints.num 0
    have h1 : Prints (call (cl!"=") [call (cl!"logand") [call (cl!"mode") [], .num m], .num 0])
        (cl!"(= (logand (mode) " ++ nat m ++ cl!") 0)") := by
      have := prints_app2 (f := cl!"=") (by good_sym) (prints_logand m) h0
      simpa [List.append_assoc, nat] using this
    have := prints_app1 (f := cl!"not") (by good_sym) h1
    simpa [genPermCheck, compilePermCheck, List.append_assoc] using this

end Scheme
end FV
