import FindVerif.Proofs.Read.Basic
/- Atoms: symbols, numbers, booleans, character literals, string literals. -/
namespace FV
namespace Scheme

structure GoodSym (x : Text) : Prop where
  ne : x ≠ []
  nd : ∀ d ∈ x, isDelim d = false
  nohash : x.head? ≠ some '#'
  notnum : x.all isDigit = false

theorem classify_nohash (x : Text) (hne : x ≠ []) (hh : x.head? ≠ some '#') :
    classify x = if x.all isDigit then some (.num (decVal x)) else some (.sym x) := by
  cases x with
  | nil => exact absurd rfl hne
  | cons c cs =>
    have hc : c ≠ '#' := by intro h; apply hh; simp [h]
    unfold classify
    split
    all_goals first
      | rfl
      | (rename_i heq; simp at heq; first | done | (exact absurd heq.1 hc) | (exact absurd heq hc))

theorem Prints.sym {x : Text} (h : GoodSym x) : Prints (.sym x) x := by
  cases hx : x with
  | nil => exact absurd hx h.ne
  | cons c cs =>
    rw [← hx]
    refine Prints.atom x _ c cs hx h.nd ?_ ?_
    · rintro ⟨r, hr⟩; apply h.nohash; rw [hr]; rfl
    · rw [classify_nohash x h.ne h.nohash, h.notnum]; rfl

theorem digit_nondelim (c : Char) (h : isDigit c = true) : isDelim c = false := by
  simp only [isDigit, Bool.and_eq_true, decide_eq_true_eq] at h
  have h1 : '0'.toNat ≤ c.toNat := h.1
  have h2 : c.toNat ≤ '9'.toNat := h.2
  have e0 : '0'.toNat = 48 := rfl
  have e9 : '9'.toNat = 57 := rfl
  simp only [isDelim, isWs, Bool.or_eq_false_iff, decide_eq_false_iff_not]
  refine ⟨⟨⟨⟨⟨⟨⟨⟨?_, ?_⟩, ?_⟩, ?_⟩, ?_⟩, ?_⟩, ?_⟩, ?_⟩, ?_⟩ <;>
    (intro he; subst he; simp only [Char.toNat] at h1 h2; revert h1 h2; decide)

theorem Prints.num (n : Nat) : Prints (.num n) (natToDec n) := by
  have hne := natToDec_ne_nil n
  have hd := natToDec_digits n
  cases hx : natToDec n with
  | nil => exact absurd hx hne
  | cons c cs =>
    rw [← hx]
    have hc : isDigit c = true := hd c (by rw [hx]; simp)
    refine Prints.atom _ _ c cs hx (fun d hm => digit_nondelim d (hd d hm)) ?_ ?_
    · rintro ⟨r, hr⟩
      have : c = '#' := by rw [hx] at hr; simp at hr; exact hr.1
      subst this; revert hc; decide
    · rw [classify_nohash _ hne (by rw [hx]; intro h; simp at h; subst h; revert hc; decide)]
      have : (natToDec n).all isDigit = true := List.all_eq_true.mpr hd
      rw [this, decVal_natToDec]; rfl

theorem Prints.concrete (x : Text) (s : SExp) (c : Char) (cs : Text) (hx : x = c :: cs)
    (hnd : ∀ d ∈ x, isDelim d = false) (hnc : ¬ (∃ r, x = '#' :: '\\' :: r)) (hcl : classify x = some s) : Prints s x :=
  Prints.atom x s c cs hx hnd hnc hcl

theorem Prints.boolT : Prints (.bool true) (cl!"#t") :=
  Prints.atom _ _ '#' ['t'] rfl (by decide) (by rintro ⟨r, hr⟩; simp at hr) rfl

theorem Prints.boolF : Prints (.bool false) (cl!"#f") :=
  Prints.atom _ _ '#' ['f'] rfl (by decide) (by rintro ⟨r, hr⟩; simp at hr) rfl

theorem Prints.oct7777 : Prints (.num 0o7777) (cl!"#o07777") :=
  Prints.atom _ _ '#' (cl!"o07777") rfl (by decide) (by rintro ⟨r, hr⟩; simp at hr) rfl

end Scheme
end FV
