import FindVerif.Proofs.Escape
import FindVerif.Proofs.Dec
/-
  Reader algebra: "this text reads as this datum, whatever follows", closed under the ways the
  generator puts texts together (atoms, string literals, parenthesised sequences with blanks).
-/
namespace FV
namespace Scheme

/-- What may follow an atom: nothing, or a delimiter. -/
def DelimStart (rest : Text) : Prop := ∀ c r, rest = c :: r → isDelim c = true

theorem DelimStart.nil : DelimStart [] := by intro c r h; cases h
theorem DelimStart.cons {c : Char} {r : Text} (h : isDelim c = true) : DelimStart (c :: r) := by
  intro c' r' he; cases he; exact h

/-- First character of a datum's text: not blank, not a comment, not a closing parenthesis. -/
def Starts (t : Text) : Prop := ∃ c cs, t = c :: cs ∧ isWs c = false ∧ c ≠ ';' ∧ c ≠ ')'

/-- `t` is a rendering of the datum `s`. -/
structure Prints (s : SExp) (t : Text) : Prop where
  starts : Starts t
  reads : ∀ (rest : Text) (fuel : Nat), DelimStart rest → t.length < fuel → read1 fuel (t ++ rest) = some (s, rest)

/-- `t` is a rendering of the items of a list (the text between the parentheses). -/
def PrintsSeq (items : List SExp) (t : Text) : Prop :=
  ∀ (rest : Text) (fuel : Nat), t.length + 1 < fuel → readSeq fuel (t ++ ')' :: rest) = some (items, rest)

theorem PrintsSeq.nil : PrintsSeq [] [] := by
  intro rest fuel h
  cases fuel with
  | zero => omega
  | succ f => simp [readSeq, isWs]

theorem PrintsSeq.ws {items : List SExp} {t : Text} (c : Char) (hc : isWs c = true) (h : PrintsSeq items t) :
    PrintsSeq items (c :: t) := by
  intro rest fuel hf
  cases fuel with
  | zero => omega
  | succ f =>
    simp only [List.cons_append, readSeq, hc, if_true]
    exact h rest f (by simp at hf; omega)

theorem PrintsSeq.wss {items : List SExp} {t : Text} (w : Text) (hw : ∀ c ∈ w, isWs c = true) (h : PrintsSeq items t) :
    PrintsSeq items (w ++ t) := by
  induction w with
  | nil => exact h
  | cons c cs ih =>
    exact PrintsSeq.ws c (hw c (by simp)) (ih (fun x hx => hw x (by simp [hx])))

theorem delim_of_ws {c : Char} (h : isWs c = true) : isDelim c = true := by simp [isDelim, h]

/-- An item followed by the rest of the sequence (which is empty or starts with a delimiter). -/
theorem PrintsSeq.cons {s : SExp} {t : Text} {items : List SExp} {r : Text}
    (ht : Prints s t) (hr : PrintsSeq items r) (hd : DelimStart r) : PrintsSeq (s :: items) (t ++ r) := by
  intro rest fuel hf
  obtain ⟨c, cs, rfl, hws, hsc, hcl⟩ := ht.starts
  cases fuel with
  | zero => omega
  | succ f =>
    have hdr : DelimStart (r ++ ')' :: rest) := by
      intro c' r' he
      cases r with
      | nil => simp at he; rw [← he.1]; decide
      | cons x xs => simp at he; rw [← he.1]; exact hd x xs rfl
    have h1 := ht.reads (r ++ ')' :: rest) f hdr (by simp at hf ⊢; omega)
    simp only [List.cons_append, List.append_assoc] at h1 ⊢
    simp only [readSeq, hws, Bool.false_eq_true, if_false, hsc, hcl]
    rw [h1]
    simp only
    rw [hr rest f (by simp at hf ⊢; omega)]

/-- A parenthesised sequence is a list datum. -/
theorem Prints.list {items : List SExp} {t : Text} (h : PrintsSeq items t) : Prints (.list items) ('(' :: t ++ [')']) := by
  refine ⟨⟨'(', t ++ [')'], rfl, by decide, by decide, by decide⟩, ?_⟩
  intro rest fuel _ hf
  cases fuel with
  | zero => omega
  | succ f =>
    simp only [List.cons_append, List.append_assoc, read1]
    have hws : isWs '(' = false := by decide
    simp only [hws, Bool.false_eq_true, if_false, show ¬ ('(' = ';') by decide, if_true]
    have := h rest f (by simp at hf ⊢; omega)
    simp only [List.nil_append]
    rw [this]

/-! ### atoms -/

theorem takeWhile_nondelim (x rest : Text) (hx : ∀ c ∈ x, isDelim c = false) (hr : DelimStart rest) :
    (x ++ rest).takeWhile (fun d => !isDelim d) = x ∧ (x ++ rest).dropWhile (fun d => !isDelim d) = rest := by
  cases rest with
  | nil =>
    simp only [List.append_nil]
    have hall : ∀ c ∈ x, (fun d => !isDelim d) c = true := fun c hc => by simp [hx c hc]
    clear hr
    induction x with
    | nil => simp
    | cons a as ih =>
      have ha := hall a (by simp)
      simp only [List.takeWhile_cons, List.dropWhile_cons, ha, if_true]
      have := ih (fun c hc => hx c (by simp [hc])) (fun c hc => hall c (by simp [hc]))
      exact ⟨by rw [this.1], this.2⟩
  | cons d ds =>
    have hd := hr d ds rfl
    exact ⟨takeWhile_append_of_all _ x d ds (fun c hc => by simp [hx c hc]) (by simp [hd]),
           dropWhile_append_of_all _ x d ds (fun c hc => by simp [hx c hc]) (by simp [hd])⟩

/-- A bare token that is not a character literal. -/
theorem Prints.atom (x : Text) (s : SExp) (c : Char) (cs : Text) (hx : x = c :: cs)
    (hnd : ∀ d ∈ x, isDelim d = false) (hnc : ¬ (∃ r, x = '#' :: '\\' :: r)) (hcl : classify x = some s) :
    Prints s x := by
  have hc : isDelim c = false := hnd c (by rw [hx]; simp)
  have hc' : isWs c = false ∧ c ≠ '(' ∧ c ≠ ')' ∧ c ≠ '"' ∧ c ≠ ';' := by
    simp only [isDelim, Bool.or_eq_false_iff, decide_eq_false_iff_not] at hc
    exact ⟨hc.1.1.1.1, hc.1.1.1.2, hc.1.1.2, hc.1.2, hc.2⟩
  refine ⟨⟨c, cs, hx, hc'.1, hc'.2.2.2.2, hc'.2.2.1⟩, ?_⟩
  intro rest fuel hr hf
  cases fuel with
  | zero => omega
  | succ f =>
    subst hx
    simp only [List.cons_append, read1, hc'.1, Bool.false_eq_true, if_false, hc'.2.1, hc'.2.2.1, hc'.2.2.2.1, hc'.2.2.2.2]
    have htk : takeTok (c :: (cs ++ rest)) = (c :: cs, rest) := by
      have hgen := takeWhile_nondelim (c :: cs) rest hnd hr
      simp only [List.cons_append] at hgen
      unfold takeTok
      split
      · rename_i c1 rest1 heq
        exfalso
        apply hnc
        cases cs with
        | nil =>
          -- the second character would come from `rest`, which starts with a delimiter
          simp at heq
          obtain ⟨rfl, heq2⟩ := heq
          have := hr '\\' _ heq2
          simp [isDelim, isWs] at this
        | cons c2 cs2 =>
          simp at heq
          exact ⟨cs2, by rw [heq.1, heq.2.1]⟩
      · rw [hgen.1, hgen.2]
    rw [htk]
    simp [hcl]

end Scheme
end FV
