import FindVerif.Proofs.Read.Program
import FindVerif.Proofs.PortsInv
/- The whole emitted program reads back as exactly two forms with the expected structure. -/
namespace FV
namespace Scheme

/-- Items with the blank string that follows each. -/
theorem printsSeq_spaced : ∀ (items : List (SExp × Text × Text)),
    (∀ it ∈ items, Prints it.1 it.2.1 ∧ ∀ c ∈ it.2.2, isWs c = true) →
    (∀ it ∈ items.dropLast, it.2.2 ≠ []) →
    PrintsSeq (items.map (·.1)) (items.flatMap fun it => it.2.1 ++ it.2.2)
  | [], _, _ => PrintsSeq.nil
  | [x], h, _ => by
    obtain ⟨hp, hw⟩ := h x (by simp)
    have hd : DelimStart (x.2.2 ++ []) := by
      cases hx : x.2.2 with
      | nil => exact DelimStart.nil
      | cons c cs => exact DelimStart.cons (delim_of_ws (hw c (by rw [hx]; simp)))
    have := PrintsSeq.cons hp (PrintsSeq.wss x.2.2 hw PrintsSeq.nil) hd
    simpa using this
  | x :: y :: r, h, hne => by
    obtain ⟨hp, hw⟩ := h x (by simp)
    have ih := printsSeq_spaced (y :: r) (fun it hit => h it (by simp [hit]))
      (fun it hit => hne it (by simp [List.dropLast] at hit ⊢; exact Or.inr hit))
    have hx : x.2.2 ≠ [] := hne x (by simp [List.dropLast])
    have hd : DelimStart (x.2.2 ++ (y :: r).flatMap fun it => it.2.1 ++ it.2.2) := by
      cases hxx : x.2.2 with
      | nil => exact absurd hxx hx
      | cons c cs => exact DelimStart.cons (delim_of_ws (hw c (by rw [hxx]; simp)))
    have := PrintsSeq.cons hp (PrintsSeq.wss x.2.2 hw ih) hd
    simpa [List.append_assoc] using this

/-- Every clean-up form is `(close-port %lf3:port:N)`. -/
def FiniOk (m : Manager) : Prop := ∀ t ∈ m.fini, ∃ i, t = cl!"(close-port " ++ lf3 (cl!"port") i ++ cl!")"

theorem finiOk_getMatcher (m : Manager) (pat : Text) (ci : Bool) (h : FiniOk m) : FiniOk (m.getMatcher pat ci).2 := by
  simp only [Manager.getMatcher, Manager.registerMatch]
  cases assocGet m.matches_ (pat, ci) <;> exact h

theorem finiOk_registerPrinterL (m : Manager) (p : OpenPort) (t : Option Char) (h : FiniOk m) : FiniOk (m.registerPrinterL p t).2 := by
  simp only [Manager.registerPrinterL]
  cases assocGet m.printersL (p, t) <;> exact h

theorem finiOk_registerPrinterD (m : Manager) (tg : Target) (h : FiniOk m) : FiniOk (m.registerPrinterD tg).2 := by
  simp only [Manager.registerPrinterD]
  cases assocGet m.printersD tg <;> exact h

theorem finiOk_getPrinter (m : Manager) (t : Option Char) (h : FiniOk m) : FiniOk (m.getPrinter t).2 := by
  simp only [Manager.getPrinter]
  split
  · exact finiOk_registerPrinterD m _ h
  · apply finiOk_registerPrinterL
    simp only [Manager.initDefaultPort]
    cases m.defaultPort <;> exact h

theorem finiOk_getFilePrinter (m : Manager) (f : Text) (t : Option Char) (h : FiniOk m) : FiniOk (m.getFilePrinter f t).2 := by
  simp only [Manager.getFilePrinter]
  split
  · exact finiOk_registerPrinterD m _ h
  · apply finiOk_registerPrinterL
    simp only [Manager.initFilePort]
    cases assocGet m.files f with
    | some p => exact h
    | none =>
      intro t' ht'
      simp at ht'
      rcases ht' with ht' | rfl
      · exact h t' ht'
      · exact ⟨_, rfl⟩

theorem finiOk_compileExpr (clk : Nat → Nat) (e : Expr) (st st' : CState) (txt : Text)
    (h : FiniOk st.mgr) (hc : compileExpr clk e st = .ok (txt, st')) : FiniOk st'.mgr :=
  compileExpr_preserves FiniOk finiOk_getMatcher finiOk_getPrinter finiOk_getFilePrinter clk e st st' txt h hc

/-- The clean-up thunk body reads as a sequence of forms. -/
theorem prints_terminate (m : Manager) (h : FiniOk m) : ∃ forms, PrintsSeq forms m.terminate := by
  unfold Manager.terminate
  split
  · refine ⟨[.bool true], ?_⟩
    have := PrintsSeq.cons Prints.boolT PrintsSeq.nil DelimStart.nil
    simpa using this
  · have hp : ∀ t ∈ m.fini, ∃ s, Prints s t := by
      intro t ht
      obtain ⟨i, rfl⟩ := h t ht
      have := prints_app1 (f := cl!"close-port") (by good_sym) (Prints.sym (goodSym_lf3 (cl!"port") port_nondelim i))
      exact ⟨_, by simpa [List.append_assoc] using this⟩
    -- choose a datum for every text
    have : ∃ pairs : List (SExp × Text), pairs.map (·.2) = m.fini ∧ ∀ p ∈ pairs, Prints p.1 p.2 := by
      generalize m.fini = l at hp
      induction l with
      | nil => exact ⟨[], rfl, by simp⟩
      | cons t ts ih =>
        obtain ⟨s, hs⟩ := hp t (by simp)
        obtain ⟨ps, hps, hall⟩ := ih (fun x hx => hp x (by simp [hx]))
        exact ⟨(s, t) :: ps, by simp [hps], by intro p hp'; simp at hp'; rcases hp' with rfl | hp'; exact hs; exact hall p hp'⟩
    obtain ⟨pairs, hm, hall⟩ := this
    exact ⟨pairs.map (·.1), by rw [← hm]; exact printsSeq_join (cl!" ") (by decide) (by decide) pairs hall⟩

end Scheme
end FV

namespace FV
namespace Scheme

def modulesS (m : Manager) : List SExp :=
  if m.distributed then [.list [sy (cl!"ice-9"), sy (cl!"threads")]] else []

def form1 (m : Manager) : SExp :=
  .list (sy (cl!"use-modules") :: .list [sy (cl!"lipe")] :: .list [sy (cl!"lipe"), sy (cl!"find")] :: modulesS m)

def optionsS (o : RunOptions) : SExp :=
  match o.threads with
  | some c => .num c
  | none => call (cl!"lipe-getopt-thread-count") []

def optionsT (o : RunOptions) : Text :=
  match o.threads with
  | some c => nat c
  | none => cl!"(lipe-getopt-thread-count)"

def unitS : SExp := .list []

def scanS (mdt : Text) (body : SExp) (o : RunOptions) : SExp :=
  .list [sy (cl!"lipe-scan"), .str mdt, call (cl!"lipe-getopt-client-mount-path") [],
    .list [sy (cl!"lambda"), unitS, body], call (cl!"lipe-getopt-required-attrs") [], optionsS o]

def form2 (m : Manager) (mdt : Text) (body : SExp) (o : RunOptions) (fini : List SExp) : SExp :=
  .list [sy (cl!"let*"), .list (m.vars.map bindingForm),
    .list [sy (cl!"dynamic-wind"),
      .list [sy (cl!"lambda"), unitS, .bool true],
      .list [sy (cl!"lambda"), unitS, scanS mdt body o],
      .list (sy (cl!"lambda") :: unitS :: fini)]]

theorem prints_unit : Prints unitS (cl!"()") := by
  have := Prints.list PrintsSeq.nil
  simpa [unitS] using this

theorem prints_options (o : RunOptions) : Prints (optionsS o) (optionsT o) := by
  unfold optionsS optionsT
  cases o.threads with
  | some c => exact Prints.num c
  | none => exact prints_acc _ (by good_sym)

theorem ws_nl8 : ∀ c ∈ (cl!"\n        "), isWs c = true := by decide
theorem ws_nl4 : ∀ c ∈ (cl!"\n    "), isWs c = true := by decide
theorem ws_nl2 : ∀ c ∈ (cl!"\n  "), isWs c = true := by decide
theorem ws_sp : ∀ c ∈ (cl!" "), isWs c = true := by decide
theorem ws_nil : ∀ c ∈ ([] : Text), isWs c = true := by simp

theorem prints_thunk {body : SExp} {bt : Text} (hb : Prints body bt) :
    Prints (.list [sy (cl!"lambda"), unitS, body]) (cl!"(lambda () " ++ bt ++ cl!")") := by
  have := printsSeq_spaced [(sy (cl!"lambda"), cl!"lambda", cl!" "), (unitS, cl!"()", cl!" "), (body, bt, [])]
    (by intro it hit; simp at hit; rcases hit with rfl | rfl | rfl
        · exact ⟨Prints.sym (by good_sym), ws_sp⟩
        · exact ⟨prints_unit, ws_sp⟩
        · exact ⟨hb, ws_nil⟩)
    (by intro it hit; simp [List.dropLast] at hit; rcases hit with rfl | rfl <;> simp)
  have := Prints.list this
  simpa [List.append_assoc] using this

theorem prints_scan (mdt : Text) {body : SExp} {bt : Text} (hb : Prints body bt) (o : RunOptions) :
    Prints (scanS mdt body o)
      (cl!"(lipe-scan\n        " ++ ('"' :: schemeEscape mdt ++ ['"']) ++ cl!"\n        (lipe-getopt-client-mount-path)\n        (lambda () "
        ++ bt ++ cl!")\n        (lipe-getopt-required-attrs)\n        " ++ optionsT o ++ cl!")") := by
  have := printsSeq_spaced
    [(sy (cl!"lipe-scan"), cl!"lipe-scan", cl!"\n        "),
     (.str mdt, '"' :: schemeEscape mdt ++ ['"'], cl!"\n        "),
     (call (cl!"lipe-getopt-client-mount-path") [], cl!"(lipe-getopt-client-mount-path)", cl!"\n        "),
     (.list [sy (cl!"lambda"), unitS, body], cl!"(lambda () " ++ bt ++ cl!")", cl!"\n        "),
     (call (cl!"lipe-getopt-required-attrs") [], cl!"(lipe-getopt-required-attrs)", cl!"\n        "),
     (optionsS o, optionsT o, [])]
    (by intro it hit; simp at hit; rcases hit with rfl | rfl | rfl | rfl | rfl | rfl
        · exact ⟨Prints.sym (by good_sym), ws_nl8⟩
        · exact ⟨Prints.str mdt, ws_nl8⟩
        · exact ⟨prints_acc _ (by good_sym), ws_nl8⟩
        · exact ⟨prints_thunk hb, ws_nl8⟩
        · exact ⟨prints_acc _ (by good_sym), ws_nl8⟩
        · exact ⟨prints_options o, ws_nil⟩)
    (by intro it hit; simp [List.dropLast] at hit; rcases hit with rfl | rfl | rfl | rfl | rfl <;> simp)
  have := Prints.list this
  simpa [scanS, List.append_assoc] using this

theorem prints_form1 (m : Manager) : Prints (form1 m) (cl!"(use-modules (lipe) (lipe find)" ++ m.modules ++ cl!")") := by
  have hl : Prints (.list [sy (cl!"lipe")]) (cl!"(lipe)") := by
    have := Prints.list (PrintsSeq.cons (Prints.sym (x := cl!"lipe") (by good_sym)) PrintsSeq.nil DelimStart.nil)
    simpa [sy] using this
  have hlf : Prints (.list [sy (cl!"lipe"), sy (cl!"find")]) (cl!"(lipe find)") := by
    have := printsSeq_spaced [(sy (cl!"lipe"), cl!"lipe", cl!" "), (sy (cl!"find"), cl!"find", [])]
      (by intro it hit; simp at hit; rcases hit with rfl | rfl
          · exact ⟨Prints.sym (by good_sym), ws_sp⟩
          · exact ⟨Prints.sym (by good_sym), ws_nil⟩)
      (by intro it hit; simp [List.dropLast] at hit; subst hit; simp)
    have := Prints.list this
    simpa using this
  have hice : Prints (.list [sy (cl!"ice-9"), sy (cl!"threads")]) (cl!"(ice-9 threads)") := by
    have := printsSeq_spaced [(sy (cl!"ice-9"), cl!"ice-9", cl!" "), (sy (cl!"threads"), cl!"threads", [])]
      (by intro it hit; simp at hit; rcases hit with rfl | rfl
          · exact ⟨Prints.sym (by good_sym), ws_sp⟩
          · exact ⟨Prints.sym (by good_sym), ws_nil⟩)
      (by intro it hit; simp [List.dropLast] at hit; subst hit; simp)
    have := Prints.list this
    simpa using this
  unfold form1 modulesS Manager.modules
  by_cases hd : m.distributed = true
  · simp only [hd, if_true]
    have := printsSeq_spaced [(sy (cl!"use-modules"), cl!"use-modules", cl!" "), (.list [sy (cl!"lipe")], cl!"(lipe)", cl!" "),
        (.list [sy (cl!"lipe"), sy (cl!"find")], cl!"(lipe find)", cl!" "), (.list [sy (cl!"ice-9"), sy (cl!"threads")], cl!"(ice-9 threads)", [])]
      (by intro it hit; simp at hit; rcases hit with rfl | rfl | rfl | rfl
          · exact ⟨Prints.sym (by good_sym), ws_sp⟩
          · exact ⟨hl, ws_sp⟩
          · exact ⟨hlf, ws_sp⟩
          · exact ⟨hice, ws_nil⟩)
      (by intro it hit; simp [List.dropLast] at hit; rcases hit with rfl | rfl | rfl <;> simp)
    have := Prints.list this
    simpa [List.append_assoc] using this
  · have hd' : m.distributed = false := by simpa using hd
    simp only [hd', Bool.false_eq_true, if_false]
    have := printsSeq_spaced [(sy (cl!"use-modules"), cl!"use-modules", cl!" "), (.list [sy (cl!"lipe")], cl!"(lipe)", cl!" "),
        (.list [sy (cl!"lipe"), sy (cl!"find")], cl!"(lipe find)", [])]
      (by intro it hit; simp at hit; rcases hit with rfl | rfl | rfl
          · exact ⟨Prints.sym (by good_sym), ws_sp⟩
          · exact ⟨hl, ws_sp⟩
          · exact ⟨hlf, ws_nil⟩)
      (by intro it hit; simp [List.dropLast] at hit; rcases hit with rfl | rfl <;> simp)
    have := Prints.list this
    simpa [List.append_assoc] using this

end Scheme
end FV

namespace FV
namespace Scheme

set_option maxRecDepth 8000 in
theorem prints_form2 (m : Manager) (hfini : FiniOk m) (mdt : Text) {body : SExp} {bt : Text} (hb : Prints body bt) (o : RunOptions) :
    ∃ fini, Prints (form2 m mdt body o fini)
      (cl!"(let* (" ++ m.definitions ++ cl!")\n  (dynamic-wind\n    (lambda () " ++ m.initialization ++ cl!")\n    (lambda () (lipe-scan\n        "
        ++ ('"' :: (schemeEscape mdt ++ ('"' :: (cl!"\n        (lipe-getopt-client-mount-path)\n        (lambda () " ++ bt
        ++ cl!")\n        (lipe-getopt-required-attrs)\n        " ++ optionsT o ++ cl!"))\n    (lambda () " ++ m.terminate ++ cl!")))"))))) := by
  obtain ⟨fini, hfin⟩ := prints_terminate m hfini
  refine ⟨fini, ?_⟩
  have hdefs : Prints (.list (m.vars.map bindingForm)) ('(' :: m.definitions ++ [')']) := Prints.list (prints_definitions m)
  have hinit : Prints (.list [sy (cl!"lambda"), unitS, .bool true]) (cl!"(lambda () #t)") := by
    have := prints_thunk Prints.boolT; simpa using this
  have hscan := prints_thunk (prints_scan mdt hb o)
  have hfiniT : Prints (.list (sy (cl!"lambda") :: unitS :: fini)) (cl!"(lambda () " ++ m.terminate ++ cl!")") := by
    have hseq : PrintsSeq (sy (cl!"lambda") :: unitS :: fini) (cl!"lambda" ++ (' ' :: (cl!"()" ++ (' ' :: m.terminate)))) :=
      PrintsSeq.cons (Prints.sym (by good_sym))
        (PrintsSeq.ws ' ' (by decide) (PrintsSeq.cons prints_unit (PrintsSeq.ws ' ' (by decide) hfin) (DelimStart.cons (by decide))))
        (DelimStart.cons (by decide))
    have := Prints.list hseq
    simpa [List.append_assoc] using this
  have hdw := printsSeq_spaced
    [(sy (cl!"dynamic-wind"), cl!"dynamic-wind", cl!"\n    "),
     (.list [sy (cl!"lambda"), unitS, .bool true], cl!"(lambda () #t)", cl!"\n    "),
     (.list [sy (cl!"lambda"), unitS, scanS mdt body o], _, cl!"\n    "),
     (.list (sy (cl!"lambda") :: unitS :: fini), cl!"(lambda () " ++ m.terminate ++ cl!")", [])]
    (by intro it hit; simp at hit; rcases hit with rfl | rfl | rfl | rfl
        · exact ⟨Prints.sym (by good_sym), ws_nl4⟩
        · exact ⟨hinit, ws_nl4⟩
        · exact ⟨hscan, ws_nl4⟩
        · exact ⟨hfiniT, ws_nil⟩)
    (by intro it hit; simp [List.dropLast] at hit; rcases hit with rfl | rfl | rfl <;> simp)
  have hdwP := Prints.list hdw
  have hlet := printsSeq_spaced
    [(sy (cl!"let*"), cl!"let*", cl!" "),
     (.list (m.vars.map bindingForm), '(' :: m.definitions ++ [')'], cl!"\n  "),
     (_, _, [])]
    (by intro it hit; simp at hit; rcases hit with rfl | rfl | rfl
        · exact ⟨Prints.sym (by good_sym), ws_sp⟩
        · exact ⟨hdefs, ws_nl2⟩
        · exact ⟨hdwP, ws_nil⟩)
    (by intro it hit; simp [List.dropLast] at hit; rcases hit with rfl | rfl <;> simp)
  have := Prints.list hlet
  simpa [form2, Manager.initialization, List.append_assoc] using this

theorem skipBlank_ws : ∀ (w : Text) (rest : Text) (fuel : Nat), (∀ c ∈ w, isWs c = true) → w.length < fuel →
    (∀ c r, rest = c :: r → isWs c = false ∧ c ≠ ';') → skipBlank fuel (w ++ rest) = rest
  | [], rest, fuel, _, hf, hr => by
    cases fuel with
    | zero => omega
    | succ f =>
      cases rest with
      | nil => simp [skipBlank]
      | cons c r =>
        obtain ⟨h1, h2⟩ := hr c r rfl
        simp [skipBlank, h1, h2]
  | c :: w, rest, fuel, hw, hf, hr => by
    cases fuel with
    | zero => omega
    | succ f =>
      simp only [List.cons_append, skipBlank, hw c (by simp), if_true]
      exact skipBlank_ws w rest f (fun x hx => hw x (by simp [hx])) (by simp at hf; omega) hr

theorem readAllAux_nil (fuel : Nat) : readAllAux (fuel + 1) [] = some [] := by
  rw [readAllAux]; simp [skipBlank]

theorem readAllAux_cons {s : SExp} {t : Text} (h : Prints s t) (rest : Text) (hd : DelimStart rest) (fuel : Nat) :
    readAllAux (fuel + 1) (t ++ rest) = (readAllAux fuel rest).map (s :: ·) := by
  obtain ⟨c, cs, e, hw, hsc, _⟩ := h.starts
  have hsk : skipBlank ((t ++ rest).length + 1) (t ++ rest) = t ++ rest := by
    have := skipBlank_ws [] (t ++ rest) ((t ++ rest).length + 1) (by simp) (by simp)
      (by intro c' r hr; rw [e] at hr; simp at hr; rw [← hr.1]; exact ⟨hw, hsc⟩)
    simpa using this
  have hr := h.reads rest (2 * (t ++ rest).length + 2) hd (by simp; omega)
  rw [readAllAux, hsk]
  subst e
  simp only [List.cons_append] at hr ⊢
  rw [hr]
  simp only
  cases hq : readAllAux fuel rest <;> simp

theorem readAllAux_ws (w rest : Text) (hw : ∀ c ∈ w, isWs c = true)
    (hr : ∀ c r, rest = c :: r → isWs c = false ∧ c ≠ ';') (fuel : Nat) :
    readAllAux (fuel + 1) (w ++ rest) = readAllAux (fuel + 1) rest := by
  have h1 := skipBlank_ws w rest ((w ++ rest).length + 1) hw (by simp; omega) hr
  have h2 := skipBlank_ws [] rest (rest.length + 1) (by simp) (by simp) hr
  simp only [List.nil_append] at h2
  rw [readAllAux, readAllAux, h1, h2]

/-- Two forms separated by blanks read back as exactly those two forms. -/
theorem readAll_two {s1 s2 : SExp} {t1 t2 : Text} (h1 : Prints s1 t1) (h2 : Prints s2 t2) :
    readAll (t1 ++ cl!"\n\n" ++ t2) = some [s1, s2] := by
  obtain ⟨c2, cs2, e2, hw2, hsc2, _⟩ := h2.starts
  unfold readAll
  have hlen : (t1 ++ cl!"\n\n" ++ t2).length + 1 = (t1.length + t2.length) + 2 + 1 := by simp; omega
  rw [hlen, List.append_assoc]
  rw [readAllAux_cons h1 (cl!"\n\n" ++ t2) (DelimStart.cons (c := '\n') (r := '\n' :: t2) (by decide))]
  rw [readAllAux_ws (cl!"\n\n") t2 (by decide) (by intro c r hr; rw [e2] at hr; simp at hr; rw [← hr.1]; exact ⟨hw2, hsc2⟩)]
  have := readAllAux_cons h2 [] DelimStart.nil (t1.length + t2.length + 1)
  simp only [List.append_nil] at this
  rw [this, readAllAux_nil]
  rfl

end Scheme
end FV
