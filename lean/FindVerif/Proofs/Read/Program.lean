import FindVerif.Proofs.Read.Expr
/- Bindings and the whole program text. -/
namespace FV
namespace Scheme

theorem prints_pair {name : Text} (hn : GoodSym name) {init : SExp} {t : Text} (hi : Prints init t) :
    Prints (.list [.sym name, init]) ('(' :: name ++ ' ' :: t ++ [')']) := by
  have hseq : PrintsSeq [.sym name, init] (name ++ (' ' :: (t ++ []))) :=
    PrintsSeq.cons (Prints.sym hn) (PrintsSeq.ws ' ' (by decide) (PrintsSeq.cons hi PrintsSeq.nil DelimStart.nil))
      (DelimStart.cons (by decide))
  have := Prints.list hseq
  simpa [List.append_assoc] using this

theorem port_nondelim : ∀ d ∈ (cl!"port"), isDelim d = false := by decide
theorem mutex_nondelim : ∀ d ∈ (cl!"mutex"), isDelim d = false := by decide
theorem str_nondelim : ∀ d ∈ (cl!"str"), isDelim d = false := by decide

theorem goodSym_matcherName (pat : Text) (ci : Bool) : GoodSym (matcherName pat ci ++ cl!"?") := by
  unfold matcherName
  cases isPattern pat <;> cases ci <;> (simp only; good_sym)

theorem prints_line : Prints (.list [sy (cl!"line")]) (cl!"(line)") := by
  have hseq : PrintsSeq [sy (cl!"line")] (cl!"line" ++ []) := PrintsSeq.cons (Prints.sym (by good_sym)) PrintsSeq.nil DelimStart.nil
  have := Prints.list hseq
  simpa [sy] using this

def bindingForm (b : Binding) : SExp := .list [.sym b.sexp.1, b.sexp.2]

theorem prints_binding (b : Binding) : Prints (bindingForm b) b.render := by
  cases b with
  | stdoutPort i =>
    have := prints_pair (goodSym_lf3 (cl!"port") port_nondelim i) (prints_acc (cl!"current-output-port") (by good_sym))
    simpa [bindingForm, Binding.sexp, Binding.render, List.append_assoc] using this
  | filePort i f =>
    have hw : Prints (.str (cl!"w")) (cl!"\"w\"") := by
      have := Prints.str (cl!"w"); simpa [schemeEscape, isControl] using this
    have ho := prints_app2 (f := cl!"open-file") (by good_sym) (Prints.str f) hw
    have := prints_pair (goodSym_lf3 (cl!"port") port_nondelim i) ho
    simpa [bindingForm, Binding.sexp, Binding.render, List.append_assoc] using this
  | mutex i =>
    have := prints_pair (goodSym_lf3 (cl!"mutex") mutex_nondelim i) (prints_acc (cl!"make-mutex") (by good_sym))
    simpa [bindingForm, Binding.sexp, Binding.render, List.append_assoc] using this
  | printerL i prt mtx term =>
    have ht : Prints (termS term) (terminatorEscape term) := by
      cases term with
      | none => exact Prints.boolF
      | some c => exact Prints.chr _
    have hm := prints_app3 (f := cl!"make-printer") (by good_sym)
      (Prints.sym (goodSym_lf3 (cl!"port") port_nondelim prt)) (Prints.sym (goodSym_lf3 (cl!"mutex") mutex_nondelim mtx)) ht
    have := prints_pair (goodSym_lf3 (cl!"print") print_nondelim i) hm
    simpa [bindingForm, Binding.sexp, Binding.render, sy, List.append_assoc] using this
  | printerD i =>
    have hf := prints_app2 (f := cl!"%lf3:frame:2") (by good_sym) (Prints.sym (x := cl!"line") (by good_sym)) (Prints.chr i)
    have hl := prints_app2 (f := cl!"lambda") (by good_sym) prints_line hf
    have := prints_pair (goodSym_lf3 (cl!"print") print_nondelim i) hl
    simpa [bindingForm, Binding.sexp, Binding.render, sy, call, List.append_assoc] using this
  | matcher i pat ci =>
    have hstr := goodSym_lf3 (cl!"str") str_nondelim i
    have hparam : Prints (.list [sy (lf3 (cl!"str") i)]) ('(' :: lf3 (cl!"str") i ++ [')']) := by
      have hseq : PrintsSeq [sy (lf3 (cl!"str") i)] (lf3 (cl!"str") i ++ []) :=
        PrintsSeq.cons (Prints.sym hstr) PrintsSeq.nil DelimStart.nil
      have := Prints.list hseq
      simpa [sy] using this
    have hb := prints_app2 (goodSym_matcherName pat ci) (Prints.str pat) (Prints.sym hstr)
    have hl := prints_app2 (f := cl!"lambda") (by good_sym) hparam hb
    have := prints_pair (goodSym_lf3 (cl!"match") letters_nondelim (i + 1)) hl
    simpa [bindingForm, Binding.sexp, Binding.render, matcherBody, sy, call, List.append_assoc] using this
  | frame =>
    have hsd : Prints (.list [sy (cl!"s"), sy (cl!"d")]) (cl!"(s d)") := by
      have hseq : PrintsSeq [sy (cl!"s"), sy (cl!"d")] (cl!"s" ++ (' ' :: (cl!"d" ++ []))) :=
        PrintsSeq.cons (Prints.sym (by good_sym)) (PrintsSeq.ws ' ' (by decide)
          (PrintsSeq.cons (Prints.sym (by good_sym)) PrintsSeq.nil DelimStart.nil)) (DelimStart.cons (by decide))
      have := Prints.list hseq
      simpa [sy] using this
    have hport : Prints (sy (cl!"%lf3:port:0")) (cl!"%lf3:port:0") := Prints.sym (by good_sym)
    have hd1 := prints_app2 (f := cl!"display") (by good_sym) (Prints.sym (x := cl!"s") (by good_sym)) hport
    have h1e : Prints (.chr 0x1e) (cl!"#\\x1e") := by
      have := Prints.chr 0x1e
      have e : natToHex02 0x1e = cl!"1e" := by decide
      rw [e] at this; exact this
    have hstr := prints_app2 (f := cl!"string") (by good_sym) h1e (Prints.sym (x := cl!"d") (by good_sym))
    have hd2 := prints_app2 (f := cl!"display") (by good_sym) hstr hport
    have hwm := prints_app3 (f := cl!"with-mutex") (by good_sym) (Prints.sym (x := cl!"%lf3:mutex:1") (by good_sym)) hd1 hd2
    have hl := prints_app2 (f := cl!"lambda") (by good_sym) hsd hwm
    have := prints_pair (name := cl!"%lf3:frame:2") (by good_sym) hl
    simpa [bindingForm, Binding.sexp, Binding.render, frameBody, sy, call, List.append_assoc] using this

/-- Forms separated by a non-empty blank string. -/
theorem printsSeq_join (sep : Text) (hsep : ∀ c ∈ sep, isWs c = true) (hne : sep ≠ []) :
    ∀ (pairs : List (SExp × Text)), (∀ p ∈ pairs, Prints p.1 p.2) →
      PrintsSeq (pairs.map (·.1)) (joinWith sep (pairs.map (·.2)))
  | [], _ => PrintsSeq.nil
  | [p], h => by
    have := PrintsSeq.cons (h p (by simp)) PrintsSeq.nil DelimStart.nil
    simpa [joinWith] using this
  | p :: q :: r, h => by
    have ih := printsSeq_join sep hsep hne (q :: r) (fun x hx => h x (by simp [hx]))
    have hd : DelimStart (sep ++ joinWith sep ((q :: r).map (·.2))) := by
      cases sep with
      | nil => exact absurd rfl hne
      | cons c cs => exact DelimStart.cons (delim_of_ws (hsep c (by simp)))
    have := PrintsSeq.cons (h p (by simp)) (PrintsSeq.wss sep hsep ih) hd
    simpa [joinWith, List.append_assoc] using this

theorem prints_definitions (m : Manager) :
    PrintsSeq (m.vars.map bindingForm) m.definitions := by
  have hp : ∀ p ∈ m.vars.map (fun b => (bindingForm b, b.render)), Prints p.1 p.2 := by
    intro p hp; obtain ⟨b, _, rfl⟩ := List.mem_map.mp hp; exact prints_binding b
  unfold Manager.definitions
  split
  · have := printsSeq_join (cl!"\n       ") (by decide) (by decide) _ hp
    simpa [List.map_map, Function.comp_def] using this
  · have := printsSeq_join (cl!" ") (by decide) (by decide) _ hp
    simpa [List.map_map, Function.comp_def] using this

end Scheme
end FV
