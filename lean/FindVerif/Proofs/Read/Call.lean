import FindVerif.Proofs.Read.Strings
import FindVerif.Model.GenS
/- Applications `(f a1 … an)` with single blanks, as the generator writes them. -/
namespace FV
namespace Scheme

def argsText (args : List (SExp × Text)) : Text := args.flatMap fun p => ' ' :: p.2

theorem printsSeq_args : ∀ (args : List (SExp × Text)), (∀ p ∈ args, Prints p.1 p.2) →
    PrintsSeq (args.map (·.1)) (argsText args)
  | [], _ => PrintsSeq.nil
  | p :: ps, h => by
    have ih := printsSeq_args ps (fun q hq => h q (by simp [hq]))
    show PrintsSeq (p.1 :: ps.map (·.1)) (' ' :: (p.2 ++ argsText ps))
    refine PrintsSeq.ws ' ' (by decide) (PrintsSeq.cons (h p (by simp)) ih ?_)
    cases ps with
    | nil => exact DelimStart.nil
    | cons q qs => exact DelimStart.cons (c := ' ') (by decide)

/-- `(f a1 … an)`. -/
theorem prints_app {f : Text} (hf : GoodSym f) (args : List (SExp × Text)) (h : ∀ p ∈ args, Prints p.1 p.2) :
    Prints (call f (args.map (·.1))) ('(' :: (f ++ argsText args) ++ [')']) := by
  apply Prints.list
  refine PrintsSeq.cons (Prints.sym hf) (printsSeq_args args h) ?_
  cases args with
  | nil => exact DelimStart.nil
  | cons q qs => exact DelimStart.cons (c := ' ') (by decide)

theorem prints_app0 {f : Text} (hf : GoodSym f) : Prints (call f []) ('(' :: f ++ [')']) := by
  have := prints_app hf [] (by simp)
  simpa [argsText] using this

theorem prints_app1 {f : Text} (hf : GoodSym f) {s1 : SExp} {t1 : Text} (h1 : Prints s1 t1) :
    Prints (call f [s1]) ('(' :: f ++ ' ' :: t1 ++ [')']) := by
  have := prints_app hf [(s1, t1)] (by simp [h1])
  simpa [argsText, List.append_assoc] using this

theorem prints_app2 {f : Text} (hf : GoodSym f) {s1 s2 : SExp} {t1 t2 : Text} (h1 : Prints s1 t1) (h2 : Prints s2 t2) :
    Prints (call f [s1, s2]) ('(' :: f ++ ' ' :: t1 ++ ' ' :: t2 ++ [')']) := by
  have := prints_app hf [(s1, t1), (s2, t2)] (by intro p hp; simp at hp; rcases hp with rfl | rfl <;> assumption)
  simpa [argsText, List.append_assoc] using this

theorem prints_app3 {f : Text} (hf : GoodSym f) {s1 s2 s3 : SExp} {t1 t2 t3 : Text}
    (h1 : Prints s1 t1) (h2 : Prints s2 t2) (h3 : Prints s3 t3) :
    Prints (call f [s1, s2, s3]) ('(' :: f ++ ' ' :: t1 ++ ' ' :: t2 ++ ' ' :: t3 ++ [')']) := by
  have := prints_app hf [(s1, t1), (s2, t2), (s3, t3)]
    (by intro p hp; simp at hp; rcases hp with rfl | rfl | rfl <;> assumption)
  simpa [argsText, List.append_assoc] using this

/-! ### the symbols the generator writes -/

theorem goodSym_of_decide (x : Text) (h1 : x ≠ []) (h2 : ∀ d ∈ x, isDelim d = false) (h3 : x.head? ≠ some '#')
    (h4 : x.all isDigit = false) : GoodSym x := ⟨h1, h2, h3, h4⟩

macro "good_sym" : tactic => `(tactic| exact ⟨by decide, by decide, by decide, by decide⟩)

theorem goodSym_lf3 (k : Text) (hk : ∀ d ∈ k, isDelim d = false) (n : Nat) : GoodSym (lf3 k n) := by
  refine ⟨by simp [lf3], ?_, by simp [lf3], by simp [lf3, isDigit]⟩
  intro d hd
  simp only [lf3, List.mem_append] at hd
  rcases hd with ((hd | hd) | hd) | hd
  · revert d; decide
  · exact hk d hd
  · revert d; decide
  · exact digit_nondelim d (natToDec_digits n d hd)

theorem goodSym_cmp {α : Type} (c : Comparison α) : GoodSym (cmpOp c) := by
  cases c <;> (simp only [cmpOp]; good_sym)

end Scheme
end FV
