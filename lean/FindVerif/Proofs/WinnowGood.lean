import FindVerif.Proofs.WinnowRepeat
/-
  Panic-freedom, non-increase and consumption for every combinator, packaged so that the
  lexer's totality proof is a bottom-up composition.
-/
namespace FV
namespace W
variable {ι α β γ : Type}

/-- Never panics, and on success the rest is no longer than the input. -/
structure Good (p : P ι α) : Prop where
  np : NoPanic p
  ni : NonInc p

/-- Good, and success consumes at least one element. -/
structure Strict (p : P ι α) : Prop where
  good : Good p
  cons : Consumes p

/-- Predicate on the output of a successful parse. -/
def Out (p : P ι α) (Q : α → Prop) : Prop := ∀ i a r, p i = .ok a r → Q a

theorem Strict.np {p : P ι α} (h : Strict p) : NoPanic p := h.good.np
theorem Strict.ni {p : P ι α} (h : Strict p) : NonInc p := h.good.ni
theorem Consumes.nonInc {p : P ι α} (h : Consumes p) : NonInc p := fun i a r hp => Nat.le_of_lt (h i a r hp)

/-! ### primitives -/

theorem good_pure (a : α) : Good (pure a : P ι α) :=
  ⟨fun i s => by simp [pure], fun i b r h => by simp [pure] at h; simp [h.2]⟩

theorem strict_fail : Strict (fail : P ι α) :=
  ⟨⟨noPanic_fail, fun i a r h => by simp [fail] at h⟩, fun i a r h => by simp [fail] at h⟩

theorem good_eof : Good (eof : P ι Unit) := ⟨noPanic_eof, sound_eof.nonInc⟩

theorem strict_any : Strict (any : P ι ι) :=
  ⟨⟨noPanic_any, sound_any.nonInc⟩, sound_any.consumes (by rintro _ _ rfl; simp)⟩

theorem strict_oneOf (f : ι → Bool) : Strict (oneOf f) :=
  ⟨⟨noPanic_oneOf f, (sound_oneOf f).nonInc⟩, (sound_oneOf f).consumes (by rintro _ _ ⟨rfl, _⟩; simp)⟩

theorem out_oneOf (f : ι → Bool) : Out (oneOf f) (fun a => f a = true) := by
  intro i a r h
  obtain ⟨_, _, _, hf⟩ := sound_oneOf f i a r h
  exact hf

theorem isPrefix_length {s i : List Char} (h : isPrefix s i = true) : s.length ≤ i.length := by
  induction s generalizing i with
  | nil => simp
  | cons a s ih =>
    cases i with
    | nil => simp [isPrefix] at h
    | cons b i => simp [isPrefix] at h; simp; exact ih h.2

theorem good_lit (s : Text) : Good (lit s) :=
  ⟨fun i t => by simp only [lit]; split <;> simp,
   fun i a r h => by
     simp only [lit] at h
     split at h
     · simp at h; rw [← h]; simp
     · simp at h⟩

theorem strict_lit (s : Text) (hs : s ≠ []) : Strict (lit s) :=
  ⟨good_lit s, fun i a r h => by
    simp only [lit] at h
    split at h
    · rename_i hp
      simp at h
      rw [← h]
      have := isPrefix_length hp
      have : 0 < s.length := by cases s <;> simp_all
      simp; omega
    · simp at h⟩

theorem takeWhile_dropWhile_length (p : ι → Bool) (i : List ι) :
    (i.takeWhile p).length + (i.dropWhile p).length = i.length := by
  rw [← List.length_append, List.takeWhile_append_dropWhile]

theorem mem_takeWhile_imp {p : ι → Bool} {l : List ι} {c : ι} (h : c ∈ l.takeWhile p) : p c = true :=
  List.all_eq_true.mp (List.all_takeWhile (l := l) (p := p)) c h

theorem good_takeWhile (m : Nat) (p : ι → Bool) : Good (takeWhile m p) :=
  ⟨fun i s => by simp only [takeWhile]; split <;> simp,
   fun i a r h => by
     simp only [takeWhile] at h
     split at h
     · simp at h; rw [← h.2]; have := takeWhile_dropWhile_length p i; omega
     · simp at h⟩

theorem strict_takeWhile (m : Nat) (hm : 0 < m) (p : ι → Bool) : Strict (takeWhile m p) :=
  ⟨good_takeWhile m p, fun i a r h => by
    simp only [takeWhile] at h
    split at h
    · simp at h; rw [← h.2]; have := takeWhile_dropWhile_length p i; omega
    · simp at h⟩

theorem out_takeWhile (m : Nat) (p : ι → Bool) :
    Out (takeWhile m p) (fun a => m ≤ a.length ∧ ∀ c ∈ a, p c = true) := by
  intro i a r h
  simp only [takeWhile] at h
  split at h
  · rename_i hm
    simp at h
    rw [← h.1]
    exact ⟨hm, fun c hc => mem_takeWhile_imp hc⟩
  · simp at h

theorem good_takeWhileMN (m n : Nat) (p : ι → Bool) : Good (takeWhileMN m n p) :=
  ⟨fun i s => by simp only [takeWhileMN]; split <;> simp,
   fun i a r h => by
     simp only [takeWhileMN] at h
     split at h
     · simp at h; rw [← h.2]; simp
     · simp at h⟩

theorem strict_takeWhileMN (m n : Nat) (hm : 0 < m) (p : ι → Bool) : Strict (takeWhileMN m n p) :=
  ⟨good_takeWhileMN m n p, fun i a r h => by
    simp only [takeWhileMN] at h
    split at h
    · rename_i hle
      cases h
      have h0 := takeWhile_dropWhile_length p i
      have h1 : ((i.takeWhile p).take n).length ≤ (i.takeWhile p).length := by simp; omega
      rw [List.length_drop]
      omega
    · simp at h⟩

theorem out_takeWhileMN (m n : Nat) (p : ι → Bool) :
    Out (takeWhileMN m n p) (fun a => m ≤ a.length ∧ a.length ≤ n ∧ ∀ c ∈ a, p c = true) := by
  intro i a r h
  simp only [takeWhileMN] at h
  split at h
  · rename_i hm
    simp at h
    rw [← h.1]
    refine ⟨hm, by simp; omega, fun c hc => ?_⟩
    exact mem_takeWhile_imp (List.mem_of_mem_take hc)
  · simp at h

theorem takeUntil1_ok {d : Char} {i a r} (h : takeUntil1 d i = .ok a r) :
    a = i.takeWhile (· ≠ d) ∧ r = i.dropWhile (· ≠ d) ∧ a ≠ [] := by
  simp only [takeUntil1] at h
  split at h
  · cases h
  · split at h
    · cases h
    · rename_i hd hne
      cases h
      refine ⟨rfl, rfl, ?_⟩
      intro he; rw [he] at hne; exact hne rfl

theorem strict_takeUntil1 (d : Char) : Strict (takeUntil1 d) :=
  ⟨⟨fun i s => by
      simp only [takeUntil1]
      split
      · simp
      · split <;> simp,
    fun i a r h => by
      obtain ⟨_, rfl, _⟩ := takeUntil1_ok h
      have := takeWhile_dropWhile_length (· ≠ d) i
      omega⟩,
   fun i a r h => by
      obtain ⟨rfl, rfl, hne⟩ := takeUntil1_ok h
      have := takeWhile_dropWhile_length (· ≠ d) i
      have : 0 < (i.takeWhile (· ≠ d)).length := by
        cases hx : i.takeWhile (· ≠ d) with
        | nil => exact absurd hx hne
        | cons _ _ => simp
      omega⟩

theorem strict_digit1 : Strict digit1 := strict_takeWhile 1 (by omega) _
theorem strict_alpha1 : Strict alpha1 := strict_takeWhile 1 (by omega) _
theorem strict_multispace1 : Strict multispace1 := strict_takeWhile 1 (by omega) _
theorem good_multispace0 : Good multispace0 := good_takeWhile 0 _

/-! ### transformers -/

theorem nonInc_map {p : P ι α} (f : α → β) (h : NonInc p) : NonInc (map f p) := by
  intro i b r hm
  simp only [map] at hm
  cases hp : p i with
  | ok a r' => rw [hp] at hm; simp at hm; rw [← hm.2]; exact h i a r' hp
  | err k c r' => rw [hp] at hm; simp at hm
  | panic s => rw [hp] at hm; simp at hm

theorem consumes_map {p : P ι α} (f : α → β) (h : Consumes p) : Consumes (map f p) := by
  intro i b r hm
  simp only [map] at hm
  cases hp : p i with
  | ok a r' => rw [hp] at hm; simp at hm; rw [← hm.2]; exact h i a r' hp
  | err k c r' => rw [hp] at hm; simp at hm
  | panic s => rw [hp] at hm; simp at hm

theorem good_map {p : P ι α} (f : α → β) (h : Good p) : Good (map f p) := ⟨noPanic_map f h.np, nonInc_map f h.ni⟩
theorem strict_map {p : P ι α} (f : α → β) (h : Strict p) : Strict (map f p) :=
  ⟨good_map f h.good, consumes_map f h.cons⟩
theorem good_value {p : P ι α} (b : β) (h : Good p) : Good (value b p) := good_map _ h
theorem strict_value {p : P ι α} (b : β) (h : Strict p) : Strict (value b p) := strict_map _ h

theorem out_map {p : P ι α} {Q : α → Prop} (f : α → β) (h : Out p Q) : Out (map f p) (fun b => ∃ a, b = f a ∧ Q a) := by
  intro i b r hm
  simp only [map] at hm
  cases hp : p i with
  | ok a r' => rw [hp] at hm; simp at hm; exact ⟨a, hm.1.symm, h i a r' hp⟩
  | err k c r' => rw [hp] at hm; simp at hm
  | panic s => rw [hp] at hm; simp at hm

theorem good_context {p : P ι α} (c : Ctx) (h : Good p) : Good (context c p) :=
  ⟨noPanic_context c h.np, fun i a r hc => by
    simp only [context] at hc
    split at hc
    · simp at hc
    · exact h.ni i a r hc⟩

theorem strict_context {p : P ι α} (c : Ctx) (h : Strict p) : Strict (context c p) :=
  ⟨good_context c h.good, fun i a r hc => by
    simp only [context] at hc
    split at hc
    · simp at hc
    · exact h.cons i a r hc⟩

theorem out_context {p : P ι α} {Q} (c : Ctx) (h : Out p Q) : Out (context c p) Q := by
  intro i a r hc
  simp only [context] at hc
  split at hc
  · simp at hc
  · exact h i a r hc

theorem good_cutErr {p : P ι α} (h : Good p) : Good (cutErr p) :=
  ⟨noPanic_cutErr h.np, fun i a r hc => by
    simp only [cutErr] at hc
    split at hc
    · simp at hc
    · exact h.ni i a r hc⟩

theorem strict_cutErr {p : P ι α} (h : Strict p) : Strict (cutErr p) :=
  ⟨good_cutErr h.good, fun i a r hc => by
    simp only [cutErr] at hc
    split at hc
    · simp at hc
    · exact h.cons i a r hc⟩

theorem out_cutErr {p : P ι α} {Q} (h : Out p Q) : Out (cutErr p) Q := by
  intro i a r hc
  simp only [cutErr] at hc
  split at hc
  · simp at hc
  · exact h i a r hc

theorem good_tryMap {p : P ι α} (f : α → Option β) (h : Good p) : Good (tryMap f p) :=
  ⟨fun i s hm => by
    simp only [tryMap] at hm
    cases hp : p i with
    | ok a r => rw [hp] at hm; simp only at hm; split at hm <;> simp at hm
    | err k c r => rw [hp] at hm; simp at hm
    | panic s' => exact h.np i s' hp,
   fun i b r hm => by
    simp only [tryMap] at hm
    cases hp : p i with
    | ok a r' =>
      rw [hp] at hm; simp only at hm
      split at hm
      · simp at hm; rw [← hm.2]; exact h.ni i a r' hp
      · simp at hm
    | err k c r' => rw [hp] at hm; simp at hm
    | panic s' => rw [hp] at hm; simp at hm⟩

theorem strict_tryMap {p : P ι α} (f : α → Option β) (h : Strict p) : Strict (tryMap f p) :=
  ⟨good_tryMap f h.good, fun i b r hm => by
    simp only [tryMap] at hm
    cases hp : p i with
    | ok a r' =>
      rw [hp] at hm; simp only at hm
      split at hm
      · simp at hm; rw [← hm.2]; exact h.cons i a r' hp
      · simp at hm
    | err k c r' => rw [hp] at hm; simp at hm
    | panic s' => rw [hp] at hm; simp at hm⟩

/-- `mapOrPanic` is good when `f` is defined on every output of `p`. -/
theorem good_mapOrPanic {p : P ι α} {Q : α → Prop} (site : Text) (f : α → Option β) (h : Good p)
    (ho : Out p Q) (hf : ∀ a, Q a → (f a).isSome) : Good (mapOrPanic site f p) :=
  ⟨fun i s hm => by
    simp only [mapOrPanic] at hm
    cases hp : p i with
    | ok a r =>
      rw [hp] at hm; simp only at hm
      have := hf a (ho i a r hp)
      cases hfa : f a with
      | some b => rw [hfa] at hm; simp at hm
      | none => rw [hfa] at this; simp at this
    | err k c r => rw [hp] at hm; simp at hm
    | panic s' => exact h.np i s' hp,
   fun i b r hm => by
    simp only [mapOrPanic] at hm
    cases hp : p i with
    | ok a r' =>
      rw [hp] at hm; simp only at hm
      split at hm
      · simp at hm; rw [← hm.2]; exact h.ni i a r' hp
      · simp at hm
    | err k c r' => rw [hp] at hm; simp at hm
    | panic s' => rw [hp] at hm; simp at hm⟩

theorem strict_mapOrPanic {p : P ι α} {Q : α → Prop} (site : Text) (f : α → Option β) (h : Strict p)
    (ho : Out p Q) (hf : ∀ a, Q a → (f a).isSome) : Strict (mapOrPanic site f p) :=
  ⟨good_mapOrPanic site f h.good ho hf, fun i b r hm => by
    simp only [mapOrPanic] at hm
    cases hp : p i with
    | ok a r' =>
      rw [hp] at hm; simp only at hm
      split at hm
      · simp at hm; rw [← hm.2]; exact h.cons i a r' hp
      · simp at hm
    | err k c r' => rw [hp] at hm; simp at hm
    | panic s' => rw [hp] at hm; simp at hm⟩

/-! ### sequencing -/

theorem pair_ok {p : P ι α} {q : P ι β} {i ab r} (h : pair p q i = .ok ab r) :
    ∃ r1, p i = .ok ab.1 r1 ∧ q r1 = .ok ab.2 r := by
  simp only [pair] at h
  cases hp : p i with
  | ok a r1 =>
    rw [hp] at h; simp only at h
    cases hq : q r1 with
    | ok b r2 => rw [hq] at h; simp at h; obtain ⟨rfl, rfl⟩ := h; exact ⟨r1, rfl, hq⟩
    | err k c r' => rw [hq] at h; simp at h
    | panic s => rw [hq] at h; simp at h
  | err k c r' => rw [hp] at h; simp at h
  | panic s => rw [hp] at h; simp at h

theorem good_pair {p : P ι α} {q : P ι β} (hp : Good p) (hq : Good q) : Good (pair p q) :=
  ⟨noPanic_pair hp.np hq.np, fun i ab r h => by
    obtain ⟨r1, h1, h2⟩ := pair_ok h
    exact Nat.le_trans (hq.ni _ _ _ h2) (hp.ni _ _ _ h1)⟩

theorem strict_pair_left {p : P ι α} {q : P ι β} (hp : Strict p) (hq : Good q) : Strict (pair p q) :=
  ⟨good_pair hp.good hq, fun i ab r h => by
    obtain ⟨r1, h1, h2⟩ := pair_ok h
    exact Nat.lt_of_le_of_lt (hq.ni _ _ _ h2) (hp.cons _ _ _ h1)⟩

theorem strict_pair_right {p : P ι α} {q : P ι β} (hp : Good p) (hq : Strict q) : Strict (pair p q) :=
  ⟨good_pair hp hq.good, fun i ab r h => by
    obtain ⟨r1, h1, h2⟩ := pair_ok h
    exact Nat.lt_of_lt_of_le (hq.cons _ _ _ h2) (hp.ni _ _ _ h1)⟩

theorem out_pair {p : P ι α} {q : P ι β} {Q1 Q2} (h1 : Out p Q1) (h2 : Out q Q2) :
    Out (pair p q) (fun ab => Q1 ab.1 ∧ Q2 ab.2) := by
  intro i ab r h
  obtain ⟨r1, hp, hq⟩ := pair_ok h
  exact ⟨h1 _ _ _ hp, h2 _ _ _ hq⟩

theorem good_preceded {p : P ι α} {q : P ι β} (hp : Good p) (hq : Good q) : Good (preceded p q) :=
  good_map _ (good_pair hp hq)
theorem strict_preceded_left {p : P ι α} {q : P ι β} (hp : Strict p) (hq : Good q) : Strict (preceded p q) :=
  strict_map _ (strict_pair_left hp hq)
theorem strict_preceded_right {p : P ι α} {q : P ι β} (hp : Good p) (hq : Strict q) : Strict (preceded p q) :=
  strict_map _ (strict_pair_right hp hq)
theorem good_terminated {p : P ι α} {q : P ι β} (hp : Good p) (hq : Good q) : Good (terminated p q) :=
  good_map _ (good_pair hp hq)
theorem strict_terminated_left {p : P ι α} {q : P ι β} (hp : Strict p) (hq : Good q) : Strict (terminated p q) :=
  strict_map _ (strict_pair_left hp hq)

theorem out_preceded {p : P ι α} {q : P ι β} {Q} (h : Out q Q) : Out (preceded p q) Q := by
  intro i b r hm
  obtain ⟨ab, rfl, _, h2⟩ := out_map Prod.snd (out_pair (fun _ _ _ _ => trivial) h) i b r hm
  exact h2

theorem out_terminated {p : P ι α} {q : P ι β} {Q} (h : Out p Q) : Out (terminated p q) Q := by
  intro i a r hm
  obtain ⟨ab, rfl, h1, _⟩ := out_map Prod.fst (out_pair h (fun _ _ _ _ => trivial)) i a r hm
  exact h1

theorem good_alt2 {p q : P ι α} (hp : Good p) (hq : Good q) : Good (alt2 p q) :=
  ⟨noPanic_alt2 hp.np hq.np, fun i a r h => by
    simp only [alt2] at h
    split at h
    · exact hq.ni i a r h
    · exact hp.ni i a r h⟩

theorem strict_alt2 {p q : P ι α} (hp : Strict p) (hq : Strict q) : Strict (alt2 p q) :=
  ⟨good_alt2 hp.good hq.good, fun i a r h => by
    simp only [alt2] at h
    split at h
    · exact hq.cons i a r h
    · exact hp.cons i a r h⟩

theorem good_alt {ps : List (P ι α)} (h : ∀ p ∈ ps, Good p) : Good (alt ps) := by
  induction ps with
  | nil => exact strict_fail.good
  | cons p ps ih =>
    cases ps with
    | nil => simpa [alt] using h p (by simp)
    | cons q qs =>
      simp only [alt]
      exact good_alt2 (h p (by simp)) (ih (fun x hx => h x (by simp [hx])))

theorem strict_alt {ps : List (P ι α)} (h : ∀ p ∈ ps, Strict p) : Strict (alt ps) := by
  induction ps with
  | nil => exact strict_fail
  | cons p ps ih =>
    cases ps with
    | nil => simpa [alt] using h p (by simp)
    | cons q qs =>
      simp only [alt]
      exact strict_alt2 (h p (by simp)) (ih (fun x hx => h x (by simp [hx])))

theorem out_alt2 {p q : P ι α} {Q} (hp : Out p Q) (hq : Out q Q) : Out (alt2 p q) Q := by
  intro i a r h
  simp only [alt2] at h
  split at h
  · exact hq i a r h
  · exact hp i a r h

theorem out_alt {ps : List (P ι α)} {Q} (h : ∀ p ∈ ps, Out p Q) : Out (alt ps) Q := by
  induction ps with
  | nil => intro i a r hh; simp [alt, fail] at hh
  | cons p ps ih =>
    cases ps with
    | nil => simpa [alt] using h p (by simp)
    | cons q qs =>
      simp only [alt]
      exact out_alt2 (h p (by simp)) (ih (fun x hx => h x (by simp [hx])))

/-- `and_then`: the inner parser runs on the slice; the rest comes from the outer one. -/
theorem good_andThen {outer : P ι (List ι)} {inner : P ι β} (ho : Good outer) (hi : NoPanic inner) :
    Good (andThen outer inner) :=
  ⟨fun i s h => by
    simp only [andThen] at h
    cases h1 : outer i with
    | ok slice r =>
      rw [h1] at h; simp only at h
      cases h2 : inner slice with
      | ok b r' => rw [h2] at h; simp at h
      | err k c r' => rw [h2] at h; simp at h
      | panic s' => exact hi _ s' h2
    | err k c r => rw [h1] at h; simp at h
    | panic s' => exact ho.np i s' h1,
   fun i b r h => by
    simp only [andThen] at h
    cases h1 : outer i with
    | ok slice r' =>
      rw [h1] at h; simp only at h
      cases h2 : inner slice with
      | ok b' r'' => rw [h2] at h; simp at h; rw [← h.2]; exact ho.ni i slice r' h1
      | err k c r'' => rw [h2] at h; simp at h
      | panic s' => rw [h2] at h; simp at h
    | err k c r' => rw [h1] at h; simp at h
    | panic s' => rw [h1] at h; simp at h⟩

theorem strict_andThen {outer : P ι (List ι)} {inner : P ι β} (ho : Strict outer) (hi : NoPanic inner) :
    Strict (andThen outer inner) :=
  ⟨good_andThen ho.good hi, fun i b r h => by
    simp only [andThen] at h
    cases h1 : outer i with
    | ok slice r' =>
      rw [h1] at h; simp only at h
      cases h2 : inner slice with
      | ok b' r'' => rw [h2] at h; simp at h; rw [← h.2]; exact ho.cons i slice r' h1
      | err k c r'' => rw [h2] at h; simp at h
      | panic s' => rw [h2] at h; simp at h
    | err k c r' => rw [h1] at h; simp at h
    | panic s' => rw [h1] at h; simp at h⟩

end W
end FV

namespace FV
namespace W
variable {ι α β γ : Type}

/-! ### loops -/

theorem repeatFold_nonInc {p : P ι α} {g : β → α → β} (pf : Profile) (hp : NonInc p) :
    ∀ (fuel : Nat) (acc : β) (i : List ι) (res : β) (r : List ι),
      repeatFold pf p g fuel acc i = .ok res r → r.length ≤ i.length := by
  intro fuel
  induction fuel with
  | zero => intro acc i res r h; simp [repeatFold] at h
  | succ n ih =>
    intro acc i res r h
    simp only [repeatFold] at h
    cases h1 : p i with
    | ok a r1 =>
      rw [h1] at h; simp only at h
      split at h
      · cases pf <;> simp [assertFail] at h
      · exact Nat.le_trans (ih _ _ _ _ h) (hp i a r1 h1)
    | err k c r' => rw [h1] at h; cases k <;> simp at h; rw [h.2]; exact Nat.le_refl _
    | panic s => rw [h1] at h; simp at h

theorem good_repeat0 {p : P ι α} (pf : Profile) (h : Strict p) : Good (repeat0 pf p) :=
  ⟨fun i s hh => by
    simp only [repeat0, map] at hh
    cases h1 : repeatFold pf p (fun acc a => a :: acc) (i.length + 1) [] i with
    | ok a r => rw [h1] at hh; simp at hh
    | err k c r => rw [h1] at hh; simp at hh
    | panic s' =>
      exact repeatFold_noPanic pf (h.np.on i.length) h.cons _ _ i (Nat.le_refl _) (by omega) s' h1,
   fun i b r hh => by
    simp only [repeat0, map] at hh
    cases h1 : repeatFold pf p (fun acc a => a :: acc) (i.length + 1) [] i with
    | ok a r' => rw [h1] at hh; simp at hh; rw [← hh.2]; exact repeatFold_nonInc pf h.ni _ _ _ _ _ h1
    | err k c r' => rw [h1] at hh; simp at hh
    | panic s' => rw [h1] at hh; simp at hh⟩

theorem repeatTillLoop_nonInc {f : P ι α} {g : P ι β} (pf : Profile) (hf : NonInc f) (hg : NonInc g) :
    ∀ (fuel : Nat) (acc : List α) (i : List ι) (res : List α × β) (r : List ι),
      repeatTillLoop pf f g fuel acc i = .ok res r → r.length ≤ i.length := by
  intro fuel
  induction fuel with
  | zero => intro acc i res r h; simp [repeatTillLoop] at h
  | succ n ih =>
    intro acc i res r h
    simp only [repeatTillLoop] at h
    cases hg1 : g i with
    | ok b r' => rw [hg1] at h; simp at h; rw [← h.2]; exact hg i b r' hg1
    | panic s => rw [hg1] at h; simp at h
    | err kk c r' =>
      rw [hg1] at h
      cases kk with
      | true => simp at h
      | false =>
        simp only at h
        cases hf1 : f i with
        | err k2 c2 r2 => rw [hf1] at h; simp at h
        | panic s => rw [hf1] at h; simp at h
        | ok a r1 =>
          rw [hf1] at h; simp only at h
          split at h
          · cases pf <;> simp [assertFail] at h
          · exact Nat.le_trans (ih _ _ _ _ h) (hf i a r1 hf1)

theorem good_repeatTill0 {f : P ι α} {g : P ι β} (pf : Profile) (hf : Strict f) (hg : Good g) :
    Good (repeatTill0 pf f g) :=
  ⟨fun i s h => repeatTillLoop_noPanic pf (hf.np.on i.length) (hg.np.on i.length) hf.cons _ _ i (Nat.le_refl _) (by omega) s h,
   fun i b r h => repeatTillLoop_nonInc pf hf.ni hg.ni _ _ _ _ _ h⟩

theorem good_repeatTill1 {f : P ι α} {g : P ι β} (pf : Profile) (hf : Strict f) (hg : Good g) :
    Good (repeatTill1 pf f g) :=
  ⟨fun i s h => by
    simp only [repeatTill1] at h
    cases h1 : f i with
    | ok a r =>
      rw [h1] at h; simp only at h
      exact repeatTillLoop_noPanic pf (hf.np.on r.length) (hg.np.on r.length) hf.cons _ _ r (Nat.le_refl _) (by omega) s h
    | err k c r => rw [h1] at h; simp at h
    | panic s' => exact hf.np i s' h1,
   fun i b r h => by
    simp only [repeatTill1] at h
    cases h1 : f i with
    | ok a r1 =>
      rw [h1] at h; simp only at h
      exact Nat.le_trans (repeatTillLoop_nonInc pf hf.ni hg.ni _ _ _ _ _ h) (hf.ni i a r1 h1)
    | err k c r' => rw [h1] at h; simp at h
    | panic s' => rw [h1] at h; simp at h⟩

/-- When the terminator succeeds the loop stops; with a strict body the whole is strict. -/
theorem strict_repeatTill1 {f : P ι α} {g : P ι β} (pf : Profile) (hf : Strict f) (hg : Good g) :
    Strict (repeatTill1 pf f g) :=
  ⟨good_repeatTill1 pf hf hg, fun i b r h => by
    simp only [repeatTill1] at h
    cases h1 : f i with
    | ok a r1 =>
      rw [h1] at h; simp only at h
      exact Nat.lt_of_le_of_lt (repeatTillLoop_nonInc pf hf.ni hg.ni _ _ _ _ _ h) (hf.cons i a r1 h1)
    | err k c r' => rw [h1] at h; simp at h
    | panic s' => rw [h1] at h; simp at h⟩

theorem separatedLoop_good {p : P ι α} {sep : P ι γ} (pf : Profile) (hp : Good p) (hs : Strict sep) :
    ∀ (fuel : Nat) (acc : List α) (i : List ι), i.length < fuel →
      (∀ s, separatedLoop pf p sep fuel acc i ≠ .panic s) ∧
      (∀ res r, separatedLoop pf p sep fuel acc i = .ok res r → r.length ≤ i.length) := by
  intro fuel
  induction fuel with
  | zero => intro acc i h; omega
  | succ n ih =>
    intro acc i hfu
    simp only [separatedLoop]
    cases h1 : sep i with
    | err k c r => cases k <;> simp
    | panic s => exact absurd h1 (hs.np i s)
    | ok x r1 =>
      have hlt := hs.cons i x r1 h1
      have hne : r1.length ≠ i.length := by omega
      simp only [hne, if_false]
      cases h2 : p r1 with
      | err k c r => cases k <;> simp
      | panic s => exact absurd h2 (hp.np r1 s)
      | ok a r2 =>
        have hle := hp.ni r1 a r2 h2
        have := ih (a :: acc) r2 (by omega)
        exact ⟨this.1, fun res r hr => Nat.le_trans (this.2 res r hr) (by omega)⟩

theorem good_separated1 {p : P ι α} {sep : P ι γ} (pf : Profile) (hp : Good p) (hs : Strict sep) :
    Good (separated1 pf p sep) :=
  ⟨fun i s h => by
    simp only [separated1] at h
    cases h1 : p i with
    | ok a r => rw [h1] at h; simp only at h; exact (separatedLoop_good pf hp hs _ _ r (by omega)).1 s h
    | err k c r => rw [h1] at h; simp at h
    | panic s' => exact hp.np i s' h1,
   fun i b r h => by
    simp only [separated1] at h
    cases h1 : p i with
    | ok a r1 =>
      rw [h1] at h; simp only at h
      exact Nat.le_trans ((separatedLoop_good pf hp hs _ _ r1 (by omega)).2 _ _ h) (hp.ni i a r1 h1)
    | err k c r' => rw [h1] at h; simp at h
    | panic s' => rw [h1] at h; simp at h⟩

theorem strict_separated1 {p : P ι α} {sep : P ι γ} (pf : Profile) (hp : Strict p) (hs : Strict sep) :
    Strict (separated1 pf p sep) :=
  ⟨good_separated1 pf hp.good hs, fun i b r h => by
    simp only [separated1] at h
    cases h1 : p i with
    | ok a r1 =>
      rw [h1] at h; simp only at h
      exact Nat.lt_of_le_of_lt ((separatedLoop_good pf hp.good hs _ _ r1 (by omega)).2 _ _ h) (hp.cons i a r1 h1)
    | err k c r' => rw [h1] at h; simp at h
    | panic s' => rw [h1] at h; simp at h⟩

end W
end FV

namespace FV
namespace W
variable {ι α β γ : Type}

theorem repeatTillLoop_consumes {f : P ι α} {g : P ι β} (pf : Profile) (hf : NonInc f) (hg : Consumes g) :
    ∀ (fuel : Nat) (acc : List α) (i : List ι) (res : List α × β) (r : List ι),
      repeatTillLoop pf f g fuel acc i = .ok res r → r.length < i.length := by
  intro fuel
  induction fuel with
  | zero => intro acc i res r h; simp [repeatTillLoop] at h
  | succ n ih =>
    intro acc i res r h
    simp only [repeatTillLoop] at h
    cases hg1 : g i with
    | ok b r' => rw [hg1] at h; simp at h; rw [← h.2]; exact hg i b r' hg1
    | panic s => rw [hg1] at h; simp at h
    | err kk c r' =>
      rw [hg1] at h
      cases kk with
      | true => simp at h
      | false =>
        simp only at h
        cases hf1 : f i with
        | err k2 c2 r2 => rw [hf1] at h; simp at h
        | panic s => rw [hf1] at h; simp at h
        | ok a r1 =>
          rw [hf1] at h; simp only at h
          split at h
          · cases pf <;> simp [assertFail] at h
          · exact Nat.lt_of_lt_of_le (ih _ _ _ _ h) (hf i a r1 hf1)

theorem strict_repeatTill0 {f : P ι α} {g : P ι β} (pf : Profile) (hf : Strict f) (hg : Strict g) :
    Strict (repeatTill0 pf f g) :=
  ⟨good_repeatTill0 pf hf hg.good, fun i b r h => repeatTillLoop_consumes pf hf.ni hg.cons _ _ _ _ _ h⟩

/-! ### outputs of loops -/

theorem repeatFold_out {p : P ι α} {g : β → α → β} {Q : α → Prop} {I : β → Prop} (pf : Profile)
    (hp : Out p Q) (hstep : ∀ acc a, I acc → Q a → I (g acc a)) :
    ∀ (fuel : Nat) (acc : β) (i : List ι) (res : β) (r : List ι), I acc →
      repeatFold pf p g fuel acc i = .ok res r → I res := by
  intro fuel
  induction fuel with
  | zero => intro acc i res r _ h; simp [repeatFold] at h
  | succ n ih =>
    intro acc i res r hI h
    simp only [repeatFold] at h
    cases h1 : p i with
    | ok a r1 =>
      rw [h1] at h; simp only at h
      split at h
      · cases pf <;> simp [assertFail] at h
      · exact ih _ _ _ _ (hstep _ _ hI (hp i a r1 h1)) h
    | err k c r' => rw [h1] at h; cases k <;> simp at h; rw [← h.1]; exact hI
    | panic s => rw [h1] at h; simp at h

theorem out_repeat0 {p : P ι α} {Q : α → Prop} (pf : Profile) (hp : Out p Q) :
    Out (repeat0 pf p) (fun l => ∀ a ∈ l, Q a) := by
  intro i l r h
  simp only [repeat0, map] at h
  cases h1 : repeatFold pf p (fun acc a => a :: acc) (i.length + 1) [] i with
  | ok a r' =>
    rw [h1] at h; simp at h
    have := repeatFold_out (I := fun acc : List α => ∀ a ∈ acc, Q a) pf hp
      (fun acc a hI hq x hx => by simp at hx; rcases hx with rfl | hx; exact hq; exact hI x hx)
      _ _ _ _ _ (by simp) h1
    rw [← h.1]
    intro x hx
    exact this x (by simpa using hx)
  | err k c r' => rw [h1] at h; simp at h
  | panic s' => rw [h1] at h; simp at h

theorem repeatTillLoop_out {f : P ι α} {g : P ι β} {Q : α → Prop} (pf : Profile) (hf : Out f Q) :
    ∀ (fuel : Nat) (acc : List α) (i : List ι) (xs : List α) (b : β) (r : List ι), (∀ a ∈ acc, Q a) →
      repeatTillLoop pf f g fuel acc i = .ok (xs, b) r → ∀ a ∈ xs, Q a := by
  intro fuel
  induction fuel with
  | zero => intro acc i xs b r _ h; simp [repeatTillLoop] at h
  | succ n ih =>
    intro acc i xs b r hacc h
    simp only [repeatTillLoop] at h
    cases hg1 : g i with
    | ok b' r' =>
      rw [hg1] at h; simp at h
      rw [← h.1.1]
      intro a ha; exact hacc a (by simpa using ha)
    | panic s => rw [hg1] at h; simp at h
    | err kk c r' =>
      rw [hg1] at h
      cases kk with
      | true => simp at h
      | false =>
        simp only at h
        cases hf1 : f i with
        | err k2 c2 r2 => rw [hf1] at h; simp at h
        | panic s => rw [hf1] at h; simp at h
        | ok a r1 =>
          rw [hf1] at h; simp only at h
          split at h
          · cases pf <;> simp [assertFail] at h
          · exact ih _ _ _ _ _ (by
              intro x hx; simp at hx; rcases hx with rfl | hx
              · exact hf i _ r1 hf1
              · exact hacc x hx) h

theorem out_repeatTill1 {f : P ι α} {g : P ι β} {Q : α → Prop} (pf : Profile) (hf : Out f Q) :
    Out (repeatTill1 pf f g) (fun xb => ∀ a ∈ xb.1, Q a) := by
  intro i xb r h
  simp only [repeatTill1] at h
  cases h1 : f i with
  | ok a r1 =>
    rw [h1] at h; simp only at h
    obtain ⟨xs, b⟩ := xb
    exact repeatTillLoop_out pf hf _ _ _ _ _ _ (by intro x hx; simp at hx; subst hx; exact hf i _ r1 h1) h
  | err k c r' => rw [h1] at h; simp at h
  | panic s' => rw [h1] at h; simp at h

/-! ### profile independence of the loops -/

theorem repeat0_profile {p : P ι α} (h : Strict p) : repeat0 .debug p = repeat0 .release p := by
  funext i
  simp only [repeat0, map]
  rw [repeatFold_stable .debug .release (fun _ => rfl) h.cons _ _ _ _ (Nat.lt_succ_self _) (Nat.lt_succ_self _)]

theorem repeatTill0_profile {f : P ι α} {g : P ι β} (h : Strict f) :
    repeatTill0 .debug f g = repeatTill0 .release f g := by
  funext i
  simp only [repeatTill0]
  exact repeatTillLoop_stable .debug .release (fun _ => rfl) h.cons _ _ _ _ (Nat.lt_succ_self _) (Nat.lt_succ_self _)

theorem repeatTill1_profile {f : P ι α} {g : P ι β} (h : Strict f) :
    repeatTill1 .debug f g = repeatTill1 .release f g := by
  funext i
  simp only [repeatTill1]
  cases f i with
  | ok a r => exact repeatTillLoop_stable .debug .release (fun _ => rfl) h.cons _ _ _ _ (Nat.lt_succ_self _) (Nat.lt_succ_self _)
  | err k c r => rfl
  | panic s => rfl

theorem separatedLoop_profile {p : P ι α} {sep : P ι γ} (hs : Consumes sep) :
    ∀ (fuel : Nat) (acc : List α) (i : List ι),
      separatedLoop .debug p sep fuel acc i = separatedLoop .release p sep fuel acc i := by
  intro fuel
  induction fuel with
  | zero => intro acc i; rfl
  | succ n ih =>
    intro acc i
    simp only [separatedLoop]
    cases h1 : sep i with
    | err k c r => cases k <;> rfl
    | panic s => rfl
    | ok x r1 =>
      have := hs i x r1 h1
      have hne : r1.length ≠ i.length := by omega
      simp only [hne, if_false]
      cases p r1 with
      | err k c r => cases k <;> rfl
      | panic s => rfl
      | ok a r2 => exact ih _ _

theorem separated1_profile {p : P ι α} {sep : P ι γ} (hs : Strict sep) :
    separated1 .debug p sep = separated1 .release p sep := by
  funext i
  simp only [separated1]
  cases p i with
  | ok a r => exact separatedLoop_profile hs.cons _ _ _
  | err k c r => rfl
  | panic s => rfl

end W
end FV
