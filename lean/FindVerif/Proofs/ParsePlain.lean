import FindVerif.Proofs.ParseTotal
import FindVerif.Spec.Supported
import FindVerif.Spec.Options
/- A parse result contains no option node and no explicit-precedence node. -/
namespace FV
open W Spec

def noGlobalTok (t : Token) : Prop := ∀ g, t ≠ .global g

theorem sweepGlobals_noGlobal : ∀ (ts : List Token) (o : RunOptions) (o' : RunOptions) (ts' : List Token),
    sweepGlobals o ts = some (o', ts') → ∀ t ∈ ts', noGlobalTok t
  | [], o, o', ts', h => by simp [sweepGlobals] at h; obtain ⟨_, rfl⟩ := h; simp
  | t :: ts, o, o', ts', h => by
    cases t with
    | global g =>
      simp only [sweepGlobals] at h
      cases hu : o.update g with
      | none => rw [hu] at h; simp at h
      | some o1 =>
        rw [hu] at h; simp only at h
        cases hs : sweepGlobals o1 ts with
        | none => rw [hs] at h; simp at h
        | some x =>
          rw [hs] at h; simp at h
          obtain ⟨_, rfl⟩ := h
          intro t ht
          simp at ht
          rcases ht with rfl | ht
          · intro g; simp
          · exact sweepGlobals_noGlobal ts o1 x.1 x.2 hs t ht
    | _ =>
      simp only [sweepGlobals] at h
      cases hs : sweepGlobals o ts with
      | none => rw [hs] at h; simp at h
      | some x =>
        rw [hs] at h; simp at h
        obtain ⟨_, rfl⟩ := h
        intro t ht
        simp at ht
        rcases ht with rfl | ht
        · intro g; simp
        · exact sweepGlobals_noGlobal ts o x.1 x.2 hs t ht

mutual
theorem plainB_atom : ∀ {ts e}, GAtom ts e → (∀ t ∈ ts, noGlobalTok t) → plainB e = true
  | _, _, @GAtom.prim t e h, hn => by
    cases t with
    | global g => exact absurd rfl (hn (.global g) (by simp) g)
    | test v => simp [primOf] at h; subst h; rfl
    | action v => simp [primOf] at h; subst h; rfl
    | positional v => simp [primOf] at h; subst h; rfl
    | _ => simp [primOf] at h
  | _, _, .not h, hn => by simpa [plainB] using plainB_atom h (fun t ht => hn t (by simp [ht]))
  | _, _, .paren h, hn => plainB_list h (fun t ht => hn t (by simp [ht]))
theorem plainB_and : ∀ {ts e}, GAnd ts e → (∀ t ∈ ts, noGlobalTok t) → plainB e = true
  | _, _, .atom h, hn => plainB_atom h hn
  | _, _, .andE h1 h2, hn => by
    simp [plainB, plainB_and h1 (fun t ht => hn t (by simp [ht])), plainB_atom h2 (fun t ht => hn t (by simp [ht]))]
  | _, _, .andI h1 h2, hn => by
    simp [plainB, plainB_and h1 (fun t ht => hn t (by simp [ht])), plainB_atom h2 (fun t ht => hn t (by simp [ht]))]
theorem plainB_or : ∀ {ts e}, GOr ts e → (∀ t ∈ ts, noGlobalTok t) → plainB e = true
  | _, _, .and h, hn => plainB_and h hn
  | _, _, .or h1 h2, hn => by
    simp [plainB, plainB_or h1 (fun t ht => hn t (by simp [ht])), plainB_and h2 (fun t ht => hn t (by simp [ht]))]
theorem plainB_list : ∀ {ts e}, GList ts e → (∀ t ∈ ts, noGlobalTok t) → plainB e = true
  | _, _, .or h, hn => plainB_or h hn
  | _, _, .comma h1 h2, hn => by
    simp [plainB, plainB_list h1 (fun t ht => hn t (by simp [ht])), plainB_or h2 (fun t ht => hn t (by simp [ht]))]
end

/-- What `parse` returns is a tree of the parser's shapes: no option node, no explicit-precedence
    node (so the two `unreachable!()` arms of code generation cannot be reached from `parse`). -/
theorem parse_plain (pf : Profile) (s : Text) (o : RunOptions) (e : Expr) (h : parse pf s = .ok o e) :
    plainB e = true := by
  simp only [parse] at h
  cases h1 : leadingGlobals pf s with
  | panic s' => rw [h1] at h; simp at h
  | err k c r => rw [h1] at h; simp at h
  | ok gs rest =>
    rw [h1] at h; simp only at h
    cases hua : updateAll {} gs with
    | none => rw [hua] at h; simp at h
    | some globals =>
      rw [hua] at h; simp only at h
      by_cases hre : rest.isEmpty = true
      · simp only [hre, if_true] at h
        simp only [sweepGlobals, Option.map] at h
        cases hc : climb pf [Token.test Test.true_] with
        | panic s' => rw [hc] at h; simp at h
        | err k c r => rw [hc] at h; simp at h
        | ok e' r =>
          rw [hc] at h; simp at h
          obtain ⟨_, rfl⟩ := h
          exact plainB_list (climb_sound pf hc).2 (by intro t ht; simp at ht; subst ht; intro g; simp)
      · have hre' : rest.isEmpty = false := by simpa using hre
        simp only [hre', Bool.false_eq_true, if_false] at h
        cases hl : lex pf rest with
        | panic s' => rw [hl] at h; simp at h
        | err k c r => rw [hl] at h; simp at h
        | ok tokens rest' =>
          rw [hl] at h; simp only at h
          cases hs : sweepGlobals globals tokens with
          | none => rw [hs] at h; simp at h
          | some x =>
            obtain ⟨g', toks'⟩ := x
            rw [hs] at h; simp only at h
            cases hc : climb pf toks' with
            | panic s' => rw [hc] at h; simp at h
            | err k c r => rw [hc] at h; simp at h
            | ok e' r =>
              rw [hc] at h; simp at h
              obtain ⟨_, rfl⟩ := h
              exact plainB_list (climb_sound pf hc).2 (sweepGlobals_noGlobal tokens globals g' toks' hs)

end FV
