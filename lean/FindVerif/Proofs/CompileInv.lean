import FindVerif.Proofs.Manager
import FindVerif.Model.Compile
/- The manager invariant is kept by code generation; what each resource request returns. -/
namespace FV

theorem getMatcher_spec (m : Manager) (pat : Text) (ci : Bool) (h : Inv m) :
    Step m (m.getMatcher pat ci).2 ∧
    ∃ i, (m.getMatcher pat ci).1 = (GName.mk .match_ (i + 1)).text ∧
      Binding.matcher i pat ci ∈ (m.getMatcher pat ci).2.vars ∧
      ((pat, ci), i + 1) ∈ (m.getMatcher pat ci).2.matches_ := by
  have hs := registerMatch_spec m pat ci h
  simp only [Manager.getMatcher]
  refine ⟨hs.1, ?_⟩
  obtain ⟨i, hi, hb⟩ := hs.1.inv.maps.mBound pat ci _ hs.2.1
  exact ⟨i, by simp [GName.text, Kind.text, hi], hb, by rw [← hi]; exact hs.2.1⟩

/-- What a printer request returns, per mode. -/
def PrinterFor (m : Manager) (name : Text) (dest : Option Text) (term : Option Char) : Prop :=
  ∃ i, name = (GName.mk .print i).text ∧
    if m.distributed then
      Binding.printerD i ∈ m.vars ∧
      ((match dest with | none => Target.stdout term | some f => Target.file f term), i) ∈ m.printersD
    else
      ∃ p : OpenPort, Binding.printerL i p.port p.mutex term ∈ m.vars ∧ Binding.mutex p.mutex ∈ m.vars ∧
        (match dest with
         | none => Binding.stdoutPort p.port ∈ m.vars
         | some f => Binding.filePort p.port f ∈ m.vars)

theorem getPrinter_spec (m : Manager) (term : Option Char) (h : Inv m) :
    Step m (m.getPrinter term).2 ∧ PrinterFor (m.getPrinter term).2 (m.getPrinter term).1 none term ∧
    (m.getPrinter term).2.matches_ = m.matches_ := by
  simp only [Manager.getPrinter]
  by_cases hd : m.distributed = true
  · simp only [hd, if_true]
    have hs := registerPrinterD_spec m (.stdout term) h hd
    refine ⟨hs.1, ⟨_, rfl, ?_⟩, hs.2.2⟩
    have hm : (m.registerPrinterD (Target.stdout term)).2.distributed = true := by rw [hs.1.mode, hd]
    simp only [hm, if_true]
    exact ⟨hs.1.inv.maps.dBound _ _ hs.2.1, hs.2.1⟩
  · have hd' : m.distributed = false := by simpa using hd
    simp only [hd', Bool.false_eq_true, if_false]
    have h1 := initDefaultPort_spec m h
    have hpb : PortBound m.initDefaultPort.2 m.initDefaultPort.1 := by
      have := h1.1.inv.maps.defBound _ h1.2.1
      exact ⟨⟨_, this.1, rfl⟩, this.2⟩
    have h2 := registerPrinterL_spec m.initDefaultPort.2 m.initDefaultPort.1 term h1.1.inv hpb
    refine ⟨h1.1.trans h2.1, ⟨_, rfl, ?_⟩, by rw [h2.2.2.1, h1.2.2.1]⟩
    have hm : (m.initDefaultPort.2.registerPrinterL m.initDefaultPort.1 term).2.distributed = false := by
      rw [h2.1.mode, h1.1.mode, hd']
    simp only [hm, Bool.false_eq_true, if_false]
    have hdb := h1.1.inv.maps.defBound _ h1.2.1
    exact ⟨m.initDefaultPort.1, h2.1.inv.maps.lBound _ _ _ h2.2.1, mem_ext h2.1.ext hdb.2, mem_ext h2.1.ext hdb.1⟩

theorem getFilePrinter_spec (m : Manager) (f : Text) (term : Option Char) (h : Inv m) :
    Step m (m.getFilePrinter f term).2 ∧
    PrinterFor (m.getFilePrinter f term).2 (m.getFilePrinter f term).1 (some f) term ∧
    (m.getFilePrinter f term).2.matches_ = m.matches_ := by
  simp only [Manager.getFilePrinter]
  by_cases hd : m.distributed = true
  · simp only [hd, if_true]
    have hs := registerPrinterD_spec m (.file f term) h hd
    refine ⟨hs.1, ⟨_, rfl, ?_⟩, hs.2.2⟩
    have hm : (m.registerPrinterD (Target.file f term)).2.distributed = true := by rw [hs.1.mode, hd]
    simp only [hm, if_true]
    exact ⟨hs.1.inv.maps.dBound _ _ hs.2.1, hs.2.1⟩
  · have hd' : m.distributed = false := by simpa using hd
    simp only [hd', Bool.false_eq_true, if_false]
    have h1 := initFilePort_spec m f h
    have hfb := h1.1.inv.maps.fBound _ _ h1.2.1
    have hpb : PortBound (m.initFilePort f).2 (m.initFilePort f).1 := ⟨⟨_, hfb.1, rfl⟩, hfb.2⟩
    have h2 := registerPrinterL_spec (m.initFilePort f).2 (m.initFilePort f).1 term h1.1.inv hpb
    refine ⟨h1.1.trans h2.1, ⟨_, rfl, ?_⟩, by rw [h2.2.2.1, h1.2.2.1]⟩
    have hm : ((m.initFilePort f).2.registerPrinterL (m.initFilePort f).1 term).2.distributed = false := by
      rw [h2.1.mode, h1.1.mode, hd']
    simp only [hm, Bool.false_eq_true, if_false]
    exact ⟨(m.initFilePort f).1, h2.1.inv.maps.lBound _ _ _ h2.2.1, mem_ext h2.1.ext hfb.2, mem_ext h2.1.ext hfb.1⟩

/-! ### preservation through code generation -/

theorem compileTest_mgr (clk : Nat → Nat) (t : Test) (st st' : CState) (txt : Text)
    (hc : compileTest clk t st = .ok (txt, st')) :
    st'.mgr = st.mgr ∨ ∃ s ci, st'.mgr = (st.mgr.getMatcher s ci).2 := by
  cases t <;> simp only [compileTest] at hc
  all_goals first
    | (cases hc; exact Or.inl rfl)
    | (cases hc; exact Or.inr ⟨_, _, rfl⟩)
    | (split at hc <;> cases hc <;> exact Or.inl rfl)
    | (split at hc <;> cases hc)

theorem compileTest_step (clk : Nat → Nat) (t : Test) (st st' : CState) (txt : Text)
    (h : Inv st.mgr) (hc : compileTest clk t st = .ok (txt, st')) : Step st.mgr st'.mgr := by
  rcases compileTest_mgr clk t st st' txt hc with he | ⟨s, ci, he⟩
  · rw [he]; exact Step.refl h
  · rw [he]; exact (getMatcher_spec _ _ _ h).1

theorem compileAction_mgr (a : Action) (st st' : CState) (txt : Text)
    (hc : compileAction a st = .ok (txt, st')) :
    st'.mgr = st.mgr ∨ (∃ t, st'.mgr = (st.mgr.getPrinter t).2) ∨ (∃ f t, st'.mgr = (st.mgr.getFilePrinter f t).2) := by
  cases a with
  | defaultPrint => simp only [compileAction] at hc; cases hc; exact Or.inl rfl
  | printFid => simp only [compileAction] at hc; cases hc; exact Or.inl rfl
  | quit => simp only [compileAction] at hc; cases hc; exact Or.inl rfl
  | print => simp only [compileAction] at hc; cases hc; exact Or.inr (Or.inl ⟨_, rfl⟩)
  | printNull => simp only [compileAction] at hc; cases hc; exact Or.inr (Or.inl ⟨_, rfl⟩)
  | filePrint d => simp only [compileAction] at hc; cases hc; exact Or.inr (Or.inr ⟨_, _, rfl⟩)
  | filePrintNull d => simp only [compileAction] at hc; cases hc; exact Or.inr (Or.inr ⟨_, _, rfl⟩)
  | printFormatted es =>
    simp only [compileAction] at hc
    split at hc
    · cases hc
    · cases hc; exact Or.inr (Or.inl ⟨_, rfl⟩)
  | filePrintFormatted d es =>
    simp only [compileAction] at hc
    split at hc
    · cases hc
    · cases hc; exact Or.inr (Or.inr ⟨_, _, rfl⟩)
  | prune => simp only [compileAction] at hc; cases hc
  | list => simp only [compileAction] at hc; cases hc
  | fileList f => simp only [compileAction] at hc; cases hc

theorem compileAction_step (a : Action) (st st' : CState) (txt : Text)
    (h : Inv st.mgr) (hc : compileAction a st = .ok (txt, st')) : Step st.mgr st'.mgr := by
  rcases compileAction_mgr a st st' txt hc with he | ⟨t, he⟩ | ⟨f, t, he⟩
  · rw [he]; exact Step.refl h
  · rw [he]; exact (getPrinter_spec _ _ h).1
  · rw [he]; exact (getFilePrinter_spec _ _ _ h).1

theorem compileExpr_step (clk : Nat → Nat) : ∀ (e : Expr) (st st' : CState) (txt : Text),
    Inv st.mgr → compileExpr clk e st = .ok (txt, st') → Step st.mgr st'.mgr := by
  intro e
  induction e with
  | test t => intro st st' txt h hc; exact compileTest_step clk t st st' txt h (by simpa [compileExpr] using hc)
  | action a => intro st st' txt h hc; exact compileAction_step a st st' txt h (by simpa [compileExpr] using hc)
  | global g => intro st st' txt h hc; simp [compileExpr] at hc
  | positional p => intro st st' txt h hc; simp [compileExpr] at hc
  | prec e _ => intro st st' txt h hc; simp [compileExpr] at hc
  | not e ih =>
    intro st st' txt h hc
    simp only [compileExpr] at hc
    cases h1 : compileExpr clk e st with
    | ok r => obtain ⟨t1, s1⟩ := r; rw [h1] at hc; simp at hc; obtain ⟨_, rfl⟩ := hc; exact ih st s1 t1 h h1
    | err x => rw [h1] at hc; simp at hc
    | panic s => rw [h1] at hc; simp at hc
  | and a b iha ihb => intro st st' txt h hc; exact bin clk a b iha ihb st st' txt _ h (by simpa [compileExpr] using hc)
  | list a b iha ihb => intro st st' txt h hc; exact bin clk a b iha ihb st st' txt _ h (by simpa [compileExpr] using hc)
  | or a b iha ihb => intro st st' txt h hc; exact bin clk a b iha ihb st st' txt _ h (by simpa [compileExpr] using hc)
where
  bin (clk : Nat → Nat) (a b : Expr)
      (iha : ∀ (st st' : CState) (txt : Text), Inv st.mgr → compileExpr clk a st = .ok (txt, st') → Step st.mgr st'.mgr)
      (ihb : ∀ (st st' : CState) (txt : Text), Inv st.mgr → compileExpr clk b st = .ok (txt, st') → Step st.mgr st'.mgr)
      (st st' : CState) (txt hd : Text) (h : Inv st.mgr)
      (hc : compileExpr.bin hd (compileExpr clk a st) (compileExpr clk b) = .ok (txt, st')) : Step st.mgr st'.mgr := by
    simp only [compileExpr.bin] at hc
    cases h1 : compileExpr clk a st with
    | ok r =>
      obtain ⟨t1, s1⟩ := r
      rw [h1] at hc
      simp only at hc
      have s1step := iha st s1 t1 h h1
      cases h2 : compileExpr clk b s1 with
      | ok r2 =>
        obtain ⟨t2, s2⟩ := r2
        rw [h2] at hc; simp at hc; obtain ⟨_, rfl⟩ := hc
        exact s1step.trans (ihb s1 s2 t2 s1step.inv h2)
      | err x => rw [h2] at hc; simp at hc
      | panic s => rw [h2] at hc; simp at hc
    | err x => rw [h1] at hc; simp at hc
    | panic s => rw [h1] at hc; simp at hc

end FV
