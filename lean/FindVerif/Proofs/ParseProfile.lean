import FindVerif.Proofs.ParseTotal
/- Debug and release builds of `parse` agree on every input. -/
namespace FV
open W

theorem parseFileTypes_profile : parseFileTypes .debug = parseFileTypes .release :=
  separated1_profile (strict_lit _ (by simp))

theorem parsePermission_profile : parsePermission .debug = parsePermission .release := by
  unfold parsePermission
  rw [separated1_profile (p := parsePartial) (strict_lit (cl!",") (by simp))]

theorem parsePermCheck_profile : parsePermCheck .debug = parsePermCheck .release := by
  unfold parsePermCheck
  rw [parsePermission_profile]

theorem permArg_profile : permArg .debug = permArg .release := by
  unfold permArg
  rw [parsePermCheck_profile]

theorem parseFormat_profile : parseFormat .debug = parseFormat .release := by
  unfold parseFormat
  have hbody : Strict (map litThen (repeatTill0 .debug any parseElement)) :=
    strict_map _ (strict_repeatTill0 .debug strict_any strict_parseElement)
  have hinner : (fun i : List Char => repeatFold .debug (map litThen (repeatTill0 .debug any parseElement))
        (fun acc e => acc ++ e) (i.length + 1) [] i)
      = (fun i : List Char => repeatFold .release (map litThen (repeatTill0 .release any parseElement))
        (fun acc e => acc ++ e) (i.length + 1) [] i) := by
    funext i
    exact repeatFold_stable .debug .release (fun j => by rw [repeatTill0_profile strict_any]) hbody.cons
      _ _ _ _ (Nat.lt_succ_self _) (Nat.lt_succ_self _)
  rw [hinner, repeat0_profile strict_any]

theorem formatArg_profile : formatArg .debug = formatArg .release := by
  unfold formatArg
  rw [parseFormat_profile]

theorem parseAction_profile : parseAction .debug = parseAction .release := by
  unfold parseAction actionAlts
  rw [formatArg_profile]

theorem parseTest_profile : parseTest .debug = parseTest .release := by
  unfold parseTest testAlts
  rw [permArg_profile, parseFileTypes_profile]

theorem token_profile : token .debug = token .release := by
  unfold token
  rw [parseTest_profile, parseAction_profile]

theorem lex_profile : lex .debug = lex .release := by
  unfold lex
  rw [repeatTill1_profile (strict_terminated_left (strict_token .debug) good_multispace0), token_profile]

theorem leadingGlobals_profile : leadingGlobals .debug = leadingGlobals .release := by
  unfold leadingGlobals
  rw [repeat0_profile (strict_terminated_left strict_parseGlobal good_multispace0)]

/-- The parse result does not depend on the build profile. -/
theorem parse_profile (s : Text) : parse .debug s = parse .release s := by
  simp only [parse, leadingGlobals_profile, lex_profile, climb_profile]

end FV
