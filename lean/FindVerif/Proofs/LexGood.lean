import FindVerif.Proofs.WinnowGood
import FindVerif.Proofs.Dec
import FindVerif.Model.Parse
/- Every parser of the lexer never panics, never grows the input, and (where it is repeated)
   consumes on success: bottom-up composition of the combinator lemmas. -/
namespace FV
open W

theorem strict_parseUint (b : Nat) : Strict (parseUint b) :=
  strict_context _ (strict_tryMap _ strict_digit1)

theorem strict_quoteDelimiter : Strict quoteDelimiter := by
  unfold quoteDelimiter
  apply strict_alt
  intro p hp
  simp at hp
  rcases hp with rfl | rfl | rfl
  · exact strict_preceded_left (strict_lit _ (by simp)) (good_terminated (strict_takeUntil1 _).good (good_lit _))
  · exact strict_preceded_left (strict_lit _ (by simp)) (good_terminated (strict_takeUntil1 _).good (good_lit _))
  · exact strict_takeWhile 1 (by omega) _

theorem strict_parseString : Strict parseString := strict_context _ strict_quoteDelimiter

theorem strict_unary {α β : Type} (kw : Text) (hk : kw ≠ []) (tr : α → β) {p : P Char α} (hp : Good p) :
    Strict (unary kw tr p) :=
  strict_map _ (strict_context _ (strict_preceded_left (strict_lit kw hk)
    (good_cutErr (good_preceded strict_multispace1.good (good_cutErr hp)))))

theorem strict_binary {α β γ : Type} (kw : Text) (hk : kw ≠ []) (tr : α × β → γ) {l : P Char α} {r : P Char β}
    (hl : Good l) (hr : Good r) (args : Text) : Strict (binary kw tr l r args) :=
  strict_map _ (strict_context _ (strict_preceded_left (strict_lit kw hk)
    (good_cutErr (good_context _ (good_preceded strict_multispace1.good
      (good_pair hl (good_preceded strict_multispace1.good hr)))))))

theorem strict_compFormat {α : Type} {p : P Char α} (hp : Strict p) : Strict (compFormat p) := by
  unfold compFormat
  apply strict_context
  apply strict_alt
  intro q hq
  simp at hq
  rcases hq with rfl | rfl | rfl
  · exact strict_map _ (strict_preceded_right (good_lit _) hp)
  · exact strict_map _ (strict_preceded_right (good_lit _) hp)
  · exact strict_map _ (strict_cutErr hp)

theorem containsChar_mem {s : List Char} {c : Char} (h : containsChar s c = true) : c ∈ s := by
  simp [containsChar] at h
  exact h

theorem sizeUnit_isSome (c : Char) (n : Nat) (h : isSizeUnit c = true) : (sizeUnit c n).isSome := by
  have := containsChar_mem h
  simp at this
  rcases this with rfl | rfl | rfl | rfl | rfl | rfl | rfl <;> simp [sizeUnit]

theorem timeUnit_isSome (c : Char) (n : Nat) (h : isTimeUnit c = true) : (timeUnit c n).isSome := by
  have := containsChar_mem h
  simp at this
  rcases this with rfl | rfl | rfl | rfl <;> simp [timeUnit]

theorem fileTypeOf_isSome (c : Char) (h : isFileTypeChar c = true) : (fileTypeOf c).isSome := by
  have := containsChar_mem h
  simp at this
  rcases this with rfl | rfl | rfl | rfl | rfl | rfl | rfl <;> simp [fileTypeOf]

theorem strict_invalidNumberUnit (ctx : Text) :
    Strict (andThen (terminated digit1 alpha1) (cutErr (context (expected ctx) (fail : P Char α)))) :=
  strict_andThen (strict_terminated_left strict_digit1 strict_alpha1.good)
    (noPanic_cutErr (noPanic_context _ noPanic_fail))

theorem strict_parseSize : Strict parseSize := by
  unfold parseSize
  apply strict_context
  apply strict_alt
  intro q hq
  simp at hq
  rcases hq with rfl | rfl | rfl
  · exact strict_mapOrPanic _ _ (strict_pair_left (strict_parseUint _) (strict_oneOf _).good)
      (out_pair (fun _ _ _ _ => trivial) (out_oneOf _)) (fun a h => sizeUnit_isSome _ _ h.2)
  · exact strict_invalidNumberUnit _
  · exact strict_map _ (strict_parseUint _)

theorem strict_parseTime (d : Nat → TimeSpec) : Strict (parseTime d) := by
  unfold parseTime
  apply strict_context
  apply strict_alt
  intro q hq
  simp at hq
  rcases hq with rfl | rfl | rfl
  · exact strict_mapOrPanic _ _ (strict_pair_left (strict_parseUint _) (strict_oneOf _).good)
      (out_pair (fun _ _ _ _ => trivial) (out_oneOf _)) (fun a h => timeUnit_isSome _ _ h.2)
  · exact strict_invalidNumberUnit _
  · exact strict_map _ (strict_parseUint _)

theorem strict_parseFileType : Strict parseFileType := by
  unfold parseFileType
  apply strict_alt
  intro q hq
  simp at hq
  rcases hq with rfl | rfl | rfl
  · exact strict_andThen (strict_takeWhile 2 (by omega) _) (noPanic_cutErr (noPanic_context _ noPanic_fail))
  · exact strict_mapOrPanic _ _ (strict_oneOf _) (out_oneOf _) (fun a h => fileTypeOf_isSome _ h)
  · exact strict_andThen strict_alpha1 (noPanic_cutErr (noPanic_context _ noPanic_fail))

theorem strict_parseFileTypes (pf : Profile) : Strict (parseFileTypes pf) :=
  strict_separated1 pf strict_parseFileType (strict_lit _ (by simp))

/-! ### permissions -/

theorem permValue_isSome_who (c : Char) (h : isWho c = true) : (permValue c).isSome := by
  have := containsChar_mem h
  simp at this
  rcases this with rfl | rfl | rfl | rfl <;> simp [permValue]

theorem permValue_isSome_level (c : Char) (h : isLevel c = true) : (permValue c).isSome := by
  have := containsChar_mem h
  simp at this
  rcases this with rfl | rfl | rfl <;> simp [permValue]

theorem symMode_fold_isSome (cs : List Char) (acc : Option Nat) (ha : acc.isSome)
    (h : ∀ c ∈ cs, (permValue c).isSome) :
    (cs.foldl (fun acc d => match acc, permValue d with
      | some a, some v => some (a ||| v)
      | _, _ => none) acc).isSome := by
  induction cs generalizing acc with
  | nil => simpa using ha
  | cons c cs ih =>
    simp only [List.foldl_cons]
    apply ih
    · cases acc with
      | none => simp at ha
      | some a =>
        have := h c (by simp)
        cases hv : permValue c with
        | none => rw [hv] at this; simp at this
        | some v => simp
    · intro d hd; exact h d (by simp [hd])

theorem symMode_isSome (t : Text) (hne : 1 ≤ t.length) (h : ∀ c ∈ t, (permValue c).isSome) : (symMode t).isSome := by
  cases t with
  | nil => simp at hne
  | cons c cs =>
    simp only [symMode]
    exact symMode_fold_isSome cs _ (h c (by simp)) (fun d hd => h d (by simp [hd]))

theorem mkPartial_isSome (x : Text × Char × Text)
    (h : (1 ≤ x.1.length ∧ ∀ c ∈ x.1, isWho c = true) ∧ (isOp x.2.1 = true) ∧ (1 ≤ x.2.2.length ∧ ∀ c ∈ x.2.2, isLevel c = true)) :
    (mkPartial x).isSome := by
  obtain ⟨⟨h1, h1'⟩, h2, h3, h3'⟩ := h
  have ht := symMode_isSome x.1 h1 (fun c hc => permValue_isSome_who c (h1' c hc))
  have hl := symMode_isSome x.2.2 h3 (fun c hc => permValue_isSome_level c (h3' c hc))
  simp only [mkPartial]
  cases hts : symMode x.1 with
  | none => rw [hts] at ht; simp at ht
  | some t =>
    cases hls : symMode x.2.2 with
    | none => rw [hls] at hl; simp at hl
    | some l =>
      simp only
      have := containsChar_mem h2
      simp at this
      rcases this with h | h | h <;> simp [h]

theorem strict_parsePartial : Strict parsePartial := by
  unfold parsePartial
  refine strict_mapOrPanic _ _ (strict_pair_left (strict_takeWhile 1 (by omega) _)
    (good_pair (good_cutErr (good_context _ (strict_oneOf _).good))
      (good_cutErr (good_context _ (good_takeWhile 1 _)))))
    (out_pair (out_takeWhile 1 _) (out_pair (out_cutErr (out_context _ (out_oneOf _)))
      (out_cutErr (out_context _ (out_takeWhile 1 _))))) ?_
  intro a h
  exact mkPartial_isSome a h

theorem strict_parsePermission (pf : Profile) : Strict (parsePermission pf) := by
  unfold parsePermission
  apply strict_context
  apply strict_alt
  intro q hq
  simp at hq
  rcases hq with rfl | rfl | rfl
  · exact strict_tryMap _ (strict_takeWhile 3 (by omega) _)
  · exact strict_map _ (strict_separated1 pf strict_parsePartial (strict_lit _ (by simp)))
  · exact strict_context _ strict_fail

theorem strict_parsePermCheck (pf : Profile) : Strict (parsePermCheck pf) := by
  unfold parsePermCheck
  apply strict_context
  apply strict_alt
  intro q hq
  simp at hq
  rcases hq with rfl | rfl | rfl
  · exact strict_map _ (strict_preceded_left (strict_lit _ (by simp)) (good_cutErr (strict_parsePermission pf).good))
  · exact strict_map _ (strict_preceded_left (strict_lit _ (by simp)) (good_cutErr (strict_parsePermission pf).good))
  · exact strict_map _ (strict_cutErr (strict_parsePermission pf))

theorem strict_permArg (pf : Profile) : Strict (permArg pf) :=
  strict_andThen strict_quoteDelimiter (noPanic_terminated (strict_parsePermCheck pf).np noPanic_eof)

end FV

namespace FV
open W

/-! ### format strings -/

theorem octVal_lt (ds : List Char) (h : ∀ c ∈ ds, isOct c = true) : octVal ds < 8 ^ ds.length := by
  induction ds with
  | nil => simp [octVal, baseVal]
  | cons d ds ih =>
    have hd : digitVal d < 8 := by
      have := h d (by simp)
      simp [isOct] at this
      have h1 : '0'.toNat ≤ d.toNat := by exact_mod_cast (Char.le_def.mp this.1)
      have h2 : d.toNat ≤ '7'.toNat := by exact_mod_cast (Char.le_def.mp this.2)
      simp [digitVal]
      have : ('7' : Char).toNat = 55 := by decide
      have : ('0' : Char).toNat = 48 := by decide
      omega
    have ih' := ih (fun c hc => h c (by simp [hc]))
    simp only [octVal] at ih' ⊢
    rw [baseVal_cons]
    simp only [List.length_cons, Nat.pow_succ]
    have : digitVal d * 8 ^ ds.length ≤ 7 * 8 ^ ds.length := Nat.mul_le_mul_right _ (by omega)
    omega

theorem octalEscape_isSome (ds : List Char) (h : 3 ≤ ds.length ∧ ds.length ≤ 3 ∧ ∀ c ∈ ds, isOct c = true) :
    (octalEscape ds).isSome := by
  have := octVal_lt ds h.2.2
  have hl : ds.length = 3 := by omega
  rw [hl] at this
  simp only [octalEscape]
  have : octVal ds < 65536 := by omega
  simp [this]

theorem strict_parseSpecial : Strict parseSpecial := by
  unfold parseSpecial
  apply strict_alt
  intro q hq
  simp at hq
  rcases hq with rfl | rfl
  · refine strict_preceded_left (strict_lit _ (by simp)) (good_alt ?_)
    intro p hp
    simp at hp
    rcases hp with rfl | rfl | rfl | rfl | rfl | rfl | rfl | rfl | rfl | rfl | rfl
    · exact good_mapOrPanic _ _ (good_takeWhileMN 3 3 _) (out_takeWhileMN 3 3 _) octalEscape_isSome
    all_goals exact good_value _ (good_lit _)
  · exact strict_value _ (strict_lit _ (by simp))

theorem strict_parseField : Strict parseField := by
  unfold parseField
  refine strict_preceded_left (strict_lit _ (by simp)) (good_alt ?_)
  intro p hp
  simp only [List.mem_append, List.mem_map] at hp
  rcases hp with ⟨kv, _, rfl⟩ | hp
  · exact good_value _ (good_lit _)
  · simp at hp
    rcases hp with rfl | rfl | rfl | rfl | rfl
    · exact good_map _ (good_preceded (good_lit _) strict_any.good)
    · exact good_map _ (good_preceded (good_lit _) strict_any.good)
    · exact good_map _ (good_preceded (good_lit _) strict_any.good)
    · exact good_map _ (good_preceded (good_lit _) (good_terminated strict_alpha1.good (good_lit _)))
    · exact good_cutErr (good_context _ strict_fail.good)

theorem strict_parseElement : Strict parseElement := by
  unfold parseElement
  apply strict_alt
  intro p hp
  simp at hp
  rcases hp with rfl | rfl
  · exact strict_map _ strict_parseField
  · exact strict_map _ strict_parseSpecial

theorem good_parseFormat (pf : Profile) : Good (parseFormat pf) := by
  unfold parseFormat
  apply good_context
  apply good_map
  have hbody : Strict (map litThen (repeatTill0 pf any parseElement)) :=
    strict_map _ (strict_repeatTill0 pf strict_any strict_parseElement)
  refine good_pair ⟨?_, ?_⟩ (good_repeat0 pf strict_any)
  · intro i s h
    exact repeatFold_noPanic pf (hbody.np.on i.length) hbody.cons _ _ i (Nat.le_refl _) (by omega) s h
  · intro i a r h
    exact repeatFold_nonInc pf hbody.ni _ _ _ _ _ h

theorem strict_formatArg (pf : Profile) : Strict (formatArg pf) :=
  strict_andThen strict_quoteDelimiter (good_parseFormat pf).np

/-! ### keyword tables -/

theorem strict_nullaryAction (kw : Text) (hk : kw ≠ []) (a : Action) :
    Strict (value a (terminated (lit kw) multispace0)) :=
  strict_value _ (strict_terminated_left (strict_lit kw hk) good_multispace0)

theorem strict_parseAction (pf : Profile) : Strict (parseAction pf) := by
  unfold parseAction
  apply strict_context
  apply strict_alt
  intro p hp
  simp only [actionAlts, List.map_cons, List.map_nil, List.mem_cons, List.mem_nil_iff, or_false] at hp
  rcases hp with rfl | rfl | rfl | rfl | rfl | rfl | rfl | rfl | rfl | rfl | rfl
  · exact strict_unary _ (by simp) _ strict_parseString.good
  · exact strict_binary _ (by simp) _ (good_context _ strict_parseString.good) (good_context _ (strict_formatArg pf).good) _
  · exact strict_unary _ (by simp) _ strict_parseString.good
  · exact strict_unary _ (by simp) _ strict_parseString.good
  · exact strict_nullaryAction _ (by simp) _
  · exact strict_nullaryAction _ (by simp) _
  · exact strict_unary _ (by simp) _ (strict_formatArg pf).good
  · exact strict_nullaryAction _ (by simp) _
  · exact strict_nullaryAction _ (by simp) _
  · exact strict_nullaryAction _ (by simp) _
  · exact strict_nullaryAction _ (by simp) _

theorem strict_timeMin : Strict timeMin := strict_compFormat (strict_parseTime _)
theorem strict_timeDay : Strict timeDay := strict_compFormat (strict_parseTime _)
theorem strict_cmpU32 : Strict cmpU32 := strict_compFormat (strict_parseUint _)
theorem strict_cmpU64 : Strict cmpU64 := strict_compFormat (strict_parseUint _)

theorem strict_nullaryTest (kw : Text) (hk : kw ≠ []) (t : Test) : Strict (value t (lit kw)) :=
  strict_value _ (strict_lit kw hk)

theorem strict_parseTest (pf : Profile) : Strict (parseTest pf) := by
  unfold parseTest
  apply strict_context
  apply strict_alt
  intro p hp
  simp only [testAlts, List.map_cons, List.map_nil, List.mem_cons, List.mem_nil_iff, or_false] at hp
  rcases hp with rfl | rfl | rfl | rfl | rfl | rfl | rfl | rfl | rfl | rfl | rfl | rfl | rfl | rfl | rfl | rfl | rfl | rfl | rfl | rfl
    | rfl | rfl | rfl | rfl | rfl | rfl | rfl | rfl | rfl | rfl | rfl | rfl | rfl | rfl | rfl | rfl | rfl | rfl | rfl | rfl
  all_goals first
    | exact strict_unary _ (by simp) _ strict_parseString.good
    | exact strict_unary _ (by simp) _ strict_timeMin.good
    | exact strict_unary _ (by simp) _ strict_timeDay.good
    | exact strict_unary _ (by simp) _ strict_cmpU32.good
    | exact strict_unary _ (by simp) _ strict_cmpU64.good
    | exact strict_nullaryTest _ (by simp) _
    | exact strict_unary _ (by simp) _ (strict_permArg pf).good
    | exact strict_unary _ (by simp) _ (strict_compFormat strict_parseSize).good
    | exact strict_unary _ (by simp) _ (strict_parseFileTypes pf).good
    | exact strict_binary _ (by simp) _ (good_context _ strict_parseString.good) (good_context _ strict_parseString.good) _

theorem strict_parseGlobal : Strict parseGlobal := by
  unfold parseGlobal
  apply strict_context
  apply strict_alt
  intro p hp
  simp at hp
  rcases hp with rfl | rfl | rfl | rfl
  · exact strict_value _ (strict_lit _ (by simp))
  · exact strict_unary _ (by simp) _ (good_context _ (good_tryMap _ (strict_parseUint _).good))
  · exact strict_unary _ (by simp) _ (good_context _ (good_tryMap _ (strict_parseUint _).good))
  · exact strict_unary _ (by simp) _ (strict_parseUint _).good

theorem strict_parsePositional : Strict parsePositional :=
  strict_context _ (strict_value _ (strict_lit _ (by simp)))

theorem strict_operatorWord (t : Token) (a b : Text) (ha : a ≠ []) (hb : b ≠ []) :
    Strict (value t (terminated (alt [lit a, lit b]) (alt [value () multispace1, eof]))) := by
  refine strict_value _ (strict_terminated_left (strict_alt ?_) (good_alt ?_))
  · intro p hp; simp at hp; rcases hp with rfl | rfl
    · exact strict_lit _ ha
    · exact strict_lit _ hb
  · intro p hp; simp at hp; rcases hp with rfl | rfl
    · exact good_value _ strict_multispace1.good
    · exact good_eof

theorem strict_token (pf : Profile) : Strict (token pf) := by
  unfold token
  apply strict_context
  apply strict_alt
  intro p hp
  simp at hp
  rcases hp with rfl | rfl | rfl | rfl | rfl | rfl | rfl | rfl | rfl | rfl | rfl
  · exact strict_value _ (strict_lit _ (by simp))
  · exact strict_value _ (strict_lit _ (by simp))
  · exact strict_value _ (strict_lit _ (by simp))
  · exact strict_value _ (strict_lit _ (by simp))
  · exact strict_operatorWord _ _ _ (by simp) (by simp)
  · exact strict_operatorWord _ _ _ (by simp) (by simp)
  · exact strict_map _ (strict_parseTest pf)
  · exact strict_map _ (strict_parseAction pf)
  · exact strict_map _ strict_parseGlobal
  · exact strict_map _ strict_parsePositional
  · exact strict_context _ strict_fail

theorem good_lex (pf : Profile) : Good (lex pf) :=
  good_map _ (good_preceded good_multispace0
    (good_repeatTill1 pf (strict_terminated_left (strict_token pf) good_multispace0) good_eof))

theorem good_leadingGlobals (pf : Profile) : Good (leadingGlobals pf) :=
  good_preceded good_multispace0 (good_repeat0 pf (strict_terminated_left strict_parseGlobal good_multispace0))

end FV
