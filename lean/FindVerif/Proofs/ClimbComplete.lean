import FindVerif.Proofs.ClimbSound
/- Completeness of the precedence climber: every sentence of the grammar is parsed to its tree. -/
namespace FV
open W Spec

/-- Tokens at which every loop of the climber stops and `atom` backtracks. -/
def isStopTok : Token → Bool
  | .rparen | .or | .and | .comma => true
  | _ => false

/-- The AND loop stops here: end of input, or `)`, `-o`, `,`. -/
def AndStop (rest : List Token) : Prop :=
  rest = [] ∨ ∃ t r, rest = t :: r ∧ (t = .rparen ∨ t = .or ∨ t = .comma)

/-- The OR loop stops here: end of input, or `)`, `,`. -/
def OrStop (rest : List Token) : Prop :=
  rest = [] ∨ ∃ t r, rest = t :: r ∧ (t = .rparen ∨ t = .comma)

/-- The list loop stops here: end of input, or `)`. -/
def ListStop (rest : List Token) : Prop :=
  rest = [] ∨ ∃ r, rest = Token.rparen :: r

theorem OrStop.andStop {rest} (h : OrStop rest) : AndStop rest := by
  rcases h with h | ⟨t, r, e, h | h⟩
  · exact Or.inl h
  · exact Or.inr ⟨t, r, e, Or.inl h⟩
  · exact Or.inr ⟨t, r, e, Or.inr (Or.inr h)⟩

theorem ListStop.orStop {rest} (h : ListStop rest) : OrStop rest := by
  rcases h with h | ⟨r, e⟩
  · exact Or.inl h
  · exact Or.inr ⟨_, r, e, Or.inl rfl⟩

theorem atom_nil (pf : Profile) (n : Nat) : ∃ c r, atom pf (n+1) [] = .err false c r := by
  simp [atom, alt, alt2, mapOrPanic, oneOf, notP, parensP, delimited, preceded, pair, map, context, any]

theorem atom_stop (pf : Profile) (n : Nat) (t : Token) (r : List Token) (ht : isStopTok t = true) :
    ∃ c r', atom pf (n+1) (t :: r) = .err false c r' := by
  cases t <;> simp [isStopTok] at ht <;>
  simp [atom, alt, alt2, mapOrPanic, oneOf, notP, parensP, delimited, preceded, pair, map, context, any,
    isPrimTok, tokIs, fail]

/-! ### one-step evaluation lemmas -/

theorem atom_succ (pf : Profile) (n : Nat) : atom pf (n + 1) =
    alt [ mapOrPanic (cl!"precedence.rs:unreachable") primExpr (oneOf isPrimTok),
          notP (atom pf n),
          parensP (listLevel pf (atom pf n)),
          preceded any (context (.expected (cl!"unexpected_token")) fail) ] := rfl

theorem foldLevel_eval {sub body : P Token Expr} {mk} (pf : Profile) {i init r}
    (h : sub i = .ok init r) :
    foldLevel pf sub body mk i = repeatFold pf body mk (r.length + 1) init r := by
  simp [foldLevel, h]

theorem notP_eval {a : P Token Expr} {r e r'} (h : a r = .ok e r') :
    notP a (Token.not :: r) = .ok (Expr.not e) r' := by
  simp [notP, preceded, pair, map, oneOf, tokIs, context, cutErr, h]

theorem parensP_eval {l : P Token Expr} {r e r'} (h : l r = .ok e (Token.rparen :: r')) :
    parensP l (Token.lparen :: r) = .ok e r' := by
  simp [parensP, delimited, preceded, terminated, pair, map, oneOf, tokIs, context, cutErr, h]

theorem andBody_and {a : P Token Expr} {r e r'} (h : a r = .ok e r') :
    andBody a (Token.and :: r) = .ok e r' := by
  simp [andBody, alt, alt2, preceded, pair, map, oneOf, tokIs, context, cutErr, h]

theorem andBody_implicit {a : P Token Expr} {t r e r'} (ht : t ≠ Token.and) (h : a (t :: r) = .ok e r') :
    andBody a (t :: r) = .ok e r' := by
  simp [andBody, alt, alt2, preceded, pair, map, oneOf, tokIs, ht, h]

theorem orBody_eval {a : P Token Expr} (pf : Profile) {r e r'} (h : andLevel pf a r = .ok e r') :
    orBody pf a (Token.or :: r) = .ok e r' := by
  simp [orBody, preceded, pair, map, oneOf, tokIs, context, cutErr, h]

theorem listBody_eval {a : P Token Expr} (pf : Profile) {r e r'} (h : orLevel pf a r = .ok e r') :
    listBody pf a (Token.comma :: r) = .ok e r' := by
  simp [listBody, preceded, pair, map, oneOf, tokIs, context, cutErr, h]

theorem andBody_stop (pf : Profile) (n : Nat) {rest} (h : AndStop rest) :
    ∃ c r, andBody (atom pf (n+1)) rest = .err false c r := by
  rcases h with rfl | ⟨t, r, rfl, ht⟩
  · obtain ⟨c, r, h⟩ := atom_nil pf n
    exact ⟨c, r, by simp [andBody, alt, alt2, preceded, pair, map, oneOf, h]⟩
  · have hs : isStopTok t = true := by rcases ht with rfl | rfl | rfl <;> rfl
    have hna : t ≠ Token.and := by rcases ht with rfl | rfl | rfl <;> simp
    obtain ⟨c, r', h⟩ := atom_stop pf n t r hs
    exact ⟨c, r', by simp [andBody, alt, alt2, preceded, pair, map, oneOf, tokIs, hna, h]⟩

theorem orBody_stop (pf : Profile) (a : P Token Expr) {rest} (h : OrStop rest) :
    ∃ c r, orBody pf a rest = .err false c r := by
  rcases h with rfl | ⟨t, r, rfl, ht⟩
  · simp [orBody, preceded, pair, map, oneOf]
  · have hna : t ≠ Token.or := by rcases ht with rfl | rfl <;> simp
    simp [orBody, preceded, pair, map, oneOf, tokIs, hna]

theorem listBody_stop (pf : Profile) (a : P Token Expr) {rest} (h : ListStop rest) :
    ∃ c r, listBody pf a rest = .err false c r := by
  rcases h with rfl | ⟨r, rfl⟩
  · simp [listBody, preceded, pair, map, oneOf]
  · simp [listBody, preceded, pair, map, oneOf, tokIs]

/-! ### shape of grammar sentences -/

theorem Spec.GAtom.ne_nil : ∀ {ts e}, GAtom ts e → ts ≠ []
  | _, _, .prim _ => by simp
  | _, _, .not _ => by simp
  | _, _, .paren _ => by simp

/-- An atom starts with a primary, `!` or `(`; in particular not with `-a`. -/
theorem Spec.GAtom.head : ∀ {ts e}, GAtom ts e → ∃ t r, ts = t :: r ∧ t ≠ Token.and
  | _, _, @GAtom.prim t e h => ⟨t, [], rfl, by intro h'; subst h'; simp [primOf] at h⟩
  | _, _, .not _ => ⟨_, _, rfl, by simp⟩
  | _, _, .paren _ => ⟨_, _, rfl, by simp⟩

theorem andStep_ne_nil {pre e} (h : AndStep pre e) : pre ≠ [] := by
  rcases h with ⟨ts, rfl, _⟩ | h
  · simp
  · exact h.ne_nil

theorem consumes_andBody (pf : Profile) (n : Nat) : Consumes (andBody (atom pf n)) :=
  (sound_andBody (sound_atom pf n)).consumes (fun _ _ => andStep_ne_nil)

theorem consumes_orBody (pf : Profile) (n : Nat) : Consumes (orBody pf (atom pf n)) :=
  (sound_orBody pf (sound_atom pf n)).consumes (by rintro _ _ ⟨ts, rfl, _⟩; simp)

theorem consumes_listBody (pf : Profile) (n : Nat) : Consumes (listBody pf (atom pf n)) :=
  (sound_listBody pf (sound_atom pf n)).consumes (by rintro _ _ ⟨ts, rfl, _⟩; simp)

/-! ### completeness -/

mutual
theorem atom_complete (pf : Profile) : ∀ {pre e}, GAtom pre e → ∀ n rest, (pre ++ rest).length < n →
    atom pf n (pre ++ rest) = .ok e rest
  | _, _, @GAtom.prim t e h, n, rest, hn => by
    cases n with
    | zero => omega
    | succ m =>
      cases t <;> simp [primOf] at h <;> subst h <;>
      simp [atom, alt, alt2, mapOrPanic, oneOf, isPrimTok, primExpr]
  | _, _, @GAtom.not ts e h, n, rest, hn => by
    cases n with
    | zero => omega
    | succ m =>
      have ih := atom_complete pf h m rest (by simp at hn ⊢; omega)
      have := notP_eval ih
      rw [List.cons_append, atom_succ]
      simp [alt, alt2, mapOrPanic, oneOf, isPrimTok, this]
  | _, _, @GAtom.paren ts e h, n, rest, hn => by
    cases n with
    | zero => omega
    | succ m =>
      have hlen : (ts ++ Token.rparen :: rest).length < m := by simp at hn ⊢; omega
      have ih := list_complete pf h m (Token.rparen :: rest) hlen (Or.inr ⟨_, _, rfl, Or.inl rfl⟩)
      obtain ⟨c, r', hstop⟩ := listBody_stop pf (atom pf m) (rest := Token.rparen :: rest) (Or.inr ⟨_, rfl⟩)
      rw [repeatFold_stop pf _ _ _ c r' hstop] at ih
      have := parensP_eval ih
      have e1 : Token.lparen :: (ts ++ [Token.rparen]) ++ rest = Token.lparen :: (ts ++ Token.rparen :: rest) := by simp
      rw [e1, atom_succ]
      simp [alt, alt2, mapOrPanic, oneOf, isPrimTok, notP, preceded, pair, map, tokIs, this]

theorem and_complete (pf : Profile) : ∀ {pre e}, GAnd pre e → ∀ n rest, (pre ++ rest).length < n →
    andLevel pf (atom pf n) (pre ++ rest)
      = repeatFold pf (andBody (atom pf n)) Expr.and (rest.length + 1) e rest
  | _, _, @GAnd.atom ts e h, n, rest, hn => by
    have := atom_complete pf h n rest hn
    simp [andLevel, foldLevel_eval pf this]
  | _, _, @GAnd.andE ts₁ ts₂ e₁ e₂ h₁ h₂, n, rest, hn => by
    have hn' : (ts₁ ++ (Token.and :: (ts₂ ++ rest))).length < n := by simp at hn ⊢; omega
    have ih := and_complete pf h₁ n (Token.and :: (ts₂ ++ rest)) hn'
    have ha := atom_complete pf h₂ n rest (by simp at hn ⊢; omega)
    have e1 : ts₁ ++ Token.and :: ts₂ ++ rest = ts₁ ++ (Token.and :: (ts₂ ++ rest)) := by simp
    rw [e1, ih]
    rw [repeatFold_step pf _ _ _ _ _ (andBody_and ha) (by simp; omega)]
    exact repeatFold_stable pf pf (fun _ => rfl) (consumes_andBody pf n) _ _ _ _ (by simp; omega) (by simp)
  | _, _, @GAnd.andI ts₁ ts₂ e₁ e₂ h₁ h₂, n, rest, hn => by
    have hn' : (ts₁ ++ (ts₂ ++ rest)).length < n := by simp at hn ⊢; omega
    have ih := and_complete pf h₁ n (ts₂ ++ rest) hn'
    have ha := atom_complete pf h₂ n rest (by simp at hn ⊢; omega)
    obtain ⟨t, r, rfl, hne⟩ := h₂.head
    have e1 : ts₁ ++ (t :: r) ++ rest = ts₁ ++ ((t :: r) ++ rest) := by simp
    rw [e1, ih]
    have hb : andBody (atom pf n) (t :: r ++ rest) = .ok e₂ rest := andBody_implicit hne ha
    rw [repeatFold_step pf _ _ _ _ _ hb (by simp; omega)]
    exact repeatFold_stable pf pf (fun _ => rfl) (consumes_andBody pf n) _ _ _ _ (by simp; omega) (by simp)

theorem or_complete (pf : Profile) : ∀ {pre e}, GOr pre e → ∀ n rest, (pre ++ rest).length < n →
    AndStop rest →
    orLevel pf (atom pf n) (pre ++ rest)
      = repeatFold pf (orBody pf (atom pf n)) Expr.or (rest.length + 1) e rest
  | _, _, @GOr.and ts e h, n, rest, hn, hs => by
    have ih := and_complete pf h n rest hn
    cases n with
    | zero => omega
    | succ m =>
      obtain ⟨c, r', hstop⟩ := andBody_stop pf m hs
      rw [repeatFold_stop pf _ _ _ c r' hstop] at ih
      simp [orLevel, foldLevel_eval pf ih]
  | _, _, @GOr.or ts₁ ts₂ e₁ e₂ h₁ h₂, n, rest, hn, hs => by
    have hn' : (ts₁ ++ (Token.or :: (ts₂ ++ rest))).length < n := by simp at hn ⊢; omega
    have ih := or_complete pf h₁ n (Token.or :: (ts₂ ++ rest)) hn' (Or.inr ⟨_, _, rfl, Or.inr (Or.inl rfl)⟩)
    have ha := and_complete pf h₂ n rest (by simp at hn ⊢; omega)
    cases n with
    | zero => omega
    | succ m =>
      obtain ⟨c, r', hstop⟩ := andBody_stop pf m hs
      rw [repeatFold_stop pf _ _ _ c r' hstop] at ha
      have e1 : ts₁ ++ Token.or :: ts₂ ++ rest = ts₁ ++ (Token.or :: (ts₂ ++ rest)) := by simp
      rw [e1, ih]
      rw [repeatFold_step pf _ _ _ _ _ (orBody_eval pf ha) (by simp; omega)]
      exact repeatFold_stable pf pf (fun _ => rfl) (consumes_orBody pf (m+1)) _ _ _ _ (by simp; omega) (by simp)

theorem list_complete (pf : Profile) : ∀ {pre e}, GList pre e → ∀ n rest, (pre ++ rest).length < n →
    OrStop rest →
    listLevel pf (atom pf n) (pre ++ rest)
      = repeatFold pf (listBody pf (atom pf n)) Expr.list (rest.length + 1) e rest
  | _, _, @GList.or ts e h, n, rest, hn, hs => by
    have ih := or_complete pf h n rest hn hs.andStop
    obtain ⟨c, r', hstop⟩ := orBody_stop pf (atom pf n) hs
    rw [repeatFold_stop pf _ _ _ c r' hstop] at ih
    simp [listLevel, foldLevel_eval pf ih]
  | _, _, @GList.comma ts₁ ts₂ e₁ e₂ h₁ h₂, n, rest, hn, hs => by
    have hn' : (ts₁ ++ (Token.comma :: (ts₂ ++ rest))).length < n := by simp at hn ⊢; omega
    have ih := list_complete pf h₁ n (Token.comma :: (ts₂ ++ rest)) hn' (Or.inr ⟨_, _, rfl, Or.inr rfl⟩)
    have ha := or_complete pf h₂ n rest (by simp at hn ⊢; omega) hs.andStop
    obtain ⟨c, r', hstop⟩ := orBody_stop pf (atom pf n) hs
    rw [repeatFold_stop pf _ _ _ c r' hstop] at ha
    have e1 : ts₁ ++ Token.comma :: ts₂ ++ rest = ts₁ ++ (Token.comma :: (ts₂ ++ rest)) := by simp
    rw [e1, ih]
    rw [repeatFold_step pf _ _ _ _ _ (listBody_eval pf ha) (by simp; omega)]
    exact repeatFold_stable pf pf (fun _ => rfl) (consumes_listBody pf n) _ _ _ _ (by simp; omega) (by simp)
end

end FV
