import FindVerif.Model.Parse
/- `ParserError::dispatch` on the context lists the lexer produces. -/
namespace FV

/-- Labels pushed by argument readers never collide with the three category labels. -/
def Benign (cp : List Ctx) : Prop :=
  ∀ l, Ctx.label l ∈ cp → l ≠ cl!"test" ∧ l ≠ cl!"action" ∧ l ≠ cl!"global_option"

/-- The innermost description (first `expected` in push order). -/
def innerDescription : List Ctx → Option Text
  | [] => none
  | .expected d :: _ => some d
  | .label _ :: r => innerDescription r

/-- The word `dispatch` quotes: the next word at the failure position, or nothing. -/
def nextWord (rest : Text) : Text :=
  match parseString rest with
  | .ok w _ => w
  | _ => []

/-- Folding the argument reader's contexts (outermost first) over a context whose category name
    is already known only updates the description, ending with the innermost one. -/
theorem fold_benign (cp : List Ctx) (h : Benign cp) (acc : SyntaxContext)
    (ht : ∀ t, acc.test = some t → t ≠ []) (ha : ∀ t, acc.action = some t → t ≠ [])
    (hg : ∀ t, acc.global = some t → t ≠ []) :
    cp.reverse.foldl SyntaxContext.step acc =
      { acc with description := match innerDescription cp with | some d => some d | none => acc.description } := by
  induction cp generalizing acc with
  | nil => simp [innerDescription]
  | cons c cp ih =>
    simp only [List.reverse_cons, List.foldl_append, List.foldl_cons, List.foldl_nil]
    rw [ih (fun l hl => h l (by simp [hl])) acc ht ha hg]
    cases c with
    | expected d => simp [SyntaxContext.step, innerDescription]
    | label l =>
      obtain ⟨h1, h2, h3⟩ := h l (by simp)
      have e1 : expecting acc.test = false := by
        cases hx : acc.test with
        | none => rfl
        | some t => have := ht t hx; cases t <;> simp_all [expecting]
      have e2 : expecting acc.action = false := by
        cases hx : acc.action with
        | none => rfl
        | some t => have := ha t hx; cases t <;> simp_all [expecting]
      have e3 : expecting acc.global = false := by
        cases hx : acc.global with
        | none => rfl
        | some t => have := hg t hx; cases t <;> simp_all [expecting]
      simp [SyntaxContext.step, innerDescription, h1, h2, h3, e1, e2, e3]

/-- Errors raised under a test keyword name that keyword and quote the word at the failure
    position; the description is the innermost one. -/
theorem dispatch_test (cp : List Ctx) (kw rest : Text) (h : Benign cp) (hk : kw ≠ []) (hkt : kw ≠ cl!"test") :
    dispatch (cp ++ [label kw, label (cl!"test"), label (cl!"syntax")]) rest =
      match innerDescription cp with
      | some d => .invalidTestArgument kw (nextWord rest) (explain d)
      | none => .invalidTestUnknown kw (nextWord rest) := by
  simp only [dispatch, List.reverse_append, List.reverse_cons, List.reverse_nil, List.nil_append, List.cons_append,
    List.foldl_cons, List.foldl_append]
  have hstep : (SyntaxContext.step (SyntaxContext.step (SyntaxContext.step {} (label (cl!"syntax"))) (label (cl!"test"))) (label kw))
      = { test := some kw } := by
    simp [SyntaxContext.step, label, expecting, hkt]
  rw [hstep, fold_benign cp h _ (by intro t ht; cases ht; exact hk) (by intro t ht; cases ht) (by intro t ht; cases ht)]
  cases innerDescription cp <;> rfl

theorem dispatch_action (cp : List Ctx) (kw rest : Text) (h : Benign cp) (hk : kw ≠ [])
    (hkt : kw ≠ cl!"test") (hka : kw ≠ cl!"action") :
    dispatch (cp ++ [label kw, label (cl!"action"), label (cl!"syntax")]) rest =
      match innerDescription cp with
      | some d => .invalidActionArgument kw (nextWord rest) (explain d)
      | none => .invalidActionUnknown kw (nextWord rest) := by
  simp only [dispatch, List.reverse_append, List.reverse_cons, List.reverse_nil, List.nil_append, List.cons_append,
    List.foldl_cons, List.foldl_append]
  have hstep : (SyntaxContext.step (SyntaxContext.step (SyntaxContext.step {} (label (cl!"syntax"))) (label (cl!"action"))) (label kw))
      = { action := some kw } := by
    simp [SyntaxContext.step, label, expecting, hkt, hka]
  rw [hstep, fold_benign cp h _ (by intro t ht; cases ht) (by intro t ht; cases ht; exact hk) (by intro t ht; cases ht)]
  cases innerDescription cp <;> rfl

theorem dispatch_global (cp : List Ctx) (kw rest : Text) (h : Benign cp) (hk : kw ≠ [])
    (hkt : kw ≠ cl!"test") (hka : kw ≠ cl!"action") (hkg : kw ≠ cl!"global_option") (tail : List Ctx)
    (htail : tail = [] ∨ tail = [label (cl!"syntax")]) :
    dispatch (cp ++ [label kw, label (cl!"global_option")] ++ tail) rest =
      match innerDescription cp with
      | some d => .invalidGlobalArgument kw (nextWord rest) (explain d)
      | none => .invalidGlobalUnknown kw (nextWord rest) := by
  have hstep : ∀ acc0 : SyntaxContext, acc0 = {} →
      (SyntaxContext.step (SyntaxContext.step acc0 (label (cl!"global_option"))) (label kw)) = { global := some kw } := by
    intro acc0 h0; subst h0
    simp [SyntaxContext.step, label, expecting, hkt, hka, hkg]
  rcases htail with rfl | rfl
  · simp only [dispatch, List.append_nil, List.reverse_append, List.reverse_cons, List.reverse_nil, List.nil_append,
      List.cons_append, List.foldl_cons, List.foldl_append]
    rw [hstep {} rfl, fold_benign cp h _ (by intro t ht; cases ht) (by intro t ht; cases ht) (by intro t ht; cases ht; exact hk)]
    cases innerDescription cp <;> rfl
  · simp only [dispatch, List.reverse_append, List.reverse_cons, List.reverse_nil, List.nil_append,
      List.cons_append, List.foldl_cons, List.foldl_append]
    have hs : SyntaxContext.step {} (label (cl!"syntax")) = {} := by simp [SyntaxContext.step, label, expecting]
    rw [hs, hstep {} rfl, fold_benign cp h _ (by intro t ht; cases ht) (by intro t ht; cases ht) (by intro t ht; cases ht; exact hk)]
    cases innerDescription cp <;> rfl

/-- An unknown word: no category label at all. -/
theorem dispatch_unknown (rest : Text) :
    dispatch [expected (cl!"invalid_token"), label (cl!"syntax")] rest = .invalidToken (nextWord rest) := by
  simp only [dispatch, nextWord]
  cases parseString rest <;> simp [SyntaxContext.step, label, expected, expecting]

end FV
