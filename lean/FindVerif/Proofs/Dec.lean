import FindVerif.Model.Text
/- Decimal printing and reading are inverse: `decVal (natToDec n) = n`. -/
namespace FV

theorem digitVal_ofNat : ∀ k, k < 10 → digitVal (Char.ofNat ('0'.toNat + k)) = k := by decide

theorem isDigit_ofNat : ∀ k, k < 10 → isDigit (Char.ofNat ('0'.toNat + k)) = true := by decide

theorem baseVal_foldl (b : Nat) (acc : Nat) (ds : List Char) :
    ds.foldl (fun a c => a * b + digitVal c) acc = acc * b ^ ds.length + baseVal b ds := by
  induction ds generalizing acc with
  | nil => simp [baseVal]
  | cons d ds ih =>
    simp only [List.foldl_cons, baseVal, List.length_cons]
    rw [ih, ih (0 * b + digitVal d)]
    simp [Nat.pow_succ, Nat.add_mul, Nat.mul_assoc, Nat.add_assoc, Nat.mul_comm b]

theorem baseVal_cons (b : Nat) (d : Char) (ds : List Char) :
    baseVal b (d :: ds) = digitVal d * b ^ ds.length + baseVal b ds := by
  simp only [baseVal, List.foldl_cons]
  rw [baseVal_foldl]
  simp [baseVal]

theorem baseVal_append (b : Nat) (xs ys : List Char) :
    baseVal b (xs ++ ys) = baseVal b xs * b ^ ys.length + baseVal b ys := by
  simp only [baseVal, List.foldl_append]
  rw [baseVal_foldl]
  simp [baseVal]

theorem natToDecAux_val : ∀ (fuel n : Nat) (acc : List Char), n < fuel →
    decVal (natToDecAux fuel n acc) = n * 10 ^ acc.length + decVal acc := by
  intro fuel
  induction fuel with
  | zero => intro n acc h; omega
  | succ f ih =>
    intro n acc h
    simp only [natToDecAux]
    have hd := digitVal_ofNat (n % 10) (Nat.mod_lt _ (by omega))
    split
    · rename_i h0
      have : n < 10 := by
        have := Nat.div_add_mod n 10
        omega
      have hm := Nat.mod_eq_of_lt this
      simp only [decVal, baseVal_cons]
      rw [hd, hm]
    · rename_i h0
      have hlt : n / 10 < f := by
        have := Nat.div_add_mod n 10
        omega
      rw [ih (n / 10) _ hlt]
      simp only [decVal, baseVal_cons, hd, List.length_cons, Nat.pow_succ]
      have := Nat.div_add_mod n 10
      calc n / 10 * (10 ^ acc.length * 10) + (n % 10 * 10 ^ acc.length + baseVal 10 acc)
          = (10 * (n / 10) + n % 10) * 10 ^ acc.length + baseVal 10 acc := by
            simp [Nat.add_mul, Nat.mul_assoc, Nat.mul_comm, Nat.mul_left_comm, Nat.add_assoc]
        _ = n * 10 ^ acc.length + baseVal 10 acc := by rw [this]

/-- Printing then reading a number gives it back. -/
theorem decVal_natToDec (n : Nat) : decVal (natToDec n) = n := by
  have := natToDecAux_val (n + 1) n [] (by omega)
  simpa [natToDec, decVal, baseVal] using this

theorem natToDecAux_digits : ∀ (fuel n : Nat) (acc : List Char), (∀ c ∈ acc, isDigit c = true) →
    ∀ c ∈ natToDecAux fuel n acc, isDigit c = true := by
  intro fuel
  induction fuel with
  | zero => intro n acc h; simpa [natToDecAux] using h
  | succ f ih =>
    intro n acc h
    simp only [natToDecAux]
    have hd := isDigit_ofNat (n % 10) (Nat.mod_lt _ (by omega))
    have hacc : ∀ c ∈ Char.ofNat ('0'.toNat + n % 10) :: acc, isDigit c = true := by
      intro c hc
      simp at hc
      rcases hc with rfl | hc
      · exact hd
      · exact h c hc
    split
    · exact hacc
    · exact ih _ _ hacc

theorem natToDec_digits (n : Nat) : ∀ c ∈ natToDec n, isDigit c = true :=
  natToDecAux_digits _ _ [] (by simp)

theorem natToDecAux_ne_nil : ∀ (fuel n : Nat) (acc : List Char), 0 < fuel → natToDecAux fuel n acc ≠ [] := by
  intro fuel
  induction fuel with
  | zero => intro n acc h; omega
  | succ f ih =>
    intro n acc _
    simp only [natToDecAux]
    split
    · simp
    · cases f with
      | zero => simp [natToDecAux]
      | succ f' => exact ih _ _ (by omega)

theorem natToDec_ne_nil (n : Nat) : natToDec n ≠ [] := natToDecAux_ne_nil _ _ _ (by omega)

theorem natToDec_injective {a b : Nat} (h : natToDec a = natToDec b) : a = b := by
  have := congrArg decVal h
  simpa [decVal_natToDec] using this

end FV
