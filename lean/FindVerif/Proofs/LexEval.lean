import FindVerif.Proofs.LexGood
/- Evaluation lemmas for the keyword machinery: literals, blanks, `unary!`, `alt` skipping. -/
namespace FV
open W

/-- The parser backtracks (recoverable failure). -/
def Bt {ι α} (p : P ι α) (i : List ι) : Prop := ∃ c r, p i = .err false c r

theorem isPrefix_append (kw tail : Text) : isPrefix kw (kw ++ tail) = true := by
  induction kw with
  | nil => rfl
  | cons c cs ih => simp [isPrefix, ih]

theorem lit_append (kw tail : Text) : lit kw (kw ++ tail) = .ok () tail := by
  simp [lit, isPrefix_append]

theorem lit_fail (kw i : Text) (h : isPrefix kw i = false) : lit kw i = .err false [] i := by
  simp [lit, h]

/-- A non-empty run of blanks followed by something that is not a blank. -/
def BlankRun (ws tail : Text) : Prop :=
  ws ≠ [] ∧ (∀ c ∈ ws, isBlank c = true) ∧ (tail = [] ∨ ∃ c r, tail = c :: r ∧ isBlank c = false)

theorem blank_split (ws tail : Text) (h : BlankRun ws tail) :
    (ws ++ tail).takeWhile isBlank = ws ∧ (ws ++ tail).dropWhile isBlank = tail := by
  obtain ⟨_, hb, ht⟩ := h
  rcases ht with rfl | ⟨c, r, rfl, hc⟩
  · have := takeWhile_all' isBlank ws hb
    simpa using this
  · exact ⟨takeWhile_append_of_all' _ ws c r hb hc, dropWhile_append_of_all' _ ws c r hb hc⟩
where
  takeWhile_all' (p : Char → Bool) (l : List Char) (h : ∀ x ∈ l, p x = true) :
      l.takeWhile p = l ∧ l.dropWhile p = [] := by
    induction l with
    | nil => simp
    | cons x xs ih =>
      have := ih (fun y hy => h y (by simp [hy]))
      simp [List.takeWhile_cons, List.dropWhile_cons, h x (by simp), this]
  takeWhile_append_of_all' (p : Char → Bool) (xs : List Char) (y : Char) (ys : List Char)
      (hx : ∀ x ∈ xs, p x = true) (hy : p y = false) : (xs ++ y :: ys).takeWhile p = xs := by
    induction xs with
    | nil => simp [hy]
    | cons x xs ih =>
      simp only [List.cons_append, List.takeWhile_cons, hx x (by simp), if_true]
      rw [ih (fun z hz => hx z (by simp [hz]))]
  dropWhile_append_of_all' (p : Char → Bool) (xs : List Char) (y : Char) (ys : List Char)
      (hx : ∀ x ∈ xs, p x = true) (hy : p y = false) : (xs ++ y :: ys).dropWhile p = y :: ys := by
    induction xs with
    | nil => simp [hy]
    | cons x xs ih =>
      simp only [List.cons_append, List.dropWhile_cons, hx x (by simp), if_true]
      exact ih (fun z hz => hx z (by simp [hz]))

theorem multispace1_run (ws tail : Text) (h : BlankRun ws tail) : multispace1 (ws ++ tail) = .ok ws tail := by
  obtain ⟨ht, hd⟩ := blank_split ws tail h
  have hl : 1 ≤ ws.length := by
    cases ws with
    | nil => exact absurd rfl h.1
    | cons _ _ => simp
  simp [multispace1, takeWhile, ht, hd, hl]

theorem multispace1_none (tail : Text) (h : tail = [] ∨ ∃ c r, tail = c :: r ∧ isBlank c = false) :
    multispace1 tail = .err false [] tail := by
  rcases h with rfl | ⟨c, r, rfl, hc⟩
  · simp [multispace1, takeWhile]
  · simp [multispace1, takeWhile, List.takeWhile_cons, hc]

/-- `unary!`: keyword, blanks, then the argument parser decides; every failure after the keyword
    is a hard error labelled with the keyword. -/
theorem unary_eval {α β : Type} (kw : Text) (tr : α → β) (p : P Char α) (ws x : Text) (h : BlankRun ws x) :
    unary kw tr p (kw ++ (ws ++ x)) =
      match p x with
      | .ok v r => .ok (tr v) r
      | .err _ c r => .err true (c ++ [label kw]) r
      | .panic s => .panic s := by
  simp only [unary, map, context, preceded, pair, lit_append, cutErr, multispace1_run ws x h]
  cases p x with
  | ok v r => rfl
  | err k c r => rfl
  | panic s => rfl

/-- `unary!` with the argument missing: hard error at the point after the keyword, no description. -/
theorem unary_missing {α β : Type} (kw : Text) (tr : α → β) (p : P Char α) (x : Text)
    (h : x = [] ∨ ∃ c r, x = c :: r ∧ isBlank c = false) :
    unary kw tr p (kw ++ x) = .err true [label kw] x := by
  simp [unary, map, context, preceded, pair, lit_append, cutErr, multispace1_none x h]

theorem unary_bt {α β : Type} (kw : Text) (tr : α → β) (p : P Char α) (i : Text) (h : isPrefix kw i = false) :
    Bt (unary kw tr p) i :=
  ⟨[label kw], i, by simp [unary, map, context, preceded, pair, lit_fail kw i h]⟩

theorem binary_bt {α β γ : Type} (kw : Text) (tr : α × β → γ) (l : P Char α) (r : P Char β) (args : Text) (i : Text)
    (h : isPrefix kw i = false) : Bt (binary kw tr l r args) i :=
  ⟨[label kw], i, by simp [binary, map, context, preceded, pair, lit_fail kw i h]⟩

theorem nullaryTest_bt (kw : Text) (t : Test) (i : Text) (h : isPrefix kw i = false) : Bt (value t (lit kw)) i :=
  ⟨[], i, by simp [value, map, lit_fail kw i h]⟩

theorem nullaryAction_bt (kw : Text) (a : Action) (i : Text) (h : isPrefix kw i = false) :
    Bt (value a (terminated (lit kw) multispace0)) i :=
  ⟨[], i, by simp [value, map, terminated, pair, lit_fail kw i h]⟩

/-! ### `alt` -/

theorem alt_skip {ι α} (pre : List (P ι α)) (q : P ι α) (post : List (P ι α)) (i : List ι)
    (h : ∀ p ∈ pre, Bt p i) : alt (pre ++ q :: post) i = alt (q :: post) i := by
  induction pre with
  | nil => rfl
  | cons p pre ih =>
    obtain ⟨c, r, hp⟩ := h p (by simp)
    have : pre ++ q :: post ≠ [] := by simp
    obtain ⟨x, xs, hx⟩ : ∃ x xs, pre ++ q :: post = x :: xs := by
      cases hh : pre ++ q :: post with
      | nil => exact absurd hh this
      | cons x xs => exact ⟨x, xs, rfl⟩
    simp only [List.cons_append, hx, alt, alt2, hp]
    rw [← hx]
    exact ih (fun p' hp' => h p' (by simp [hp']))

theorem alt_head_ok {ι α} (q : P ι α) (post : List (P ι α)) (i : List ι) (a : α) (r : List ι)
    (h : q i = .ok a r) : alt (q :: post) i = .ok a r := by
  cases post with
  | nil => simpa [alt] using h
  | cons x xs => simp [alt, alt2, h]

theorem alt_head_cut {ι α} (q : P ι α) (post : List (P ι α)) (i : List ι) (c : List Ctx) (r : List ι)
    (h : q i = .err true c r) : alt (q :: post) i = .err true c r := by
  cases post with
  | nil => simpa [alt] using h
  | cons x xs => simp [alt, alt2, h]

end FV
