import FindVerif.Proofs.Names
/-
  Invariants of the manager record under any sequence of registrations
  (`get_matcher` / `get_printer` / `get_file_printer`): names bound once, used after their
  binding, resources shared exactly per request.
-/
namespace FV

/-- The generated name a binding binds. -/
def Binding.binds : Binding → GName
  | .stdoutPort i | .filePort i _ => ⟨.port, i⟩
  | .mutex i => ⟨.mutex, i⟩
  | .printerL i _ _ _ | .printerD i => ⟨.print, i⟩
  | .matcher i _ _ => ⟨.match_, i + 1⟩
  | .frame => ⟨.frame, 2⟩

/-- The generated names its initialiser mentions (its own lambda parameters excluded). -/
def Binding.uses : Binding → List GName
  | .printerL _ p m _ => [⟨.port, p⟩, ⟨.mutex, m⟩]
  | .printerD _ => [⟨.frame, 2⟩]
  | .frame => [⟨.mutex, 1⟩, ⟨.port, 0⟩]
  | _ => []

/-- The rendered text of a binding starts with `(` and the text of the name it binds. -/
theorem Binding.render_head (b : Binding) : ∃ rest, b.render = '(' :: (b.binds.text ++ ' ' :: rest) := by
  have h2 : natToDec 2 = ['2'] := by decide
  cases b <;> simp [Binding.render, Binding.binds, GName.text, Kind.text, lf3, h2]

def Binding.isFrame : Binding → Bool
  | .frame => true
  | _ => false

/-- Core invariant: slots below the counter, names bound once, uses after bindings. -/
structure Core (vars : List Binding) (varIndex : Nat) : Prop where
  below : ∀ b ∈ vars, b.isFrame = false → b.binds.idx < varIndex
  nodup : (vars.map Binding.binds).Nodup
  usesBound : ∀ pre b post, vars = pre ++ b :: post → ∀ u ∈ b.uses, u ∈ pre.map Binding.binds

theorem Core.mono {vars k k'} (h : Core vars k) (hk : k ≤ k') : Core vars k' :=
  ⟨fun b hb hf => Nat.lt_of_lt_of_le (h.below b hb hf) hk, h.nodup, h.usesBound⟩

theorem snoc_split {α} {xs : List α} {b : α} {pre : List α} {c : α} {post : List α}
    (h : xs ++ [b] = pre ++ c :: post) :
    (post = [] ∧ pre = xs ∧ c = b) ∨ (∃ post', post = post' ++ [b] ∧ xs = pre ++ c :: post') := by
  rcases List.append_eq_append_iff.mp h with ⟨a', rfl, h2⟩ | ⟨c', rfl, h2⟩
  · cases a' with
    | nil => simp at h2; obtain ⟨rfl, rfl⟩ := h2; exact Or.inl ⟨rfl, by simp, rfl⟩
    | cons x a'' => simp at h2
  · cases c' with
    | nil => simp at h2; obtain ⟨rfl, rfl⟩ := h2; exact Or.inl ⟨rfl, by simp, rfl⟩
    | cons x c'' =>
      simp at h2
      obtain ⟨rfl, rfl⟩ := h2
      exact Or.inr ⟨c'', rfl, rfl⟩

/-- Appending one fresh binding (slot at or above the counter, not the frame, uses already bound). -/
theorem Core.snoc {vars k} (h : Core vars k) (b : Binding) (k' : Nat)
    (hfr : b.isFrame = false) (hlo : k ≤ b.binds.idx) (hhi : b.binds.idx < k')
    (huses : ∀ u ∈ b.uses, u ∈ vars.map Binding.binds) : Core (vars ++ [b]) k' := by
  have hkk : k ≤ k' := by omega
  refine ⟨?_, ?_, ?_⟩
  · intro c hc hf
    simp at hc
    rcases hc with hc | rfl
    · exact Nat.lt_of_lt_of_le (h.below c hc hf) hkk
    · exact hhi
  · simp only [List.map_append, List.map_cons, List.map_nil]
    refine List.nodup_append.mpr ⟨h.nodup, by simp, ?_⟩
    intro x hx y hy
    simp at hy
    subst hy
    simp at hx
    obtain ⟨c, hc, rfl⟩ := hx
    intro heq
    by_cases hcf : c.isFrame = true
    · -- the frame binding has kind `frame`, fresh bindings never do
      cases c <;> simp [Binding.isFrame] at hcf
      cases b <;> simp [Binding.binds, Binding.isFrame] at heq hfr
    · have := h.below c hc (by simpa using hcf)
      rw [heq] at this
      omega
  · intro pre c post hsplit u hu
    rcases snoc_split hsplit with ⟨rfl, rfl, rfl⟩ | ⟨post', rfl, rfl⟩
    · exact huses u hu
    · exact h.usesBound pre c post' rfl u hu

/-- Assoc-list maps are functional and injective, and point at bindings. -/
structure Maps (m : Manager) : Prop where
  dKeys : (m.printersD.map Prod.fst).Nodup
  dVals : (m.printersD.map Prod.snd).Nodup
  dBound : ∀ t i, (t, i) ∈ m.printersD → Binding.printerD i ∈ m.vars
  lKeys : (m.printersL.map Prod.fst).Nodup
  lVals : (m.printersL.map Prod.snd).Nodup
  lBound : ∀ p t i, ((p, t), i) ∈ m.printersL → Binding.printerL i p.port p.mutex t ∈ m.vars
  mKeys : (m.matches_.map Prod.fst).Nodup
  mVals : (m.matches_.map Prod.snd).Nodup
  mBound : ∀ pat ci j, ((pat, ci), j) ∈ m.matches_ → ∃ i, j = i + 1 ∧ Binding.matcher i pat ci ∈ m.vars
  fKeys : (m.files.map Prod.fst).Nodup
  fBound : ∀ f p, (f, p) ∈ m.files → Binding.filePort p.port f ∈ m.vars ∧ Binding.mutex p.mutex ∈ m.vars
  defBound : ∀ p, m.defaultPort = some p → Binding.stdoutPort p.port ∈ m.vars ∧ Binding.mutex p.mutex ∈ m.vars
  frameBound : m.distributed = true → Binding.frame ∈ m.vars

structure Inv (m : Manager) : Prop where
  core : Core m.vars m.varIndex
  maps : Maps m

theorem assocGet_some {κ ν} [DecidableEq κ] {l : List (κ × ν)} {k : κ} {v : ν}
    (h : assocGet l k = some v) : (k, v) ∈ l := by
  simp only [assocGet] at h
  cases hf : l.find? (fun kv => kv.1 = k) with
  | none => rw [hf] at h; cases h
  | some kv =>
    rw [hf] at h; cases h
    have hm := List.mem_of_find?_eq_some hf
    have hp := List.find?_some hf
    simp at hp
    rw [← hp]
    exact hm

theorem assocGet_none {κ ν} [DecidableEq κ] {l : List (κ × ν)} {k : κ}
    (h : assocGet l k = none) : k ∉ l.map Prod.fst := by
  simp only [assocGet] at h
  cases hf : l.find? (fun kv => kv.1 = k) with
  | some kv => rw [hf] at h; cases h
  | none =>
    intro hk
    simp at hk
    obtain ⟨v, hv⟩ := hk
    have := List.find?_eq_none.mp hf (k, v) hv
    simp at this

theorem Inv.localInit : Inv Manager.localInit :=
  ⟨⟨by simp [Manager.localInit], by simp [Manager.localInit], by
      intro pre b post h; simp [Manager.localInit] at h⟩,
   ⟨by simp [Manager.localInit], by simp [Manager.localInit], by simp [Manager.localInit],
    by simp [Manager.localInit], by simp [Manager.localInit], by simp [Manager.localInit],
    by simp [Manager.localInit], by simp [Manager.localInit], by simp [Manager.localInit],
    by simp [Manager.localInit], by simp [Manager.localInit], by simp [Manager.localInit],
    by simp [Manager.localInit]⟩⟩

theorem Inv.distInit : Inv Manager.distInit := by
  refine ⟨⟨?_, ?_, ?_⟩, ⟨?_, ?_, ?_, ?_, ?_, ?_, ?_, ?_, ?_, ?_, ?_, ?_, ?_⟩⟩ <;>
    simp [Manager.distInit, Binding.binds, Binding.isFrame]
  · intro pre b post h u hu
    -- three bindings: port 0, mutex 1, frame (which uses mutex 1 and port 0)
    match pre, h with
    | [], h => simp at h; obtain ⟨rfl, _⟩ := h; simp [Binding.uses] at hu
    | [x], h => simp at h; obtain ⟨_, rfl, _⟩ := h; simp [Binding.uses] at hu
    | [x, y], h =>
      simp at h; obtain ⟨rfl, rfl, rfl, _⟩ := h
      simp [Binding.uses] at hu
      rcases hu with rfl | rfl <;> simp [Binding.binds]
    | x :: y :: z :: rest, h => simp at h

end FV

namespace FV

/-- What every registration guarantees: the invariant is kept, bindings are only appended,
    the mode and (where stated) the other maps are untouched. -/
structure Step (m m' : Manager) : Prop where
  inv : Inv m'
  ext : ∃ e, m'.vars = m.vars ++ e
  mode : m'.distributed = m.distributed
  ctr : m.varIndex ≤ m'.varIndex
  keepD : ∀ x, x ∈ m.printersD → x ∈ m'.printersD
  keepL : ∀ x, x ∈ m.printersL → x ∈ m'.printersL
  keepM : ∀ x, x ∈ m.matches_ → x ∈ m'.matches_

theorem Step.refl {m} (h : Inv m) : Step m m :=
  ⟨h, ⟨[], by simp⟩, rfl, Nat.le_refl _, fun _ h => h, fun _ h => h, fun _ h => h⟩

theorem Step.trans {a b c} (h1 : Step a b) (h2 : Step b c) : Step a c := by
  obtain ⟨e1, he1⟩ := h1.ext
  obtain ⟨e2, he2⟩ := h2.ext
  exact ⟨h2.inv, ⟨e1 ++ e2, by rw [he2, he1]; simp⟩, h2.mode.trans h1.mode, Nat.le_trans h1.ctr h2.ctr,
    fun x hx => h2.keepD x (h1.keepD x hx), fun x hx => h2.keepL x (h1.keepL x hx),
    fun x hx => h2.keepM x (h1.keepM x hx)⟩

theorem mem_ext {m m' : Manager} (h : ∃ e, m'.vars = m.vars ++ e) {b} (hb : b ∈ m.vars) : b ∈ m'.vars := by
  obtain ⟨e, he⟩ := h; rw [he]; simp [hb]

/-- Transport of the map clauses along an extension that leaves the maps unchanged. -/
theorem Maps.ext_vars {m : Manager} (h : Maps m) (vars' : List Binding) (k' : Nat)
    (hsub : ∀ b, b ∈ m.vars → b ∈ vars') : Maps { m with vars := vars', varIndex := k' } :=
  ⟨h.dKeys, h.dVals, fun t i hi => hsub _ (h.dBound t i hi), h.lKeys, h.lVals,
   fun p t i hi => hsub _ (h.lBound p t i hi), h.mKeys, h.mVals,
   fun pat ci j hj => by obtain ⟨i, rfl, hb⟩ := h.mBound pat ci j hj; exact ⟨i, rfl, hsub _ hb⟩,
   h.fKeys, fun f p hp => ⟨hsub _ (h.fBound f p hp).1, hsub _ (h.fBound f p hp).2⟩,
   fun p hp => ⟨hsub _ (h.defBound p hp).1, hsub _ (h.defBound p hp).2⟩,
   fun hd => hsub _ (h.frameBound hd)⟩

theorem vals_lt {m : Manager} (h : Inv m) :
    (∀ t i, (t, i) ∈ m.printersD → i < m.varIndex) ∧
    (∀ k i, (k, i) ∈ m.printersL → i < m.varIndex) ∧
    (∀ k j, (k, j) ∈ m.matches_ → j < m.varIndex) := by
  refine ⟨fun t i hi => ?_, fun k i hi => ?_, fun k j hj => ?_⟩
  · exact h.core.below _ (h.maps.dBound t i hi) rfl
  · obtain ⟨p, t⟩ := k
    exact h.core.below _ (h.maps.lBound p t i hi) rfl
  · obtain ⟨pat, ci⟩ := k
    obtain ⟨i, rfl, hb⟩ := h.maps.mBound pat ci j hj
    exact h.core.below _ hb rfl

theorem assocGet_of_mem {κ ν} [DecidableEq κ] {l : List (κ × ν)} {k : κ} {v : ν}
    (hn : (l.map Prod.fst).Nodup) (h : (k, v) ∈ l) : assocGet l k = some v := by
  induction l with
  | nil => simp at h
  | cons a l ih =>
    obtain ⟨a1, a2⟩ := a
    simp only [List.map_cons, List.nodup_cons] at hn
    simp only [assocGet, List.find?_cons]
    by_cases hk : a1 = k
    · subst hk
      simp
      simp at h
      rcases h with h | h
      · exact h.symm
      · exact absurd (List.mem_map_of_mem (f := Prod.fst) h) hn.1
    · simp [hk]
      simp at h
      rcases h with ⟨h, _⟩ | h
      · exact absurd h.symm hk
      · have := ih hn.2 h
        simpa [assocGet] using this

/-! ### `register_str_match` -/

theorem registerMatch_hit (m : Manager) (pat : Text) (ci : Bool) (j : Nat)
    (h : assocGet m.matches_ (pat, ci) = some j) : m.registerMatch pat ci = (j, m) := by
  simp [Manager.registerMatch, h]

theorem registerMatch_spec (m : Manager) (pat : Text) (ci : Bool) (h : Inv m) :
    Step m (m.registerMatch pat ci).2 ∧
    ((pat, ci), (m.registerMatch pat ci).1) ∈ (m.registerMatch pat ci).2.matches_ ∧
    (m.registerMatch pat ci).2.printersD = m.printersD ∧
    (m.registerMatch pat ci).2.printersL = m.printersL := by
  simp only [Manager.registerMatch]
  cases hg : assocGet m.matches_ (pat, ci) with
  | some id => exact ⟨Step.refl h, assocGet_some hg, rfl, rfl⟩
  | none =>
    have hfresh := assocGet_none hg
    have hlt := (vals_lt h).2.2
    refine ⟨⟨⟨?_, ?_⟩, ⟨_, rfl⟩, rfl, by simp, fun _ hx => hx, fun _ hx => hx, fun x hx => by simp [hx]⟩, by simp, rfl, rfl⟩
    · exact h.core.snoc (.matcher m.varIndex pat ci) (m.varIndex + 2) rfl (by simp [Binding.binds]) (by simp [Binding.binds])
        (by simp [Binding.uses])
    · have hsub : ∀ b, b ∈ m.vars → b ∈ m.vars ++ [Binding.matcher m.varIndex pat ci] := fun b hb => by simp [hb]
      have base := h.maps.ext_vars (m.vars ++ [Binding.matcher m.varIndex pat ci]) (m.varIndex + 2) hsub
      refine { base with mKeys := ?_, mVals := ?_, mBound := ?_ }
      · simp only [List.map_append, List.map_cons, List.map_nil]
        exact List.nodup_append.mpr ⟨h.maps.mKeys, by simp, by
          intro x hx y hy; simp at hy; subst hy; intro he; subst he; exact hfresh hx⟩
      · simp only [List.map_append, List.map_cons, List.map_nil]
        refine List.nodup_append.mpr ⟨h.maps.mVals, by simp, ?_⟩
        intro x hx y hy
        simp at hy; subst hy
        obtain ⟨⟨k, j⟩, hkj, rfl⟩ := List.mem_map.mp hx
        have := hlt k j hkj
        simp only
        omega
      · intro pat' ci' j hj
        simp at hj
        rcases hj with hj | ⟨⟨rfl, rfl⟩, rfl⟩
        · obtain ⟨i, rfl, hb⟩ := h.maps.mBound pat' ci' j hj
          exact ⟨i, rfl, by simp [hb]⟩
        · exact ⟨m.varIndex, rfl, by simp⟩

end FV

namespace FV

/-! ### distributed `register_printer` -/

theorem registerPrinterD_spec (m : Manager) (t : Target) (h : Inv m) (hd : m.distributed = true) :
    Step m (m.registerPrinterD t).2 ∧
    (t, (m.registerPrinterD t).1) ∈ (m.registerPrinterD t).2.printersD ∧
    (m.registerPrinterD t).2.matches_ = m.matches_ := by
  simp only [Manager.registerPrinterD]
  cases hg : assocGet m.printersD t with
  | some id => exact ⟨Step.refl h, assocGet_some hg, rfl⟩
  | none =>
    have hfresh := assocGet_none hg
    have hlt := (vals_lt h).1
    refine ⟨⟨⟨?_, ?_⟩, ⟨_, rfl⟩, rfl, by simp, fun x hx => by simp [hx], fun _ hx => hx, fun _ hx => hx⟩, by simp, rfl⟩
    · exact h.core.snoc (.printerD m.varIndex) (m.varIndex + 1) rfl (by simp [Binding.binds]) (by simp [Binding.binds])
        (by
          intro u hu
          simp [Binding.uses] at hu
          subst hu
          exact List.mem_map.mpr ⟨.frame, h.maps.frameBound hd, rfl⟩)
    · have hsub : ∀ b, b ∈ m.vars → b ∈ m.vars ++ [Binding.printerD m.varIndex] := fun b hb => by simp [hb]
      have base := h.maps.ext_vars (m.vars ++ [Binding.printerD m.varIndex]) (m.varIndex + 1) hsub
      refine { base with dKeys := ?_, dVals := ?_, dBound := ?_ }
      · simp only [List.map_append, List.map_cons, List.map_nil]
        exact List.nodup_append.mpr ⟨h.maps.dKeys, by simp, by
          intro x hx y hy; simp at hy; subst hy; intro he; subst he; exact hfresh hx⟩
      · simp only [List.map_append, List.map_cons, List.map_nil]
        refine List.nodup_append.mpr ⟨h.maps.dVals, by simp, ?_⟩
        intro x hx y hy
        simp at hy; subst hy
        obtain ⟨⟨k, j⟩, hkj, rfl⟩ := List.mem_map.mp hx
        have := hlt k j hkj
        simp only
        omega
      · intro t' i hi
        simp at hi
        rcases hi with hi | ⟨rfl, rfl⟩
        · simp [h.maps.dBound t' i hi]
        · simp

/-! ### local ports and printers -/

theorem initDefaultPort_spec (m : Manager) (h : Inv m) :
    Step m m.initDefaultPort.2 ∧ m.initDefaultPort.2.defaultPort = some m.initDefaultPort.1 ∧
    m.initDefaultPort.2.matches_ = m.matches_ ∧ m.initDefaultPort.2.printersD = m.printersD := by
  simp only [Manager.initDefaultPort]
  cases hdp : m.defaultPort with
  | some p => exact ⟨Step.refl h, hdp, rfl, rfl⟩
  | none =>
    refine ⟨⟨⟨?_, ?_⟩, ⟨_, rfl⟩, rfl, by simp, fun _ hx => hx, fun _ hx => hx, fun _ hx => hx⟩, rfl, rfl, rfl⟩
    · have c1 := h.core.snoc (.stdoutPort m.varIndex) (m.varIndex + 1) rfl (by simp [Binding.binds])
        (by simp [Binding.binds]) (by simp [Binding.uses])
      have c2 := c1.snoc (.mutex (m.varIndex + 1)) (m.varIndex + 2) rfl (by simp [Binding.binds])
        (by simp [Binding.binds]) (by simp [Binding.uses])
      simpa using c2
    · have hsub : ∀ b, b ∈ m.vars → b ∈ m.vars ++ [Binding.stdoutPort m.varIndex, Binding.mutex (m.varIndex + 1)] :=
        fun b hb => by simp [hb]
      have base := h.maps.ext_vars _ (m.varIndex + 2) hsub
      refine { base with defBound := ?_ }
      intro p hp
      simp at hp
      subst hp
      simp

theorem initFilePort_spec (m : Manager) (f : Text) (h : Inv m) :
    Step m (m.initFilePort f).2 ∧ (f, (m.initFilePort f).1) ∈ (m.initFilePort f).2.files ∧
    (m.initFilePort f).2.matches_ = m.matches_ ∧ (m.initFilePort f).2.printersD = m.printersD := by
  simp only [Manager.initFilePort]
  cases hg : assocGet m.files f with
  | some p => exact ⟨Step.refl h, assocGet_some hg, rfl, rfl⟩
  | none =>
    have hfresh := assocGet_none hg
    refine ⟨⟨⟨?_, ?_⟩, ⟨_, rfl⟩, rfl, by simp, fun _ hx => hx, fun _ hx => hx, fun _ hx => hx⟩, by simp, rfl, rfl⟩
    · have c1 := h.core.snoc (.filePort m.varIndex f) (m.varIndex + 1) rfl (by simp [Binding.binds])
        (by simp [Binding.binds]) (by simp [Binding.uses])
      have c2 := c1.snoc (.mutex (m.varIndex + 1)) (m.varIndex + 2) rfl (by simp [Binding.binds])
        (by simp [Binding.binds]) (by simp [Binding.uses])
      simpa using c2
    · have hsub : ∀ b, b ∈ m.vars → b ∈ m.vars ++ [Binding.filePort m.varIndex f, Binding.mutex (m.varIndex + 1)] :=
        fun b hb => by simp [hb]
      have base := h.maps.ext_vars _ (m.varIndex + 2) hsub
      refine { base with fKeys := ?_, fBound := ?_ }
      · simp only [List.map_append, List.map_cons, List.map_nil]
        exact List.nodup_append.mpr ⟨h.maps.fKeys, by simp, by
          intro x hx y hy; simp at hy; subst hy; intro he; subst he; exact hfresh hx⟩
      · intro f' p hp
        simp at hp
        rcases hp with hp | ⟨rfl, rfl⟩
        · have := h.maps.fBound f' p hp
          simp [this.1, this.2]
        · simp

/-- A port handed out by the manager: both of its bindings exist. -/
def PortBound (m : Manager) (p : OpenPort) : Prop :=
  (∃ b ∈ m.vars, b.binds = ⟨.port, p.port⟩) ∧ Binding.mutex p.mutex ∈ m.vars

theorem registerPrinterL_spec (m : Manager) (p : OpenPort) (t : Option Char) (h : Inv m) (hp : PortBound m p) :
    Step m (m.registerPrinterL p t).2 ∧
    ((p, t), (m.registerPrinterL p t).1) ∈ (m.registerPrinterL p t).2.printersL ∧
    (m.registerPrinterL p t).2.matches_ = m.matches_ ∧ (m.registerPrinterL p t).2.printersD = m.printersD := by
  simp only [Manager.registerPrinterL]
  cases hg : assocGet m.printersL (p, t) with
  | some id => exact ⟨Step.refl h, assocGet_some hg, rfl, rfl⟩
  | none =>
    have hfresh := assocGet_none hg
    have hlt := (vals_lt h).2.1
    refine ⟨⟨⟨?_, ?_⟩, ⟨_, rfl⟩, rfl, by simp, fun _ hx => hx, fun x hx => by simp [hx], fun _ hx => hx⟩, by simp, rfl, rfl⟩
    · exact h.core.snoc (.printerL m.varIndex p.port p.mutex t) (m.varIndex + 1) rfl (by simp [Binding.binds])
        (by simp [Binding.binds]) (by
          intro u hu
          simp [Binding.uses] at hu
          rcases hu with rfl | rfl
          · obtain ⟨b, hb, hbb⟩ := hp.1
            exact List.mem_map.mpr ⟨b, hb, hbb⟩
          · exact List.mem_map.mpr ⟨_, hp.2, rfl⟩)
    · have hsub : ∀ b, b ∈ m.vars → b ∈ m.vars ++ [Binding.printerL m.varIndex p.port p.mutex t] := fun b hb => by simp [hb]
      have base := h.maps.ext_vars _ (m.varIndex + 1) hsub
      refine { base with lKeys := ?_, lVals := ?_, lBound := ?_ }
      · simp only [List.map_append, List.map_cons, List.map_nil]
        exact List.nodup_append.mpr ⟨h.maps.lKeys, by simp, by
          intro x hx y hy; simp at hy; subst hy; intro he; subst he; exact hfresh hx⟩
      · simp only [List.map_append, List.map_cons, List.map_nil]
        refine List.nodup_append.mpr ⟨h.maps.lVals, by simp, ?_⟩
        intro x hx y hy
        simp at hy; subst hy
        obtain ⟨⟨k, j⟩, hkj, rfl⟩ := List.mem_map.mp hx
        have := hlt k j hkj
        simp only
        omega
      · intro p' t' i hi
        simp at hi
        rcases hi with hi | ⟨⟨rfl, rfl⟩, rfl⟩
        · simp [h.maps.lBound p' t' i hi]
        · simp

end FV
