import FindVerif.Proofs.LexTables
/- `token` on an input that starts with a keyword of the tables: it reaches that keyword's
   alternative, whatever precedes it in the `alt` chains. -/
namespace FV
open W

theorem mem_split {α} {l : List α} {a : α} (h : a ∈ l) : ∃ pre post, l = pre ++ a :: post := by
  induction l with
  | nil => simp at h
  | cons x xs ih =>
    simp at h
    rcases h with rfl | h
    · exact ⟨[], xs, rfl⟩
    · obtain ⟨pre, post, rfl⟩ := ih h
      exact ⟨x :: pre, post, rfl⟩

theorem alt_all_bt {ι α} (ps : List (P ι α)) (i : List ι) (h : ∀ p ∈ ps, Bt p i) : Bt (alt ps) i := by
  induction ps with
  | nil => exact ⟨[], i, rfl⟩
  | cons p ps ih =>
    cases ps with
    | nil => simpa [alt] using h p (by simp)
    | cons q qs =>
      obtain ⟨c, r, hp⟩ := h p (by simp)
      obtain ⟨c', r', h'⟩ := ih (fun x hx => h x (by simp [hx]))
      exact ⟨c', r', by simp only [alt, alt2, hp]; exact h'⟩

theorem bt_context {ι α} (c : Ctx) (p : P ι α) (i : List ι) (h : Bt p i) : Bt (context c p) i := by
  obtain ⟨cs, r, hp⟩ := h
  exact ⟨cs ++ [c], r, by simp [context, hp]⟩

theorem bt_map {ι α β} (f : α → β) (p : P ι α) (i : List ι) (h : Bt p i) : Bt (map f p) i := by
  obtain ⟨cs, r, hp⟩ := h
  exact ⟨cs, r, by simp [map, hp]⟩

/-- Test keyword selection inside `Test::parse`. -/
theorem parseTest_select (pf : Profile) (kw : Text) (p : P Char Test) (hm : (kw, p) ∈ testAlts pf)
    (tail : Text) (hf : Follows tail) :
    (∀ t r, p (kw ++ tail) = .ok t r → parseTest pf (kw ++ tail) = .ok t r) ∧
    (∀ c r, p (kw ++ tail) = .err true c r → parseTest pf (kw ++ tail) = .err true (c ++ [label (cl!"test")]) r) := by
  obtain ⟨pre, post, hsplit⟩ := mem_split hm
  have hsel := alts_select (testAlts pf) (testAlts_kwAlt pf) (by rw [testKws_eq]; exact testKws_orderSafe)
    (by rw [testKws_eq]; exact testKws_chars) pre kw p post hsplit tail hf
  refine ⟨fun t r h => ?_, fun c r h => ?_⟩
  · simp only [parseTest, context, hsel, alt_head_ok p _ _ t r h]
  · simp only [parseTest, context, hsel, alt_head_cut p _ _ c r h]

theorem parseAction_select (pf : Profile) (kw : Text) (p : P Char Action) (hm : (kw, p) ∈ actionAlts pf)
    (tail : Text) (hf : Follows tail) :
    (∀ t r, p (kw ++ tail) = .ok t r → parseAction pf (kw ++ tail) = .ok t r) ∧
    (∀ c r, p (kw ++ tail) = .err true c r → parseAction pf (kw ++ tail) = .err true (c ++ [label (cl!"action")]) r) := by
  obtain ⟨pre, post, hsplit⟩ := mem_split hm
  have hsel := alts_select (actionAlts pf) (actionAlts_kwAlt pf) (by rw [actionKws_eq]; exact actionKws_orderSafe)
    (by rw [actionKws_eq]; exact actionKws_chars) pre kw p post hsplit tail hf
  refine ⟨fun t r h => ?_, fun c r h => ?_⟩
  · simp only [parseAction, context, hsel, alt_head_ok p _ _ t r h]
  · simp only [parseAction, context, hsel, alt_head_cut p _ _ c r h]

/-! ### the alternatives of `token` that come before the keyword tables -/

/-- One operator-word alternative of `token`. -/
def opTerm : P Char Unit := alt [value () multispace1, eof]

def opAlt (t : Token) (a b : Text) : P Char Token :=
  value t (terminated (alt2 (lit a) (lit b)) opTerm)

/-- A keyword is safe for an operator word pair `(a, b)` if, wherever `a` or `b` matches at its
    start, the keyword continues with a non-blank character. -/
def opOk (kw a b : Text) : Bool :=
  if isPrefix a kw then (match kw.drop a.length with | c :: _ => !isBlank c | [] => false)
  else if isPrefix kw a then false
  else if isPrefix b kw then (match kw.drop b.length with | c :: _ => !isBlank c | [] => false)
  else !isPrefix kw b

theorem isPrefix_of_append (w kw tail : Text) (h : isPrefix w kw = true) : isPrefix w (kw ++ tail) = true := by
  induction w generalizing kw with
  | nil => rfl
  | cons a w ih =>
    cases kw with
    | nil => simp [isPrefix] at h
    | cons b kw => simp [isPrefix] at h ⊢; exact ⟨h.1, ih kw h.2⟩

theorem drop_of_prefix (w kw tail : Text) (h : isPrefix w kw = true) :
    (kw ++ tail).drop w.length = kw.drop w.length ++ tail := by
  induction w generalizing kw with
  | nil => rfl
  | cons a w ih =>
    cases kw with
    | nil => simp [isPrefix] at h
    | cons b kw => simp [isPrefix] at h; simp [ih kw h.2]

theorem not_prefix_of_append (w kw tail : Text) (h1 : isPrefix w kw = false) (h2 : isPrefix kw w = false) :
    isPrefix w (kw ++ tail) = false := by
  induction w generalizing kw with
  | nil => simp [isPrefix] at h1
  | cons a w ih =>
    cases kw with
    | nil => simp [isPrefix] at h2
    | cons b kw =>
      simp only [isPrefix, List.cons_append] at h1 h2 ⊢
      by_cases hab : a = b
      · subst hab
        simp only [decide_true, Bool.true_and] at h1 h2 ⊢
        exact ih kw h1 h2
      · simp [hab]

theorem term_fails (c : Char) (r : Text) (hc : isBlank c = false) :
    ∃ cs r', opTerm (c :: r) = .err false cs r' := by
  simp [opTerm, alt, alt2, value, map, multispace1, takeWhile, List.takeWhile_cons, hc, eof]

theorem opAlt_bt (t : Token) (a b kw tail : Text) (h : opOk kw a b = true) : Bt (opAlt t a b) (kw ++ tail) := by
  simp only [opOk] at h
  by_cases ha : isPrefix a kw = true
  · simp only [ha, if_true] at h
    cases hd : kw.drop a.length with
    | nil => rw [hd] at h; simp at h
    | cons c r =>
      rw [hd] at h
      have hc : isBlank c = false := by simpa using h
      obtain ⟨cs, r', ht⟩ := term_fails c (r ++ tail) hc
      refine ⟨cs, r', ?_⟩
      simp only [opAlt, value, map, terminated, pair, alt2, lit, isPrefix_of_append a kw tail ha, if_true,
        drop_of_prefix a kw tail ha, hd, List.cons_append, ht]
  · have ha' : isPrefix a kw = false := by simpa using ha
    simp only [ha', Bool.false_eq_true, if_false] at h
    by_cases hka : isPrefix kw a = true
    · simp [hka] at h
    · have hka' : isPrefix kw a = false := by simpa using hka
      simp only [hka', Bool.false_eq_true, if_false] at h
      have hna := not_prefix_of_append a kw tail ha' hka'
      by_cases hb : isPrefix b kw = true
      · simp only [hb, if_true] at h
        cases hd : kw.drop b.length with
        | nil => rw [hd] at h; simp at h
        | cons c r =>
          rw [hd] at h
          have hc : isBlank c = false := by simpa using h
          obtain ⟨cs, r', ht⟩ := term_fails c (r ++ tail) hc
          refine ⟨cs, r', ?_⟩
          simp only [opAlt, value, map, terminated, pair, alt2, lit, hna, Bool.false_eq_true, if_false,
            isPrefix_of_append b kw tail hb, if_true, drop_of_prefix b kw tail hb, hd, List.cons_append, ht]
      · have hb' : isPrefix b kw = false := by simpa using hb
        simp only [hb', Bool.false_eq_true, if_false] at h
        have hkb : isPrefix kw b = false := by simpa using h
        have hnb := not_prefix_of_append b kw tail hb' hkb
        exact ⟨[], kw ++ tail, by simp [opAlt, value, map, terminated, pair, alt2, lit, hna, hnb]⟩

def punctOk (kw : Text) : Bool :=
  !isPrefix (cl!"(") kw && !isPrefix (cl!")") kw && !isPrefix (cl!"!") kw && !isPrefix (cl!",") kw && !kw.isEmpty

def frontOk (kws : List Text) : Bool :=
  kws.all fun kw => punctOk kw && opOk kw (cl!"-or") (cl!"-o") && opOk kw (cl!"-and") (cl!"-a")

theorem testKws_front : frontOk testKws = true := by decide
theorem actionKws_front : frontOk actionKws = true := by decide

theorem punct_bt (t : Token) (s kw tail : Text) (hs : s.length = 1) (h : isPrefix s kw = false) (hk : kw ≠ []) :
    Bt (value t (lit s)) (kw ++ tail) := by
  have : isPrefix s (kw ++ tail) = false := by
    cases kw with
    | nil => exact absurd rfl hk
    | cons b kw' =>
      match s, hs with
      | [a], _ =>
        simp only [isPrefix, Bool.and_true] at h
        simp [isPrefix, h]
  exact ⟨[], kw ++ tail, by simp [value, map, lit, this]⟩

/-- `token`, as an `alt` over its eleven alternatives (definitional). -/
theorem token_shape (pf : Profile) : token pf =
    context (label (cl!"syntax"))
      (alt [ value Token.lparen (lit (cl!"(")), value Token.rparen (lit (cl!")")), value Token.not (lit (cl!"!")),
             value Token.comma (lit (cl!",")), opAlt Token.or (cl!"-or") (cl!"-o"), opAlt Token.and (cl!"-and") (cl!"-a"),
             map Token.test (parseTest pf), map Token.action (parseAction pf), map Token.global parseGlobal,
             map Token.positional parsePositional, context (expected (cl!"invalid_token")) fail ]) := rfl

/-- The six alternatives before the tables backtrack on an input starting with a table keyword. -/
theorem front_bt (kws : List Text) (hfr : frontOk kws = true) (kw : Text) (hk : kw ∈ kws) (tail : Text) :
    ∀ p ∈ ([ value Token.lparen (lit (cl!"(")), value Token.rparen (lit (cl!")")), value Token.not (lit (cl!"!")),
             value Token.comma (lit (cl!",")), opAlt Token.or (cl!"-or") (cl!"-o"),
             opAlt Token.and (cl!"-and") (cl!"-a") ] : List (P Char Token)), Bt p (kw ++ tail) := by
  simp only [frontOk, List.all_eq_true, Bool.and_eq_true, punctOk, Bool.not_eq_true'] at hfr
  obtain ⟨⟨⟨⟨⟨⟨h1, h2⟩, h3⟩, h4⟩, h5⟩, ho⟩, ha⟩ := hfr kw hk
  have hne : kw ≠ [] := by intro he; subst he; simp at h5
  intro p hp
  simp at hp
  rcases hp with rfl | rfl | rfl | rfl | rfl | rfl
  · exact punct_bt _ _ kw tail rfl h1 hne
  · exact punct_bt _ _ kw tail rfl h2 hne
  · exact punct_bt _ _ kw tail rfl h3 hne
  · exact punct_bt _ _ kw tail rfl h4 hne
  · exact opAlt_bt _ _ _ kw tail ho
  · exact opAlt_bt _ _ _ kw tail ha

/-- `token` on a test keyword reaches `Test::parse`'s alternative for that keyword. -/
theorem token_test (pf : Profile) (kw : Text) (p : P Char Test) (hm : (kw, p) ∈ testAlts pf)
    (tail : Text) (hf : Follows tail) :
    (∀ t r, p (kw ++ tail) = .ok t r → token pf (kw ++ tail) = .ok (.test t) r) ∧
    (∀ c r, p (kw ++ tail) = .err true c r →
      token pf (kw ++ tail) = .err true (c ++ [label (cl!"test"), label (cl!"syntax")]) r) := by
  have hkw : kw ∈ testKws := by rw [← testKws_eq pf]; exact List.mem_map_of_mem (f := Prod.fst) hm
  have hfront := front_bt testKws testKws_front kw hkw tail
  have hsel := parseTest_select pf kw p hm tail hf
  rw [token_shape]
  have hskip := alt_skip _ (map Token.test (parseTest pf))
    [map Token.action (parseAction pf), map Token.global parseGlobal, map Token.positional parsePositional,
     context (expected (cl!"invalid_token")) fail] (kw ++ tail) hfront
  simp only [List.cons_append, List.nil_append] at hskip
  refine ⟨fun t r h => ?_, fun c r h => ?_⟩
  · have h1 : map Token.test (parseTest pf) (kw ++ tail) = .ok (Token.test t) r := by simp [map, hsel.1 t r h]
    have h2 := alt_head_ok _ [map Token.action (parseAction pf), map Token.global parseGlobal,
      map Token.positional parsePositional, context (expected (cl!"invalid_token")) fail] _ _ _ h1
    simp only [context, hskip]
    rw [h2]
  · have h1 : map Token.test (parseTest pf) (kw ++ tail) = .err true (c ++ [label (cl!"test")]) r := by
      simp [map, hsel.2 c r h]
    have h2 := alt_head_cut _ [map Token.action (parseAction pf), map Token.global parseGlobal,
      map Token.positional parsePositional, context (expected (cl!"invalid_token")) fail] _ _ _ h1
    simp only [context, hskip]
    rw [h2]
    simp [List.append_assoc]

end FV

namespace FV
open W

/-- No keyword of the first list is a prefix of a keyword of the second. -/
def crossSafe (as bs : List Text) : Bool := as.all fun a => bs.all fun b => !isPrefix a b

theorem test_action_cross : crossSafe testKws actionKws = true := by decide

def globalKws : List Text := [cl!"-depth", cl!"-maxdepth", cl!"-mindepth", cl!"-threads"]
theorem test_global_cross : crossSafe testKws globalKws = true := by decide
theorem action_global_cross : crossSafe actionKws globalKws = true := by decide
theorem globalKws_front : frontOk globalKws = true := by decide

theorem table_bt {α : Type} (alts : List (Text × P Char α)) (hk : ∀ kp ∈ alts, KwAlt kp.1 kp.2)
    (hc : kwCharsOk (alts.map Prod.fst) = true) (others : List Text) (hx : crossSafe (alts.map Prod.fst) others = true)
    (kw : Text) (hkw : kw ∈ others) (tail : Text) (hf : Follows tail) :
    Bt (alt (alts.map Prod.snd)) (kw ++ tail) := by
  apply alt_all_bt
  intro q hq
  obtain ⟨kp, hkp, rfl⟩ := List.mem_map.mp hq
  apply hk kp hkp
  apply isPrefix_kw_tail
  · simp only [crossSafe, List.all_eq_true] at hx
    have := hx kp.1 (List.mem_map_of_mem hkp) kw hkw
    simpa using this
  · intro c hcc
    simp only [kwCharsOk, List.all_eq_true] at hc
    have := hc kp.1 (List.mem_map_of_mem hkp) c hcc
    simpa using this
  · exact hf

theorem parseTest_bt_on (pf : Profile) (others : List Text) (hx : crossSafe testKws others = true)
    (kw : Text) (hkw : kw ∈ others) (tail : Text) (hf : Follows tail) : Bt (map Token.test (parseTest pf)) (kw ++ tail) := by
  apply bt_map
  unfold parseTest
  apply bt_context
  exact table_bt (testAlts pf) (testAlts_kwAlt pf) (by rw [testKws_eq]; exact testKws_chars) others
    (by rw [testKws_eq]; exact hx) kw hkw tail hf

theorem parseAction_bt_on (pf : Profile) (others : List Text) (hx : crossSafe actionKws others = true)
    (kw : Text) (hkw : kw ∈ others) (tail : Text) (hf : Follows tail) : Bt (map Token.action (parseAction pf)) (kw ++ tail) := by
  apply bt_map
  unfold parseAction
  apply bt_context
  exact table_bt (actionAlts pf) (actionAlts_kwAlt pf) (by rw [actionKws_eq]; exact actionKws_chars) others
    (by rw [actionKws_eq]; exact hx) kw hkw tail hf

/-- `token` on an action keyword reaches `Action::parse`'s alternative for that keyword. -/
theorem token_action (pf : Profile) (kw : Text) (p : P Char Action) (hm : (kw, p) ∈ actionAlts pf)
    (tail : Text) (hf : Follows tail) :
    (∀ a r, p (kw ++ tail) = .ok a r → token pf (kw ++ tail) = .ok (.action a) r) ∧
    (∀ c r, p (kw ++ tail) = .err true c r →
      token pf (kw ++ tail) = .err true (c ++ [label (cl!"action"), label (cl!"syntax")]) r) := by
  have hkw : kw ∈ actionKws := by rw [← actionKws_eq pf]; exact List.mem_map_of_mem (f := Prod.fst) hm
  have hfront := front_bt actionKws actionKws_front kw hkw tail
  have htest := parseTest_bt_on pf actionKws test_action_cross kw hkw tail hf
  have hsel := parseAction_select pf kw p hm tail hf
  rw [token_shape]
  have hskip := alt_skip
    [ value Token.lparen (lit (cl!"(")), value Token.rparen (lit (cl!")")), value Token.not (lit (cl!"!")),
      value Token.comma (lit (cl!",")), opAlt Token.or (cl!"-or") (cl!"-o"), opAlt Token.and (cl!"-and") (cl!"-a"),
      map Token.test (parseTest pf) ]
    (map Token.action (parseAction pf))
    [map Token.global parseGlobal, map Token.positional parsePositional, context (expected (cl!"invalid_token")) fail]
    (kw ++ tail) (by
      intro q hq
      simp only [List.mem_cons, List.mem_nil_iff, or_false] at hq
      rcases hq with h | h | h | h | h | h | h
      · exact hfront q (by simp [h])
      · exact hfront q (by simp [h])
      · exact hfront q (by simp [h])
      · exact hfront q (by simp [h])
      · exact hfront q (by simp [h])
      · exact hfront q (by simp [h])
      · rw [h]; exact htest)
  simp only [List.cons_append, List.nil_append] at hskip
  refine ⟨fun a r h => ?_, fun c r h => ?_⟩
  · have h1 : map Token.action (parseAction pf) (kw ++ tail) = .ok (Token.action a) r := by simp [map, hsel.1 a r h]
    have h2 := alt_head_ok _ [map Token.global parseGlobal, map Token.positional parsePositional,
      context (expected (cl!"invalid_token")) fail] _ _ _ h1
    simp only [context, hskip]
    rw [h2]
  · have h1 : map Token.action (parseAction pf) (kw ++ tail) = .err true (c ++ [label (cl!"action")]) r := by
      simp [map, hsel.2 c r h]
    have h2 := alt_head_cut _ [map Token.global parseGlobal, map Token.positional parsePositional,
      context (expected (cl!"invalid_token")) fail] _ _ _ h1
    simp only [context, hskip]
    rw [h2]
    simp [List.append_assoc]

/-- `token` on a global-option keyword reaches `GlobalOption::parse`. -/
theorem token_global (pf : Profile) (kw : Text) (hkw : kw ∈ globalKws) (tail : Text) (hf : Follows tail) :
    (∀ g r, parseGlobal (kw ++ tail) = .ok g r → token pf (kw ++ tail) = .ok (.global g) r) ∧
    (∀ c r, parseGlobal (kw ++ tail) = .err true c r →
      token pf (kw ++ tail) = .err true (c ++ [label (cl!"syntax")]) r) := by
  have hfront := front_bt globalKws globalKws_front kw hkw tail
  have htest := parseTest_bt_on pf globalKws test_global_cross kw hkw tail hf
  have hact := parseAction_bt_on pf globalKws action_global_cross kw hkw tail hf
  rw [token_shape]
  have hskip := alt_skip
    [ value Token.lparen (lit (cl!"(")), value Token.rparen (lit (cl!")")), value Token.not (lit (cl!"!")),
      value Token.comma (lit (cl!",")), opAlt Token.or (cl!"-or") (cl!"-o"), opAlt Token.and (cl!"-and") (cl!"-a"),
      map Token.test (parseTest pf), map Token.action (parseAction pf) ]
    (map Token.global parseGlobal)
    [map Token.positional parsePositional, context (expected (cl!"invalid_token")) fail]
    (kw ++ tail) (by
      intro q hq
      simp only [List.mem_cons, List.mem_nil_iff, or_false] at hq
      rcases hq with h | h | h | h | h | h | h | h
      · exact hfront q (by simp [h])
      · exact hfront q (by simp [h])
      · exact hfront q (by simp [h])
      · exact hfront q (by simp [h])
      · exact hfront q (by simp [h])
      · exact hfront q (by simp [h])
      · rw [h]; exact htest
      · rw [h]; exact hact)
  simp only [List.cons_append, List.nil_append] at hskip
  refine ⟨fun g r h => ?_, fun c r h => ?_⟩
  · have h1 : map Token.global parseGlobal (kw ++ tail) = .ok (Token.global g) r := by simp [map, h]
    have h2 := alt_head_ok _ [map Token.positional parsePositional,
      context (expected (cl!"invalid_token")) fail] _ _ _ h1
    simp only [context, hskip]
    rw [h2]
  · have h1 : map Token.global parseGlobal (kw ++ tail) = .err true c r := by simp [map, h]
    have h2 := alt_head_cut _ [map Token.positional parsePositional,
      context (expected (cl!"invalid_token")) fail] _ _ _ h1
    simp only [context, hskip]
    rw [h2]

end FV
