import FindVerif.Model.Precedence
import FindVerif.Spec.Grammar
import FindVerif.Proofs.WinnowRepeat
/- Soundness of the precedence climber with respect to the grammar. -/
namespace FV
open W Spec

theorem primExpr_eq_primOf (t : Token) : primExpr t = primOf t := by
  cases t <;> rfl

theorem sound_foldLevel {sub body : P Token Expr} {S B L : List Token → Expr → Prop}
    {mk : Expr → Expr → Expr} (pf : Profile) (hs : Sound sub S) (hb : Sound body B)
    (hbase : ∀ pre e, S pre e → L pre e)
    (hstep : ∀ pre0 acc pre a, L pre0 acc → B pre a → L (pre0 ++ pre) (mk acc a)) :
    Sound (foldLevel pf sub body mk) L := by
  intro i e r h
  simp only [foldLevel] at h
  split at h
  · rename_i init r1 h1
    obtain ⟨pre1, rfl, hS⟩ := hs i init r1 h1
    obtain ⟨pre2, rfl, hL⟩ := repeatFold_sound pf hb hstep _ _ _ _ _ pre1 h (hbase _ _ hS)
    exact ⟨pre1 ++ pre2, by simp, hL⟩
  · rename_i hne
    exact absurd h (by
      intro h'
      cases hx : sub i with
      | ok a r' => exact hne a r' hx
      | err k c r' => rw [hx] at h'; simp at h'
      | panic s => rw [hx] at h'; simp at h')

/-- What one iteration of the AND loop consumes. -/
def AndStep (pre : List Token) (e : Expr) : Prop :=
  (∃ ts, pre = Token.and :: ts ∧ GAtom ts e) ∨ GAtom pre e

theorem sound_andBody {a : P Token Expr} (ha : Sound a GAtom) : Sound (andBody a) AndStep := by
  unfold andBody
  apply sound_alt
  intro p hp
  simp at hp
  rcases hp with rfl | rfl
  · refine (sound_preceded (sound_oneOf _) (sound_context _ (sound_cutErr ha))).mono ?_
    rintro pre e ⟨p1, p2, t, rfl, ⟨rfl, ht⟩, hg⟩
    simp [tokIs] at ht
    subst ht
    exact Or.inl ⟨p2, rfl, hg⟩
  · exact ha.mono (fun _ _ h => Or.inr h)

theorem sound_andLevel {a : P Token Expr} (pf : Profile) (ha : Sound a GAtom) :
    Sound (andLevel pf a) GAnd := by
  unfold andLevel
  refine sound_foldLevel pf ha (sound_andBody ha) (fun _ _ h => GAnd.atom h) ?_
  rintro pre0 acc pre e hL (⟨ts, rfl, hg⟩ | hg)
  · exact GAnd.andE hL hg
  · exact GAnd.andI hL hg

def OrStep (pre : List Token) (e : Expr) : Prop := ∃ ts, pre = Token.or :: ts ∧ GAnd ts e

theorem sound_orBody {a : P Token Expr} (pf : Profile) (ha : Sound a GAtom) :
    Sound (orBody pf a) OrStep := by
  unfold orBody
  refine (sound_preceded (sound_oneOf _) (sound_context _ (sound_cutErr (sound_andLevel pf ha)))).mono ?_
  rintro pre e ⟨p1, p2, t, rfl, ⟨rfl, ht⟩, hg⟩
  simp [tokIs] at ht
  subst ht
  exact ⟨p2, rfl, hg⟩

theorem sound_orLevel {a : P Token Expr} (pf : Profile) (ha : Sound a GAtom) :
    Sound (orLevel pf a) GOr := by
  unfold orLevel
  refine sound_foldLevel pf (sound_andLevel pf ha) (sound_orBody pf ha) (fun _ _ h => GOr.and h) ?_
  rintro pre0 acc pre e hL ⟨ts, rfl, hg⟩
  exact GOr.or hL hg

def ListStep (pre : List Token) (e : Expr) : Prop := ∃ ts, pre = Token.comma :: ts ∧ GOr ts e

theorem sound_listBody {a : P Token Expr} (pf : Profile) (ha : Sound a GAtom) :
    Sound (listBody pf a) ListStep := by
  unfold listBody
  refine (sound_preceded (sound_oneOf _) (sound_context _ (sound_cutErr (sound_orLevel pf ha)))).mono ?_
  rintro pre e ⟨p1, p2, t, rfl, ⟨rfl, ht⟩, hg⟩
  simp [tokIs] at ht
  subst ht
  exact ⟨p2, rfl, hg⟩

theorem sound_listLevel {a : P Token Expr} (pf : Profile) (ha : Sound a GAtom) :
    Sound (listLevel pf a) GList := by
  unfold listLevel
  refine sound_foldLevel pf (sound_orLevel pf ha) (sound_listBody pf ha) (fun _ _ h => GList.or h) ?_
  rintro pre0 acc pre e hL ⟨ts, rfl, hg⟩
  exact GList.comma hL hg

theorem sound_notP {a : P Token Expr} (ha : Sound a GAtom) : Sound (notP a) GAtom := by
  unfold notP
  refine (sound_map _ (sound_preceded (sound_oneOf _) (sound_context _ (sound_cutErr ha)))).mono ?_
  rintro pre e ⟨e', rfl, p1, p2, t, rfl, ⟨rfl, ht⟩, hg⟩
  simp [tokIs] at ht
  subst ht
  exact GAtom.not hg

theorem sound_parensP {l : P Token Expr} (hl : Sound l GList) : Sound (parensP l) GAtom := by
  unfold parensP delimited
  refine (sound_context _ (sound_preceded (sound_oneOf _)
    (sound_terminated (sound_context _ (sound_cutErr hl))
      (sound_context _ (sound_cutErr (sound_oneOf _)))))).mono ?_
  rintro pre e ⟨p1, p2, t, rfl, ⟨rfl, ht⟩, q1, q2, t2, rfl, hg, ⟨rfl, ht2⟩⟩
  simp [tokIs] at ht ht2
  subst ht ht2
  exact GAtom.paren hg

theorem sound_atom (pf : Profile) : ∀ n, Sound (atom pf n) GAtom := by
  intro n
  induction n with
  | zero => intro i e r h; simp [atom] at h
  | succ n ih =>
    simp only [atom]
    apply sound_alt
    intro p hp
    simp at hp
    rcases hp with rfl | rfl | rfl | rfl
    · refine (sound_mapOrPanic _ _ (sound_oneOf _)).mono ?_
      rintro pre e ⟨t, hpe, rfl, _⟩
      rw [primExpr_eq_primOf] at hpe
      exact GAtom.prim hpe
    · exact sound_notP ih
    · exact sound_parensP (sound_listLevel pf ih)
    · refine (sound_preceded sound_any (sound_context _ (sound_fail (fun _ _ => False)))).mono ?_
      rintro pre e ⟨_, _, _, _, _, hf⟩
      exact hf.elim

theorem sound_list (pf : Profile) (n : Nat) : Sound (list pf n) GList :=
  sound_listLevel pf (sound_atom pf n)

end FV
