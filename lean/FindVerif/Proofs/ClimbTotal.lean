import FindVerif.Proofs.ClimbTop
/- The climber never panics (fuel, loop guards, `unreachable!`, `unwrap`) and does not depend on
   the build profile. -/
namespace FV
open W Spec

variable {ι α β γ : Type}

theorem noPanicOn_pair_consume' {p : P ι α} {q : P ι β} {k} (hp : NoPanicOn k p) (hc : Consumes p)
    (hq : NoPanicOn (k - 1) q) : NoPanicOn k (pair p q) := by
  intro i hi s h
  simp only [pair] at h
  cases h1 : p i with
  | ok a r1 =>
    rw [h1] at h; simp only at h
    cases h2 : q r1 with
    | ok b r2 => rw [h2] at h; simp at h
    | err kk c r' => rw [h2] at h; simp at h
    | panic s' =>
      have := hc i a r1 h1
      exact hq r1 (by omega) s' h2
  | err kk c r' => rw [h1] at h; simp at h
  | panic s' => exact hp i hi s' h1

theorem consumes_oneOf (f : ι → Bool) : Consumes (oneOf f) :=
  (sound_oneOf f).consumes (by rintro _ _ ⟨rfl, _⟩; simp)

theorem noPanicOn_foldLevel {sub body : P Token Expr} {mk} {k} (pf : Profile)
    (hs : NoPanicOn k sub) (hsn : NonInc sub) (hb : NoPanicOn k body) (hbc : Consumes body) :
    NoPanicOn k (foldLevel pf sub body mk) := by
  intro i hi s h
  simp only [foldLevel] at h
  cases h1 : sub i with
  | ok init r =>
    rw [h1] at h; simp only at h
    have := hsn i init r h1
    exact repeatFold_noPanic pf hb hbc _ _ _ (by omega) (by omega) s h
  | err kk c r' => rw [h1] at h; simp at h
  | panic s' => rw [h1] at h; simp at h; subst h; exact hs i hi s' h1

theorem primExpr_isSome {t : Token} (h : isPrimTok t = true) : (primExpr t).isSome := by
  cases t <;> simp [isPrimTok] at h <;> rfl

section levels
variable (pf : Profile) (n : Nat) (k : Nat)

theorem noPanicOn_andBody (h : NoPanicOn k (atom pf n)) : NoPanicOn k (andBody (atom pf n)) := by
  unfold andBody
  apply noPanicOn_alt
  intro p hp
  simp at hp
  rcases hp with rfl | rfl
  · exact noPanicOn_map _ (noPanicOn_pair ((noPanic_oneOf _).on k) (sound_oneOf _).nonInc
      (noPanicOn_context _ (noPanicOn_cutErr h)))
  · exact h

theorem noPanicOn_andLevel (h : NoPanicOn k (atom pf n)) : NoPanicOn k (andLevel pf (atom pf n)) :=
  noPanicOn_foldLevel pf h (sound_atom pf n).nonInc (noPanicOn_andBody pf n k h) (consumes_andBody pf n)

theorem noPanicOn_orBody (h : NoPanicOn k (atom pf n)) : NoPanicOn k (orBody pf (atom pf n)) := by
  unfold orBody
  exact noPanicOn_map _ (noPanicOn_pair ((noPanic_oneOf _).on k) (sound_oneOf _).nonInc
      (noPanicOn_context _ (noPanicOn_cutErr (noPanicOn_andLevel pf n k h))))

theorem noPanicOn_orLevel (h : NoPanicOn k (atom pf n)) : NoPanicOn k (orLevel pf (atom pf n)) :=
  noPanicOn_foldLevel pf (noPanicOn_andLevel pf n k h) (sound_andLevel pf (sound_atom pf n)).nonInc
    (noPanicOn_orBody pf n k h) (consumes_orBody pf n)

theorem noPanicOn_listBody (h : NoPanicOn k (atom pf n)) : NoPanicOn k (listBody pf (atom pf n)) := by
  unfold listBody
  exact noPanicOn_map _ (noPanicOn_pair ((noPanic_oneOf _).on k) (sound_oneOf _).nonInc
      (noPanicOn_context _ (noPanicOn_cutErr (noPanicOn_orLevel pf n k h))))

theorem noPanicOn_listLevel (h : NoPanicOn k (atom pf n)) : NoPanicOn k (listLevel pf (atom pf n)) :=
  noPanicOn_foldLevel pf (noPanicOn_orLevel pf n k h) (sound_orLevel pf (sound_atom pf n)).nonInc
    (noPanicOn_listBody pf n k h) (consumes_listBody pf n)

end levels

/-- With nesting fuel `n + 1`, `atom` does not panic on inputs of length ≤ `n`. -/
theorem noPanicOn_atom (pf : Profile) : ∀ n, NoPanicOn n (atom pf (n + 1)) := by
  intro n
  induction n with
  | zero =>
    intro i hi s h
    have : i = [] := by cases i <;> simp_all
    subst this
    simp [atom, alt, alt2, mapOrPanic, oneOf, notP, parensP, delimited, preceded, pair, W.map, context, any] at h
  | succ n ih =>
    rw [atom_succ]
    apply noPanicOn_alt
    intro p hp
    simp at hp
    rcases hp with rfl | rfl | rfl | rfl
    · exact noPanicOn_mapOrPanic _ _ (sound_oneOf _) ((noPanic_oneOf _).on _)
        (by rintro _ a ⟨_, ha⟩; exact primExpr_isSome ha)
    · unfold notP preceded
      exact noPanicOn_map _ (noPanicOn_map _ (noPanicOn_pair_consume' ((noPanic_oneOf _).on _)
        (consumes_oneOf _) (noPanicOn_context _ (noPanicOn_cutErr ih))))
    · unfold parensP delimited preceded terminated
      refine noPanicOn_context _ (noPanicOn_map _ (noPanicOn_pair_consume' ((noPanic_oneOf _).on _)
        (consumes_oneOf _) (noPanicOn_map _ (noPanicOn_pair ?_ ?_ ?_))))
      · exact noPanicOn_context _ (noPanicOn_cutErr (noPanicOn_listLevel pf _ _ ih))
      · exact (sound_context _ (sound_cutErr (sound_listLevel pf (sound_atom pf _)))).nonInc
      · exact noPanicOn_context _ (noPanicOn_cutErr ((noPanic_oneOf _).on _))
    · unfold preceded
      exact noPanicOn_map _ (noPanicOn_pair (noPanic_any.on _) sound_any.nonInc
        (noPanicOn_context _ (noPanic_fail.on _)))

theorem noPanicOn_list (pf : Profile) (n : Nat) : NoPanicOn n (list pf (n + 1)) :=
  noPanicOn_listLevel pf _ _ (noPanicOn_atom pf n)

theorem Spec.GAnd.ne_nil : ∀ {ts e}, GAnd ts e → ts ≠ []
  | _, _, .atom h => h.ne_nil
  | _, _, .andE _ _ => by simp
  | _, _, .andI h1 _ => by simp [Spec.GAnd.ne_nil h1]

theorem Spec.GOr.ne_nil : ∀ {ts e}, GOr ts e → ts ≠ []
  | _, _, .and h => h.ne_nil
  | _, _, .or _ _ => by simp

theorem Spec.GList.ne_nil : ∀ {ts e}, GList ts e → ts ≠ []
  | _, _, .or h => h.ne_nil
  | _, _, .comma _ _ => by simp

theorem consumes_list (pf : Profile) (n : Nat) : Consumes (list pf n) :=
  (sound_list pf n).consumes (fun _ _ h => h.ne_nil)

end FV

namespace FV
open W Spec

/-- The climber never panics: fuel suffices, loop guards never fire, the `unreachable!` arm and
    the `first().unwrap()` are never reached. -/
theorem climb_noPanic (pf : Profile) (ts : List Token) (s : Text) : climb pf ts ≠ .panic s := by
  intro h
  simp only [climb, climbWith, mapOrPanic, context, repeatTill1] at h
  cases hl : list pf (ts.length + 1) ts with
  | panic s' => exact noPanicOn_list pf ts.length ts (Nat.le_refl _) s' hl
  | err k c r => simp [hl] at h
  | ok a r1 =>
    simp only [hl] at h
    have hlen := (sound_list pf _).nonInc ts a r1 hl
    cases hloop : repeatTillLoop pf (list pf (ts.length + 1)) eof (r1.length + 1) [a] r1 with
    | panic s' =>
      exact repeatTillLoop_noPanic pf (noPanicOn_list pf ts.length) (noPanic_eof.on _)
        (consumes_list pf _) _ _ r1 hlen (by omega) s' hloop
    | err k c r => simp [hloop] at h
    | ok xb r =>
      obtain ⟨xs, b⟩ := xb
      obtain ⟨ys, rfl⟩ := repeatTillLoop_acc pf _ _ _ _ _ _ hloop
      simp [hloop] at h

theorem foldLevel_profile {sub sub' body body' : P Token Expr} {mk}
    (hs : ∀ j, sub j = sub' j) (hb : ∀ j, body j = body' j) (hc : Consumes body) (i : List Token) :
    foldLevel .debug sub body mk i = foldLevel .release sub' body' mk i := by
  simp only [foldLevel, ← hs i]
  cases sub i with
  | ok init r => exact repeatFold_stable .debug .release hb hc _ _ _ _ (by omega) (by omega)
  | err k c r => rfl
  | panic s => rfl

theorem atom_profile : ∀ n, atom .debug n = atom .release n := by
  intro n
  induction n with
  | zero => rfl
  | succ n ih =>
    have hand : andLevel .debug (atom .debug n) = andLevel .release (atom .release n) := by
      funext i
      exact foldLevel_profile (fun j => by rw [ih]) (fun j => by rw [ih]) (consumes_andBody _ _) i
    have hor : orLevel .debug (atom .debug n) = orLevel .release (atom .release n) := by
      funext i
      refine foldLevel_profile (fun j => by rw [hand]) (fun j => ?_) (consumes_orBody _ _) i
      simp only [orBody, hand]
    have hlist : listLevel .debug (atom .debug n) = listLevel .release (atom .release n) := by
      funext i
      refine foldLevel_profile (fun j => by rw [hor]) (fun j => ?_) (consumes_listBody _ _) i
      simp only [listBody, hor]
    rw [atom_succ, atom_succ, hlist, ih]

/-- Debug and release builds of the climber agree on every token sequence. -/
theorem climb_profile (ts : List Token) : climb .debug ts = climb .release ts := by
  have hlist : list .debug (ts.length + 1) = list .release (ts.length + 1) := by
    funext i
    simp only [list]
    have ha := atom_profile (ts.length + 1)
    have hand : andLevel .debug (atom .debug (ts.length + 1)) = andLevel .release (atom .release (ts.length + 1)) := by
      funext i
      exact foldLevel_profile (fun j => by rw [ha]) (fun j => by rw [ha]) (consumes_andBody _ _) i
    have hor : orLevel .debug (atom .debug (ts.length + 1)) = orLevel .release (atom .release (ts.length + 1)) := by
      funext i
      refine foldLevel_profile (fun j => by rw [hand]) (fun j => ?_) (consumes_orBody _ _) i
      simp only [orBody, hand]
    refine foldLevel_profile (fun j => by rw [hor]) (fun j => ?_) (consumes_listBody _ _) i
    simp only [listBody, hor]
  simp only [climb, climbWith, mapOrPanic, context, repeatTill1, ← hlist]
  cases hl : list .debug (ts.length + 1) ts with
  | panic s => rfl
  | err k c r => rfl
  | ok a r1 =>
    simp only
    rw [repeatTillLoop_stable .debug .release (fun _ => rfl) (consumes_list _ _) _ _ _ _
      (Nat.lt_succ_self _) (Nat.lt_succ_self _)]

end FV
