import FindVerif.Model.Lex.Format
import FindVerif.Spec.Printf
import FindVerif.Proofs.LexGood
/- Element level of the format-string proof: `parseElement` against `Spec.Printf.directive/escape`. -/
namespace FV
open W Spec.Printf

theorem fieldTable_eq : fieldTable = directives := by decide

/-- An `alt` over a keyword table of `value v (lit k)` followed by further alternatives. -/
theorem alt_table {β : Type} (tbl : List (Text × β)) (tail : List (P Char β)) (htail : tail ≠ []) (i : Text) :
    alt ((tbl.map fun kv => value kv.2 (lit kv.1)) ++ tail) i =
      match tbl.find? (fun kv => isPrefix kv.1 i) with
      | some kv => .ok kv.2 (i.drop kv.1.length)
      | none => alt tail i := by
  induction tbl with
  | nil => simp
  | cons kv tbl ih =>
    have hne : (tbl.map fun kv => value kv.2 (lit kv.1)) ++ tail ≠ [] := by
      intro h; simp at h; exact htail h.2
    obtain ⟨q, qs, hq⟩ : ∃ q qs, (tbl.map fun kv => value kv.2 (lit kv.1)) ++ tail = q :: qs := by
      cases hx : (tbl.map fun kv => value kv.2 (lit kv.1)) ++ tail with
      | nil => exact absurd hx hne
      | cons q qs => exact ⟨q, qs, rfl⟩
    simp only [List.map_cons, List.cons_append, hq, alt, List.find?_cons]
    rw [← hq]
    by_cases hp : isPrefix kv.1 i = true
    · simp [alt2, value, map, lit, hp]
    · have hp' : isPrefix kv.1 i = false := by simpa using hp
      simp only [alt2, value, map, lit, hp', Bool.false_eq_true, if_false]
      exact ih

/-- Shape of the outcome of reading one element at the head of the input. -/
inductive Head where
  | elem (el : FormatElement) (rest : Text)   -- a `%` directive or a `\` escape
  | bad                                        -- `%` not followed by a documented directive
  | plain                                      -- an ordinary character, or the end of input

/-- The spec's reading of the head of the input. -/
def specHead (i : Text) : Head :=
  match i with
  | '%' :: cs => match directive cs with
    | some (f, r) => .elem (.field f) r
    | none => .bad
  | '\\' :: cs => let x := escape cs; .elem (.special x.1) x.2
  | _ => .plain

theorem xattr_model (s : Text) :
    delimited (lit (cl!"{xattr:")) alpha1 (lit (cl!"}")) s =
      if isPrefix (cl!"{xattr:") s then
        (let body := s.drop 7
         let name := body.takeWhile isAlpha
         match body.dropWhile isAlpha with
         | '}' :: r => if name.isEmpty then .err false [] body else .ok name r
         | rest => if name.isEmpty then .err false [] body else .err false [] rest)
      else .err false [] s := by
  by_cases hp : isPrefix (cl!"{xattr:") s = true
  · simp only [hp, if_true]
    simp only [delimited, preceded, terminated, pair, map, lit, hp, if_true, alpha1, takeWhile]
    have hlen : (cl!"{xattr:").length = 7 := rfl
    simp only [hlen]
    by_cases hn : (List.takeWhile isAlpha (List.drop 7 s)).isEmpty = true
    · have : ¬ (1 ≤ (List.takeWhile isAlpha (List.drop 7 s)).length) := by
        simp at hn; simp [hn]
      simp only [this, if_false, hn, if_true]
      split <;> rfl
    · have h1 : 1 ≤ (List.takeWhile isAlpha (List.drop 7 s)).length := by
        cases hx : List.takeWhile isAlpha (List.drop 7 s) with
        | nil => simp [hx] at hn
        | cons _ _ => simp
      have hn' : (List.takeWhile isAlpha (List.drop 7 s)).isEmpty = false := by simpa using hn
      simp only [h1, if_true, hn', Bool.false_eq_true, if_false]
      cases hd : List.dropWhile isAlpha (List.drop 7 s) with
      | nil => simp [isPrefix]
      | cons c r =>
        by_cases hc : c = '}'
        · subst hc; simp [isPrefix]
        · simp [isPrefix, hc]
          have : ('}' = c) = False := by simp; exact fun h => hc h.symm
          simp [this]
  · have hp' : isPrefix (cl!"{xattr:") s = false := by simpa using hp
    simp [delimited, preceded, terminated, pair, map, lit, hp']

end FV

namespace FV
open W Spec.Printf

/-- The non-table tail of `FormatField::parse`'s alternatives. -/
def fieldTail : List (P Char FormatField) :=
  [ map FormatField.accessFormatted (preceded (lit (cl!"A")) any),
    map FormatField.changeFormatted (preceded (lit (cl!"C")) any),
    map FormatField.modifyFormatted (preceded (lit (cl!"T")) any),
    map FormatField.xattr (delimited (lit (cl!"{xattr:")) alpha1 (lit (cl!"}"))),
    cutErr (context (expected (cl!"invalid_format_specifier")) fail) ]

/-- Result class of a parse: `some (a, r)` for success, `none` for any error. -/
def Res.toOpt {ι α} : Res ι α → Option (α × List ι)
  | .ok a r => some (a, r)
  | _ => none

def Res.isCut {ι α} : Res ι α → Bool
  | .err true _ _ => true
  | _ => false

/-- The spec's reading of the formatted-time and xattr directives (after the table failed). -/
def directiveTail (s : Text) : Option (FormatField × Text) :=
  match s with
  | 'A' :: k :: r => some (.accessFormatted k, r)
  | 'C' :: k :: r => some (.changeFormatted k, r)
  | 'T' :: k :: r => some (.modifyFormatted k, r)
  | _ =>
    if isPrefix (cl!"{xattr:") s then
      let body := s.drop 7
      let name := body.takeWhile isAlpha
      match body.dropWhile isAlpha with
      | '}' :: r => if name.isEmpty then none else some (.xattr name, r)
      | _ => none
    else none

theorem directive_eq (s : Text) : directive s =
    match directives.find? (fun kv => isPrefix kv.1 s) with
    | some kv => some (kv.2, s.drop kv.1.length)
    | none => directiveTail s := by
  unfold directive directiveTail
  cases h : directives.find? (fun kv => isPrefix kv.1 s) with
  | some kv => rfl
  | none => rfl

theorem fieldTail_spec (s : Text) :
    (alt fieldTail s).toOpt = directiveTail s ∧ ((alt fieldTail s).toOpt = none → (alt fieldTail s).isCut = true) := by
  have hx := xattr_model s
  simp only [fieldTail, alt, alt2]
  cases s with
  | nil =>
    simp [map, preceded, pair, lit, isPrefix, any, cutErr, context, fail, hx, directiveTail, Res.toOpt, Res.isCut]
  | cons c r =>
    by_cases hA : c = 'A'
    · subst hA
      cases r with
      | nil => simp [map, preceded, pair, lit, isPrefix, any, cutErr, context, fail, hx, directiveTail, Res.toOpt, Res.isCut]
      | cons k r' => simp [map, preceded, pair, lit, isPrefix, any, directiveTail, Res.toOpt, Res.isCut]
    · by_cases hC : c = 'C'
      · subst hC
        cases r with
        | nil => simp [map, preceded, pair, lit, isPrefix, any, cutErr, context, fail, hx, directiveTail, Res.toOpt, Res.isCut]
        | cons k r' => simp [map, preceded, pair, lit, isPrefix, any, directiveTail, Res.toOpt, Res.isCut]
      · by_cases hT : c = 'T'
        · subst hT
          cases r with
          | nil => simp [map, preceded, pair, lit, isPrefix, any, cutErr, context, fail, hx, directiveTail, Res.toOpt, Res.isCut]
          | cons k r' => simp [map, preceded, pair, lit, isPrefix, any, directiveTail, Res.toOpt, Res.isCut]
        · have h1 : ('A' = c) = False := by simp; exact fun h => hA h.symm
          have h2 : ('C' = c) = False := by simp; exact fun h => hC h.symm
          have h3 : ('T' = c) = False := by simp; exact fun h => hT h.symm
          have hdt : directiveTail (c :: r) =
              (if isPrefix (cl!"{xattr:") (c :: r) then
                (match ((c :: r).drop 7).dropWhile isAlpha with
                 | '}' :: r' => if (((c :: r).drop 7).takeWhile isAlpha).isEmpty then none
                                else some (.xattr (((c :: r).drop 7).takeWhile isAlpha), r')
                 | _ => none)
              else none) := by
            unfold directiveTail
            split
            · rename_i heq; simp at heq; exact absurd heq.1 hA
            · rename_i heq; simp at heq; exact absurd heq.1 hC
            · rename_i heq; simp at heq; exact absurd heq.1 hT
            · rfl
          rw [hdt]
          simp only [map]
          rw [hx]
          generalize List.drop 7 (c :: r) = body
          generalize isPrefix (cl!"{xattr:") (c :: r) = pb
          simp only [preceded, pair, map, lit, isPrefix, h1, h2, h3, Bool.false_and, Bool.and_false, decide_false, if_false,
            Bool.false_eq_true]
          cases pb with
          | true =>
            simp only [if_true]
            cases hd : List.dropWhile isAlpha body with
            | nil =>
              by_cases hn : (List.takeWhile isAlpha body).isEmpty = true <;>
                simp [hn, cutErr, context, fail, Res.toOpt, Res.isCut]
            | cons d r' =>
              by_cases hb : d = '}'
              · subst hb
                by_cases hn : (List.takeWhile isAlpha body).isEmpty = true <;>
                  simp [hn, cutErr, context, fail, Res.toOpt, Res.isCut]
              · by_cases hn : (List.takeWhile isAlpha body).isEmpty = true <;>
                  simp [hn, hb, cutErr, context, fail, Res.toOpt, Res.isCut]
          | false =>
            simp [cutErr, context, fail, Res.toOpt, Res.isCut]

end FV

namespace FV
open W Spec.Printf

theorem parseField_unfold (cs : Text) :
    parseField ('%' :: cs) =
      match (alt ((fieldTable.map fun kv => value kv.2 (lit kv.1)) ++ fieldTail) cs) with
      | .ok b r => .ok b r
      | .err k c r => .err k c r
      | .panic s => .panic s := by
  simp only [parseField, fieldTail, preceded, pair, map, lit, isPrefix, List.length_cons, List.length_nil, List.drop]
  simp
  cases alt ((fieldTable.map fun kv => value kv.2 (lit kv.1)) ++
    [ map FormatField.accessFormatted (map Prod.snd (pair (lit (cl!"A")) any)),
      map FormatField.changeFormatted (map Prod.snd (pair (lit (cl!"C")) any)),
      map FormatField.modifyFormatted (map Prod.snd (pair (lit (cl!"T")) any)),
      map FormatField.xattr (delimited (lit (cl!"{xattr:")) alpha1 (lit (cl!"}"))),
      cutErr (context (expected (cl!"invalid_format_specifier")) fail) ]) cs <;> rfl

/-- `FormatField::parse` on `%…` agrees with the spec's directive reader; a `%` that starts no
    documented directive is a hard (cut) error. -/
theorem parseField_spec (cs : Text) :
    (parseField ('%' :: cs)).toOpt = directive cs ∧
    ((parseField ('%' :: cs)).toOpt = none → (parseField ('%' :: cs)).isCut = true) := by
  rw [parseField_unfold, directive_eq, ← fieldTable_eq, alt_table fieldTable fieldTail (by simp [fieldTail]) cs]
  cases hf : fieldTable.find? (fun kv => isPrefix kv.1 cs) with
  | some kv => simp [Res.toOpt]
  | none =>
    have := fieldTail_spec cs
    simp only
    cases ha : alt fieldTail cs with
    | ok b r => rw [ha] at this; simpa [Res.toOpt] using this
    | err k c r => rw [ha] at this; simpa [Res.toOpt, Res.isCut] using this
    | panic s => rw [ha] at this; simpa [Res.toOpt, Res.isCut] using this

theorem parseField_other (i : Text) (h : ∀ cs, i ≠ '%' :: cs) : ∃ c r, parseField i = .err false c r := by
  cases i with
  | nil => simp [parseField, preceded, pair, map, lit, isPrefix]
  | cons d r =>
    have hd : d ≠ '%' := fun hh => h r (by rw [hh])
    have : ('%' = d) = False := by simp; exact fun hh => hd hh.symm
    simp [parseField, preceded, pair, map, lit, isPrefix, this]

theorem escapes_find (a : Char) : escapes.find? (fun kv => kv.1 = a) =
    if a = 'a' then some ('a', .alarm) else if a = 'b' then some ('b', .backspace) else if a = 'c' then some ('c', .clear)
    else if a = 'f' then some ('f', .form) else if a = 'n' then some ('n', .newline) else if a = 'r' then some ('r', .carriageReturn)
    else if a = 't' then some ('t', .tabHorizontal) else if a = 'v' then some ('v', .tabVertical) else if a = '0' then some ('0', .null)
    else if a = '\\' then some ('\\', .backslash) else none := by
  simp only [escapes, List.find?_cons, List.find?_nil]
  by_cases h1 : a = 'a'
  · subst h1; rfl
  by_cases h2 : a = 'b'
  · subst h2; rfl
  by_cases h3 : a = 'c'
  · subst h3; rfl
  by_cases h4 : a = 'f'
  · subst h4; rfl
  by_cases h5 : a = 'n'
  · subst h5; rfl
  by_cases h6 : a = 'r'
  · subst h6; rfl
  by_cases h7 : a = 't'
  · subst h7; rfl
  by_cases h8 : a = 'v'
  · subst h8; rfl
  by_cases h9 : a = '0'
  · subst h9; rfl
  by_cases h10 : a = '\\'
  · subst h10; rfl
  have e : ∀ x : Char, a ≠ x → (decide (x = a)) = false := fun x hx => by simp; exact fun hh => hx hh.symm
  simp [h1, h2, h3, h4, h5, h6, h7, h8, h9, h10, e]

end FV

namespace FV
open W Spec.Printf

/-- The single-character escapes of the model's table (after the octal alternative). -/
def specialTail : List (P Char FormatSpecial) :=
  [ value .null (lit (cl!"0")), value .backslash (lit (cl!"\\")), value .alarm (lit (cl!"a")),
    value .backspace (lit (cl!"b")), value .clear (lit (cl!"c")), value .form (lit (cl!"f")),
    value .newline (lit (cl!"n")), value .carriageReturn (lit (cl!"r")), value .tabHorizontal (lit (cl!"t")),
    value .tabVertical (lit (cl!"v")) ]

theorem specialTail_nil : alt specialTail [] = .err false [] [] := by
  simp [specialTail, alt, alt2, value, map, lit, isPrefix]

theorem specialTail_cons (a : Char) (r : Text) :
    alt specialTail (a :: r) =
      match escapes.find? (fun kv => kv.1 = a) with
      | some kv => .ok kv.2 r
      | none => .err false [] (a :: r) := by
  rw [escapes_find]
  simp only [specialTail, alt, alt2, value, map, lit, isPrefix, List.length_cons, List.length_nil, List.drop]
  by_cases h9 : a = '0'
  · subst h9; simp
  by_cases h10 : a = '\\'
  · subst h10; simp
  by_cases h1 : a = 'a'
  · subst h1; simp
  by_cases h2 : a = 'b'
  · subst h2; simp
  by_cases h3 : a = 'c'
  · subst h3; simp
  by_cases h4 : a = 'f'
  · subst h4; simp
  by_cases h5 : a = 'n'
  · subst h5; simp
  by_cases h6 : a = 'r'
  · subst h6; simp
  by_cases h7 : a = 't'
  · subst h7; simp
  by_cases h8 : a = 'v'
  · subst h8; simp
  have e : ∀ x : Char, a ≠ x → (decide (x = a)) = false := fun x hx => by simp; exact fun hh => hx hh.symm
  simp [h1, h2, h3, h4, h5, h6, h7, h8, h9, h10, e]

/-- Exactly three octal digits at the head. -/
def threeOct (cs : Text) : Bool :=
  match cs with
  | a :: b :: c :: _ => isOct a && isOct b && isOct c
  | _ => false

theorem octal3_model (cs : Text) :
    takeWhileMN 3 3 isOct cs = if threeOct cs then .ok (cs.take 3) (cs.drop 3) else .err false [] cs := by
  simp only [takeWhileMN]
  match cs with
  | [] => simp [threeOct]
  | [a] => by_cases ha : isOct a = true <;> simp [threeOct, List.takeWhile_cons, ha]
  | [a, b] =>
    by_cases ha : isOct a = true <;> by_cases hb : isOct b = true <;> simp [threeOct, List.takeWhile_cons, ha, hb]
  | a :: b :: c :: r =>
    by_cases ha : isOct a = true <;> by_cases hb : isOct b = true <;> by_cases hc : isOct c = true <;>
      simp [threeOct, List.takeWhile_cons, ha, hb, hc]

theorem octalEscape_three (ds : Text) (h : ds.length = 3) (ho : ∀ c ∈ ds, isOct c = true) :
    octalEscape ds = some (.ascii (octVal ds)) := by
  have := octVal_lt ds ho
  rw [h] at this
  have : octVal ds < 65536 := by omega
  simp [octalEscape, this]

/-- The octal alternative of `FormatSpecial::parse`. -/
def octP : P Char FormatSpecial := mapOrPanic (cl!"format.rs:unwrap") octalEscape (takeWhileMN 3 3 isOct)

theorem parseSpecial_shape : parseSpecial =
    alt2 (preceded (lit (cl!"\\")) (alt2 octP (alt specialTail))) (value .backslash (lit (cl!"\\"))) := rfl

theorem octP_spec (cs : Text) :
    octP cs = if threeOct cs then .ok (.ascii (octVal (cs.take 3))) (cs.drop 3) else .err false [] cs := by
  simp only [octP, mapOrPanic, octal3_model]
  by_cases h3 : threeOct cs = true
  · obtain ⟨a, b, c, r, rfl⟩ : ∃ a b c r, cs = a :: b :: c :: r := by
      match cs, h3 with
      | a :: b :: c :: r, _ => exact ⟨a, b, c, r, rfl⟩
    have ho : isOct a = true ∧ isOct b = true ∧ isOct c = true := by simpa [threeOct, Bool.and_eq_true, and_assoc] using h3
    have hoe := octalEscape_three [a, b, c] rfl (by intro x hx; simp at hx; rcases hx with rfl | rfl | rfl <;> simp [ho])
    simp [h3, hoe]
  · have h3' : threeOct cs = false := by simpa using h3
    simp [h3']

/-- `FormatSpecial::parse` on `\…` always succeeds and agrees with the spec's escape reader. -/
theorem parseSpecial_spec (cs : Text) : parseSpecial ('\\' :: cs) = .ok (escape cs).1 (escape cs).2 := by
  rw [parseSpecial_shape]
  simp only [alt2, preceded, pair, map, lit, isPrefix, value, List.length_cons, List.length_nil, List.drop,
    decide_true, Bool.and_true, Bool.true_and, if_true]
  rw [octP_spec]
  by_cases h3 : threeOct cs = true
  · obtain ⟨a, b, c, r, rfl⟩ : ∃ a b c r, cs = a :: b :: c :: r := by
      match cs, h3 with
      | a :: b :: c :: r, _ => exact ⟨a, b, c, r, rfl⟩
    have ho : (isOct a && isOct b && isOct c) = true := by simpa [threeOct] using h3
    simp [h3, escape, ho]
  · have h3' : threeOct cs = false := by simpa using h3
    simp only [h3', Bool.false_eq_true, if_false]
    cases cs with
    | nil => simp [specialTail_nil, escape]
    | cons a r =>
      rw [specialTail_cons]
      have hesc : escape (a :: r) =
          match escapes.find? (fun kv => kv.1 = a) with
          | some kv => (kv.2, r)
          | none => (.backslash, a :: r) := by
        match r with
        | [] => simp [escape]; cases escapes.find? (fun kv => kv.1 = a) <;> rfl
        | [b] => simp [escape]; cases escapes.find? (fun kv => kv.1 = a) <;> rfl
        | b :: c :: r3 =>
          have : (isOct a && isOct b && isOct c) = false := by simpa [threeOct] using h3'
          simp [escape, this]
          cases escapes.find? (fun kv => kv.1 = a) <;> rfl
      rw [hesc]
      cases escapes.find? (fun kv => kv.1 = a) with
      | some kv => simp
      | none => simp

theorem parseSpecial_other (i : Text) (h : ∀ cs, i ≠ '\\' :: cs) : ∃ c r, parseSpecial i = .err false c r := by
  cases i with
  | nil => simp [parseSpecial, alt, alt2, preceded, pair, map, lit, isPrefix, value]
  | cons d r =>
    have hd : d ≠ '\\' := fun hh => h r (by rw [hh])
    have : ('\\' = d) = False := by simp; exact fun hh => hd hh.symm
    simp [parseSpecial, alt, alt2, preceded, pair, map, lit, isPrefix, value, this]

end FV
