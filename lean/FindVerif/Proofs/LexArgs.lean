import FindVerif.Proofs.LexToken
/- Argument readers: the word/quote reader on bare, single- and double-quoted spellings. -/
namespace FV
open W

/-- What may follow a bare word: end of input, a blank, or `)`. -/
def WordStop (rest : Text) : Prop := rest = [] ∨ ∃ c r, rest = c :: r ∧ isWordChar c = false

theorem takeWhile_split (p : Char → Bool) (w rest : Text) (hw : ∀ c ∈ w, p c = true)
    (hs : rest = [] ∨ ∃ c r, rest = c :: r ∧ p c = false) :
    (w ++ rest).takeWhile p = w ∧ (w ++ rest).dropWhile p = rest := by
  rcases hs with rfl | ⟨c, r, rfl, hc⟩
  · have := blank_split.takeWhile_all' p w hw
    simpa using this
  · exact ⟨blank_split.takeWhile_append_of_all' p w c r hw hc, blank_split.dropWhile_append_of_all' p w c r hw hc⟩

/-- A bare word (no blank, no `)`, not starting with a quote) is read as itself. -/
theorem quoteDelimiter_bare (w rest : Text) (hne : w ≠ []) (hw : ∀ c ∈ w, isWordChar c = true)
    (hq : ∀ c r, w = c :: r → c ≠ '"' ∧ c ≠ '\'') (hs : WordStop rest) :
    quoteDelimiter (w ++ rest) = .ok w rest := by
  obtain ⟨c, r, rfl⟩ : ∃ c r, w = c :: r := by cases w with | nil => exact absurd rfl hne | cons c r => exact ⟨c, r, rfl⟩
  obtain ⟨h1, h2⟩ := hq c r rfl
  have hsplit := takeWhile_split isWordChar (c :: r) rest hw hs
  have e1 : ('"' = c) = False := by simp; exact fun h => h1 h.symm
  have e2 : ('\'' = c) = False := by simp; exact fun h => h2 h.symm
  simp only [quoteDelimiter, alt, alt2, delimited, preceded, terminated, pair, map, lit, isPrefix, List.cons_append, e1, e2,
    decide_false, Bool.false_and, Bool.false_eq_true, if_false, takeWhile]
  simp only [List.cons_append] at hsplit
  simp [hsplit.1, hsplit.2]

theorem takeUntil1_quoted (d : Char) (s rest : Text) (hne : s ≠ []) (hs : ∀ c ∈ s, c ≠ d) :
    takeUntil1 d (s ++ d :: rest) = .ok s (d :: rest) := by
  have h := takeWhile_split (· ≠ d) s (d :: rest) (fun c hc => decide_eq_true (hs c hc)) (Or.inr ⟨d, rest, rfl, by simp⟩)
  simp only [takeUntil1, h.1, h.2]
  cases s with
  | nil => exact absurd rfl hne
  | cons _ _ => simp

/-- A double-quoted value (non-empty, free of `"`) is read as the value. -/
theorem quoteDelimiter_dq (s rest : Text) (hne : s ≠ []) (hs : ∀ c ∈ s, c ≠ '"') :
    quoteDelimiter ('"' :: (s ++ '"' :: rest)) = .ok s rest := by
  have := takeUntil1_quoted '"' s rest hne hs
  simp [quoteDelimiter, alt, alt2, delimited, preceded, terminated, pair, map, lit, isPrefix, this]

/-- A single-quoted value (non-empty, free of `'`) is read as the value. -/
theorem quoteDelimiter_sq (s rest : Text) (hne : s ≠ []) (hs : ∀ c ∈ s, c ≠ '\'') :
    quoteDelimiter ('\'' :: (s ++ '\'' :: rest)) = .ok s rest := by
  have := takeUntil1_quoted '\'' s rest hne hs
  simp [quoteDelimiter, alt, alt2, delimited, preceded, terminated, pair, map, lit, isPrefix, this]

theorem parseString_of {i v r} (h : quoteDelimiter i = .ok v r) : parseString i = .ok v r := by
  simp [parseString, context, h]

end FV
