import FindVerif.Proofs.LexEval
/- Facts about the keyword tables: every alternative starts with its keyword; no earlier keyword
   shadows a later one; keyword characters never look like what may follow a primary. -/
namespace FV
open W

/-- The alternative backtracks whenever the input does not start with its keyword. -/
def KwAlt {α : Type} (kw : Text) (p : P Char α) : Prop := ∀ i, isPrefix kw i = false → Bt p i

theorem kw_unary {α β : Type} (kw : Text) (tr : α → β) (p : P Char α) : KwAlt kw (unary kw tr p) :=
  fun i h => unary_bt _ _ _ i h
theorem kw_binary {α β γ : Type} (kw : Text) (tr : α × β → γ) (l : P Char α) (r : P Char β) (a : Text) :
    KwAlt kw (binary kw tr l r a) := fun i h => binary_bt _ _ _ _ _ i h
theorem kw_nullA (kw : Text) (a : Action) : KwAlt kw (value a (terminated (lit kw) multispace0)) :=
  fun i h => nullaryAction_bt _ _ i h
theorem kw_nullT (kw : Text) (t : Test) : KwAlt kw (value t (lit kw)) := fun i h => nullaryTest_bt _ _ i h

theorem testAlts_kwAlt (pf : Profile) : ∀ kp ∈ testAlts pf, KwAlt kp.1 kp.2 := by
  intro kp hkp
  unfold testAlts at hkp
  simp only [List.mem_cons, List.mem_nil_iff, or_false] at hkp
  rcases hkp with rfl | rfl | rfl | rfl | rfl | rfl | rfl | rfl | rfl | rfl | rfl | rfl | rfl | rfl | rfl | rfl | rfl | rfl | rfl | rfl
    | rfl | rfl | rfl | rfl | rfl | rfl | rfl | rfl | rfl | rfl | rfl | rfl | rfl | rfl | rfl | rfl | rfl | rfl | rfl | rfl
  · exact kw_unary _ _ _
  · exact kw_unary _ _ _
  · exact kw_unary _ _ _
  · exact kw_unary _ _ _
  · exact kw_unary _ _ _
  · exact kw_unary _ _ _
  · exact kw_nullT _ _
  · exact kw_nullT _ _
  · exact kw_nullT _ _
  · exact kw_unary _ _ _
  · exact kw_unary _ _ _
  · exact kw_unary _ _ _
  · exact kw_unary _ _ _
  · exact kw_unary _ _ _
  · exact kw_unary _ _ _
  · exact kw_unary _ _ _
  · exact kw_unary _ _ _
  · exact kw_unary _ _ _
  · exact kw_unary _ _ _
  · exact kw_unary _ _ _
  · exact kw_unary _ _ _
  · exact kw_unary _ _ _
  · exact kw_unary _ _ _
  · exact kw_nullT _ _
  · exact kw_nullT _ _
  · exact kw_unary _ _ _
  · exact kw_unary _ _ _
  · exact kw_unary _ _ _
  · exact kw_nullT _ _
  · exact kw_unary _ _ _
  · exact kw_unary _ _ _
  · exact kw_unary _ _ _
  · exact kw_unary _ _ _
  · exact kw_nullT _ _
  · exact kw_unary _ _ _
  · exact kw_unary _ _ _
  · exact kw_unary _ _ _
  · exact kw_binary _ _ _ _ _
  · exact kw_unary _ _ _
  · exact kw_nullT _ _

theorem actionAlts_kwAlt (pf : Profile) : ∀ kp ∈ actionAlts pf, KwAlt kp.1 kp.2 := by
  intro kp hkp
  unfold actionAlts at hkp
  simp only [List.mem_cons, List.mem_nil_iff, or_false] at hkp
  rcases hkp with rfl | rfl | rfl | rfl | rfl | rfl | rfl | rfl | rfl | rfl | rfl
  · exact kw_unary _ _ _
  · exact kw_binary _ _ _ _ _
  · exact kw_unary _ _ _
  · exact kw_unary _ _ _
  · exact kw_nullA _ _
  · exact kw_nullA _ _
  · exact kw_unary _ _ _
  · exact kw_nullA _ _
  · exact kw_nullA _ _
  · exact kw_nullA _ _
  · exact kw_nullA _ _

/-- Keyword lists, in source order (profile-independent). -/
def testKws : List Text := [cl!"-amin", cl!"-anewer", cl!"-atime", cl!"-cmin", cl!"-cnewer", cl!"-ctime", cl!"-empty", cl!"-executable", cl!"-false", cl!"-fstype", cl!"-gid", cl!"-group", cl!"-ilname", cl!"-iname", cl!"-inum", cl!"-ipath", cl!"-iregex", cl!"-links", cl!"-mirror-count", cl!"-mmin", cl!"-mnewer", cl!"-mtime", cl!"-name", cl!"-nouser", cl!"-nogroup", cl!"-path", cl!"-perm", cl!"-pool", cl!"-readable", cl!"-regex", cl!"-samefile", cl!"-size", cl!"-stripe-count", cl!"-true", cl!"-type", cl!"-uid", cl!"-user", cl!"-xattr-match", cl!"-xattr", cl!"-writable"]
def actionKws : List Text := [cl!"-fls", cl!"-fprintf", cl!"-fprint0", cl!"-fprint", cl!"-ls", cl!"-print-file-fid", cl!"-printf", cl!"-print0", cl!"-print", cl!"-prune", cl!"-quit"]

theorem testKws_eq (pf : Profile) : (testAlts pf).map Prod.fst = testKws := by cases pf <;> rfl
theorem actionKws_eq (pf : Profile) : (actionAlts pf).map Prod.fst = actionKws := by cases pf <;> rfl

/-- No earlier keyword is a prefix of a later one (an earlier alternative would shadow it with a
    hard error). -/
def orderSafe : List Text → Bool
  | [] => true
  | k :: ks => ks.all (fun later => !isPrefix k later) && orderSafe ks

theorem testKws_orderSafe : orderSafe testKws = true := by decide
theorem actionKws_orderSafe : orderSafe actionKws = true := by decide

theorem orderSafe_split : ∀ (kws pre : List Text) (kw : Text) (post : List Text),
    orderSafe kws = true → kws = pre ++ kw :: post → ∀ k ∈ pre, isPrefix k kw = false := by
  intro kws pre
  induction pre generalizing kws with
  | nil => intro kw post _ _ k hk; simp at hk
  | cons p pre ih =>
    intro kw post hs hsplit k hk
    subst hsplit
    simp only [List.cons_append, orderSafe, Bool.and_eq_true, List.all_eq_true] at hs
    simp at hk
    rcases hk with rfl | hk
    · have := hs.1 kw (by simp)
      simpa using this
    · exact ih (pre ++ kw :: post) kw post hs.2 rfl k hk

/-- Characters that may directly follow a primary: blanks, parentheses, comma, bang. -/
def isFollow (c : Char) : Bool := isBlank c || c = '(' || c = ')' || c = ',' || c = '!'

/-- What follows a primary: the end of input or a follow character. -/
def Follows (tail : Text) : Prop := tail = [] ∨ ∃ c r, tail = c :: r ∧ isFollow c = true

def kwCharsOk (kws : List Text) : Bool := kws.all fun kw => kw.all fun c => !isFollow c

theorem testKws_chars : kwCharsOk testKws = true := by decide
theorem actionKws_chars : kwCharsOk actionKws = true := by decide

theorem isPrefix_kw_tail : ∀ (k kw tail : Text), isPrefix k kw = false → (∀ c ∈ k, isFollow c = false) → Follows tail →
    isPrefix k (kw ++ tail) = false := by
  intro k
  induction k with
  | nil => intro kw tail h; simp [isPrefix] at h
  | cons a k ih =>
    intro kw tail h hc hf
    cases kw with
    | nil =>
      rcases hf with rfl | ⟨c, r, rfl, hfc⟩
      · rfl
      · have ha := hc a (by simp)
        have : a ≠ c := by intro he; subst he; rw [ha] at hfc; cases hfc
        simp [isPrefix, this]
    | cons b kw =>
      simp only [isPrefix, List.cons_append] at h ⊢
      by_cases hab : a = b
      · subst hab
        simp only [decide_true, Bool.true_and] at h ⊢
        exact ih kw tail h (fun c hc' => hc c (by simp [hc'])) hf
      · simp [hab]

/-- In a keyword table, on an input `kw ++ tail` (tail = what may follow a primary) every
    alternative before `kw`'s backtracks, so `alt` reaches it. -/
theorem alts_select {α : Type} (alts : List (Text × P Char α)) (hk : ∀ kp ∈ alts, KwAlt kp.1 kp.2)
    (hs : orderSafe (alts.map Prod.fst) = true) (hc : kwCharsOk (alts.map Prod.fst) = true)
    (pre : List (Text × P Char α)) (kw : Text) (p : P Char α) (post : List (Text × P Char α))
    (hsplit : alts = pre ++ (kw, p) :: post) (tail : Text) (hf : Follows tail) :
    alt (alts.map Prod.snd) (kw ++ tail) = alt (p :: post.map Prod.snd) (kw ++ tail) := by
  subst hsplit
  simp only [List.map_append, List.map_cons]
  apply alt_skip
  intro q hq
  obtain ⟨kp, hkp, rfl⟩ := List.mem_map.mp hq
  apply hk kp (by simp [hkp])
  apply isPrefix_kw_tail
  · exact orderSafe_split _ (pre.map Prod.fst) kw (post.map Prod.fst) hs (by simp) kp.1 (List.mem_map_of_mem hkp)
  · intro c hcc
    simp only [kwCharsOk, List.all_eq_true] at hc
    have := hc kp.1 (List.mem_map_of_mem (List.mem_append_left _ hkp)) c hcc
    simpa using this
  · exact hf

end FV
