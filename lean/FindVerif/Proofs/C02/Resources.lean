import FindVerif.Proofs.C02.EnvSem
/- Applying the generated matchers and printers. -/
namespace FV
namespace Scheme
open Spec (File Rt Dest Output Outcome)

theorem isPattern_eq (s : Text) : isPattern s = Spec.hasGlob s := by
  unfold isPattern Spec.hasGlob containsChar
  induction s with
  | nil => rfl
  | cons c cs ih =>
    simp only [List.any_cons] at ih ⊢
    rw [← ih]
    cases hc1 : decide (c = '?') <;> cases hc2 : decide (c = '*') <;> cases hc3 : decide (c = '[') <;>
      cases List.any cs (fun x => decide (x = '?')) <;> cases List.any cs (fun x => decide (x = '*')) <;>
      cases List.any cs (fun x => decide (x = '[')) <;> rfl

theorem lf3_ne_kw (k : Text) (n : Nat) : lf3 k n ≠ cl!"and" ∧ lf3 k n ≠ cl!"or" ∧ lf3 k n ≠ cl!"lambda" ∧ lf3 k n ≠ cl!"with-mutex" := by
  refine ⟨?_, ?_, ?_, ?_⟩ <;> (intro h; have := congrArg List.head? h; simp [lf3] at this)

theorem lf3_ne_lf3 (k1 k2 : Text) (n1 n2 : Nat) (h : k1 ≠ k2) (hc1 : ∀ c ∈ k1, c ≠ ':') (hc2 : ∀ c ∈ k2, c ≠ ':') :
    lf3 k1 n1 ≠ lf3 k2 n2 := by
  intro he
  simp only [lf3, List.append_assoc] at he
  have h1 := List.append_cancel_left he
  have t1 := congrArg (List.takeWhile (fun c => decide (c ≠ ':'))) h1
  simp only [show (cl!":") = [':'] from rfl, List.singleton_append] at t1
  rw [takeWhile_append_of_all _ _ _ _ (by intro x hx; simpa using hc1 x hx) (by simp),
      takeWhile_append_of_all _ _ _ _ (by intro x hx; simpa using hc2 x hx) (by simp)] at t1
  exact h t1

/-- The body of a matcher applied to a candidate string. -/
theorem eval_matcherBody (n : Nat) (cx : Ctx) (hg : EnvGen cx.env) (i : Nat) (pat : Text) (ci : Bool) (cand : Text) :
    eval (apN n) cx [(lf3 (cl!"str") i, .str cand)] (matcherBody i pat ci) =
      .ok (.bool (Spec.nameHolds cx.rt ci pat cand)) [] := by
  have hl : EnvGen [(lf3 (cl!"str") i, Val.str cand)] := by
    intro n v h; simp at h; rw [h.1]; exact lf3_head _ _
  have harg : evalArgs (apN n) cx [(lf3 (cl!"str") i, .str cand)] [.str pat, sy (lf3 (cl!"str") i)] = .ok [.str pat, .str cand] [] := by
    simp [evalArgs, sy, eval, varRef, lookup]
  unfold matcherBody
  simp only [Spec.nameHolds, ← isPattern_eq, matcherName]
  cases hp : isPattern pat <;> cases ci <;> simp only
  · rw [eval_call _ hg hl _ _ _ _ (by decide) (by rfl) (by decide) (by decide) (by decide) (by decide) harg]
    simp [applyPrim]
  · rw [eval_call _ hg hl _ _ _ _ (by decide) (by rfl) (by decide) (by decide) (by decide) (by decide) harg]
    simp [applyPrim]
  · rw [eval_call _ hg hl _ _ _ _ (by decide) (by rfl) (by decide) (by decide) (by decide) (by decide) harg]
    simp [applyPrim]
  · rw [eval_call _ hg hl _ _ _ _ (by decide) (by rfl) (by decide) (by decide) (by decide) (by decide) harg]
    simp [applyPrim]

/-- Which string a `call-with-…` procedure passes. -/
inductive CallWith : Text → Prim → (File → Text) → Prop
  | name : CallWith (cl!"call-with-name") .callWithName (·.name)
  | path : CallWith (cl!"call-with-relative-path") .callWithRelativePath (·.relPath)

/-- `(call-with-name %lf3:match:N)` is the name test of the matcher's pattern. -/
theorem eval_matcher_call (n : Nat) (cx : Ctx) (hg : EnvGen cx.env) {f : Text} {p : Prim} {g : File → Text} (h : CallWith f p g)
    (name : Text) (i k : Nat) (pat : Text) (ci : Bool)
    (hl : lookup cx.env name = some (.clo [lf3 (cl!"str") i] [matcherBody i pat ci] k)) :
    eval (apN (n + 1)) cx [] (call f [sy name]) = .ok (.bool (Spec.nameHolds cx.rt ci pat (g cx.file))) [] := by
  have harg : evalArgs (apN (n + 1)) cx [] [sy name] = .ok [.clo [lf3 (cl!"str") i] [matcherBody i pat ci] k] [] :=
    evalArgs_one _ _ _ (eval_sym_env _ cx name _ hl)
  have hbody : ∀ cand, apN (n + 1) cx [lf3 (cl!"str") i] [matcherBody i pat ci] k [.str cand] =
      .ok (.bool (Spec.nameHolds cx.rt ci pat cand)) [] := by
    intro cand
    simp only [apN, List.length_cons, List.length_nil, if_true, List.zip_cons_cons, List.zip_nil_right, evalSeq]
    exact eval_matcherBody n { cx with env := cx.env.take k } (hg.take k) i pat ci cand
  cases h with
  | name =>
    rw [eval_call _ hg envGen_nil _ _ _ _ (by decide) (by rfl) (by decide) (by decide) (by decide) (by decide) harg]
    simp only [applyPrim, apvHO]
    exact hbody _
  | path =>
    rw [eval_call _ hg envGen_nil _ _ _ _ (by decide) (by rfl) (by decide) (by decide) (by decide) (by decide) harg]
    simp only [applyPrim, apvHO]
    exact hbody _

/-- Plain mode: `(call-with-relative-path %lf3:print:N)` writes one record. -/
theorem eval_printer_path (ap : CloAp) (cx : Ctx) (hg : EnvGen cx.env) (name : Text) (d : Dest) (k : Nat) (t : Option Char)
    (hl : lookup cx.env name = some (.printer d k t)) :
    eval ap cx [] (call (cl!"call-with-relative-path") [sy name]) = .ok .unspec [.record d cx.file.relPath t] := by
  have harg : evalArgs ap cx [] [sy name] = .ok [.printer d k t] [] := evalArgs_one ap _ _ (eval_sym_env ap cx name _ hl)
  rw [eval_call _ hg envGen_nil _ _ _ _ (by decide) (by rfl) (by decide) (by decide) (by decide) (by decide) harg]
  simp [applyPrim, apvHO]

/-- Calling a generated name directly with one pure argument. -/
theorem eval_call_gen (ap : CloAp) (cx : Ctx) (kind : Text) (i : Nat) (arg : SExp) (g v : Val)
    (hl : lookup cx.env (lf3 kind i) = some g) (ha : eval ap cx [] arg = .ok v []) :
    eval ap cx [] (call (lf3 kind i) [arg]) = applyVal ap cx g [v] := by
  obtain ⟨h1, h2, h3, h4⟩ := lf3_ne_kw kind i
  unfold call sy
  rw [eval.eq_7]
  simp only [h1, h2, h3, h4, if_false, varRef, lookup, hl]
  rw [evalArgs_one ap _ _ ha, R.bind_ok_nil]

theorem eval_printer_direct (ap : CloAp) (cx : Ctx) (i : Nat) (arg : SExp) (s : Text) (d : Dest) (k : Nat) (t : Option Char)
    (hl : lookup cx.env (lf3 (cl!"print") i) = some (.printer d k t)) (ha : eval ap cx [] arg = .ok (.str s) []) :
    eval ap cx [] (call (lf3 (cl!"print") i) [arg]) = .ok .unspec [.record d s t] := by
  rw [eval_call_gen ap cx _ i arg _ _ hl ha]
  simp [applyVal]

end Scheme
end FV
