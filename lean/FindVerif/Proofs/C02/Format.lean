import FindVerif.Proofs.C02.Framed
/- `(format #f template args…)` as emitted prints exactly what the `-printf` elements name. -/
namespace FV
namespace Scheme
open Spec (File Rt Dest Output Outcome)

variable (ap : CloAp) {cx : Ctx}

/-- String accessors. -/
inductive StrAcc : Text → Prim → (File → Text) → Prop
  | name : StrAcc (cl!"name") .name (·.name)
  | user : StrAcc (cl!"user") .user (·.user)
  | group : StrAcc (cl!"group") .group (·.group)
  | fid : StrAcc (cl!"file-fid") .fileFid (·.fid)
  | abs : StrAcc (cl!"absolute-path") .absolutePath (·.absPath)
  | rel : StrAcc (cl!"relative-path") .relativePath (·.relPath)
  | mount : StrAcc (cl!"lipe-scan-client-mount-path") .mountPath (·.mountPath)

theorem eval_strAcc (hg : EnvGen cx.env) {f : Text} {p : Prim} {g : File → Text} (h : StrAcc f p g) :
    eval ap cx [] (call f []) = .ok (.str (g cx.file)) [] := by
  cases h <;> (rw [eval_call ap hg envGen_nil _ _ [] [] (by decide) (by rfl) (by decide) (by decide) (by decide) (by decide) (by simp)]; rfl)

/-- What one directive needs: the argument form evaluates (purely) to a value that the
    directive prints as the text find names. -/
structure ItemOk (cx : Ctx) (ap : CloAp) (sx : SExp) (d : Char) (txt : Text) : Prop where
  ev : ∃ v, eval ap cx [] sx = .ok v [] ∧ directive cx.rt d v = some txt

theorem item_num (hg : EnvGen cx.env) {f : Text} {p : Prim} {g : File → Nat} (h : NumAcc f p g) (d : Char) (hd : d = 'a' ∨ d = 'd') :
    ItemOk cx ap (call f []) d (natToDec (g cx.file)) :=
  ⟨⟨_, eval_numAcc ap hg envGen_nil h, by rcases hd with rfl | rfl <;> simp [directive, displayText, intToDec]⟩⟩

theorem item_str (hg : EnvGen cx.env) {f : Text} {p : Prim} {g : File → Text} (h : StrAcc f p g) :
    ItemOk cx ap (call f []) 'a' (g cx.file) :=
  ⟨⟨_, eval_strAcc ap hg h, by simp [directive, displayText]⟩⟩

theorem item_strftime (hg : EnvGen cx.env) (c : Char) {f : Text} {p : Prim} {g : File → Nat} (h : NumAcc f p g) :
    ItemOk cx ap (strftimeItem c f) (if c = '@' then 'd' else 'a')
      (if c = '@' then natToDec (g cx.file) else cx.rt.strftime c (g cx.file)) := by
  unfold strftimeItem
  by_cases hc : c = '@'
  · simp only [hc, if_true]
    exact item_num ap hg h 'd' (Or.inr rfl)
  · simp only [hc, if_false]
    have hlt : eval ap cx [] (call (cl!"localtime") [call f []]) = .ok (.tm (g cx.file)) [] := by
      rw [eval_call ap hg envGen_nil _ _ _ _ (by decide) (by rfl) (by decide) (by decide) (by decide) (by decide)
        (evalArgs_one ap _ _ (eval_numAcc ap hg envGen_nil h))]
      rfl
    refine ⟨⟨.str (cx.rt.strftime c (g cx.file)), ?_, by simp [directive, displayText]⟩⟩
    rw [eval_call ap hg envGen_nil _ _ _ _ (by decide) (by rfl) (by decide) (by decide) (by decide) (by decide)
      (evalArgs_two ap _ _ _ _ (eval_str ap _) hlt)]
    rfl

theorem item_kilos (hg : EnvGen cx.env) :
    ItemOk cx ap (call (cl!"quotient") [call (cl!"+") [call (cl!"blocks") [], .num 1], .num 2]) 'd'
      (natToDec ((cx.file.blocks + 1) / 2)) := by
  have h1 : eval ap cx [] (call (cl!"+") [call (cl!"blocks") [], .num 1]) = .ok (.int ((cx.file.blocks + 1 : Nat) : Int)) [] := by
    rw [eval_call ap hg envGen_nil _ _ _ _ (by decide) (by rfl) (by decide) (by decide) (by decide) (by decide)
      (evalArgs_two ap _ _ _ _ (eval_numAcc ap hg envGen_nil .blocks) (eval_num ap _))]
    simp [applyPrim]
  refine ⟨⟨.int (((cx.file.blocks + 1) / 2 : Nat) : Int), ?_, by simp [directive, intToDec]⟩⟩
  rw [eval_call ap hg envGen_nil _ _ _ _ (by decide) (by rfl) (by decide) (by decide) (by decide) (by decide)
    (evalArgs_two ap _ _ _ _ h1 (eval_num ap _))]
  simp only [applyPrim]
  have : ((2 : Nat) : Int) ≠ 0 := by decide
  simp only [this, if_false]
  congr 2

theorem item_octal (hg : EnvGen cx.env) :
    ItemOk cx ap (call (cl!"logand") [call (cl!"mode") [], .num 0o7777]) 'o' (Spec.natToBase 8 (cx.file.mode &&& 0o7777)) :=
  ⟨⟨_, eval_logand ap hg envGen_nil _, by simp [directive]⟩⟩

theorem item_sparse (hg : EnvGen cx.env) (hs : cx.file.size ≠ 0) :
    ItemOk cx ap (call (cl!"/") [call (cl!"*") [.num 512, call (cl!"blocks") []], call (cl!"size") []]) 'f'
      (cx.rt.fmtFloat (512 * cx.file.blocks) cx.file.size) := by
  have h1 : eval ap cx [] (call (cl!"*") [.num 512, call (cl!"blocks") []]) = .ok (.int ((512 * cx.file.blocks : Nat) : Int)) [] := by
    rw [eval_call ap hg envGen_nil _ _ _ _ (by decide) (by rfl) (by decide) (by decide) (by decide) (by decide)
      (evalArgs_two ap _ _ _ _ (eval_num ap _) (eval_numAcc ap hg envGen_nil .blocks))]
    simp [applyPrim]
  refine ⟨⟨.ratio (512 * cx.file.blocks) cx.file.size, ?_, by simp [directive]⟩⟩
  rw [eval_call ap hg envGen_nil _ _ _ _ (by decide) (by rfl) (by decide) (by decide) (by decide) (by decide)
    (evalArgs_two ap _ _ _ _ h1 (eval_numAcc ap hg envGen_nil .size))]
  show applyPrim cx _ .div [.int (Int.ofNat (512 * cx.file.blocks)), .int (Int.ofNat cx.file.size)] = _
  simp [applyPrim, hs]

theorem item_parents (n : Nat) (hg : EnvGen cx.env) :
    ItemOk cx (apN n) (call (cl!"call-with-relative-path") [sy (cl!"dirname")]) 'a' (cx.rt.dirname cx.file.relPath) := by
  have hd : eval (apN n) cx [] (sy (cl!"dirname")) = .ok (.builtin (cl!"dirname")) [] := by
    simp only [sy, eval]
    rw [varRef_builtin hg envGen_nil _ .dirname (by decide) (by rfl)]
  refine ⟨⟨.str (cx.rt.dirname cx.file.relPath), ?_, by simp [directive, displayText]⟩⟩
  rw [eval_call _ hg envGen_nil _ _ _ _ (by decide) (by rfl) (by decide) (by decide) (by decide) (by decide)
    (evalArgs_one _ _ _ hd)]
  simp only [applyPrim, apvHO, show primOf (cl!"dirname") = some Prim.dirname from rfl]

theorem item_typeChar (hg : EnvGen cx.env) :
    ItemOk cx ap (call (cl!"type->char") [call (cl!"type") []]) 'a' (cx.rt.typeChar cx.file.mode) := by
  have ht : eval ap cx [] (call (cl!"type") []) = .ok (.int (cx.file.mode : Int)) [] := by
    rw [eval_call ap hg envGen_nil _ _ [] [] (by decide) (by rfl) (by decide) (by decide) (by decide) (by decide) (by simp)]; rfl
  refine ⟨⟨.str (cx.rt.typeChar cx.file.mode), ?_, by simp [directive, displayText]⟩⟩
  rw [eval_call ap hg envGen_nil _ _ _ _ (by decide) (by rfl) (by decide) (by decide) (by decide) (by decide)
    (evalArgs_one ap _ _ ht)]
  rfl

theorem item_xattr (hg : EnvGen cx.env) (a : Text) :
    ItemOk cx ap (call (cl!"or") [call (cl!"xattr-ref-string") [.str a], .str []]) 'a'
      ((Spec.xattrLookup cx.file.xattrs a).getD []) := by
  have h := eval_xattrRef ap hg envGen_nil a
  have hev : eval ap cx [] (call (cl!"or") [call (cl!"xattr-ref-string") [.str a], .str []]) =
      .ok (match Spec.xattrLookup cx.file.xattrs a with | some v => .str v | none => .str []) [] := by
    rw [show call (cl!"or") [call (cl!"xattr-ref-string") [.str a], .str []] =
      SExp.list (SExp.sym (cl!"or") :: [call (cl!"xattr-ref-string") [.str a], .str []]) from rfl]
    rw [eval.eq_7]
    simp only [show ¬ (cl!"or" = cl!"and") by decide, if_false, if_true, evalOr, h, R.bind_ok_nil]
    cases Spec.xattrLookup cx.file.xattrs a <;> simp [Val.truthy, eval]
  refine ⟨⟨_, hev, ?_⟩⟩
  cases Spec.xattrLookup cx.file.xattrs a <;> simp [directive, displayText]

end Scheme
end FV

namespace FV
namespace Scheme
open Spec (File Rt Dest Output Outcome)

/-- Per directive: either `%%` (no argument), or a `~x` placeholder whose argument form prints
    the text find names. -/
theorem field_ok (n : Nat) {cx : Ctx} (hg : EnvGen cx.env) (f : FormatField) (txt ph : Text)
    (hs : Spec.fieldText cx.rt f cx.file = some txt) (hph : placeholder f = some ph) :
    (itemS f = none ∧ ph = cl!"%" ∧ txt = cl!"%") ∨
    (∃ sx d, itemS f = some sx ∧ ph = ['~', d] ∧ d ≠ '~' ∧ ItemOk cx (apN n) sx d txt) := by
  cases f with
  | percent =>
    left
    simp [placeholder, FormatField.unsupported] at hph
    simp [Spec.fieldText] at hs
    exact ⟨by simp [itemS, FormatField.unsupported], hph.symm, hs.symm⟩
  | depth | deviceNumber | fsType | symbolicTarget | permissionsSymbolic | typeSymlink | securityContext =>
    simp [placeholder, FormatField.unsupported] at hph
  | access | change | modify | diskSizeBlocks | groupId | hardlinks | inodeDecimal | mirrorCount | projectId
  | stripeCount | stripeSize | userId | diskSizeBytes =>
    right
    simp [placeholder, FormatField.unsupported] at hph
    simp [Spec.fieldText] at hs
    subst hph; subst hs
    refine ⟨_, _, rfl, rfl, by decide, ?_⟩
    first
      | exact item_num _ hg .atime _ (Or.inl rfl) | exact item_num _ hg .ctime _ (Or.inl rfl)
      | exact item_num _ hg .mtime _ (Or.inl rfl) | exact item_num _ hg .blocks _ (Or.inr rfl)
      | exact item_num _ hg .gid _ (Or.inr rfl) | exact item_num _ hg .nlink _ (Or.inr rfl)
      | exact item_num _ hg .ino _ (Or.inr rfl) | exact item_num _ hg .mirror _ (Or.inr rfl)
      | exact item_num _ hg .projid _ (Or.inr rfl) | exact item_num _ hg .stripe _ (Or.inr rfl)
      | exact item_num _ hg .stripeSize _ (Or.inr rfl) | exact item_num _ hg .uid _ (Or.inr rfl)
      | exact item_num _ hg .size _ (Or.inr rfl)
  | basename | group | user | fileId | name | nameWithoutStartingPoint | startingPoint =>
    right
    simp [placeholder, FormatField.unsupported] at hph
    simp [Spec.fieldText] at hs
    subst hph; subst hs
    refine ⟨_, _, rfl, rfl, by decide, ?_⟩
    first
      | exact item_str _ hg .name | exact item_str _ hg .group | exact item_str _ hg .user
      | exact item_str _ hg .fid | exact item_str _ hg .abs | exact item_str _ hg .rel | exact item_str _ hg .mount
  | parents =>
    right
    simp [placeholder, FormatField.unsupported] at hph
    simp [Spec.fieldText] at hs
    subst hph; subst hs
    exact ⟨_, _, rfl, rfl, by decide, item_parents n hg⟩
  | diskSizeKilos =>
    right
    simp [placeholder, FormatField.unsupported] at hph
    simp [Spec.fieldText] at hs
    subst hph; subst hs
    exact ⟨_, _, rfl, rfl, by decide, item_kilos _ hg⟩
  | permissionsOctal =>
    right
    simp [placeholder, FormatField.unsupported] at hph
    simp [Spec.fieldText] at hs
    subst hph; subst hs
    exact ⟨_, _, rfl, rfl, by decide, item_octal _ hg⟩
  | sparseness =>
    right
    simp [placeholder, FormatField.unsupported] at hph
    simp only [Spec.fieldText] at hs
    by_cases h0 : cx.file.size = 0
    · simp [h0] at hs
    · simp [h0] at hs
      subst hph; subst hs
      exact ⟨_, _, rfl, rfl, by decide, item_sparse _ hg h0⟩
  | type =>
    right
    simp [placeholder, FormatField.unsupported] at hph
    simp [Spec.fieldText] at hs
    subst hph; subst hs
    exact ⟨_, _, rfl, rfl, by decide, item_typeChar _ hg⟩
  | xattr a =>
    right
    simp [placeholder, FormatField.unsupported] at hph
    simp [Spec.fieldText] at hs
    subst hph; subst hs
    exact ⟨_, _, rfl, rfl, by decide, item_xattr _ hg a⟩
  | accessFormatted c =>
    right
    simp only [placeholder, FormatField.unsupported, Bool.false_eq_true, if_false] at hph
    simp only [Spec.fieldText, Option.some.injEq] at hs
    subst hs
    have := item_strftime (apN n) hg c .atime
    by_cases hc : c = '@'
    · simp only [hc, if_true, Option.some.injEq] at hph this ⊢
      subst hph
      exact ⟨_, _, rfl, rfl, by decide, this⟩
    · simp only [hc, if_false, Option.some.injEq] at hph this ⊢
      subst hph
      exact ⟨_, _, rfl, rfl, by decide, this⟩
  | changeFormatted c =>
    right
    simp only [placeholder, FormatField.unsupported, Bool.false_eq_true, if_false] at hph
    simp only [Spec.fieldText, Option.some.injEq] at hs
    subst hs
    have := item_strftime (apN n) hg c .ctime
    by_cases hc : c = '@'
    · simp only [hc, if_true, Option.some.injEq] at hph this ⊢
      subst hph
      exact ⟨_, _, rfl, rfl, by decide, this⟩
    · simp only [hc, if_false, Option.some.injEq] at hph this ⊢
      subst hph
      exact ⟨_, _, rfl, rfl, by decide, this⟩
  | modifyFormatted c =>
    right
    simp only [placeholder, FormatField.unsupported, Bool.false_eq_true, if_false] at hph
    simp only [Spec.fieldText, Option.some.injEq] at hs
    subst hs
    have := item_strftime (apN n) hg c .mtime
    by_cases hc : c = '@'
    · simp only [hc, if_true, Option.some.injEq] at hph this ⊢
      subst hph
      exact ⟨_, _, rfl, rfl, by decide, this⟩
    · simp only [hc, if_false, Option.some.injEq] at hph this ⊢
      subst hph
      exact ⟨_, _, rfl, rfl, by decide, this⟩

end Scheme
end FV

namespace FV
namespace Scheme
open Spec (File Rt Dest Output Outcome)

theorem fmtGo_char (rt : Rt) (c : Char) (hc : c ≠ '~') (rest : Text) (args : List Val) :
    fmtGo rt (c :: rest) args = (fmtGo rt rest args).map (c :: ·) := by
  rw [fmtGo.eq_def]; simp [hc]

theorem fmtGo_tilde (rt : Rt) (rest : Text) (args : List Val) :
    fmtGo rt ('~' :: '~' :: rest) args = (fmtGo rt rest args).map ('~' :: ·) := by
  rw [fmtGo.eq_def]; simp

theorem fmtGo_literal (rt : Rt) (s rest : Text) (args : List Val) :
    fmtGo rt (replaceTilde s ++ rest) args = (fmtGo rt rest args).map (s ++ ·) := by
  induction s with
  | nil => simp [replaceTilde]
  | cons c cs ih =>
    simp only [replaceTilde]
    by_cases hc : c = '~'
    · subst hc
      simp only [if_true, List.append_assoc, List.cons_append, List.nil_append]
      rw [fmtGo_tilde, ih]
      cases fmtGo rt rest args <;> simp
    · simp only [hc, if_false, List.append_assoc, List.cons_append, List.nil_append]
      rw [fmtGo_char rt c hc, ih]
      cases fmtGo rt rest args <;> simp

theorem fmtGo_directive (rt : Rt) (d : Char) (hd : d ≠ '~') (v : Val) (txt : Text) (h : directive rt d v = some txt)
    (rest : Text) (args : List Val) :
    fmtGo rt ('~' :: d :: rest) (v :: args) = (fmtGo rt rest args).map (txt ++ ·) := by
  rw [fmtGo.eq_def]
  simp only [if_true, hd, if_false, h]
  cases fmtGo rt rest args <;> simp

theorem evalArgs_append_pure (ap : CloAp) (cx : Ctx) (loc : List (Text × Val)) (a b : List SExp) (va vb : List Val)
    (ha : evalArgs ap cx loc a = .ok va []) (hb : evalArgs ap cx loc b = .ok vb []) :
    evalArgs ap cx loc (a ++ b) = .ok (va ++ vb) [] := by
  induction a generalizing va with
  | nil => simp [evalArgs] at ha; subst ha; simpa using hb
  | cons x xs ih =>
    simp only [List.cons_append]
    rw [evalArgs] at ha ⊢
    cases hx : eval ap cx loc x with
    | fail w => rw [hx] at ha; simp at ha
    | stop ev => rw [hx] at ha; simp at ha
    | ok v ev =>
      cases hxs : evalArgs ap cx loc xs with
      | fail w => rw [hx, hxs] at ha; simp [R.bind] at ha
      | stop ev' => rw [hx, hxs] at ha; simp [R.bind] at ha
      | ok vs ev' =>
        rw [hx, hxs] at ha
        simp [R.bind] at ha
        obtain ⟨rfl, rfl, rfl⟩ := ha
        rw [ih vs hxs]
        simp [R.bind]

/-- One element: its arguments evaluate purely, and its piece of the template prints its text. -/
theorem elem_ok (n : Nat) {cx : Ctx} (hg : EnvGen cx.env) (e : FormatElement) (t a : Text)
    (ht : elementValue e = .ok t) (ha : Spec.elementText cx.rt cx.file e = some a) :
    ∃ ve, evalArgs (apN n) cx [] (itemsS [e]) = .ok ve [] ∧
      ∀ restT restV, fmtGo cx.rt (t ++ restT) (ve ++ restV) = (fmtGo cx.rt restT restV).map (a ++ ·) := by
  cases e with
  | literal s =>
    simp [elementValue] at ht
    simp [Spec.elementText] at ha
    subst ht; subst ha
    exact ⟨[], by simp [itemsS], fun restT restV => fmtGo_literal _ _ _ _⟩
  | special v =>
    refine ⟨[], by simp [itemsS], ?_⟩
    intro restT restV
    cases v <;> simp [elementValue, specialValue] at ht <;> simp [Spec.elementText, Spec.specialText] at ha <;>
      subst ht <;> subst ha
    all_goals first
      | exact fmtGo_literal _ _ _ _
      | (simp only [List.cons_append, List.nil_append]; rw [fmtGo_char _ _ (by decide)])
  | field f =>
    simp only [elementValue] at ht
    cases hph : placeholder f with
    | none => rw [hph] at ht; simp at ht
    | some ph =>
      rw [hph] at ht
      simp at ht
      subst ht
      simp only [Spec.elementText] at ha
      rcases field_ok n hg f a ph ha hph with ⟨hi, rfl, rfl⟩ | ⟨sx, d, hi, rfl, hd, ⟨v, hev, hdir⟩⟩
      · refine ⟨[], by simp [itemsS, hi], ?_⟩
        intro restT restV
        simp only [List.cons_append, List.nil_append]
        rw [fmtGo_char _ _ (by decide)]
      · refine ⟨[v], by simp [itemsS, hi, evalArgs, hev], ?_⟩
        intro restT restV
        simp only [List.cons_append, List.nil_append]
        exact fmtGo_directive _ d hd v a hdir _ _

theorem itemsS_cons (e : FormatElement) (es : List FormatElement) : itemsS (e :: es) = itemsS [e] ++ itemsS es := by
  simp only [itemsS, List.filterMap_cons, List.filterMap_nil]
  split <;> simp

/-- The emitted `format` call prints what the elements name. -/
theorem format_fold (n : Nat) {cx : Ctx} (hg : EnvGen cx.env) : ∀ (es : List FormatElement) (tmpl txt : Text),
    templateValue es = .ok tmpl → Spec.formatText cx.rt cx.file es = some txt →
    ∃ vs, evalArgs (apN n) cx [] (itemsS es) = .ok vs [] ∧
      ∀ restT restV, fmtGo cx.rt (tmpl ++ restT) (vs ++ restV) = (fmtGo cx.rt restT restV).map (txt ++ ·)
  | [], tmpl, txt, ht, hs => by
    simp [templateValue] at ht
    simp [Spec.formatText] at hs
    subst ht; subst hs
    exact ⟨[], by simp [itemsS], by intro a b; simp only [List.nil_append]; cases fmtGo cx.rt a b <;> simp⟩
  | e :: es, tmpl, txt, ht, hs => by
    simp only [templateValue] at ht
    cases he : elementValue e with
    | error x => rw [he] at ht; simp at ht
    | ok t =>
      rw [he] at ht
      cases hes : templateValue es with
      | error x => rw [hes] at ht; simp at ht
      | ok ts =>
        rw [hes] at ht
        simp at ht
        subst ht
        simp only [Spec.formatText] at hs
        cases ha : Spec.elementText cx.rt cx.file e with
        | none => rw [ha] at hs; simp at hs
        | some a =>
          cases hb : Spec.formatText cx.rt cx.file es with
          | none => rw [ha, hb] at hs; simp at hs
          | some b =>
            rw [ha, hb] at hs
            simp at hs
            subst hs
            obtain ⟨ve, hve, hfe⟩ := elem_ok n hg e t a he ha
            obtain ⟨vs, hvs, hfs⟩ := format_fold n hg es ts b hes hb
            refine ⟨ve ++ vs, ?_, ?_⟩
            · rw [itemsS_cons]; exact evalArgs_append_pure _ _ _ _ _ _ _ hve hvs
            · intro restT restV
              rw [List.append_assoc, List.append_assoc, hfe, hfs]
              cases fmtGo cx.rt restT restV <;> simp

theorem eval_genFormat (n : Nat) {cx : Ctx} (hg : EnvGen cx.env) (es : List FormatElement) (sx : SExp) (txt : Text)
    (hgen : genFormat es = .ok sx) (hs : Spec.formatText cx.rt cx.file es = some txt) :
    eval (apN n) cx [] sx = .ok (.str txt) [] := by
  simp only [genFormat] at hgen
  cases ht : templateValue es with
  | error x => rw [ht] at hgen; simp at hgen
  | ok tmpl =>
    rw [ht] at hgen
    simp at hgen
    subst hgen
    obtain ⟨vs, hvs, hf⟩ := format_fold n hg es tmpl txt ht hs
    have hargs : evalArgs (apN n) cx [] (.bool false :: .str tmpl :: itemsS es) = .ok (.bool false :: .str tmpl :: vs) [] := by
      simp [evalArgs, hvs]
    rw [eval_call _ hg envGen_nil _ _ _ _ (by decide) (by rfl) (by decide) (by decide) (by decide) (by decide) hargs]
    have := hf [] []
    simp [fmtGo] at this
    simp [applyPrim, this]

end Scheme
end FV
