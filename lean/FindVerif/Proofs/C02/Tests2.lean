import FindVerif.Proofs.C02.Tests
/- Type, permission, pool, flag and xattr tests. -/
namespace FV
namespace Scheme
open Spec (File Rt Dest Output Outcome)

variable (ap : CloAp) {cx : Ctx} {loc : List (Text × Val)}

theorem eval_logand (hg : EnvGen cx.env) (hl : EnvGen loc) (m : Nat) :
    eval ap cx loc (call (cl!"logand") [call (cl!"mode") [], .num m]) = .ok (.int ((cx.file.mode &&& m : Nat))) [] := by
  rw [eval_call ap hg hl _ _ _ _ (by decide) (by rfl) (by decide) (by decide) (by decide) (by decide)
    (evalArgs_two ap _ _ _ _ (eval_numAcc ap hg hl .mode) (eval_num ap _))]
  rfl

theorem eval_eq_nat (hg : EnvGen cx.env) (hl : EnvGen loc) (a b : SExp) (x y : Nat)
    (ha : eval ap cx loc a = .ok (.int x) []) (hb : eval ap cx loc b = .ok (.int y) []) :
    eval ap cx loc (call (cl!"=") [a, b]) = .ok (.bool (x == y)) [] := by
  rw [eval_call ap hg hl _ _ _ _ (by decide) (by rfl) (by decide) (by decide) (by decide) (by decide)
    (evalArgs_two ap _ _ _ _ ha hb)]
  simp only [applyPrim]
  congr 2
  by_cases h : x = y
  · subst h; simp
  · have : ¬ ((x : Int) = (y : Int)) := by omega
    simp [h, this]

theorem typeCode_eq (tp : FileType) : Spec.typeCode tp = tp.octal := by cases tp <;> rfl

theorem eval_typeComp (hg : EnvGen cx.env) (hl : EnvGen loc) (tp : FileType) :
    eval ap cx loc (call (cl!"=") [call (cl!"logand") [call (cl!"mode") [], .num S_IFMT], .num tp.octal]) =
      .ok (.bool (cx.file.mode &&& 0o170000 == Spec.typeCode tp)) [] := by
  rw [eval_eq_nat ap hg hl _ _ _ _ (eval_logand ap hg hl S_IFMT) (eval_num ap _), typeCode_eq]
  rfl

/-- `(or c…)` over pure boolean forms is `any`. -/
theorem evalOr_bools {α : Type} (l : List α) (g : α → SExp) (h : α → Bool)
    (hev : ∀ a ∈ l, eval ap cx loc (g a) = .ok (.bool (h a)) []) :
    evalOr ap cx loc (l.map g) = .ok (.bool (l.any h)) [] := by
  induction l with
  | nil => simp [evalOr]
  | cons a rest ih =>
    cases rest with
    | nil => simp [evalOr, hev a (by simp)]
    | cons b rest' =>
      simp only [List.map_cons] at ih ⊢
      rw [evalOr]
      rw [hev a (by simp), R.bind_ok_nil]
      cases ha : h a with
      | true => simp [Val.truthy, ha]
      | false =>
        simp only [Val.truthy, Bool.false_eq_true, if_false]
        rw [ih (fun x hx => hev x (by simp [hx]))]
        simp [ha]

theorem eval_genTypeList (hg : EnvGen cx.env) (hl : EnvGen loc) (l : List FileType) :
    eval ap cx loc (genTypeList l) = .ok (.bool (Spec.typeHolds l cx.file.mode)) [] := by
  unfold genTypeList Spec.typeHolds
  have hall : ∀ tp ∈ l, eval ap cx loc ((fun tp => call (cl!"=") [call (cl!"logand") [call (cl!"mode") [], .num S_IFMT], .num tp.octal]) tp) =
      .ok (.bool ((fun tp => cx.file.mode &&& 0o170000 == Spec.typeCode tp) tp)) [] := fun tp _ => eval_typeComp ap hg hl tp
  match l, hall with
  | [], _ =>
    simp only [List.map_nil, List.any_nil]
    unfold call sy
    rw [eval.eq_7]
    simp [evalOr]
  | [tp], hall =>
    simp only [List.map_cons, List.map_nil]
    rw [hall tp (by simp)]
    simp
  | a :: b :: r, hall =>
    simp only
    show eval ap cx loc (call (cl!"or") ((a :: b :: r).map _)) = _
    unfold call sy
    rw [eval.eq_7]
    simp only [show ¬ (cl!"or" = cl!"and") by decide, if_false, if_true]
    exact evalOr_bools ap (a :: b :: r) _ _ hall

theorem eval_genPermCheck (hg : EnvGen cx.env) (hl : EnvGen loc) (p : PermCheck) :
    eval ap cx loc (genPermCheck p) = .ok (.bool (Spec.permHolds p cx.file.mode)) [] := by
  cases p with
  | equal m => simp only [genPermCheck, Spec.permHolds]; exact eval_eq_nat ap hg hl _ _ _ _ (eval_logand ap hg hl _) (eval_num ap _)
  | atLeast m => simp only [genPermCheck, Spec.permHolds]; exact eval_eq_nat ap hg hl _ _ _ _ (eval_logand ap hg hl _) (eval_num ap _)
  | any m =>
    simp only [genPermCheck, Spec.permHolds]
    rw [eval_call ap hg hl _ _ _ _ (by decide) (by rfl) (by decide) (by decide) (by decide) (by decide)
      (evalArgs_one ap _ _ (eval_eq_nat ap hg hl _ _ _ _ (eval_logand ap hg hl _) (eval_num ap _)))]
    simp only [applyPrim]
    cases (cx.file.mode &&& m == 0) <;> rfl

/-- Flags. -/
inductive FlagAcc : Text → Prim → (File → Bool) → Prop
  | empty : FlagAcc (cl!"empty") .empty (·.empty)
  | readable : FlagAcc (cl!"readable") .readable (·.readable)
  | writable : FlagAcc (cl!"writable") .writable (·.writable)
  | executable : FlagAcc (cl!"executable") .executable (·.executable)

theorem eval_flag (hg : EnvGen cx.env) (hl : EnvGen loc) {f : Text} {p : Prim} {g : File → Bool} (h : FlagAcc f p g) :
    eval ap cx loc (call f []) = .ok (.bool (g cx.file)) [] := by
  cases h <;> (rw [eval_call ap hg hl _ _ [] [] (by decide) (by rfl) (by decide) (by decide) (by decide) (by decide) (by simp)]; rfl)

theorem eval_pool (hg : EnvGen cx.env) (hl : EnvGen loc) (s : Text) :
    ∃ v, eval ap cx loc (call (cl!"member") [.str s, call (cl!"lov-pools") []]) = .ok v [] ∧
      v.truthy = cx.file.pools.any (· = s) := by
  have hp : eval ap cx loc (call (cl!"lov-pools") []) = .ok (.strs cx.file.pools) [] := by
    rw [eval_call ap hg hl _ _ [] [] (by decide) (by rfl) (by decide) (by decide) (by decide) (by decide) (by simp)]; rfl
  rw [eval_call ap hg hl _ _ _ _ (by decide) (by rfl) (by decide) (by decide) (by decide) (by decide)
    (evalArgs_two ap _ _ _ _ (eval_str ap _) hp)]
  simp only [applyPrim]
  cases h : cx.file.pools.any (· = s) with
  | true => simp [Val.truthy]
  | false => simp [Val.truthy]

theorem eval_xattrP (hg : EnvGen cx.env) (hl : EnvGen loc) (k : Text) :
    eval ap cx loc (call (cl!"xattr?") [.str k]) = .ok (.bool (cx.file.xattrs.any (·.1 = k))) [] := by
  rw [eval_call ap hg hl _ _ _ _ (by decide) (by rfl) (by decide) (by decide) (by decide) (by decide)
    (evalArgs_one ap _ _ (eval_str ap _))]
  rfl

theorem eval_xattrRef (hg : EnvGen cx.env) (hl : EnvGen loc) (k : Text) :
    eval ap cx loc (call (cl!"xattr-ref-string") [.str k]) =
      .ok (match Spec.xattrLookup cx.file.xattrs k with | some v => .str v | none => .bool false) [] := by
  rw [eval_call ap hg hl _ _ _ _ (by decide) (by rfl) (by decide) (by decide) (by decide) (by decide)
    (evalArgs_one ap _ _ (eval_str ap _))]
  simp only [applyPrim]
  cases Spec.xattrLookup cx.file.xattrs k <;> rfl

theorem eval_xattrEqual (hg : EnvGen cx.env) (hl : EnvGen loc) (k v : Text) :
    eval ap cx loc (call (cl!"equal?") [call (cl!"xattr-ref-string") [.str k], .str v]) =
      .ok (.bool (Spec.xattrLookup cx.file.xattrs k == some v)) [] := by
  rw [eval_call ap hg hl _ _ _ _ (by decide) (by rfl) (by decide) (by decide) (by decide) (by decide)
    (evalArgs_two ap _ _ _ _ (eval_xattrRef ap hg hl k) (eval_str ap _))]
  simp only [applyPrim]
  cases h : Spec.xattrLookup cx.file.xattrs k with
  | none => simp [valEqual]
  | some w => simp [valEqual]

theorem eval_xattrMatch (hg : EnvGen cx.env) (hl : EnvGen loc) (k v : Text) :
    eval ap cx loc (call (cl!"xattr-match?") [.str k, .str v]) = .ok (.bool (cx.rt.xattrGlob k v cx.file.xattrs)) [] := by
  rw [eval_call ap hg hl _ _ _ _ (by decide) (by rfl) (by decide) (by decide) (by decide) (by decide)
    (evalArgs_two ap _ _ _ _ (eval_str ap _) (eval_str ap _))]
  rfl

theorem offending_eq (s : Text) : s.any isOffending = Spec.xattrSpecial s := by
  induction s with
  | nil => rfl
  | cons c cs ih =>
    simp only [List.any_cons, Spec.xattrSpecial] at ih ⊢
    rw [ih]
    congr 1
    simp only [isOffending, containsChar, List.any_cons, List.any_nil, Bool.or_false]
    by_cases h1 : c = '*' <;> by_cases h2 : c = '?' <;> by_cases h3 : c = '[' <;> by_cases h4 : c = '\'' <;> simp [h1, h2, h3, h4, eq_comm]

end Scheme
end FV
