import FindVerif.Proofs.C02.GenState
/-
  Translation validity: evaluating the structured program of a tree in the environment its
  `let*` builds gives find's truth value, outputs in order, and stop request.
-/
namespace FV
namespace Scheme
open Spec (File Rt Dest Output Outcome)

/-! ### decoding output events -/

theorem decode_record (io : Option (List (Nat × Target))) (d : Dest) (b : Text) (t : Option Char) (rest : List Event) :
    decode io (.record d b t :: rest) = (decode io rest).map (⟨d, b, t⟩ :: ·) := by
  rw [decode.eq_2]

theorem frameOut_none (io : Option (List (Nat × Target))) (p : Text) (sep tag : Char) :
    frameOut io p sep tag none = none := by
  unfold frameOut
  split
  · split
    · split <;> simp_all
    · rfl
  · rfl

theorem frameOut_append (io : Option (List (Nat × Target))) (p : Text) (sep tag : Char) (xs x y : List Output)
    (h : frameOut io p sep tag (some xs) = some x) : frameOut io p sep tag (some (xs ++ y)) = some (x ++ y) := by
  unfold frameOut at h ⊢
  by_cases hs : sep.toNat = 0x1e
  · simp only [hs, if_true] at h ⊢
    cases io with
    | none => simp at h
    | some table =>
      simp only at h ⊢
      cases hf : table.find? (fun kv => kv.1 = tag.toNat) with
      | none => rw [hf] at h; simp at h
      | some kv =>
        obtain ⟨k, tg⟩ := kv
        rw [hf] at h
        cases tg <;> (simp at h; subst h; simp)
  · simp [hs] at h

theorem decode_append (io : Option (List (Nat × Target))) : ∀ (n : Nat) (a b : List Event) (x y : List Output),
    a.length ≤ n → decode io a = some x → decode io b = some y → decode io (a ++ b) = some (x ++ y)
  | 0, a, b, x, y, hn, ha, hb => by
    have : a = [] := List.eq_nil_of_length_eq_zero (by omega)
    subst this
    simp [decode] at ha
    subst ha
    simpa using hb
  | n + 1, a, b, x, y, hn, ha, hb => by
    match a, ha with
    | [], ha => simp [decode] at ha; subst ha; simpa using hb
    | .record d bytes t :: rest, ha =>
      rw [decode_record] at ha
      cases hr : decode io rest with
      | none => rw [hr] at ha; simp at ha
      | some xs =>
        rw [hr] at ha; simp at ha; subst ha
        simp only [List.cons_append]
        rw [decode_record, decode_append io n rest b xs y (by simp at hn; omega) hr hb]
        simp
    | [.raw d p], ha => simp [decode] at ha
    | .raw d1 p :: .record _ _ _ :: rest, ha => cases d1 <;> simp [decode] at ha
    | .raw d1 p :: .raw d2 q :: rest, ha =>
      cases d1 with
      | file f => simp [decode] at ha
      | stdout =>
        cases d2 with
        | file f => simp [decode] at ha
        | stdout =>
          match q, ha with
          | [], ha => simp [decode] at ha
          | [_], ha => simp [decode] at ha
          | _ :: _ :: _ :: _, ha => simp [decode] at ha
          | [sep, tag], ha =>
            simp only [List.cons_append]
            rw [decode.eq_3] at ha ⊢
            cases hr : decode io rest with
            | none => rw [hr, frameOut_none] at ha; simp at ha
            | some xs =>
              rw [hr] at ha
              rw [decode_append io n rest b xs y (by simp at hn; omega) hr hb]
              exact frameOut_append io p sep tag xs x y ha

/-- The result of evaluating a form agrees with find's outcome. -/
def Agrees (io : Option (List (Nat × Target))) (r : R Val) (o : Outcome) : Prop :=
  match o with
  | .done b outs => ∃ v evs, r = .ok v evs ∧ v.truthy = b ∧ decode io evs = some outs
  | .stopped outs => ∃ evs, r = .stop evs ∧ decode io evs = some outs
  | .undefined => True

theorem Agrees.pure {io : Option (List (Nat × Target))} {r : R Val} {v : Val} {b : Bool}
    (h : r = .ok v []) (hb : v.truthy = b) : Agrees io r (.done b []) :=
  ⟨v, [], h, hb, by simp [decode]⟩

/-- Sequencing: events of the first form come first. -/
theorem Agrees.prepend {io : Option (List (Nat × Target))} {r : R Val} {o : Outcome} {v : Val} {ev : List Event} {outs : List Output}
    (hd : decode io ev = some outs) (h : Agrees io r o) :
    Agrees io ((R.ok v ev).bind fun _ => r) (o.prepend outs) := by
  cases o with
  | undefined => trivial
  | done b o2 =>
    obtain ⟨v2, ev2, rfl, hb, hd2⟩ := h
    exact ⟨v2, ev ++ ev2, rfl, hb, decode_append io _ ev ev2 outs o2 (Nat.le_refl _) hd hd2⟩
  | stopped o2 =>
    obtain ⟨ev2, rfl, hd2⟩ := h
    exact ⟨ev ++ ev2, rfl, decode_append io _ ev ev2 outs o2 (Nat.le_refl _) hd hd2⟩

end Scheme
end FV

namespace FV
namespace Scheme
open Spec (File Rt Dest Output Outcome)

/-- The context in which the policy body runs: the environment the final manager's bindings
    build. -/
structure FinalEnv (mF : Manager) (cx : Ctx) : Prop where
  env : cx.env = envOf mF.vars
  inv : Inv mF
  small : mF.distributed = true → ∀ t i, (t, i) ∈ mF.printersD → i < 0xD800
  distPrefix : mF.distributed = true → ∃ e, mF.vars = Manager.distInit.vars ++ e

theorem FinalEnv.gen {mF : Manager} {cx : Ctx} (h : FinalEnv mF cx) : EnvGen cx.env := by
  rw [h.env]; exact envOf_gen _

theorem nodup_map_inj {α β : Type} {f : α → β} {l : List α} (hn : (l.map f).Nodup) {a b : α}
    (ha : a ∈ l) (hb : b ∈ l) (hf : f a = f b) : a = b := by
  induction l with
  | nil => simp at ha
  | cons x xs ih =>
    simp only [List.map_cons, List.nodup_cons] at hn
    simp at ha hb
    rcases ha with rfl | ha <;> rcases hb with rfl | hb
    · rfl
    · exact absurd (hf ▸ List.mem_map_of_mem hb) hn.1
    · exact absurd (hf ▸ List.mem_map_of_mem ha) hn.1
    · exact ih hn.2 ha hb

theorem FinalEnv.matcher {mF : Manager} {cx : Ctx} (h : FinalEnv mF cx) (i : Nat) (pat : Text) (ci : Bool)
    (hm : Binding.matcher i pat ci ∈ mF.vars) :
    ∃ k, lookup cx.env (lf3 (cl!"match") (i + 1)) = some (.clo [lf3 (cl!"str") i] [matcherBody i pat ci] k) := by
  obtain ⟨pre, post, hs⟩ := List.append_of_mem hm
  have := lookup_envOf pre post _ (hs ▸ h.inv.core.nodup)
  rw [h.env, hs]
  exact ⟨_, by simpa [Binding.binds, GName.text, Kind.text, bindingValue] using this⟩

theorem FinalEnv.printerL {mF : Manager} {cx : Ctx} (h : FinalEnv mF cx) (i prt mtx : Nat) (t : Option Char)
    (hm : Binding.printerL i prt mtx t ∈ mF.vars) :
    ∃ d k, lookup cx.env (lf3 (cl!"print") i) = some (.printer d k (termV t)) ∧
      ((Binding.stdoutPort prt ∈ mF.vars ∧ d = .stdout) ∨ ∃ f, Binding.filePort prt f ∈ mF.vars ∧ d = .file f) := by
  obtain ⟨pre, post, hs⟩ := List.append_of_mem hm
  have hnd := h.inv.core.nodup
  rw [hs] at hnd
  have hl := lookup_envOf pre post _ hnd
  have hnp : (pre.map Binding.binds).Nodup := by
    simp only [List.map_append] at hnd; exact (List.nodup_append.mp hnd).1
  have hu := h.inv.core.usesBound pre _ post hs
  obtain ⟨d, hd, hwhich⟩ := port_lookup pre prt hnp (hu _ (by simp [Binding.uses]))
  obtain ⟨k, hk⟩ := mutex_lookup pre mtx hnp (hu _ (by simp [Binding.uses]))
  refine ⟨d, k, ?_, ?_⟩
  · rw [h.env, hs]
    simpa [Binding.binds, GName.text, Kind.text, bindingValue, hd, hk] using hl
  · rcases hwhich with ⟨hin, rfl⟩ | ⟨f, hin, rfl⟩
    · exact Or.inl ⟨by rw [hs]; simp [hin], rfl⟩
    · exact Or.inr ⟨f, by rw [hs]; simp [hin], rfl⟩

/-- The standard-output printer really writes to standard output. -/
theorem FinalEnv.printerL_stdout {mF : Manager} {cx : Ctx} (h : FinalEnv mF cx) (i prt mtx : Nat) (t : Option Char)
    (hm : Binding.printerL i prt mtx t ∈ mF.vars) (hp : Binding.stdoutPort prt ∈ mF.vars) :
    ∃ k, lookup cx.env (lf3 (cl!"print") i) = some (.printer .stdout k (termV t)) := by
  obtain ⟨d, k, hl, hw⟩ := h.printerL i prt mtx t hm
  rcases hw with ⟨_, rfl⟩ | ⟨f, hf, rfl⟩
  · exact ⟨k, hl⟩
  · have := nodup_map_inj h.inv.core.nodup hp hf (by simp [Binding.binds])
    cases this

theorem FinalEnv.printerL_file {mF : Manager} {cx : Ctx} (h : FinalEnv mF cx) (i prt mtx : Nat) (t : Option Char) (f : Text)
    (hm : Binding.printerL i prt mtx t ∈ mF.vars) (hp : Binding.filePort prt f ∈ mF.vars) :
    ∃ k, lookup cx.env (lf3 (cl!"print") i) = some (.printer (.file f) k (termV t)) := by
  obtain ⟨d, k, hl, hw⟩ := h.printerL i prt mtx t hm
  rcases hw with ⟨hs, rfl⟩ | ⟨f', hf, rfl⟩
  · have := nodup_map_inj h.inv.core.nodup hp hs (by simp [Binding.binds])
    cases this
  · have := nodup_map_inj h.inv.core.nodup hp hf (by simp [Binding.binds])
    cases this
    exact ⟨k, hl⟩

theorem FinalEnv.printerD {mF : Manager} {cx : Ctx} (h : FinalEnv mF cx) (hd : mF.distributed = true) (i : Nat)
    (hm : Binding.printerD i ∈ mF.vars) :
    ∃ k ext, 3 ≤ k ∧ lookup cx.env (lf3 (cl!"print") i) = some (.clo [cl!"line"] [frameCall i] k) ∧
      cx.env = E3 ++ ext ∧ (∀ m v, (m, v) ∈ ext → m ≠ cl!"%lf3:frame:2") := by
  obtain ⟨e, he⟩ := h.distPrefix hd
  have hnd := h.inv.core.nodup
  have hin : Binding.printerD i ∈ e := by
    rw [he] at hm
    simp [Manager.distInit] at hm
    exact hm
  obtain ⟨e1, e2, rfl⟩ := List.append_of_mem hin
  have hs : mF.vars = (Manager.distInit.vars ++ e1) ++ Binding.printerD i :: e2 := by rw [he]; simp
  have hl := lookup_envOf (Manager.distInit.vars ++ e1) e2 (Binding.printerD i) (hs ▸ hnd)
  obtain ⟨ext, hext, hnames⟩ := envFrom_ext (envOf Manager.distInit.vars) (e1 ++ Binding.printerD i :: e2)
  have henv : cx.env = E3 ++ ext := by
    rw [h.env, he]
    unfold envOf at hext ⊢
    rw [envFrom_append, hext]
    congr 1
  refine ⟨(envOf (Manager.distInit.vars ++ e1)).length, ext, ?_, ?_, henv, ?_⟩
  · unfold envOf; rw [envFrom_length]; simp [Manager.distInit]
  · rw [h.env, hs]
    simpa [Binding.binds, GName.text, Kind.text, bindingValue] using hl
  · intro m v hmv hme
    have hm' : m ∈ (e1 ++ Binding.printerD i :: e2).map (fun b => b.binds.text) := by
      rw [← hnames]; exact List.mem_map_of_mem (f := Prod.fst) hmv
    obtain ⟨c, hc, rfl⟩ := List.mem_map.mp hm'
    have hfr : (⟨.frame, 2⟩ : GName).text = cl!"%lf3:frame:2" := by decide
    have := GName.text_injective _ _ (hme.trans hfr.symm)
    have hnd' : (Manager.distInit.vars.map Binding.binds ++ (e1 ++ Binding.printerD i :: e2).map Binding.binds).Nodup := by
      rw [← List.map_append, ← he]; exact hnd
    have hdisj := (List.nodup_append.mp hnd').2.2
    exact hdisj ⟨.frame, 2⟩ (by simp [Manager.distInit, Binding.binds]) c.binds (List.mem_map_of_mem hc) this.symm

end Scheme
end FV

namespace FV
namespace Scheme
open Spec (File Rt Dest Output Outcome)

def destD : Option Text → Dest
  | none => .stdout
  | some f => .file f

theorem char_toNat_ofNat (i : Nat) (h : i < 0xD800) : (Char.ofNat i).toNat = i := by
  have hv : i.isValidChar := Or.inl h
  simp [Char.ofNat, hv, Char.toNat, Char.ofNatAux]

theorem find_swap {α : Type} (l : List (α × Nat)) (hn : (l.map Prod.snd).Nodup) (t : α) (i : Nat) (h : (t, i) ∈ l) :
    (l.map fun kv => (kv.2, kv.1)).find? (fun kv => kv.1 = i) = some (i, t) := by
  induction l with
  | nil => simp at h
  | cons a rest ih =>
    obtain ⟨t', i'⟩ := a
    simp only [List.map_cons, List.nodup_cons] at hn
    simp only [List.map_cons, List.find?_cons]
    simp at h
    rcases h with ⟨rfl, rfl⟩ | h
    · simp
    · have hne : i' ≠ i := by
        intro he; subst he
        exact hn.1 (List.mem_map_of_mem (f := Prod.snd) h)
      simp [hne]
      simpa using ih hn.2 h

/-- One frame decodes to the output its tag's table entry names. -/
theorem decode_frame {mF : Manager} (hinv : Inv mF) (hd : mF.distributed = true) (hsmall : ∀ t i, (t, i) ∈ mF.printersD → i < 0xD800)
    (dest : Option Text) (term : Option Char) (i : Nat)
    (hin : ((match dest with | none => Target.stdout term | some f => Target.file f term), i) ∈ mF.printersD) (p : Text) :
    decode mF.printerMap [.raw .stdout p, .raw .stdout [Char.ofNat 0x1e, Char.ofNat i]] =
      some [⟨destD dest, p, term⟩] := by
  have hi : i < 0xD800 := hsmall _ _ hin
  rw [decode.eq_3]
  simp only [decode, frameOut, Manager.printerMap, hd, if_true, char_toNat_ofNat i hi]
  have h30 : (Char.ofNat 0x1e).toNat = 0x1e := by decide
  simp only [h30, if_true]
  rw [find_swap mF.printersD hinv.maps.dVals _ i hin]
  cases dest <;> simp [destD]

theorem termV_none : termV none = none := rfl
theorem termV_nl : termV (some '\n') = some '\n' := by decide
theorem termV_nul : termV (some '\x00') = some '\x00' := by decide

/-- Applying the printer a request returned: one output to the requested destination with the
    requested terminator. -/
theorem printer_apply {m' mF : Manager} {cx : Ctx} (name : Text) (dest : Option Text) (term : Option Char)
    (hpf : PrinterFor m' name dest term) (hstep : Step m' mF) (hF : FinalEnv mF cx) (hterm : termV term = term)
    (arg : SExp) (s : Text) (ha : eval (apN closureDepth) cx [] arg = .ok (.str s) []) :
    ∃ evs, eval (apN closureDepth) cx [] (call name [arg]) = .ok .unspec evs ∧
      decode mF.printerMap evs = some [⟨destD dest, s, term⟩] := by
  obtain ⟨i, rfl, hrest⟩ := hpf
  have hname : (GName.mk .print i).text = lf3 (cl!"print") i := rfl
  rw [hname]
  by_cases hd : m'.distributed = true
  · simp only [hd, if_true] at hrest
    have hdF : mF.distributed = true := by rw [hstep.mode, hd]
    obtain ⟨k, ext, hk, hl, henv, hfresh⟩ := hF.printerD hdF i (mem_ext hstep.ext hrest.1)
    refine ⟨_, eval_framed_direct 2 cx ext henv hfresh i k hk arg s hl ha, ?_⟩
    exact decode_frame hF.inv hdF (hF.small hdF) dest term i (hstep.keepD _ hrest.2) s
  · have hd' : m'.distributed = false := by simpa using hd
    simp only [hd', Bool.false_eq_true, if_false] at hrest
    obtain ⟨p, hpl, _, hport⟩ := hrest
    have hdF : mF.distributed = false := by rw [hstep.mode, hd']
    have hio : mF.printerMap = none := by simp [Manager.printerMap, hdF]
    cases dest with
    | none =>
      obtain ⟨k, hl⟩ := hF.printerL_stdout i p.port p.mutex term (mem_ext hstep.ext hpl) (mem_ext hstep.ext hport)
      refine ⟨_, eval_printer_direct _ cx i arg s _ k _ hl ha, ?_⟩
      simp [decode, hterm, destD]
    | some f =>
      obtain ⟨k, hl⟩ := hF.printerL_file i p.port p.mutex term f (mem_ext hstep.ext hpl) (mem_ext hstep.ext hport)
      refine ⟨_, eval_printer_direct _ cx i arg s _ k _ hl ha, ?_⟩
      simp [decode, hterm, destD]

theorem printer_path {m' mF : Manager} {cx : Ctx} (name : Text) (dest : Option Text) (term : Option Char)
    (hpf : PrinterFor m' name dest term) (hstep : Step m' mF) (hF : FinalEnv mF cx) (hterm : termV term = term) :
    ∃ evs, eval (apN closureDepth) cx [] (call (cl!"call-with-relative-path") [sy name]) = .ok .unspec evs ∧
      decode mF.printerMap evs = some [⟨destD dest, cx.file.relPath, term⟩] := by
  obtain ⟨i, rfl, hrest⟩ := hpf
  by_cases hd : m'.distributed = true
  · simp only [hd, if_true] at hrest
    have hdF : mF.distributed = true := by rw [hstep.mode, hd]
    obtain ⟨k, ext, hk, hl, henv, hfresh⟩ := hF.printerD hdF i (mem_ext hstep.ext hrest.1)
    refine ⟨_, eval_framed_path 2 cx hF.gen ext henv hfresh _ i k hk hl, ?_⟩
    exact decode_frame hF.inv hdF (hF.small hdF) dest term i (hstep.keepD _ hrest.2) _
  · have hd' : m'.distributed = false := by simpa using hd
    simp only [hd', Bool.false_eq_true, if_false] at hrest
    obtain ⟨p, hpl, _, hport⟩ := hrest
    have hdF : mF.distributed = false := by rw [hstep.mode, hd']
    cases dest with
    | none =>
      obtain ⟨k, hl⟩ := hF.printerL_stdout i p.port p.mutex term (mem_ext hstep.ext hpl) (mem_ext hstep.ext hport)
      refine ⟨_, eval_printer_path _ cx hF.gen _ _ k _ hl, ?_⟩
      simp [decode, hterm, destD]
    | some f =>
      obtain ⟨k, hl⟩ := hF.printerL_file i p.port p.mutex term f (mem_ext hstep.ext hpl) (mem_ext hstep.ext hport)
      refine ⟨_, eval_printer_path _ cx hF.gen _ _ k _ hl, ?_⟩
      simp [decode, hterm, destD]

end Scheme
end FV
