import FindVerif.Proofs.C02.Tests2
import FindVerif.Proofs.Manager
/-
  The environment the `let*` bindings of a compiled program build: every generated name resolves
  to the value of the binding that introduced it.
-/
namespace FV
namespace Scheme
open Spec (File Rt Dest Output Outcome)

def termV : Option Char → Option Char
  | none => none
  | some c => some (Char.ofNat (c.toNat % 256))

def frameCall (i : Nat) : SExp := call (cl!"%lf3:frame:2") [sy (cl!"line"), .chr i]

/-- The value a binding's initialiser evaluates to in `env`. -/
def bindingValue (env : List (Text × Val)) : Binding → Val
  | .stdoutPort _ => .port .stdout
  | .filePort _ f => .port (.file f)
  | .mutex _ => .mutex env.length
  | .printerL _ prt mtx t =>
    match lookup env (lf3 (cl!"port") prt), lookup env (lf3 (cl!"mutex") mtx) with
    | some (.port d), some (.mutex k) => .printer d k (termV t)
    | _, _ => .unspec
  | .printerD i => .clo [cl!"line"] [frameCall i] env.length
  | .matcher i pat ci => .clo [lf3 (cl!"str") i] [matcherBody i pat ci] env.length
  | .frame => .clo [cl!"s", cl!"d"] [frameBody] env.length

theorem sexp_name (b : Binding) : b.sexp.1 = b.binds.text := by
  cases b <;> simp [Binding.sexp, Binding.binds, GName.text, Kind.text]
  decide

theorem lf3_head (k : Text) (n : Nat) : (lf3 k n).head? = some '%' := by simp [lf3]

theorem gname_head (g : GName) : g.text.head? = some '%' := lf3_head _ _

/-- Environment after evaluating the bindings `bs` on top of `env`. -/
def envFrom (env : List (Text × Val)) : List Binding → List (Text × Val)
  | [] => env
  | b :: bs => envFrom (env ++ [(b.binds.text, bindingValue env b)]) bs

theorem envFrom_append (env : List (Text × Val)) (a b : List Binding) :
    envFrom env (a ++ b) = envFrom (envFrom env a) b := by
  induction a generalizing env with
  | nil => rfl
  | cons x xs ih => simp [envFrom, ih]

theorem envFrom_names (env : List (Text × Val)) (bs : List Binding) :
    (envFrom env bs).map Prod.fst = env.map Prod.fst ++ bs.map (fun b => b.binds.text) := by
  induction bs generalizing env with
  | nil => simp [envFrom]
  | cons x xs ih => simp [envFrom, ih]

theorem envFrom_ext (env : List (Text × Val)) (bs : List Binding) :
    ∃ ext, envFrom env bs = env ++ ext ∧ ext.map Prod.fst = bs.map (fun b => b.binds.text) := by
  induction bs generalizing env with
  | nil => exact ⟨[], by simp [envFrom]⟩
  | cons x xs ih =>
    obtain ⟨ext, h1, h2⟩ := ih (env ++ [(x.binds.text, bindingValue env x)])
    exact ⟨(x.binds.text, bindingValue env x) :: ext, by simp [envFrom, h1], by simp [h2]⟩

theorem envFrom_length (env : List (Text × Val)) (bs : List Binding) : (envFrom env bs).length = env.length + bs.length := by
  have := congrArg List.length (envFrom_names env bs)
  simpa using this

theorem envFrom_gen (env : List (Text × Val)) (bs : List Binding) (h : EnvGen env) : EnvGen (envFrom env bs) := by
  induction bs generalizing env with
  | nil => exact h
  | cons x xs ih =>
    apply ih
    intro n v hm
    simp at hm
    rcases hm with hm | ⟨rfl, _⟩
    · exact h n v hm
    · exact gname_head _

def envOf (vars : List Binding) : List (Text × Val) := envFrom [] vars

theorem envOf_gen (vars : List Binding) : EnvGen (envOf vars) := envFrom_gen [] vars (by intro n v h; simp at h)

/-- A name bound exactly once resolves to the value of its binding. -/
theorem lookup_envOf (pre post : List Binding) (b : Binding)
    (hn : ((pre ++ b :: post).map Binding.binds).Nodup) :
    lookup (envOf (pre ++ b :: post)) b.binds.text = some (bindingValue (envOf pre) b) := by
  unfold envOf
  rw [envFrom_append]
  simp only [envFrom]
  obtain ⟨ext, h1, h2⟩ := envFrom_ext (envFrom [] pre ++ [(b.binds.text, bindingValue (envFrom [] pre) b)]) post
  rw [h1, lookup_append_fresh, lookup_append_single]
  · simp
  · intro n v hm he
    have hn' : n ∈ post.map (fun c => c.binds.text) := by rw [← h2]; exact List.mem_map_of_mem (f := Prod.fst) hm
    obtain ⟨c, hc, rfl⟩ := List.mem_map.mp hn'
    have := GName.text_injective _ _ he
    simp only [List.map_append, List.map_cons] at hn
    have hnd := (List.nodup_append.mp hn).2.1
    rw [List.nodup_cons] at hnd
    exact hnd.1 (this ▸ List.mem_map_of_mem hc)

/-- Looking a name up in a longer environment: later bindings have other names. -/
theorem lookup_envOf_prefix (pre post : List Binding) (x : Text)
    (hfresh : ∀ c ∈ post, c.binds.text ≠ x) : lookup (envOf (pre ++ post)) x = lookup (envOf pre) x := by
  unfold envOf
  rw [envFrom_append]
  obtain ⟨ext, h1, h2⟩ := envFrom_ext (envFrom [] pre) post
  rw [h1, lookup_append_fresh]
  intro n v hm he
  have hn' : n ∈ post.map (fun c => c.binds.text) := by rw [← h2]; exact List.mem_map_of_mem (f := Prod.fst) hm
  obtain ⟨c, hc, rfl⟩ := List.mem_map.mp hn'
  exact hfresh c hc he

end Scheme
end FV

namespace FV
namespace Scheme
open Spec (File Rt Dest Output Outcome)

theorem envGen_nil : EnvGen ([] : List (Text × Val)) := by intro n v h; simp at h

theorem port_lookup (pre : List Binding) (prt : Nat) (hn : (pre.map Binding.binds).Nodup)
    (hm : (⟨.port, prt⟩ : GName) ∈ pre.map Binding.binds) :
    ∃ d, lookup (envOf pre) (lf3 (cl!"port") prt) = some (.port d) ∧
      ((Binding.stdoutPort prt ∈ pre ∧ d = .stdout) ∨ ∃ f, Binding.filePort prt f ∈ pre ∧ d = .file f) := by
  obtain ⟨c, hc, hb⟩ := List.mem_map.mp hm
  obtain ⟨p1, p2, rfl⟩ := List.append_of_mem hc
  have hl := lookup_envOf p1 p2 c hn
  rw [hb] at hl
  cases c <;> simp [Binding.binds] at hb
  · subst hb; exact ⟨.stdout, hl, Or.inl ⟨by simp, rfl⟩⟩
  · rename_i i f; subst hb; exact ⟨.file f, hl, Or.inr ⟨f, by simp, rfl⟩⟩

theorem mutex_lookup (pre : List Binding) (mtx : Nat) (hn : (pre.map Binding.binds).Nodup)
    (hm : (⟨.mutex, mtx⟩ : GName) ∈ pre.map Binding.binds) :
    ∃ k, lookup (envOf pre) (lf3 (cl!"mutex") mtx) = some (.mutex k) := by
  obtain ⟨c, hc, hb⟩ := List.mem_map.mp hm
  obtain ⟨p1, p2, rfl⟩ := List.append_of_mem hc
  have hl := lookup_envOf p1 p2 c hn
  rw [hb] at hl
  cases c <;> simp [Binding.binds] at hb
  subst hb; exact ⟨_, hl⟩

theorem eval_sym_env (ap : CloAp) (cx : Ctx) (x : Text) (v : Val) (h : lookup cx.env x = some v) :
    eval ap cx [] (.sym x) = .ok v [] := by
  simp [eval, varRef, lookup, h]

theorem eval_lambda (ap : CloAp) (cx : Ctx) (ps : List SExp) (names : List Text) (body : SExp)
    (hp : paramNames ps = some names) :
    eval ap cx [] (call (cl!"lambda") [.list ps, body]) = .ok (.clo names [body] cx.env.length) [] := by
  unfold call sy
  rw [eval.eq_7]
  simp [mkLambda, hp]

/-- Each initialiser evaluates, without output, to the value recorded for it. -/
theorem eval_binding (rt : Rt) (file : File) (pre : List Binding) (b : Binding)
    (hn : (pre.map Binding.binds).Nodup) (hu : ∀ u ∈ b.uses, u ∈ pre.map Binding.binds) :
    eval (apN closureDepth) { rt := rt, file := file, env := envOf pre } [] b.sexp.2 = .ok (bindingValue (envOf pre) b) [] := by
  have hg : EnvGen ({ rt := rt, file := file, env := envOf pre } : Ctx).env := envOf_gen pre
  cases b with
  | stdoutPort i =>
    simp only [Binding.sexp, bindingValue]
    rw [eval_call _ hg envGen_nil _ _ [] [] (by decide) (by rfl) (by decide) (by decide) (by decide) (by decide) (by simp)]; rfl
  | filePort i f =>
    simp only [Binding.sexp, bindingValue]
    rw [eval_call _ hg envGen_nil _ _ _ _ (by decide) (by rfl) (by decide) (by decide) (by decide) (by decide)
      (evalArgs_two _ _ _ _ _ (eval_str _ _) (eval_str _ _))]; rfl
  | mutex i =>
    simp only [Binding.sexp, bindingValue]
    rw [eval_call _ hg envGen_nil _ _ [] [] (by decide) (by rfl) (by decide) (by decide) (by decide) (by decide) (by simp)]; rfl
  | printerL i prt mtx t =>
    obtain ⟨d, hd, _⟩ := port_lookup pre prt hn (hu _ (by simp [Binding.uses]))
    obtain ⟨k, hk⟩ := mutex_lookup pre mtx hn (hu _ (by simp [Binding.uses]))
    simp only [Binding.sexp, bindingValue, hd, hk]
    have h1 := eval_sym_env (apN closureDepth) { rt := rt, file := file, env := envOf pre } _ _ hd
    have h2 := eval_sym_env (apN closureDepth) { rt := rt, file := file, env := envOf pre } _ _ hk
    have hargs : evalArgs (apN closureDepth) { rt := rt, file := file, env := envOf pre } []
        [sy (lf3 (cl!"port") prt), sy (lf3 (cl!"mutex") mtx), termS t] =
        .ok [.port d, .mutex k, (match t with | none => Val.bool false | some c => Val.chr (c.toNat % 256))] [] := by
      cases t <;> simp [evalArgs, sy, h1, h2, termS]
    rw [eval_call _ hg envGen_nil _ _ _ _ (by decide) (by rfl) (by decide) (by decide) (by decide) (by decide) hargs]
    cases t <;> simp [applyPrim, termV]
  | printerD i =>
    simp only [Binding.sexp, bindingValue]
    exact eval_lambda _ _ _ _ _ (by simp [paramNames, sy])
  | matcher i pat ci =>
    simp only [Binding.sexp, bindingValue]
    exact eval_lambda _ _ _ _ _ (by simp [paramNames, sy])
  | frame =>
    simp only [Binding.sexp, bindingValue]
    exact eval_lambda _ _ _ _ _ (by simp [paramNames, sy])

/-- `let*` builds exactly `envOf`. -/
theorem evalBindings_envOf (rt : Rt) (file : File) (pre post : List Binding)
    (hn : ((pre ++ post).map Binding.binds).Nodup)
    (hu : ∀ p b q, pre ++ post = p ++ b :: q → ∀ u ∈ b.uses, u ∈ p.map Binding.binds) :
    evalBindings rt file (post.map Binding.sexp) (envOf pre) = .ok (envOf (pre ++ post)) := by
  induction post generalizing pre with
  | nil => simp [evalBindings]
  | cons b rest ih =>
    have hnp : (pre.map Binding.binds).Nodup := by
      simp only [List.map_append] at hn; exact (List.nodup_append.mp hn).1
    have he := eval_binding rt file pre b hnp (hu pre b rest rfl)
    simp only [List.map_cons, evalBindings]
    have hs : (b.sexp.1, b.sexp.2) = b.sexp := rfl
    rw [show (Binding.sexp b) = (b.sexp.1, b.sexp.2) from rfl]
    simp only [evalBindings, he]
    have hstep : envOf pre ++ [(b.sexp.1, bindingValue (envOf pre) b)] = envOf (pre ++ [b]) := by
      unfold envOf
      rw [envFrom_append]
      simp [envFrom, sexp_name]
    rw [hstep]
    have := ih (pre ++ [b]) (by simpa using hn) (by intro p c q h; exact hu p c q (by simpa using h))
    simpa using this

end Scheme
end FV
