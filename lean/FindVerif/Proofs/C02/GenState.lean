import FindVerif.Proofs.C02.Format
import FindVerif.Proofs.CompileInv
/- The structured generator threads the manager exactly like the text generator. -/
namespace FV
open Scheme

def CRes.state {α : Type} : CRes (α × CState) → CRes CState
  | .ok (_, s) => .ok s
  | .err e => .err e
  | .panic s => .panic s

theorem specialValue_isSome (v : FormatSpecial) : (specialValue v).isSome = (specialLiteral v).isSome := by
  cases v <;> rfl

theorem elementValue_err (e : FormatElement) :
    (match elementValue e with | .ok _ => none | .error x => some x) =
    (match elementTemplate e with | .ok _ => none | .error x => some x) := by
  cases e with
  | literal s => rfl
  | field f => simp only [elementValue, elementTemplate]; cases placeholder f <;> rfl
  | special v => simp only [elementValue, elementTemplate]; cases v <;> rfl

theorem templateValue_err (es : List FormatElement) :
    (match templateValue es with | .ok _ => none | .error x => some x) =
    (match templateOf es with | .ok _ => none | .error x => some x) := by
  induction es with
  | nil => rfl
  | cons e es ih =>
    have he := elementValue_err e
    simp only [templateValue, templateOf]
    cases h1 : elementValue e <;> cases h2 : elementTemplate e <;> rw [h1, h2] at he <;> simp at he
    · subst he; rfl
    · cases h3 : templateValue es <;> cases h4 : templateOf es <;> rw [h3, h4] at ih <;> simp at ih
      · subst ih; rfl

theorem genFormat_err (es : List FormatElement) :
    (match genFormat es with | .ok _ => none | .error x => some x) =
    (match compileFormat es with | .ok _ => none | .error x => some x) := by
  have := templateValue_err es
  simp only [genFormat, compileFormat]
  cases h1 : templateValue es <;> cases h2 : templateOf es <;> rw [h1, h2] at this <;> simp at this
  · subst this; rfl

theorem genTest_state (clk : Nat → Nat) (t : Test) (st : CState) :
    (genTest clk t st).state = (compileTest clk t st).state := by
  cases t with
  | xattrMatch f v =>
    simp only [genTest, compileTest]
    by_cases h : (!(f.any isOffending || v.any isOffending)) = true <;> simp [h, CRes.state]
  | _ =>
    first
      | rfl
      | (simp only [genTest, compileTest, CRes.state]; done)
      | (simp only [genTest, compileTest, CRes.state]; rfl)
      | (simp only [genTest, compileTest, CRes.state]; split <;> rfl)

theorem genAction_state (a : Action) (st : CState) : (genAction a st).state = (compileAction a st).state := by
  cases a <;> simp only [genAction, compileAction, CRes.state]
  all_goals first
    | rfl
    | (rename_i es
       have := genFormat_err es
       cases h1 : genFormat es <;> cases h2 : compileFormat es <;> rw [h1, h2] at this <;> simp at this
       · subst this; rfl)

theorem genExpr_state (clk : Nat → Nat) : ∀ (e : Expr) (st : CState),
    (genExpr clk e st).state = (compileExpr clk e st).state := by
  intro e
  induction e with
  | test t => intro st; exact genTest_state clk t st
  | action a => intro st; exact genAction_state a st
  | global g => intro st; rfl
  | positional p => intro st; rfl
  | prec e _ => intro st; rfl
  | not e ih =>
    intro st
    have := ih st
    simp only [genExpr, compileExpr]
    cases h1 : genExpr clk e st <;> cases h2 : compileExpr clk e st <;> rw [h1, h2] at this <;>
      simp [CRes.state] at this ⊢ <;> first | exact this | skip
    all_goals (rename_i a b; obtain ⟨_, _⟩ := a; obtain ⟨_, _⟩ := b; simpa [CRes.state] using this)
  | and a b iha ihb => intro st; exact bin clk a b iha ihb st _ _
  | list a b iha ihb => intro st; exact bin clk a b iha ihb st _ _
  | or a b iha ihb => intro st; exact bin clk a b iha ihb st _ _
where
  bin (clk : Nat → Nat) (a b : Expr)
      (iha : ∀ st, (genExpr clk a st).state = (compileExpr clk a st).state)
      (ihb : ∀ st, (genExpr clk b st).state = (compileExpr clk b st).state)
      (st : CState) (h1 h2 : Text) :
      (genExpr.bin h1 (genExpr clk a st) (genExpr clk b)).state =
      (compileExpr.bin h2 (compileExpr clk a st) (compileExpr clk b)).state := by
    have ha := iha st
    simp only [genExpr.bin, compileExpr.bin]
    cases g1 : genExpr clk a st with
    | err x => cases c1 : compileExpr clk a st <;> rw [g1, c1] at ha <;> simp [CRes.state] at ha ⊢ <;> exact ha
    | panic s => cases c1 : compileExpr clk a st <;> rw [g1, c1] at ha <;> simp [CRes.state] at ha ⊢ <;> exact ha
    | ok r =>
      obtain ⟨sx, s1⟩ := r
      cases c1 : compileExpr clk a st with
      | err x => rw [g1, c1] at ha; simp [CRes.state] at ha
      | panic s => rw [g1, c1] at ha; simp [CRes.state] at ha
      | ok r' =>
        obtain ⟨tx, s1'⟩ := r'
        rw [g1, c1] at ha
        simp [CRes.state] at ha
        subst ha
        have hb := ihb s1
        simp only
        cases g2 : genExpr clk b s1 <;> cases c2 : compileExpr clk b s1 <;> rw [g2, c2] at hb <;>
          simp [CRes.state] at hb ⊢ <;> first | exact hb | skip
        all_goals (rename_i p q; obtain ⟨_, _⟩ := p; obtain ⟨_, _⟩ := q; simpa [CRes.state] using hb)

/-- From a successful structured generation to the text generation with the same final state. -/
theorem genExpr_ok (clk : Nat → Nat) (e : Expr) (st st' : CState) (sx : SExp)
    (h : genExpr clk e st = .ok (sx, st')) : ∃ txt, compileExpr clk e st = .ok (txt, st') := by
  have := genExpr_state clk e st
  rw [h] at this
  cases hc : compileExpr clk e st with
  | ok r => obtain ⟨t, s⟩ := r; rw [hc] at this; simp [CRes.state] at this; subst this; exact ⟨t, rfl⟩
  | err x => rw [hc] at this; simp [CRes.state] at this
  | panic s => rw [hc] at this; simp [CRes.state] at this

theorem genExpr_step (clk : Nat → Nat) (e : Expr) (st st' : CState) (sx : SExp)
    (hi : Inv st.mgr) (h : genExpr clk e st = .ok (sx, st')) : Step st.mgr st'.mgr := by
  obtain ⟨txt, hc⟩ := genExpr_ok clk e st st' sx h
  exact compileExpr_step clk e st st' txt hi hc

end FV
