import FindVerif.Spec.Scheme.Eval
/- Basic facts about the evaluator: sequencing, environments, calls of runtime procedures. -/
namespace FV
namespace Scheme
open Spec (File Rt Dest Output Outcome)

@[simp] theorem R.bind_ok_nil {α β : Type} (a : α) (k : α → R β) :
    (R.ok a []).bind k = k a := by
  simp only [R.bind]
  cases k a <;> simp

theorem R.bind_ok {α β : Type} (a : α) (ev : List Event) (k : α → R β) :
    (R.ok a ev).bind k = match k a with
      | .ok b ev' => .ok b (ev ++ ev')
      | .stop ev' => .stop (ev ++ ev')
      | .fail w => .fail w := rfl

@[simp] theorem R.bind_stop {α β : Type} (ev : List Event) (k : α → R β) : (R.stop ev : R α).bind k = .stop ev := rfl
@[simp] theorem R.bind_fail {α β : Type} (w : String) (k : α → R β) : (R.fail w : R α).bind k = .fail w := rfl

/-- All names in a generated environment start with `%`. -/
def EnvGen (env : List (Text × Val)) : Prop := ∀ n v, (n, v) ∈ env → n.head? = some '%'

theorem lookup_none_of_notMem (env : List (Text × Val)) (x : Text) (h : ∀ n v, (n, v) ∈ env → n ≠ x) :
    lookup env x = none := by
  induction env with
  | nil => rfl
  | cons a rest ih =>
    obtain ⟨n, v⟩ := a
    simp only [lookup]
    rw [ih (fun n' v' hm => h n' v' (by simp [hm]))]
    simp [h n v (by simp)]

theorem lookup_none_of_gen {env : List (Text × Val)} (hg : EnvGen env) (x : Text) (hx : x.head? ≠ some '%') :
    lookup env x = none :=
  lookup_none_of_notMem env x fun n v hm he => hx (he ▸ hg n v hm)

theorem EnvGen.take {env : List (Text × Val)} (hg : EnvGen env) (k : Nat) : EnvGen (env.take k) :=
  fun n v hm => hg n v (List.mem_of_mem_take hm)

theorem lookup_append_single (env : List (Text × Val)) (n : Text) (v : Val) (x : Text) :
    lookup (env ++ [(n, v)]) x = if n = x then some v else lookup env x := by
  induction env with
  | nil => simp [lookup]
  | cons a rest ih =>
    obtain ⟨n', v'⟩ := a
    simp only [List.cons_append, lookup, ih]
    by_cases h : n = x
    · simp [h]
    · simp [h]

theorem lookup_append_fresh (env extra : List (Text × Val)) (x : Text) (h : ∀ n v, (n, v) ∈ extra → n ≠ x) :
    lookup (env ++ extra) x = lookup env x := by
  induction env with
  | nil => simp [lookup, lookup_none_of_notMem extra x h]
  | cons a rest ih =>
    obtain ⟨n, v⟩ := a
    simp only [List.cons_append, lookup, ih]

/-- A name bound exactly once resolves to its binding. -/
theorem lookup_of_split (pre post : List (Text × Val)) (n : Text) (v : Val)
    (hpost : ∀ n' v', (n', v') ∈ post → n' ≠ n) : lookup (pre ++ (n, v) :: post) n = some v := by
  have : pre ++ (n, v) :: post = (pre ++ [(n, v)]) ++ post := by simp
  rw [this, lookup_append_fresh _ _ _ hpost, lookup_append_single]
  simp

/-! ### references to runtime procedures -/

theorem varRef_builtin {cx : Ctx} {loc : List (Text × Val)} (hg : EnvGen cx.env) (hl : EnvGen loc)
    (x : Text) (p : Prim) (hx : x.head? ≠ some '%') (hp : primOf x = some p) :
    varRef cx loc x = some (.builtin x) := by
  simp [varRef, lookup_none_of_gen hl x hx, lookup_none_of_gen hg x hx, hp]

/-- Calling a first-order runtime procedure by name. -/
theorem eval_prim (ap : CloAp) {cx : Ctx} {loc : List (Text × Val)} (hg : EnvGen cx.env) (hl : EnvGen loc)
    (f : Text) (p : Prim) (args : List SExp)
    (hx : f.head? ≠ some '%') (hp : primOf f = some p)
    (h1 : f ≠ cl!"and") (h2 : f ≠ cl!"or") (h3 : f ≠ cl!"lambda") (h4 : f ≠ cl!"with-mutex") :
    eval ap cx loc (.list (.sym f :: args)) =
      (evalArgs ap cx loc args).bind fun vs => applyVal ap cx (.builtin f) vs := by
  rw [eval.eq_7]
  simp only [h1, h2, h3, h4, if_false, varRef_builtin hg hl f p hx hp]

theorem applyVal_builtin (ap : CloAp) (cx : Ctx) (f : Text) (p : Prim) (hp : primOf f = some p) (vs : List Val) :
    applyVal ap cx (.builtin f) vs = applyPrim cx (apvHO ap cx) p vs := by
  simp [applyVal, hp]

@[simp] theorem evalArgs_nil (ap : CloAp) (cx : Ctx) (loc : List (Text × Val)) : evalArgs ap cx loc [] = .ok [] [] := by
  simp [evalArgs]

theorem evalArgs_cons_pure (ap : CloAp) (cx : Ctx) (loc : List (Text × Val)) (x : SExp) (xs : List SExp) (v : Val) (vs : List Val)
    (h1 : eval ap cx loc x = .ok v []) (h2 : evalArgs ap cx loc xs = .ok vs []) :
    evalArgs ap cx loc (x :: xs) = .ok (v :: vs) [] := by
  simp [evalArgs, h1, h2]

end Scheme
end FV
