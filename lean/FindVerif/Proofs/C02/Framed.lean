import FindVerif.Proofs.C02.Resources
/- Framed mode: a printer hands the line and its tag to the frame procedure, which writes the
   payload and then separator + tag to the shared port. -/
namespace FV
namespace Scheme
open Spec (File Rt Dest Output Outcome)

/-- Calling a runtime procedure by name with pure arguments (no shadowing of the name). -/
theorem eval_call' (ap : CloAp) (cx : Ctx) (loc : List (Text × Val)) (f : Text) (p : Prim) (args : List SExp) (vs : List Val)
    (hl : lookup loc f = none) (he : lookup cx.env f = none) (hp : primOf f = some p)
    (h1 : f ≠ cl!"and") (h2 : f ≠ cl!"or") (h3 : f ≠ cl!"lambda") (h4 : f ≠ cl!"with-mutex")
    (hargs : evalArgs ap cx loc args = .ok vs []) :
    eval ap cx loc (call f args) = applyPrim cx (apvHO ap cx) p vs := by
  unfold call sy
  rw [eval.eq_7]
  simp only [h1, h2, h3, h4, if_false, varRef, hl, he, hp, Option.map]
  rw [hargs, R.bind_ok_nil, applyVal_builtin ap cx f p hp]

/-- The three bindings every framed program starts with. -/
def E3 : List (Text × Val) :=
  [(cl!"%lf3:port:0", .port .stdout), (cl!"%lf3:mutex:1", .mutex 1),
   (cl!"%lf3:frame:2", .clo [cl!"s", cl!"d"] [frameBody] 2)]

theorem envOf_distInit : envOf Manager.distInit.vars = E3 := by
  simp [envOf, envFrom, Manager.distInit, bindingValue, Binding.binds, GName.text, Kind.text, E3, lf3]
  decide

theorem eval_frameBody (ap : CloAp) (cx : Ctx) (rest : List (Text × Val)) (henv : cx.env = E3.take 2) (s : Text) (i : Nat) :
    eval ap cx [(cl!"s", .str s), (cl!"d", .chr i)] frameBody =
      .ok .unspec [.raw .stdout s, .raw .stdout [Char.ofNat 0x1e, Char.ofNat i]] := by
  have e1 : lookup cx.env (cl!"%lf3:port:0") = some (.port .stdout) := by rw [henv]; simp [E3, lookup]
  have e2 : lookup cx.env (cl!"%lf3:mutex:1") = some (.mutex 1) := by rw [henv]; simp [E3, lookup]
  have en : ∀ x, x ≠ cl!"%lf3:port:0" → x ≠ cl!"%lf3:mutex:1" → lookup cx.env x = none := by
    intro x h1 h2; rw [henv]; simp [E3, lookup, Ne.symm h1, Ne.symm h2]
  have ls : lookup [(cl!"s", Val.str s), (cl!"d", Val.chr i)] (cl!"s") = some (.str s) := by simp [lookup]
  have ld : lookup [(cl!"s", Val.str s), (cl!"d", Val.chr i)] (cl!"d") = some (.chr i) := by simp [lookup]
  have ln : ∀ x, x ≠ cl!"s" → x ≠ cl!"d" → lookup [(cl!"s", Val.str s), (cl!"d", Val.chr i)] x = none := by
    intro x h1 h2; simp [lookup, Ne.symm h1, Ne.symm h2]
  have evS : eval ap cx [(cl!"s", .str s), (cl!"d", .chr i)] (sy (cl!"s")) = .ok (.str s) [] := by
    simp [sy, eval, varRef, ls]
  have evD : eval ap cx [(cl!"s", .str s), (cl!"d", .chr i)] (sy (cl!"d")) = .ok (.chr i) [] := by
    simp [sy, eval, varRef, ld]
  have evP : eval ap cx [(cl!"s", .str s), (cl!"d", .chr i)] (sy (cl!"%lf3:port:0")) = .ok (.port .stdout) [] := by
    have := ln (cl!"%lf3:port:0") (by decide) (by decide)
    simp [sy, eval, varRef, this, e1]
  have evM : eval ap cx [(cl!"s", .str s), (cl!"d", .chr i)] (sy (cl!"%lf3:mutex:1")) = .ok (.mutex 1) [] := by
    have := ln (cl!"%lf3:mutex:1") (by decide) (by decide)
    simp [sy, eval, varRef, this, e2]
  have d1 : eval ap cx [(cl!"s", .str s), (cl!"d", .chr i)] (call (cl!"display") [sy (cl!"s"), sy (cl!"%lf3:port:0")]) =
      .ok .unspec [.raw .stdout s] := by
    rw [eval_call' ap cx _ _ _ _ _ (ln _ (by decide) (by decide)) (en _ (by decide) (by decide)) (by rfl)
      (by decide) (by decide) (by decide) (by decide) (evalArgs_two ap _ _ _ _ evS evP)]
    simp [applyPrim, displayText]
  have st : eval ap cx [(cl!"s", .str s), (cl!"d", .chr i)] (call (cl!"string") [.chr 0x1e, sy (cl!"d")]) =
      .ok (.str [Char.ofNat 0x1e, Char.ofNat i]) [] := by
    rw [eval_call' ap cx _ _ _ _ _ (ln _ (by decide) (by decide)) (en _ (by decide) (by decide)) (by rfl)
      (by decide) (by decide) (by decide) (by decide) (evalArgs_two ap _ _ _ _ (eval_chr ap _) evD)]
    simp [applyPrim, charsOf]
  have d2 : eval ap cx [(cl!"s", .str s), (cl!"d", .chr i)]
      (call (cl!"display") [call (cl!"string") [.chr 0x1e, sy (cl!"d")], sy (cl!"%lf3:port:0")]) =
      .ok .unspec [.raw .stdout [Char.ofNat 0x1e, Char.ofNat i]] := by
    rw [eval_call' ap cx _ _ _ _ _ (ln _ (by decide) (by decide)) (en _ (by decide) (by decide)) (by rfl)
      (by decide) (by decide) (by decide) (by decide) (evalArgs_two ap _ _ _ _ st evP)]
    simp [applyPrim, displayText]
  unfold frameBody
  rw [show call (cl!"with-mutex") [sy (cl!"%lf3:mutex:1"),
        call (cl!"display") [sy (cl!"s"), sy (cl!"%lf3:port:0")],
        call (cl!"display") [call (cl!"string") [.chr 0x1e, sy (cl!"d")], sy (cl!"%lf3:port:0")]] =
      SExp.list (SExp.sym (cl!"with-mutex") :: [sy (cl!"%lf3:mutex:1"),
        call (cl!"display") [sy (cl!"s"), sy (cl!"%lf3:port:0")],
        call (cl!"display") [call (cl!"string") [.chr 0x1e, sy (cl!"d")], sy (cl!"%lf3:port:0")]]) from rfl]
  rw [eval.eq_7]
  simp only [show ¬ (cl!"with-mutex" = cl!"and") by decide, show ¬ (cl!"with-mutex" = cl!"or") by decide,
    show ¬ (cl!"with-mutex" = cl!"lambda") by decide, if_false, if_true, List.isEmpty_cons, Bool.false_eq_true]
  simp [evalSeq, evM, d1, d2, R.bind]

end Scheme
end FV

namespace FV
namespace Scheme
open Spec (File Rt Dest Output Outcome)

theorem apN_succ (n : Nat) (cx : Ctx) (ps : List Text) (body : List SExp) (depth : Nat) (args : List Val) :
    apN (n + 1) cx ps body depth args =
      if ps.length = args.length then evalSeq (apN n) { cx with env := cx.env.take depth } (ps.zip args) body
      else .fail "wrong number of arguments" := rfl

/-- A framed printer applied to a line: payload, then separator + tag, on standard output. -/
theorem apply_framed_printer (n : Nat) (cx : Ctx) (ext : List (Text × Val)) (henv : cx.env = E3 ++ ext)
    (hfresh : ∀ m v, (m, v) ∈ ext → m ≠ cl!"%lf3:frame:2") (i k : Nat) (hk : 3 ≤ k) (s : Text) :
    apN (n + 2) cx [cl!"line"] [frameCall i] k [.str s] =
      .ok .unspec [.raw .stdout s, .raw .stdout [Char.ofNat 0x1e, Char.ofNat i]] := by
  have htake : cx.env.take k = E3 ++ ext.take (k - 3) := by
    rw [henv, List.take_append]
    have : E3.length = 3 := rfl
    rw [this, List.take_of_length_le (by rw [this]; exact hk)]
  rw [apN_succ]
  simp only [List.length_cons, List.length_nil, if_true, List.zip_cons_cons, List.zip_nil_right, evalSeq]
  have hlf : lookup (cx.env.take k) (cl!"%lf3:frame:2") = some (.clo [cl!"s", cl!"d"] [frameBody] 2) := by
    rw [htake, lookup_append_fresh _ _ _ (fun m v hm => hfresh m v (List.mem_of_mem_take hm))]
    simp [E3, lookup]
  have hloc : lookup [(cl!"line", Val.str s)] (cl!"%lf3:frame:2") = none := by simp [lookup]
  have hline : eval (apN (n + 1)) { cx with env := cx.env.take k } [(cl!"line", .str s)] (sy (cl!"line")) = .ok (.str s) [] := by
    simp [sy, eval, varRef, lookup]
  have hargs : evalArgs (apN (n + 1)) { cx with env := cx.env.take k } [(cl!"line", .str s)] [sy (cl!"line"), .chr i] =
      .ok [.str s, .chr i] [] := evalArgs_two _ _ _ _ _ hline (eval_chr _ _)
  unfold frameCall
  rw [show call (cl!"%lf3:frame:2") [sy (cl!"line"), SExp.chr i] =
      SExp.list (SExp.sym (cl!"%lf3:frame:2") :: [sy (cl!"line"), SExp.chr i]) from rfl]
  rw [eval.eq_7]
  simp only [show ¬ (cl!"%lf3:frame:2" = cl!"and") by decide, show ¬ (cl!"%lf3:frame:2" = cl!"or") by decide,
    show ¬ (cl!"%lf3:frame:2" = cl!"lambda") by decide, show ¬ (cl!"%lf3:frame:2" = cl!"with-mutex") by decide,
    if_false, varRef, hloc, hlf, hargs, R.bind_ok_nil]
  simp only [applyVal]
  rw [apN_succ]
  simp only [List.length_cons, List.length_nil, if_true, List.zip_cons_cons, List.zip_nil_right, evalSeq]
  apply eval_frameBody _ _ []
  show (cx.env.take k).take 2 = E3.take 2
  rw [htake, List.take_append]
  simp [E3]

theorem eval_framed_path (n : Nat) (cx : Ctx) (hg : EnvGen cx.env) (ext : List (Text × Val)) (henv : cx.env = E3 ++ ext)
    (hfresh : ∀ m v, (m, v) ∈ ext → m ≠ cl!"%lf3:frame:2") (name : Text) (i k : Nat) (hk : 3 ≤ k)
    (hl : lookup cx.env name = some (.clo [cl!"line"] [frameCall i] k)) :
    eval (apN (n + 2)) cx [] (call (cl!"call-with-relative-path") [sy name]) =
      .ok .unspec [.raw .stdout cx.file.relPath, .raw .stdout [Char.ofNat 0x1e, Char.ofNat i]] := by
  have harg : evalArgs (apN (n + 2)) cx [] [sy name] = .ok [.clo [cl!"line"] [frameCall i] k] [] :=
    evalArgs_one _ _ _ (eval_sym_env _ cx name _ hl)
  rw [eval_call _ hg envGen_nil _ _ _ _ (by decide) (by rfl) (by decide) (by decide) (by decide) (by decide) harg]
  simp only [applyPrim, apvHO]
  exact apply_framed_printer n cx ext henv hfresh i k hk _

theorem eval_framed_direct (n : Nat) (cx : Ctx) (ext : List (Text × Val)) (henv : cx.env = E3 ++ ext)
    (hfresh : ∀ m v, (m, v) ∈ ext → m ≠ cl!"%lf3:frame:2") (i k : Nat) (hk : 3 ≤ k) (arg : SExp) (s : Text)
    (hl : lookup cx.env (lf3 (cl!"print") i) = some (.clo [cl!"line"] [frameCall i] k))
    (ha : eval (apN (n + 2)) cx [] arg = .ok (.str s) []) :
    eval (apN (n + 2)) cx [] (call (lf3 (cl!"print") i) [arg]) =
      .ok .unspec [.raw .stdout s, .raw .stdout [Char.ofNat 0x1e, Char.ofNat i]] := by
  rw [eval_call_gen _ cx _ i arg _ _ hl ha]
  simp only [applyVal]
  exact apply_framed_printer n cx ext henv hfresh i k hk s

end Scheme
end FV
