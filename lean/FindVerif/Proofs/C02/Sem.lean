import FindVerif.Proofs.C02.Main
/- Leaves and operators: the structured program of a tree means what the tree means. -/
namespace FV
namespace Scheme
open Spec (File Rt Dest Output Outcome)

theorem closureDepth_eq : closureDepth = 3 + 1 := rfl

theorem truthy_bool (x : Bool) : (Val.bool x).truthy = x := by cases x <;> rfl

/-- Tests. -/
theorem test_sem {mF : Manager} {cx : Ctx} (clk : Nat → Nat) (now : Nat) (hclk : ∀ i, clk i = now)
    (t : Test) (st st' : CState) (sx : SExp) (hgen : genTest clk t st = .ok (sx, st'))
    (hinv : Inv st.mgr) (hstep : Step st'.mgr mF) (hF : FinalEnv mF cx) (b : Bool)
    (hb : Spec.testHolds cx.rt now t cx.file = some b) :
    ∃ v, eval (apN closureDepth) cx [] sx = .ok v [] ∧ v.truthy = b := by
  have hg := hF.gen
  have nameCase : ∀ (pre : Text) (p : Prim) (g : File → Text) (s : Text) (ci : Bool), CallWith pre p g →
      sx = call pre [sy (st.mgr.getMatcher s ci).1] → st' = { st with mgr := (st.mgr.getMatcher s ci).2 } →
      eval (apN closureDepth) cx [] sx = .ok (.bool (Spec.nameHolds cx.rt ci s (g cx.file))) [] := by
    intro pre p g s ci hcw hsx hst
    obtain ⟨_, i, hname, hbind, _⟩ := getMatcher_spec st.mgr s ci hinv
    subst hst
    obtain ⟨k, hl⟩ := hF.matcher i s ci (mem_ext hstep.ext hbind)
    rw [hsx, hname, closureDepth_eq]
    exact eval_matcher_call 3 cx hg hcw _ i k s ci hl
  cases t <;> simp only [genTest] at hgen
  case accessTime c =>
    cases hgen; simp [Spec.testHolds] at hb; subst hb
    exact ⟨_, by rw [hclk]; exact eval_genTimeComp _ hg envGen_nil now c .atime, truthy_bool _⟩
  case changeTime c =>
    cases hgen; simp [Spec.testHolds] at hb; subst hb
    exact ⟨_, by rw [hclk]; exact eval_genTimeComp _ hg envGen_nil now c .ctime, truthy_bool _⟩
  case modifyTime c =>
    cases hgen; simp [Spec.testHolds] at hb; subst hb
    exact ⟨_, by rw [hclk]; exact eval_genTimeComp _ hg envGen_nil now c .mtime, truthy_bool _⟩
  case empty => cases hgen; simp [Spec.testHolds] at hb; subst hb; exact ⟨_, eval_flag _ hg envGen_nil .empty, truthy_bool _⟩
  case executable => cases hgen; simp [Spec.testHolds] at hb; subst hb; exact ⟨_, eval_flag _ hg envGen_nil .executable, truthy_bool _⟩
  case readable => cases hgen; simp [Spec.testHolds] at hb; subst hb; exact ⟨_, eval_flag _ hg envGen_nil .readable, truthy_bool _⟩
  case writable => cases hgen; simp [Spec.testHolds] at hb; subst hb; exact ⟨_, eval_flag _ hg envGen_nil .writable, truthy_bool _⟩
  case false_ => cases hgen; simp [Spec.testHolds] at hb; subst hb; exact ⟨_, eval_bool _ _, truthy_bool _⟩
  case true_ => cases hgen; simp [Spec.testHolds] at hb; subst hb; exact ⟨_, eval_bool _ _, truthy_bool _⟩
  case groupId c => cases hgen; simp [Spec.testHolds] at hb; subst hb; exact ⟨_, eval_genCmp _ hg envGen_nil c .gid, truthy_bool _⟩
  case userId c => cases hgen; simp [Spec.testHolds] at hb; subst hb; exact ⟨_, eval_genCmp _ hg envGen_nil c .uid, truthy_bool _⟩
  case inodeNumber c => cases hgen; simp [Spec.testHolds] at hb; subst hb; exact ⟨_, eval_genCmp _ hg envGen_nil c .ino, truthy_bool _⟩
  case links c => cases hgen; simp [Spec.testHolds] at hb; subst hb; exact ⟨_, eval_genCmp _ hg envGen_nil c .nlink, truthy_bool _⟩
  case mirrorCount c => cases hgen; simp [Spec.testHolds] at hb; subst hb; exact ⟨_, eval_genCmp _ hg envGen_nil c .mirror, truthy_bool _⟩
  case stripeCount c => cases hgen; simp [Spec.testHolds] at hb; subst hb; exact ⟨_, eval_genCmp _ hg envGen_nil c .stripe, truthy_bool _⟩
  case size c => cases hgen; simp [Spec.testHolds] at hb; subst hb; exact ⟨_, eval_genSizeComp _ hg envGen_nil c, truthy_bool _⟩
  case type l => cases hgen; simp [Spec.testHolds] at hb; subst hb; exact ⟨_, eval_genTypeList _ hg envGen_nil l, truthy_bool _⟩
  case perm p => cases hgen; simp [Spec.testHolds] at hb; subst hb; exact ⟨_, eval_genPermCheck _ hg envGen_nil p, truthy_bool _⟩
  case pool s =>
    cases hgen; simp [Spec.testHolds] at hb; subst hb
    obtain ⟨v, hv, ht⟩ := eval_pool (apN closureDepth) hg envGen_nil s
    exact ⟨v, hv, by rw [ht]⟩
  case xattr k => cases hgen; simp [Spec.testHolds] at hb; subst hb; exact ⟨_, eval_xattrP _ hg envGen_nil k, truthy_bool _⟩
  case xattrMatch k v =>
    simp only [Spec.testHolds, ← offending_eq] at hb
    by_cases hc : (k.any isOffending || v.any isOffending) = true
    · simp only [hc, Bool.not_true, Bool.false_eq_true, if_false, if_true] at hgen hb
      cases hgen; cases hb
      exact ⟨_, eval_xattrMatch _ hg envGen_nil k v, truthy_bool _⟩
    · have hc' : (k.any isOffending || v.any isOffending) = false := by simpa using hc
      simp only [hc', Bool.not_false, if_true, Bool.false_eq_true, if_false] at hgen hb
      cases hgen; cases hb
      exact ⟨_, eval_xattrEqual _ hg envGen_nil k v, truthy_bool _⟩
  case name s =>
    simp [Spec.testHolds] at hb; subst hb
    have h := hgen; simp only [CRes.ok.injEq, Prod.mk.injEq] at h
    exact ⟨_, nameCase _ _ _ s false .name h.1.symm h.2.symm, truthy_bool _⟩
  case insensitiveName s =>
    simp [Spec.testHolds] at hb; subst hb
    have h := hgen; simp only [CRes.ok.injEq, Prod.mk.injEq] at h
    exact ⟨_, nameCase _ _ _ s true .name h.1.symm h.2.symm, truthy_bool _⟩
  case path s =>
    simp [Spec.testHolds] at hb; subst hb
    have h := hgen; simp only [CRes.ok.injEq, Prod.mk.injEq] at h
    exact ⟨_, nameCase _ _ _ s false .path h.1.symm h.2.symm, truthy_bool _⟩
  case insensitivePath s =>
    simp [Spec.testHolds] at hb; subst hb
    have h := hgen; simp only [CRes.ok.injEq, Prod.mk.injEq] at h
    exact ⟨_, nameCase _ _ _ s true .path h.1.symm h.2.symm, truthy_bool _⟩
  all_goals (simp [Spec.testHolds] at hb)

end Scheme
end FV

namespace FV
namespace Scheme
open Spec (File Rt Dest Output Outcome)

theorem Agrees.single {io : Option (List (Nat × Target))} {r : R Val} {evs : List Event} {o : Output}
    (h : r = .ok .unspec evs) (hd : decode io evs = some [o]) : Agrees io r (.done true [o]) :=
  ⟨.unspec, evs, h, rfl, hd⟩

/-- Actions. -/
theorem action_sem {mF : Manager} {cx : Ctx} (now : Nat) (a : Action) (st st' : CState) (sx : SExp)
    (hgen : genAction a st = .ok (sx, st')) (hinv : Inv st.mgr) (hstep : Step st'.mgr mF) (hF : FinalEnv mF cx) :
    Agrees mF.printerMap (eval (apN closureDepth) cx [] sx) (Spec.evalFind cx.rt now (.action a) cx.file) := by
  have hg := hF.gen
  have pathCase : ∀ (r : Text × Manager) (dest : Option Text) (term : Option Char),
      Step st.mgr r.2 → PrinterFor r.2 r.1 dest term → termV term = term →
      sx = call (cl!"call-with-relative-path") [sy r.1] → st' = { st with mgr := r.2 } →
      Agrees mF.printerMap (eval (apN closureDepth) cx [] sx) (.done true [⟨destD dest, cx.file.relPath, term⟩]) := by
    intro r dest term _ hpf hterm hsx hst
    subst hst
    obtain ⟨evs, hev, hdec⟩ := printer_path r.1 dest term hpf hstep hF hterm
    exact Agrees.single (hsx ▸ hev) hdec
  have fmtCase : ∀ (r : Text × Manager) (dest : Option Text) (es : List FormatElement),
      PrinterFor r.2 r.1 dest none →
      (match genFormat es with
        | .error x => CRes.err x
        | .ok f => CRes.ok (call r.1 [f], { st with mgr := r.2 })) = CRes.ok (sx, st') →
      Agrees mF.printerMap (eval (apN closureDepth) cx [] sx)
        (match (Spec.formatText cx.rt cx.file es).map (fun b => (⟨destD dest, b, none⟩ : Output)) with
          | some o => .done true [o]
          | none => .undefined) := by
    intro r dest es hpf hres
    cases hf : genFormat es with
    | error x => rw [hf] at hres; cases hres
    | ok f =>
      rw [hf] at hres
      simp only [CRes.ok.injEq, Prod.mk.injEq] at hres
      obtain ⟨rfl, rfl⟩ := hres
      cases hs : Spec.formatText cx.rt cx.file es with
      | none => trivial
      | some txt =>
        have ha := eval_genFormat closureDepth hg es f txt hf hs
        obtain ⟨evs, hev, hdec⟩ := printer_apply r.1 dest none hpf hstep hF termV_none f txt ha
        exact Agrees.single hev hdec
  cases a <;> simp only [genAction] at hgen
  case defaultPrint =>
    cases hgen
    refine Agrees.single (evs := [.record .stdout cx.file.relPath (some '\n')]) ?_ (by simp [decode])
    rw [eval_call _ hg envGen_nil _ _ [] [] (by decide) (by rfl) (by decide) (by decide) (by decide) (by decide) (by simp)]; rfl
  case printFid =>
    cases hgen
    refine Agrees.single (evs := [.record .stdout cx.file.fid (some '\n')]) ?_ (by simp [decode])
    rw [eval_call _ hg envGen_nil _ _ [] [] (by decide) (by rfl) (by decide) (by decide) (by decide) (by decide) (by simp)]; rfl
  case quit =>
    cases hgen
    refine ⟨[], ?_, by simp [decode]⟩
    rw [eval_call _ hg envGen_nil _ _ _ _ (by decide) (by rfl) (by decide) (by decide) (by decide) (by decide)
      (evalArgs_one _ _ _ (eval_num _ _))]
    rfl
  case print =>
    have h := hgen; simp only [CRes.ok.injEq, Prod.mk.injEq] at h
    have hs := getPrinter_spec st.mgr (some '\n') hinv
    exact pathCase _ none _ hs.1 hs.2.1 termV_nl h.1.symm h.2.symm
  case printNull =>
    have h := hgen; simp only [CRes.ok.injEq, Prod.mk.injEq] at h
    have hs := getPrinter_spec st.mgr (some '\x00') hinv
    exact pathCase _ none _ hs.1 hs.2.1 termV_nul h.1.symm h.2.symm
  case filePrint d =>
    have h := hgen; simp only [CRes.ok.injEq, Prod.mk.injEq] at h
    have hs := getFilePrinter_spec st.mgr d (some '\n') hinv
    exact pathCase _ (some d) _ hs.1 hs.2.1 termV_nl h.1.symm h.2.symm
  case filePrintNull d =>
    have h := hgen; simp only [CRes.ok.injEq, Prod.mk.injEq] at h
    have hs := getFilePrinter_spec st.mgr d (some '\x00') hinv
    exact pathCase _ (some d) _ hs.1 hs.2.1 termV_nul h.1.symm h.2.symm
  case printFormatted es =>
    have hs := getPrinter_spec st.mgr none hinv
    exact fmtCase _ none es hs.2.1 hgen
  case filePrintFormatted d es =>
    have hs := getFilePrinter_spec st.mgr d none hinv
    exact fmtCase _ (some d) es hs.2.1 hgen
  all_goals cases hgen

end Scheme
end FV

namespace FV
namespace Scheme
open Spec (File Rt Dest Output Outcome)

theorem eval_not (ap : CloAp) (cx : Ctx) (hg : EnvGen cx.env) (sx : SExp) :
    eval ap cx [] (call (cl!"not") [sx]) = (eval ap cx [] sx).bind fun v => .ok (.bool (!v.truthy)) [] := by
  unfold call sy
  rw [eval_prim ap hg envGen_nil _ .not _ (by decide) (by rfl) (by decide) (by decide) (by decide) (by decide)]
  simp only [evalArgs]
  cases eval ap cx [] sx with
  | fail w => rfl
  | stop ev => rfl
  | ok v ev => simp [R.bind, applyVal, show primOf (cl!"not") = some Prim.not from rfl, applyPrim]

theorem eval_and2 (ap : CloAp) (cx : Ctx) (a b : SExp) :
    eval ap cx [] (call (cl!"and") [a, b]) =
      (eval ap cx [] a).bind fun v => if v.truthy then eval ap cx [] b else .ok v [] := by
  unfold call sy
  rw [eval.eq_7]
  simp [evalAnd]

theorem eval_or2 (ap : CloAp) (cx : Ctx) (a b : SExp) :
    eval ap cx [] (call (cl!"or") [a, b]) =
      (eval ap cx [] a).bind fun v => if v.truthy then .ok v [] else eval ap cx [] b := by
  unfold call sy
  rw [eval.eq_7]
  simp only [show ¬ (cl!"or" = cl!"and") by decide, if_false, if_true]
  simp [evalOr]

theorem Agrees.not_ {io : Option (List (Nat × Target))} {r : R Val} {o : Outcome} (h : Agrees io r o) :
    Agrees io (r.bind fun v => .ok (.bool (!v.truthy)) [])
      o.negate := by
  cases o with
  | undefined => trivial
  | done b outs =>
    obtain ⟨v, evs, rfl, hb, hd⟩ := h
    exact ⟨.bool (!v.truthy), evs, by simp [R.bind], by rw [truthy_bool, hb], hd⟩
  | stopped outs =>
    obtain ⟨evs, rfl, hd⟩ := h
    exact ⟨evs, rfl, hd⟩

/-- `(and a b)` is find's AND (and find's `,` as the project treats it). -/
theorem Agrees.and_ {io : Option (List (Nat × Target))} {ra rb : R Val} {oa ob : Outcome}
    (ha : Agrees io ra oa) (hb : Agrees io rb ob) :
    Agrees io (ra.bind fun v => if v.truthy then rb else .ok v [])
      (oa.andThen ob) := by
  cases oa with
  | undefined => trivial
  | stopped outs => obtain ⟨evs, rfl, hd⟩ := ha; exact ⟨evs, rfl, hd⟩
  | done b outs =>
    obtain ⟨v, evs, rfl, hv, hd⟩ := ha
    cases b with
    | true =>
      have := Agrees.prepend (v := v) hd hb
      simpa [R.bind, hv, Outcome.andThen] using this
    | false => exact ⟨v, evs, by simp [R.bind, hv], hv, hd⟩

theorem Agrees.or_ {io : Option (List (Nat × Target))} {ra rb : R Val} {oa ob : Outcome}
    (ha : Agrees io ra oa) (hb : Agrees io rb ob) :
    Agrees io (ra.bind fun v => if v.truthy then .ok v [] else rb)
      (oa.orElse ob) := by
  cases oa with
  | undefined => trivial
  | stopped outs => obtain ⟨evs, rfl, hd⟩ := ha; exact ⟨evs, rfl, hd⟩
  | done b outs =>
    obtain ⟨v, evs, rfl, hv, hd⟩ := ha
    cases b with
    | false =>
      have := Agrees.prepend (v := v) hd hb
      simpa [R.bind, hv, Outcome.orElse] using this
    | true => exact ⟨v, evs, by simp [R.bind, hv], hv, hd⟩

/-- The structured code of an expression means what the expression means. -/
theorem expr_sem {mF : Manager} {cx : Ctx} (clk : Nat → Nat) (now : Nat) (hclk : ∀ i, clk i = now) (hF : FinalEnv mF cx) :
    ∀ (e : Expr) (st st' : CState) (sx : SExp), genExpr clk e st = .ok (sx, st') → Inv st.mgr → Step st'.mgr mF →
      Agrees mF.printerMap (eval (apN closureDepth) cx [] sx) (Spec.evalFind cx.rt now e cx.file) := by
  intro e
  induction e with
  | test t =>
    intro st st' sx hgen hinv hstep
    simp only [genExpr] at hgen
    simp only [Spec.evalFind]
    cases hb : Spec.testHolds cx.rt now t cx.file with
    | none => trivial
    | some b =>
      obtain ⟨v, hv, ht⟩ := test_sem clk now hclk t st st' sx hgen hinv hstep hF b hb
      exact Agrees.pure hv ht
  | action a =>
    intro st st' sx hgen hinv hstep
    simp only [genExpr] at hgen
    exact action_sem now a st st' sx hgen hinv hstep hF
  | global g => intro st st' sx hgen; simp [genExpr] at hgen
  | positional p => intro st st' sx hgen; simp [genExpr] at hgen
  | prec e _ => intro st st' sx hgen; simp [genExpr] at hgen
  | not e ih =>
    intro st st' sx hgen hinv hstep
    simp only [genExpr] at hgen
    cases h1 : genExpr clk e st with
    | err x => rw [h1] at hgen; simp at hgen
    | panic s => rw [h1] at hgen; simp at hgen
    | ok r =>
      obtain ⟨t1, s1⟩ := r
      rw [h1] at hgen; simp at hgen
      obtain ⟨rfl, rfl⟩ := hgen
      have := ih st s1 t1 h1 hinv hstep
      rw [eval_not _ cx hF.gen]
      simp only [Spec.evalFind]
      exact this.not_
  | and a b iha ihb =>
    intro st st' sx hgen hinv hstep
    simp only [genExpr, genExpr.bin] at hgen
    cases h1 : genExpr clk a st with
    | err x => rw [h1] at hgen; simp at hgen
    | panic s => rw [h1] at hgen; simp at hgen
    | ok r =>
      obtain ⟨t1, s1⟩ := r
      rw [h1] at hgen; simp only at hgen
      cases h2 : genExpr clk b s1 with
      | err x => rw [h2] at hgen; simp at hgen
      | panic s => rw [h2] at hgen; simp at hgen
      | ok r2 =>
        obtain ⟨t2, s2⟩ := r2
        rw [h2] at hgen; simp at hgen
        obtain ⟨rfl, rfl⟩ := hgen
        have s1step := genExpr_step clk a st s1 t1 hinv h1
        have s2step := genExpr_step clk b s1 s2 t2 s1step.inv h2
        have A := iha st s1 t1 h1 hinv (s2step.trans hstep)
        have B := ihb s1 s2 t2 h2 s1step.inv hstep
        rw [eval_and2]
        simp only [Spec.evalFind]
        exact A.and_ B
  | list a b iha ihb =>
    intro st st' sx hgen hinv hstep
    simp only [genExpr, genExpr.bin] at hgen
    cases h1 : genExpr clk a st with
    | err x => rw [h1] at hgen; simp at hgen
    | panic s => rw [h1] at hgen; simp at hgen
    | ok r =>
      obtain ⟨t1, s1⟩ := r
      rw [h1] at hgen; simp only at hgen
      cases h2 : genExpr clk b s1 with
      | err x => rw [h2] at hgen; simp at hgen
      | panic s => rw [h2] at hgen; simp at hgen
      | ok r2 =>
        obtain ⟨t2, s2⟩ := r2
        rw [h2] at hgen; simp at hgen
        obtain ⟨rfl, rfl⟩ := hgen
        have s1step := genExpr_step clk a st s1 t1 hinv h1
        have s2step := genExpr_step clk b s1 s2 t2 s1step.inv h2
        have A := iha st s1 t1 h1 hinv (s2step.trans hstep)
        have B := ihb s1 s2 t2 h2 s1step.inv hstep
        rw [eval_and2]
        simp only [Spec.evalFind]
        exact A.and_ B
  | or a b iha ihb =>
    intro st st' sx hgen hinv hstep
    simp only [genExpr, genExpr.bin] at hgen
    cases h1 : genExpr clk a st with
    | err x => rw [h1] at hgen; simp at hgen
    | panic s => rw [h1] at hgen; simp at hgen
    | ok r =>
      obtain ⟨t1, s1⟩ := r
      rw [h1] at hgen; simp only at hgen
      cases h2 : genExpr clk b s1 with
      | err x => rw [h2] at hgen; simp at hgen
      | panic s => rw [h2] at hgen; simp at hgen
      | ok r2 =>
        obtain ⟨t2, s2⟩ := r2
        rw [h2] at hgen; simp at hgen
        obtain ⟨rfl, rfl⟩ := hgen
        have s1step := genExpr_step clk a st s1 t1 hinv h1
        have s2step := genExpr_step clk b s1 s2 t2 s1step.inv h2
        have A := iha st s1 t1 h1 hinv (s2step.trans hstep)
        have B := ihb s1 s2 t2 h2 s1step.inv hstep
        rw [eval_or2]
        simp only [Spec.evalFind]
        exact A.or_ B

end Scheme
end FV
