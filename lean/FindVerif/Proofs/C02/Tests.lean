import FindVerif.Proofs.C02.EvalBasic
import FindVerif.Model.GenS
/- What the emitted code of each test evaluates to: find's truth value of the test. -/
namespace FV
namespace Scheme
open Spec (File Rt Dest Output Outcome)

theorem dec_congr {p q : Prop} [ip : Decidable p] [iq : Decidable q] (h : p ↔ q) : @decide p ip = @decide q iq := by
  cases ip <;> cases iq <;> simp_all

variable (ap : CloAp) {cx : Ctx} {loc : List (Text × Val)}

/-- Calling a runtime procedure by name with pure arguments. -/
theorem eval_call (hg : EnvGen cx.env) (hl : EnvGen loc) (f : Text) (p : Prim) (args : List SExp) (vs : List Val)
    (hx : f.head? ≠ some '%') (hp : primOf f = some p)
    (h1 : f ≠ cl!"and") (h2 : f ≠ cl!"or") (h3 : f ≠ cl!"lambda") (h4 : f ≠ cl!"with-mutex")
    (hargs : evalArgs ap cx loc args = .ok vs []) :
    eval ap cx loc (call f args) = applyPrim cx (apvHO ap cx) p vs := by
  unfold call sy
  rw [eval_prim ap hg hl f p args hx hp h1 h2 h3 h4, hargs, R.bind_ok_nil, applyVal_builtin ap cx f p hp]

macro "call_tac" hg:term:max hl:term:max : tactic =>
  `(tactic| (rw [eval_call _ $hg $hl _ _ _ _ (by decide) (by rfl) (by decide) (by decide) (by decide) (by decide)]))

@[simp] theorem eval_num (n : Nat) : eval ap cx loc (.num n) = .ok (.int n) [] := by simp [eval]
@[simp] theorem eval_str (s : Text) : eval ap cx loc (.str s) = .ok (.str s) [] := by simp [eval]
@[simp] theorem eval_chr (c : Nat) : eval ap cx loc (.chr c) = .ok (.chr c) [] := by simp [eval]
@[simp] theorem eval_bool (b : Bool) : eval ap cx loc (.bool b) = .ok (.bool b) [] := by simp [eval]

theorem evalArgs_two (a b : SExp) (va vb : Val) (h1 : eval ap cx loc a = .ok va []) (h2 : eval ap cx loc b = .ok vb []) :
    evalArgs ap cx loc [a, b] = .ok [va, vb] [] := by
  simp [evalArgs, h1, h2]

theorem evalArgs_one (a : SExp) (va : Val) (h1 : eval ap cx loc a = .ok va []) :
    evalArgs ap cx loc [a] = .ok [va] [] := by
  simp [evalArgs, h1]

/-- Numeric accessors. -/
inductive NumAcc : Text → Prim → (File → Nat) → Prop
  | size : NumAcc (cl!"size") .size (·.size)
  | gid : NumAcc (cl!"gid") .gid (·.gid)
  | uid : NumAcc (cl!"uid") .uid (·.uid)
  | ino : NumAcc (cl!"ino") .ino (·.ino)
  | nlink : NumAcc (cl!"nlink") .nlink (·.nlink)
  | mirror : NumAcc (cl!"lov-mirror-count") .mirrorCount (·.mirrorCount)
  | stripe : NumAcc (cl!"lov-stripe-count") .stripeCount (·.stripeCount)
  | atime : NumAcc (cl!"atime") .atime (·.atime)
  | ctime : NumAcc (cl!"ctime") .ctime (·.ctime)
  | mtime : NumAcc (cl!"mtime") .mtime (·.mtime)
  | mode : NumAcc (cl!"mode") .mode (·.mode)
  | blocks : NumAcc (cl!"blocks") .blocks (·.blocks)
  | projid : NumAcc (cl!"projid") .projid (·.projid)
  | stripeSize : NumAcc (cl!"lov-stripe-size") .stripeSize (·.stripeSize)

theorem eval_numAcc (hg : EnvGen cx.env) (hl : EnvGen loc) {f : Text} {p : Prim} {g : File → Nat} (h : NumAcc f p g) :
    eval ap cx loc (call f []) = .ok (.int (g cx.file)) [] := by
  cases h <;> (rw [eval_call ap hg hl _ _ [] [] (by decide) (by rfl) (by decide) (by decide) (by decide) (by decide) (by simp)]; rfl)

theorem eval_cmp (hg : EnvGen cx.env) (hl : EnvGen loc) {α : Type} (c : Comparison α) (a b : SExp) (x y : Int)
    (ha : eval ap cx loc a = .ok (.int x) []) (hb : eval ap cx loc b = .ok (.int y) []) :
    eval ap cx loc (call (cmpOp c) [a, b]) =
      .ok (.bool (match c with | .gt _ => decide (x > y) | .lt _ => decide (x < y) | .eq _ => decide (x = y))) [] := by
  have hargs := evalArgs_two ap a b _ _ ha hb
  cases c <;> (simp only [cmpOp]; rw [eval_call ap hg hl _ _ _ _ (by decide) (by rfl) (by decide) (by decide) (by decide) (by decide) hargs]; rfl)

theorem eval_genCmp (hg : EnvGen cx.env) (hl : EnvGen loc) (c : Comparison Nat) {f : Text} {p : Prim} {g : File → Nat}
    (h : NumAcc f p g) : eval ap cx loc (genCmp c f) = .ok (.bool (Spec.cmp c (g cx.file))) [] := by
  unfold genCmp
  rw [eval_cmp ap hg hl c _ _ (g cx.file) c.val (eval_numAcc ap hg hl h) (eval_num ap _)]
  cases c <;> simp only [Spec.cmp, Comparison.val] <;> congr 2 <;> apply dec_congr <;> omega

end Scheme
end FV

namespace FV
namespace Scheme
open Spec (File Rt Dest Output Outcome)

variable (ap : CloAp) {cx : Ctx} {loc : List (Text × Val)}

theorem mult_pos (s : Size) : 0 < s.mult := by cases s <;> simp [Size.mult]

theorem sizeUnit_eq (s : Size) : Spec.sizeUnit s = s.mult := by cases s <;> rfl
theorem sizeCount_eq (s : Size) : Spec.sizeCount s = s.count := by cases s <;> rfl

theorem eval_roundUp (hg : EnvGen cx.env) (hl : EnvGen loc) (m : Nat) (hm : 0 < m) :
    eval ap cx loc (call (cl!"round-up-power-of-2") [call (cl!"size") [], .num m]) =
      .ok (.int (((cx.file.size + m - 1) / m * m : Nat))) [] := by
  rw [eval_call ap hg hl _ _ _ _ (by decide) (by rfl) (by decide) (by decide) (by decide) (by decide)
    (evalArgs_two ap _ _ _ _ (eval_numAcc ap hg hl .size) (eval_num ap _))]
  have : m ≠ 0 := by omega
  simp [applyPrim, this]

theorem eval_genSizeComp (hg : EnvGen cx.env) (hl : EnvGen loc) (c : Comparison Size) :
    eval ap cx loc (genSizeComp c) = .ok (.bool (Spec.sizeHolds c cx.file.size)) [] := by
  have hm := mult_pos c.val
  unfold genSizeComp
  have key : ∀ (lhs : SExp) (x : Nat), eval ap cx loc lhs = .ok (.int x) [] →
      (x > c.val.count * c.val.mult ↔ (cx.file.size + c.val.mult - 1) / c.val.mult > c.val.count) →
      (x < c.val.count * c.val.mult ↔ (cx.file.size + c.val.mult - 1) / c.val.mult < c.val.count) →
      (x = c.val.count * c.val.mult ↔ (cx.file.size + c.val.mult - 1) / c.val.mult = c.val.count) →
      eval ap cx loc (call (cmpOp c) [lhs, .num (exactByteSize c.val)]) = .ok (.bool (Spec.sizeHolds c cx.file.size)) [] := by
    intro lhs x hl' h1 h2 h3
    rw [eval_cmp ap hg hl c _ _ x (exactByteSize c.val) hl' (eval_num ap _)]
    simp only [Spec.sizeHolds, sizeUnit_eq, exactByteSize]
    cases c <;> simp only [Spec.cmp, Comparison.map, Comparison.val, sizeCount_eq] at * <;> congr 2 <;> apply dec_congr <;> omega
  have hdiv : ∀ q n : Nat, (q * c.val.mult > n * c.val.mult ↔ q > n) ∧ (q * c.val.mult < n * c.val.mult ↔ q < n) ∧
      (q * c.val.mult = n * c.val.mult ↔ q = n) := by
    intro q n
    refine ⟨⟨fun h => Nat.lt_of_mul_lt_mul_right h, fun h => Nat.mul_lt_mul_of_pos_right h hm⟩,
      ⟨fun h => Nat.lt_of_mul_lt_mul_right h, fun h => Nat.mul_lt_mul_of_pos_right h hm⟩,
      ⟨fun h => Nat.eq_of_mul_eq_mul_right hm h, fun h => by rw [h]⟩⟩
  cases hc : c.val with
  | byte n =>
    simp only [sizeLhsS]
    have hb : c.val.mult = 1 := by rw [hc]; rfl
    rw [← hc]
    refine key _ cx.file.size (eval_numAcc ap hg hl .size) ?_ ?_ ?_ <;> rw [hb] <;> simp
  | word n | block n | kilo n | mega n | giga n | tera n =>
    simp only [sizeLhsS]
    rw [← hc]
    have hq := hdiv ((cx.file.size + c.val.mult - 1) / c.val.mult) c.val.count
    have e := eval_roundUp ap hg hl c.val.mult hm
    have hmm : (Size.mult c.val) = c.val.mult := rfl
    refine key _ _ (by rw [hc] at e ⊢; exact e) hq.1 hq.2.1 hq.2.2

theorem secs_pos (t : TimeSpec) : t.secs ≠ 0 := by cases t <;> simp [TimeSpec.secs]
theorem timeUnit_eq (t : TimeSpec) : Spec.timeUnit t = t.secs := by cases t <;> rfl
theorem timeCount_eq (t : TimeSpec) : Spec.timeCount t = t.count := by cases t <;> rfl

theorem eval_genTimeComp (hg : EnvGen cx.env) (hl : EnvGen loc) (now : Nat) (c : Comparison TimeSpec)
    {f : Text} {p : Prim} {g : File → Nat} (h : NumAcc f p g) :
    eval ap cx loc (genTimeComp now f c) = .ok (.bool (Spec.timeHolds c now (g cx.file))) [] := by
  unfold genTimeComp
  have hsub : eval ap cx loc (call (cl!"-") [.num now, call f []]) = .ok (.int ((now : Int) - (g cx.file : Int))) [] := by
    rw [eval_call ap hg hl _ _ _ _ (by decide) (by rfl) (by decide) (by decide) (by decide) (by decide)
      (evalArgs_two ap _ _ _ _ (eval_num ap _) (eval_numAcc ap hg hl h))]
    rfl
  have hq : eval ap cx loc (call (cl!"quotient") [call (cl!"-") [.num now, call f []], .num c.val.secs]) =
      .ok (.int (Int.tdiv ((now : Int) - (g cx.file : Int)) (c.val.secs : Int))) [] := by
    rw [eval_call ap hg hl _ _ _ _ (by decide) (by rfl) (by decide) (by decide) (by decide) (by decide)
      (evalArgs_two ap _ _ _ _ hsub (eval_num ap _))]
    simp [applyPrim, secs_pos c.val]
  rw [eval_cmp ap hg hl c _ _ _ _ hq (eval_num ap _)]
  simp only [Spec.timeHolds, timeUnit_eq]
  cases c <;> simp only [Spec.cmpInt, Comparison.map, Comparison.val, timeCount_eq] <;> congr 2 <;> apply dec_congr <;> exact Iff.rfl

end Scheme
end FV
