import FindVerif.Proofs.Options
/- Lexing a whole input as a sequence of tokens read one after another. -/
namespace FV
open W

/-- From `i` (a token start) the tokens `ts` are read, each followed by blanks, leaving `r`. -/
inductive LexPrefix (pf : Profile) : Text → List Token → Text → Prop
  | nil (i : Text) : LexPrefix pf i [] i
  | cons {i t r ts r'} : token pf i = .ok t r → LexPrefix pf (r.dropWhile isBlank) ts r' → LexPrefix pf i (t :: ts) r'

def tokBody (pf : Profile) : P Char Token := terminated (token pf) multispace0

theorem tokBody_ok (pf : Profile) {i t r} (h : token pf i = .ok t r) : tokBody pf i = .ok t (r.dropWhile isBlank) := by
  simp [tokBody, terminated, map, pair, h, multispace0_ok]

theorem tokBody_err (pf : Profile) {i k c r} (h : token pf i = .err k c r) : tokBody pf i = .err k c r := by
  simp [tokBody, terminated, map, pair, h]

theorem dropWhile_length_le (p : Char → Bool) (l : Text) : (l.dropWhile p).length ≤ l.length := by
  have := takeWhile_dropWhile_length p l
  omega

/-- The token loop on a readable sequence. -/
theorem lexLoop (pf : Profile) : ∀ {i ts r}, LexPrefix pf i ts r → ∀ (fuel : Nat) (acc : List Token), i.length < fuel →
    (r = [] → repeatTillLoop pf (tokBody pf) eof fuel acc i = .ok (acc.reverse ++ ts, ()) []) ∧
    (∀ k c r', r ≠ [] → token pf r = .err k c r' → repeatTillLoop pf (tokBody pf) eof fuel acc i = .err k c r') := by
  intro i ts r h
  induction h with
  | nil i =>
    intro fuel acc hf
    cases fuel with
    | zero => omega
    | succ n =>
      refine ⟨fun hr => ?_, fun k c r' hne herr => ?_⟩
      · subst hr; simp [repeatTillLoop, eof]
      · cases i with
        | nil => exact absurd rfl hne
        | cons d ds => simp [repeatTillLoop, eof, tokBody_err pf herr]
  | @cons i t r1 ts r' htok _ ih =>
    intro fuel acc hf
    cases fuel with
    | zero => omega
    | succ n =>
      have hcons := (strict_token pf).cons i t r1 htok
      have hne : i ≠ [] := by intro he; subst he; simp at hcons
      have hlen : (r1.dropWhile isBlank).length < i.length := Nat.lt_of_le_of_lt (dropWhile_length_le _ _) hcons
      have hstep : repeatTillLoop pf (tokBody pf) eof (n + 1) acc i
          = repeatTillLoop pf (tokBody pf) eof n (t :: acc) (r1.dropWhile isBlank) := by
        cases i with
        | nil => exact absurd rfl hne
        | cons d ds =>
          have hne2 : (r1.dropWhile isBlank).length ≠ (d :: ds).length := by omega
          simp only [repeatTillLoop, eof, tokBody_ok pf htok, hne2, if_false]
      have := ih n (t :: acc) (by omega)
      rw [hstep]
      refine ⟨fun hr => ?_, fun k c r'' hne' herr => this.2 k c r'' hne' herr⟩
      rw [this.1 hr]; simp

/-- Whole input: blanks, then a readable sequence of at least one token up to the end. -/
theorem lex_of_prefix (pf : Profile) (s : Text) (t : Token) (ts : List Token)
    (h : LexPrefix pf (s.dropWhile isBlank) (t :: ts) []) : lex pf s = .ok (t :: ts) [] := by
  cases h with
  | cons htok hrest =>
    rename_i r1
    have hl := (lexLoop pf hrest ((r1.dropWhile isBlank).length + 1) [t] (by omega)).1 rfl
    simp only [lex, map, preceded, pair, multispace0_ok, repeatTill1]
    have : terminated (token pf) multispace0 (s.dropWhile isBlank) = .ok t (r1.dropWhile isBlank) := tokBody_ok pf htok
    simp only [this]
    have hl' : repeatTillLoop pf (terminated (token pf) multispace0) eof ((r1.dropWhile isBlank).length + 1) [t]
        (r1.dropWhile isBlank) = .ok ([t].reverse ++ ts, ()) [] := hl
    simp [hl']

/-- Whole input: a readable sequence, then a token that fails: the lexer fails with that error,
    at that position, wherever it stands. -/
theorem lex_error_at (pf : Profile) (s : Text) (ts : List Token) (r : Text) (k : Bool) (c : List Ctx) (r' : Text)
    (h : LexPrefix pf (s.dropWhile isBlank) ts r) (hr : r ≠ [] ∨ ts = []) (herr : token pf r = .err k c r') :
    lex pf s = .err k c r' := by
  simp only [lex, map, preceded, pair, multispace0_ok, repeatTill1]
  cases h with
  | nil i =>
    have : terminated (token pf) multispace0 (s.dropWhile isBlank) = .err k c r' := tokBody_err pf herr
    simp [this]
  | cons htok hrest =>
    rename_i t r1 ts'
    have hne : r ≠ [] := by rcases hr with h | h; exact h; cases h
    have hl := (lexLoop pf hrest ((r1.dropWhile isBlank).length + 1) [t] (by omega)).2 k c r' hne herr
    have : terminated (token pf) multispace0 (s.dropWhile isBlank) = .ok t (r1.dropWhile isBlank) := tokBody_ok pf htok
    simp only [this]
    have hl' : repeatTillLoop pf (terminated (token pf) multispace0) eof ((r1.dropWhile isBlank).length + 1) [t]
        (r1.dropWhile isBlank) = .err k c r' := hl
    simp [hl']

end FV
