import FindVerif.Proofs.LexGood
import FindVerif.Proofs.ClimbTotal
/- `parse` never panics, in either build profile; the options it meets are always honourable. -/
namespace FV
open W

def GlobalOption.honoured : GlobalOption → Prop
  | .depth => True
  | .threads _ => True
  | _ => False

theorem out_tryMap_none {α β : Type} (p : P Char α) : Out (tryMap (fun (_ : α) => (none : Option β)) p) (fun _ => False) := by
  intro i b r h
  simp only [tryMap] at h
  cases hp : p i with
  | ok a r' => rw [hp] at h; simp at h
  | err k c r' => rw [hp] at h; simp at h
  | panic s => rw [hp] at h; simp at h

theorem out_unary {α β : Type} {Q : α → Prop} (kw : Text) (tr : α → β) {p : P Char α} (hp : Out p Q) :
    Out (unary kw tr p) (fun b => ∃ a, b = tr a ∧ Q a) :=
  out_map _ (out_context _ (out_preceded (out_cutErr (out_preceded (out_cutErr hp)))))

theorem out_parseGlobal : Out parseGlobal GlobalOption.honoured := by
  unfold parseGlobal
  apply out_context
  apply out_alt
  intro p hp
  simp at hp
  rcases hp with rfl | rfl | rfl | rfl
  · intro i g r h
    obtain ⟨_, rfl, _⟩ := out_map (Q := fun _ => True) _ (fun _ _ _ _ => trivial) i g r h
    trivial
  · intro i g r h
    obtain ⟨a, _, hf⟩ := out_unary _ _ (out_context _ (out_tryMap_none _)) i g r h
    exact hf.elim
  · intro i g r h
    obtain ⟨a, _, hf⟩ := out_unary _ _ (out_context _ (out_tryMap_none _)) i g r h
    exact hf.elim
  · intro i g r h
    obtain ⟨a, rfl, _⟩ := out_unary (Q := fun _ => True) _ _ (fun _ _ _ _ => trivial) i g r h
    trivial

def Token.globalsHonoured : Token → Prop
  | .global g => g.honoured
  | _ => True

theorem out_token (pf : Profile) : Out (token pf) Token.globalsHonoured := by
  unfold token
  apply out_context
  apply out_alt
  intro p hp
  simp at hp
  rcases hp with rfl | rfl | rfl | rfl | rfl | rfl | rfl | rfl | rfl | rfl | rfl
  all_goals first
    | (intro i t r h
       obtain ⟨_, rfl, _⟩ := out_map (Q := fun _ => True) _ (fun _ _ _ _ => trivial) i t r h
       trivial)
    | (intro i t r h
       obtain ⟨g, rfl, hg⟩ := out_map _ out_parseGlobal i t r h
       exact hg)
    | (intro i t r h; simp [context, fail] at h)

theorem out_lex (pf : Profile) : Out (lex pf) (fun ts => ∀ t ∈ ts, t.globalsHonoured) := by
  unfold lex
  intro i ts r h
  obtain ⟨xb, rfl, hq⟩ := out_map _ (out_preceded (p := multispace0)
    (out_repeatTill1 pf (g := eof) (out_terminated (q := multispace0) (out_token pf)))) i ts r h
  exact hq

theorem out_leadingGlobals (pf : Profile) : Out (leadingGlobals pf) (fun gs => ∀ g ∈ gs, g.honoured) :=
  out_preceded (out_repeat0 pf (out_terminated (out_parseGlobal)))

theorem update_isSome (o : RunOptions) (g : GlobalOption) (h : g.honoured) : (o.update g).isSome := by
  cases g <;> simp [GlobalOption.honoured] at h <;> simp [RunOptions.update]

theorem updateAll_isSome : ∀ (gs : List GlobalOption) (o : RunOptions), (∀ g ∈ gs, g.honoured) → (updateAll o gs).isSome
  | [], o, _ => by simp [updateAll]
  | g :: gs, o, h => by
    simp only [updateAll]
    have := update_isSome o g (h g (by simp))
    cases hu : o.update g with
    | none => rw [hu] at this; simp at this
    | some o' => exact updateAll_isSome gs o' (fun x hx => h x (by simp [hx]))

theorem sweepGlobals_isSome : ∀ (ts : List Token) (o : RunOptions), (∀ t ∈ ts, t.globalsHonoured) →
    (sweepGlobals o ts).isSome
  | [], o, _ => by simp [sweepGlobals]
  | t :: ts, o, h => by
    cases t with
    | global g =>
      simp only [sweepGlobals]
      have := update_isSome o g (h (.global g) (by simp))
      cases hu : o.update g with
      | none => rw [hu] at this; simp at this
      | some o' =>
        have := sweepGlobals_isSome ts o' (fun x hx => h x (by simp [hx]))
        cases hs : sweepGlobals o' ts with
        | none => rw [hs] at this; simp at this
        | some x => simp [hs]
    | _ =>
      simp only [sweepGlobals]
      have := sweepGlobals_isSome ts o (fun x hx => h x (by simp [hx]))
      cases hs : sweepGlobals o ts with
      | none => rw [hs] at this; simp at this
      | some x => simp [hs]

/-- `parse` never panics: no `unwrap`/`unreachable!` is reached, no loop guard fires, no fuel
    runs out — for every input string and both build profiles. -/
theorem parse_noPanic (pf : Profile) (s : Text) (site : Text) : parse pf s ≠ .panic site := by
  intro h
  simp only [parse] at h
  cases h1 : leadingGlobals pf s with
  | panic s' => exact (good_leadingGlobals pf).np s s' h1
  | err k c r => rw [h1] at h; simp at h
  | ok gs rest =>
    rw [h1] at h; simp only at h
    have hgs := out_leadingGlobals pf s gs rest h1
    have hu := updateAll_isSome gs {} hgs
    cases hua : updateAll {} gs with
    | none => rw [hua] at hu; simp at hu
    | some globals =>
      rw [hua] at h; simp only at h
      by_cases hre : rest.isEmpty = true
      · simp only [hre, if_true] at h
        simp only [sweepGlobals, Option.map] at h
        cases hc : climb pf [Token.test Test.true_] with
        | panic s' => exact climb_noPanic pf _ s' hc
        | err k c r => rw [hc] at h; simp at h
        | ok e r => rw [hc] at h; simp at h
      · have hre' : rest.isEmpty = false := by simpa using hre
        simp only [hre', Bool.false_eq_true, if_false] at h
        cases hl : lex pf rest with
        | panic s' => exact (good_lex pf).np rest s' hl
        | err k c r => rw [hl] at h; simp at h
        | ok tokens rest' =>
          rw [hl] at h; simp only at h
          have hts := out_lex pf rest tokens rest' hl
          have hsw := sweepGlobals_isSome tokens globals hts
          cases hs : sweepGlobals globals tokens with
          | none => rw [hs] at hsw; simp at hsw
          | some x =>
            obtain ⟨g', toks'⟩ := x
            rw [hs] at h; simp only at h
            cases hc : climb pf toks' with
            | panic s' => exact climb_noPanic pf _ s' hc
            | err k c r => rw [hc] at h; simp at h
            | ok e r => rw [hc] at h; simp at h

end FV
