import FindVerif.Model.Manager
import FindVerif.Proofs.Dec
/- Generated identifiers `%lf3:<kind>:<n>` as abstract (kind, index) pairs; their text is injective. -/
namespace FV

inductive Kind | port | mutex | print | match_ | frame | str
  deriving DecidableEq, Repr

def Kind.text : Kind → Text
  | .port => cl!"port" | .mutex => cl!"mutex" | .print => cl!"print"
  | .match_ => cl!"match" | .frame => cl!"frame" | .str => cl!"str"

structure GName where
  kind : Kind
  idx : Nat
  deriving DecidableEq, Repr

def GName.text (g : GName) : Text := lf3 g.kind.text g.idx

theorem Kind.text_injective : ∀ a b : Kind, a.text = b.text → a = b := by
  intro a b h
  cases a <;> cases b <;> first | rfl | (simp [Kind.text] at h)

theorem Kind.text_no_colon : ∀ k : Kind, ∀ c ∈ k.text, c ≠ ':' := by
  intro k c hc
  cases k <;> simp [Kind.text] at hc <;> rcases hc with h | h | h | h | h | h <;> simp_all

theorem takeWhile_append_of_all {α} (p : α → Bool) (xs : List α) (y : α) (ys : List α)
    (hx : ∀ x ∈ xs, p x = true) (hy : p y = false) : (xs ++ y :: ys).takeWhile p = xs := by
  induction xs with
  | nil => simp [hy]
  | cons x xs ih =>
    simp only [List.cons_append, List.takeWhile_cons, hx x (by simp), if_true]
    rw [ih (fun z hz => hx z (by simp [hz]))]

theorem dropWhile_append_of_all {α} (p : α → Bool) (xs : List α) (y : α) (ys : List α)
    (hx : ∀ x ∈ xs, p x = true) (hy : p y = false) : (xs ++ y :: ys).dropWhile p = y :: ys := by
  induction xs with
  | nil => simp [hy]
  | cons x xs ih =>
    simp only [List.cons_append, List.dropWhile_cons, hx x (by simp), if_true]
    exact ih (fun z hz => hx z (by simp [hz]))

theorem GName.text_injective (a b : GName) (h : a.text = b.text) : a = b := by
  simp only [GName.text, lf3, List.append_assoc] at h
  have h1 := List.append_cancel_left h
  -- split both sides at the first ':'
  have ha : ∀ x ∈ a.kind.text, (fun c => decide (c ≠ ':')) x = true := by
    intro x hx; simpa using Kind.text_no_colon a.kind x hx
  have hb : ∀ x ∈ b.kind.text, (fun c => decide (c ≠ ':')) x = true := by
    intro x hx; simpa using Kind.text_no_colon b.kind x hx
  have t1 := congrArg (List.takeWhile (fun c => decide (c ≠ ':'))) h1
  have d1 := congrArg (List.dropWhile (fun c => decide (c ≠ ':'))) h1
  simp only [show (cl!":") = [':'] from rfl, List.singleton_append] at t1 d1
  rw [takeWhile_append_of_all _ _ _ _ ha (by simp), takeWhile_append_of_all _ _ _ _ hb (by simp)] at t1
  rw [dropWhile_append_of_all _ _ _ _ ha (by simp), dropWhile_append_of_all _ _ _ _ hb (by simp)] at d1
  have hk := Kind.text_injective _ _ t1
  have hi : a.idx = b.idx := natToDec_injective (by simpa using d1)
  cases a; cases b; simp_all

end FV
