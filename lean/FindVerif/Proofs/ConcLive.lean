import FindVerif.Proofs.Conc
/- Accounting (nothing lost, nothing duplicated), progress and termination of the machine. -/
namespace FV
namespace Conc

def recOn (p : Nat) (sec : Sec) : Option (List Nat) := if sec.port = p then some (record sec) else none

def pendT (ths : List TState) (p : Nat) : List (List Nat) := (ths.flatMap (·.todo)).filterMap (recOn p)

theorem pending_eq (s : St) (p : Nat) : pending s p = pendT s.threads p := rfl

theorem pendT_split (pre post : List TState) (t : TState) (p : Nat) :
    pendT (pre ++ t :: post) p = pendT pre p ++ (t.todo.filterMap (recOn p) ++ pendT post p) := by
  simp [pendT, List.filterMap_append]

/-- A step moves at most one record from "pending" to "done", on the section's own port. -/
theorem step_perm {s s' : St} {i : Nat} (h : step s i = some s') (p : Nat) :
    (s'.doneRecs p ++ pending s' p).Perm (s.doneRecs p ++ pending s p) := by
  simp only [pending_eq]
  simp only [step] at h
  cases hti : s.threads[i]? with
  | none => rw [hti] at h; cases h
  | some t =>
    rw [hti] at h; simp only at h
    cases htodo : t.todo with
    | nil => rw [htodo] at h; cases h
    | cons sec rest =>
      rw [htodo] at h
      cases hph : t.phase with
      | idle =>
        rw [hph] at h; simp only at h
        cases hheld : held s sec.mutex with
        | true => rw [hheld] at h; cases h
        | false =>
          rw [hheld] at h; simp only [Bool.false_eq_true, if_false] at h
          cases h
          obtain ⟨pre, post, hsplit, hset⟩ := threads_split hti { todo := sec :: rest, phase := .inside 0 }
          simp only
          rw [hset, hsplit, pendT_split, pendT_split, htodo]
      | inside k =>
        rw [hph] at h; simp only at h
        cases hpc : sec.pieces[k]? with
        | some piece =>
          rw [hpc] at h; simp only at h
          cases h
          obtain ⟨pre, post, hsplit, hset⟩ := threads_split hti { todo := sec :: rest, phase := .inside (k + 1) }
          simp only
          rw [hset, hsplit, pendT_split, pendT_split, htodo]
        | none =>
          rw [hpc] at h; simp only at h
          cases h
          obtain ⟨pre, post, hsplit, hset⟩ := threads_split hti { todo := rest, phase := .idle }
          simp only
          rw [hset, hsplit, pendT_split, pendT_split, htodo]
          by_cases hp : sec.port = p
          · have : (sec :: rest).filterMap (recOn p) = record sec :: rest.filterMap (recOn p) := by
              simp [List.filterMap_cons, recOn, hp]
            rw [this]
            simp only [update, hp, if_true]
            rw [List.perm_iff_count]
            intro a
            simp only [List.count_append, List.count_cons, List.count_nil]
            omega
          · have : (sec :: rest).filterMap (recOn p) = rest.filterMap (recOn p) := by
              simp [List.filterMap_cons, recOn, hp]
            rw [this]
            have hp' : ¬ p = sec.port := fun he => hp he.symm
            simp only [update, hp', if_false]
            exact List.Perm.refl _

theorem run_perm : ∀ (sched : List Nat) (s : St) (p : Nat),
    ((run sched s).doneRecs p ++ pending (run sched s) p).Perm (s.doneRecs p ++ pending s p)
  | [], s, p => List.Perm.refl _
  | i :: is, s, p => by
    simp only [run]
    cases hs : step s i with
    | none => exact run_perm is s p
    | some s' => exact (run_perm is s' p).trans (step_perm hs p)

theorem pending_nil_of_allDone (s : St) (h : allDone s) (p : Nat) : pending s p = [] := by
  have : s.threads.flatMap (·.todo) = [] := by
    apply List.flatMap_eq_nil_iff.mpr
    intro t ht; exact h t ht
  simp [pending, this]

/-! ### progress -/

theorem step_inside {s : St} {i : Nat} {t : TState} {sec : Sec} {rest : List Sec} {k : Nat}
    (hti : s.threads[i]? = some t) (htodo : t.todo = sec :: rest) (hph : t.phase = .inside k) :
    ∃ s', step s i = some s' := by
  simp only [step, hti, htodo, hph]
  cases sec.pieces[k]? <;> exact ⟨_, rfl⟩

/-- While some thread still has work, some thread can move: the machine never deadlocks.
    (A thread takes one mutex at a time and never waits while holding it.) -/
theorem no_deadlock (s : St) (h : ¬ allDone s) : ∃ i s', step s i = some s' := by
  have : ∃ t ∈ s.threads, t.todo ≠ [] := by
    apply Classical.byContradiction
    intro hn
    apply h
    intro t ht
    apply Classical.byContradiction
    intro hne
    exact hn ⟨t, ht, hne⟩
  obtain ⟨t, ht, hne⟩ := this
  obtain ⟨i, hti⟩ := List.getElem?_of_mem ht
  cases htodo : t.todo with
  | nil => exact absurd htodo hne
  | cons sec rest =>
    cases hph : t.phase with
    | inside k => obtain ⟨s', hs⟩ := step_inside hti htodo hph; exact ⟨i, s', hs⟩
    | idle =>
      cases hheld : held s sec.mutex with
      | false => exact ⟨i, _, by simp only [step, hti, htodo, hph, hheld]; rfl⟩
      | true =>
        simp only [held, List.any_eq_true] at hheld
        obtain ⟨t', ht', hh⟩ := hheld
        obtain ⟨j, htj⟩ := List.getElem?_of_mem ht'
        unfold holds at hh
        split at hh
        · rename_i sec' rest' k' htodo' hph'
          obtain ⟨s', hs⟩ := step_inside htj htodo' hph'
          exact ⟨j, s', hs⟩
        · cases hh

/-! ### termination -/

def cost (sec : Sec) : Nat := sec.pieces.length + 2

/-- Number of moves the thread still has to make. -/
def remaining (t : TState) : Nat :=
  match t.phase, t.todo with
  | .inside k, sec :: rest => (sec.pieces.length - k) + 1 + (rest.map cost).sum
  | _, todo => (todo.map cost).sum

def total (s : St) : Nat := (s.threads.map remaining).sum

theorem total_split (pre post : List TState) (t : TState) (log : Nat → List Nat) (dr : Nat → List (List Nat)) :
    total { threads := pre ++ t :: post, log := log, doneRecs := dr } =
      (pre.map remaining).sum + (remaining t + (post.map remaining).sum) := by
  simp [total]

/-- Every move uses up exactly one unit of the remaining work. -/
theorem step_total {s s' : St} {i : Nat} (h : step s i = some s') : total s' + 1 = total s := by
  simp only [step] at h
  cases hti : s.threads[i]? with
  | none => rw [hti] at h; cases h
  | some t =>
    rw [hti] at h; simp only at h
    cases htodo : t.todo with
    | nil => rw [htodo] at h; cases h
    | cons sec rest =>
      rw [htodo] at h
      have hs : ∀ t', ∃ pre post, s.threads = pre ++ t :: post ∧ s.threads.set i t' = pre ++ t' :: post :=
        fun t' => threads_split hti t'
      have hT : ∀ pre post, s.threads = pre ++ t :: post →
          total s = (pre.map remaining).sum + (remaining t + (post.map remaining).sum) := by
        intro pre post e; simp [total, e]
      cases hph : t.phase with
      | idle =>
        rw [hph] at h; simp only at h
        cases hheld : held s sec.mutex with
        | true => rw [hheld] at h; cases h
        | false =>
          rw [hheld] at h; simp only [Bool.false_eq_true, if_false] at h
          cases h
          obtain ⟨pre, post, hsplit, hset⟩ := hs { todo := sec :: rest, phase := .inside 0 }
          rw [hT pre post hsplit]
          simp only [total, hset]
          simp [remaining, htodo, hph, cost]
          omega
      | inside k =>
        rw [hph] at h; simp only at h
        cases hpc : sec.pieces[k]? with
        | some piece =>
          rw [hpc] at h; simp only at h
          cases h
          have hk : k < sec.pieces.length := by
            rcases List.getElem?_eq_some_iff.mp hpc with ⟨hk, _⟩; exact hk
          obtain ⟨pre, post, hsplit, hset⟩ := hs { todo := sec :: rest, phase := .inside (k + 1) }
          rw [hT pre post hsplit]
          simp only [total, hset]
          simp [remaining, htodo, hph]
          omega
        | none =>
          rw [hpc] at h; simp only at h
          cases h
          have hk : sec.pieces.length ≤ k := List.getElem?_eq_none_iff.mp hpc
          obtain ⟨pre, post, hsplit, hset⟩ := hs { todo := rest, phase := .idle }
          rw [hT pre post hsplit]
          simp only [total, hset]
          simp [remaining, htodo, hph]
          omega

theorem allDone_of_total_zero (s : St) (h : total s = 0) : allDone s := by
  intro t ht
  have h0 : remaining t = 0 := by
    have := List.sum_eq_zero_iff_forall_eq_nat.mp (show (s.threads.map remaining).sum = 0 from h) (remaining t) (List.mem_map_of_mem ht)
    exact this
  cases htodo : t.todo with
  | nil => rfl
  | cons sec rest =>
    exfalso
    cases hph : t.phase with
    | idle => simp [remaining, htodo, hph, cost] at h0
    | inside k => simp [remaining, htodo, hph] at h0

/-- From every state the work can be finished: keep scheduling any enabled thread. -/
theorem can_finish : ∀ (n : Nat) (s : St), total s = n → ∃ sched, sched.length = n ∧ allDone (run sched s)
  | 0, s, h => ⟨[], rfl, allDone_of_total_zero s h⟩
  | n + 1, s, h => by
    have hnd : ¬ allDone s := by
      intro hd
      have : total s = 0 := by
        apply List.sum_eq_zero_iff_forall_eq_nat.mpr
        intro x hx
        obtain ⟨t, ht, rfl⟩ := List.mem_map.mp hx
        have := hd t ht
        unfold remaining
        split <;> simp_all
      omega
    obtain ⟨i, s', hs⟩ := no_deadlock s hnd
    have := step_total hs
    obtain ⟨sched, hl, hd⟩ := can_finish n s' (by omega)
    exact ⟨i :: sched, by simp [hl], by simp only [run, hs]; exact hd⟩

/-- The number of effective moves in any schedule. -/
def moves : List Nat → St → Nat
  | [], _ => 0
  | i :: is, s => match step s i with
    | some s' => moves is s' + 1
    | none => moves is s

/-- No schedule makes more moves than the work there is: every execution is finite, and one that
    has made `total` moves is finished. -/
theorem moves_total : ∀ (sched : List Nat) (s : St), moves sched s + total (run sched s) = total s
  | [], s => by simp [moves, run]
  | i :: is, s => by
    simp only [moves, run]
    cases hs : step s i with
    | none => exact moves_total is s
    | some s' =>
      have := moves_total is s'
      have := step_total hs
      simp only
      omega

end Conc
end FV
