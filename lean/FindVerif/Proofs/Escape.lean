import FindVerif.Model.Manager
import FindVerif.Spec.Scheme.Read
import FindVerif.Proofs.Names
/-
  The string-literal escaping used at every interpolation site is inverted by the reader:
  `"` ++ schemeEscape s ++ `"` reads back as exactly `s`, whatever follows.
-/
namespace FV
open Scheme

theorem hexVal_hexDigit : ∀ k, k < 16 → hexVal? (hexDigit k) = some k := by decide

theorem hexDigit_ne_semicolon : ∀ k, k < 16 → hexDigit k ≠ ';' := by decide

def hexStep (acc : Option Nat) (c : Char) : Option Nat :=
  match acc, hexVal? c with
  | some a, some v => some (a * 16 + v)
  | _, _ => none

theorem hexNum_eq (cs : List Char) (h : cs ≠ []) : hexNum? cs = cs.foldl hexStep (some 0) := by
  cases cs with
  | nil => exact absurd rfl h
  | cons c cs => rfl

theorem natToHexAux_spec : ∀ (fuel n : Nat) (acc : List Char) (a : Nat), n < fuel →
    (natToHexAux fuel n acc).foldl hexStep (some a) = acc.foldl hexStep (some (a * 16 ^ (natToHexAux fuel n []).length + n)) ∧
    natToHexAux fuel n acc = natToHexAux fuel n [] ++ acc := by
  intro fuel
  induction fuel with
  | zero => intro n acc a h; omega
  | succ f ih =>
    intro n acc a h
    have hd := hexVal_hexDigit (n % 16) (Nat.mod_lt _ (by omega))
    simp only [natToHexAux]
    by_cases h0 : n / 16 = 0
    · simp only [h0, if_true]
      have hn : n < 16 := by have := Nat.div_add_mod n 16; omega
      rw [Nat.mod_eq_of_lt hn] at hd ⊢
      refine ⟨?_, by simp⟩
      simp [List.foldl_cons, hexStep, hd]
    · simp only [h0, if_false]
      have hlt : n / 16 < f := by have := Nat.div_add_mod n 16; omega
      have e1 := (ih (n / 16) (hexDigit (n % 16) :: acc) a hlt)
      have e2 := (ih (n / 16) [hexDigit (n % 16)] a hlt)
      refine ⟨?_, ?_⟩
      · rw [e1.1, e2.2]
        simp only [List.foldl_cons, List.length_append, List.length_cons, List.length_nil, hexStep, hd]
        have key : (a * 16 ^ (natToHexAux f (n / 16) []).length + n / 16) * 16 + n % 16
            = a * 16 ^ ((natToHexAux f (n / 16) []).length + (0 + 1)) + n := by
          have := Nat.div_add_mod n 16
          rw [Nat.zero_add, Nat.pow_succ, Nat.add_mul, Nat.mul_assoc, Nat.add_assoc]
          congr 1
          omega
        rw [key]
      · rw [e1.2, e2.2]; simp

theorem hexNum_natToHex (n : Nat) : hexNum? (natToHex n) = some n := by
  have h := (natToHexAux_spec (n + 1) n [] 0 (by omega)).1
  have hne : natToHex n ≠ [] := by
    simp only [natToHex, natToHexAux]
    split <;> simp
    · intro h; have := (natToHexAux_spec n (n / 16) [hexDigit (n % 16)] 0 (by
        have := Nat.div_add_mod n 16; omega)).2
      rw [this] at h; simp at h
  rw [hexNum_eq _ hne]
  simpa [natToHex] using h

theorem natToHexAux_no_semicolon : ∀ (fuel n : Nat) (acc : List Char), (∀ c ∈ acc, c ≠ ';') →
    ∀ c ∈ natToHexAux fuel n acc, c ≠ ';' := by
  intro fuel
  induction fuel with
  | zero => intro n acc h; simpa [natToHexAux] using h
  | succ f ih =>
    intro n acc h
    simp only [natToHexAux]
    have hd := hexDigit_ne_semicolon (n % 16) (Nat.mod_lt _ (by omega))
    have hacc : ∀ c ∈ hexDigit (n % 16) :: acc, c ≠ ';' := by
      intro c hc; simp at hc; rcases hc with rfl | hc
      · exact hd
      · exact h c hc
    split
    · exact hacc
    · exact ih _ _ hacc

theorem natToHex_no_semicolon (n : Nat) : ∀ c ∈ natToHex n, c ≠ ';' :=
  natToHexAux_no_semicolon _ _ [] (by simp)

theorem takeWhile_ne_append {d : Char} (xs : List Char) (rest : List Char) (h : ∀ c ∈ xs, c ≠ d) :
    (xs ++ d :: rest).takeWhile (· ≠ d) = xs ∧ (xs ++ d :: rest).dropWhile (· ≠ d) = d :: rest :=
  ⟨takeWhile_append_of_all _ xs d rest (fun c hc => decide_eq_true (h c hc)) (by simp),
   dropWhile_append_of_all _ xs d rest (fun c hc => decide_eq_true (h c hc)) (by simp)⟩

/-- Reading back an escaped string gives the string, and leaves what follows the closing quote. -/
theorem readStr_escape (s : Text) : ∀ (acc rest : Text) (fuel : Nat), (schemeEscape s).length < fuel →
    readStr fuel acc (schemeEscape s ++ '"' :: rest) = some (acc.reverse ++ s, rest) := by
  induction s with
  | nil =>
    intro acc rest fuel h
    cases fuel with
    | zero => omega
    | succ f => simp [schemeEscape, readStr]
  | cons c cs ih =>
    intro acc rest fuel h
    cases fuel with
    | zero => omega
    | succ f =>
      simp only [schemeEscape] at h ⊢
      by_cases hq : c = '"'
      · subst hq
        simp only [if_true] at h ⊢
        simp only [List.cons_append, List.nil_append, List.length_cons, List.length_append] at h ⊢
        simp only [readStr]
        simp
        rw [ih ('"' :: acc) rest f (by simp at h ⊢; omega)]
        simp
      · by_cases hb : c = '\\'
        · subst hb
          simp only [hq, if_false, if_true] at h ⊢
          simp only [List.cons_append, List.nil_append, List.length_cons, List.length_append] at h ⊢
          simp only [readStr]
          simp
          rw [ih ('\\' :: acc) rest f (by simp at h ⊢; omega)]
          simp
        · by_cases hc : isControl c = true
          · simp only [hq, hb, hc, if_false, if_true] at h ⊢
            simp only [List.cons_append, List.nil_append, List.append_assoc] at h ⊢
            simp only [readStr]
            simp
            have hsplit := takeWhile_ne_append (d := ';') (natToHex c.toNat) (schemeEscape cs ++ '"' :: rest)
              (natToHex_no_semicolon _)
            simp only [ne_eq, decide_not] at hsplit
            rw [hsplit.1, hsplit.2, hexNum_natToHex]
            simp only
            rw [ih (Char.ofNat c.toNat :: acc) rest f (by simp at h ⊢; omega)]
            simp [Char.ofNat_toNat]
          · have hc' : isControl c = false := by simpa using hc
            simp only [hq, hb, hc', if_false, Bool.false_eq_true] at h ⊢
            simp only [List.cons_append, List.nil_append] at h ⊢
            simp only [readStr, hq, hb, if_false]
            rw [ih (c :: acc) rest f (by simp at h ⊢; omega)]
            simp

end FV
