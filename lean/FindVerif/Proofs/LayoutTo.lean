import FindVerif.Proofs.Layout
/- Layouts that stop in front of a given rest of the input (`LayoutTo`): what precedes a primary
   whose argument is wrong.  `Layout` is the case where the rest is empty. -/
namespace FV
open W Spec

/-- A layout of the tokens `ts`, followed by the text `tail`. -/
inductive LayoutTo (pf : Profile) (tail : Text) : List Token → Text → Prop
  | nil : LayoutTo pf tail [] tail
  | cons {ok : Text → Prop} {t : Token} {w ws s : Text} {ts : List Token} :
      Writes pf ok t w → (∀ c ∈ ws, isBlank c = true) → ok (ws ++ s) → LayoutTo pf tail ts s →
      LayoutTo pf tail (t :: ts) (w ++ (ws ++ s))

def NoLead (tail : Text) : Prop := tail = [] ∨ ∃ c r, tail = c :: r ∧ isBlank c = false

theorem Layout.toLayoutTo {pf ts s} (h : Layout pf ts s) : LayoutTo pf [] ts s := by
  induction h with
  | nil => exact .nil
  | cons hw hws hok _ ih => exact .cons hw hws hok ih

theorem LayoutTo.head {pf tail ts s} (ht : NoLead tail) (h : LayoutTo pf tail ts s) : NoLead s := by
  cases h with
  | nil => exact ht
  | cons hw _ _ _ =>
    obtain ⟨⟨c, r, rfl, hc⟩, _⟩ := hw
    exact Or.inr ⟨c, _, rfl, hc⟩

theorem LayoutTo.inv {pf tail t ts s} (ht : NoLead tail) (h : LayoutTo pf tail (t :: ts) s) :
    ∃ r s1, token pf s = .ok t r ∧ r.dropWhile isBlank = s1 ∧ LayoutTo pf tail ts s1 ∧ s1.length < s.length := by
  cases h with
  | @cons ok _ w ws s1 _ hw hws hok hrest =>
    obtain ⟨_, hread⟩ := hw
    obtain ⟨r, htok, hr⟩ := hread (ws ++ s1) hok
    have hd : (ws ++ s1).dropWhile isBlank = s1 := dropWhile_blanks_app ws s1 hws (hrest.head ht)
    refine ⟨r, s1, htok, by rw [hr, hd], hrest, ?_⟩
    have h1 := (strict_token pf).cons _ _ _ htok
    have h2 := dropWhile_length_le isBlank r
    rw [hr, hd] at h2
    omega

theorem LayoutTo.lexPrefix {pf tail ts s} (ht : NoLead tail) (h : LayoutTo pf tail ts s) : LexPrefix pf s ts tail := by
  induction ts generalizing s with
  | nil => cases h; exact .nil tail
  | cons t ts ih =>
    obtain ⟨r, s1, htok, hr, hrest, _⟩ := h.inv ht
    exact .cons htok (by rw [hr]; exact ih hrest)

/-- The leading-options loop in front of a layout that stops at `tail`, where the option reader
    backtracks on `tail` (it does not start with an option keyword). -/
theorem optLoop_layoutTo (pf : Profile) (tail : Text) (ht : NoLead tail) (hbt : Bt parseGlobal tail) :
    ∀ (gs : List GlobalOption) (ts : List Token) (s : Text) (n : Nat) (acc : List GlobalOption),
    LayoutTo pf tail (gs.map Token.global ++ ts) s →
    (ts = [] ∨ ∃ t ts', ts = t :: ts' ∧ isGlobalTok t = false) → s.length < n →
    ∃ s', repeatFold pf (terminated parseGlobal multispace0) (fun acc a => a :: acc) n acc s = .ok (gs.reverse ++ acc) s' ∧
      LayoutTo pf tail ts s'
  | [], ts, s, n, acc, hL, hts, hn => by
    obtain ⟨m, rfl⟩ : ∃ m, n = m + 1 := ⟨n - 1, by omega⟩
    simp only [List.map_nil, List.nil_append] at hL
    refine ⟨s, ?_, hL⟩
    have hb : Bt (terminated parseGlobal multispace0) s := by
      rcases hts with rfl | ⟨t, ts', rfl, hg⟩
      · cases hL; exact optBody_bt hbt
      · obtain ⟨r, _, htok, _⟩ := hL.inv ht
        exact optBody_bt (token_nonglobal_bt pf s t r htok hg)
    obtain ⟨c, r, hb⟩ := hb
    simpa using repeatFold_stop pf m acc s c r hb
  | g :: gs, ts, s, n, acc, hL, hts, hn => by
    obtain ⟨m, rfl⟩ : ∃ m, n = m + 1 := ⟨n - 1, by omega⟩
    simp only [List.map_cons, List.cons_append] at hL
    obtain ⟨r, s1, htok, hr, hrest, hlen⟩ := hL.inv ht
    have hpg := token_global_inv pf s g r htok
    have hbody : terminated parseGlobal multispace0 s = .ok g s1 := by
      simp [terminated, map, pair, hpg, multispace0_ok, hr]
    rw [repeatFold_step pf m acc s g s1 hbody hlen]
    obtain ⟨s', h1, h2⟩ := optLoop_layoutTo pf tail ht hbt gs ts s1 m (g :: acc) hrest hts (by omega)
    exact ⟨s', by simpa using h1, h2⟩

theorem leadingGlobals_layoutTo (pf : Profile) (tail : Text) (ht : NoLead tail) (hbt : Bt parseGlobal tail)
    (lead s : Text) (gs : List GlobalOption) (ts : List Token)
    (hlead : ∀ c ∈ lead, isBlank c = true) (hL : LayoutTo pf tail (gs.map Token.global ++ ts) s)
    (hts : ts = [] ∨ ∃ t ts', ts = t :: ts' ∧ isGlobalTok t = false) :
    ∃ s', leadingGlobals pf (lead ++ s) = .ok gs s' ∧ LayoutTo pf tail ts s' := by
  have hd : (lead ++ s).dropWhile isBlank = s := dropWhile_blanks_app lead s hlead (hL.head ht)
  obtain ⟨s', h1, h2⟩ := optLoop_layoutTo pf tail ht hbt gs ts s (s.length + 1) [] hL hts (by omega)
  refine ⟨s', ?_, h2⟩
  simp only [leadingGlobals, preceded, map, pair, multispace0_ok, hd, repeat0, h1]
  simp

/-- The option reader backtracks in front of a test or action keyword, whatever follows. -/
theorem parseGlobal_bt_kw (kw : Text) (h : kw ∈ testKws ∨ kw ∈ actionKws) (x : Text) : Bt parseGlobal (kw ++ x) := by
  apply parseGlobal_bt
  intro g hg
  rcases h with h | h
  · apply not_prefix_of_append
    · have := global_test_cross
      simp only [crossSafe, List.all_eq_true] at this
      simpa using this g hg kw h
    · have := test_global_cross
      simp only [crossSafe, List.all_eq_true] at this
      simpa using this kw h g hg
  · apply not_prefix_of_append
    · have := global_action_cross
      simp only [crossSafe, List.all_eq_true] at this
      simpa using this g hg kw h
    · have := action_global_cross
      simp only [crossSafe, List.all_eq_true] at this
      simpa using this kw h g hg

end FV
