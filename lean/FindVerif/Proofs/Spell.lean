import FindVerif.Spec.Spell
namespace FV
namespace Spec

theorem GAtom.toList {ts e} (h : GAtom ts e) : GList ts e := .or (.and (.atom h))
theorem GAnd.toList {ts e} (h : GAnd ts e) : GList ts e := .or (.and h)

/-- The grammar relation at a binding level. -/
def GLevel : Nat → List Token → Expr → Prop
  | 0 => GList
  | 1 => GOr
  | 2 => GAnd
  | _ => GAtom

theorem GLevel.ofAtom {ts e} (h : GAtom ts e) : ∀ lvl, GLevel lvl ts e
  | 0 => h.toList
  | 1 => .and (.atom h)
  | 2 => .atom h
  | _ + 3 => h

theorem GLevel.toList {ts e} : ∀ lvl, GLevel lvl ts e → GList ts e
  | 0, h => h
  | 1, h => .or h
  | 2, h => GAnd.toList h
  | _ + 3, h => GAtom.toList h

/-- A sentence at level `have_` placed where level `lvl` is required: wrapped in parentheses
    exactly when it binds looser. -/
theorem glevel_wrap {ts e} (have_ lvl : Nat) (hh : have_ ≤ 3) (h : GLevel have_ ts e)
    (hup : ∀ l, l ≤ have_ → GLevel l ts e) : GLevel lvl (wrap (decide (have_ < lvl)) ts) e := by
  by_cases hlt : have_ < lvl
  · simp only [hlt, decide_true, wrap, if_true]
    exact GLevel.ofAtom (.paren (GLevel.toList have_ h)) lvl
  · simp only [hlt, decide_false, wrap]
    exact hup lvl (by omega)

theorem spellAt_sound (x : Bool) : ∀ (e : Expr), Plain e → ∀ lvl, GLevel lvl (spellAt x lvl e) e
  | .test t, _, lvl => GLevel.ofAtom (.prim rfl) lvl
  | .action a, _, lvl => GLevel.ofAtom (.prim rfl) lvl
  | .global g, _, lvl => GLevel.ofAtom (.prim rfl) lvl
  | .positional p, _, lvl => GLevel.ofAtom (.prim rfl) lvl
  | .prec e, h, _ => h.elim
  | .not e, h, lvl => GLevel.ofAtom (.not (spellAt_sound x e h 3)) lvl
  | .and a b, h, lvl => by
    have ha : GAnd (spellAt x 2 a) a := spellAt_sound x a h.1 2
    have hb : GAtom (spellAt x 3 b) b := spellAt_sound x b h.2 3
    have hand : GAnd (spellAt x 2 a ++ (if x then [Token.and] else []) ++ spellAt x 3 b) (.and a b) := by
      cases x
      · simpa using GAnd.andI ha hb
      · simpa using GAnd.andE ha hb
    simp only [spellAt]
    refine glevel_wrap 2 lvl (by omega) hand ?_
    intro l hl
    match l, hl with
    | 0, _ => exact GAnd.toList hand
    | 1, _ => exact .and hand
    | 2, _ => exact hand
  | .or a b, h, lvl => by
    have ha : GOr (spellAt x 1 a) a := spellAt_sound x a h.1 1
    have hb : GAnd (spellAt x 2 b) b := spellAt_sound x b h.2 2
    have hor : GOr (spellAt x 1 a ++ [Token.or] ++ spellAt x 2 b) (.or a b) := by
      simpa using GOr.or ha hb
    simp only [spellAt]
    refine glevel_wrap 1 lvl (by omega) hor ?_
    intro l hl
    match l, hl with
    | 0, _ => exact .or hor
    | 1, _ => exact hor
  | .list a b, h, lvl => by
    have ha : GList (spellAt x 0 a) a := spellAt_sound x a h.1 0
    have hb : GOr (spellAt x 1 b) b := spellAt_sound x b h.2 1
    have hl : GList (spellAt x 0 a ++ [Token.comma] ++ spellAt x 1 b) (.list a b) := by
      simpa using GList.comma ha hb
    simp only [spellAt]
    refine glevel_wrap 0 lvl (by omega) hl ?_
    intro l hl'
    match l, hl' with
    | 0, _ => exact hl

theorem spell_sound (x : Bool) (e : Expr) (h : Plain e) : GList (spell x e) e :=
  spellAt_sound x e h 0

end Spec
end FV
